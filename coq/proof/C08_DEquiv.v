(** C08 — directed inputs: equivariance of the exact back-end's search on a DiGraph.  If [h] is, on the covered
    attributes, the digraph [g] renumbered by an injective [pi] (any insertion order of nodes and arcs, any atom maps),
    every ingredient of the search is related ([dsigN_rel], [dinit_rel], [dnlabel_rel]), the leaf enumerations
    correspond up to order and the minimal label is the same ([dnauty_label_rel]).  Mirrors C08_Equiv.v; the
    successor-only signature of nauty._node_signature is equivariant although it does not see the arcs into a node. *)
From Coq Require Import String List NArith ZArith Bool Arith Lia Permutation.
From SK Require Import lib.LGraph lib.IRSortKeys lib.IRCore lib.IRSearch lib.StrJoin.
From SK Require Import model.C08_Model model.C08_Digraph proof.C08_Spec proof.C08_DSpec proof.C08_Sort proof.C08_Faithful proof.C08_Cov
                       proof.C08_SigFun proof.C08_Render proof.C08_IR proof.C08_Nauty proof.C08_Equiv proof.C08_DSer proof.C08_DNauty.
From SK Require lib.IRInst.
Import ListNotations.

Lemma ncov_attr_perm g h v : NoDup (node_ids g) -> Permutation (cov_nodes g) (cov_nodes h) -> ncov (attr_of g v) = ncov (attr_of h v).
Proof.
  intros Hnd H. rewrite !ncov_attr_cov. rewrite (assoc_perm v (cov_nodes g) (cov_nodes h)); auto.
  rewrite <- node_ids_cov. exact Hnd.
Qed.

(* the arc u -> v through the covered arc list *)
Definition dckey (u v : N) (c : N * N * ecv) : bool := N.eqb (fst (fst c)) u && N.eqb (snd (fst c)) v.
Definition dclook (u v : N) (l : list (N * N * ecv)) : option ecv := option_map snd (find (dckey u v) l).
Lemma arc_cov (g : graph) u v : option_map ecov (arc g u v) = dclook u v (dcov_edges g).
Proof.
  unfold arc, dclook, dcov_edges. induction (gedges g) as [|[[a b] x] l IH]; [reflexivity|].
  cbn [map find find_arc]. unfold dckey at 1. cbn [dcove fst snd].
  destruct (N.eqb a u && N.eqb b v); [reflexivity|exact IH].
Qed.
Lemma dclook_perm u v l l' : NoDup (map fst l) -> Permutation l l' -> dclook u v l = dclook u v l'.
Proof.
  intros Hnd Hp. unfold dclook.
  assert (Hnd' : NoDup (map fst l')) by (eapply Permutation_NoDup; [apply Permutation_map; exact Hp|exact Hnd]).
  assert (K : forall c d, dckey u v c = true -> dckey u v d = true -> fst c = fst d).
  { intros [[a b] x] [[a' b'] y]. unfold dckey. cbn [fst snd]. intros H1 H2.
    apply andb_prop in H1, H2. destruct H1 as [A1 A2], H2 as [B1 B2]. apply N.eqb_eq in A1, A2, B1, B2. congruence. }
  destruct (find (dckey u v) l) as [c|] eqn:E.
  - apply find_some in E. destruct E as [I Hk].
    destruct (find (dckey u v) l') as [d|] eqn:E'.
    + apply find_some in E'. destruct E' as [I' Hk']. f_equal. f_equal.
      apply (NoDup_map_key_inj fst l' Hnd'); auto. apply (Permutation_in _ Hp). exact I.
    + exfalso. pose proof (find_none _ _ E' c (Permutation_in _ Hp I)) as H. congruence.
  - destruct (find (dckey u v) l') as [d|] eqn:E'; auto.
    apply find_some in E'. destruct E' as [I' Hk']. exfalso.
    pose proof (find_none _ _ E d (Permutation_in _ (Permutation_sym Hp) I')) as H. congruence.
Qed.
Lemma arc_dgeq_cov g h u v : dsimple g -> dgeq_cov g h -> option_map ecov (arc g u v) = option_map ecov (arc h u v).
Proof. intros [_ Hs] [_ H]. rewrite !arc_cov. apply dclook_perm; auto. Qed.

(* arcs leaving a node through the covered arc list *)
Definition dout1 (v : N) (e : N * N * eattr) : list (N * eattr) := let '(a, b, x) := e in if N.eqb a v then [(b, x)] else [].
Definition doutc (v : N) (c : N * N * ecv) : list (N * ecv) := let '(a, b, x) := c in if N.eqb a v then [(b, x)] else [].
Lemma dout_flat g v : dout g v = flat_map (dout1 v) (gedges g).
Proof. unfold dout. apply flat_map_ext. intros [[a b] x]. reflexivity. Qed.
Lemma dout_dcov g v : map ce (dout g v) = flat_map (doutc v) (dcov_edges g).
Proof.
  rewrite dout_flat. unfold dcov_edges. rewrite flat_map_map_l, map_flat_map_l.
  apply flat_map_ext. intros [[a b] x]. unfold dout1, doutc, dcove. destruct (N.eqb a v); reflexivity.
Qed.

Section DRel.
Variable pi : N -> N.
Hypothesis pi_inj : forall x y, pi x = pi y -> x = y.

Lemma arc_relabel (g : graph) u v : arc (relabel pi g) (pi u) (pi v) = arc g u v.
Proof.
  unfold arc, relabel. cbn [gedges]. induction (gedges g) as [|[[a b] x] l IH]; simpl; auto.
  rewrite !(eqb_pi pi pi_inj), IH. reflexivity.
Qed.
Lemma dout_relabel (g : graph) v : dout (relabel pi g) (pi v) = map (fun p => (pi (fst p), snd p)) (dout g v).
Proof.
  rewrite !dout_flat. unfold relabel. cbn [gedges]. induction (gedges g) as [|[[a b] x] l IH]; simpl; auto.
  rewrite map_app, <- IH. f_equal. rewrite (eqb_pi pi pi_inj). destruct (N.eqb a v); reflexivity.
Qed.

Variables g h : graph.
Hypothesis Hg : dwf g.
Hypothesis Hq : dgeq_cov (relabel pi g) h.

Lemma dpi_inj_on : C08_Spec.inj_on pi (node_ids g).
Proof. intros x y _ _. apply pi_inj. Qed.
Lemma dsimple_pig : dsimple (relabel pi g).
Proof. apply dsimple_relabel; [exact Hg|apply dpi_inj_on]. Qed.

Lemma dattr_rel v : ncov (attr_of h (pi v)) = ncov (attr_of g v).
Proof. rewrite <- (ncov_attr_perm _ _ _ (proj1 dsimple_pig) (proj1 Hq)). rewrite (attr_relabel pi pi_inj). reflexivity. Qed.
Lemma arc_rel u v : option_map ecov (arc h (pi u) (pi v)) = option_map ecov (arc g u v).
Proof. rewrite <- (arc_dgeq_cov _ _ _ _ dsimple_pig Hq). rewrite arc_relabel. reflexivity. Qed.
Lemma dinc_rel v : Permutation (map ce (inc h (pi v))) (map (fun p => (pi (fst p), snd p)) (map ce (inc g v))).
Proof.
  eapply perm_trans; [rewrite inc_dcov; apply Permutation_flat_map; apply Permutation_sym; exact (proj2 Hq)|].
  rewrite <- inc_dcov. rewrite (inc_relabel pi pi_inj), !map_map. apply Permutation_refl.
Qed.
Lemma dout_rel v : Permutation (map ce (dout h (pi v))) (map (fun p => (pi (fst p), snd p)) (map ce (dout g v))).
Proof.
  eapply perm_trans; [rewrite dout_dcov; apply Permutation_flat_map; apply Permutation_sym; exact (proj2 Hq)|].
  rewrite <- dout_dcov. rewrite dout_relabel, !map_map. apply Permutation_refl.
Qed.

Lemma dacode_rel v : acode h (pi v) = acode g v.
Proof. rewrite !acode_cov, dattr_rel. reflexivity. Qed.
Lemma dnode_str_rel v : node_str h (pi v) = node_str g v.
Proof. rewrite !node_str_cov, dattr_rel. reflexivity. Qed.
Lemma dedge_bit_cov (k : graph) ab : dedge_bit k ab = EB (option_map ecov (arc k (fst ab) (snd ab))).
Proof.
  unfold dedge_bit, EB. destruct (arc k (fst ab) (snd ab)) as [[o s t]|]; [|reflexivity].
  cbn [option_map ecov eo es et]. rewrite ord_str_cov. cbn [eo et]. change (lit "1:"%string) with [49%N; 58%N]. change (lit ":"%string) with [58%N].
  cbn [app]. rewrite <- ?app_assoc. reflexivity.
Qed.
Lemma dedge_bit_rel ab : dedge_bit h (pi (fst ab), pi (snd ab)) = dedge_bit g ab.
Proof. rewrite !dedge_bit_cov. cbn [fst snd]. rewrite arc_rel. reflexivity. Qed.

Lemma ddegree_rel v : degree h (pi v) = degree g v.
Proof.
  unfold degree. f_equal. pose proof (Permutation_length (dinc_rel v)) as E. rewrite !map_length in E. exact E.
Qed.
Lemma dsucc_rel v : Permutation (map fst (dout h (pi v))) (map pi (map fst (dout g v))).
Proof.
  pose proof (Permutation_map fst (dout_rel v)) as H. rewrite !map_map in H. cbn [fst ce] in H.
  rewrite map_map. exact H.
Qed.
Lemma decodes_rel v : Permutation (map (fun p => ecode (snd p)) (dout h (pi v))) (map (fun p => ecode (snd p)) (dout g v)).
Proof.
  pose proof (Permutation_map (fun p : N * ecv => EC (snd p)) (dout_rel v)) as H. rewrite !map_map in H. cbn [snd ce] in H.
  rewrite (map_ext (fun p => ecode (snd p)) (fun p => EC (ecov (snd p)))) by (intros; apply ecode_cov).
  exact H.
Qed.

Theorem dsigN_rel P P' v : partR pi P P' -> dsigN h P' (pi v) = dsigN g P v.
Proof.
  intros HP. unfold dsigN. rewrite dacode_rel, ddegree_rel. f_equal. f_equal. f_equal.
  - induction HP as [|c c' P P' Hc HP IH]; simpl; auto. f_equal; auto.
    rewrite (cnt_perm c' _ _ (dsucc_rel v)). apply IRInst.cnt_rel; auto.
  - f_equal. apply sort_by_perm_eq; [apply decodes_rel|]. intros x y _ _ E. exact E.
Qed.

Lemma dids_rel : Permutation (map pi (node_ids g)) (node_ids h).
Proof. rewrite <- node_ids_relabel. apply dgeq_cov_ids. exact Hq. Qed.
Lemma dnnodes_rel : length (gnodes h) = length (gnodes g).
Proof.
  pose proof (Permutation_length (proj1 Hq)) as E. unfold cov_nodes, relabel in E. cbn [gnodes] in E.
  rewrite !map_length in E. symmetry. exact E.
Qed.

Theorem dinit_rel : partR pi (init_partition g) (init_partition h).
Proof.
  unfold init_partition. pose proof dnnodes_rel as Hl.
  destruct (gnodes g) as [|p l] eqn:Eg, (gnodes h) as [|p' l'] eqn:Eh; try discriminate; [constructor|].
  apply (@split_rel (list Z) lexleb IRInst.lexleb_total IRInst.lexleb_trans IRInst.lexleb_antisym pi
           (fun _ v => acode g v) (fun _ v => acode h v)).
  - intros _ _ v _. apply dacode_rel.
  - constructor.
  - unfold cellR. eapply perm_trans; [apply Permutation_map; apply sorted_ids_perm|].
    eapply perm_trans; [apply dids_rel|]. apply Permutation_sym, sorted_ids_perm.
Qed.

Lemma filter_map_pi (x : N) (p : list N) :
  filter (fun y => negb (N.eqb y (pi x))) (map pi p) = map pi (filter (fun y => negb (N.eqb y x)) p).
Proof.
  induction p as [|y p IH]; simpl; auto. rewrite (eqb_pi pi pi_inj). destruct (N.eqb y x); simpl; rewrite IH; reflexivity.
Qed.
Lemma dpairs_map (p : list N) : dpairs (map pi p) = map (fun ab => (pi (fst ab), pi (snd ab))) (dpairs p).
Proof.
  unfold dpairs. rewrite flat_map_map_l, map_flat_map_l.
  apply flat_map_ext. intros x. rewrite filter_map_pi, !map_map. reflexivity.
Qed.
Theorem dnlabel_rel p : dnlabel h (map pi p) = dnlabel g p.
Proof.
  unfold dnlabel, node_seg. rewrite dpairs_map, !map_map.
  rewrite (map_ext (fun x => node_str h (pi x)) (node_str g)) by apply dnode_str_rel.
  rewrite (map_ext (fun x => dedge_bit h (pi (fst x), pi (snd x))) (dedge_bit g)) by apply dedge_bit_rel.
  reflexivity.
Qed.

Lemma dfuel_rel : rfuel h = rfuel g /\ sfuel h = sfuel g.
Proof. unfold rfuel, sfuel. rewrite dnnodes_rel. auto. Qed.

Theorem dleaves_rel : Permutation (map (map pi) (leaves2 _ lexleb (dsigN g) (rfuel g) (children g) (sfuel g) (init_partition g) []))
                                  (leaves2 _ lexleb (dsigN h) (rfuel h) (children h) (sfuel h) (init_partition h) []).
Proof.
  destruct dfuel_rel as [-> ->].
  apply (leaves2_rel _ lexleb IRInst.lexleb_total IRInst.lexleb_trans IRInst.lexleb_antisym pi pi_inj (dsigN g) (dsigN h)
           dsigN_rel (children g) (children h) (children_perm g) (children_perm h) (rfuel g) (sfuel g)
           (init_partition g) (init_partition h) [] dinit_rel).
Qed.

Lemma dnauty_label_fold (k : graph) :
  dnauty_label k = fold_left (minl strleb) (map (dnlabel k) (leaves2 _ lexleb (dsigN k) (rfuel k) (children k) (sfuel k) (init_partition k) [])) None.
Proof.
  unfold dnauty_label, dnauty_acc. rewrite dnsearch_is_fold.
  exact (best_label_fold strleb (dnlabel k) _ (None, [])).
Qed.

Theorem dnauty_label_rel : dnauty_label h = dnauty_label g.
Proof.
  rewrite !dnauty_label_fold.
  apply (fold_minl_perm strleb strleb_total strleb_trans strleb_antisym).
  eapply perm_trans; [apply Permutation_map; apply Permutation_sym; apply dleaves_rel|].
  rewrite map_map. rewrite (map_ext (fun x => dnlabel h (map pi x)) (dnlabel g)) by apply dnlabel_rel.
  apply Permutation_refl.
Qed.
End DRel.

Print Assumptions dnauty_label_rel.
