(** C07 — the isomorphism verdict is invariant under injective relabelling of either graph.  Stdlib lists. *)
From Coq Require Import List NArith Bool Arith Lia Permutation.
From SK Require Import lib.Tok lib.LGraph lib.Mono model.C07_Model proof.C07_Spec proof.C07_Filters proof.C07_History proof.C07_Main.
Import ListNotations.

Definition inj_on (r : N -> N) (dom : list N) : Prop := forall a b, In a dom -> In b dom -> r a = r b -> a = b.

Definition grelabel (r : N -> N) (g : graph) : graph := LGraph.relabel r g.

Section Relabel.
Variables (r : N -> N) (g : graph).
Hypothesis W : gwf g.
Hypothesis Rinj : inj_on r (node_ids g).

Lemma node_ids_relabel : node_ids (grelabel r g) = map r (node_ids g).
Proof. unfold node_ids, grelabel, relabel. simpl. rewrite !map_map. reflexivity. Qed.

Lemma eqb_inj a u : In a (node_ids g) -> In u (node_ids g) -> N.eqb (r a) (r u) = N.eqb a u.
Proof.
  intros Ia Iu. destruct (N.eqb_spec a u) as [->|Hne]; [apply N.eqb_refl|].
  apply N.eqb_neq. intros E. apply Hne. apply Rinj; auto.
Qed.

Lemma assoc_relabel (l : list (N * attrs)) u : incl (map fst l) (node_ids g) -> In u (node_ids g) ->
  assoc (r u) (map (fun p => (r (fst p), snd p)) l) = assoc u l.
Proof.
  induction l as [|[k v] l IH]; simpl; intros Hin Iu; [reflexivity|].
  assert (Ik : In k (node_ids g)) by (apply Hin; left; reflexivity).
  rewrite (N.eqb_sym (r u)), (eqb_inj k u Ik Iu), (N.eqb_sym k u).
  destruct (N.eqb u k); [reflexivity|]. apply IH; auto. intros x Ix. apply Hin. right. exact Ix.
Qed.

Lemma nlabel_relabel u : In u (node_ids g) -> nlabel (grelabel r g) (r u) = nlabel g u.
Proof.
  intros Iu. unfold nlabel, label, grelabel, relabel. simpl. rewrite assoc_relabel; auto. apply incl_refl.
Qed.

Definition re (e : N * N * attrs) : N * N * attrs := let '(a, b, x) := e in (r a, r b, x).

Lemma find_edge_relabel es u v :
  (forall a b x, In (a, b, x) es -> In a (node_ids g) /\ In b (node_ids g)) -> In u (node_ids g) -> In v (node_ids g) ->
  find_edge (r u) (r v) (map re es) = find_edge u v es.
Proof.
  intros Hes Iu Iv. induction es as [|[[a b] x] es IH]; simpl; [reflexivity|].
  destruct (Hes a b x (or_introl eq_refl)) as (Ia & Ib).
  rewrite (eqb_inj a u Ia Iu), (eqb_inj b v Ib Iv), (eqb_inj a v Ia Iv), (eqb_inj b u Ib Iu).
  destruct ((N.eqb a u && N.eqb b v) || (N.eqb a v && N.eqb b u)); [reflexivity|].
  apply IH. intros a' b' x' I. apply (Hes a' b' x'). right. exact I.
Qed.

Lemma gedges_relabel : gedges (grelabel r g) = map re (gedges g).
Proof. reflexivity. Qed.

Lemma wf_endpoints a b x : In (a, b, x) (gedges g) -> In a (node_ids g) /\ In b (node_ids g).
Proof. intros I. destruct W as (_ & W2 & _). destruct (W2 a b x I) as (A & B & _). auto. Qed.

Lemma adj_relabel u v : In u (node_ids g) -> In v (node_ids g) -> LGraph.adj (grelabel r g) (r u) (r v) = LGraph.adj g u v.
Proof. intros Iu Iv. unfold LGraph.adj. rewrite gedges_relabel. apply find_edge_relabel; auto. apply wf_endpoints. Qed.

Lemma n_nodes_relabel : n_nodes (grelabel r g) = n_nodes g.
Proof. unfold n_nodes, grelabel, relabel. simpl. apply map_length. Qed.

Lemma n_edges_relabel : n_edges (grelabel r g) = n_edges g.
Proof. unfold n_edges, grelabel, relabel. simpl. apply map_length. Qed.

Lemma gwf_relabel : gwf (grelabel r g).
Proof.
  destruct W as (W1 & W2 & W3). split; [|split].
  - rewrite node_ids_relabel. apply NoDup_map_inj_in; auto.
  - intros a' b' x I. rewrite gedges_relabel in I. apply in_map_iff in I. destruct I as ([[a b] y] & E & I).
    simpl in E. inversion E; subst. destruct (W2 a b x I) as (Ia & Ib & Hne). rewrite node_ids_relabel.
    split; [apply in_map; auto|]. split; [apply in_map; auto|]. intros E'. apply Hne. apply Rinj; auto.
  - intros l1 a' b' x l2 E. rewrite gedges_relabel in E.
    apply map_eq_app in E. destruct E as (k1 & k2' & E0 & E1 & E2).
    apply map_eq_cons in E2. destruct E2 as ([[a b] y] & k2 & -> & E3 & E4). simpl in E3. inversion E3; subst.
    destruct (W3 k1 a b x k2 E0) as (N1 & N2).
    assert (Iab : In (a, b, x) (gedges g)) by (rewrite E0; apply in_or_app; right; left; reflexivity).
    destruct (W2 a b x Iab) as (Ia & Ib & _).
    split.
    + rewrite find_edge_relabel; auto. intros a' b' x' I. apply (wf_endpoints a' b' x'). rewrite E0. apply in_or_app. auto.
    + rewrite find_edge_relabel; auto. intros a' b' x' I. apply (wf_endpoints a' b' x'). rewrite E0. apply in_or_app. right. right. exact I.
Qed.

Lemma relabel_back : grelabel (finv r (node_ids g)) (grelabel r g) = g.
Proof.
  assert (Hl : forall u, In u (node_ids g) -> finv r (node_ids g) (r u) = u) by (intros u Iu; apply finv_l; auto).
  pose proof wf_endpoints as We. revert Hl We. unfold grelabel, relabel, node_ids. destruct g as [ns es]. simpl. intros Hl We.
  f_equal; rewrite map_map.
  - rewrite <- (map_id ns) at 2. apply map_ext_in. intros [k v] I. simpl. rewrite Hl; auto.
    change k with (fst (k, v)). apply in_map. exact I.
  - rewrite <- (map_id es) at 2. apply map_ext_in. intros [[a b] x] I. destruct (We a b x I) as (Ia & Ib).
    rewrite !Hl; auto.
Qed.

Lemma finv_inj_on_image : inj_on (finv r (node_ids g)) (node_ids (grelabel r g)).
Proof.
  rewrite node_ids_relabel. intros a b Ia Ib E. apply in_map_iff in Ia. apply in_map_iff in Ib.
  destruct Ia as (a0 & <- & Ia). destruct Ib as (b0 & <- & Ib). rewrite !finv_l in E; auto. congruence.
Qed.
End Relabel.

(** relabelling the first argument (the VF2 host) / the second argument (the VF2 pattern) *)
Lemma iso_relabel_host nm em G1 G2 r f : gwf G1 -> inj_on r (node_ids G1) ->
  iso_map nm em G1 G2 f -> iso_map nm em (grelabel r G1) G2 (fun u => r (f u)).
Proof.
  intros W1 Ri ((E1 & E2 & E3) & On). split; [split; [|split]|].
  - intros u Iu. destruct (E1 u Iu) as (Ih & Hn). rewrite node_ids_relabel, nlabel_relabel; auto. split; auto. apply in_map. exact Ih.
  - intros u v Iu Iv E. apply E2; auto. apply Ri; auto; [apply E1; auto | apply E1; auto].
  - intros u v Iu Iv Hne. rewrite adj_relabel; auto; [apply E3; auto | apply E1; auto | apply E1; auto].
  - intros h Ih. rewrite node_ids_relabel in Ih. apply in_map_iff in Ih. destruct Ih as (h0 & <- & Ih0).
    destruct (On h0 Ih0) as (u & Iu & <-). exists u. auto.
Qed.

Lemma iso_relabel_pat nm em G1 G2 r f : gwf G2 -> inj_on r (node_ids G2) ->
  iso_map nm em G1 G2 f -> iso_map nm em G1 (grelabel r G2) (fun u' => f (finv r (node_ids G2) u')).
Proof.
  intros W2 Ri ((E1 & E2 & E3) & On).
  assert (Hl : forall u, In u (node_ids G2) -> finv r (node_ids G2) (r u) = u) by (intros u Iu; apply finv_l; auto).
  split; [split; [|split]|].
  - intros u' Iu'. rewrite node_ids_relabel in Iu'. apply in_map_iff in Iu'. destruct Iu' as (u & <- & Iu).
    rewrite Hl, nlabel_relabel; auto.
  - intros u' v' Iu' Iv'. rewrite node_ids_relabel in Iu', Iv'. apply in_map_iff in Iu'. apply in_map_iff in Iv'.
    destruct Iu' as (u & <- & Iu). destruct Iv' as (v & <- & Iv). rewrite !Hl; auto. intros E. f_equal. apply E2; auto.
  - intros u' v' Iu' Iv'. rewrite node_ids_relabel in Iu', Iv'. apply in_map_iff in Iu'. apply in_map_iff in Iv'.
    destruct Iu' as (u & <- & Iu). destruct Iv' as (v & <- & Iv). rewrite !Hl, adj_relabel; auto.
    intros Hne. apply E3; auto. congruence.
  - intros h Ih. destruct (On h Ih) as (u & Iu & <-). exists (r u). rewrite node_ids_relabel, Hl; auto. split; auto. apply in_map. exact Iu.
Qed.

Lemma iso_relabel_host_iff nm em G1 G2 r : gwf G1 -> inj_on r (node_ids G1) ->
  ((exists f, iso_map nm em (grelabel r G1) G2 f) <-> (exists f, iso_map nm em G1 G2 f)).
Proof.
  intros W1 Ri. split; intros (f & Hi).
  - pose proof (iso_relabel_host nm em (grelabel r G1) G2 (finv r (node_ids G1)) f (gwf_relabel r G1 W1 Ri) (finv_inj_on_image r G1 Ri) Hi) as B.
    rewrite (relabel_back r G1 W1 Ri) in B. eexists. exact B.
  - eexists. apply iso_relabel_host; eauto.
Qed.

Lemma iso_relabel_pat_iff nm em G1 G2 r : gwf G2 -> inj_on r (node_ids G2) ->
  ((exists f, iso_map nm em G1 (grelabel r G2) f) <-> (exists f, iso_map nm em G1 G2 f)).
Proof.
  intros W2 Ri. split; intros (f & Hi).
  - pose proof (iso_relabel_pat nm em G1 (grelabel r G2) (finv r (node_ids G2)) f (gwf_relabel r G2 W2 Ri) (finv_inj_on_image r G2 Ri) Hi) as B.
    rewrite (relabel_back r G2 W2 Ri) in B. eexists. exact B.
  - eexists. apply iso_relabel_pat; eauto.
Qed.

Section Verdict.
Hypothesis WL : wl_necessary.
Variable vf2b : bool -> (attrs -> attrs -> bool) -> (attrs -> attrs -> bool) -> graph -> graph -> bool.
Hypothesis VB : vf2b_contract vf2b.

Theorem isomorphic_relabel_1 e r g1 g2 : gwf g1 -> gwf g2 -> inj_on r (node_ids g1) ->
  isomorphic_p vf2b e (grelabel r g1) g2 = isomorphic_p vf2b e g1 g2.
Proof.
  intros W1 W2 Ri. apply bool_iff. rewrite !(isomorphic_spec WL vf2b VB); auto; [|apply gwf_relabel; auto].
  apply iso_relabel_host_iff; auto.
Qed.

Theorem isomorphic_relabel_2 e r g1 g2 : gwf g1 -> gwf g2 -> inj_on r (node_ids g2) ->
  isomorphic_p vf2b e g1 (grelabel r g2) = isomorphic_p vf2b e g1 g2.
Proof.
  intros W1 W2 Ri. apply bool_iff. rewrite !(isomorphic_spec WL vf2b VB); auto; [|apply gwf_relabel; auto].
  apply iso_relabel_pat_iff; auto.
Qed.
End Verdict.
