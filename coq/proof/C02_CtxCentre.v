(** C02 — the centre of a context is the centre of the ITS: for k >= 1, get_rc (extract_k g k) and get_rc g have the same
    atoms with the same labels and the same bonds (a context carries its reaction centre; this is what lets HierContext
    re-extract from contexts). *)
From Coq Require Import List NArith ZArith Bool Lia.
From SK Require Import lib.LGraph lib.Reach lib.C01_GraphLemmas model.C01_Model model.C02_Model proof.C02_Proof.
Import ListNotations.
Local Open Scope Z_scope.

Section CtxCentre.
Variable g : its.
Hypothesis W : wf g.
Variable k : nat.
Hypothesis Hk : (1 <= k)%nat.
Local Notation C := (extract_k g k).
Local Notation B := (dist_le g (node_ids (get_rc g)) k).

Lemma wf_ctx : wf C.
Proof. destruct k as [|j]; [lia|]. rewrite extract_k_S. apply wf_induced. exact W. Qed.

Lemma rc_edge_in_ball u v e : adj (get_rc g) u v = Some e -> B u /\ B v.
Proof.
  intros A. pose proof (rc_wf g W) as W'. apply (wf_adj_iff W') in A.
  destruct A as [A|A]; destruct (wf_edge_nodes W' A) as (P & Q & _); split; apply dist_le_seed; assumption.
Qed.

Lemma label_ctx n : B n -> label C n = label g n.
Proof.
  intros Bn. destruct (ctx_spec g W k Hk) as (_ & L & _). apply option_ext. intros a. rewrite L. tauto.
Qed.

Lemma is_h_ctx n : B n -> is_h C n = is_h g n.
Proof. intros Bn. unfold is_h. rewrite (label_ctx n Bn). reflexivity. Qed.

Lemma adj_rc_ctx u v : adj (get_rc C) u v = adj (get_rc g) u v.
Proof.
  destruct (ctx_spec g W k Hk) as (_ & _ & A1). apply option_ext. intros e.
  rewrite (rc_adj C wf_ctx), (rc_adj g W), A1. split.
  - intros [(A & Bu & Bv) Hc]. split; [exact A|]. unfold is_hh in *. rewrite (is_h_ctx u Bu), (is_h_ctx v Bv) in Hc. exact Hc.
  - intros [A Hc]. assert (adj (get_rc g) u v = Some e) as Ar by (apply (rc_adj g W); auto).
    destruct (rc_edge_in_ball u v e Ar) as [Bu Bv]. split; [auto|].
    unfold is_hh in *. rewrite (is_h_ctx u Bu), (is_h_ctx v Bv). exact Hc.
Qed.

Theorem rc_of_context : geq (get_rc C) (get_rc g).
Proof.
  split; [|exact adj_rc_ctx]. intros n. apply option_ext. intros b.
  rewrite (rc_nodes C wf_ctx), (rc_nodes g W). split.
  - intros [(a & L & ->) (v & e & A)]. rewrite adj_rc_ctx in A. destruct (rc_edge_in_ball n v e A) as [Bn _].
    rewrite (label_ctx n Bn) in L. split; [exists a; auto|exists v, e; exact A].
  - intros [(a & L & ->) (v & e & A)]. destruct (rc_edge_in_ball n v e A) as [Bn _]. split.
    + exists a. rewrite (label_ctx n Bn). auto.
    + exists v, e. rewrite adj_rc_ctx. exact A.
Qed.
End CtxCentre.

Example C02_rc_of_context_nonvacuous :
  geq (get_rc (extract_k ex_its 2)) (get_rc ex_its) /\ length (gnodes (extract_k ex_its 2)) = 7%nat /\
  length (gnodes (get_rc ex_its)) = 5%nat.
Proof. split; [apply rc_of_context; [apply ex_its_wf|lia]|split; reflexivity]. Qed.
