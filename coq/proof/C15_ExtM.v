(** C15 (round 3) — merge of a duck-typed other (model/C15_Ext.v §5). *)
From stdpp Require Import gmap strings sets pretty sorting.
From SK Require Import lib.Tok model.C15_Model model.C15_Ext proof.C15_Proof proof.C15_Ext.
Local Open Scope string_scope.

Definition raw_rxn (re : raw_edge) : rxn :=
  Rxn (norm_rule re.1.1.2) (normalize_items re.1.2) (normalize_items re.2).

Lemma add_explicit_cases s l r rule e :
  edges s !! e = None →
  add s l r rule (Some e) =
  if rxn_empty (Rxn (norm_rule rule) l r) then (s, Some ValueError, e)
  else (register s e (Rxn (norm_rule rule) l r), None, e).
Proof. intros Hn. unfold add. rewrite decide_False; [done|]. rewrite Hn. by intros [? ?]. Qed.

(** one raw edge: stored unchanged (after normalisation) under an id that was
    free — its own id when it has one, it is free and prefix_edges is off — or
    refused with ValueError when both sides are empty; never any other error *)
Lemma merge_raw_one_spec prefix s re s2 er2 :
  merge_raw_one prefix (s, None) re = (s2, er2) →
  (rxn_empty (raw_rxn re) = true ∧ er2 = Some ValueError ∧ edges s2 = edges s ∧ order s2 = order s) ∨
  (rxn_empty (raw_rxn re) = false ∧ er2 = None ∧
   ∃ e', edges s !! e' = None ∧ edges s2 = <[ e' := raw_rxn re ]> (edges s) ∧
         order s2 = (order s ++ [e'])%list ∧
         (prefix = false → ∀ e, re.1.1.1 = Some e → edges s !! e = None → e' = e)).
Proof.
  unfold merge_raw_one, raw_rxn. destruct re as [[[eid rule] l] r]. cbn [fst snd].
  destruct (prefix || _) eqn:Hb.
  - destruct (next_id s rule) as [[c e']|] eqn:Hid; [|by apply next_id_total in Hid].
    apply next_id_fresh in Hid. rewrite add_explicit_cases by done.
    destruct (rxn_empty _) eqn:Hem; intros [= <- <-]; [left; done|right].
    split; [done|]. split; [done|]. exists e'. split_and!; [done..|].
    intros -> e [= ->] Hfree. cbn in Hb. apply bool_decide_eq_true in Hb. rewrite Hfree in Hb. by destruct Hb.
  - apply orb_false_iff in Hb as [-> Hb]. destruct eid as [e|]; [|done].
    apply bool_decide_eq_false in Hb. apply eq_None_not_Some in Hb. rewrite add_explicit_cases by done.
    destruct (rxn_empty _) eqn:Hem; intros [= <- <-]; [left; done|right].
    split; [done|]. split; [done|]. exists e. split_and!; [done..|]. by intros _ e' [= ->] _.
Qed.

(** the whole merge: stops at the first empty raw edge (ValueError; the edges
    before it stay merged), otherwise succeeds; own reactions are kept; every
    stored reaction is an old one or a normalised raw edge *)
Lemma merge_raw_spec prefix es : ∀ s s' er,
  merge_raw s es prefix = (s', er) →
  (er = None ∨ er = Some ValueError) ∧
  (er = None ↔ Forall (λ re, rxn_empty (raw_rxn re) = false) es) ∧
  edges s ⊆ edges s' ∧
  (er = None → ∀ re, re ∈ es → ∃ e', edges s' !! e' = Some (raw_rxn re) ∧ edges s !! e' = None) ∧
  (∀ e' rx, edges s' !! e' = Some rx → edges s !! e' = Some rx ∨ ∃ re, re ∈ es ∧ rx = raw_rxn re).
Proof.
  unfold merge_raw. induction es as [|re es IH]; intros s s' er; cbn [foldl].
  - intros [= <- <-]. split_and!; [by left|done|done|by intros _ ? ?%elem_of_nil|by left].
  - destruct (merge_raw_one prefix (s, None) re) as [s2 er2] eqn:H1.
    destruct (merge_raw_one_spec _ _ _ _ _ H1) as [(Hem & -> & HE & _)|(Hem & -> & e1 & Hn1 & HE & _)].
    + (* error: the fold keeps the error state *)
      assert (Hfix : ∀ l, foldl (merge_raw_one prefix) (s2, Some ValueError) l = (s2, Some ValueError))
        by (induction l; [done|cbn; done]).
      rewrite Hfix. intros [= <- <-]. split_and!; [by right| |by rewrite HE|done|].
      * split; [done|]. intros HF. apply Forall_cons in HF as [HF _]. congruence.
      * intros e' rx. rewrite HE. by left.
    + intros Hrest. destruct (IH s2 s' er Hrest) as (Her & Hiff & Hsub & Hall & Honly).
      assert (Hs2 : edges s ⊆ edges s2) by (rewrite HE; by apply insert_subseteq).
      split_and!; [done| |by etrans| |].
      * rewrite Hiff. split; [intros ?; by constructor|by intros [_ ?]%Forall_cons].
      * intros -> re0 [->|Hin]%elem_of_cons.
        -- exists e1. split; [|done]. eapply lookup_weaken; [|exact Hsub]. rewrite HE. apply lookup_insert.
        -- destruct (Hall eq_refl re0 Hin) as (e' & ? & ?). exists e'. split; [done|]. by eapply lookup_weaken_None.
      * intros e' rx [Hs|(re0 & Hin & ->)]%Honly.
        -- rewrite HE in Hs. apply lookup_insert_Some in Hs as [[<- <-]|[_ ?]]; [|by left].
           right. exists re. split; [by left|done].
        -- right. exists re0. split; [by right|done].
Qed.
