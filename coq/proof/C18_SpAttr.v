(** C18 — attribute selections on the species view (model/C18_SpAttrModel.v): the generic canonicaliser finds a leaf for every
    selection and its canonical graph is the view relabelled by a bijection onto k+1..k+n (clause 1); the species view with the
    aggregate coefficients is a well-formed graph. *)
From Coq Require Import List NArith ZArith Bool Arith Lia Permutation.
From SK Require Import lib.IRSortKeys lib.IRCore lib.IRSearch lib.StrJoin lib.C18_IRValid model.C18_Model model.C18_AttrModel
  model.C18_SpAttrModel proof.C18_Order proof.C18_Spec proof.C18_Graph proof.C18_Canon proof.C18_View.
From SK Require lib.IRInst.
Import ListNotations.

Section G.
Variables (g : vgraph) (nv : N -> list (Z * list N)) (ev : eattr -> list (Z * list N)) (nnk nek : nat).

Definition leaves_ofG : list (list N) :=
  let n := length (vnodes g) in leaves lexleb (sigG g nv ev) (S n) (S n) (init_partG g nv nnk) [].

Lemma canon_searchG_fold :
  canon_searchG g nv ev nnk nek = fold_left (visit lexlebN (labelG g nv ev nek)) leaves_ofG (None, []).
Proof.
  unfold canon_searchG, leaves_ofG.
  apply (search_is_fold lexleb (sigG g nv ev) (S (length (vnodes g))) lexlebN lexlebN_total lexlebN_trans lexlebN_antisym
           (labelG g nv ev nek) no_bound).
  intros; reflexivity.
Qed.

Lemma init_partG_vpart : NoDup (node_ids g) -> vpart (node_ids g) (init_partG g nv nnk).
Proof.
  intros Hnd. unfold init_partG. destruct nnk as [|k].
  - destruct (node_ids g) as [|v0 l] eqn:En; [split; [apply Permutation_refl|constructor]|]. rewrite <- En in *. split.
    + simpl. rewrite app_nil_r. apply sortN_perm. auto.
    + constructor; auto. intro E. pose proof (sortN_perm _ Hnd) as P. rewrite E, En in P. apply Permutation_nil in P. discriminate.
  - split.
    + eapply perm_trans.
      * apply (concat_perm_pointwise _ (fun k => filter (fun v => eqb lexleb (nkeyG nv v) k) (node_ids g))).
        intros k0 _. apply sortN_perm. apply NoDup_filter. auto.
      * rewrite concat_map_flat_map.
        apply (groups_perm _ lexleb IRInst.lexleb_total IRInst.lexleb_antisym (nkeyG nv)).
        -- apply (ssorted_NoDup _ lexleb IRInst.lexleb_total).
           apply (sort_dedup_sorted lexleb IRInst.lexleb_total (fun a b c H1 H2 => IRInst.lexleb_trans a b c H1 H2) IRInst.lexleb_antisym).
        -- intros v Hv. apply (sort_dedup_in lexleb IRInst.lexleb_antisym). apply in_map. auto.
    + apply Forall_forall. intros c Hc. apply in_map_iff in Hc. destruct Hc as (k0 & <- & Hk).
      apply (proj1 (sort_dedup_in lexleb IRInst.lexleb_antisym _ _)) in Hk. apply in_map_iff in Hk. destruct Hk as (v & <- & Hv).
      intro E.
      assert (Hin : In v (sortN (filter (fun v0 => eqb lexleb (nkeyG nv v0) (nkeyG nv v)) (node_ids g)))).
      { apply sortN_in. apply filter_In. split; auto. apply (eqb_eq lexleb IRInst.lexleb_total IRInst.lexleb_antisym). auto. }
      rewrite E in Hin. contradiction.
Qed.

Theorem canon_isoG : wf g ->
  fst (canon_searchG g nv ev nnk nek) <> None /\
  forall lab perm, fst (canon_searchG g nv ev nnk nek) = Some (lab, perm) ->
    lab = labelG g nv ev nek perm /\
    canon_graph g perm = relabel (cid perm) g /\ inj_on (cid perm) (node_ids g) /\
    (exists k, Permutation (node_ids (canon_graph g perm)) (map N.of_nat (seq (S k) (length (vnodes g))))) /\
    wf (canon_graph g perm) /\
    (forall v, In v (node_ids g) -> kind_of (canon_graph g perm) (cid perm v) = kind_of g v) /\
    (forall u v, In u (node_ids g) -> In v (node_ids g) ->
       find_arc (canon_graph g perm) (cid perm u) (cid perm v) = find_arc g u v).
Proof.
  intros Hw. pose proof (init_partG_vpart (proj1 Hw)) as Hvp.
  rewrite canon_searchG_fold. split.
  - apply fold_visit_some. left. unfold leaves_ofG.
    apply (leaves_nonempty _ lexleb IRInst.lexleb_total (fun a b c H1 H2 => IRInst.lexleb_trans a b c H1 H2) IRInst.lexleb_antisym
             (sigG g nv ev) _ (node_ids g) (proj1 Hw)); auto. unfold node_ids. rewrite map_length. lia.
  - intros lab perm Hb.
    assert (HB : lab = labelG g nv ev nek perm /\ In perm leaves_ofG).
    { revert Hb. apply fold_visit_best. simpl. intros; discriminate. }
    destruct HB as [El Hl]. split; auto.
    unfold leaves_ofG in Hl.
    destruct (leaves_shape _ lexleb IRInst.lexleb_total (fun a b c H1 H2 => IRInst.lexleb_trans a b c H1 H2) IRInst.lexleb_antisym
                (sigG g nv ev) _ (node_ids g) (proj1 Hw) _ _ _ _ Hvp Hl) as (pre & r & -> & Hr & _).
    simpl app.
    assert (Hndr : NoDup r) by (eapply Permutation_NoDup; [apply Permutation_sym; exact Hr|apply Hw]).
    pose proof (cid_inj_on pre r (node_ids g) Hndr Hr) as Hinj.
    change (canon_graph g (pre ++ r)) with (relabel (cid (pre ++ r)) g).
    split; [reflexivity|]. split; [exact Hinj|]. split; [|split; [|split]].
    + exists (length pre). rewrite node_ids_relabel.
      replace (length (vnodes g)) with (length (node_ids g)) by (unfold node_ids; apply map_length).
      apply cid_range; auto.
    + apply wf_relabel; auto.
    + intros v Hv. apply kind_of_relabel; auto.
    + intros u v Hu Hv. apply find_arc_relabel; auto.
Qed.
End G.

(* ---------------- the species view with aggregate coefficients is a graph ---------------- *)
Lemma upd_arc_in u v a l x : In x (map akey (upd_arc u v a l)) <-> x = (u, v) \/ In x (map akey l).
Proof.
  induction l as [|e l IH]; simpl; [intuition|].
  destruct (N.eqb (asrc e) u && N.eqb (adst e) v) eqn:E; simpl.
  - apply akey_eqb in E. rewrite E. unfold akey at 1. simpl. intuition.
  - rewrite IH. intuition.
Qed.
Lemma upd_arc_nodup u v a l : NoDup (map akey l) -> NoDup (map akey (upd_arc u v a l)).
Proof.
  induction l as [|e l IH]; simpl; intros H; [constructor; auto; constructor|].
  inversion H; subst. destruct (N.eqb (asrc e) u && N.eqb (adst e) v) eqn:E; simpl.
  - apply akey_eqb in E. constructor; auto. unfold akey at 1. simpl. rewrite <- E. auto.
  - constructor; auto. rewrite upd_arc_in. intros [E'|I]; auto.
    apply akey_eqb in E'. congruence.
Qed.
Lemma upd_arc_mem u v a l e : In e (upd_arc u v a l) -> In e l \/ akey e = (u, v).
Proof.
  induction l as [|e0 l IH]; simpl.
  - intros [<-|[]]. right. reflexivity.
  - destruct (N.eqb (asrc e0) u && N.eqb (adst e0) v) eqn:E; simpl; intros [<-|I]; auto.
    destruct (IH I); auto.
Qed.

Theorem view_spS_wf n : net_closed n -> wf (view_spS n).
Proof.
  intros Hc. unfold view_spS.
  destruct (species_nodes_GI (nspecies n)) as [H0 Hin].
  set (g0 := VG (fold_left (fun l s => ensure_node s KSPECIES l) (nspecies n) []) []) in *.
  set (P := fun g => wf g /\ forall s, In s (nspecies n) -> In s (node_ids g)).
  assert (HP : P (fold_left spS_add_rxn (nrxns n) g0)).
  { apply (fold_left_inv P); [|split; [apply H0|auto]].
    intros g r Hr Hg. unfold spS_add_rxn.
    apply (fold_left_inv P); auto. intros ga rc Hrc Hga.
    apply (fold_left_inv P); auto. intros gb pc Hpc [(Hn & Ha & He) Hsb].
    split; [|exact Hsb]. split; [exact Hn|]. split; [apply upd_arc_nodup; exact Ha|].
    intros e Hin'. simpl in Hin'. destruct (upd_arc_mem _ _ _ _ _ Hin') as [I|K]; [apply He; auto|].
    unfold akey in K. inversion K as [[K1 K2]]. simpl. rewrite K1, K2. split; apply Hsb; apply (Hc r Hr); apply in_or_app; auto. }
  exact (proj1 HP).
Qed.

(** the aggregation: the coefficient pair on an arc is the componentwise minimum over the contributions *)
Lemma upd_arc_attr u v a l : NoDup (map akey l) ->
  find_arc_l (upd_arc u v a l) u v =
  Some (match find_arc_l l u v with Some b => (Z.min (fst b) (fst a), Z.min (snd b) (snd a)) | None => a end).
Proof.
  induction l as [|e l IH]; simpl; intros Hnd.
  - rewrite !N.eqb_refl. reflexivity.
  - inversion Hnd; subst. destruct (N.eqb (asrc e) u && N.eqb (adst e) v) eqn:E; simpl.
    + unfold asrc, adst, aattr. simpl. rewrite !N.eqb_refl. reflexivity.
    + rewrite E. apply IH. auto.
Qed.

(** the default species view cannot see coefficients, the aggregated one can: A >> B versus 2A >> B (ids A=0 B=1 r=2) *)
Definition n_ab : net := Net [0;1]%N [Rxn 2%N [(0%N, 1%Z)] [(1%N, 1%Z)]].
Definition n_2ab : net := Net [0;1]%N [Rxn 2%N [(0%N, 2%Z)] [(1%N, 1%Z)]].
Lemma species_view_coefficients_invisible : exists n n' : net, view false true n = view false true n' /\ view_spS n <> view_spS n'.
Proof. exists n_ab, n_2ab. split; [reflexivity|vm_compute; discriminate]. Qed.
