(** C14 — parse_input + dicts_balance_check (model/C14_InputsModel.v): for every worker count the two lists are exactly the
    balanced and the unbalanced ones among the KEPT items (strings and dicts carrying the reaction key), each in input order;
    items of any other kind never show up and never shift the others. *)
From Coq Require Import List Bool Arith.
Import ListNotations.
From SK Require Import lib.Tok model.C14_CrnModel model.C14_InputsModel proof.C14_Crn.

Theorem balance_input {A} (n_jobs : nat) (check : A -> bool) (items : list (bitem * A)) :
  dicts_balance_check n_jobs check items =
  (filter check (parse_input items), filter (fun r => negb (check r)) (parse_input items)).
Proof. unfold dicts_balance_check. apply main_balance_workers. Qed.

Lemma parse_input_app {A} (l1 l2 : list (bitem * A)) : parse_input (l1 ++ l2) = parse_input l1 ++ parse_input l2.
Proof. unfold parse_input. now rewrite filter_app, map_app. Qed.

Lemma parse_input_dropped {A} (l1 l2 : list (bitem * A)) k x : kept k = false ->
  parse_input (l1 ++ (k, x) :: l2) = parse_input (l1 ++ l2).
Proof. intros H. rewrite !parse_input_app. unfold parse_input at 2. simpl. now rewrite H. Qed.

Example balance_items_example :
  dicts_balance_check 3 (fun x : nat => Nat.even x) [(IStr, 4); (IDictWithout, 6); (IDictWith, 3); (IOther, 8); (IDictWith, 2)] =
  ([4; 2], [3]).
Proof. vm_compute. reflexivity. Qed.
