(** C08 — the repaired SynRule equality is EXACT for rules whose stored fragments are the its_decompose projections of their stored
    ITS graph ([left_of] / [right_of]; checked on every case by [derived_b]): equal <=> ONE bijection preserving the two-sided ITS. *)
From Coq Require Import String List NArith ZArith Bool Arith Lia Permutation.
From SK Require Import lib.LGraph lib.StrJoin.
From SK Require Import model.C08_Model model.C08_Rule2 proof.C08_Spec proof.C08_Rule2Spec proof.C08_Sort proof.C08_Faithful proof.C08_Cov
                       proof.C08_SigFun proof.C08_Render proof.C08_Nauty proof.C08_Sound proof.C08_Invariant proof.C08_Value proof.C08_Rule2.
Import ListNotations.

(* covered views of the projections are functions of the two-sided covered view *)
Definition LE (c : N * N * ecv) : list (N * N * ecv) :=
  let '(u, v, (o, t, s)) := c in if (0 <? o)%Z then [(u, v, (o, None, None))] else [].
Definition RE (c : N * N * ecv) : list (N * N * ecv) :=
  let '(u, v, (o, t, s)) := c in match t with Some b => if (0 <? b)%Z then [(u, v, (b, None, None))] else [] | None => [] end.
Lemma cov_nodes_left g : cov_nodes (left_of g) = map (fun c : N * (cv * cv) => (fst c, fst (snd c))) (cov2_nodes g).
Proof. unfold cov_nodes, cov2_nodes, left_of. cbn [gnodes]. rewrite !map_map. reflexivity. Qed.
Lemma cov_nodes_right g : cov_nodes (right_of g) = map (fun c : N * (cv * cv) => (fst c, snd (snd c))) (cov2_nodes g).
Proof. unfold cov_nodes, cov2_nodes, right_of. cbn [gnodes]. rewrite !map_map. reflexivity. Qed.
Lemma cov_edges_left g : cov_edges (left_of g) = flat_map LE (cov2_edges g).
Proof.
  unfold cov_edges, cov2_edges, left_of. cbn [gedges]. induction (gedges g) as [|[[u v] [o s t]] l IH]; [reflexivity|].
  cbn [flat_map map]. rewrite map_app, IH. f_equal. unfold cove, LE, ecov. cbn [eo es et]. destruct (0 <? o)%Z; reflexivity.
Qed.
Lemma cov_edges_right g : cov_edges (right_of g) = flat_map RE (cov2_edges g).
Proof.
  unfold cov_edges, cov2_edges, right_of. cbn [gedges]. induction (gedges g) as [|[[u v] [o s t]] l IH]; [reflexivity|].
  cbn [flat_map map]. rewrite map_app, IH. f_equal. unfold cove, RE, ecov. cbn [eo es et].
  destruct t as [b|]; [destruct (0 <? b)%Z|]; reflexivity.
Qed.
Lemma geq2_left g h : geq2 g h -> geq_cov (left_of g) (left_of h).
Proof.
  intros [H1 H2]. split; [rewrite !cov_nodes_left; apply Permutation_map; exact H1|].
  rewrite !cov_edges_left. apply Permutation_flat_map. exact H2.
Qed.
Lemma geq2_right g h : geq2 g h -> geq_cov (right_of g) (right_of h).
Proof.
  intros [H1 H2]. split; [rewrite !cov_nodes_right; apply Permutation_map; exact H1|].
  rewrite !cov_edges_right. apply Permutation_flat_map. exact H2.
Qed.
Lemma left_relabel f g : left_of (relabel f g) = relabel f (left_of g).
Proof.
  unfold left_of, relabel. cbn [gnodes gedges]. rewrite !map_map. f_equal.
  induction (gedges g) as [|[[u v] x] l IH]; [reflexivity|]. cbn [map flat_map]. rewrite map_app, IH. f_equal.
  destruct (0 <? eo x)%Z; reflexivity.
Qed.
Lemma right_relabel f g : right_of (relabel f g) = relabel f (right_of g).
Proof.
  unfold right_of, relabel. cbn [gnodes gedges]. rewrite !map_map. f_equal.
  induction (gedges g) as [|[[u v] x] l IH]; [reflexivity|]. cbn [map flat_map]. rewrite map_app, IH. f_equal.
  destruct (et x) as [b|]; [destruct (0 <? b)%Z|]; reflexivity.
Qed.
Lemma node_ids_left g : node_ids (left_of g) = node_ids g.
Proof. unfold node_ids, left_of. cbn [gnodes]. rewrite map_map. reflexivity. Qed.
Lemma node_ids_right g : node_ids (right_of g) = node_ids g.
Proof. unfold node_ids, right_of. cbn [gnodes]. rewrite map_map. reflexivity. Qed.

(* a fragment that is (on the covered attributes) the projection P of the ITS graph follows every isomorphism of the ITS graph *)
Lemma fragment_follows (P : graph2 -> graph) (its its' : graph2) (l l' : graph) f :
  (forall g, node_ids (P g) = node_ids g) -> (forall g, P (relabel f g) = relabel f (P g)) -> (forall g h, geq2 g h -> geq_cov (P g) (P h)) ->
  geq_cov l (P its) -> geq_cov l' (P its') -> C08_Spec.inj_on f (node_ids its) -> geq2 (relabel f its) its' -> iso_cov l l'.
Proof.
  intros Hid Hrel Hgeq Dl Dl' Hf Hq. exists f. split.
  - pose proof (geq_cov_ids _ _ Dl) as Pm. rewrite Hid in Pm. intros x y Hx Hy. apply Hf; apply (Permutation_in _ Pm); auto.
  - eapply geq_cov_trans; [apply relabel_geq_cov; exact Dl|]. rewrite <- Hrel.
    eapply geq_cov_trans; [apply Hgeq; exact Hq|]. apply geq_cov_sym. exact Dl'.
Qed.

Definition rule2_derived (a : rule2) : Prop :=
  geq_cov (snd (fst a)) (left_of (fst (fst a))) /\ geq_cov (snd a) (right_of (fst (fst a))).

Theorem rule2_exact a b : rule2_ok a -> rule2_ok b -> rule2_derived a -> rule2_derived b ->
  (rule2_eqb a b = true <-> iso2 (fst (fst a)) (fst (fst b))).
Proof.
  intros Ha Hb [Dl Dr] [Dl' Dr']. apply (rule2_eq_exact a b Ha Hb). intros (f & Hf & Hq). split.
  - apply (fragment_follows left_of _ _ _ _ f node_ids_left (left_relabel f) geq2_left Dl Dl' Hf Hq).
  - apply (fragment_follows right_of _ _ _ _ f node_ids_right (right_relabel f) geq2_right Dr Dr' Hf Hq).
Qed.

(* the check the correspondence evaluates on the implementation's values implies the premise *)
Theorem derived_b_sound a : rule2_ok a -> els_ok (left_of (fst (fst a))) -> els_ok (right_of (fst (fst a))) -> derived_b a = true -> rule2_derived a.
Proof.
  intros (_ & (_ & K2) & (_ & K3)) KL KR E. unfold derived_b in E. rewrite andb_true_iff, !str_eqb_spec in E. destruct E as [E1 E2].
  split; apply serialise_inj; auto.
Qed.

Theorem rule2_exact_flat (its its' : graph2) (l r l' r' : graph) :
  wf its -> wf l -> wf r -> wf its' -> wf l' -> wf r' -> els2_ok its -> els_ok l -> els_ok r -> els2_ok its' -> els_ok l' -> els_ok r' ->
  geq_cov l (left_of its) -> geq_cov r (right_of its) -> geq_cov l' (left_of its') -> geq_cov r' (right_of its') ->
  (rule2_eqb (its, l, r) (its', l', r') = true <-> exists f, C08_Spec.inj_on f (node_ids its) /\ geq2 (relabel f its) its').
Proof. intros. apply (rule2_exact (its, l, r) (its', l', r')); unfold rule2_ok, rule2_derived; cbn [fst snd]; auto. Qed.

(* non-vacuity: the witness rules w2_A, w2_B of C08_Rule2.v are derived (their fragments w_l, w_r are the projections); w2_A' renumbers
   the ITS graph only and keeps the old fragments: not derived *)
Example derived_ex : derived_b w2_A = true /\ derived_b w2_B = true /\ derived_b w2_A' = false.
Proof. repeat split; vm_compute; reflexivity. Qed.

Print Assumptions rule2_exact.
Print Assumptions derived_b_sound.

(* the projections of an ITS graph with alphanumeric element symbols have admissible element symbols *)
Lemma els_ok_left g : els2_ok g -> els_ok (left_of g).
Proof.
  intros H p I. unfold left_of in I. cbn [gnodes] in I. apply in_map_iff in I. destruct I as (q & <- & I). cbn [snd].
  destruct (H _ I) as [H0 _]. apply (forallb_weaken alnum elc _ alnum_elc). exact H0.
Qed.
Lemma els_ok_right g : els2_ok g -> els_ok (right_of g).
Proof.
  intros H p I. unfold right_of in I. cbn [gnodes] in I. apply in_map_iff in I. destruct I as (q & <- & I). cbn [snd].
  destruct (H _ I) as [_ H1]. apply (forallb_weaken alnum elc _ alnum_elc). exact H1.
Qed.
Theorem derived_b_sound_flat (its : graph2) (l r : graph) : els2_ok its -> els_ok l -> els_ok r ->
  derived_b (its, l, r) = true -> geq_cov l (left_of its) /\ geq_cov r (right_of its).
Proof.
  intros K1 K2 K3 E. unfold derived_b in E. cbn [fst snd] in E. rewrite andb_true_iff, !str_eqb_spec in E. destruct E as [E1 E2].
  split; apply serialise_inj; auto using els_ok_left, els_ok_right.
Qed.
Print Assumptions derived_b_sound_flat.
