(** C18 — the refinement fuel [|nodes| + 1] suffices: the partition returned by [refine] is stable (one more round of
    splitting changes nothing), which is the exit condition of the [while changed] loop of CRNCanonicalizer._refine. *)
From Coq Require Import List NArith ZArith Bool Arith Lia Permutation.
From SK Require Import lib.IRSortKeys lib.IRCore lib.IRSearch lib.C18_IRValid model.C18_Model
  proof.C18_Order proof.C18_Spec proof.C18_Graph proof.C18_Canon.
From SK Require lib.IRInst.
Import ListNotations.

Section Stable.
Variable S : Type.
Variable sleb : S -> S -> bool.
Hypothesis sleb_total : forall a b, sleb a b = true \/ sleb b a = true.
Hypothesis sleb_trans : forall a b c, sleb a b = true -> sleb b c = true -> sleb a c = true.
Hypothesis sleb_antisym : forall a b, sleb a b = true -> sleb b a = true -> a = b.
Variable sig : partition -> N -> S.

Lemma split_cell_one Q c : length (split_cell sleb sig Q c) = 1 -> split_cell sleb sig Q c = [c].
Proof.
  unfold split_cell. destruct (length c <=? 1); auto.
  destruct (length (keys sleb sig Q c) <=? 1) eqn:E; auto.
  rewrite map_length. apply Nat.leb_gt in E. lia.
Qed.

Lemma flat_map_all_one Q (P : partition) : length (flat_map (split_cell sleb sig Q) P) = length P ->
  flat_map (split_cell sleb sig Q) P = P.
Proof.
  induction P as [|c P IH]; simpl; auto. rewrite app_length. intros H.
  pose proof (split_cell_length S sleb sig Q c) as H1.
  assert (H2 : length P <= length (flat_map (split_cell sleb sig Q) P)).
  { clear. induction P as [|d P IH]; simpl; auto. rewrite app_length. pose proof (split_cell_length S sleb sig Q d). lia. }
  rewrite (split_cell_one Q c) by lia. simpl. f_equal. apply IH. lia.
Qed.

Lemma refine_step_fix P : length (refine_step sleb sig P) = length P -> refine_step sleb sig P = P.
Proof. apply flat_map_all_one. Qed.

Theorem refine_stable nodes fuel : forall P, vpart nodes P -> length nodes < fuel + length P ->
  refine_step sleb sig (refine sleb sig fuel P) = refine sleb sig fuel P.
Proof.
  induction fuel as [|f IH]; intros P HP Hl.
  - pose proof (vpart_length nodes P HP). simpl in Hl. lia.
  - simpl. destruct (length (refine_step sleb sig P) =? length P) eqn:E.
    + apply Nat.eqb_eq in E. rewrite (refine_step_fix P E). apply refine_step_fix. rewrite (refine_step_fix P E). auto.
    + apply Nat.eqb_neq in E. pose proof (refine_step_length S sleb sig P) as Hle.
      apply IH.
      * destruct HP as [Hc Hn]. split; [eapply perm_trans; [apply (refine_step_concat S sleb sleb_total sleb_trans sleb_antisym)|auto]|].
        apply (refine_step_nonempty S sleb sleb_total sleb_antisym); auto.
      * lia.
Qed.
End Stable.

Theorem model_refine_stable g P : vpart (node_ids g) P ->
  refine_step IRInst.lexleb (sig g) (refine IRInst.lexleb (sig g) (S (length (vnodes g))) P)
  = refine IRInst.lexleb (sig g) (S (length (vnodes g))) P.
Proof.
  intros HP. apply (refine_stable _ IRInst.lexleb IRInst.lexleb_total (fun a b c H1 H2 => IRInst.lexleb_trans a b c H1 H2)
                      IRInst.lexleb_antisym (sig g) (node_ids g)); auto.
  unfold node_ids. rewrite map_length. lia.
Qed.
