(** C18 — structure-preserving self-maps: an automorphism re-presents the view ([aut_geq]); two node sequences with
    position-wise equal kinds and arcs define one ([seq_aut]). *)
From Coq Require Import List NArith ZArith Bool Arith Lia Permutation.
From SK Require Import lib.IRSortKeys lib.IRCore lib.IRSearch lib.C18_IRValid model.C18_Model
  proof.C18_Spec proof.C18_Graph.
Import ListNotations.

Lemma kind_of_l_mem l v : In v (map fst l) -> In (v, kind_of_l l v) l.
Proof.
  induction l as [|[u k] l IH]; simpl; intros H; [contradiction|].
  destruct (N.eqb_spec u v) as [->|Hne]; [left; auto|]. right. apply IH. destruct H; [congruence|auto].
Qed.

Lemma wf_nodup_nodes g : wf g -> NoDup (vnodes g).
Proof. intros (H & _). unfold node_ids in H. apply NoDup_map_inv in H. auto. Qed.
Lemma wf_nodup_arcs g : wf g -> NoDup (varcs g).
Proof. intros (_ & H & _). apply NoDup_map_inv in H. auto. Qed.

Theorem aut_geq g s : wf g -> is_aut g s -> geq (relabel s g) g.
Proof.
  intros Hw (Hinj & Hin & Hk & Ha).
  pose proof (wf_relabel s g Hw Hinj) as Hw'.
  split.
  - apply NoDup_Permutation_bis.
    + apply wf_nodup_nodes. auto.
    + unfold relabel; simpl. rewrite map_length. auto.
    + intros x Hx. unfold relabel in Hx; simpl in Hx. apply in_map_iff in Hx. destruct Hx as ([v k] & <- & I). simpl.
      assert (Iv : In v (node_ids g)) by (apply in_map_iff; exists (v, k); auto).
      assert (Ek : kind_of g v = k) by (apply kind_of_l_in; auto; apply Hw).
      rewrite <- Ek, <- (Hk v Iv). apply kind_of_l_mem. apply Hin. auto.
  - apply NoDup_Permutation_bis.
    + apply wf_nodup_arcs. auto.
    + unfold relabel; simpl. rewrite map_length. auto.
    + intros x Hx. unfold relabel in Hx; simpl in Hx. apply in_map_iff in Hx. destruct Hx as (e & <- & I).
      destruct Hw as (_ & Hnd & He). destruct (He _ I) as [Is Id].
      apply find_arc_l_some. fold (find_arc g (s (asrc e)) (s (adst e))). rewrite Ha; auto.
      apply find_arc_l_in; auto. destruct e as [[? ?] ?]. exact I.
Qed.

(* ---------------- the map sending one sequence to another ---------------- *)
Fixpoint idx (v : N) (l : list N) : nat :=
  match l with [] => 0 | x :: l' => if N.eqb x v then 0 else S (idx v l') end.
Lemma idx_in v l : In v l -> idx v l < length l /\ nth (idx v l) l 0%N = v.
Proof.
  induction l as [|x l IH]; simpl; intros H; [contradiction|].
  destruct (N.eqb_spec x v) as [->|Hne]; [split; [lia|auto]|].
  destruct H as [H|H]; [congruence|]. destruct (IH H). split; [lia|auto].
Qed.
Lemma idx_nth l : NoDup l -> forall i, i < length l -> idx (nth i l 0%N) l = i.
Proof.
  intros Hnd i Hi. assert (In (nth i l 0%N) l) by (apply nth_In; auto).
  destruct (idx_in _ _ H) as [H1 H2]. apply (proj1 (NoDup_nth l 0%N) Hnd); auto.
Qed.

Definition seqmap (r r' : list N) (v : N) : N := nth (idx v r) r' v.
Lemma seqmap_nth r r' i : NoDup r -> length r = length r' -> i < length r -> seqmap r r' (nth i r 0%N) = nth i r' 0%N.
Proof. intros Hnd Hl Hi. unfold seqmap. rewrite idx_nth; auto. apply nth_indep. lia. Qed.
Lemma map_seqmap r r' : NoDup r -> length r = length r' -> map (seqmap r r') r = r'.
Proof.
  intros Hnd Hl. apply (nth_ext _ _ 0%N 0%N); [rewrite map_length; auto|].
  intros i Hi. rewrite map_length in Hi.
  rewrite (nth_indep _ 0%N (seqmap r r' 0%N)) by (rewrite map_length; auto).
  rewrite map_nth. apply seqmap_nth; auto.
Qed.

Theorem seq_aut g r r' : wf g -> NoDup r -> NoDup r' ->
  Permutation r (node_ids g) -> Permutation r' (node_ids g) ->
  (forall i, i < length r -> kind_of g (nth i r 0%N) = kind_of g (nth i r' 0%N)) ->
  (forall i j, i < length r -> j < length r ->
     find_arc g (nth i r 0%N) (nth j r 0%N) = find_arc g (nth i r' 0%N) (nth j r' 0%N)) ->
  is_aut g (seqmap r r').
Proof.
  intros Hw Hnd Hnd' Hp Hp' Hk Ha.
  assert (Hl : length r = length r') by (rewrite (Permutation_length Hp), (Permutation_length Hp'); auto).
  assert (Hpos : forall v, In v (node_ids g) -> exists i, i < length r /\ v = nth i r 0%N).
  { intros v Hv. apply (Permutation_in _ (Permutation_sym Hp)) in Hv. destruct (idx_in _ _ Hv). eauto. }
  split; [|split; [|split]].
  - intros x y Hx Hy E. destruct (Hpos x Hx) as (i & Hi & ->). destruct (Hpos y Hy) as (j & Hj & ->).
    rewrite !seqmap_nth in E; auto. f_equal. apply (proj1 (NoDup_nth r' 0%N) Hnd'); auto; lia.
  - intros v Hv. destruct (Hpos v Hv) as (i & Hi & ->). rewrite seqmap_nth; auto.
    apply (Permutation_in _ Hp'). apply nth_In. lia.
  - intros v Hv. destruct (Hpos v Hv) as (i & Hi & ->). rewrite seqmap_nth; auto. symmetry. auto.
  - intros u v Hu Hv. destruct (Hpos u Hu) as (i & Hi & ->). destruct (Hpos v Hv) as (j & Hj & ->).
    rewrite !seqmap_nth; auto. symmetry. auto.
Qed.
