(** C03 — the backward direction (_invert_template) and the template the reactor glues in implicit-template mode
    (SynRule.__init__ with implicit_h=False).  Stdlib lists only. *)
From Coq Require Import List NArith ZArith Bool Lia Permutation.
From SK Require Import lib.Tok lib.LGraph model.C03_Model proof.C03_Proof proof.C03_Glue.
Import ListNotations.
Local Open Scope Z_scope.

(** * _invert_template swaps the two sides of the decomposition — literally, as lists *)
Lemma invert_decompose T : its_decompose (invert_template T) = (snd (its_decompose T), fst (its_decompose T)).
Proof.
  unfold its_decompose, dec_side, invert_template. cbn [gnodes gedges fst snd]. f_equal; f_equal.
  - rewrite map_map. apply map_ext. intros [k a]. reflexivity.
  - induction (gedges T) as [|[[u v] x] r IH]; [reflexivity|]. cbn [flat_map]. rewrite flat_map_app. f_equal; [|exact IH].
    destruct (0 <? eH x) eqn:E1; destruct (0 <? eG x) eqn:E2; cbn [orb flat_map app eG eH fst snd]; rewrite ?E1; reflexivity.
  - rewrite map_map. apply map_ext. intros [k a]. reflexivity.
  - induction (gedges T) as [|[[u v] x] r IH]; [reflexivity|]. cbn [flat_map]. rewrite flat_map_app. f_equal; [|exact IH].
    destruct (0 <? eH x) eqn:E1; destruct (0 <? eG x) eqn:E2; cbn [orb flat_map app eG eH fst snd]; rewrite ?E2; reflexivity.
Qed.

(** * nodes: the two tuples change places *)
Definition inv_node (a : inode) : inode := IN (inv_tuple (iH a)) (inv_tuple (iG a)) 0 None.
Lemma invert_gnodes T : gnodes (invert_template T) = map (fun p => (fst p, inv_node (snd p))) (gnodes T).
Proof. reflexivity. Qed.
Lemma invert_ids T : node_ids (invert_template T) = node_ids T.
Proof. unfold node_ids. rewrite invert_gnodes, map_map. reflexivity. Qed.
Lemma assoc_map {V W} (f : V -> W) (l : list (N * V)) k :
  assoc k (map (fun p => (fst p, f (snd p))) l) = option_map f (assoc k l).
Proof. induction l as [|[k' v] r IH]; simpl; [reflexivity|]. destruct (N.eqb k k'); [reflexivity|exact IH]. Qed.
Lemma invert_label T n : label (invert_template T) n = option_map inv_node (label T n).
Proof. unfold label. rewrite invert_gnodes. apply assoc_map. Qed.

Lemma sumL_opp {V} (f : V -> Z) (l : list (N * V)) : sumL (fun a => - f a) l = - sumL f l.
Proof. induction l as [|[k v] r IH]; simpl; [reflexivity|]. rewrite IH. lia. Qed.

Lemma invert_sum_dH T : sumZ dH (invert_template T) = - sumZ dH T.
Proof.
  unfold sumZ. rewrite invert_gnodes, (sumL_map dH inv_node), <- sumL_opp. apply sumL_ext_in.
  intros k a _. unfold dH, inv_node; simpl. lia.
Qed.
Lemma invert_sum_dQ T : sumZ dQ (invert_template T) = - sumZ dQ T.
Proof.
  unfold sumZ. rewrite invert_gnodes, (sumL_map dQ inv_node), <- sumL_opp. apply sumL_ext_in.
  intros k a _. unfold dQ, inv_node; simpl. lia.
Qed.
Lemma invert_balanced T : balancedb (invert_template T) = balancedb T.
Proof.
  unfold balancedb. rewrite invert_sum_dH, invert_sum_dQ.
  f_equal; [destruct (Z.eqb_spec (sumZ dH T) 0), (Z.eqb_spec (- sumZ dH T) 0)|destruct (Z.eqb_spec (sumZ dQ T) 0), (Z.eqb_spec (- sumZ dQ T) 0)];
    try reflexivity; lia.
Qed.

(** * edges: every bond keeps its end atoms, its two orders change places, standard_order = order_G - order_H;
      pairs bonded on neither side disappear *)
Lemma invert_edge_in T u v x :
  In (u, v, x) (gedges T) -> 0 <= eG x -> 0 <= eH x -> 0 < eG x \/ 0 < eH x ->
  In (u, v, (eH x, eG x, eH x - eG x)) (gedges (invert_template T)).
Proof.
  intros I H1 H2 H3. unfold invert_template; simpl. apply in_flat_map. exists (u, v, x). split; [exact I|].
  destruct (Z.ltb_spec 0 (eH x)), (Z.ltb_spec 0 (eG x)); simpl; try (left; repeat f_equal; lia). lia.
Qed.
Lemma invert_edge_inv T u v y :
  In (u, v, y) (gedges (invert_template T)) ->
  exists x, In (u, v, x) (gedges T) /\ (0 < eG x \/ 0 < eH x) /\
            eG y = Z.max 0 (eH x) /\ eH y = Z.max 0 (eG x) /\ eS y = eG y - eH y.
Proof.
  unfold invert_template; simpl. intros I. apply in_flat_map in I. destruct I as ([[u' v'] x] & I & I').
  destruct (Z.ltb_spec 0 (eH x)), (Z.ltb_spec 0 (eG x)); simpl in I'; try contradiction; destruct I' as [I'|[]]; inversion I'; subst;
    exists x; unfold eG, eH, eS in *; simpl; repeat split; auto; lia.
Qed.

(** the backward template is again a well-formed rule *)
Lemma existsb_flat_sub {B C} (P : N -> N -> bool) (c : B -> bool) (f : B -> C) (es : list (N * N * B)) :
  existsb (fun e => let '(u, v, _) := e in P u v) es = false ->
  existsb (fun e => let '(u, v, _) := e in P u v) (flat_map (fun e => let '(u, v, x) := e in if c x then [(u, v, f x)] else []) es) = false.
Proof.
  induction es as [|[[u v] x] r IH]; simpl; [reflexivity|]. intros H. apply orb_false_elim in H. destruct H as [H1 H2].
  destruct (c x); simpl; [rewrite H1|]; auto.
Qed.
Lemma simple_flat_sub {B C} (c : B -> bool) (f : B -> C) (es : list (N * N * B)) :
  simple_edgesb es = true ->
  simple_edgesb (flat_map (fun e => let '(u, v, x) := e in if c x then [(u, v, f x)] else []) es) = true.
Proof.
  induction es as [|[[a b] x] r IH]; simpl; [reflexivity|]. intros H.
  apply andb_prop in H. destruct H as [H H3]. apply andb_prop in H. destruct H as [H1 H2].
  destruct (c x); simpl; [|auto]. rewrite H1, (IH H3). simpl. rewrite andb_true_r.
  apply negb_true_iff in H2. apply negb_true_iff.
  exact (existsb_flat_sub (fun u v => peq u v a b) c f r H2).
Qed.

Lemma invert_wf T : wf_rcb T = true -> wf_rcb (invert_template T) = true.
Proof.
  unfold wf_rcb. intros H. apply andb_prop in H. destruct H as [H H3]. apply andb_prop in H. destruct H as [H1 H2].
  rewrite invert_ids, H1. simpl. apply andb_true_intro. split.
  - unfold invert_template; simpl.
    exact (simple_flat_sub (fun x => (0 <? eH x) || (0 <? eG x))
             (fun x => let g := if 0 <? eH x then eH x else 0 in let h := if 0 <? eG x then eG x else 0 in (g, h, g - h))
             (gedges T) H2).
  - apply forallb_forall. intros [[u v] y] I. destruct (invert_edge_inv T u v y I) as (x & _ & _ & E1 & E2 & _).
    simpl. rewrite E1, E2. apply andb_true_intro. split; apply Z.leb_le; lia.
Qed.

(** * Backward application, put together: gluing the inverted template on a substrate [host] (the PRODUCT of the
      proposed reaction; smarts_list reverses the serialised string) yields an ITS whose reactant side is [host]
      and whose changed bonds are the images of the ORIGINAL template's bonds with the opposite order change *)
Theorem backward host tpl m T :
  wf_hostb host = true -> wf_rcb tpl = true ->
  match_rcb host (invert_template tpl) m = true -> glue host (invert_template tpl) m = Some T ->
  its_decompose (invert_template tpl) = (snd (its_decompose tpl), fst (its_decompose tpl)) /\
  balancedb (invert_template tpl) = balancedb tpl /\
  (gnodes (fst (its_decompose T)) = gnodes (mol_of_host host) /\ forall a b, adj (fst (its_decompose T)) a b = adj host a b) /\
  (forall u v x, In (u, v, x) (gedges tpl) -> 0 < eG x \/ 0 < eH x ->
     exists hu hv y, mget m u = Some hu /\ mget m v = Some hv /\ adj T hu hv = Some y /\ eH y - eG y = - (eH x - eG x)) /\
  (forall a b y, adj T a b = Some y -> eG y <> eH y ->
     exists u v x hu hv, In (u, v, x) (gedges tpl) /\ mget m u = Some hu /\ mget m v = Some hv /\ peq hu hv a b = true /\
                         eH y - eG y = - (eH x - eG x)).
Proof.
  intros Hwh Hwt Hm Hg. pose proof (invert_wf tpl Hwt) as Hwi.
  split; [apply invert_decompose|]. split; [apply invert_balanced|].
  split; [exact (left_is_host_dec host _ m T Hwh Hwi Hm Hg)|].
  destruct (changes_exact host _ m T Hwi Hm Hg) as (_ & C1 & C2 & _). split.
  - intros u v x I Hpos. destruct (wf_rc_nonneg tpl u v x Hwt I) as [N1 N2].
    destruct (C1 u v _ (invert_edge_in tpl u v x I N1 N2 Hpos)) as (hu & hv & y & E1 & E2 & Ea & Ed).
    exists hu, hv, y. repeat split; auto. unfold eG, eH in *; simpl in *. lia.
  - intros a b y Ha Hne. destruct (C2 a b y Ha Hne) as (u & v & x' & hu & hv & I & E1 & E2 & Ep & Ed).
    destruct (invert_edge_inv tpl u v x' I) as (x & Ix & _ & G1 & G2 & _).
    destruct (wf_rc_nonneg tpl u v x Hwt Ix) as [N1 N2].
    exists u, v, x, hu, hv. repeat split; auto. lia.
Qed.

(** * implicit-template mode: SynRule.__init__(implicit_h=False) hands the template itself to the reactor *)
Lemma set_hc_same a : set_hc a (a_hc a) = a.
Proof. destruct a; reflexivity. Qed.

Lemma refresh_types_id (T : its) : NoDup (node_ids T) ->
  refresh_types T (fst (its_decompose T)) (snd (its_decompose T)) = Some T.
Proof.
  intros Hnd. unfold refresh_types.
  match goal with |- context [fold_right ?f _ _] => set (F := f) end.
  assert (H : forall ns, (forall k a, In (k, a) ns -> label T k = Some a) -> fold_right F (Some []) ns = Some ns).
  { induction ns as [|[k a] r IH]; intros Hall; [reflexivity|].
    change (fold_right F (Some []) ((k, a) :: r)) with (F (k, a) (fold_right F (Some []) r)).
    rewrite IH by (intros; apply Hall; right; assumption).
    pose proof (Hall k a (or_introl eq_refl)) as Hk.
    unfold F, label, its_decompose, dec_side in *. cbn [fst snd gnodes]. rewrite (assoc_map (fun a => dec_node (iG a))), (assoc_map (fun a => dec_node (iH a))), Hk. cbn [option_map dec_node m_hc].
    rewrite !set_hc_same. destruct a; reflexivity. }
  rewrite H.
  - destruct T; reflexivity.
  - intros k a I. apply assoc_nodup_in; assumption.
Qed.

Theorem synrule_implicit (tpl : its) : nodupb (node_ids tpl) = true ->
  synrule tpl false = Some (tpl, fst (its_decompose tpl), snd (its_decompose tpl)).
Proof.
  intros H. unfold synrule. simpl.
  change (dec_side iG eG tpl) with (fst (its_decompose tpl)). change (dec_side iH eH tpl) with (snd (its_decompose tpl)).
  rewrite (refresh_types_id tpl (nodupb_NoDup _ H)). reflexivity.
Qed.
