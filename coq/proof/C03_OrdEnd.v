(** C03 — the end-to-end statements of the default mode for EVERY visiting order of the hydrogen-transfer groups, and the
    non-vacuity examples of proof/C03_Ord.v / C03_FirstFit.v (a group on which the visiting order changes the wiring).
    Stdlib lists only. *)
From Coq Require Import List NArith ZArith Bool Lia Permutation.
From SK Require Import lib.Tok lib.LGraph model.C03_Model model.C03_Order proof.C03_Proof proof.C03_Glue proof.C03_Backward
                       proof.C03_Skeleton proof.C03_ExplicitH proof.C03_ExplicitShape proof.C03_ExplicitTotal proof.C03_Expand
                       proof.C03_Wiring proof.C03_WiringCount proof.C03_PairIds proof.C03_DefaultEnd proof.C03_DefaultWiring
                       proof.C03_Ord proof.C03_FirstFit.
Import ListNotations.
Local Open Scope Z_scope.

Section AnyOrder.
  Variable ord : list N -> list N.
  Hypothesis ord_in : forall l x, In x (ord l) <-> In x l.
  Hypothesis ord_nodup : forall l, NoDup l -> NoDup (ord l).

  Theorem default_end_to_end_direct_ord tpl rc l r host m T T' ms :
    nodupb (node_ids tpl) = true -> (forall k a, In (k, a) (gnodes tpl) -> a_el (iH a) = a_el (iG a)) ->
    simple_edgesb (gedges tpl) = true -> synrule tpl true = Some (rc, l, r) -> tpl_condition tpl ->
    wf_hostb host = true -> wf_rcb rc = true -> match_rcb host rc m = true -> glue host rc m = Some T ->
    explicit_h_ord ord T = Some (T', ms) ->
    (forall e, elem_count e (fst (its_decompose T')) = elem_count e (snd (its_decompose T'))) /\
    total_charge (fst (its_decompose T')) = total_charge (snd (its_decompose T')) /\
    (forall e, elem_count e (fst (its_decompose T')) = elem_count e (mol_of_host host)) /\
    (forall a b, In a (node_ids host) -> In b (node_ids host) -> bondG T' a b = adj host a b).
  Proof.
    intros Hnd0 Hel Hs H Hcond Hwh Hwr Hm Hg He.
    exact (explicit_h_ord_conserve ord ord_in host rc m T T' ms Hwh Hwr Hm Hg (default_rule_balanced tpl rc l r Hnd0 Hel Hs H Hcond) He).
  Qed.

  Theorem default_end_to_end_expanded_ord tpl rc l r host nodes m T T' ms :
    nodupb (node_ids tpl) = true -> (forall k a, In (k, a) (gnodes tpl) -> a_el (iH a) = a_el (iG a)) ->
    simple_edgesb (gedges tpl) = true -> synrule tpl true = Some (rc, l, r) -> tpl_condition tpl ->
    wf_hostb host = true -> wf_hostb (h_to_explicit host nodes) = true -> wf_rcb rc = true ->
    match_rcb (h_to_explicit host nodes) rc m = true -> glue (h_to_explicit host nodes) rc m = Some T ->
    explicit_h_ord ord T = Some (T', ms) ->
    (forall e, elem_count e (fst (its_decompose T')) = elem_count e (snd (its_decompose T'))) /\
    total_charge (fst (its_decompose T')) = total_charge (snd (its_decompose T')) /\
    (forall e, elem_count e (fst (its_decompose T')) = elem_count e (mol_of_host host)) /\
    (forall a b, In a (node_ids host) -> In b (node_ids host) -> bondG T' a b = adj host a b).
  Proof.
    intros Hnd0 Hel Hs H Hcond Hwh Hwx Hwr Hm Hg He.
    destruct (explicit_path_ord ord ord_in host nodes rc m T T' ms Hwh Hwx Hwr Hm Hg He) as (A & B & C & D).
    destruct (D (default_rule_balanced tpl rc l r Hnd0 Hel Hs H Hcond)) as [D1 D2]. auto.
  Qed.

  Theorem default_migrations_in_template_groups_ord tpl rc l r host m T :
    nodupb (node_ids tpl) = true -> (forall k n, In (k, n) (gnodes tpl) -> i_hp n = None) ->
    synrule tpl true = Some (rc, l, r) ->
    wf_hostb host = true -> wf_rcb rc = true -> match_rcb host rc m = true -> glue host rc m = Some T ->
    forall T' ms, explicit_h_ord ord T = Some (T', ms) ->
    forall sd, In sd ms ->
      exists x y, mget m x = Some (fst sd) /\ mget m y = Some (snd sd) /\ tpl_group tpl x y /\
                  0 < dl_of T (fst sd) /\ dl_of T (snd sd) < 0.
  Proof.
    intros Hnd Hnone Hs Hwh Hwr Hm Hg T' ms He sd I.
    destruct (explicit_h_ord_wiring ord ord_in T T' ms (glued_nodup host rc m T Hwh Hwr Hm Hg) He) as [_ W].
    destruct (W sd I) as (G & D1 & D2).
    inversion G as [a Ea Eb|a b c Hsp Hgr Ea Ec].
    - exfalso. assert (Eq : fst sd = snd sd) by congruence. rewrite Eq in D1. lia.
    - destruct (default_share_pair_template tpl rc l r host m T _ b Hnd Hnone Hs Hwh Hwr Hm Hg Hsp) as (x1 & y1 & h & E1 & E2 & _).
      destruct (group_chain tpl rc l r host m T Hnd Hnone Hs Hwh Hwr Hm Hg (fst sd) (snd sd) G x1 E1) as (y & Ey & Gy). exists x1, y. auto.
  Qed.
End AnyOrder.

(** * examples: one group {1, 2, 8, 9} (all four atoms carry pair id 1), donors 1 and 8 (one hydrogen each), recipients 2 and 9.
    CPython visits the set {1, 8, 2, 9} as 8, 1, 2, 9 (probe in notes/C03.md): the code wires 8 -> 2 and 1 -> 9, the
    sorted order would wire 1 -> 2 and 8 -> 9. *)
Definition oC : N := 67%N.
Definition oO : N := 79%N.
Definition o_at (e : N) (h : Z) : nattr := NA e false h 0 [].
Definition ex_grp : its :=
  LG [(1%N, IN (o_at oC 1) (o_at oC 0) 0 (Some [1%N])); (8%N, IN (o_at oC 1) (o_at oC 0) 0 (Some [1%N]));
      (2%N, IN (o_at oO 0) (o_at oO 1) 0 (Some [1%N])); (9%N, IN (o_at oO 0) (o_at oO 1) 0 (Some [1%N]))] [].
Definition ex_tbl : list (list N) := [[8%N; 1%N; 2%N; 9%N]].

Example ex_ord_changes_wiring :
  option_map snd (explicit_h_ord (ord_of ex_tbl) ex_grp) = Some [(8%N, 2%N); (1%N, 9%N)] /\
  option_map snd (explicit_h ex_grp) = Some [(1%N, 2%N); (8%N, 9%N)] /\
  option_map snd (explicit_h_ord (ord_of []) ex_grp) = option_map snd (explicit_h ex_grp).
Proof. vm_compute. repeat split. Qed.

(** a recorded order is only used for a component with exactly its atoms *)
Example ex_ord_of_guard : ord_of [[8%N; 1%N; 2%N]] [1%N; 8%N; 2%N; 9%N] = [1%N; 2%N; 8%N; 9%N] /\
                          ord_of [[8%N; 1%N; 1%N; 9%N]] [1%N; 8%N; 2%N; 9%N] = [1%N; 2%N; 8%N; 9%N] /\
                          ord_of ex_tbl [9%N; 2%N; 8%N; 1%N] = [8%N; 1%N; 2%N; 9%N].
Proof. vm_compute. repeat split. Qed.

Example ex_ord_wiring : forall sd, In sd [(8%N, 2%N); (1%N, 9%N)] -> same_group ex_grp (fst sd) (snd sd).
Proof.
  assert (H : explicit_h_ord (ord_of ex_tbl) ex_grp <> None) by (vm_compute; discriminate).
  destruct (explicit_h_ord (ord_of ex_tbl) ex_grp) as [[T' ms]|] eqn:E; [|congruence].
  assert (Ems : ms = [(8%N, 2%N); (1%N, 9%N)]).
  { pose proof (f_equal (option_map snd) E) as E'. vm_compute in E'. inversion E'. reflexivity. }
  assert (Hnd : NoDup (node_ids ex_grp)) by (apply nodupb_NoDup; reflexivity).
  destruct (explicit_h_ord_wiring (ord_of ex_tbl) (ord_of_in ex_tbl) ex_grp T' ms Hnd E) as [_ W].
  intros sd I. rewrite <- Ems in I. exact (proj1 (W sd I)).
Qed.

Example ex_first_fit_zip :
  zip_migrations ex_grp [8%N; 1%N; 2%N; 9%N] = [(8%N, 2%N); (1%N, 9%N)] /\
  migrations_of ex_grp [8%N; 1%N; 2%N; 9%N] = Some [(8%N, 2%N); (1%N, 9%N)] /\
  zip_okb (ord_of ex_tbl) ex_grp = true.
Proof. vm_compute. repeat split. Qed.

(** two hydrogens from one donor, a recipient with room for two: slots are repeated *)
Definition ex_grp2 : its :=
  LG [(5%N, IN (o_at oC 3) (o_at oC 1) 0 (Some [1%N; 2%N])); (12%N, IN (o_at oC 1) (o_at oC 0) 0 (Some [2%N]));
      (3%N, IN (o_at oO 0) (o_at oO 2) 0 (Some [1%N])); (20%N, IN (o_at oO 0) (o_at oO 1) 0 (Some [2%N]))] [].
Example ex_first_fit_zip2 :
  slots (dl_of ex_grp2) [12%N; 5%N] = [12%N; 5%N; 5%N] /\
  migrations_of ex_grp2 [12%N; 5%N; 3%N; 20%N] = Some [(12%N, 3%N); (5%N, 3%N); (5%N, 20%N)] /\
  migrations_of ex_grp2 [12%N; 5%N; 3%N; 20%N] = Some (zip_migrations ex_grp2 [12%N; 5%N; 3%N; 20%N]) /\
  comp_balancedb ex_grp2 [12%N; 5%N; 3%N; 20%N] = true.
Proof. vm_compute. repeat split. Qed.

Example ex_ord_crash : explicit_h_ord (ord_of ex_tbl) (LG [(1%N, IN (o_at oO 1) (o_at oO 0) 0 (Some [1%N]))] []) = None.
Proof. reflexivity. Qed.

Example ex_ord_usage : forall T' ms, explicit_h_ord (ord_of ex_tbl) ex_grp = Some (T', ms) ->
  occurrences 8%N (map fst ms) = 1 /\ occurrences 9%N (map snd ms) = 1 /\ occurrences 2%N (map fst ms) = 0.
Proof.
  intros T' ms E.
  pose proof (explicit_h_ord_usage (ord_of ex_tbl) (ord_of_in ex_tbl) (ord_of_nodup ex_tbl) ex_grp T' ms E) as U.
  assert (Hex : pairs_exactb ex_grp = true) by reflexivity.
  pose proof (explicit_h_ord_usage_exact (ord_of ex_tbl) (ord_of_in ex_tbl) (ord_of_nodup ex_tbl) ex_grp T' ms E Hex) as X.
  split; [|split].
  - rewrite (proj1 (U 8%N)). reflexivity.
  - rewrite (X 9%N). reflexivity.
  - rewrite (proj1 (U 2%N)). reflexivity.
Qed.
