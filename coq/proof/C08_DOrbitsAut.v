(** C08 — directed inputs: compute_orbits on a DiGraph returns the orbits of the automorphism group of the digraph (mirror of
    C08_Orbits.nauty_orbits_spec and C08_OrbitsAut.v, generated from the latter by renaming). *)
From Coq Require Import List NArith ZArith Bool Arith Lia Permutation Relations.
From SK Require Import lib.LGraph lib.StrJoin.
From SK Require Import model.C08_Model proof.C08_Spec proof.C08_Sort proof.C08_Faithful proof.C08_Cov proof.C08_SigFun
                       proof.C08_Render proof.C08_Nauty proof.C08_Sound proof.C08_Invariant proof.C08_Auts proof.C08_Orbits.
From SK Require Import model.C08_Digraph proof.C08_DSpec proof.C08_DSer proof.C08_DNauty proof.C08_DEquiv proof.C08_DInvariant proof.C08_DAuts.
Import ListNotations.

Notation ix p := (apply_map (mapping_of p)).

(** an automorphism of [g] on the covered attributes *)
Definition daut (g : graph) (s : N -> N) : Prop := C08_Spec.inj_on s (node_ids g) /\ dgeq_cov (relabel s g) g.
Definition dsame_orbit (g : graph) (x y : N) : Prop := exists s, daut g s /\ s x = y.

Lemma daut_image g s x : daut g s -> In x (node_ids g) -> In (s x) (node_ids g).
Proof.
  intros [_ Hq] I. apply (Permutation_in _ (dgeq_cov_ids _ _ Hq)). rewrite node_ids_relabel. apply in_map. exact I.
Qed.
Lemma daut_onto g s y : daut g s -> In y (node_ids g) -> exists x, In x (node_ids g) /\ s x = y.
Proof.
  intros [_ Hq] I. apply (Permutation_in _ (Permutation_sym (dgeq_cov_ids _ _ Hq))) in I.
  rewrite node_ids_relabel in I. apply in_map_iff in I. destruct I as (x & E & I). exists x. auto.
Qed.
Lemma daut_id g : dwf g -> daut g (fun x => x).
Proof.
  intros Hg. split; [intros x y _ _ E; exact E|]. rewrite (drelabel_id_on (fun x => x) g Hg); auto. apply dgeq_cov_refl.
Qed.
Lemma daut_comp g s t : daut g s -> daut g t -> daut g (fun x => t (s x)).
Proof.
  intros Hs Ht. split.
  - intros x y Hx Hy E. apply (proj1 Hs); auto. apply (proj1 Ht); auto; apply (daut_image g s); auto.
  - rewrite <- (relabel_compose s t g). eapply dgeq_cov_trans; [apply relabel_dgeq_cov; exact (proj2 Hs)|exact (proj2 Ht)].
Qed.
Lemma daut_inv g s : dwf g -> daut g s ->
  daut g (inv_on s (node_ids g)) /\ forall x, In x (node_ids g) -> inv_on s (node_ids g) (s x) = x.
Proof.
  intros Hg Hs. pose proof Hs as [Hi Hq]. split; [split|].
  - intros y1 y2 I1 I2 E.
    destruct (daut_onto g s y1 Hs I1) as (x1 & J1 & <-). destruct (daut_onto g s y2 Hs I2) as (x2 & J2 & <-).
    rewrite !inv_on_spec in E by auto. subst. reflexivity.
  - apply dgeq_cov_sym.
    pose proof (relabel_dgeq_cov (inv_on s (node_ids g)) _ _ Hq) as H. rewrite relabel_compose in H.
    rewrite (drelabel_id_on _ g Hg) in H; [exact H|]. intros x I. apply inv_on_spec; auto.
  - intros x I. apply inv_on_spec; auto.
Qed.

(* the map that carries one canonical numbering to another with the same covered canonical graph *)
Lemma dcommon_form_map g f f' : dwf g -> C08_Spec.inj_on f (node_ids g) -> C08_Spec.inj_on f' (node_ids g) ->
  dgeq_cov (relabel f g) (relabel f' g) -> daut g (fun x => inv_on f' (node_ids g) (f x)).
Proof.
  intros Hg Hi Hi' Hq. set (iv := inv_on f' (node_ids g)). split.
  - intros x y Hx Hy E.
    pose proof (dgeq_cov_ids _ _ Hq) as Hp. rewrite !node_ids_relabel in Hp.
    assert (Ix : In (f x) (map f' (node_ids g))) by (apply (Permutation_in _ Hp); apply in_map; auto).
    assert (Iy : In (f y) (map f' (node_ids g))) by (apply (Permutation_in _ Hp); apply in_map; auto).
    apply in_map_iff in Ix, Iy. destruct Ix as (x' & Ex & Ix), Iy as (y' & Ey & Iy).
    rewrite <- Ex, <- Ey in E. unfold iv in E. rewrite !inv_on_spec in E by auto. subst y'.
    apply Hi; auto. congruence.
  - rewrite <- (relabel_compose f iv g).
    eapply dgeq_cov_trans; [apply relabel_dgeq_cov; exact Hq|].
    rewrite relabel_compose. rewrite drelabel_id_on; auto; [apply dgeq_cov_refl|].
    intros x Hx. apply inv_on_spec; auto.
Qed.

Lemma din_combine_map {A B} (f : A -> B) (l : list A) x : In x l -> In (x, f x) (combine l (map f l)).
Proof. induction l as [|a l IH]; simpl; [tauto|]. intros [->|I]; [left; reflexivity|right; auto]. Qed.

Theorem dnauty_orbits_spec g : NoDup (node_ids g) ->
  Permutation (concat (dnauty_orbits g)) (node_ids g) /\
  (forall c x y, In c (dnauty_orbits g) -> In x c -> In y c -> eqv (pairs_rel (dnauty_perm g) (snd (dnauty_acc g))) x y) /\
  (forall x y, In x (node_ids g) -> In y (node_ids g) -> eqv (pairs_rel (dnauty_perm g) (snd (dnauty_acc g))) x y ->
     exists c, In c (dnauty_orbits g) /\ In x c /\ In y c).
Proof.
  intros Hnd. pose proof (dnauty_perm_perm g Hnd) as Pp. unfold dnauty_orbits. split; [|split].
  - eapply perm_trans; [apply orbit_classes_partition|exact Pp].
  - apply orbit_classes_spec.
  - intros x y Ix Iy. apply orbit_classes_complete; apply (Permutation_in _ (Permutation_sym Pp)); auto.
Qed.

Section Orb.
Variable g : graph.
Hypothesis Hg : dwf g.
Hypothesis Eg : els_ok g.

Lemma dsame_orbit_refl x : dsame_orbit g x x.
Proof. exists (fun z => z). split; [apply daut_id; exact Hg|reflexivity]. Qed.
Lemma dsame_orbit_sym x y : In x (node_ids g) -> dsame_orbit g x y -> dsame_orbit g y x.
Proof.
  intros I (s & Hs & <-). destruct (daut_inv g s Hg Hs) as [Ha Hv]. exists (inv_on s (node_ids g)). split; auto.
Qed.
Lemma dsame_orbit_trans x y z : dsame_orbit g x y -> dsame_orbit g y z -> dsame_orbit g x z.
Proof. intros (s & Hs & <-) (t & Ht & <-). exists (fun u => t (s u)). split; [apply daut_comp; auto|reflexivity]. Qed.

(* every generating pair (best_i, q_i) is a node and its image under an automorphism *)
Lemma dpair_same_orbit a b : pairs_rel (dnauty_perm g) (snd (dnauty_acc g)) a b ->
  In a (node_ids g) /\ In b (node_ids g) /\ dsame_orbit g a b.
Proof.
  intros (q & Iq & Iab). pose proof (proj1 Hg) as Ng.
  destruct (dnauty_auts_sound g Hg Eg q Iq) as (Pq & _ & Hq).
  pose proof (dnauty_perm_perm g Ng) as Pp. set (p := dnauty_perm g) in *.
  assert (Np : NoDup p) by (eapply Permutation_NoDup; [apply Permutation_sym; exact Pp|exact Ng]).
  assert (Nq : NoDup q) by (eapply Permutation_NoDup; [apply Permutation_sym; exact Pq|exact Ng]).
  assert (Hl : length p = length q) by (rewrite (Permutation_length Pp), (Permutation_length Pq); reflexivity).
  assert (Ia : In a (node_ids g)) by (apply (Permutation_in _ Pp); eapply in_combine_l; eauto).
  assert (Ib : In b (node_ids g)) by (apply (Permutation_in _ Pq); eapply in_combine_r; eauto).
  assert (Ip : C08_Spec.inj_on (ix p) (node_ids g)) by (apply inj_on_same; eapply inj_on_perm; [exact Pp|apply mapping_of_inj; auto]).
  assert (Iqq : C08_Spec.inj_on (ix q) (node_ids g)) by (apply inj_on_same; eapply inj_on_perm; [exact Pq|apply mapping_of_inj; auto]).
  split; [exact Ia|]. split; [exact Ib|].
  exists (fun x => inv_on (ix q) (node_ids g) (ix p x)). split.
  - apply dcommon_form_map; auto.
  - rewrite (ix_combine p q a b Np Nq Hl Iab). apply inv_on_spec; auto.
Qed.

Theorem dnauty_orbits_aut x y : In x (node_ids g) -> In y (node_ids g) ->
  ((exists c, In c (dnauty_orbits g) /\ In x c /\ In y c) <-> dsame_orbit g x y).
Proof.
  intros Ix Iy. pose proof (proj1 Hg) as Ng. destruct (dnauty_orbits_spec g Ng) as (_ & H2 & H3). split.
  - intros (c & Ic & Ixc & Iyc). pose proof (H2 c x y Ic Ixc Iyc) as Hc. clear -Hc Hg Eg.
    assert (K : (In x (node_ids g) /\ In y (node_ids g) /\ dsame_orbit g x y) \/ x = y).
    { unfold eqv in Hc. induction Hc as [a b R|a|a b _ IH|a b c0 _ IH1 _ IH2].
      - left. apply dpair_same_orbit. exact R.
      - right. reflexivity.
      - destruct IH as [(A & B & S) | ->]; [left|right; reflexivity]. split; [exact B|]. split; [exact A|]. apply dsame_orbit_sym; auto.
      - destruct IH1 as [(A & B & S) | ->]; [|exact IH2]. destruct IH2 as [(B' & C & S') | <-]; [|left; auto].
        left. split; [exact A|]. split; [exact C|]. eapply dsame_orbit_trans; eauto. }
    destruct K as [(_ & _ & S) | ->]; [exact S|apply dsame_orbit_refl].
  - intros (s & Hs & <-). apply H3; auto. apply rst_step.
    set (pi := extend s (node_ids g)).
    assert (pi_inj : forall u v, pi u = pi v -> u = v) by (apply extend_inj; exact (proj1 Hs)).
    assert (Hq : dgeq_cov (relabel pi g) g).
    { rewrite (drelabel_ext_on pi s g Hg); [exact (proj2 Hs)|]. intros u I. apply extend_on. exact I. }
    exists (map pi (dnauty_perm g)). split; [apply dnauty_auts_complete; auto|].
    assert (Ixp : In x (dnauty_perm g)) by (apply (Permutation_in _ (Permutation_sym (dnauty_perm_perm g Ng))); exact Ix).
    rewrite <- (extend_on s (node_ids g) x Ix). apply din_combine_map. exact Ixp.
Qed.
End Orb.

(* non-vacuity: the directed 4-cycle: one orbit; the rotation is an automorphism of the digraph, the reflection is not *)
Definition doa_rot (x : N) : N := if N.eqb x 4 then 1%N else (x + 1)%N.
Example doa_ex : length (dnauty_orbits dau_g) = 1 /\ daut dau_g doa_rot /\ doa_rot 1 = 2%N.
Proof.
  split; [vm_compute; reflexivity|]. split; [|reflexivity]. split.
  - intros x y Hx Hy. simpl in Hx, Hy.
    destruct Hx as [<-|[<-|[<-|[<-|[]]]]], Hy as [<-|[<-|[<-|[<-|[]]]]]; vm_compute; intros E; try reflexivity; discriminate.
  - split; vm_compute.
    + apply Permutation_sym. apply (Permutation_cons_app [_; _; _] []). apply Permutation_refl.
    + apply Permutation_sym. apply (Permutation_cons_app [_; _; _] []). apply Permutation_refl.
Qed.

Print Assumptions dnauty_orbits_spec.
Print Assumptions dnauty_orbits_aut.
