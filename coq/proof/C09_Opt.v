(** C09 — ignore_aromaticity does not influence the ITS verdict of smiles_check: the option only changes standard_order, and
    the matcher compares the (before, after) order pair, never standard_order.  (It does influence the RC verdict: get_rc
    selects the centre by standard_order.) *)
From Coq Require Import List NArith ZArith Bool.
From SK Require Import lib.LGraph lib.C01_GraphLemmas model.C01_Model model.C02_Model model.C09_Model
  proof.C09_Valid proof.C09_Main.
From SK Require model.C01_Opts proof.C01_OptsProof proof.C02_Proof.
Import ListNotations.

Definition es (e : iedge) : iedge := IE (e_G e) (e_H e) 0.
Definition esE (e : N * N * iedge) : N * N * iedge := let '(u, v, x) := e in (u, v, es x).
Definition Estd (g : its) : its := LG (gnodes g) (map esE (gedges g)).

Lemma find_edge_esE u v (l : list (N * N * iedge)) : find_edge u v (map esE l) = option_map es (find_edge u v l).
Proof.
  induction l as [|[[a b] x] l IH]; simpl; [reflexivity|].
  destruct ((N.eqb a u && N.eqb b v) || (N.eqb a v && N.eqb b u))%bool; [reflexivity|exact IH].
Qed.
Lemma adj_Estd g u v : adj (Estd g) u v = option_map es (adj g u v).
Proof. unfold adj, Estd. simpl. apply find_edge_esE. Qed.
Lemma edge_match_es a b : edge_match a b = edge_match (es a) (es b).
Proof. reflexivity. Qed.

Lemma its_emb_Estd g1 g1' g2 g2' f : Estd g1 = Estd g1' -> Estd g2 = Estd g2' -> its_emb g1 g2 f -> its_emb g1' g2' f.
Proof.
  intros E1 E2 (A & B & C).
  assert (N1 : gnodes g1 = gnodes g1') by (apply (f_equal (fun g : its => gnodes g)) in E1; exact E1).
  assert (N2 : gnodes g2 = gnodes g2') by (apply (f_equal (fun g : its => gnodes g)) in E2; exact E2).
  assert (L1 : forall n, lbl g1 n = lbl g1' n) by (intros n; unfold lbl, label; rewrite N1; reflexivity).
  assert (L2 : forall n, lbl g2 n = lbl g2' n) by (intros n; unfold lbl, label; rewrite N2; reflexivity).
  assert (I1 : node_ids g1 = node_ids g1') by (unfold node_ids; rewrite N1; reflexivity).
  assert (I2 : node_ids g2 = node_ids g2') by (unfold node_ids; rewrite N2; reflexivity).
  assert (A1 : forall u v, option_map es (adj g1 u v) = option_map es (adj g1' u v)) by (intros; rewrite <- !adj_Estd, E1; reflexivity).
  assert (A2 : forall u v, option_map es (adj g2 u v) = option_map es (adj g2' u v)) by (intros; rewrite <- !adj_Estd, E2; reflexivity).
  split; [|split].
  - intros u Iu. rewrite <- I2 in Iu. destruct (A u Iu) as (X & Y). rewrite <- I1, <- L1, <- L2. auto.
  - intros u v Iu Iv. rewrite <- I2 in Iu, Iv. apply B; assumption.
  - intros u v Iu Iv Hne. rewrite <- I2 in Iu, Iv. specialize (C u v Iu Iv Hne).
    specialize (A1 (f u) (f v)). specialize (A2 u v).
    destruct (adj g2 u v) as [b|], (adj g2' u v) as [b2|]; try discriminate A2;
      destruct (adj g1 (f u) (f v)) as [b'|], (adj g1' (f u) (f v)) as [b2'|]; try discriminate A1; try contradiction; auto.
    assert (X1 : es b' = es b2') by (simpl in A1; congruence). assert (X2 : es b = es b2) by (simpl in A2; congruence).
    rewrite (edge_match_es b2' b2), <- X1, <- X2, <- edge_match_es. exact C.
Qed.
Lemma its_isomorphic_Estd g1 g1' g2 g2' : Estd g1 = Estd g1' -> Estd g2 = Estd g2' -> its_isomorphic g1 g2 -> its_isomorphic g1' g2'.
Proof.
  intros E1 E2 (L1 & L2 & f & Hf).
  assert (N1 : gnodes g1 = gnodes g1') by (apply (f_equal (fun g : its => gnodes g)) in E1; exact E1).
  assert (N2 : gnodes g2 = gnodes g2') by (apply (f_equal (fun g : its => gnodes g)) in E2; exact E2).
  assert (M1 : length (gedges g1) = length (gedges g1')).
  { apply (f_equal (fun g : its => length (gedges g))) in E1. unfold Estd in E1. simpl in E1. rewrite !map_length in E1. exact E1. }
  assert (M2 : length (gedges g2) = length (gedges g2')).
  { apply (f_equal (fun g : its => length (gedges g))) in E2. unfold Estd in E2. simpl in E2. rewrite !map_length in E2. exact E2. }
  split; [rewrite <- N1, <- N2; exact L1|]. split; [rewrite <- M1, <- M2; exact L2|]. exists f. eapply its_emb_Estd; eauto.
Qed.

Lemma Estd_construct ia G H : Estd (C01_Opts.its_construct_o (vopts ia) G H) = Estd (its_construct G H).
Proof.
  unfold Estd. f_equal.
  change (gedges (C01_Opts.its_construct_o (vopts ia) G H)) with
    (map (fun e : N * N * Z => let '(u, v, x) := e in (u, v, C01_Opts.mk_iedge_o (vopts ia) x (order_in H u v))) (gedges G)
     ++ map (fun e : N * N * Z => let '(u, v, x) := e in (u, v, C01_Opts.mk_iedge_o (vopts ia) 0 x)) (filter (absent_in G) (gedges H))).
  change (gedges (its_construct G H)) with
    (map (fun e : N * N * Z => let '(u, v, o) := e in (u, v, mk_iedge o (order_in H u v))) (gedges G)
     ++ map (fun e : N * N * Z => let '(u, v, o) := e in (u, v, mk_iedge 0 o)) (filter (absent_in G) (gedges H))).
  rewrite !map_app, !map_map. f_equal; apply map_ext; intros [[u v] x]; reflexivity.
Qed.

(** the ITS verdict is the same for both values of ignore_aromaticity *)
Theorem its_verdict_ignores_ia (ia : bool) (G1 H1 G2 H2 : mgraph) : wf G2 -> wf H2 ->
  smiles_check_its_o ia G1 H1 G2 H2 = smiles_check_its G1 H1 G2 H2.
Proof.
  intros W1 W2. apply Bool.eq_iff_eq_true.
  rewrite (proj1 (validator_exact_o ia G1 H1 G2 H2 W1 W2)), (proj1 (validator_exact G1 H1 G2 H2 W1 W2)).
  split; apply its_isomorphic_Estd; auto using Estd_construct; symmetry; apply Estd_construct.
Qed.

(** hence every renumbering is accepted by the ITS method under both option values *)
Corollary renumbering_accepted_its_o (ia : bool) (f : N -> N) (G H : mgraph) :
  (forall a b, f a = f b -> a = b) -> wf G -> wf H ->
  smiles_check_its_o ia (relabel f G) (relabel f H) G H = true.
Proof.
  intros Hinj WG WH. rewrite (its_verdict_ignores_ia ia _ _ G H WG WH). apply (validator_renumbering f G H Hinj WG WH).
Qed.

Example ex_ia : smiles_check_its_o true ex_G ex_H ex_G ex_H = true /\ smiles_check_its_o true ex_G ex_H ex_G ex_H3 = smiles_check_its ex_G ex_H ex_G ex_H3.
Proof. vm_compute. split; reflexivity. Qed.

(** every renumbering is accepted by BOTH methods under BOTH values of ignore_aromaticity (C01_equivariant_opts: the ITS built
    with any option commutes with renaming; C02: so does get_rc) *)
Theorem validator_renumbering_options (ia : bool) (f : N -> N) (G H : mgraph) :
  (forall a b, f a = f b -> a = b) -> wf G -> wf H ->
  smiles_check_rc_o ia (relabel f G) (relabel f H) G H = true /\ smiles_check_its_o ia (relabel f G) (relabel f H) G H = true.
Proof.
  intros Hinj WG WH. destruct (validator_exact_o ia (relabel f G) (relabel f H) G H WG WH) as (E1 & E2).
  pose proof (proj1 (C01_OptsProof.equivariant_opts f Hinj (vopts ia) G H (LG [] []))) as Eq.
  split.
  - apply E2. rewrite Eq, (C02_Proof.rc_equivariant f Hinj). apply relabel_isomorphic. exact Hinj.
  - apply E1. rewrite Eq. apply relabel_isomorphic. exact Hinj.
Qed.
