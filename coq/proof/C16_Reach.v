(** C16 — the well-formedness premise holds for every network the public operations can build. *)
From stdpp Require Import gmap strings sets pretty sorting.
From SK Require Import lib.Tok model.C15_Model proof.C15_Proof model.C16_Model proof.C16_Defs proof.C16_BipA proof.C16_BipB.
Local Open Scope string_scope.

Lemma foldl_Inv {A} (f : net → A → net) (l : list A) : (∀ s x, Inv s → Inv (f s x)) → ∀ s, Inv s → Inv (foldl f s l).
Proof. intros Hf. induction l as [|x l IH]; intros s Hs; [done|]. cbn. apply IH. by apply Hf. Qed.

(** the networks of the correspondence cases ([mk_net] mirrors harness/props/C16.py:build) *)
Lemma mk_net_Inv kept rxns mols : Inv (mk_net kept rxns mols).
Proof.
  unfold mk_net. apply foldl_Inv.
  { intros s [x m] Hs. cbn. apply assign_mol_Inv. done. }
  apply foldl_Inv.
  { intros s [[[eid rule] l] r] Hs. apply add_Inv. done. }
  apply foldl_Inv; [|apply Inv_init].
  intros s x Hs. pose proof (add_Inv s (normalize [(x, 1%Z)]) ∅ "k" (Some "__k") Hs) as Ha.
  destruct (add s (normalize [(x, 1%Z)]) ∅ "k" (Some "__k")) as [[s' [er|]] e]; [done|].
  cbn in Ha. by apply remove_species_Inv.
Qed.
Lemma mk_net_wf16 kept rxns mols : wf16 (mk_net kept rxns mols).
Proof. apply Inv_wf16, mk_net_Inv. Qed.

(** every network reachable through the store operations of C15, default prefixes *)
Lemma reachable_bipartite_roundtrip (n : nat) (ops : list op) (k : nat) (fl : bflags) (ifl : iflags) :
  f_eid fl = true → f_stoich fl = true → f_sp fl = Some "S:" → f_rp fl = Some "R:" →
  edges (bipartite_to_hypergraph ifl (hypergraph_to_bipartite fl
           (getn (fold_left (λ w o, (step w o).1) ops (init_world n)) k))).1
  = edges (getn (fold_left (λ w o, (step w o).1) ops (init_world n)) k).
Proof.
  intros He Hs Hsp Hrp.
  apply bipartite_roundtrip; [|done|done|by apply default_prefixes_ok].
  apply Inv_wf16, getn_Inv, reachable_Inv.
Qed.

(** in-place edits through the public mutators keep the premise (history cases of the correspondence) *)
Lemma apply_edit_Inv s ed : Inv s → Inv (apply_edit s ed).
Proof.
  intros Hs. destruct ed; cbn.
  - by apply add_Inv.
  - by apply remove_rxn_Inv.
  - by apply remove_species_Inv.
  - by apply assign_mol_Inv.
  - by apply set_mol_map_Inv.
  - by apply merge_Inv.
Qed.
Lemma edited_wf16 kept rxns mols eds : wf16 (foldl apply_edit (mk_net kept rxns mols) eds).
Proof. apply Inv_wf16, foldl_Inv; [apply apply_edit_Inv|apply mk_net_Inv]. Qed.

(** * (round 5) everything the importers and the parser build satisfies the store invariant of C15 — from ANY graph and
      ANY text, also when the call raises midway (the reactions stored before stay, consistently indexed) *)
Lemma foldl_Inv_err {A} (f : net * option cerr → A → net * option cerr) (l : list A) :
  (∀ acc x, Inv acc.1 → Inv (f acc x).1) → ∀ acc, Inv acc.1 → Inv (foldl f acc l).1.
Proof. intros Hf. induction l as [|x l IH]; intros acc Hs; [done|]. cbn. apply IH. by apply Hf. Qed.

Lemma set_mol_Inv s x m : Inv s → x ∈ species s → Inv (set_mol s x m).
Proof.
  intros HI Hx. pose proof (assign_mol_Inv s x m HI) as Ha. unfold assign_mol in Ha. by rewrite decide_True in Ha.
Qed.

Lemma add_from_str_Inv s line rule ps : Inv s → Inv (add_from_str s line rule ps).1.
Proof.
  intros HI. unfold add_from_str.
  destruct (if ps && bool_decide (_ ∈ _) then _ else _) as [core rl].
  destruct (split_arrow (strip core)) as [[lft rgt]|]; [|done].
  destruct (from_chars lft) as [l|]; [|done]. destruct (from_chars rgt) as [r|]; [|done].
  pose proof (add_Inv s l r (default "" rl) None HI) as Ha.
  destruct (add s l r (default "" rl) None) as [[s' er] e]. done.
Qed.

Lemma parse_item_Inv s line ex dr ps pf : Inv s → Inv (parse_item s line ex dr ps pf).1.
Proof.
  intros HI. unfold parse_item. destruct ex as [r|].
  - destruct (pf && ps); [destruct (bar_rule_search _)|]; by apply add_from_str_Inv.
  - destruct ps; by apply add_from_str_Inv.
Qed.
Lemma parse_items_Inv s items dr ps pf : Inv s → Inv (parse_items s items dr ps pf).1.
Proof.
  intros HI. unfold parse_items. apply (foldl_Inv_err _ items); [|done].
  intros [s0 [e|]] it Hs; [done|]. by apply parse_item_Inv.
Qed.
Lemma parse_rxns_Inv s lines dr ps pf : Inv s → Inv (parse_rxns s lines dr ps pf).1.
Proof.
  intros HI. unfold parse_rxns. apply (foldl_Inv_err _ lines); [|done].
  intros [s0 [e|]] line Hs; [done|]. destruct ps; by apply add_from_str_Inv.
Qed.

Lemma import_rxn_Inv ifl G spn acc rnd : Inv acc.1 → Inv (import_rxn ifl G spn acc rnd).1.
Proof.
  intros HI. unfold import_rxn. destruct acc as [s [e|]]; [done|]. cbv zeta.
  destruct (decide _); [done|]. destruct (bn_eid _) as [e|]; [|done].
  match goal with |- context [add ?a ?b ?c ?d ?e] => pose proof (add_Inv a b c d e HI) as Ha; destruct (add a b c d e) as [[s' er] e'] end.
  done.
Qed.
Lemma import_mols_Inv G spn s : Inv s → Inv (import_mols G spn s).
Proof.
  intros HI. unfold import_mols. apply foldl_Inv; [|done].
  intros acc n Ha. destruct (b_nodes G !! n ≫= bn_mol) as [m|]; [|done].
  destruct (decide _); [by apply set_mol_Inv|done].
Qed.
Lemma bipartite_import_Inv ifl G : Inv (bipartite_to_hypergraph ifl G).1.
Proof.
  unfold bipartite_to_hypergraph. destruct (classify ifl G) as [spn rxn_nodes].
  pose proof (foldl_Inv_err (import_rxn ifl G spn) (merge_sort nid_le (elements rxn_nodes))
                (λ acc x, import_rxn_Inv ifl G spn acc x) (empty_net, None) Inv_init) as Hf.
  destruct (foldl _ _ _) as [s [e|]]; [done|]. cbn in *. destruct (i_mol ifl); [by apply import_mols_Inv|done].
Qed.

Lemma species_graph_import_Inv pick dr mol_attr G : Inv (species_graph_to_hypergraph pick dr mol_attr G).1.
Proof.
  unfold species_graph_to_hypergraph. destruct (species_graph_entries G) as [ents un].
  destruct (un || _); [apply Inv_init|].
  match goal with |- context [foldl ?f (empty_net, None) ?l] =>
    assert (Inv (foldl f (empty_net, None) l).1) as Hf end.
  { apply foldl_Inv_err; [|apply Inv_init]. intros [s [e|]] p Hs; [done|]. cbn in Hs.
    match goal with |- context [add ?a ?b ?c ?d ?e] => pose proof (add_Inv a b c d e Hs) as Ha; destruct (add a b c d e) as [[s' er] e'] end.
    done. }
  destruct (foldl _ _ _) as [s [e|]]; [done|]. cbn in *. destruct mol_attr; [|done].
  apply foldl_Inv; [|done]. intros acc xn Ha. destruct (sn_mol xn.2); [|done]. cbv zeta.
  destruct (decide _); [by apply set_mol_Inv|done].
Qed.

Lemma rxns_to_hypergraph_Inv lines dr ps pf : Inv (rxns_to_hypergraph lines dr ps pf).1.
Proof. apply parse_rxns_Inv, Inv_init. Qed.

(** non-vacuity: a parse that raises at its third line keeps the two reactions stored before (the fourth line is never read);
    an import of the untagged export of that network returns them again — all these networks satisfy [Inv] by the lemmas above *)
Definition exi_parse : net * option cerr := rxns_to_hypergraph ["2A + B >> C | rule=R1"; "C >> A"; "no arrow here"; "D >> E"] "r" true false.
Definition exi_graph : bgraph :=
  BGraph ((λ nd, BNode (bn_bip nd) (bn_label nd) None (bn_mol nd) (bn_eid nd)) <$>
          b_nodes (hypergraph_to_bipartite (BFlags (Some "S:") (Some "R:") 0 1 true true true false true true) exi_parse.1))
         (b_arcs (hypergraph_to_bipartite (BFlags (Some "S:") (Some "R:") 0 1 true true true false true true) exi_parse.1)).
Example ex_built_inv_nonvacuous :
  exi_parse.2 = Some EValue ∧ size (edges exi_parse.1) = 2%nat ∧ size (species exi_parse.1) = 3%nat ∧
  (bipartite_to_hypergraph (IFlags "S:" "R:" "zz" true) exi_graph).2 = None ∧
  size (edges (bipartite_to_hypergraph (IFlags "S:" "R:" "zz" true) exi_graph).1) = 2%nat.
Proof. split_and!; by vm_compute. Qed.
