(** C16 — the well-formedness premise holds for every network the public operations can build. *)
From stdpp Require Import gmap strings sets pretty sorting.
From SK Require Import lib.Tok model.C15_Model proof.C15_Proof model.C16_Model proof.C16_Defs proof.C16_BipA proof.C16_BipB.
Local Open Scope string_scope.

Lemma foldl_Inv {A} (f : net → A → net) (l : list A) : (∀ s x, Inv s → Inv (f s x)) → ∀ s, Inv s → Inv (foldl f s l).
Proof. intros Hf. induction l as [|x l IH]; intros s Hs; [done|]. cbn. apply IH. by apply Hf. Qed.

(** the networks of the correspondence cases ([mk_net] mirrors harness/props/C16.py:build) *)
Lemma mk_net_Inv kept rxns mols : Inv (mk_net kept rxns mols).
Proof.
  unfold mk_net. apply foldl_Inv.
  { intros s [x m] Hs. cbn. apply assign_mol_Inv. done. }
  apply foldl_Inv.
  { intros s [[[eid rule] l] r] Hs. apply add_Inv. done. }
  apply foldl_Inv; [|apply Inv_init].
  intros s x Hs. pose proof (add_Inv s (normalize [(x, 1%Z)]) ∅ "k" (Some "__k") Hs) as Ha.
  destruct (add s (normalize [(x, 1%Z)]) ∅ "k" (Some "__k")) as [[s' [er|]] e]; [done|].
  cbn in Ha. by apply remove_species_Inv.
Qed.
Lemma mk_net_wf16 kept rxns mols : wf16 (mk_net kept rxns mols).
Proof. apply Inv_wf16, mk_net_Inv. Qed.

(** every network reachable through the store operations of C15, default prefixes *)
Lemma reachable_bipartite_roundtrip (n : nat) (ops : list op) (k : nat) (fl : bflags) (ifl : iflags) :
  f_eid fl = true → f_stoich fl = true → f_sp fl = Some "S:" → f_rp fl = Some "R:" →
  edges (bipartite_to_hypergraph ifl (hypergraph_to_bipartite fl
           (getn (fold_left (λ w o, (step w o).1) ops (init_world n)) k))).1
  = edges (getn (fold_left (λ w o, (step w o).1) ops (init_world n)) k).
Proof.
  intros He Hs Hsp Hrp.
  apply bipartite_roundtrip; [|done|done|by apply default_prefixes_ok].
  apply Inv_wf16, getn_Inv, reachable_Inv.
Qed.

(** in-place edits through the public mutators keep the premise (history cases of the correspondence) *)
Lemma apply_edit_Inv s ed : Inv s → Inv (apply_edit s ed).
Proof.
  intros Hs. destruct ed; cbn.
  - by apply add_Inv.
  - by apply remove_rxn_Inv.
  - by apply remove_species_Inv.
  - by apply assign_mol_Inv.
Qed.
Lemma edited_wf16 kept rxns mols eds : wf16 (foldl apply_edit (mk_net kept rxns mols) eds).
Proof. apply Inv_wf16, foldl_Inv; [apply apply_edit_Inv|apply mk_net_Inv]. Qed.
