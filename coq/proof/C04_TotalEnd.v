(** C04 — the default mode to the end of its_list WITHOUT assuming that _explicit_h returns: for the reaction's own templates the
    premise of C04_identity_default_end follows from a boolean of the template and the prepared rule ([valence_okb]). *)
From Coq Require Import List NArith ZArith Bool Arith Lia.
From SK Require Import lib.Tok lib.LGraph model.C03_Model model.C04_Model model.C04_Reactor proof.C03_Proof proof.C03_Glue
                       proof.C04_Glue proof.C04_Template proof.C04_Fold proof.C04_Default proof.C04_DefaultProof proof.C04_Explicit proof.C04_DefaultEnd
                       proof.C04_Total proof.C04_TotalDefault.
Import ListNotations.
Local Open Scope Z_scope.

Theorem default_identity_end_total (core invert : bool) (G H : hostg) :
  pair_wfb G H = true -> mode_E G H = true ->
  default_okb (if invert then H else G) (if invert then G else H) (template core invert G H) = true ->
  (core = true -> centre_carries (its_construct G H) = true) ->
  own_valence_okb core invert G H = true ->
  exists T' : its, regenerate core invert G H = Some T' /\
    regen_folded T' (if invert then H else G) (if invert then G else H) = true.
Proof.
  intros W ME OK CC VAL. apply (default_identity_end core invert G H W ME OK CC).
  intros rc l r T Er Hg.
  pose proof (pair_AB' core invert G H W OK) as PW. pose proof (own_describes core invert G H W OK CC) as D.
  destruct (default_rule _ _ _ PW D OK) as (rc0 & l0 & r0 & Es & Ep & El & PW' & D').
  assert (E3 : (rc0, l0, r0) = (rc, l, r)).
  { unfold rule_of in Er. rewrite ME in Er. rewrite Es in Er. inversion Er. reflexivity. }
  inversion E3; subst rc0 l0 r0. clear E3.
  unfold own_valence_okb in VAL. rewrite Er in VAL.
  rewrite Ep, El in Hg. unfold substrate in Hg.
  exact (default_total _ _ _ rc l r T PW D OK Es D' Hg VAL).
Qed.
