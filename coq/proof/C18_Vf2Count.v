(** C18 — the reference enumerator of self-isomorphisms and the canonicaliser's minimal leaves have the same length:
    both are duplicate-free enumerations of the structure-preserving self-maps (compared through their value vectors on
    the assignment order). *)
From Coq Require Import List NArith ZArith Bool Arith Lia Permutation.
From SK Require Import lib.IRCore lib.IRSearch lib.C18_IRValid lib.C18_IRLeaves model.C18_Model
  proof.C18_Order proof.C18_Spec proof.C18_Graph proof.C18_Canon proof.C18_Label proof.C18_Aut proof.C18_Invariant
  proof.C18_Count proof.C18_Vf2.
Import ListNotations.

Lemma map_eq_on {A B} (f f' : A -> B) l : map f l = map f' l -> forall x, In x l -> f x = f' x.
Proof. induction l as [|y l IH]; simpl; intros E x I; [contradiction|]. inversion E. destruct I as [<-|I]; auto. Qed.
Lemma map_ext_on {A B} (f f' : A -> B) l : (forall x, In x l -> f x = f' x) -> map f l = map f' l.
Proof. intros H. apply map_ext_in. auto. Qed.

Theorem auts_count g lab p : wf g -> kinds_ok g -> arcs_ok g -> fst (canon_search g) = Some (lab, p) ->
  length (auts g) = length (min_leaves g).
Proof.
  intros Hw Hk Ha Hb.
  destruct (aut_count g lab p Hw Hk Ha Hb) as (Mnd & Miff & Mdet).
  destruct (auts_spec g Hw) as (And & Ain & Aout).
  pose proof (aut_order_perm g (proj1 Hw)) as Hp. set (ps := aut_order g) in *.
  destruct (best_is_leaf g lab p Hb) as [_ Hleaf].
  destruct (leaves_of_keys g p Hw Hleaf) as (pre & r & Ep & Hr & _ & Ipre).
  assert (Ip : forall v, In v p -> In v (node_ids g)).
  { intros v Hv. rewrite Ep in Hv. apply in_app_or in Hv. destruct Hv; [apply Ipre; auto|apply (Permutation_in _ Hr); auto]. }
  assert (Inp : forall v, In v (node_ids g) -> In v p).
  { intros v Hv. rewrite Ep. apply in_or_app. right. apply (Permutation_in _ (Permutation_sym Hr)); auto. }
  set (vecA := fun m : list (N * N) => map snd (rev m)).
  set (vecM := fun q : list N => map (seqmap p q) ps).
  assert (SeqOn : forall s v, In v p -> seqmap p (map s p) v = s v).
  { intros s v Hv. unfold seqmap. destruct (idx_in v p Hv) as [Hi Hn].
    rewrite (nth_indep _ v (s 0%N)) by (rewrite map_length; auto). rewrite map_nth. f_equal. exact Hn. }
  assert (VA : forall s, vecA (rev (combine ps (map s ps))) = map s ps).
  { intros s. unfold vecA. rewrite rev_involutive. apply map_snd_combine. rewrite map_length. auto. }
  assert (VM : forall s, vecM (map s p) = map s ps).
  { intros s. unfold vecM. apply map_ext_on. intros v Hv. apply SeqOn. apply Inp. apply (Permutation_in _ Hp Hv). }
  assert (P : Permutation (map vecA (auts g)) (map vecM (min_leaves g))).
  { apply NoDup_Permutation.
    - apply NoDup_map_inj_on; auto. intros m m' Hm Hm' E.
      destruct (Aout m Hm) as (s & _ & ->). destruct (Aout m' Hm') as (s' & _ & ->). rewrite !VA in E. rewrite E. reflexivity.
    - apply NoDup_map_inj_on; auto. intros q q' Hq Hq' E.
      apply Miff in Hq, Hq'. destruct Hq as (s & Hs & ->), Hq' as (s' & Hs' & ->). rewrite !VM in E.
      apply map_ext_on. intros v Hv. apply (map_eq_on _ _ _ E). apply (Permutation_in _ (Permutation_sym Hp)). apply Ip. auto.
    - intros x. rewrite !in_map_iff. split.
      + intros (m & <- & Hm). destruct (Aout m Hm) as (s & Hs & ->). exists (map s p). split; [rewrite VA, VM; auto|].
        apply Miff. eauto.
      + intros (q & <- & Hq). apply Miff in Hq. destruct Hq as (s & Hs & ->).
        exists (rev (combine ps (map s ps))). split; [rewrite VA, VM; auto|]. apply Ain. auto. }
  apply Permutation_length in P. rewrite !map_length in P. exact P.
Qed.

Theorem vf2_count g lab p (c : nat) : wf g -> kinds_ok g -> arcs_ok g -> fst (canon_search g) = Some (lab, p) ->
  c = length (auts g) ->
  NoDup (auts g) /\
  (forall s, is_aut g s -> In (rev (combine (aut_order g) (map s (aut_order g)))) (auts g)) /\
  (forall m, In m (auts g) -> exists s, is_aut g s /\ m = rev (combine (aut_order g) (map s (aut_order g)))) /\
  c = length (min_leaves g).
Proof.
  intros Hw Hk Ha Hb Hc. destruct (auts_spec g Hw) as (H1 & H2 & H3).
  split; [exact H1|]. split; [exact H2|]. split; [exact H3|]. rewrite Hc. apply (auts_count g lab p); auto.
Qed.
