(** C11 — VF2 as an explicit premise, in the form networkx actually delivers the maps: dictionaries whose item
    order is not specified.  Any list of maps that (i) contains only automorphisms, (ii) contains every
    automorphism, (iii) contains none twice — all three up to the order of the items inside a map — yields
    exactly the analysis of the model.  Stdlib lists. *)
From Coq Require Import List NArith ZArith Bool Arith Lia Permutation.
From SK Require Import lib.LGraph lib.Mono lib.Reach model.C11_Model proof.C11_Aut proof.C11_Main.
Import ListNotations.

Definition same_items (m m' : mapping) : Prop := forall ph, In ph m <-> In ph m'.

Lemma same_items_refl m : same_items m m.
Proof. intros ph. tauto. Qed.
Lemma same_items_sym m m' : same_items m m' -> same_items m' m.
Proof. intros H ph. symmetry. apply H. Qed.
Lemma same_items_trans a b c : same_items a b -> same_items b c -> same_items a c.
Proof. intros H1 H2 ph. rewrite (H1 ph). apply H2. Qed.

(** no two members are related *)
Fixpoint nodupR {X} (R : X -> X -> Prop) (l : list X) : Prop :=
  match l with
  | [] => True
  | x :: r => (forall y, In y r -> ~ R x y) /\ nodupR R r
  end.

Section Matching.
Variable X : Type.
Variable R : X -> X -> Prop.
Hypothesis Rsym : forall x y, R x y -> R y x.
Hypothesis Rtrans : forall x y z, R x y -> R y z -> R x z.

Lemma nodupR_remove l1 a l2 : nodupR R (l1 ++ a :: l2) ->
  nodupR R (l1 ++ l2) /\ forall y, In y (l1 ++ l2) -> ~ R a y.
Proof.
  induction l1 as [|x l1 IH]; simpl.
  - intros [H1 H2]. split; assumption.
  - intros [H1 H2]. destruct (IH H2) as [H3 H4]. split.
    + split; [|exact H3]. intros y Hy. apply H1. apply in_app_or in Hy. apply in_or_app.
      destruct Hy as [Hy|Hy]; [left; exact Hy | right; right; exact Hy].
    + intros y [<-|Hy]; [|apply H4; exact Hy].
      intros Hr. apply (H1 a); [apply in_or_app; right; left; reflexivity | apply Rsym; exact Hr].
Qed.

Lemma length_by_matching : forall E A,
  nodupR R E -> nodupR R A ->
  (forall e, In e E -> exists a, In a A /\ R e a) ->
  (forall a, In a A -> exists e, In e E /\ R a e) ->
  length E = length A.
Proof.
  induction E as [|e E IH]; intros A HE HA H1 H2.
  - destruct A as [|a A]; [reflexivity|]. destruct (H2 a (or_introl eq_refl)) as (e & [] & _).
  - destruct (H1 e (or_introl eq_refl)) as (a & Ha & Rea).
    destruct (in_split _ _ Ha) as (A1 & A2 & ->).
    destruct (nodupR_remove A1 a A2 HA) as [HA' Hna].
    simpl in HE. destruct HE as [Hne HE'].
    rewrite app_length. simpl. rewrite <- plus_n_Sm, <- app_length. f_equal.
    apply IH; auto.
    + intros e' He'. destruct (H1 e' (or_intror He')) as (a' & Ha' & Re'a').
      exists a'. split; [|exact Re'a'].
      apply in_app_or in Ha'. apply in_or_app. destruct Ha' as [Ha'|[<-|Ha']]; auto.
      exfalso. apply (Hne e' He'). eapply Rtrans; [exact Rea | apply Rsym; exact Re'a'].
    + intros a' Ha'. assert (Ha'' : In a' (A1 ++ a :: A2)).
      { apply in_app_or in Ha'. apply in_or_app. destruct Ha' as [Ha'|Ha']; [left | right; right]; exact Ha'. }
      destruct (H2 a' Ha'') as (e' & [<-|He'] & Ra'e'); [|eauto].
      exfalso. apply (Hna a' Ha'). eapply Rtrans; [apply Rsym; exact Rea | apply Rsym; exact Ra'e'].
Qed.
End Matching.

Lemma orbit_set_items (E1 E2 : list mapping) u :
  (forall m, In m E1 -> exists m', In m' E2 /\ same_items m m') ->
  (forall m, In m E2 -> exists m', In m' E1 /\ same_items m m') ->
  orbit_set E1 u = orbit_set E2 u.
Proof.
  intros H1 H2. unfold orbit_set. apply canonN_ext. intros y. rewrite !orbit_raw_in. split.
  - intros (m & Hm & Hc). destruct (H1 m Hm) as (m' & Hm' & S). exists m'. split; [exact Hm'|].
    destruct Hc as [Hc|Hc]; [left | right]; apply S; exact Hc.
  - intros (m & Hm & Hc). destruct (H2 m Hm) as (m' & Hm' & S). exists m'. split; [exact Hm'|].
    destruct Hc as [Hc|Hc]; [left | right]; apply S; exact Hc.
Qed.

Lemma NoDup_nodupR_auts fn fe (g : graph) : simple_graph g -> nodupR same_items (auts fn fe g).
Proof.
  intros Hg. pose proof (auts_nodup fn fe g Hg) as Hnd.
  assert (Heq : forall m m', In m (auts fn fe g) -> In m' (auts fn fe g) -> same_items m m' -> m = m').
  { intros m m' Hm Hm' S. apply (auts_listing fn fe g Hg) in Hm. apply (auts_listing fn fe g Hg) in Hm'.
    destruct Hm as (s & Hs & ->). destruct Hm' as (s' & Hs' & ->). unfold aut_pairs. f_equal.
    apply map_ext_in. intros u Hu. f_equal.
    assert (Hin : In (u, s u) (aut_pairs g s')).
    { apply S. unfold aut_pairs. rewrite <- in_rev. apply in_map_iff. exists u. auto. }
    unfold aut_pairs in Hin. rewrite <- in_rev in Hin. apply in_map_iff in Hin.
    destruct Hin as (x & E & _). inversion E; subst. reflexivity. }
  revert Hnd Heq. induction (auts fn fe g) as [|a l IH]; intros Hnd Heq; simpl; [exact Logic.I|].
  inversion Hnd as [|? ? Hn Hnd']; subst. split.
  - intros y Hy S. apply Hn. rewrite (Heq a y (or_introl eq_refl) (or_intror Hy) S). exact Hy.
  - apply IH; [exact Hnd'|]. intros m m' Hm Hm'. apply Heq; right; assumption.
Qed.

Lemma vf2_contract_items fn fe (g : graph) (E : list mapping) : simple_graph g ->
  (forall m, In m E -> exists s, is_automorphism fn fe g s /\ same_items m (aut_pairs g s)) ->
  (forall s, is_automorphism fn fe g s -> exists m, In m E /\ same_items m (aut_pairs g s)) ->
  nodupR same_items E ->
  analyze_component_with (node_ids g) E = analyze_component fn fe g /\
  length E = length (auts fn fe g).
Proof.
  intros Hg Hsound Hcompl Hnd.
  assert (H1 : forall m, In m E -> exists m', In m' (auts fn fe g) /\ same_items m m').
  { intros m Hm. destruct (Hsound m Hm) as (s & Hs & S). exists (aut_pairs g s). split; [|exact S].
    apply (auts_listing fn fe g Hg). eauto. }
  assert (H2 : forall m, In m (auts fn fe g) -> exists m', In m' E /\ same_items m m').
  { intros m Hm. apply (auts_listing fn fe g Hg) in Hm. destruct Hm as (s & Hs & ->).
    destruct (Hcompl s Hs) as (m' & Hm' & S). exists m'. split; [exact Hm' | apply same_items_sym; exact S]. }
  assert (Hlen : length E = length (auts fn fe g)).
  { apply (length_by_matching mapping same_items same_items_sym same_items_trans); auto.
    apply NoDup_nodupR_auts. exact Hg. }
  split; [|exact Hlen].
  rewrite analyze_component_with_auts. unfold analyze_component_with.
  destruct (node_ids g) as [|n [|n' r]]; try reflexivity.
  destruct E as [|e E'], (auts fn fe g) as [|a A'] eqn:EA; simpl in Hlen; try discriminate; [reflexivity|].
  rewrite <- EA in *. f_equal; [|simpl; rewrite EA; simpl; f_equal; lia].
  f_equal. apply map_ext. intros u. apply orbit_set_items; assumption.
Qed.

(** non-vacuity: the model's list with the items of every map reversed and the maps in the opposite order *)
Example ex_vf2_items :
  let E := rev (map (@rev (N * N)) (auts n_exact e_order ex_path)) in
  E = [[(1, 3); (2, 2); (3, 1)]; [(1, 1); (2, 2); (3, 3)]]%N /\
  nodupR same_items E /\
  (forall m, In m E -> exists s, is_automorphism n_exact e_order ex_path s /\ same_items m (aut_pairs ex_path s)) /\
  analyze_component_with (node_ids ex_path) E = ([[2]; [1; 3]]%N, 2%N).
Proof.
  pose proof (wf_simple _ ex_path_wf) as Hg.
  split; [vm_compute; reflexivity|]. split; [|split; [|vm_compute; reflexivity]].
  - simpl. split; [|split; [intros ? []|exact Logic.I]].
    intros y [<-|[]] S. specialize (S (1, 3)%N). simpl in S.
    assert (H : (1, 1)%N = (1, 3)%N \/ (2, 2)%N = (1, 3)%N \/ (3, 3)%N = (1, 3)%N \/ False) by (apply S; left; reflexivity).
    clear S. destruct H as [H|[H|[H|[]]]]; discriminate.
  - intros m Hm. rewrite <- in_rev in Hm. apply in_map_iff in Hm. destruct Hm as (a & <- & Ha).
    apply (auts_listing n_exact e_order ex_path Hg) in Ha. destruct Ha as (s & Hs & ->).
    exists s. split; [exact Hs|]. intros ph. symmetry. apply in_rev.
Qed.
