(** C15 (round 4) — cached graph views are current (model/C15_View.v).

    [VInv]: a cached view whose recorded version equals the network's version
    was built from a store with the same content as the current one.  Every
    operation of the store language that goes through the methods of the class
    keeps [VInv]; hence every graph a backend hands out is an export of the
    network as it is now.  The only ops outside are the caller-side coefficient
    edits of a returned side ([OSideSet]/[OSideIncr]): the version count cannot
    see them (witness at the end). *)
From stdpp Require Import gmap strings sets pretty.
From SK Require Import lib.Tok model.C15_Model model.C15_Ext model.C15_View proof.C15_Proof proof.C15_Ext.
Local Open Scope string_scope.

(** everything of a network but the id counters *)
Definition same_content (s s' : net) : Prop :=
  species s' = species s ∧ edges s' = edges s ∧ order s' = order s ∧ s_in s' = s_in s ∧
  s_out s' = s_out s ∧ mol s' = mol s ∧ kept s' = kept s.

Lemma same_content_refl s : same_content s s.
Proof. done. Qed.
Lemma same_content_trans s1 s2 s3 : same_content s1 s2 → same_content s2 s3 → same_content s1 s3.
Proof. intros (?&?&?&?&?&?&?) (?&?&?&?&?&?&?). unfold same_content. split_and!; congruence. Qed.
Lemma same_content_sym s1 s2 : same_content s1 s2 → same_content s2 s1.
Proof. intros (?&?&?&?&?&?&?). unfold same_content. split_and!; congruence. Qed.
Lemma same_content_vproj o s s' : same_content s s' → vproj o s' = vproj o s.
Proof. intros (Hs & He & _). unfold vproj. by rewrite Hs, He. Qed.
Lemma set_counters_same s c : same_content s (set_counters s c).
Proof. done. Qed.

(** ** an operation that does not count left the content alone *)

Lemma add_err_same s l r rule eid s' er e : add s l r rule eid = (s', Some er, e) → same_content s s'.
Proof.
  unfold add. destruct eid as [e0|].
  - destruct (decide _); [by intros [= <- _ _]|]. destruct (rxn_empty _); [by intros [= <- _ _]|done].
  - destruct (next_id _ _) as [[c e1]|]; [|by intros [= <- _ _]].
    destruct (rxn_empty _); [intros [= <- _ _]; apply set_counters_same|done].
Qed.

Lemma add_ok_order s l r rule eid s' e : add s l r rule eid = (s', None, e) → order s' = (order s ++ [e])%list.
Proof. intros H. by apply add_spec in H as (_ & _ & _ & _ & ?). Qed.

Lemma add_same_or_more s l r rule eid :
  same_content s (add s l r rule eid).1.1 ∨ (length (order s) < length (order (add s l r rule eid).1.1))%nat.
Proof.
  destruct (add s l r rule eid) as [[s' [er|]] e] eqn:Ha; cbn.
  - left. by eapply add_err_same.
  - right. apply add_ok_order in Ha as ->. rewrite app_length. cbn. lia.
Qed.

Definition grows (s s' : net) : Prop := same_content s s' ∨ (length (order s) < length (order s'))%nat.
Lemma grows_trans s1 s2 s3 : grows s1 s2 → grows s2 s3 → grows s1 s3.
Proof.
  intros [H1|H1] [H2|H2].
  - left. by eapply same_content_trans.
  - right. destruct H1 as (_ & _ & Ho & _). rewrite <- Ho. done.
  - right. destruct H2 as (_ & _ & Ho & _). by rewrite Ho.
  - right. lia.
Qed.
Lemma grows_unchanged s s' : grows s s' → order s' = order s → same_content s s'.
Proof. intros [H|H] Ho; [done|]. rewrite Ho in H. lia. Qed.

Lemma merge_one_grows prefix s er e rx : grows s (merge_one prefix (s, er) e rx).1.
Proof.
  destruct er as [er|]; [by left|]. unfold merge_one. destruct (prefix || _).
  - destruct (next_id _ _) as [[c e']|]; [|by left].
    pose proof (add_same_or_more (set_counters s (<[r_rule rx:=c]> (counters s))) (r_lhs rx) (r_rhs rx) (r_rule rx) (Some e')) as H.
    destruct (add _ _ _ _ _) as [[s2 er] ?]. cbn in *. eapply grows_trans; [left; apply set_counters_same|exact H].
  - pose proof (add_same_or_more s (r_lhs rx) (r_rhs rx) (r_rule rx) (Some e)) as H.
    destruct (add _ _ _ _ _) as [[s2 er] ?]. exact H.
Qed.

Lemma merge_grows s o prefix : grows s (merge s o prefix).1.
Proof.
  unfold merge.
  assert (H : ∀ l (acc : net * option err), grows s acc.1 → grows s (foldl (λ acc p, merge_one prefix acc p.1 p.2) acc l).1).
  { induction l as [|[e rx] l IH]; intros acc Hacc; cbn [foldl]; [done|]. apply IH.
    destruct acc as [s0 er]. eapply grows_trans; [exact Hacc|apply merge_one_grows]. }
  apply H. by left.
Qed.

Lemma merge_raw_one_grows prefix s er re : grows s (merge_raw_one prefix (s, er) re).1.
Proof.
  destruct er as [er|]; [by left|]. unfold merge_raw_one. destruct re as [[[eid rule] l] r]. destruct (prefix || _).
  - destruct (next_id _ _) as [[c e']|]; [|by left].
    pose proof (add_same_or_more (set_counters s (<[rule:=c]> (counters s))) (normalize_items l) (normalize_items r) rule (Some e')) as H.
    destruct (add _ _ _ _ _) as [[s2 er] ?]. cbn in *. eapply grows_trans; [left; apply set_counters_same|exact H].
  - pose proof (add_same_or_more s (normalize_items l) (normalize_items r) rule eid) as H.
    destruct (add _ _ _ _ _) as [[s2 er] ?]. exact H.
Qed.

Lemma merge_raw_grows s es prefix : grows s (merge_raw s es prefix).1.
Proof.
  unfold merge_raw.
  assert (H : ∀ l (acc : net * option err), grows s acc.1 → grows s (foldl (merge_raw_one prefix) acc l).1).
  { induction l as [|re l IH]; intros acc Hacc; cbn [foldl]; [done|]. apply IH.
    destruct acc as [s0 er]. eapply grows_trans; [exact Hacc|apply merge_raw_one_grows]. }
  apply H. by left.
Qed.

Lemma remove_rxn_err_same s e s' er : remove_rxn s e = (s', Some er) → s' = s.
Proof. unfold remove_rxn. destruct (edges s !! e); [done|by intros [= <- _]]. Qed.
Lemma remove_species_err_same s x p s' er : remove_species s x p = (s', Some er) → s' = s.
Proof.
  unfold remove_species. destruct (decide _); [|by intros [= <- _]]. destruct (decide _); [|by intros [= <- _]].
  by destruct p.
Qed.
Lemma assign_mol_err_same s x m s' er : assign_mol s x m = (s', Some er) → s' = s.
Proof. unfold assign_mol. destruct (decide _); [done|by intros [= <- _]]. Qed.
Lemma set_mol_map_err_same s mp st cl s' er : set_mol_map s mp st cl = (s', Some er) → s' = s.
Proof. unfold set_mol_map. destruct (_ && _); [by intros [= <- _]|done]. Qed.

(** ** the invariant *)

Definition view_safe (o : op3) : Prop :=
  match o with O2 (OSideSet _ _ _ _ _) | O2 (OSideIncr _ _ _ _ _) => False | _ => True end.

Record VInv (w : world3) : Prop := {
  v_len : length (vers w) = length (nets (w2 w));
  v_cache : ∀ b be v snap, backends w !! b = Some be → b_cache be = Some (v, snap) →
            (v ≤ getv (vers w) (b_net be))%N ∧
            (v = getv (vers w) (b_net be) → same_content (getn (nets (w2 w)) (b_net be)) snap)
}.

Lemma VInv_init n k nb : VInv (init_world3 n k nb).
Proof.
  split; unfold init_world3, init_world2, init_world; cbn [vers w2 nets backends].
  - by rewrite !replicate_length.
  - intros b be v snap Hb. apply lookup_replicate in Hb as [-> _]. done.
Qed.

Lemma getv_insert_ne vs i k x : k ≠ i → getv (<[i := x]> vs) k = getv vs k.
Proof. intros. unfold getv. by rewrite !nth_lookup, list_lookup_insert_ne. Qed.
Lemma getv_insert_eq vs i x : (i < length vs)%nat → getv (<[i := x]> vs) i = x.
Proof. intros. unfold getv. by rewrite nth_lookup, list_lookup_insert. Qed.
Lemma getv_ge vs i : (length vs ≤ i)%nat → getv vs i = 0%N.
Proof. intros. unfold getv. by rewrite nth_lookup, lookup_ge_None_2. Qed.

(** the net an op2 does not target, and its version, stay *)
Lemma bumps_target w o w' er i : bumps w o w' er = Some i → target2 o = Some i.
Proof.
  destruct o as [[]| | | | | | | | | |]; cbn; try done; try (destruct (stored_more _ _); [|done]; by intros [= ->]);
    destruct er; try done; by intros [= ->].
Qed.

Lemma stored_more_false s s' : stored_more s s' = false → order s' = order s.
Proof. unfold stored_more. intros H. apply bool_decide_eq_false in H. by apply dec_stable. Qed.

(** content of every network when the op did not count *)
Lemma unbumped_same w o :
  view_safe (O2 o) → (∀ i j, o ≠ OBase (OCopy i j)) →
  bumps w o (step2 w o).1.1 (step2 w o).1.2 = None →
  ∀ k, same_content (getn (nets w) k) (getn (nets (step2 w o).1.1) k).
Proof.
  intros Hsafe Hnc Hb k.
  destruct (decide (target2 o = Some k)) as [Ht|Hne]; [|by rewrite step2_frame].
  destruct (decide (k < length (nets w))%nat) as [Hlt|Hge]; cycle 1.
  { rewrite !getn_ge; [done|rewrite step2_length; lia|lia]. }
  destruct o as [o'|i l r rule eid|i j e0 rule eid|k' l|k' x c|i kl kr rule eid|i es p|i e0 lhs x c|i e0 lhs x b|i q|k' l'];
    cbn [target2] in Ht; try done; try injection Ht as ->.
  - destruct (step2_base w o') as (Hn & He & _).
    destruct o' as [i l r rule eid|i e|i x p|i j p|i j|i x m|i mp st cl]; cbn [bumps target] in *;
      rewrite ?Hn, ?He in *; clear Hn He; cbn [step fst snd] in *; try injection Ht as ->.
    + pose proof (add_same_or_more (getn (nets w) k) (normalize l) (normalize r) rule eid) as Hg.
      destruct (add _ _ _ _ _) as [[s er] ?]. cbn [fst snd] in *. rewrite getn_setn_eq in * by done.
      destruct (stored_more _ _) eqn:Hs; [done|]. apply grows_unchanged; [done|by apply stored_more_false].
    + destruct (remove_rxn _ _) as [s [er|]] eqn:Hr; [|done]. cbn [fst snd] in *. rewrite getn_setn_eq by done.
      apply remove_rxn_err_same in Hr as ->. done.
    + destruct (remove_species _ _ _) as [s [er|]] eqn:Hr; [|done]. cbn [fst snd] in *. rewrite getn_setn_eq by done.
      apply remove_species_err_same in Hr as ->. done.
    + pose proof (merge_grows (getn (nets w) k) (getn (nets w) j) p) as Hg.
      destruct (merge _ _ _) as [s er]. cbn [fst snd] in *. rewrite getn_setn_eq in * by done.
      destruct (stored_more _ _) eqn:Hs; [done|]. apply grows_unchanged; [done|by apply stored_more_false].
    + by destruct (Hnc i k).
    + destruct (assign_mol _ _ _) as [s [er|]] eqn:Hr; [|done]. cbn [fst snd] in *. rewrite getn_setn_eq by done.
      apply assign_mol_err_same in Hr as ->. done.
    + destruct (set_mol_map _ _ _ _) as [s [er|]] eqn:Hr; [|done]. cbn [fst snd] in *. rewrite getn_setn_eq by done.
      apply set_mol_map_err_same in Hr as ->. done.
  - cbn [bumps step2] in *.
    pose proof (add_same_or_more (getn (nets w) k) (normalize_items l) (normalize_items r) rule eid) as Hg.
    destruct (add _ _ _ _ _) as [[s er] ?]. cbn [fst snd nets setnets] in *. rewrite getn_setn_eq in * by done.
    destruct (stored_more _ _) eqn:Hs; [done|]. apply grows_unchanged; [done|by apply stored_more_false].
  - cbn [bumps step2] in *. destruct (edges (getn (nets w) j) !! e0) as [rx|]; [|done].
    pose proof (add_same_or_more (getn (nets w) k) (r_lhs rx) (r_rhs rx) rule eid) as Hg.
    destruct (add _ _ _ _ _) as [[s er] ?]. cbn [fst snd nets setnets] in *. rewrite getn_setn_eq in * by done.
    destruct (stored_more _ _) eqn:Hs; [done|]. apply grows_unchanged; [done|by apply stored_more_false].
  - cbn [bumps step2] in *.
    pose proof (add_same_or_more (getn (nets w) k) (getp (pool w) kl) (getp (pool w) kr) rule eid) as Hg.
    destruct (add _ _ _ _ _) as [[s er] ?]. cbn [fst snd nets setnets] in *. rewrite getn_setn_eq in * by done.
    destruct (stored_more _ _) eqn:Hs; [done|]. apply grows_unchanged; [done|by apply stored_more_false].
  - cbn [bumps step2] in *.
    pose proof (merge_raw_grows (getn (nets w) k) es p) as Hg.
    destruct (merge_raw _ _ _) as [s er]. cbn [fst snd nets setnets] in *. rewrite getn_setn_eq in * by done.
    destruct (stored_more _ _) eqn:Hs; [done|]. apply grows_unchanged; [done|by apply stored_more_false].
Qed.

Lemma access_VInv w b : VInv w → VInv (access w b).1.1.
Proof.
  intros [Hl Hc]. unfold access.
  set (be := getb (backends w) b). set (cur := getv (vers w) (b_net be)).
  assert (Hnew : VInv (W3 (w2 w) (vers w)
                   (<[ b := BE (b_net be) (b_opts be) (Some (cur, getn (nets (w2 w)) (b_net be))) ]> (backends w)))).
  { split; [done|]. cbn [backends vers w2]. intros b' be' v snap Hb' Hcache.
    destruct (decide (b' = b)) as [->|Hne].
    - apply list_lookup_insert_Some in Hb' as [(_ & <- & _)|[? _]]; [|done]. cbn in *. injection Hcache as <- <-.
      split; [done|]. intros _. apply same_content_refl.
    - rewrite list_lookup_insert_ne in Hb' by done. by eapply Hc. }
  destruct (b_cache be) as [[v snap]|]; [|exact Hnew]. destruct (decide (v = cur)); [by split|exact Hnew].
Qed.

(** the graph handed out was built from a store with the current content *)
Lemma access_current w b :
  VInv w → same_content (getn (nets (w2 w)) (b_net (getb (backends w) b))) (access w b).2.
Proof.
  intros [Hl Hc]. unfold access.
  set (be := getb (backends w) b). set (cur := getv (vers w) (b_net be)).
  destruct (b_cache be) as [[v snap]|] eqn:Hcache; [|apply same_content_refl].
  destruct (decide (v = cur)) as [->|]; [|apply same_content_refl]. cbn.
  (* a hit: [be] is a real entry of the list (the default entry has no cache) *)
  unfold be, getb in Hcache. rewrite nth_lookup in Hcache.
  destruct (backends w !! b) as [be'|] eqn:Hb; cbn in Hcache; [|done].
  assert (be = be') as Hbe by (unfold be, getb; by rewrite nth_lookup, Hb).
  destruct (Hc b be' cur snap Hb Hcache) as [_ H]. rewrite Hbe. apply H. by rewrite <- Hbe.
Qed.

Lemma reset_on_lookup j bs b be :
  reset_on j bs !! b = Some be →
  ∃ be0, bs !! b = Some be0 ∧ be = if decide (b_net be0 = j) then BE (b_net be0) (b_opts be0) None else be0.
Proof. unfold reset_on. rewrite list_lookup_fmap. destruct (bs !! b) as [be0|]; [|done]. intros [= <-]. eauto. Qed.

Lemma step3_VInv w o : view_safe o → VInv w → VInv (step3 w o).1.1.
Proof.
  intros Hsafe HV. destruct o as [o2|b i o|b|b]; cbn [step3].
  - destruct HV as [Hl Hc].
    destruct (step2 (w2 w) o2) as [[w' er] a] eqn:Hs. cbn [fst].
    assert (Hw' : w' = (step2 (w2 w) o2).1.1) by (by rewrite Hs).
    assert (Her : er = (step2 (w2 w) o2).1.2) by (by rewrite Hs).
    assert (Hlen' : length (nets w') = length (nets (w2 w))) by (rewrite Hw'; apply step2_length).
    assert (Hcopy : (∃ i j, o2 = OBase (OCopy i j)) ∨ (∀ i j, o2 ≠ OBase (OCopy i j))).
    { destruct o2 as [[]| | | | | | | | | |]; try (right; intros ? ?; discriminate). left. eauto. }
    destruct Hcopy as [(i & j & ->)|Hnc'].
    + (* copy: slot j is a new object; its backends were re-created *)
      cbn [step2 step] in Hs. injection Hs as <- _ _. split; cbn [vers w2 nets backends].
      * unfold setn. rewrite insert_length, Hl. symmetry. apply insert_length.
      * intros b be v snap Hb Hcache. apply reset_on_lookup in Hb as (be0 & Hb0 & ->).
        destruct (decide (b_net be0 = j)) as [Hj|Hj]; [done|].
        rewrite getv_insert_ne, getn_setn_ne by done. by eapply Hc.
    + assert (Hvs : (match o2 with
                     | OBase (OCopy i j) => <[ j := getv (vers w) i ]> (vers w)
                     | _ => match bumps (w2 w) o2 w' er with
                            | Some i => <[ i := (getv (vers w) i + 1)%N ]> (vers w)
                            | None => vers w end end) =
                    match bumps (w2 w) o2 w' er with
                    | Some i => <[ i := (getv (vers w) i + 1)%N ]> (vers w)
                    | None => vers w end).
      { destruct o2 as [[]| | | | | | | | | |]; try done. by destruct (Hnc' i j). }
      assert (Hbs : (match o2 with OBase (OCopy i j) => reset_on j (backends w) | _ => backends w end) = backends w).
      { destruct o2 as [[]| | | | | | | | | |]; try done. by destruct (Hnc' i j). }
      rewrite Hvs, Hbs. clear Hvs Hbs.
      destruct (bumps (w2 w) o2 w' er) as [i|] eqn:Hb.
      * pose proof (bumps_target _ _ _ _ _ Hb) as Ht.
        split; cbn [vers w2 nets backends]; [by rewrite insert_length, Hlen'|].
        intros b be v snap Hbe Hcache. destruct (Hc b be v snap Hbe Hcache) as [Hle Hsame].
        destruct (decide (b_net be = i)) as [Hi|Hi].
        -- destruct (decide (i < length (vers w))%nat) as [Hin|Hout].
           ++ rewrite Hi, getv_insert_eq by done. rewrite Hi in Hle. split; [lia|lia].
           ++ (* slot out of range: nothing there, nothing changed *)
              rewrite list_insert_ge by lia. split; [done|]. intros Hv. specialize (Hsame Hv).
              rewrite Hi in *. rewrite getn_ge in * by lia. done.
        -- rewrite getv_insert_ne by done. split; [done|]. intros Hv.
           rewrite Hw', step2_frame; [by apply Hsame|]. rewrite Ht. congruence.
      * split; cbn [vers w2 nets backends]; [by rewrite Hlen'|].
        intros b be v snap Hbe Hcache. destruct (Hc b be v snap Hbe Hcache) as [Hle Hsame].
        split; [done|]. intros Hv. specialize (Hsame Hv).
        assert (Hu : same_content (getn (nets (w2 w)) (b_net be)) (getn (nets w') (b_net be))).
        { rewrite Hw'. apply unbumped_same; [done|done|]. by rewrite <- Hw', <- Her. }
        eapply same_content_trans; [apply same_content_sym, Hu|exact Hsame].
  - destruct HV as [Hl Hc]. split; cbn [fst snd vers w2 nets backends]; [done|].
    intros b' be v snap Hb' Hcache. destruct (decide (b' = b)) as [->|Hne].
    + apply list_lookup_insert_Some in Hb' as [(_ & <- & _)|[? _]]; done.
    + rewrite list_lookup_insert_ne in Hb' by congruence. by eapply Hc.
  - pose proof (access_VInv w b HV) as H. destruct (access w b) as [[w' rb] snap]. exact H.
  - pose proof (access_VInv w b HV) as H. destruct (access w b) as [[w' rb] snap]. exact H.
Qed.

Lemma run3_VInv ops : ∀ w, Forall view_safe ops → VInv w → VInv (fold_left (λ w o, (step3 w o).1.1) ops w).
Proof.
  induction ops as [|o ops IH]; intros w Hs HV; cbn; [done|].
  apply Forall_cons in Hs as [Ho Hs]. apply IH; [done|]. by apply step3_VInv.
Qed.

(** C15_view_current *)
Lemma view_current n k nb ops b :
  Forall view_safe ops →
  let w := fold_left (λ w o, (step3 w o).1.1) ops (init_world3 n k nb) in
  let be := getb (backends w) b in
  vproj (b_opts be) (access w b).2 = vproj (b_opts be) (getn (nets (w2 w)) (b_net be)).
Proof.
  intros Hs w be. apply same_content_vproj, access_current, run3_VInv; [done|apply VInv_init].
Qed.

(** the store part of the world is the history language of round 3 *)
Lemma step3_store w o2 : w2 (step3 w (O2 o2)).1.1 = (step2 (w2 w) o2).1.1 ∧ (step3 w (O2 o2)).1.2 = (step2 (w2 w) o2).1.2
                         ∧ (step3 w (O2 o2)).2 = (step2 (w2 w) o2).2.
Proof. cbn [step3]. by destruct (step2 (w2 w) o2) as [[w' er] a]. Qed.
Lemma step3_view_store w b : w2 (step3 w (OView b)).1.1 = w2 w ∧ w2 (step3 w (OViewType b)).1.1 = w2 w.
Proof.
  cbn [step3]. unfold access. destruct (b_cache _) as [[v snap]|]; [destruct (decide _)|]; done.
Qed.

(** ** the limit: an in-place coefficient edit of a stored side (through the
    edge object the caller got back) is invisible to the version count — a view
    that reads coefficients stays as it was; one that does not is unaffected *)
Definition exv_ops : list op3 :=
  [ O2 (OAddItems 0 [IPair "A" 1; IPair "B" 2] [ILabel "C"] "" None);
    OBackendNew 0 0 (VO false false true);        (* species graph: reads coefficients *)
    OBackendNew 1 0 (VO true false false);        (* bipartite without stoichiometry *)
    OView 0; OView 1;
    O2 (OSideSet 0 "r_1" true "B" 5) ].
Definition exv_w : world3 := fold_left (λ w o, (step3 w o).1.1) exv_ops (init_world3 1 0 2).
Definition exv_cur : net := getn (nets (w2 exv_w)) 0.

Lemma view_coef_edit_stale :
  coef (default ∅ (r_lhs <$> edges exv_cur !! "r_1")) "B" = 5%Z ∧
  (access exv_w 0).1.2 = false ∧
  vproj (VO false false true) (access exv_w 0).2 ≠ vproj (VO false false true) exv_cur ∧
  vproj (VO true false false) (access exv_w 1).2 = vproj (VO true false false) exv_cur.
Proof.
  split_and!.
  - apply (bool_decide_unpack _). vm_compute. exact Logic.I.
  - vm_compute. reflexivity.
  - apply (bool_decide_unpack _). vm_compute. exact Logic.I.
  - apply (bool_decide_unpack _). vm_compute. exact Logic.I.
Qed.

(** non-vacuity of [view_current]: a history through the methods only; the view
    is rebuilt after the add and after the remove, reused in between *)
Definition exv2_ops : list op3 :=
  [ OBackendNew 0 0 (VO true false true); OView 0;
    O2 (OAddItems 0 [ILabel "A"] [ILabel "B"] "" None); OView 0; OView 0;
    O2 (OBase (OSetMolMap 0 [("Z", "1")] true false));      (* KeyError: does not count *)
    OView 0;
    O2 (OBase (ORemoveSpecies 0 "A" true)); OViewType 0; OView 0 ].
Definition exv2_answers : list tok := (fix go (w : world3) (ops : list op3) : list tok :=
  match ops with [] => [] | o :: os => (step3 w o).2 :: go (step3 w o).1.1 os end) (init_world3 1 0 1) exv2_ops.
Local Instance tok_eq_dec : EqDecision tok.
Proof.
  refine (fix go (a b : tok) : Decision (a = b) :=
    match a, b with
    | I x, I y => cast_if (decide (x = y))
    | L x, L y => cast_if (@list_eq_dec _ go x y)
    | _, _ => right _
    end); clear go; abstract congruence.
Defined.
Example C15_view_nonvacuous :
  Forall view_safe exv2_ops ∧
  exv2_answers !! 1%nat = Some (L [tstr "bipartite"; I 1; I 1]) ∧      (* built *)
  exv2_answers !! 3%nat = Some (L [tstr "bipartite"; I 1; I 1]) ∧      (* rebuilt after add *)
  exv2_answers !! 4%nat = Some (L [tstr "bipartite"; I 0; I 1]) ∧      (* reused *)
  exv2_answers !! 6%nat = Some (L [tstr "bipartite"; I 0; I 1]) ∧      (* failed call: reused, still current *)
  exv2_answers !! 8%nat = Some (L [tstr "bipartite"; I 1]) ∧           (* graph_type rebuilds after remove_species *)
  exv2_answers !! 9%nat = Some (L [tstr "bipartite"; I 0; I 1]).
Proof.
  split; [repeat constructor|]. split_and!; apply (bool_decide_unpack _); vm_compute; exact Logic.I.
Qed.

Lemma VInv_unfold w :
  VInv w ↔
  length (vers w) = length (nets (w2 w)) ∧
  ∀ b be v snap, backends w !! b = Some be → b_cache be = Some (v, snap) →
    (v ≤ getv (vers w) (b_net be))%N ∧
    (v = getv (vers w) (b_net be) →
     let cur := getn (nets (w2 w)) (b_net be) in
     species snap = species cur ∧ edges snap = edges cur ∧ order snap = order cur ∧ s_in snap = s_in cur ∧
     s_out snap = s_out cur ∧ mol snap = mol cur ∧ kept snap = kept cur).
Proof. split; [intros [? ?]; done|intros [? ?]; by split]. Qed.

Lemma view_current_inv w b :
  VInv w →
  let be := getb (backends w) b in
  vproj (b_opts be) (access w b).2 = vproj (b_opts be) (getn (nets (w2 w)) (b_net be)) ∧
  (step3 w (OView b)).2 = L [tstr (graph_type (b_opts be)); tbool (access w b).1.2; tbool true].
Proof.
  intros HV be. assert (H : vproj (b_opts be) (access w b).2 = vproj (b_opts be) (getn (nets (w2 w)) (b_net be)))
    by (by apply same_content_vproj, access_current).
  split; [done|]. cbn [step3]. fold be. destruct (access w b) as [[w' rb] snap]. cbn in *.
  by rewrite bool_decide_eq_true_2.
Qed.

(** the witness, stated without local definitions (the kernel re-checks it by vm) *)
Lemma view_coef_edit_refuted :
  ∃ (ops : list op3) (b : nat),
    (access (fold_left (λ w o, (step3 w o).1.1) ops (init_world3 1 0 2)) b).1.2 = false ∧
    vproj (b_opts (getb (backends (fold_left (λ w o, (step3 w o).1.1) ops (init_world3 1 0 2))) b))
          (access (fold_left (λ w o, (step3 w o).1.1) ops (init_world3 1 0 2)) b).2 ≠
    vproj (b_opts (getb (backends (fold_left (λ w o, (step3 w o).1.1) ops (init_world3 1 0 2))) b))
          (getn (nets (w2 (fold_left (λ w o, (step3 w o).1.1) ops (init_world3 1 0 2))))
                (b_net (getb (backends (fold_left (λ w o, (step3 w o).1.1) ops (init_world3 1 0 2))) b))).
Proof.
  exists exv_ops, 0%nat. split.
  - vm_compute. reflexivity.
  - apply (bool_decide_unpack _). vm_compute. exact Logic.I.
Qed.
