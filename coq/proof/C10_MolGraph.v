(** C10 — proofs, part 14: GraphToMol.graph_to_mol after MolToGraph.transform (default flags) hands back to RDKit exactly
    the atoms it read (symbol, charge, atom map, total hydrogen count as explicit no-implicit count) and exactly the
    bonds it read (type by get_bond_type_from_order). *)
From Coq Require Import String List NArith ZArith Bool Lia.
From SK Require Import lib.Tok lib.LGraph lib.StrJoin model.C10_Model proof.C10_Views proof.C10_Build proof.C10_Copy.
Import ListNotations.
Local Open Scope Z_scope.

Fixpoint num (idx : N) (l : list ratom) : list (N * natt) :=
  match l with [] => [] | a :: r => (N.succ idx, atom_att a) :: num (N.succ idx) r end.

Lemma num_ids_gt idx l k : In k (map fst (num idx l)) -> (idx < k)%N.
Proof.
  revert idx. induction l as [|a r IH]; intros idx; simpl; [intros []|]. intros [<-|H]; [lia|]. apply IH in H. lia.
Qed.
Lemma num_nodup idx l : NoDup (map fst (num idx l)).
Proof.
  revert idx. induction l as [|a r IH]; intros idx; simpl; constructor; [|apply IH].
  intros H. apply num_ids_gt in H. lia.
Qed.

Lemma m2g_nodes_ff atoms : forall idx (g : gr) i2,
  (forall n, In n (node_ids g) -> (n <= idx)%N) -> gwf g ->
  let st := m2g_nodes false false idx atoms (g, i2) in
  gnodes (fst st) = gnodes g ++ num idx atoms /\ gedges (fst st) = gedges g /\ gwf (fst st) /\
  (forall bi, assoc bi (snd st) =
     if (idx <=? bi)%N && (bi <? idx + N.of_nat (List.length atoms))%N then Some (N.succ bi) else assoc bi i2).
Proof.
  induction atoms as [|a r IH]; intros idx g i2 B W; cbn [m2g_nodes num].
  - cbv zeta. simpl. rewrite app_nil_r. split; [reflexivity|split; [reflexivity|split; [exact W|]]]. intros bi.
    destruct (N.leb_spec idx bi); simpl; [|reflexivity]. destruct (N.ltb_spec bi (idx + 0)); [lia|reflexivity].
  - simpl andb. cbv iota. change (atom_id false idx a) with (N.succ idx). cbn [fst snd].
    assert (has_node g (N.succ idx) = false) as Hf.
    { destruct (has_node g (N.succ idx)) eqn:E; [|reflexivity]. apply has_node_in, B in E. lia. }
    rewrite (add_node_fresh g _ _ Hf).
    specialize (IH (N.succ idx) (LG (gnodes g ++ [(N.succ idx, atom_att a)]) (gedges g)) ((idx, N.succ idx) :: i2)).
    destruct IH as (E1 & E2 & W' & E3).
    + intros n Hn. unfold node_ids in Hn. simpl in Hn. rewrite map_app, in_app_iff in Hn. destruct Hn as [Hn|[<-|[]]]; [apply B in Hn|]; simpl; lia.
    + rewrite <- (add_node_fresh g _ _ Hf). apply gwf_add_node. exact W.
    + cbv zeta in *. rewrite E1. simpl gnodes. rewrite <- app_assoc. split; [reflexivity|split; [exact E2|split; [exact W'|]]].
      intros bi. rewrite E3. cbn [assoc].
      change (N.pos (Pos.of_succ_nat (List.length r))) with (N.of_nat (S (List.length r))). rewrite Nat2N.inj_succ.
      generalize (N.of_nat (List.length r)). intros len.
      destruct (N.eqb_spec bi idx) as [->|Hne].
      * assert ((N.succ idx <=? idx)%N = false) as -> by (apply N.leb_gt; lia).
        assert ((idx <=? idx)%N = true) as -> by (apply N.leb_le; lia).
        assert ((idx <? idx + N.succ len)%N = true) as -> by (apply N.ltb_lt; lia). reflexivity.
      * destruct (N.leb_spec (N.succ idx) bi) as [H1|H1]; destruct (N.leb_spec idx bi) as [H2|H2]; try lia; cbn [andb]; [|reflexivity].
        destruct (N.ltb_spec bi (N.succ idx + len)); destruct (N.ltb_spec bi (idx + N.succ len)); try lia; reflexivity.
Qed.

Lemma index_of_num l : forall idx i0 k, (k < N.of_nat (List.length l))%N ->
  index_of (N.succ (idx + k)) (map fst (num idx l)) i0 = Some (i0 + k)%N.
Proof.
  induction l as [|a r IH]; intros idx i0 k Hk; [simpl in Hk; lia|]. simpl.
  destruct (N.eqb_spec (N.succ idx) (N.succ (idx + k))) as [E|Hne].
  - f_equal. lia.
  - assert (k <> 0)%N by (intros ->; apply Hne; f_equal; lia).
    replace (N.succ (idx + k)) with (N.succ (N.succ idx + N.pred k)) by lia.
    rewrite IH by (simpl List.length in Hk; lia). f_equal. lia.
Qed.

Lemma index_of_num0 l u : u <> 0%N -> (N.pred u < N.of_nat (List.length l))%N ->
  index_of u (map fst (num 0 l)) 0 = Some (N.pred u).
Proof.
  intros H0 H. pose proof (index_of_num l 0%N 0%N (N.pred u) H) as E.
  replace (N.succ (0 + N.pred u)) with u in E by lia. rewrite E. f_equal.
Qed.

Lemma index_of_in x l : forall i j, index_of x l i = Some j -> In x l.
Proof.
  induction l as [|y r IH]; intros i j; simpl; [discriminate|].
  destruct (N.eqb_spec y x); [left; assumption|]. intros H. right. apply (IH _ _ H).
Qed.

Definition bonds_e (l : list (N * N * Z)) : list (N * N * eatt) :=
  map (fun b : N * N * Z => let '(bi, ei, o) := b in (bi, ei, EA (Some (OS o)) None)) l.
Lemma bond_find_e i j l : find_edge i j (bonds_e l) = option_map (fun o => EA (Some (OS o)) None) (bond_find i j l).
Proof.
  induction l as [|[[b e] o] r IH]; [reflexivity|]. simpl bonds_e. rewrite find_edge_cons. simpl bond_find.
  unfold pair_eqb. destruct (_ || _); [reflexivity|exact IH].
Qed.
Lemma wf_bonds_spec n l : wf_bonds n l = true ->
  uniq_pairs (bonds_e l) = true /\ forall b e o, In (b, e, o) l -> (b < n)%N /\ (e < n)%N /\ b <> e.
Proof.
  induction l as [|[[b e] o] r IH]; [intros _; split; [reflexivity|intros ? ? ? []]|].
  simpl wf_bonds. rewrite !andb_true_iff. intros [[[[H1 H2] H3] H4] H5]. destruct (IH H5) as [U Hall]. split.
  - simpl. rewrite bond_find_e. destruct (bond_find b e r); [discriminate|]. exact U.
  - intros b' e' o' [E|Hin]; [|apply (Hall _ _ _ Hin)]. inversion E; subst.
    apply N.ltb_lt in H1, H2. apply negb_true_iff, N.eqb_neq in H3. auto.
Qed.

Section Mol.
Variable m : rmol.
Hypothesis Hwf : wf_mol m = true.
Let atoms := fst m.
Let bonds := snd m.
Let n := N.of_nat (List.length atoms).
Let st := m2g_nodes false false 0%N atoms (g_empty, []).
Let g0 := fst st.

Lemma st_facts : gnodes g0 = num 0 atoms /\ gedges g0 = [] /\ gwf g0 /\
  forall bi, assoc bi (snd st) = if (bi <? n)%N then Some (N.succ bi) else None.
Proof.
  destruct (m2g_nodes_ff atoms 0%N g_empty []) as (E1 & E2 & W & E3); [intros k []|apply gwf_empty|].
  fold st in E1, E2, W, E3. fold g0 in E1, E2, W. split; [exact E1|split; [exact E2|split; [exact W|]]].
  intros bi. rewrite E3. rewrite N.add_0_l. fold n. destruct (N.leb_spec 0 bi); [|lia]. reflexivity.
Qed.

Definition md (u v : N) : option eatt :=
  if N.eqb u 0 || N.eqb v 0 then None
  else option_map (fun o => EA (Some (OS o)) None) (bond_find (N.pred u) (N.pred v) bonds).
Lemma bond_find_sym i j l : bond_find i j l = bond_find j i l.
Proof.
  induction l as [|[[b e] o] r IH]; [reflexivity|]. simpl. rewrite IH, orb_comm. reflexivity.
Qed.
Lemma md_sym u v : md u v = md v u.
Proof. unfold md. rewrite orb_comm, bond_find_sym. reflexivity. Qed.

Let pairs := map (fun b : N * N * Z => (N.succ (fst (fst b)), N.succ (snd (fst b)))) bonds.
Let G := mol_to_graph m false false.

Lemma bonds_facts : uniq_pairs (bonds_e bonds) = true /\ forall b e o, In (b, e, o) bonds -> (b < n)%N /\ (e < n)%N /\ b <> e.
Proof. apply wf_bonds_spec. exact Hwf. Qed.

Lemma bond_find_in b e o : In (b, e, o) bonds -> bond_find b e bonds = Some o.
Proof.
  intros Hin. destruct bonds_facts as [U _].
  assert (In (b, e, EA (Some (OS o)) None) (bonds_e bonds)) as Hin'.
  { unfold bonds_e. apply in_map_iff. exists (b, e, o). auto. }
  pose proof (uniq_find _ b e _ b e U Hin' (pair_eqb_refl b e)) as F. rewrite bond_find_e in F.
  destruct (bond_find b e bonds) as [o'|]; [|discriminate]. simpl in F. congruence.
Qed.

Lemma G_fold : G = fold_left (estep md) pairs g0.
Proof.
  unfold G, mol_to_graph. fold st. fold g0. unfold pairs. rewrite fold_left_map'. apply fold_left_ext_in.
  intros acc [[b e] o] Hin. unfold m2g_bond, estep. simpl fst. simpl snd.
  destruct st_facts as (_ & _ & _ & HA). destruct bonds_facts as [_ HB]. destruct (HB b e o Hin) as (Hb & He & _).
  rewrite !HA. destruct (N.ltb_spec b n); [|lia]. destruct (N.ltb_spec e n); [|lia].
  unfold md. destruct (N.eqb_spec (N.succ b) 0); [lia|]. destruct (N.eqb_spec (N.succ e) 0); [lia|]. simpl.
  rewrite !N.pred_succ, (bond_find_in b e o Hin). reflexivity.
Qed.

Lemma G_gwf : gwf G.
Proof. rewrite G_fold. apply fold_estep_gwf. apply st_facts. Qed.
Lemma g0_has k : (k < n)%N -> has_node g0 (N.succ k) = true.
Proof.
  intros Hk. apply has_node_in. unfold node_ids. destruct st_facts as (E & _). rewrite E.
  assert (index_of (N.succ (0 + k)) (map fst (num 0 atoms)) 0 = Some (0 + k)%N) as H by (apply index_of_num; exact Hk).
  simpl in H. apply (index_of_in _ _ _ _ H).
Qed.
Lemma G_gnodes : gnodes G = num 0 atoms.
Proof.
  rewrite G_fold, fold_estep_node_ids; [apply st_facts|].
  intros e He. unfold pairs in He. apply in_map_iff in He. destruct He as ([[b e'] o] & <- & Hin). simpl.
  destruct bonds_facts as [_ HB]. destruct (HB b e' o Hin) as (Hb & He' & _). split; apply g0_has; assumption.
Qed.
Lemma G_adj u v : adj G u v = md u v.
Proof.
  rewrite G_fold, (fold_estep_adj md md_sym); [|left; unfold adj; destruct st_facts as (_ & -> & _); reflexivity].
  unfold adj at 1. destruct st_facts as (_ & -> & _). simpl.
  destruct (pmatch u v pairs) eqn:PM; [reflexivity|]. destruct (md u v) as [x|] eqn:D; [|reflexivity]. exfalso.
  unfold md in D. destruct (N.eqb_spec u 0); [discriminate|]. destruct (N.eqb_spec v 0); [discriminate|]. simpl in D.
  destruct (bond_find (N.pred u) (N.pred v) bonds) as [o|] eqn:F; [|discriminate].
  assert (find_edge (N.pred u) (N.pred v) (bonds_e bonds) <> None) as F' by (rewrite bond_find_e, F; discriminate).
  destruct (find_edge (N.pred u) (N.pred v) (bonds_e bonds)) as [y|] eqn:FE; [|congruence].
  apply find_some_in in FE. destruct FE as (b & e & Hin & P). unfold bonds_e in Hin. apply in_map_iff in Hin.
  destruct Hin as ([[b' e'] o'] & E & Hin). inversion E; subst.
  assert (pmatch u v pairs = true); [|congruence]. unfold pmatch. apply existsb_exists. exists (N.succ b, N.succ e). split.
  - unfold pairs. apply in_map_iff. exists (b, e, o'). auto.
  - simpl. apply pair_eqb_spec in P. apply pair_eqb_spec. destruct P as [[-> ->]|[-> ->]]; [left|right]; split; lia.
Qed.

Theorem mol_graph_roundtrip :
  exists bonds', graph_to_mol G = Some (map atom_back atoms, bonds') /\
                 forall i j, bond_find i j bonds' = option_map bond_type (bond_find i j bonds).
Proof.
  pose proof G_gwf as W. unfold graph_to_mol.
  assert (node_ids G = map fst (num 0 atoms)) as Eids by (unfold node_ids; rewrite G_gnodes; reflexivity).
  assert (forall u v x, In (u, v, x) (edges_iter G) ->
            exists o, x = EA (Some (OS o)) None /\ u <> v /\ (N.pred u < n)%N /\ (N.pred v < n)%N /\ u <> 0%N /\ v <> 0%N /\
                      bond_find (N.pred u) (N.pred v) bonds = Some o) as Hent.
  { intros u v x Hin. pose proof (edges_iter_data G u v x W Hin) as A. rewrite G_adj in A. unfold md in A.
    destruct (N.eqb_spec u 0); [discriminate|]. destruct (N.eqb_spec v 0); [discriminate|]. simpl in A.
    destruct (bond_find (N.pred u) (N.pred v) bonds) as [o|] eqn:F; [|discriminate]. injection A as <-. exists o.
    assert (find_edge (N.pred u) (N.pred v) (bonds_e bonds) <> None) as F' by (rewrite bond_find_e, F; discriminate).
    destruct (find_edge (N.pred u) (N.pred v) (bonds_e bonds)) as [y|] eqn:FE; [|congruence].
    apply find_some_in in FE. destruct FE as (b & e & Hin' & P). unfold bonds_e in Hin'. apply in_map_iff in Hin'.
    destruct Hin' as ([[b' e'] o'] & E & Hin'). inversion E; subst. destruct bonds_facts as [_ HB].
    destruct (HB b e o' Hin') as (Hb & He & Hbe). apply pair_eqb_spec in P.
    repeat split; auto; destruct P as [[? ?]|[? ?]]; try lia. }
  assert (forall u v x, In (u, v, x) (edges_iter G) ->
            exists o, bond_find (N.pred u) (N.pred v) bonds = Some o /\ N.pred u <> N.pred v /\
                      g2m_bond (node_ids G) (u, v, x) = Some (N.pred u, N.pred v, bond_type o)) as Hb.
  { intros u v x Hin. destruct (Hent u v x Hin) as (o & -> & Huv & Hu & Hv & Hu0 & Hv0 & F). exists o. split; [exact F|].
    split; [lia|]. unfold g2m_bond. simpl e_ord. rewrite Eids.
    rewrite (index_of_num0 atoms u Hu0 Hu), (index_of_num0 atoms v Hv0 Hv).
    destruct (N.eqb_spec (N.pred u) (N.pred v)); [lia|reflexivity]. }
  assert (forallb (fun b : option (N * N * Z) => match b with Some _ => true | None => false end)
            (map (g2m_bond (node_ids G)) (edges_iter G)) = true) as ->.
  { apply forallb_forall. intros ob Hin. apply in_map_iff in Hin. destruct Hin as ([[u v] x] & <- & Hin).
    destruct (Hb u v x Hin) as (o & _ & _ & ->). reflexivity. }
  eexists. split.
  { f_equal. f_equal. rewrite G_gnodes. clear. generalize 0%N. induction atoms as [|a r IH]; intros idx; [reflexivity|].
    simpl. f_equal. apply IH. }
  set (bonds' := flat_map _ _).
  assert (forall i j t, In (i, j, t) bonds' ->
            exists u v x o, In (u, v, x) (edges_iter G) /\ i = N.pred u /\ j = N.pred v /\ t = bond_type o /\
                            bond_find i j bonds = Some o) as Hin'.
  { intros i j t Hin. unfold bonds' in Hin. apply in_flat_map in Hin. destruct Hin as (ob & Hob & Ht).
    apply in_map_iff in Hob. destruct Hob as ([[u v] x] & <- & Hin). destruct (Hb u v x Hin) as (o & F & _ & E).
    rewrite E in Ht. destruct Ht as [Ht|[]]. inversion Ht; subst. exists u, v, x, o. auto. }
  intros i j. destruct (bond_find i j bonds') as [t|] eqn:F.
  - assert (find_edge i j (bonds_e bonds') <> None) as F' by (rewrite bond_find_e, F; discriminate).
    destruct (find_edge i j (bonds_e bonds')) as [y|] eqn:FE; [|congruence]. rewrite bond_find_e, F in FE. injection FE as <-.
    assert (find_edge i j (bonds_e bonds') = Some (EA (Some (OS t)) None)) as FE by (rewrite bond_find_e, F; reflexivity).
    apply find_some_in in FE. destruct FE as (b & e & Hin & P). unfold bonds_e in Hin. apply in_map_iff in Hin.
    destruct Hin as ([[b' e'] t'] & E & Hin). inversion E; subst.
    destruct (Hin' b e t Hin) as (u & v & x & o & _ & -> & -> & -> & Fo).
    apply pair_eqb_spec in P. destruct P as [[<- <-]|[<- <-]]; [rewrite Fo; reflexivity|].
    rewrite bond_find_sym, Fo. reflexivity.
  - destruct (bond_find i j bonds) as [o|] eqn:Fo; [|reflexivity]. exfalso.
    assert (adj G (N.succ i) (N.succ j) = Some (EA (Some (OS o)) None)) as A.
    { rewrite G_adj. unfold md. destruct (N.eqb_spec (N.succ i) 0); [lia|]. destruct (N.eqb_spec (N.succ j) 0); [lia|]. simpl.
      rewrite !N.pred_succ, Fo. reflexivity. }
    assert (has_pair (N.succ i) (N.succ j) (edges_iter G) = true) as HP by (rewrite has_pair_edges_iter, A by exact W; reflexivity).
    unfold has_pair in HP. apply existsb_exists in HP. destruct HP as ([[u v] x] & Hin & P). simpl in P.
    destruct (Hb u v x Hin) as (o' & Fo' & _ & E).
    assert (In (N.pred u, N.pred v, bond_type o') bonds') as Hin2.
    { unfold bonds'. apply in_flat_map. exists (Some (N.pred u, N.pred v, bond_type o')). split; [|left; reflexivity].
      apply in_map_iff. exists (u, v, x). auto. }
    assert (find_edge i j (bonds_e bonds') <> None) as NE.
    { apply (in_find_some _ (N.pred u) (N.pred v) (EA (Some (OS (bond_type o'))) None)).
      - unfold bonds_e. apply in_map_iff. exists (N.pred u, N.pred v, bond_type o'). auto.
      - apply pair_eqb_spec in P. apply pair_eqb_spec. destruct P as [[-> ->]|[-> ->]]; rewrite !N.pred_succ; auto. }
    rewrite bond_find_e, F in NE. apply NE. reflexivity.
Qed.
End Mol.

(** non-vacuity: [NH4+] (index 0, map 7) ... a pyridine-like ring fragment c:n, C=O *)
Local Open Scope string_scope.
Definition ex_mol : rmol :=
  ([RAt (s2l "N") false 4 1 7; RAt (s2l "c") true 1 0 0; RAt (s2l "n") true 0 0 0; RAt (s2l "O") false 0 0 0],
   [(1%N, 2%N, 3); (3%N, 1%N, 4)]).
Example mol_graph_roundtrip_ex :
  wf_mol ex_mol = true /\
  graph_to_mol (mol_to_graph ex_mol false false)
  = Some (map atom_back (fst ex_mol), [(1%N, 2%N, 3); (1%N, 3%N, 4)]).
Proof. vm_compute. auto. Qed.

(** ** SMILES -> graph -> SMILES under the RDKit contract (explicit premises; monitored by the oracle on every mol case) *)
Lemma bond_find_in_list i j l o : bond_find i j l = Some o -> exists b e, In (b, e, o) l.
Proof.
  induction l as [|[[b e] o'] r IH]; [discriminate|]. simpl. destruct (_ || _).
  - intros [= ->]. exists b, e. left. reflexivity.
  - intros H. destruct (IH H) as (b' & e' & Hin). exists b', e'. right. exact Hin.
Qed.

Theorem smiles_roundtrip_under_contract
  (Smi : Type) (read : Smi -> option rmol) (write : list watom * list (N * N * Z) -> option Smi) (canon : Smi -> Smi) :
  (forall s m, read s = Some m -> wf_mol m = true /\ forall b e o, In (b, e, o) (snd m) -> bond_type o = o) ->
  (forall s m bonds', read s = Some m -> (forall i j, bond_find i j bonds' = bond_find i j (snd m)) ->
                      write (map atom_back (fst m), bonds') = Some (canon s)) ->
  forall s m, read s = Some m ->
    match graph_to_mol (mol_to_graph m false false) with Some w => write w | None => None end = Some (canon s).
Proof.
  intros C1 C2 s m R. destruct (C1 s m R) as [Hwf Hbt]. destruct (mol_graph_roundtrip m Hwf) as (bonds' & E & Hb).
  rewrite E. apply (C2 s m bonds' R). intros i j. rewrite Hb. destruct (bond_find i j (snd m)) as [o|] eqn:F; [|reflexivity].
  simpl. destruct (bond_find_in_list i j _ o F) as (b & e & Hin). rewrite (Hbt b e o Hin). reflexivity.
Qed.

(** the premises of smiles_roundtrip_under_contract are satisfiable with a reader that does return molecules *)
Example smiles_contract_ex :
  let read := fun _ : unit => Some ex_mol in
  let write := fun _ : list watom * list (N * N * Z) => Some tt in
  (forall s m, read s = Some m -> wf_mol m = true /\ forall b e o, In (b, e, o) (snd m) -> bond_type o = o) /\
  match graph_to_mol (mol_to_graph ex_mol false false) with Some w => write w | None => None end = Some tt.
Proof.
  cbv zeta. split.
  - intros s m [= <-]. split; [reflexivity|]. simpl. intros b e o [E|[E|[]]]; inversion E; reflexivity.
  - vm_compute. reflexivity.
Qed.
