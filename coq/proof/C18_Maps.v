(** C18 — summary()["mappings"] (_maps_from_perms): one mapping per minimal leaf, and every reported mapping is the graph,
    on the nodes of the view, of a structure-preserving self-map. *)
From Coq Require Import List NArith ZArith Bool Arith Lia Permutation.
From SK Require Import lib.IRCore lib.IRSearch model.C18_Model proof.C18_Order proof.C18_Spec proof.C18_Graph proof.C18_Canon
  proof.C18_Label proof.C18_Aut proof.C18_Invariant proof.C18_Count.
Import ListNotations.

Lemma dict_set_keys k v m a : In a (map fst (dict_set k v m)) <-> a = k \/ In a (map fst m).
Proof.
  induction m as [|[k' v'] m IH]; simpl; [intuition|].
  destruct (N.eqb_spec k' k) as [->|Hne]; simpl; [intuition|]. rewrite IH. intuition.
Qed.
Lemma dict_set_nodup k v m : NoDup (map fst m) -> NoDup (map fst (dict_set k v m)).
Proof.
  induction m as [|[k' v'] m IH]; simpl; intros H; [constructor; auto; constructor|].
  inversion H; subst. destruct (N.eqb_spec k' k) as [->|Hne]; simpl; [constructor; auto|].
  constructor; auto. rewrite dict_set_keys. intros [E|I]; auto.
Qed.
Lemma dict_set_in k v m a b : NoDup (map fst m) ->
  (In (a, b) (dict_set k v m) <-> (a = k /\ b = v) \/ (a <> k /\ In (a, b) m)).
Proof.
  induction m as [|[k' v'] m IH]; simpl; intros H.
  - split; [intros [E|[]]; inversion E; auto|intros [[-> ->]|[_ []]]; auto].
  - inversion H; subst. destruct (N.eqb_spec k' k) as [->|Hne]; simpl.
    + split.
      * intros [E|I]; [inversion E; auto|]. right. split; auto. intros ->. apply H2. apply in_map_iff. exists (k, b). auto.
      * intros [[-> ->]|[Hn [E|I]]]; auto. inversion E; subst. congruence.
    + rewrite (IH H3). split.
      * intros [E|[[-> ->]|[Hn I]]]; auto. inversion E; subst. auto.
      * intros [[-> ->]|[Hn [E|I]]]; auto.
Qed.

Lemma map_of_graph (s : N -> N) ref : forall acc, NoDup (map fst acc) -> (forall a b, In (a, b) acc -> b = s a) ->
  let m := fold_left (fun m kv => dict_set (fst kv) (snd kv) m) (combine ref (map s ref)) acc in
  NoDup (map fst m) /\ forall a b, In (a, b) m <-> (b = s a /\ (In a ref \/ In a (map fst acc))).
Proof.
  induction ref as [|x ref IH]; intros acc Hnd Hf; simpl.
  - split; auto. intros a b. split.
    + intros I. split; [apply Hf; auto|right; apply in_map_iff; exists (a, b); auto].
    + intros [-> [[]|I]]. apply in_map_iff in I. destruct I as ([a' b'] & E & I). simpl in E. subst a'.
      rewrite (Hf _ _ I) in I. exact I.
  - destruct (IH (dict_set x (s x) acc)) as [H1 H2].
    + apply dict_set_nodup; auto.
    + intros a b I. apply dict_set_in in I; auto. destruct I as [[-> ->]|[_ I]]; auto.
    + split; auto. intros a b. rewrite H2, dict_set_keys. intuition.
Qed.

Theorem mappings_spec g lab p : wf g -> kinds_ok g -> arcs_ok g -> fst (canon_search g) = Some (lab, p) ->
  length (maps_from_perms p (min_leaves g)) = length (min_leaves g) /\
  forall m, In m (maps_from_perms p (min_leaves g)) ->
    exists s, is_aut g s /\ forall a b, In (a, b) m <-> (In a (node_ids g) /\ b = s a).
Proof.
  intros Hw Hk Ha Hb. destruct (aut_count g lab p Hw Hk Ha Hb) as (_ & Miff & _).
  destruct (best_is_leaf g lab p Hb) as [_ Hleaf].
  destruct (leaves_of_keys g p Hw Hleaf) as (pre & r & Ep & Hr & _ & Ipre).
  assert (Ip : forall v, In v p <-> In v (node_ids g)).
  { intros v. rewrite Ep. split.
    - intros Hv. apply in_app_or in Hv. destruct Hv; [apply Ipre; auto|apply (Permutation_in _ Hr); auto].
    - intros Hv. apply in_or_app. right. apply (Permutation_in _ (Permutation_sym Hr)); auto. }
  assert (Hall : forall q, In q (min_leaves g) -> Nat.eqb (length q) (length p) = true).
  { intros q Hq. apply Miff in Hq. destruct Hq as (s & _ & ->). rewrite map_length. apply Nat.eqb_refl. }
  unfold maps_from_perms. split.
  - rewrite map_length. f_equal. clear - Hall. induction (min_leaves g) as [|q l IH]; simpl; auto.
    rewrite Hall by (left; auto). f_equal. apply IH. intros; apply Hall; right; auto.
  - intros m Hm. apply in_map_iff in Hm. destruct Hm as (q & <- & Hq). apply filter_In in Hq. destruct Hq as [Hq _].
    apply Miff in Hq. destruct Hq as (s & Hs & ->). exists s. split; auto.
    intros a b. unfold map_of. destruct (map_of_graph s p [] (NoDup_nil _) (fun a b (I : In (a, b) []) => match I with end)) as [_ H].
    rewrite H. simpl. rewrite <- Ip. intuition.
Qed.

(** has_nontrivial_automorphism() = len(perms) > 1 *)
Theorem has_nontrivial_spec g lab p : wf g -> kinds_ok g -> arcs_ok g -> fst (canon_search g) = Some (lab, p) ->
  (1 < length (min_leaves g) <-> exists s v, is_aut g s /\ In v (node_ids g) /\ s v <> v).
Proof.
  intros Hw Hk Ha Hb. destruct (aut_count g lab p Hw Hk Ha Hb) as (Mnd & Miff & _).
  destruct (best_is_leaf g lab p Hb) as [_ Hleaf].
  destruct (leaves_of_keys g p Hw Hleaf) as (pre & r & Ep & Hr & _ & Ipre).
  assert (Ip : forall v, In v p <-> In v (node_ids g)).
  { intros v. rewrite Ep. split.
    - intros Hv. apply in_app_or in Hv. destruct Hv; [apply Ipre; auto|apply (Permutation_in _ Hr); auto].
    - intros Hv. apply in_or_app. right. apply (Permutation_in _ (Permutation_sym Hr)); auto. }
  assert (Hp : In p (min_leaves g)).
  { apply Miff. exists (fun v => v). split; [|symmetry; apply map_id].
    split; [intros x y _ _ E; exact E|]. split; [auto|]. split; auto. }
  assert (Diff : forall s, map s p <> p -> exists v, In v p /\ s v <> v).
  { intros s. clear. induction p as [|x l IH]; simpl; intros H; [congruence|].
    destruct (N.eq_dec (s x) x) as [E|E]; [|exists x; auto].
    assert (Hl : map s l <> l) by (intro E'; apply H; congruence).
    destruct (IH Hl) as (v & Hv & Hn). exists v. auto. }
  split.
  - intros Hlen.
    assert (Hq : exists q, In q (min_leaves g) /\ q <> p).
    { destruct (min_leaves g) as [|a [|b l]]; simpl in Hlen; try lia.
      destruct (list_eq_dec N.eq_dec a p) as [->|Hne]; [|exists a; simpl; auto].
      exists b. split; [simpl; auto|]. intros ->. inversion Mnd as [|? ? Hni _]. apply Hni. left. auto. }
    destruct Hq as (q & Hq & Hne). apply Miff in Hq. destruct Hq as (s & Hs & ->).
    destruct (Diff s Hne) as (v & Hv & Hn). exists s, v. split; auto. split; auto. apply Ip. auto.
  - intros (s & v & Hs & Hv & Hn).
    assert (Hq : In (map s p) (min_leaves g)) by (apply Miff; eauto).
    assert (Hne : map s p <> p).
    { intros E. apply Hn. apply Ip in Hv. clear - E Hv. induction p as [|x l IH]; simpl in *; [contradiction|].
      inversion E. destruct Hv as [<-|Hv]; auto. }
    destruct (min_leaves g) as [|a [|b l]]; simpl in *; try lia; try contradiction.
    destruct Hp as [<-|[]], Hq as [E|[]]. congruence.
Qed.
