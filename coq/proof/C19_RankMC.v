(** C19 — the linear-algebra core of "deficiency >= 0" (MathComp style, abstract matrices):
    if every column of S is  Y(:,v_j) - Y(:,u_j)  for an arc (u_j, v_j) of a graph on k vertices, and the vertices carry
    l classes that are constant along arcs and have one representative each, then  rank S + l <= k.
    (S = Y * I_a with I_a the incidence matrix; the l class indicator rows are independent and annihilate I_a.) *)
From mathcomp Require Import all_ssreflect all_algebra.
From mathcomp Require Import zify.
Set Implicit Arguments. Unset Strict Implicit. Unset Printing Implicit Defensive.
Import GRing.Theory.
Local Open Scope ring_scope.

Section Incidence.
Variable F : fieldType.
Variables (m k r l : nat).
Variable Y : 'M[F]_(m, k).
Variables (uf vf : 'I_r -> 'I_k).
Variable cls : 'I_l -> 'I_k -> bool.
Variable rep : 'I_l -> 'I_k.
Hypothesis cls_arc : forall c j, cls c (uf j) = cls c (vf j).
Hypothesis cls_rep : forall c c', cls c (rep c') = (c == c').

Definition Ia : 'M[F]_(k, r) := \matrix_(c, j) ((c == vf j)%:R - (c == uf j)%:R).
Definition Wm : 'M[F]_(l, k) := \matrix_(c, i) (cls c i)%:R.
Definition Rm : 'M[F]_(k, l) := \matrix_(i, c) (i == rep c)%:R.

Lemma sum_delta (f : 'I_k -> F) x : \sum_i f i * (i == x)%:R = f x.
Proof.
rewrite (bigD1 x) //= eqxx mulr1 big1 ?addr0 // => i /negbTE ->.
by rewrite mulr0.
Qed.

Lemma Y_Ia : Y *m Ia = \matrix_(i, j) (Y i (vf j) - Y i (uf j)).
Proof.
apply/matrixP => i j; rewrite !mxE.
under eq_bigr => c _ do rewrite !mxE mulrBr.
by rewrite sumrB !sum_delta.
Qed.

Lemma W_Ia : Wm *m Ia = 0.
Proof.
apply/matrixP => c j; rewrite !mxE.
under eq_bigr => i _ do rewrite !mxE mulrBr.
by rewrite sumrB !sum_delta cls_arc subrr.
Qed.

Lemma W_R : Wm *m Rm = 1%:M.
Proof.
apply/matrixP => c c'; rewrite !mxE.
under eq_bigr => i _ do rewrite !mxE.
by rewrite sum_delta cls_rep.
Qed.

Lemma rank_W : \rank Wm = l.
Proof.
apply/eqP; rewrite eqn_leq rank_leq_row /=.
have H : (\rank (Wm *m Rm) <= \rank Wm)%N := mxrankM_maxl _ _.
by rewrite W_R mxrank1 in H.
Qed.

Lemma rank_Ia : (\rank Ia + l <= k)%N.
Proof.
have sub : (Wm <= kermx Ia)%MS by apply/sub_kermxP; exact: W_Ia.
have := mxrankS sub; rewrite rank_W mxrank_ker.
have := rank_leq_row Ia.
lia.
Qed.

Theorem rank_complex_bound (S : 'M[F]_(m, r)) :
  (forall i j, S i j = Y i (vf j) - Y i (uf j)) -> (\rank S + l <= k)%N.
Proof.
move=> eS.
have -> : S = Y *m Ia by rewrite Y_Ia; apply/matrixP => i j; rewrite eS mxE.
have := mxrankM_maxr Y Ia; have := rank_Ia; lia.
Qed.
End Incidence.
Print Assumptions rank_complex_bound.
