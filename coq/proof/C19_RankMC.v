(** C19 — the linear-algebra core of "deficiency >= 0" (MathComp style, abstract matrices):
    if every column of S is  Y(:,v_j) - Y(:,u_j)  for an arc (u_j, v_j) of a graph on k vertices, and the vertices carry
    l classes that are constant along arcs and have one representative each, then  rank S + l <= k.
    (S = Y * I_a with I_a the incidence matrix; the l class indicator rows are independent and annihilate I_a.) *)
From mathcomp Require Import all_ssreflect all_algebra.
From mathcomp Require Import zify.
Set Implicit Arguments. Unset Strict Implicit. Unset Printing Implicit Defensive.
Import GRing.Theory.
Local Open Scope ring_scope.

Section Incidence.
Variable F : fieldType.
Variables (m k r l : nat).
Variable Y : 'M[F]_(m, k).
Variables (uf vf : 'I_r -> 'I_k).
Variable cls : 'I_l -> 'I_k -> bool.
Variable rep : 'I_l -> 'I_k.
Hypothesis cls_arc : forall c j, cls c (uf j) = cls c (vf j).
Hypothesis cls_rep : forall c c', cls c (rep c') = (c == c').

Definition Ia : 'M[F]_(k, r) := \matrix_(c, j) ((c == vf j)%:R - (c == uf j)%:R).
Definition Wm : 'M[F]_(l, k) := \matrix_(c, i) (cls c i)%:R.
Definition Rm : 'M[F]_(k, l) := \matrix_(i, c) (i == rep c)%:R.

Lemma sum_delta (f : 'I_k -> F) x : \sum_i f i * (i == x)%:R = f x.
Proof.
rewrite (bigD1 x) //= eqxx mulr1 big1 ?addr0 // => i /negbTE ->.
by rewrite mulr0.
Qed.

Lemma Y_Ia : Y *m Ia = \matrix_(i, j) (Y i (vf j) - Y i (uf j)).
Proof.
apply/matrixP => i j; rewrite !mxE.
under eq_bigr => c _ do rewrite !mxE mulrBr.
by rewrite sumrB !sum_delta.
Qed.

Lemma W_Ia : Wm *m Ia = 0.
Proof.
apply/matrixP => c j; rewrite !mxE.
under eq_bigr => i _ do rewrite !mxE mulrBr.
by rewrite sumrB !sum_delta cls_arc subrr.
Qed.

Lemma W_R : Wm *m Rm = 1%:M.
Proof.
apply/matrixP => c c'; rewrite !mxE.
under eq_bigr => i _ do rewrite !mxE.
by rewrite sum_delta cls_rep.
Qed.

Lemma rank_W : \rank Wm = l.
Proof.
apply/eqP; rewrite eqn_leq rank_leq_row /=.
have H : (\rank (Wm *m Rm) <= \rank Wm)%N := mxrankM_maxl _ _.
by rewrite W_R mxrank1 in H.
Qed.

Lemma rank_Ia : (\rank Ia + l <= k)%N.
Proof.
have sub : (Wm <= kermx Ia)%MS by apply/sub_kermxP; exact: W_Ia.
have := mxrankS sub; rewrite rank_W mxrank_ker.
have := rank_leq_row Ia.
lia.
Qed.

Theorem rank_complex_bound (S : 'M[F]_(m, r)) :
  (forall i j, S i j = Y i (vf j) - Y i (uf j)) -> (\rank S + l <= k)%N.
Proof.
move=> eS.
have -> : S = Y *m Ia by rewrite Y_Ia; apply/matrixP => i j; rewrite eS mxE.
have := mxrankM_maxr Y Ia; have := rank_Ia; lia.
Qed.
End Incidence.
Print Assumptions rank_complex_bound.

(** columns spread over blocks: if every column of S is zero or a row of one of the matrices D c, then
    rank S <= sum of the ranks of the D c *)
Section Blocks.
Variable F : fieldType.
Variables (m r l : nat).
Variable S : 'M[F]_(m, r).
Variable d : 'I_l -> nat.
Variable D : forall c : 'I_l, 'M[F]_(d c, m).
Hypothesis cols : forall j : 'I_r,
  (forall i, S i j = 0) \/ exists c : 'I_l, exists t : 'I_(d c), forall i, S i j = D c t i.

Lemma rank_sums_leq (A : 'I_l -> 'M[F]_m) : (\rank (\sum_c A c)%MS <= \sum_c \rank (A c))%N.
Proof.
elim/big_ind2: _ => [|A1 a1 A2 a2 H1 H2|c _]; rewrite ?mxrank0 //.
by apply: leq_trans (mxrank_adds_leqif _ _) _; apply: leq_add.
Qed.

Theorem rank_blocks : (\rank S <= \sum_c \rank (D c))%N.
Proof.
rewrite -mxrank_tr.
have sub : (S^T <= \sum_c <<D c>>)%MS.
  apply/row_subP => j; case: (cols j) => [z|[c [t e]]].
    have -> : row j S^T = 0 by apply/rowP => i; rewrite !mxE z.
    exact: sub0mx.
  have -> : row j S^T = row t (D c) by apply/rowP => i; rewrite !mxE e.
  apply: (submx_trans (row_sub t (D c))).
  by apply: (sumsmx_sup c) => //; rewrite genmxE.
apply: leq_trans (mxrankS sub) _.
apply: leq_trans (rank_sums_leq _) _.
by apply: leq_sum => c _; rewrite genmxE.
Qed.
End Blocks.
Print Assumptions rank_blocks.
