(** C05 — SynReactor(embed_pre_filter = True).  The cheap pre-filter of find_subgraph_mappings is a guard: it can only
    EMPTY the result of the first search; its decision is a function of per-atom candidate counts and commutes with any
    injective renumbering of substrate and pattern, hence so do the raw, kept and glued results under the option. *)
From Coq Require Import List NArith ZArith Bool Arith Lia.
From SK Require Import lib.Tok lib.LGraph lib.Mono lib.Reach.
From SK Require model.C06_Model model.C11_Model.
From SK Require Import model.C03_Model model.C05_Model proof.C05_Proof proof.C05_Glue proof.C05_Pipe proof.C05_Prep proof.C05_Comp proof.C05_Main.
Import ListNotations.

Lemma filter_map_len {X Y} (f : X -> Y) (p : Y -> bool) (q : X -> bool) (l : list X) :
  (forall x, p (f x) = q x) -> length (filter p (map f l)) = length (filter q l).
Proof.
  intros E. induction l as [|x r IH]; simpl; [reflexivity|]. rewrite E. destruct (q x); simpl; rewrite IH; reflexivity.
Qed.

Lemma degree_relabel f (Hf : inj f) (g : C06_Model.graph) u : C06_Model.degree (relabel f g) (f u) = C06_Model.degree g u.
Proof. unfold C06_Model.degree, C06_Model.lenN. rewrite (nbrs_relabel f Hf), map_length. reflexivity. Qed.

Lemma qpf_loop_relabel sg pi (Hs : inj sg) (Hp : inj pi) (H P : C06_Model.graph) thr : forall ps est,
  C06_Model.qpf_loop (relabel pi H) (relabel sg P) thr (map sg ps) est = C06_Model.qpf_loop H P thr ps est.
Proof.
  induction ps as [|p ps IH]; intros est; [reflexivity|].
  cbn [map C06_Model.qpf_loop].
  assert (E : C06_Model.lenN (filter (fun h => C06_Model.nm (C06_Model.lab (relabel pi H) h) (C06_Model.lab (relabel sg P) (sg p))
                                             && (C06_Model.degree (relabel sg P) (sg p) <=? C06_Model.degree (relabel pi H) h)%N)
                                    (node_ids (relabel pi H)))
              = C06_Model.lenN (filter (fun h => C06_Model.nm (C06_Model.lab H h) (C06_Model.lab P p)
                                                && (C06_Model.degree P p <=? C06_Model.degree H h)%N) (node_ids H))).
  { unfold C06_Model.lenN. f_equal. rewrite node_ids_relabel. apply filter_map_len. intros h.
    rewrite (lab_relabel pi Hp), (lab_relabel sg Hs), (degree_relabel sg Hs), (degree_relabel pi Hp). reflexivity. }
  rewrite E. destruct (_ =? 0)%N; [reflexivity|]. destruct (_ <? _)%N; [reflexivity|]. apply IH.
Qed.

Lemma quick_pre_filter_relabel sg pi (Hs : inj sg) (Hp : inj pi) (H P : C06_Model.graph) thr :
  C06_Model.quick_pre_filter (relabel pi H) (relabel sg P) thr = C06_Model.quick_pre_filter H P thr.
Proof. unfold C06_Model.quick_pre_filter. rewrite node_ids_relabel. apply qpf_loop_relabel; assumption. Qed.

Section WithThr.
Context {TH : Thr}.

Lemma matches_pf_false strat host pat : matches_pf false strat host pat = matches strat host pat.
Proof. reflexivity. Qed.

(** the guard can only empty the result *)
Lemma matches_pf_true strat host pat :
  matches_pf true strat host pat
  = if C06_Model.quick_pre_filter (host_c06 host) (pat_c06 pat) thr_val then [] else matches strat host pat.
Proof.
  unfold matches_pf, matches, C06_Model.find. cbn [C06_Model.c_pref C06_Model.c_thr cfg_of andb].
  destruct (C06_Model.quick_pre_filter (host_c06 host) (pat_c06 pat) thr_val); reflexivity.
Qed.

Lemma glued_of_pf_true strat host p :
  glued_of_pf true strat host p = if prefilter_fires host p then [] else glued_of strat host p.
Proof.
  unfold glued_of_pf, kept_of_pf, raw_of_pf, prefilter_fires, glued_of, kept_of, raw_of. rewrite matches_pf_true.
  destruct (C06_Model.quick_pre_filter _ _ thr_val); reflexivity.
Qed.

Lemma prefilter_fires_relabel sg pi (Hs : inj sg) (Hp : inj pi) host p :
  prefilter_fires (relabel pi host) (relabel_prep sg p) = prefilter_fires host p.
Proof.
  unfold prefilter_fires. destruct p as [rc l r flag pat]. simpl.
  rewrite host_c06_relabel, pat_c06_relabel. apply quick_pre_filter_relabel; assumption.
Qed.

Theorem matches_pf_relabel pref strat sg pi (Hs : inj sg) (Hp : inj pi) (host : hostg) (pat : molg) :
  matches_pf pref strat (relabel pi host) (relabel sg pat) = map (mv sg pi) (matches_pf pref strat host pat).
Proof.
  destruct pref; [|apply matches_relabel; assumption].
  rewrite !matches_pf_true, host_c06_relabel, pat_c06_relabel, (quick_pre_filter_relabel sg pi Hs Hp).
  destruct (C06_Model.quick_pre_filter _ _ thr_val); [reflexivity | apply matches_relabel; assumption].
Qed.

Theorem glued_of_pf_relabel pref strat sg pi (Hs : inj sg) (Hp : inj pi) host p : p_flag p = false ->
  glued_of_pf pref strat (relabel pi host) (relabel_prep sg p) = map (relabel pi) (glued_of_pf pref strat host p).
Proof.
  intros Hflag. destruct pref.
  - rewrite !glued_of_pf_true, (prefilter_fires_relabel sg pi Hs Hp).
    destruct (prefilter_fires host p); [reflexivity | apply glued_relabel; assumption].
  - apply (glued_relabel strat sg pi Hs Hp host p Hflag).
Qed.

End WithThr.
