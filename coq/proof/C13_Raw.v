(** C13 -- the partition theorem stated on the graphs THE CALLER PASSES (raw attribute dictionaries) with the configured label
    names, defaults and edge attribute: two items share a class iff some bijection of their atoms preserves the configured
    labels after the defaults (generic_node_match) and presence + configured attribute of every bond (generic_edge_match with
    default 1).  Corollary of [partition_graphs], [isomorphic_meaning] and the projection lemmas of proof/C13_Trace.v. *)
From Coq Require Import List NArith ZArith Bool Arith Lia Permutation.
From SK Require Import lib.Tok lib.LGraph lib.Mono model.C13_Model model.C13_Trace proof.C13_Proof proof.C13_More proof.C13_Iso proof.C13_Templates proof.C13_Trace.
Import ListNotations.
Local Open Scope nat_scope.

Definition raw_isomorphic (c : ccfg) (g1 g2 : rgraph13) : Prop :=
  length (gnodes g1) = length (gnodes g2) /\
  exists f : N -> N,
    NoDup (map f (node_ids g2)) /\ incl (map f (node_ids g2)) (node_ids g1) /\
    (forall u, In u (node_ids g2) ->
       match label g1 (f u), label g2 u with
       | Some a, Some b => node_match_raw13 (cc_names c) (cc_defs c) a b = true
       | _, _ => False
       end) /\
    (forall u v, In u (node_ids g2) -> In v (node_ids g2) -> u <> v ->
       match LGraph.adj g2 u v, LGraph.adj g1 (f u) (f v) with
       | Some b, Some b' => edge_match_raw13 (cc_edge c) b' b = true
       | None, None => True
       | _, _ => False
       end).

Lemma project13_isomorphic c g1 g2 : length (cc_defs c) = length (cc_names c) ->
  isomorphic true (cc_defs c) (project13 c g1) (project13 c g2) <-> raw_isomorphic c g1 g2.
Proof.
  intros EL. rewrite isomorphic_meaning. unfold raw_isomorphic, project13 at 1 2. simpl gnodes. rewrite !map_length.
  split; intros (Hlen & f & A & B & C & D); (split; [exact Hlen|]); exists f; rewrite ?project13_ids in *.
  - split; [exact A|split; [exact B|split]].
    + intros u Hu. specialize (C u Hu). rewrite (proj1 (project13_matchers c g1 g2 (f u) u (f u) u EL)) in C.
      destruct (label g1 (f u)), (label g2 u); auto; discriminate.
    + intros u v Hu Hv Hne. specialize (D u v Hu Hv Hne). rewrite !project13_adj in D.
      destruct (LGraph.adj g2 u v), (LGraph.adj g1 (f u) (f v)); simpl in D; auto.
  - split; [exact A|split; [exact B|split]].
    + intros u Hu. specialize (C u Hu). rewrite (proj1 (project13_matchers c g1 g2 (f u) u (f u) u EL)).
      destruct (label g1 (f u)), (label g2 u); auto; contradiction.
    + intros u v Hu Hv Hne. specialize (D u v Hu Hv Hne). rewrite !project13_adj.
      destruct (LGraph.adj g2 u v), (LGraph.adj g1 (f u) (f v)); simpl; auto.
Qed.

(** GraphCluster.fit on raw items: every item gets exactly one class, and two items share a class IFF their raw graphs are
    isomorphic on the configured labels and bond attribute -- provided the pre-grouping attribute (if any) is invariant *)
Theorem partition_raw (c : ccfg) (mode : attr_mode) (data : list ritem) :
  length (cc_defs c) = length (cc_names c) ->
  (forall x, In x data -> NoDup (node_ids (ri_graph x))) ->
  (forall x y, In x data -> In y data -> raw_isomorphic c (ri_graph x) (ri_graph y) ->
               gc_key mode (mk_item c x) = gc_key mode (mk_item c y)) ->
  let items := map (mk_item c) data in
  let classes := gc_fit (item_iso true (cc_defs c)) mode items in
  length classes = length data /\
  forall i j x y, nth_error data i = Some x -> nth_error data j = Some y ->
  exists ci cj, nth_error classes i = Some (Some ci) /\ nth_error classes j = Some (Some cj) /\
                (ci = cj <-> raw_isomorphic c (ri_graph x) (ri_graph y)).
Proof.
  intros EL Hnd Hattr items classes.
  set (D0 := fun x : item => NoDup (node_ids (it_graph x)) /\
                             forall u a, In (u, a) (gnodes (it_graph x)) -> length (cc_defs c) <= length a).
  (* the domain of the generic theorem: the projected items of THIS list *)
  set (D := fun x : item => D0 x /\ exists r, In r data /\ x = mk_item c r).
  assert (HD : Forall D items).
  { apply Forall_forall. intros x Hx. unfold items in Hx. apply in_map_iff in Hx. destruct Hx as (r & <- & Hr). split; [split|].
    - simpl. rewrite project13_ids. now apply Hnd.
    - intros u a Hin. simpl in Hin. apply in_map_iff in Hin.
      destruct Hin as ([u' a'] & E & _). inversion E; subst. rewrite map_length, EL. apply le_n.
    - exists r. split; [exact Hr|reflexivity]. }
  assert (Hrefl : forall x, D x -> item_iso true (cc_defs c) x x = true).
  { intros x (Dx & _). exact (item_iso_refl true (cc_defs c) x Dx). }
  assert (Hsym : forall x y, D x -> D y -> item_iso true (cc_defs c) x y = true -> item_iso true (cc_defs c) y x = true).
  { intros x y (Dx & _) (Dy & _). exact (item_iso_sym true (cc_defs c) x y Dx Dy). }
  assert (Htrans : forall x y z, D x -> D y -> D z -> item_iso true (cc_defs c) x y = true ->
                                 item_iso true (cc_defs c) y z = true -> item_iso true (cc_defs c) x z = true).
  { intros x y z (Dx & _) (Dy & _) (Dz & _). exact (item_iso_trans true (cc_defs c) x y z Dx Dy Dz). }
  assert (Hinv : forall x y, D x -> D y -> item_iso true (cc_defs c) x y = true -> gc_key mode x = gc_key mode y).
  { intros x y (Dx & rx & Hrx & ->) (Dy & ry & Hry & ->) Hi. apply Hattr; [exact Hrx|exact Hry|].
    apply (project13_isomorphic c _ _ EL). unfold item_iso in Hi. simpl in Hi.
    exact (proj1 (graph_iso_spec true (cc_defs c) _ _ (proj1 Dy)) Hi). }
  destruct (partition_full (item_iso true (cc_defs c)) mode D Hrefl Hsym Htrans Hinv items HD) as (Hlen & Hall).
  split; [fold classes in Hlen; rewrite Hlen; unfold items; apply map_length|].
  intros i j x y Hx Hy.
  assert (Hx' : nth_error items i = Some (mk_item c x)) by (unfold items; now rewrite nth_error_map, Hx).
  assert (Hy' : nth_error items j = Some (mk_item c y)) by (unfold items; now rewrite nth_error_map, Hy).
  destruct (Hall i j _ _ Hx' Hy') as (ci & cj & Ei & Ej & _ & _ & Hiff).
  exists ci, cj. split; [exact Ei|split; [exact Ej|]]. rewrite Hiff. unfold item_iso. simpl.
  assert (Ny : NoDup (node_ids (project13 c (ri_graph y)))).
  { rewrite project13_ids. apply Hnd. eapply nth_error_In; eauto. }
  rewrite (graph_iso_spec true (cc_defs c) _ _ Ny). apply (project13_isomorphic c _ _ EL).
Qed.

(** the incremental clause end to end on the caller's graphs: a NEW raw item classified against the templates an earlier fit
    (any batch size, any in-range sampler choices) returned gets the class of exactly the earlier items its raw graph is
    isomorphic to; isomorphic to none of them, it gets a class number no earlier item has and becomes that class's representative *)
Theorem incremental_raw (c : ccfg) (mode : attr_mode) (data : list ritem) (bs : option nat) (picks : list nat) (y : ritem) :
  length (cc_defs c) = length (cc_names c) ->
  (forall x, In x (y :: data) -> NoDup (node_ids (ri_graph x))) ->
  (forall x x', In x (y :: data) -> In x' (y :: data) -> raw_isomorphic c (ri_graph x) (ri_graph x') ->
                gc_key mode (mk_item c x) = gc_key mode (mk_item c x')) ->
  match bs with None => True | Some b => 1 <= b end ->
  let iso := item_iso true (cc_defs c) in
  let items := map (mk_item c) data in
  Forall2 (fun k p => p < length (members items (map class_z (gc_fit iso mode items)) k))
          (first_keys [] (map class_z (gc_fit iso mode items))) picks ->
  let cs := fst (fit iso mode items [] bs picks) in
  let ts := snd (fit iso mode items [] bs picks) in
  let cl := fst (lib_check iso mode (mk_item c y) ts) in
  (forall i x, nth_error data i = Some x ->
     (nth_error cs i = Some cl <-> raw_isomorphic c (ri_graph x) (ri_graph y))) /\
  ((forall x, In x data -> ~ raw_isomorphic c (ri_graph x) (ri_graph y)) ->
   ~ In cl cs /\ snd (lib_check iso mode (mk_item c y) ts) = ts ++ [(mk_item c y, cl)]).
Proof.
  intros EL Hnd Hattr Hbs iso items Hp cs ts cl.
  set (D0 := fun x : item => NoDup (node_ids (it_graph x)) /\
                             forall u a, In (u, a) (gnodes (it_graph x)) -> length (cc_defs c) <= length a).
  set (D := fun x : item => D0 x /\ exists r, In r (y :: data) /\ x = mk_item c r).
  assert (DP : forall r, In r (y :: data) -> D (mk_item c r)).
  { intros r Hr. split; [split|].
    - simpl. rewrite project13_ids. now apply Hnd.
    - intros u a Hin. simpl in Hin. apply in_map_iff in Hin.
      destruct Hin as ([u' a'] & E & _). inversion E; subst. rewrite map_length, EL. apply le_n.
    - exists r. split; [exact Hr|reflexivity]. }
  assert (HD : Forall D items).
  { apply Forall_forall. intros x Hx. unfold items in Hx. apply in_map_iff in Hx. destruct Hx as (r & <- & Hr). apply DP. now right. }
  assert (Hrefl : forall x, D x -> iso x x = true).
  { intros x (Dx & _). exact (item_iso_refl true (cc_defs c) x Dx). }
  assert (Hsym : forall x x', D x -> D x' -> iso x x' = true -> iso x' x = true).
  { intros x x' (Dx & _) (Dx' & _). exact (item_iso_sym true (cc_defs c) x x' Dx Dx'). }
  assert (Htrans : forall x x' z, D x -> D x' -> D z -> iso x x' = true -> iso x' z = true -> iso x z = true).
  { intros x x' z (Dx & _) (Dx' & _) (Dz & _). exact (item_iso_trans true (cc_defs c) x x' z Dx Dx' Dz). }
  assert (Hraw : forall r r', In r (y :: data) -> In r' (y :: data) ->
                 (iso (mk_item c r) (mk_item c r') = true <-> raw_isomorphic c (ri_graph r) (ri_graph r'))).
  { intros r r' Hr Hr'. unfold iso, item_iso. simpl.
    assert (N' : NoDup (node_ids (project13 c (ri_graph r')))) by (rewrite project13_ids; now apply Hnd).
    rewrite (graph_iso_spec true (cc_defs c) _ _ N'). apply (project13_isomorphic c _ _ EL). }
  assert (Hinv : forall x x', D x -> D x' -> iso x x' = true -> gc_key mode x = gc_key mode x').
  { intros x x' (_ & r & Hr & ->) (_ & r' & Hr' & ->) Hi. apply Hattr; [exact Hr|exact Hr'|]. now apply Hraw. }
  destruct (fit_then_lib_check iso mode D Hrefl Hsym Htrans Hinv items bs picks (mk_item c y) HD Hbs Hp (DP y (or_introl eq_refl)))
    as (H1 & H2).
  fold cs ts in H1, H2. fold cl in H1, H2. split.
  - intros i x Hx. assert (Hx' : nth_error items i = Some (mk_item c x)) by (unfold items; now rewrite nth_error_map, Hx).
    rewrite (H1 i _ Hx'). apply Hraw; [right; eapply nth_error_In; eauto|now left].
  - intros Hnone. apply H2. intros x Hx. unfold items in Hx. apply in_map_iff in Hx. destruct Hx as (r & <- & Hr).
    destruct (iso (mk_item c r) (mk_item c y)) eqn:E; [|reflexivity].
    exfalso. apply (Hnone r Hr). apply Hraw; [now right|now left|exact E].
Qed.

Module Example_raw13.
(** keys: 0 element, 1 charge, 2 atom_map; C(+0, map 5) - O against O - C(map 9) relabelled, against C - N *)
Definition cfg : ccfg := {| cc_names := [0; 1]%N; cc_defs := [0; 9]%N; cc_edge := 0%N |}.
Definition r1 : ritem := MkRItem 0 [] (LG [(1, [(0, 1); (1, 9); (2, 5)]); (2, [(0, 2)])]%N [(1%N, 2%N, [(0%N, [2%Z])])]).
Definition r2 : ritem := MkRItem 1 [] (LG [(7, [(0, 2); (2, 9)]); (8, [(0, 1)])]%N [(7%N, 8%N, [(0%N, [2%Z]); (1%N, [0%Z])])]).
Definition r3 : ritem := MkRItem 2 [] (LG [(1, [(0, 1)]); (2, [(0, 3)])]%N [(1%N, 2%N, [(0%N, [2%Z])])]).
Example raw_classes : gc_fit (item_iso true (cc_defs cfg)) ANone (map (mk_item cfg) [r1; r2; r3]) = [Some 0; Some 0; Some 1].
Proof. vm_compute. reflexivity. Qed.
End Example_raw13.
