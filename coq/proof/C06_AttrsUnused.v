(** C06 — a selected name that no dictionary of the two graphs carries has no effect ([dict.get] gives
    None on both sides): selections "extended by names no node / edge has" answer like the plain ones. *)
From Coq Require Import List NArith Bool Arith Lia.
From SK Require Import lib.LGraph lib.Mono lib.Reach model.C06_Model model.C06_Attrs lib.C06_Spec lib.C06_SelSpec
  proof.C06_Attrs proof.C06_AttrsSpec.
Import ListNotations.

(** [extend] under comparators that agree on the labels it can see *)
Section ExtendLocal.
Variables (A B : Type) (hn : list N) (pl hl : N -> A) (pe he : N -> N -> option B).
Variables (nm0 nm1 : A -> A -> bool) (em0 em1 : B -> B -> bool) (ind : bool).
Hypothesis Hem : forall u v u' v' b b', pe u v = Some b -> he u' v' = Some b' -> em1 b' b = em0 b' b.

Lemma edge_ok_local p h ph : edge_ok pe he em1 ind p h ph = edge_ok pe he em0 ind p h ph.
Proof.
  unfold edge_ok. destruct (pe p (fst ph)) eqn:E1, (he h (snd ph)) eqn:E2; try reflexivity.
  exact (Hem _ _ _ _ _ _ E1 E2).
Qed.

Lemma extend_local ps : (forall h p, In h hn -> In p ps -> nm1 (hl h) (pl p) = nm0 (hl h) (pl p)) -> forall acc,
  extend hn pl hl pe he nm1 em1 ind ps acc = extend hn pl hl pe he nm0 em0 ind ps acc.
Proof.
  induction ps as [|p ps IH]; intros Hnm acc; simpl; [reflexivity|].
  assert (E : forall l, incl l hn ->
     flat_map (fun h => if ok pl hl pe he nm1 em1 ind p h acc then extend hn pl hl pe he nm1 em1 ind ps ((p, h) :: acc) else []) l =
     flat_map (fun h => if ok pl hl pe he nm0 em0 ind p h acc then extend hn pl hl pe he nm0 em0 ind ps ((p, h) :: acc) else []) l).
  { induction l as [|h l IHl]; intros Hincl; simpl; [reflexivity|].
    rewrite IHl by (intros x Hx; apply Hincl; right; exact Hx). f_equal.
    assert (Eok : ok pl hl pe he nm1 em1 ind p h acc = ok pl hl pe he nm0 em0 ind p h acc).
    { unfold ok. rewrite (Hnm h p) by (try (apply Hincl; left; reflexivity); left; reflexivity).
      f_equal. apply forallb_ext_l. intros ph. apply edge_ok_local. }
    rewrite Eok. destruct (ok pl hl pe he nm0 em0 ind p h acc); [|reflexivity].
    apply IH. intros h' q Hh' Hq. apply Hnm; [exact Hh'|right; exact Hq]. }
  apply E. apply incl_refl.
Qed.
End ExtendLocal.

(** no node dictionary / no edge dictionary of [g] has the name [k] (or has it with value None) *)
Definition node_name_unused (k : N) (g : rgraph) : Prop := forall u l, label g u = Some l -> aget k (fst l) = 0%N.
Definition edge_name_unused (k : N) (g : rgraph) : Prop := forall u v d, LGraph.adj g u v = Some d -> aget k d = 0%N.

Lemma rlab_unused k g u : node_name_unused k g -> aget k (fst (rlab g u)) = 0%N.
Proof. intros Hu. unfold rlab. destruct (label g u) as [l|] eqn:E; [exact (Hu u l E)|reflexivity]. Qed.

Section Unused.
Variables (k : N) (na ea : list N) (H P : rgraph).
Hypothesis HnH : node_name_unused k H.
Hypothesis HnP : node_name_unused k P.

Lemma node_match_unused h p : node_match_sel (k :: na) (rlab H h) (rlab P p) = node_match_sel na (rlab H h) (rlab P p).
Proof. unfold node_match_sel. cbn [forallb]. rewrite !rlab_unused by assumption. reflexivity. Qed.

Lemma monos_sel_unused_node hn pn : monos_sel (k :: na) ea H P hn pn = monos_sel na ea H P hn pn.
Proof.
  unfold monos_sel, monos. apply extend_local.
  - reflexivity.
  - intros h p _ _. apply node_match_unused.
Qed.

Lemma quick_pre_filter_sel_unused thr : quick_pre_filter_sel (k :: na) H P thr = quick_pre_filter_sel na H P thr.
Proof.
  unfold quick_pre_filter_sel. generalize 1%N. induction (node_ids P) as [|p ps IH]; intros est; cbn [qpf_loop_sel]; [reflexivity|].
  assert (E : forall l,
    filter (fun h => node_match_sel (k :: na) (rlab H h) (rlab P p) && (rdegree P p <=? rdegree H h)%N) l =
    filter (fun h => node_match_sel na (rlab H h) (rlab P p) && (rdegree P p <=? rdegree H h)%N) l).
  { induction l as [|h l IHl]; simpl; [reflexivity|]. rewrite IHl, node_match_unused. reflexivity. }
  rewrite E. destruct (lenN _ =? 0)%N; [reflexivity|].
  destruct (thr * 10000 <? _)%N; [reflexivity|]. apply IH.
Qed.

(** a node-attribute name that no node of either graph carries can be added to / dropped from the selection *)
Theorem sel_unused_node_name c :
  find_sel (monos_sel (k :: na) ea H P) c (k :: na) ea H P = find_sel (monos_sel na ea H P) c na ea H P.
Proof.
  unfold find_sel.
  rewrite (find_enum_ext (monos_sel (k :: na) ea H P) (monos_sel na ea H P) (project (k :: na) ea H) (project (k :: na) ea P))
    by (intros; apply monos_sel_unused_node).
  unfold find, find_bt, find_comp, find_all.
  rewrite <- !quick_pre_filter_sel_project, quick_pre_filter_sel_unused.
  rewrite !node_ids_project.
  rewrite (comps_project_sel (k :: na) ea na ea H), (comps_project_sel (k :: na) ea na ea P).
  reflexivity.
Qed.
End Unused.

Section UnusedEdge.
Variables (k : N) (na ea : list N) (H P : rgraph).
Hypothesis HeH : edge_name_unused k H.
Hypothesis HeP : edge_name_unused k P.

Lemma monos_sel_unused_edge hn pn : monos_sel na (k :: ea) H P hn pn = monos_sel na ea H P hn pn.
Proof.
  unfold monos_sel, monos. apply extend_local.
  - intros u v u' v' b b' E1 E2. unfold edge_match_sel. cbn [forallb].
    rewrite (HeP u v b E1), (HeH u' v' b' E2). reflexivity.
  - reflexivity.
Qed.

(** the same for an edge-attribute name that no edge of either graph carries *)
Theorem sel_unused_edge_name c :
  find_sel (monos_sel na (k :: ea) H P) c na (k :: ea) H P = find_sel (monos_sel na ea H P) c na ea H P.
Proof.
  unfold find_sel.
  rewrite (find_enum_ext (monos_sel na (k :: ea) H P) (monos_sel na ea H P) (project na (k :: ea) H) (project na (k :: ea) P))
    by (intros; apply monos_sel_unused_edge).
  unfold find, find_bt, find_comp, find_all.
  rewrite <- !quick_pre_filter_sel_project.
  rewrite !node_ids_project.
  rewrite (comps_project_sel na (k :: ea) na ea H), (comps_project_sel na (k :: ea) na ea P).
  reflexivity.
Qed.
End UnusedEdge.

(** non-vacuity: name 9 occurs nowhere in the graphs of proof/C06_AttrsEx.v *)
From SK Require Import proof.C06_AttrsEx.
Example ex_unused :
  find_sel (monos_sel [9; 1; 2]%N [9]%N Hr Pr) (Cfg 1 0 5000 false true) [9; 1; 2]%N [9]%N Hr Pr = [[(11, 3); (10, 2)]%N] /\
  node_name_unused 9 Hr /\ edge_name_unused 9 Pr /\ ~ node_name_unused 5 Hr.
Proof.
  split; [vm_compute; reflexivity|split; [|split]].
  - intros u l. unfold label. simpl.
    repeat (destruct (N.eqb u _); [intros E; inversion E; reflexivity|]). discriminate.
  - intros u v d. unfold LGraph.adj, Pr, gedges, find_edge.
    match goal with |- (if ?c then _ else _) = _ -> _ => destruct c end; [intros E; inversion E; reflexivity|discriminate].
  - intros Hn. specialize (Hn 3%N _ eq_refl). vm_compute in Hn. discriminate.
Qed.
