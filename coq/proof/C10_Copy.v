(** C10 — proofs, part 8: G.copy() keeps a well-formed graph well formed and keeps both lookups; neighbours. *)
From Coq Require Import String List NArith ZArith Bool Lia.
From SK Require Import lib.Tok lib.LGraph lib.StrJoin model.C10_Model proof.C10_Views proof.C10_Build.
Import ListNotations.
Local Open Scope Z_scope.

Lemma uniq_app (l1 l2 : list (N * N * eatt)) :
  uniq_pairs l1 = true -> uniq_pairs l2 = true ->
  (forall a b x, In (a, b, x) l1 -> find_edge a b l2 = None) -> uniq_pairs (l1 ++ l2) = true.
Proof.
  induction l1 as [|[[a b] x] r IH]; intros U1 U2 D; [exact U2|]. simpl in *.
  rewrite find_edge_app. destruct (find_edge a b r) eqn:F; [discriminate|].
  rewrite (D a b x) by (left; reflexivity). apply IH; auto. intros a' b' x' H. apply (D a' b' x'). right. exact H.
Qed.

Lemma find_inc_unseen_none seen n es u v : @find_edge eatt u v es = None -> find_edge u v (inc_unseen seen n es) = None.
Proof.
  intros F. destruct (find_edge u v (inc_unseen seen n es)) as [x|] eqn:E; [|reflexivity]. exfalso.
  apply find_some_in in E. destruct E as (a & b & Hin & P). apply in_inc_unseen in Hin. destruct Hin as [-> [H|H]].
  - apply (in_find_some es n b x u v H P). exact F.
  - apply (in_find_some es b n x u v H); [|exact F]. rewrite pair_eqb_sym, pair_eqb_swap, pair_eqb_sym. exact P.
Qed.

Lemma uniq_inc_unseen seen n es : uniq_pairs es = true -> uniq_pairs (inc_unseen seen n es) = true.
Proof.
  induction es as [|[[a b] x] r IH]; intros U; [reflexivity|]. simpl in U.
  destruct (find_edge a b r) eqn:F; [discriminate|]. specialize (IH U).
  change (inc_unseen seen n ((a, b, x) :: r)) with
    ((if N.eqb a n then (if mem b seen then [] else [(n, b, x)])
      else if N.eqb b n then (if mem a seen then [] else [(n, a, x)]) else []) ++ inc_unseen seen n r).
  destruct (N.eqb_spec a n) as [->|Ha].
  - destruct (mem b seen); [exact IH|]. simpl. rewrite (find_inc_unseen_none seen n r n b F). exact IH.
  - destruct (N.eqb_spec b n) as [->|Hb]; [|exact IH]. destruct (mem a seen); [exact IH|]. simpl.
    rewrite find_edge_sym in F. rewrite (find_inc_unseen_none seen n r n a F). exact IH.
Qed.

Lemma in_edges_from_ends rest : forall seen es a b (x : eatt),
  In (a, b, x) (edges_from seen rest es) -> In a rest /\ ~ In b seen.
Proof.
  induction rest as [|n r IH]; intros seen es a b x; simpl; [intros []|]. rewrite in_app_iff. intros [H|H].
  - unfold inc_unseen in H. apply in_flat_map in H. destruct H as ([[a0 b0] x0] & _ & H).
    destruct (N.eqb a0 n).
    + destruct (mem b0 seen) eqn:M; [destruct H|]. destruct H as [E|[]]. inversion E; subst.
      split; [left; reflexivity|]. intros Hin. apply mem_spec in Hin. congruence.
    + destruct (N.eqb b0 n); [|destruct H]. destruct (mem a0 seen) eqn:M; [destruct H|]. destruct H as [E|[]]. inversion E; subst.
      split; [left; reflexivity|]. intros Hin. apply mem_spec in Hin. congruence.
  - destruct (IH _ _ _ _ _ H) as [H1 H2]. split; [right; exact H1|]. intros Hin. apply H2. right. exact Hin.
Qed.

Lemma uniq_edges_from rest : forall seen es, uniq_pairs es = true -> NoDup rest -> uniq_pairs (edges_from seen rest es) = true.
Proof.
  induction rest as [|n r IH]; intros seen es U Hnd; [reflexivity|]. inversion Hnd as [|? ? Hnot Hnd']; subst. simpl.
  apply uniq_app; [apply uniq_inc_unseen; exact U|apply IH; assumption|].
  intros a b x Hin. apply in_inc_unseen in Hin. destruct Hin as [-> _].
  destruct (find_edge n b (edges_from (n :: seen) r es)) as [y|] eqn:F; [|reflexivity]. exfalso.
  apply find_some_in in F. destruct F as (a' & b' & Hin' & P). apply in_edges_from_ends in Hin'. destruct Hin' as [Ha' Hb'].
  apply pair_eqb_spec in P. destruct P as [[-> ->]|[-> ->]]; [contradiction|]. apply Hb'. left. reflexivity.
Qed.

Lemma gwf_copy (g : gr) : gwf g -> gwf (copy g).
Proof.
  intros W. split; [exact (gwf_nd g W)|apply uniq_edges_from; [exact (gwf_uq g W)|exact (gwf_nd g W)]|].
  intros a b x Hin. simpl in Hin. apply in_edges_from in Hin. unfold has_node, label. simpl.
  destruct Hin as [H|H]; destruct (gwf_cl g W _ _ _ H); auto.
Qed.
Lemma adj_copy (g : gr) u v : gwf g -> adj (copy g) u v = adj g u v.
Proof.
  intros W. unfold adj at 1. simpl. destruct (find_edge u v (edges_iter g)) as [x|] eqn:F.
  - apply find_some_in in F. destruct F as (a & b & Hin & P). apply (edges_iter_data g a b x W) in Hin.
    rewrite <- (adj_pair g _ _ _ _ P). auto.
  - pose proof (has_pair_edges_iter g u v W) as H. rewrite has_pair_find, F in H. simpl in H.
    destruct (adj g u v); [discriminate|reflexivity].
Qed.
Lemma label_copy (g : gr) n : label (copy g) n = label g n.
Proof. reflexivity. Qed.

(** ** neighbours of a node in a graph with one entry per pair *)
Lemma in_nbrs_adj (g : gr) h w : In w (nbrs g h) <-> adj g h w <> None.
Proof.
  rewrite in_nbrs. split.
  - intros (x & [H|H]).
    + apply (in_find_some _ h w x h w H). apply pair_eqb_refl.
    + apply (in_find_some _ w h x h w H). rewrite pair_eqb_swap. apply pair_eqb_refl.
  - intros H. destruct (adj g h w) as [x|] eqn:A; [|congruence]. apply find_some_in in A.
    destruct A as (a & b & Hin & P). exists x. apply pair_eqb_spec in P. destruct P as [[-> ->]|[-> ->]]; auto.
Qed.
Lemma NoDup_nbrs (g : gr) h : uniq_pairs (gedges g) = true -> NoDup (nbrs g h).
Proof.
  unfold nbrs. induction (gedges g) as [|[[a b] x] r IH]; intros U; [constructor|]. simpl in U.
  destruct (find_edge a b r) eqn:F; [discriminate|]. specialize (IH U). simpl flat_map.
  assert (forall w, pair_eqb a b h w = true ->
            ~ In w (flat_map (fun e : N * N * eatt => let '(a0, b0, _) := e in if N.eqb a0 h then [b0] else if N.eqb b0 h then [a0] else []) r)) as Hfresh.
  { intros w P Hin. apply in_flat_map in Hin. destruct Hin as ([[a0 b0] x0] & Hin & Hw).
    assert (pair_eqb a0 b0 h w = true) as P0.
    { apply pair_eqb_spec. destruct (N.eqb_spec a0 h) as [->|].
      - destruct Hw as [<-|[]]. left. auto.
      - destruct (N.eqb_spec b0 h) as [->|]; [|destruct Hw]. destruct Hw as [<-|[]]. right. auto. }
    apply (in_find_some r a0 b0 x0 a b Hin); [|exact F].
    rewrite (pair_eqb_trans _ _ _ _ a b P0). rewrite pair_eqb_sym. exact P. }
  destruct (N.eqb_spec a h) as [->|Ha].
  - simpl. constructor; [|exact IH]. apply Hfresh. apply pair_eqb_refl.
  - destruct (N.eqb_spec b h) as [->|Hb]; [|exact IH]. simpl. constructor; [|exact IH]. apply Hfresh.
    rewrite pair_eqb_swap. apply pair_eqb_refl.
Qed.
Lemma singleton_list {A} (l : list A) x : NoDup l -> (forall w, In w l <-> w = x) -> l = [x].
Proof.
  intros Hnd H. destruct l as [|y r]; [exfalso; apply (proj2 (H x) eq_refl)|].
  assert (y = x) as -> by (apply H; left; reflexivity). f_equal.
  destruct r as [|z r]; [reflexivity|]. exfalso. inversion Hnd as [|? ? Hnot _]; subst.
  assert (z = x) as -> by (apply H; right; left; reflexivity). apply Hnot. left. reflexivity.
Qed.
