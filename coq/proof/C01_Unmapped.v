(** C01 — "the string round trip returns a reaction with the SAME UNMAPPED reactants and products":
    graph level at full strength (no RDKit premise), string level relative to the written-out contracts *)
From Coq Require Import List NArith ZArith Bool Lia Arith String.
From SK Require Import lib.LGraph lib.C01_GraphLemmas model.C01_Model model.C02_Model model.C01_String model.C01_Rsmi
  proof.C01_UnmappedDefs proof.C01_Proof proof.C01_StringProof proof.C01_StringHyd proof.C01_StringHydExt proof.C01_StringPipe
  proof.C01_StringPipeH proof.C01_RsmiProof.
Import ListNotations.
Local Open Scope Z_scope.

(** * folding in two steps = folding at once *)
Lemma preserved_nil (g : mgraph) : preserved g [] = [].
Proof. unfold preserved. induction (gnodes g) as [|p r IH]; [reflexivity|]. cbn [filter memZ existsb]. rewrite andb_false_r. exact IH. Qed.

Lemma count_pres_nil (g : mgraph) n : count_pres g [] n = 0.
Proof. unfold count_pres. rewrite preserved_nil. reflexivity. Qed.

Section Twice.
Variable g : mgraph.
Variable p : list Z.
Hypothesis W : wf g.
Let g1 := implicit_hydrogen g p.

Lemma W1 : wf g1. Proof. apply ih_wf. exact W. Qed.

(** the atoms that remain keep being (non-)hydrogens *)
Lemma kept_isHn m : ih_removed g p m = false -> is_Hn g1 m = is_Hn g m.
Proof.
  intros R. unfold is_Hn at 1. unfold g1. rewrite ih_label, R. unfold is_Hn. destruct (label g m) as [b|]; [|reflexivity].
  cbn [option_map]. fold (is_H b). destruct (is_H b) eqn:Hb; [exact Hb|]. cbn [set_hc g_el]. exact Hb.
Qed.

Lemma heavy_not_removed m : is_Hn g m = false -> ih_removed g p m = false.
Proof. intros E. unfold ih_removed. rewrite E. reflexivity. Qed.

Lemma has_heavy_kept h : ih_removed g p h = false -> has_heavy g1 h = has_heavy g h.
Proof.
  intros R.
  destruct (has_heavy g1 h) eqn:E1, (has_heavy g h) eqn:E2; try reflexivity; exfalso.
  - apply has_heavy_spec in E1. destruct E1 as (m & Im & Hm). apply in_nbrs in Im. unfold g1 in Im. rewrite ih_adj in Im.
    destruct (negb (ih_removed g p h) && negb (ih_removed g p m)) eqn:K; [|congruence]. apply andb_true_iff in K. destruct K as [_ K].
    apply negb_true_iff in K. rewrite (kept_isHn m K) in Hm.
    assert (has_heavy g h = true) by (apply has_heavy_spec; exists m; split; [apply in_nbrs; exact Im|exact Hm]). congruence.
  - apply has_heavy_spec in E2. destruct E2 as (m & Im & Hm). pose proof (heavy_not_removed m Hm) as K.
    assert (has_heavy g1 h = true); [|congruence]. apply has_heavy_spec. exists m. split.
    + apply in_nbrs. unfold g1. rewrite ih_adj, R, K. cbn. apply in_nbrs. exact Im.
    + rewrite (kept_isHn m K). exact Hm.
Qed.

Theorem fold_twice : geq_sel (fold_all g1) (fold_all g).
Proof.
  unfold fold_all.
  destruct (implicit_hydrogen_spec g p W) as (L1 & A1 & T1).
  destruct (implicit_hydrogen_spec g1 [] W1) as (L2 & A2 & _).
  destruct (implicit_hydrogen_spec g [] W) as (L3 & A3 & _).
  fold g1 in L1, A1, T1.
  assert (forall n, ih_removed g1 [] n = is_Hn g1 n && has_heavy g1 n) as R2
    by (intros n; unfold ih_removed; rewrite preserved_nil; cbn; rewrite andb_true_r; reflexivity).
  assert (forall n, ih_removed g [] n = is_Hn g n && has_heavy g n) as R3
    by (intros n; unfold ih_removed; rewrite preserved_nil; cbn; rewrite andb_true_r; reflexivity).
  (* which atoms of g survive both ways *)
  assert (forall n, In n (node_ids g) ->
            (ih_removed g p n || ih_removed g1 [] n) = ih_removed g [] n) as RM.
  { intros n In_. rewrite R2, R3. destruct (ih_removed g p n) eqn:Rn.
    - unfold ih_removed in Rn. apply andb_true_iff in Rn. destruct Rn as [Rn Hh]. apply andb_true_iff in Rn. destruct Rn as [Hn _].
      rewrite Hn, Hh. reflexivity.
    - cbn [orb]. rewrite (kept_isHn n Rn), (has_heavy_kept n Rn). reflexivity. }
  split.
  - intros n. rewrite L2, L3, !preserved_nil. cbn [mem existsb orb].
    destruct (label g n) as [a|] eqn:La.
    + rewrite L1, La. destruct (is_H a) eqn:Ha.
      * (* a hydrogen *)
        assert (is_Hn g n = true) as Hn by (unfold is_Hn; rewrite La; exact Ha).
        destruct (mem n (preserved g p) || negb (has_heavy g n)) eqn:K.
        -- cbn [option_map]. rewrite Ha.
           assert (ih_removed g p n = false) as Rn.
           { unfold ih_removed. rewrite Hn. cbn [andb]. apply orb_true_iff in K. destruct K as [K|K]; [rewrite K; reflexivity|].
             apply negb_true_iff in K. rewrite K. apply andb_false_r. }
           rewrite (has_heavy_kept n Rn). destruct (has_heavy g n); reflexivity.
        -- apply orb_false_iff in K. destruct K as [_ K]. apply negb_false_iff in K. rewrite K. reflexivity.
      * (* another atom: the two increments add up *)
        destruct (T1 n a La Ha) as (a' & La' & Hc & E1 & E2 & E3 & E4 & E5). rewrite L1, La, Ha in La'. inversion La'; subst a'. clear La'.
        cbn [option_map sel4]. unfold is_H. cbn [set_hc g_el]. fold (is_H a). rewrite Ha. cbn [option_map sel4 set_hc g_el g_arom g_hc g_ch].
        rewrite !count_pres_nil, !Z.sub_0_r. cbn [set_hc g_hc] in Hc. rewrite Hc. reflexivity.
    + rewrite L1, La. reflexivity.
  - intros u v. rewrite A2, A1, A3.
    destruct (adj g u v) as [x|] eqn:Ad.
    + apply (wf_adj_iff W) in Ad. assert (In u (node_ids g) /\ In v (node_ids g)) as [Iu Iv]
        by (destruct Ad as [Ad|Ad]; apply (wf_edge_nodes W) in Ad; tauto).
      rewrite <- (RM u Iu), <- (RM v Iv).
      destruct (ih_removed g p u), (ih_removed g p v), (ih_removed g1 [] u), (ih_removed g1 [] v); reflexivity.
    + destruct (negb (ih_removed g1 [] u) && negb (ih_removed g1 [] v)), (negb (ih_removed g p u) && negb (ih_removed g p v)),
        (negb (ih_removed g [] u) && negb (ih_removed g [] v)); reflexivity.
Qed.
End Twice.

(** * graph level, full strength *)
Lemma smi_graph_wf (X : mgraph) hl : wf X -> wf (smi_graph X hl).
Proof. intros WX. destruct hl; [exact WX|apply ih_wf; exact WX]. Qed.
Lemma smi_graph_amap (X : mgraph) hl : wf X -> amap_id X -> amap_id (smi_graph X hl).
Proof. intros WX AX. destruct hl; [exact AX|apply ih_amap_id; assumption]. Qed.
Lemma smi_graph_geq5 (X Y : mgraph) hl : wf X -> wf Y -> geq5 X Y -> geq5 (smi_graph X hl) (smi_graph Y hl).
Proof. intros WX WY E. destruct hl; [exact E|apply implicit_hydrogen_geq5; assumption]. Qed.

Lemma unmapped_smi (X : mgraph) hl : wf X -> unmapped_eq (smi_graph X hl) X.
Proof.
  intros WX. unfold unmapped_eq. destruct hl as [|z l]; [cbn [smi_graph]; split; reflexivity|]. cbn [smi_graph]. apply fold_twice. exact WX.
Qed.

Lemma unmapped_geq5 (X Y : mgraph) : wf X -> wf Y -> geq5 X Y -> unmapped_eq X Y.
Proof. intros WX WY E. unfold unmapped_eq, fold_all. apply geq5_geq_sel. apply implicit_hydrogen_geq5; assumption. Qed.

Lemma unmapped_trans X Y Z : unmapped_eq X Y -> unmapped_eq Y Z -> unmapped_eq X Z.
Proof. unfold unmapped_eq. apply geq_sel_trans. Qed.

(** fragments: graphs with the same bonds and the same atoms have the same connected components *)
Lemma geq_sel_node_ids (g g' : mgraph) n : geq_sel g g' -> In n (node_ids g) -> In n (node_ids g').
Proof.
  intros [L _] I. apply node_label_some in I. destruct I as (a & La). specialize (L n). rewrite La in L.
  destruct (label g' n) eqn:Lb; [eapply label_some_node; eauto|discriminate].
Qed.
Lemma conn_geq_sel (g g' : mgraph) u v : geq_sel g g' -> conn g u v -> conn g' u v.
Proof.
  intros E C. induction C as [n I|u v w C IH A].
  - constructor. apply (geq_sel_node_ids g g' n E I).
  - apply (conn_step g' u v w IH). destruct E as [_ EA]. rewrite <- EA. exact A.
Qed.

(** C01_unmapped_graph: no RDKit premise *)
Theorem unmapped_graph (G H : mgraph) : wf G -> wf H -> same_nodes G H -> orders_pos G -> orders_pos H -> amap_id G -> amap_id H ->
  let I := its_construct G H in
  (geq_sel (fst (its_to_graphs I)) (smi_graph G (hlist I)) /\ geq_sel (snd (its_to_graphs I)) (smi_graph H (hlist I))) /\
  (unmapped_eq (fst (its_to_graphs I)) G /\ unmapped_eq (snd (its_to_graphs I)) H) /\
  (forall u v, (conn (fold_all (fst (its_to_graphs I))) u v <-> conn (fold_all G) u v) /\
               (conn (fold_all (snd (its_to_graphs I))) u v <-> conn (fold_all H) u v)).
Proof.
  intros WG WH S PG PH AG AH I.
  destruct (roundtrip G H WG WH S PG PH) as (Rg & Ag & Rh & Ah). fold I in Rg, Ag, Rh, Ah.
  assert (wf I) as WI by (apply its_wf; assumption).
  assert (wf (fst (its_decompose I)) /\ wf (snd (its_decompose I))) as [Wg Wh] by (split; apply dec_wf; exact WI).
  pose proof (geq_sel_amap_geq5 _ _ Rg Ag AG) as Qg. pose proof (geq_sel_amap_geq5 _ _ Rh Ah AH) as Qh.
  assert (geq5 (fst (its_to_graphs I)) (smi_graph G (hlist I)) /\ geq5 (snd (its_to_graphs I)) (smi_graph H (hlist I))) as [Q1 Q2]
    by (unfold its_to_graphs; cbn [fst snd]; split; apply smi_graph_geq5; assumption).
  assert (unmapped_eq (fst (its_to_graphs I)) G /\ unmapped_eq (snd (its_to_graphs I)) H) as [U1 U2].
  { split.
    - apply (unmapped_trans _ (smi_graph G (hlist I))); [|apply unmapped_smi; exact WG].
      apply unmapped_geq5; [unfold its_to_graphs; cbn [fst]; apply smi_graph_wf; exact Wg|apply smi_graph_wf; exact WG|exact Q1].
    - apply (unmapped_trans _ (smi_graph H (hlist I))); [|apply unmapped_smi; exact WH].
      apply unmapped_geq5; [unfold its_to_graphs; cbn [snd]; apply smi_graph_wf; exact Wh|apply smi_graph_wf; exact WH|exact Q2]. }
  split; [split; apply geq5_geq_sel; assumption|]. split; [split; assumption|].
  intros u v. split; split; apply conn_geq_sel; try assumption; apply geq_sel_sym; assumption.
Qed.

(** * the executable test is sound *)
Lemma lab4_eqb_eq x y : lab4_eqb x y = true -> x = y.
Proof.
  destruct x as [[[[e a] h] c]|], y as [[[[e' a'] h'] c']|]; cbn; try discriminate; [|reflexivity]. intros E.
  repeat (apply andb_true_iff in E; destruct E as [E ?]). apply N.eqb_eq in E. apply eqb_prop in H1. apply Z.eqb_eq in H0, H. subst. reflexivity.
Qed.
Lemma optZ_eqb_eq x y : optZ_eqb x y = true -> x = y.
Proof. destruct x, y; cbn; try discriminate; [|reflexivity]. intros E. apply Z.eqb_eq in E. subst. reflexivity. Qed.

Theorem geq_selb_sound (g g' : mgraph) : wf g -> wf g' -> geq_selb g g' = true -> geq_sel g g'.
Proof.
  intros W W' E. unfold geq_selb in E. apply andb_true_iff in E. destruct E as [E1 E2]. rewrite forallb_forall in E1, E2.
  assert (forall n, ~ In n (node_ids g ++ node_ids g') -> label g n = None /\ label g' n = None) as Out.
  { intros n Nn. split.
    - destruct (label g n) eqn:L; [|reflexivity]. exfalso. apply Nn. apply in_or_app. left. eapply label_some_node; eauto.
    - destruct (label g' n) eqn:L; [|reflexivity]. exfalso. apply Nn. apply in_or_app. right. eapply label_some_node; eauto. }
  split.
  - intros n. destruct (in_dec N.eq_dec n (node_ids g ++ node_ids g')) as [I|NI]; [apply lab4_eqb_eq; apply E1; exact I|].
    destruct (Out n NI) as [-> ->]. reflexivity.
  - intros u v.
    assert (forall (X : mgraph) a b, wf X -> ~ In a (node_ids X) \/ ~ In b (node_ids X) -> adj X a b = None) as NoAdj.
    { intros X a b WX Hn. destruct (adj X a b) as [x|] eqn:A; [|reflexivity]. exfalso. apply (wf_adj_iff WX) in A.
      destruct A as [A|A]; apply (wf_edge_nodes WX) in A; tauto. }
    destruct (in_dec N.eq_dec u (node_ids g ++ node_ids g')) as [Iu|Nu]; [destruct (in_dec N.eq_dec v (node_ids g ++ node_ids g')) as [Iv|Nv]|].
    + apply optZ_eqb_eq. specialize (E2 u Iu). rewrite forallb_forall in E2. apply E2. exact Iv.
    + rewrite (NoAdj g u v W), (NoAdj g' u v W'); [reflexivity| |]; right; intros F; apply Nv; apply in_or_app; [right|left]; exact F.
    + rewrite (NoAdj g u v W), (NoAdj g' u v W'); [reflexivity| |]; left; intros F; apply Nu; apply in_or_app; [right|left]; exact F.
Qed.

Theorem unmapped_eqb_sound (m m' : rmol) : rmol_ok m -> rmol_ok m' ->
  (forall u v o, In (u, v, o) (mapped_bonds m) -> u <> v) -> (forall u v o, In (u, v, o) (mapped_bonds m') -> u <> v) ->
  unmapped_eqb m m' = true -> unmapped_eq (graph_of m) (graph_of m').
Proof.
  intros O O' N N' E. unfold unmapped_eq. apply geq_selb_sound; [apply ih_wf; apply graph_of_wf; assumption|apply ih_wf; apply graph_of_wf; assumption|exact E].
Qed.

(** * string level, relative to the contracts on RDKit *)
Lemma graph_of_wf_geq (m : rmol) (X : mgraph) : rmol_ok m -> wf X -> geq_sel (graph_of m) X -> wf (graph_of m).
Proof.
  intros Om WX [GL GA]. apply graph_of_wf; [exact Om|]. intros u v o I Euv. subst v.
  assert (adj (graph_of m) u u = Some o) as A.
  { unfold adj, graph_of. cbn [gedges]. apply (find_edge_iff (simple_consistent (proj2 Om))). left. exact I. }
  rewrite GA in A. apply (wf_adj_iff WX) in A. destruct A as [A|A]; apply (wf_edge_nodes WX) in A; destruct A as (_ & _ & A); congruence.
Qed.

Section Str.
Variable rd_read : bool -> string -> option rmol.
Variable rd_write : bool -> wmol -> option string.
Variable ok : mgraph -> Prop.
(** [unm s]: the unmapped form of a side (RDKit: atom maps removed, RemoveHs, canonical SMILES of the fragments, sorted) *)
Variable U : Type.
Variable unm : string -> U.

(** contract CU: the unmapped form of a side RDKit reads is a function of the unmapped molecule graph *)
Definition CU : Prop :=
  forall s s' m m', rd_read true s = Some m -> rd_read true s' = Some m' -> rmol_ok m -> rmol_ok m' ->
    unmapped_eq (graph_of m') (graph_of m) -> unm s' = unm s.

Theorem unmapped_string :
  (forall w s, rd_write true w = Some s -> has_gt s = false) ->
  R2 string (rd_read true) (rd_write true) ok -> CU ->
  forall s r p mr mp, rsmi_parts s = Some (r, p) -> rd_read true r = Some mr -> rd_read true p = Some mp -> rmol_ok mr -> rmol_ok mp ->
  let G := graph_of mr in let H := graph_of mp in
  wf G -> wf H -> same_nodes G H -> orders_pos G -> orders_pos H ->
  forall J s', rsmi_to_its_str rd_read default_ropts s = Ok J -> its_to_rsmi_str rd_write true false false J = Ok s' ->
  exists r' p' mr' mp', rsmi_parts s' = Some (r', p') /\ rd_read true r' = Some mr' /\ rd_read true p' = Some mp' /\
    unmapped_eq (graph_of mr') G /\ unmapped_eq (graph_of mp') H /\ unm r' = unm r /\ unm p' = unm p.
Proof.
  intros W0 HR HU s r p mr mp Ps Rr Rp Okr Okp G H WG WH S PG PH J s' E1 E2. unfold CU in HU.
  destruct (rsmi_string_roundtrip rd_read rd_write ok W0 HR s r p mr mp Ps Rr Rp Okr Okp WG WH S PG PH J s' E1 E2)
    as (EJ & r' & p' & Ps' & mr' & mp' & Rr' & Rp' & Okr' & Okp' & Gr & Gp).
  assert (forall (m' : rmol) (X : mgraph), rmol_ok m' -> wf X -> amap_id X -> geq_sel (graph_of m') (smi_graph X (hlist J)) ->
            unmapped_eq (graph_of m') X) as K.
  { intros m' X Om WX AX Gq. pose proof (smi_graph_wf X (hlist J) WX) as WS.
    apply (unmapped_trans _ (smi_graph X (hlist J))); [|apply unmapped_smi; exact WX].
    apply unmapped_geq5; [apply (graph_of_wf_geq m' _ Om WS Gq)|exact WS|].
    apply geq_sel_amap_geq5; [exact Gq|apply graph_of_amap_id; exact Om|apply smi_graph_amap; assumption]. }
  pose proof (K mr' G Okr' WG (graph_of_amap_id mr Okr) Gr) as Ur. pose proof (K mp' H Okp' WH (graph_of_amap_id mp Okp) Gp) as Up.
  exists r', p', mr', mp'. split; [exact Ps'|]. split; [exact Rr'|]. split; [exact Rp'|]. split; [exact Ur|]. split; [exact Up|]. split.
  - apply (HU r r' mr mr' Rr Rr' Okr Okr' Ur).
  - apply (HU p p' mp mp' Rp Rp' Okp Okp' Up).
Qed.

(** the same with the writer option its_to_rsmi(explicit_hydrogen=True) (nothing is folded by SynKit; RemoveHs folds for the
    unmapped form), relative to R1, W0 and CU *)
Theorem unmapped_string_explicit :
  (forall w s, rd_write true w = Some s -> has_gt s = false) ->
  R1 string (rd_read true) (rd_write true) -> CU ->
  forall s r p mr mp, rsmi_parts s = Some (r, p) -> rd_read true r = Some mr -> rd_read true p = Some mp -> rmol_ok mr -> rmol_ok mp ->
  let G := graph_of mr in let H := graph_of mp in
  wf G -> wf H -> same_nodes G H -> orders_pos G -> orders_pos H ->
  forall J s', rsmi_to_its_str rd_read default_ropts s = Ok J -> its_to_rsmi_str rd_write true true false J = Ok s' ->
  exists r' p' mr' mp', rsmi_parts s' = Some (r', p') /\ rd_read true r' = Some mr' /\ rd_read true p' = Some mp' /\
    unmapped_eq (graph_of mr') G /\ unmapped_eq (graph_of mp') H /\ unm r' = unm r /\ unm p' = unm p.
Proof.
  intros W0 HR HU s r p mr mp Ps Rr Rp Okr Okp G H WG WH S PG PH J s' E1 E2. unfold CU in HU.
  destruct (rsmi_string_roundtrip_explicit rd_read rd_write W0 HR s r p mr mp Ps Rr Rp Okr Okp WG WH S PG PH J s' E1 E2)
    as (EJ & r' & p' & Ps' & mr' & mp' & Rr' & Rp' & Okr' & Okp' & Gr & Gp).
  assert (forall (m' : rmol) (X : mgraph), rmol_ok m' -> wf X -> amap_id X -> geq_sel (graph_of m') X -> unmapped_eq (graph_of m') X) as K.
  { intros m' X Om WX AX Gq. apply unmapped_geq5; [apply (graph_of_wf_geq m' _ Om WX Gq)|exact WX|].
    apply geq_sel_amap_geq5; [exact Gq|apply graph_of_amap_id; exact Om|exact AX]. }
  pose proof (K mr' G Okr' WG (graph_of_amap_id mr Okr) Gr) as Ur. pose proof (K mp' H Okp' WH (graph_of_amap_id mp Okp) Gp) as Up.
  exists r', p', mr', mp'. split; [exact Ps'|]. split; [exact Rr'|]. split; [exact Rp'|]. split; [exact Ur|]. split; [exact Up|]. split.
  - apply (HU r r' mr mr' Rr Rr' Okr Okr' Ur).
  - apply (HU p p' mp mp' Rp Rp' Okp Okp' Up).
Qed.
End Str.

(** * non-vacuity: the reader / writer over Coq strings of C01_rsmi_string_nonvacuous, with [unm] = the string itself *)
Lemma ex_not_unmapped_eq : ~ unmapped_eq (graph_of ex_mr) (graph_of ex_mp) /\ ~ unmapped_eq (graph_of ex_mp) (graph_of ex_mr).
Proof.
  split; intros [L _]; specialize (L 3%N); vm_compute in L; discriminate.
Qed.

Example C01_unmapped_nonvacuous :
  CU ex_sread string (fun s => s) /\
  (exists J, rsmi_to_its_str ex_sread default_ropts "R>>P" = Ok J /\ its_to_rsmi_str ex_swrite true false false J = Ok "R>>P"%string) /\
  unmapped_eq (graph_of ex_mr) (graph_of ex_mr) /\
  fold_all (graph_of C01_RenumWrite.ex_hp) <> graph_of C01_RenumWrite.ex_hp /\
  unmapped_eq (smi_graph (graph_of C01_RenumWrite.ex_hp) [3; 4]) (graph_of C01_RenumWrite.ex_hp).
Proof.
  split; [|split; [|split; [|split]]].
  - intros s s' m m' Rs Rs' _ _ Uq. unfold ex_sread, rd_of, ex_dec in Rs, Rs'.
    destruct (String.eqb_spec s "R") as [->|N1]; [|destruct (String.eqb_spec s "P") as [->|N2]; [|discriminate]];
      (destruct (String.eqb_spec s' "R") as [->|N1']; [|destruct (String.eqb_spec s' "P") as [->|N2']; [|discriminate]]);
      try reflexivity; exfalso; cbn in Rs, Rs'; inversion Rs; inversion Rs'; subst m m'; destruct ex_not_unmapped_eq as [A B]; auto.
  - eexists. split; [reflexivity|vm_compute; reflexivity].
  - split; reflexivity.
  - intros E. vm_compute in E. discriminate.
  - apply unmapped_smi. apply graph_of_wf; [split; cbn; repeat constructor; cbn; intuition discriminate|].
    intros u v o I; cbn in I; repeat (destruct I as [E|I]; [inversion E; discriminate|]); destruct I.
Qed.
