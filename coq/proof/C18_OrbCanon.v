(** C18 — orbits reported by the canonicaliser: every reported class consists of mutually exchangeable nodes and every
    node is reported (sound half), and with proof/C18_OrbComplete.v the full clause (canon_orbits). *)
From Coq Require Import List NArith ZArith Bool Arith Lia Permutation.
From SK Require Import lib.IRSortKeys lib.IRCore lib.IRSearch model.C18_Model
  proof.C18_Order proof.C18_Spec proof.C18_Graph proof.C18_Canon proof.C18_Label proof.C18_Aut proof.C18_Invariant
  proof.C18_Count proof.C18_Vf2 proof.C18_Orbits proof.C18_OrbSound proof.C18_OrbComplete.
Import ListNotations.

(** the best permutation is the first of the minimal leaves *)
Lemma fold_visit_head {L} (leb : L -> L -> bool) (label : list N -> L) l : forall a,
  (forall bl bp, fst a = Some (bl, bp) -> hd_error (snd a) = Some bp) ->
  forall bl bp, fst (fold_left (visit leb label) l a) = Some (bl, bp) -> hd_error (snd (fold_left (visit leb label) l a)) = Some bp.
Proof.
  induction l as [|p l IH]; intros a Ha; simpl; auto. apply IH.
  intros bl bp. unfold visit. destruct (fst a) as [[b q]|] eqn:Ea.
  - destruct (ltb leb (label p) b); simpl; [intros E; inversion E; auto|].
    pose proof (Ha b q eq_refl) as Hh.
    destruct (eqb leb (label p) b); simpl; rewrite ?Ea; intros E; inversion E as [[E1 E2]]; rewrite <- E2.
    + destruct (snd a); simpl in *; [discriminate|auto].
    + exact Hh.
  - simpl. intros E; inversion E; auto.
Qed.

Lemma min_leaves_head g lab p : fst (canon_search g) = Some (lab, p) -> exists rest, min_leaves g = p :: rest.
Proof.
  intros Hb. unfold min_leaves. rewrite canon_search_fold in *.
  assert (H' : hd_error (snd (fold_left (visit lexlebN (label g)) (leaves_of g) (None, []))) = Some p).
  { apply (fold_visit_head lexlebN (label g) (leaves_of g) (None, [])) with (bl := lab); auto. simpl. intros; discriminate. }
  destruct (snd (fold_left (visit lexlebN (label g)) (leaves_of g) (None, []))) as [|x r]; simpl in H'; [discriminate|].
  inversion H'; subst. eauto.
Qed.

Theorem canon_orbits_sound g lab p : wf g -> kinds_ok g -> arcs_ok g -> fst (canon_search g) = Some (lab, p) ->
  (forall c, In c (orbits_from_perms (min_leaves g)) -> forall x y, In x c -> In y c -> exists s, is_aut g s /\ s x = y) /\
  (forall v, In v (node_ids g) -> exists c, In c (orbits_from_perms (min_leaves g)) /\ In v c).
Proof.
  intros Hw Hk Ha Hb.
  destruct (aut_count g lab p Hw Hk Ha Hb) as (_ & Miff & _).
  destruct (min_leaves_head g lab p Hb) as (rest & Eml).
  destruct (best_is_leaf g lab p Hb) as [_ Hleaf].
  destruct (leaves_of_keys g p Hw Hleaf) as (pre & r & Ep & Hr & _ & Ipre).
  assert (Ip : forall v, In v p -> In v (node_ids g)).
  { intros v Hv. rewrite Ep in Hv. apply in_app_or in Hv. destruct Hv; [apply Ipre; auto|apply (Permutation_in _ Hr); auto]. }
  assert (Inp : forall v, In v (node_ids g) -> In v p).
  { intros v Hv. rewrite Ep. apply in_or_app. right. apply (Permutation_in _ (Permutation_sym Hr)); auto. }
  set (R := fun x y => In x (node_ids g) /\ In y (node_ids g) /\ exists s, is_aut g s /\ s x = y).
  rewrite Eml.
  destruct (orbits_from_perms_sound p rest R) as [S1 S2].
  - intros x y (Hx & Hy & s & Hs & <-). split; auto. split; auto.
    destruct (aut_inv g s Hw Hs) as (t & Ht & Hl). exists t. split; auto.
  - intros x y z (Hx & Hy & s & Hs & <-) (_ & Hz & t & Ht & <-). split; auto. split; auto.
    exists (fun v => t (s v)). split; [apply aut_comp; auto|reflexivity].
  - intros x Hx. split; [apply Ip; auto|]. split; [apply Ip; auto|]. exists (fun v => v). split; [apply aut_id|reflexivity].
  - intros q Hq. assert (Hq' : In q (min_leaves g)) by (rewrite Eml; right; auto).
    apply Miff in Hq'. destruct Hq' as (s & Hs & ->). split; [apply map_length|].
    intros i Hi. rewrite (nth_indep _ 0%N (s 0%N)) by (rewrite map_length; auto). rewrite map_nth.
    assert (Hn : In (nth i p 0%N) (node_ids g)) by (apply Ip; apply nth_In; auto).
    split; [apply Inp; apply Hs; auto|]. split; auto. split; [apply Hs; auto|eauto].
  - split.
    + intros c Hc x y Hx Hy. destruct (S1 c Hc x y Hx Hy) as (_ & _ & H). exact H.
    + intros v Hv. apply S2. apply Inp. auto.
Qed.

(** clause 4, orbits of the canonicaliser, in full *)
Theorem canon_orbits g lab p : wf g -> kinds_ok g -> arcs_ok g -> fst (canon_search g) = Some (lab, p) ->
  forall u v, In u (node_ids g) ->
    ((exists c, In c (orbits_from_perms (min_leaves g)) /\ In u c /\ In v c) <-> (exists s, is_aut g s /\ s u = v)).
Proof.
  intros Hw Hk Ha Hb u v Hu.
  destruct (canon_orbits_sound g lab p Hw Hk Ha Hb) as [Snd Cov].
  split; [intros (c & Hc & Huc & Hvc); apply (Snd c Hc u v Huc Hvc)|].
  intros (s & Hs & <-).
  destruct (aut_count g lab p Hw Hk Ha Hb) as (_ & Miff & _).
  destruct (min_leaves_head g lab p Hb) as (rest & Eml).
  destruct (best_is_leaf g lab p Hb) as [_ Hleaf].
  destruct (leaves_of_keys g p Hw Hleaf) as (pre & r & Ep & Hr & _ & Ipre).
  assert (Ip : forall x, In x p -> In x (node_ids g)).
  { intros x Hx. rewrite Ep in Hx. apply in_app_or in Hx. destruct Hx; [apply Ipre; auto|apply (Permutation_in _ Hr); auto]. }
  assert (Inp : forall x, In x (node_ids g) -> In x p).
  { intros x Hx. rewrite Ep. apply in_or_app. right. apply (Permutation_in _ (Permutation_sym Hr)); auto. }
  destruct (Cov u Hu) as (c & Hc & Huc). exists c. split; auto. split; auto.
  set (R := fun x y => In x (node_ids g) /\ In y (node_ids g) /\ exists t, is_aut g t /\ t x = y).
  pose proof Hc as Hc'. rewrite Eml in Hc'.
  destruct (orbits_from_perms_complete p rest R) with (c := c) as (a & Hal & Hhome & Hall); auto.
  - intros x y (Hx & Hy & t & Ht & <-). split; auto. split; auto.
    destruct (aut_inv g t Hw Ht) as (t' & Ht' & Hl). exists t'. split; auto.
  - intros x y z (Hx & Hy & t & Ht & <-) (_ & Hz & t' & Ht' & <-). split; auto. split; auto.
    exists (fun w => t' (t w)). split; [apply aut_comp; auto|reflexivity].
  - intros x Hx. split; [apply Ip; auto|]. split; [apply Ip; auto|]. exists (fun w => w). split; [apply aut_id|reflexivity].
  - intros q Hq. assert (Hq' : In q (min_leaves g)) by (rewrite Eml; right; auto).
    apply Miff in Hq'. destruct Hq' as (t & Ht & ->). split; [apply map_length|].
    intros i Hi. rewrite (nth_indep _ 0%N (t 0%N)) by (rewrite map_length; auto). rewrite map_nth.
    assert (Hn : In (nth i p 0%N) (node_ids g)) by (apply Ip; apply nth_In; auto).
    split; [apply Inp; apply Ht; auto|]. split; auto. split; [apply Ht; auto|eauto].
  - (* u = w (home), so s u = (s o w) home is the value at the home position of the leaf of s o w *)
    destruct (Snd c Hc _ _ Hhome Huc) as (w & Hw' & Ew).
    set (t := fun x => s (w x)).
    assert (Ht : is_aut g t) by (unfold t; apply (aut_comp g w s); auto).
    assert (Hq : In (map t p) (min_leaves g)) by (apply Miff; exists t; split; [exact Ht|reflexivity]).
    assert (En : nth a (map t p) 0%N = s u).
    { rewrite (nth_indep _ 0%N (t 0%N)) by (rewrite map_length; auto). rewrite map_nth. unfold t. rewrite Ew. reflexivity. }
    rewrite Eml in Hq. destruct Hq as [Eq|Hq].
    + rewrite <- En, <- Eq. exact Hhome.
    + rewrite <- En. apply Hall. exact Hq.
Qed.

Lemma canon_orbits_cover g lab p : wf g -> kinds_ok g -> arcs_ok g -> fst (canon_search g) = Some (lab, p) ->
  forall v, In v (node_ids g) -> exists c, In c (orbits_from_perms (min_leaves g)) /\ In v c.
Proof. intros Hw Hk Ha Hb. exact (proj2 (canon_orbits_sound g lab p Hw Hk Ha Hb)). Qed.
