(** C05 — part 11: COMPONENT and BACKTRACK under re-ordering.  The component-aware result set is characterised by the
    C06 specification (monomorphisms that separate pattern components, or all, or none, depending on the NUMBERS of
    components); the number of components, connectivity and the monomorphism property only depend on the graphs as
    functions, hence the raw match SETS of all three strategies are invariant under any re-ordering, and with part
    10 so are the sets of glued ITS graphs. Stdlib lists. *)
From Coq Require Import List NArith ZArith Bool Arith Lia Permutation Relations.
From SK Require Import lib.Tok lib.LGraph lib.Mono.
From SK Require model.C06_Model model.C11_Model.
From SK Require Import lib.C06_Spec proof.C06_All proof.C06_Comp proof.C06_Comps proof.C06_CompSem proof.C06_Main.
From SK Require proof.C11_Dedup proof.C03_Proof.
From SK Require Import model.C03_Model model.C05_Model proof.C05_Proof proof.C05_Glue proof.C05_Pipe proof.C05_Order
  proof.C05_Main proof.C05_Sub proof.C05_Set proof.C05_Result.
Import ListNotations.
Local Open Scope nat_scope.

Section WithThr.
Context {TH : Thr}.


(** counting through a relation that is total and injective *)
Lemma len_le_rel {X Y} (R : X -> Y -> Prop) (l : list X) : forall (l' : list Y), NoDup l ->
  (forall x, In x l -> exists y, In y l' /\ R x y) ->
  (forall x1 x2 y, In x1 l -> In x2 l -> R x1 y -> R x2 y -> x1 = x2) ->
  length l <= length l'.
Proof.
  induction l as [|x l IH]; intros l' Hnd Htot Hinj; simpl; [lia|].
  inversion Hnd as [|? ? Hx Hl]; subst.
  destruct (Htot x (or_introl eq_refl)) as (y & Iy & Rxy).
  destruct (in_split y l' Iy) as (l1 & l2 & ->).
  rewrite app_length. simpl. rewrite Nat.add_succ_r, <- app_length. apply le_n_S. apply IH.
  - exact Hl.
  - intros x2 I2. destruct (Htot x2 (or_intror I2)) as (y2 & Iy2 & R2). exists y2. split; [|exact R2].
    apply in_app_or in Iy2. apply in_or_app. destruct Iy2 as [I|[E|I]]; [left; exact I | | right; exact I].
    subst y2. exfalso. apply Hx. rewrite (Hinj x x2 y (or_introl eq_refl) (or_intror I2) Rxy R2). exact I2.
  - intros x1 x2 y' I1 I2. apply Hinj; right; assumption.
Qed.

Section SameConn.
  Variables g g' : C06_Model.graph.
  Hypothesis Hw : gwf g.
  Hypothesis Hw' : gwf g'.
  Hypothesis Hadj : forall u v, LGraph.adj g' u v = LGraph.adj g u v.
  Hypothesis Hids : forall u, In u (node_ids g) <-> In u (node_ids g').

  Lemma gconn_same x y : gconn g x y -> gconn g' x y.
  Proof.
    induction 1 as [x y H | x | x y z _ IH1 _ IH2].
    - apply rt_step. unfold adjacent in *. rewrite Hadj. exact H.
    - apply rt_refl.
    - eapply rt_trans; eassumption.
  Qed.
End SameConn.

Lemma comps_len_le (g g' : C06_Model.graph) : gwf g -> gwf g' ->
  (forall u v, LGraph.adj g' u v = LGraph.adj g u v) -> (forall u, In u (node_ids g) <-> In u (node_ids g')) ->
  length (C06_Model.comps g) <= length (C06_Model.comps g').
Proof.
  intros Hw Hw' Hadj Hids.
  apply (len_le_rel (fun c c' : list N => In c' (C06_Model.comps g') /\ exists x, In x c /\ In x c')).
  - apply comps_NoDup. exact Hw.
  - intros c Ic. destruct (comps_class g Hw c Ic) as (Hne & _ & Hincl & _).
    destruct c as [|x c]; [congruence|].
    destruct (comps_cover g' Hw' x) as (c' & Ic' & Ix'); [apply Hids; apply Hincl; left; reflexivity|].
    exists c'. split; [exact Ic'|]. split; [exact Ic'|]. exists x. split; [left; reflexivity | exact Ix'].
  - intros c1 c2 c' I1 I2 (Ic' & x1 & X1 & X1') (_ & x2 & X2 & X2').
    destruct (comps_class g Hw c1 I1) as (_ & _ & _ & Hcl1).
    destruct (comps_class g' Hw' c' Ic') as (_ & _ & _ & Hcl').
    assert (Hc' : gconn g' x1 x2) by (apply (Hcl' x1 x2 X1'); exact X2').
    assert (Hc : gconn g x1 x2).
    { apply (gconn_same g' g); [intros; symmetry; apply Hadj | exact Hc']. }
    assert (X2in1 : In x2 c1) by (apply (Hcl1 x1 x2 X1); exact Hc).
    exact (comps_disjoint_val g Hw c1 c2 x2 I1 I2 X2in1 X2).
Qed.

Lemma comps_len_same (g g' : C06_Model.graph) : gwf g -> gwf g' ->
  (forall u v, LGraph.adj g' u v = LGraph.adj g u v) -> (forall u, In u (node_ids g) <-> In u (node_ids g')) ->
  length (C06_Model.comps g) = length (C06_Model.comps g').
Proof.
  intros Hw Hw' Hadj Hids. apply Nat.le_antisymm.
  - apply comps_len_le; assumption.
  - apply comps_len_le; [assumption | assumption | intros; symmetry; apply Hadj | intros; symmetry; apply Hids].
Qed.

(** ** the component-aware result set under re-ordering *)
Section CompOrder.
  Variables (host host' : hostg) (pat pat' : molg).
  Hypothesis HS : same_graph host host'.
  Hypothesis PS : same_graph pat pat'.
  Let H := host_c06 host.
  Let P := pat_c06 pat.
  Let H' := host_c06 host'.
  Let P' := pat_c06 pat'.
  Hypothesis Hw : gwf H.
  Hypothesis Pw : gwf P.
  Hypothesis Hw' : gwf H'.
  Hypothesis Pw' : gwf P'.

  Lemma H_adj u v : LGraph.adj H' u v = LGraph.adj H u v.
  Proof. unfold H, H'. rewrite !adj_host_c06. destruct HS as (_ & E & _). rewrite E. reflexivity. Qed.
  Lemma P_adj u v : LGraph.adj P' u v = LGraph.adj P u v.
  Proof. unfold P, P'. rewrite !adj_pat_c06. destruct PS as (_ & E & _). rewrite E. reflexivity. Qed.
  Lemma H_ids u : In u (node_ids H) <-> In u (node_ids H').
  Proof. unfold H, H'. rewrite !node_ids_host_c06. destruct HS as (_ & _ & E & _). apply E. Qed.
  Lemma P_ids u : In u (node_ids P) <-> In u (node_ids P').
  Proof. unfold P, P'. rewrite !node_ids_pat_c06. destruct PS as (_ & _ & E & _). apply E. Qed.

  Lemma H_comps : length (C06_Model.comps H') = length (C06_Model.comps H).
  Proof. symmetry. apply comps_len_same; [exact Hw | exact Hw' | exact H_adj | exact H_ids]. Qed.
  Lemma P_comps : length (C06_Model.comps P') = length (C06_Model.comps P).
  Proof. symmetry. apply comps_len_same; [exact Pw | exact Pw' | exact P_adj | exact P_ids]. Qed.

  Lemma separating_same m : separating H P m -> separating H' P' m.
  Proof.
    intros Hsep p h p' h' I I' Hc.
    apply (gconn_same P P' P_adj). apply (Hsep p h p' h' I I').
    apply (gconn_same H' H); [intros; symmetry; apply H_adj | exact Hc].
  Qed.

  Lemma comp_unl_any_order m :
    In m (comp_unl (C06_Model.monos_on H P) true H P) ->
    exists m', In m' (comp_unl (C06_Model.monos_on H' P') true H' P') /\ Permutation m m'.
  Proof.
    pose proof (comp_unl_spec (C06_Model.monos_on H P) H P Hw Pw (monos_on_oracle_ok H P Hw Pw) true) as S.
    pose proof (comp_unl_spec (C06_Model.monos_on H' P') H' P' Hw' Pw' (monos_on_oracle_ok H' P' Hw' Pw') true) as S'.
    cbv zeta in S, S'. rewrite H_comps, P_comps in S'.
    intros Hin.
    destruct ((0 <? length (C06_Model.comps P)) && (length (C06_Model.comps P) <? length (C06_Model.comps H)) && true)%bool.
    - rewrite S in Hin. destruct Hin.
    - destruct (length (C06_Model.comps H) <? length (C06_Model.comps P)).
      + apply (proj2 S'). apply (is_mono_same host host' pat pat' m HS PS). apply (proj1 S). exact Hin.
      + destruct (proj1 S m Hin) as [Hm Hsep].
        apply (proj2 S'); [apply (is_mono_same host host' pat pat' m HS PS); exact Hm | apply separating_same; exact Hsep].
  Qed.

  Lemma comp_unl_sound m : In m (comp_unl (C06_Model.monos_on H P) true H P) -> is_mono H P m.
  Proof.
    pose proof (comp_unl_spec (C06_Model.monos_on H P) H P Hw Pw (monos_on_oracle_ok H P Hw Pw) true) as S. cbv zeta in S.
    intros Hin.
    destruct ((0 <? length (C06_Model.comps P)) && (length (C06_Model.comps P) <? length (C06_Model.comps H)) && true)%bool.
    - rewrite S in Hin. destruct Hin.
    - destruct (length (C06_Model.comps H) <? length (C06_Model.comps P)).
      + apply (proj1 S). exact Hin.
      + exact (proj1 (proj1 S m Hin)).
  Qed.
End CompOrder.

(** what is asked of one writing for the component-aware / fallback strategies: [side_ok] and the component-aware
    search below the threshold *)
Definition side_ok_c (host : hostg) (p : prepared) : Prop :=
  side_ok host p /\
  (comp_bound (C06_Model.monos_on (host_c06 host) (pat_c06 (p_pat p))) true (host_c06 host) (pat_c06 (p_pat p)) <= thr_val)%N.

Lemma matches_comp_unl host pat :
  (comp_bound (C06_Model.monos_on (host_c06 host) (pat_c06 pat)) true (host_c06 host) (pat_c06 pat) <= thr_val)%N ->
  matches 1%N host pat = comp_unl (C06_Model.monos_on (host_c06 host) (pat_c06 pat)) true (host_c06 host) (pat_c06 pat).
Proof.
  intros Hb. rewrite matches_monos_on. change (cfg_of 1%N) with (C06_Model.Cfg 1 0 thr_val true false).
  apply find_comp_unlimited. exact Hb.
Qed.

Lemma matches_bt_unl host pat :
  (comp_bound (C06_Model.monos_on (host_c06 host) (pat_c06 pat)) true (host_c06 host) (pat_c06 pat) <= thr_val)%N ->
  (C06_Model.lenN (C06_Model.monos_on (host_c06 host) (pat_c06 pat) (node_ids (host_c06 host)) (node_ids (pat_c06 pat))) <= thr_val)%N ->
  matches 2%N host pat = bt_unl_result (C06_Model.monos_on (host_c06 host) (pat_c06 pat)) true (host_c06 host) (pat_c06 pat).
Proof.
  intros Hb Hl. rewrite matches_monos_on. change (cfg_of 2%N) with (C06_Model.Cfg 2 0 thr_val true false).
  apply find_bt_unlimited; assumption.
Qed.

Lemma matches_all_unl host pat :
  (C06_Model.lenN (C06_Model.monos_on (host_c06 host) (pat_c06 pat) (node_ids (host_c06 host)) (node_ids (pat_c06 pat))) <= thr_val)%N ->
  matches 0%N host pat = C06_Model.monos_on (host_c06 host) (pat_c06 pat) (node_ids (host_c06 host)) (node_ids (pat_c06 pat)).
Proof.
  intros Hl. rewrite matches_monos_on. change (cfg_of 0%N) with (C06_Model.Cfg 0 0 thr_val true false).
  apply find_all_unlimited. exact Hl.
Qed.

(** the three strategies (codes 0, 1, 2) *)
Definition is_strat (s : N) : Prop := s = 0%N \/ s = 1%N \/ s = 2%N.

(** every raw match of every strategy is a monomorphism *)
Lemma raw_is_mono_any strat host p k : is_strat strat -> side_ok_c host p ->
  In k (raw_of strat host p) -> is_mono (host_c06 host) (pat_c06 (p_pat p)) k.
Proof.
  intros Hst [S Hb] Hin. destruct Hst as [-> | [-> | ->]].
  - apply raw_is_mono; assumption.
  - unfold raw_of in Hin. rewrite (matches_comp_unl _ _ Hb) in Hin.
    exact (comp_unl_sound host (p_pat p) (so_host _ _ S) (so_pat _ _ S) k Hin).
  - unfold raw_of in Hin. rewrite (matches_bt_unl _ _ Hb (so_count _ _ S)) in Hin. unfold bt_unl_result in Hin.
    destruct (comp_unl (C06_Model.monos_on (host_c06 host) (pat_c06 (p_pat p))) true (host_c06 host) (pat_c06 (p_pat p))) as [|c r] eqn:E.
    + apply (raw_is_mono host p k S). unfold raw_of. rewrite (matches_all_unl _ _ (so_count _ _ S)). exact Hin.
    + apply (comp_unl_sound host (p_pat p) (so_host _ _ S) (so_pat _ _ S) k). rewrite E. exact Hin.
Qed.

(** the raw match SET of every strategy is the same for two writings *)
Lemma matches_any_order strat (host host' : hostg) (p p' : prepared) : is_strat strat ->
  side_ok_c host p -> side_ok_c host' p' -> same_graph host host' -> same_graph (p_pat p) (p_pat p') ->
  forall k, In k (raw_of strat host p) -> exists k2, In k2 (raw_of strat host' p') /\ Permutation k k2.
Proof.
  intros Hst [S Hb] [S' Hb'] Hh Hp k Hin.
  assert (Hall : forall m, In m (raw_of 0%N host p) -> exists m', In m' (raw_of 0%N host' p') /\ Permutation m m').
  { intros m Hm. exact (matches_all_any_order host host' (p_pat p) (p_pat p') Hh Hp (so_host _ _ S) (so_pat _ _ S)
                          (so_host _ _ S') (so_pat _ _ S') (so_count _ _ S) (so_count _ _ S') m Hm). }
  assert (Hcomp : forall m, In m (comp_unl (C06_Model.monos_on (host_c06 host) (pat_c06 (p_pat p))) true (host_c06 host) (pat_c06 (p_pat p))) ->
                  exists m', In m' (comp_unl (C06_Model.monos_on (host_c06 host') (pat_c06 (p_pat p'))) true (host_c06 host') (pat_c06 (p_pat p'))) /\ Permutation m m').
  { intros m Hm. exact (comp_unl_any_order host host' (p_pat p) (p_pat p') Hh Hp (so_host _ _ S) (so_pat _ _ S) (so_host _ _ S') (so_pat _ _ S') m Hm). }
  assert (Hcomp' : forall m, In m (comp_unl (C06_Model.monos_on (host_c06 host') (pat_c06 (p_pat p'))) true (host_c06 host') (pat_c06 (p_pat p'))) ->
                  exists m', In m' (comp_unl (C06_Model.monos_on (host_c06 host) (pat_c06 (p_pat p))) true (host_c06 host) (pat_c06 (p_pat p))) /\ Permutation m m').
  { intros m Hm. exact (comp_unl_any_order host' host (p_pat p') (p_pat p) (same_graph_sym _ _ Hh) (same_graph_sym _ _ Hp)
                          (so_host _ _ S') (so_pat _ _ S') (so_host _ _ S) (so_pat _ _ S) m Hm). }
  destruct Hst as [-> | [-> | ->]].
  - apply Hall. exact Hin.
  - unfold raw_of in *. rewrite (matches_comp_unl _ _ Hb) in Hin. rewrite (matches_comp_unl _ _ Hb'). apply Hcomp. exact Hin.
  - unfold raw_of in *. rewrite (matches_bt_unl _ _ Hb (so_count _ _ S)) in Hin. rewrite (matches_bt_unl _ _ Hb' (so_count _ _ S')).
    unfold bt_unl_result in *.
    destruct (comp_unl (C06_Model.monos_on (host_c06 host) (pat_c06 (p_pat p))) true (host_c06 host) (pat_c06 (p_pat p))) as [|c r] eqn:E.
    + destruct (comp_unl (C06_Model.monos_on (host_c06 host') (pat_c06 (p_pat p'))) true (host_c06 host') (pat_c06 (p_pat p'))) as [|c' r'] eqn:E'.
      * rewrite <- (matches_all_unl _ _ (so_count _ _ S')). apply Hall. unfold raw_of. rewrite (matches_all_unl _ _ (so_count _ _ S)). exact Hin.
      * exfalso. destruct (Hcomp' c' (or_introl eq_refl)) as (m' & [] & _).
    + destruct (Hcomp k Hin) as (k2 & Hk2 & Pk).
      destruct (comp_unl (C06_Model.monos_on (host_c06 host') (pat_c06 (p_pat p'))) true (host_c06 host') (pat_c06 (p_pat p'))) as [|c' r'] eqn:E'; [destruct Hk2|].
      exists k2. split; assumption.
Qed.

Lemma glued_in_s strat host p T : p_flag p = false -> In T (glued_of strat host p) ->
  exists k, In k (kept_of strat host p) /\ glue host (p_rc p) k = Some T.
Proof.
  intros Hflag H. unfold glued_of in H. apply in_flat_map in H. destruct H as (k & Hk & HT).
  exists k. split; [exact Hk|]. unfold glue_all, glue_base in HT. rewrite Hflag in HT. simpl in HT.
  destruct (glue host (p_rc p) k) as [T0|]; simpl in HT; [destruct HT as [<-|[]]; reflexivity | destruct HT].
Qed.

Lemma in_glued_s strat host p k T : p_flag p = false -> In k (kept_of strat host p) -> glue host (p_rc p) k = Some T ->
  In T (glued_of strat host p).
Proof.
  intros Hflag Hk HT. unfold glued_of. apply in_flat_map. exists k. split; [exact Hk|].
  unfold glue_all, glue_base. rewrite Hflag. simpl. rewrite HT. left. reflexivity.
Qed.

(** the set of glued ITS graphs of EVERY strategy does not depend on the insertion orders *)
Theorem glued_set_invariant_any strat (host host' : hostg) (p p' : prepared) : is_strat strat ->
  side_ok_c host p -> side_ok_c host' p' ->
  same_graph host host' -> same_graph (p_rc p) (p_rc p') -> same_graph (p_pat p) (p_pat p') ->
  forall T, In T (glued_of strat host p) -> exists T', In T' (glued_of strat host' p') /\ obs_eq T T'.
Proof.
  intros Hst SC SC' Hh Hr Hp T HT.
  pose proof (proj1 SC) as S. pose proof (proj1 SC') as S'.
  destruct (glued_in_s strat host p T (so_flag _ _ S) HT) as (k & Hk & Hg).
  assert (Hraw : In k (raw_of strat host p)) by (exact (C11_Dedup.subseq_in _ _ _ (prune_subseq _ _) Hk)).
  destruct (mono_facts host p k S (raw_is_mono_any strat host p k Hst SC Hraw)) as (Kf & Kv & Kok).
  destruct (matches_any_order strat host host' p p' Hst SC SC' Hh Hp k Hraw) as (k2 & Hraw2 & Pk).
  destruct (mono_facts host' p' k2 S' (raw_is_mono_any strat host' p' k2 Hst SC' Hraw2)) as (K2f & K2v & K2ok).
  destruct (obs_transfer _ _ T
              (glue_obs host host' (p_rc p) (p_rc p') k k2 (same_graph_obs _ _ Hh) (same_graph_obs _ _ Hr)
                 (so_rc_simple _ _ S) (so_rc_simple _ _ S') Kf Kv K2f K2v (perm_items _ _ Pk) Kok) Hg) as (T2 & Hg2 & O2).
  destruct (prune_complete (p_rc p') (raw_of strat host' p') k2 Hraw2) as (k' & Hk' & Hcase).
  assert (Hraw' : In k' (raw_of strat host' p')) by (exact (C11_Dedup.subseq_in _ _ _ (prune_subseq _ _) Hk')).
  destruct (mono_facts host' p' k' S' (raw_is_mono_any strat host' p' k' Hst SC' Hraw')) as (K'f & K'v & K'ok).
  assert (Hfin : exists T', glue host' (p_rc p') k' = Some T' /\ obs_eq T2 T').
  { destruct Hcase as [E | [E | (s & Hs & E)]].
    - subst k'. exists T2. split; [exact Hg2 | apply obs_eq_refl].
    - pose proof (proj1 (C11_Dedup.set_eqb_spec k2 k') E) as E2.
      exact (obs_transfer _ _ T2
               (glue_obs host' host' (p_rc p') (p_rc p') k2 k' (obs_eq_refl _) (obs_eq_refl _)
                  (so_rc_simple _ _ S') (so_rc_simple _ _ S') K2f K2v K'f K'v E2 K2ok) Hg2).
    - pose proof (proj1 (C11_Dedup.set_eqb_spec k2 (C11_Model.act s k')) E) as E2.
      destruct (obs_transfer _ _ T2
                  (glue_obs host' host' (p_rc p') (p_rc p') k2 (C11_Model.act s k') (obs_eq_refl _) (obs_eq_refl _)
                     (so_rc_simple _ _ S') (so_rc_simple _ _ S') K2f K2v
                     (act_nodup_fst _ s k' (so_rc_nodup _ _ S') (so_rc_simple _ _ S') (so_rc_closed _ _ S') Hs K'f)
                     (eq_ind_r (fun l => NoDup l) K'v (act_snd s k')) E2 K2ok) Hg2) as (T3 & Hg3 & O3).
      pose proof (glue_aut (p_rc p') s (so_rc_nodup _ _ S') (so_rc_simple _ _ S') (so_rc_closed _ _ S') Hs host' k' K'f K'v K'ok) as Ha.
      rewrite Hg3 in Ha. destruct (glue host' (p_rc p') k') as [T'|]; [|destruct Ha].
      exists T'. split; [reflexivity|]. eapply obs_eq_trans; [exact O3 | apply obs_eq_sym; exact Ha]. }
  destruct Hfin as (T' & Hg' & O').
  exists T'. split; [exact (in_glued_s strat host' p' k' T' (so_flag _ _ S') Hk' Hg') | eapply obs_eq_trans; eassumption].
Qed.

(** with renumbering: the whole clause at graph level, every strategy *)
Theorem glued_set_rewriting_any strat (sg pi : N -> N) (Hs : inj sg) (Hp : inj pi)
        (host host'' : hostg) (p p'' : prepared) : is_strat strat ->
  side_ok_c (relabel pi host) (relabel_prep sg p) -> side_ok_c host'' p'' ->
  same_graph (relabel pi host) host'' -> same_graph (relabel sg (p_rc p)) (p_rc p'') ->
  same_graph (relabel sg (p_pat p)) (p_pat p'') ->
  (forall T, In T (glued_of strat host p) -> exists T'', In T'' (glued_of strat host'' p'') /\ obs_eq (relabel pi T) T'') /\
  (forall T'', In T'' (glued_of strat host'' p'') -> exists T, In T (glued_of strat host p) /\ obs_eq (relabel pi T) T'').
Proof.
  intros Hst S S'' Hh Hr Hpt.
  assert (Hflag : p_flag p = false) by exact (so_flag _ _ (proj1 S)).
  pose proof (glued_relabel strat sg pi Hs Hp host p Hflag) as Hlit.
  split.
  - intros T HT.
    apply (glued_set_invariant_any strat (relabel pi host) host'' (relabel_prep sg p) p'' Hst S S'' Hh Hr Hpt).
    rewrite Hlit. apply in_map. exact HT.
  - intros T'' HT''.
    destruct (glued_set_invariant_any strat host'' (relabel pi host) p'' (relabel_prep sg p) Hst S'' S
                (same_graph_sym _ _ Hh) (same_graph_sym _ _ Hr) (same_graph_sym _ _ Hpt) T'' HT'') as (T1 & HT1 & O).
    rewrite Hlit in HT1. apply in_map_iff in HT1. destruct HT1 as (T & <- & HT).
    exists T. split; [exact HT | apply obs_eq_sym; exact O].
Qed.

(** ** the bound evaluated by the run function is the bound of the C06 specification *)
Lemma c_comp_bound_eq enum strict H P : c_comp_bound enum strict H P = comp_bound enum strict H P.
Proof. reflexivity. Qed.

Lemma comp_bound_ext (enum enum' : list N -> list N -> list C06_Model.mapping) strict H P :
  (forall hn pn, enum hn pn = enum' hn pn) -> comp_bound enum strict H P = comp_bound enum' strict H P.
Proof.
  intros E.
  assert (Ep : forall pc, percc_of enum H pc = percc_of enum' H pc).
  { intros pc. unfold percc_of, percc. apply flat_map_ext. intros ih. rewrite E. reflexivity. }
  unfold comp_bound, comp_unl. rewrite E. f_equal.
  - f_equal. destruct (length (C06_Model.comps P) =? 0); [reflexivity|].
    destruct (length (C06_Model.comps H) <? length (C06_Model.comps P)); [reflexivity|].
    destruct ((length (C06_Model.comps P) <? length (C06_Model.comps H)) && strict)%bool; [reflexivity|].
    f_equal. f_equal. apply map_ext. exact Ep.
  - apply map_ext. intros pc. rewrite Ep. reflexivity.
Qed.

Lemma side_okb_c_ok host p : side_okb_c host p = true -> side_ok_c host p.
Proof.
  unfold side_okb_c. intros H. apply andb_prop in H. destruct H as [H1 H2]. split; [apply side_okb_ok; exact H1|].
  apply N.leb_le in H2. rewrite c_comp_bound_eq in H2.
  rewrite <- (comp_bound_ext (monos_on' (host_c06 host) (pat_c06 (p_pat p))) (C06_Model.monos_on (host_c06 host) (pat_c06 (p_pat p)))
                true _ _ (fun hn pn => monos_on'_eq _ _ hn pn)).
  exact H2.
Qed.

Lemma vocabulary_c :
  (forall f, inj f <-> forall a b : N, f a = f b -> a = b) /\
  (forall sg pi (m : mapping), mv sg pi m = map (fun ph => (sg (fst ph), pi (snd ph))) m) /\
  (forall (g g' : hostg), same_graph g g' <->
     (forall u, label g' u = label g u) /\ (forall u v, LGraph.adj g' u v = LGraph.adj g u v) /\
     (forall u, In u (node_ids g) <-> In u (node_ids g')) /\ NoDup (node_ids g) /\ NoDup (node_ids g')) /\
  (forall (T T' : its), obs_eq T T' <->
     (forall n, label T' n = label T n) /\ (forall a b, LGraph.adj T' a b = LGraph.adj T a b)) /\
  (forall host p, side_okb host p = true ->
     p_flag p = false /\ gwf (host_c06 host) /\ gwf (pat_c06 (p_pat p)) /\
     (C06_Model.lenN (C06_Model.monos_on (host_c06 host) (pat_c06 (p_pat p))
                        (node_ids (host_c06 host)) (node_ids (pat_c06 (p_pat p)))) <= thr_val)%N /\
     NoDup (node_ids (p_rc p)) /\ simple_edgesb (gedges (p_rc p)) = true /\
     (forall a b x, In (a, b, x) (gedges (p_rc p)) -> In a (node_ids (p_rc p)) /\ In b (node_ids (p_rc p))) /\
     (forall u, In u (node_ids (p_pat p)) -> In u (node_ids (p_rc p)))) /\
  (forall host p, side_okb_c host p = true ->
     side_okb host p = true /\
     (comp_bound (C06_Model.monos_on (host_c06 host) (pat_c06 (p_pat p))) true (host_c06 host) (pat_c06 (p_pat p)) <= thr_val)%N).
Proof.
  destruct vocabulary as (V1 & V2 & V3 & V4 & V5).
  split; [exact V1|]. split; [exact V2|]. split; [exact V3|]. split; [exact V4|]. split; [exact V5|].
  intros host p H. split.
  - unfold side_okb_c in H. apply andb_prop in H. exact (proj1 H).
  - exact (proj2 (side_okb_c_ok host p H)).
Qed.

(** ** strategies at the level of RESULTS: every glued graph of the component-aware (and of the fallback) strategy is,
    up to [obs_eq], a glued graph of the exhaustive strategy *)

(** a raw match whose glue is defined is represented, up to [obs_eq], among the glued graphs of its strategy *)
Lemma kept_covers strat host p k2 T2 : is_strat strat -> side_ok_c host p ->
  In k2 (raw_of strat host p) -> glue host (p_rc p) k2 = Some T2 ->
  exists T', In T' (glued_of strat host p) /\ obs_eq T2 T'.
Proof.
  intros Hst SC Hraw2 Hg2. pose proof (proj1 SC) as S.
  destruct (mono_facts host p k2 S (raw_is_mono_any strat host p k2 Hst SC Hraw2)) as (K2f & K2v & K2ok).
  destruct (prune_complete (p_rc p) (raw_of strat host p) k2 Hraw2) as (k' & Hk' & Hcase).
  assert (Hraw' : In k' (raw_of strat host p)) by (exact (C11_Dedup.subseq_in _ _ _ (prune_subseq _ _) Hk')).
  destruct (mono_facts host p k' S (raw_is_mono_any strat host p k' Hst SC Hraw')) as (K'f & K'v & K'ok).
  assert (Hfin : exists T', glue host (p_rc p) k' = Some T' /\ obs_eq T2 T').
  { destruct Hcase as [E | [E | (s & Hs & E)]].
    - subst k'. exists T2. split; [exact Hg2 | apply obs_eq_refl].
    - pose proof (proj1 (C11_Dedup.set_eqb_spec k2 k') E) as E2.
      exact (obs_transfer _ _ T2
               (glue_obs host host (p_rc p) (p_rc p) k2 k' (obs_eq_refl _) (obs_eq_refl _)
                  (so_rc_simple _ _ S) (so_rc_simple _ _ S) K2f K2v K'f K'v E2 K2ok) Hg2).
    - pose proof (proj1 (C11_Dedup.set_eqb_spec k2 (C11_Model.act s k')) E) as E2.
      destruct (obs_transfer _ _ T2
                  (glue_obs host host (p_rc p) (p_rc p) k2 (C11_Model.act s k') (obs_eq_refl _) (obs_eq_refl _)
                     (so_rc_simple _ _ S) (so_rc_simple _ _ S) K2f K2v
                     (act_nodup_fst _ s k' (so_rc_nodup _ _ S) (so_rc_simple _ _ S) (so_rc_closed _ _ S) Hs K'f)
                     (eq_ind_r (fun l => NoDup l) K'v (act_snd s k')) E2 K2ok) Hg2) as (T3 & Hg3 & O3).
      pose proof (glue_aut (p_rc p) s (so_rc_nodup _ _ S) (so_rc_simple _ _ S) (so_rc_closed _ _ S) Hs host k' K'f K'v K'ok) as Ha.
      rewrite Hg3 in Ha. destruct (glue host (p_rc p) k') as [T'|]; [|destruct Ha].
      exists T'. split; [reflexivity|]. eapply obs_eq_trans; [exact O3 | apply obs_eq_sym; exact Ha]. }
  destruct Hfin as (T' & Hg' & O').
  exists T'. split; [exact (in_glued_s strat host p k' T' (so_flag _ _ S) Hk' Hg') | exact O'].
Qed.

(** raw matches of the fallback strategy are component-aware or exhaustive raw matches *)
Lemma raw_bt_cases host p : side_ok_c host p -> forall k, In k (raw_of 2%N host p) -> In k (raw_of 1%N host p) \/ In k (raw_of 0%N host p).
Proof.
  intros [S Hb] k Hin. unfold raw_of in *.
  rewrite (matches_bt_unl _ _ Hb (so_count _ _ S)) in Hin. rewrite (matches_comp_unl _ _ Hb), (matches_all_unl _ _ (so_count _ _ S)).
  unfold bt_unl_result in Hin.
  destruct (comp_unl (C06_Model.monos_on (host_c06 host) (pat_c06 (p_pat p))) true (host_c06 host) (pat_c06 (p_pat p))); [right | left]; exact Hin.
Qed.

Theorem glued_comp_subset_all (host : hostg) (p : prepared) : side_ok_c host p ->
  (forall T, In T (glued_of 1%N host p) -> exists T', In T' (glued_of 0%N host p) /\ obs_eq T T') /\
  (forall T, In T (glued_of 2%N host p) -> exists T', In T' (glued_of 0%N host p) /\ obs_eq T T').
Proof.
  intros SC. pose proof (proj1 SC) as S.
  assert (Hgen : forall strat, is_strat strat ->
            (forall k, In k (raw_of strat host p) -> exists k2, In k2 (raw_of 0%N host p) /\ Permutation k k2) ->
            forall T, In T (glued_of strat host p) -> exists T', In T' (glued_of 0%N host p) /\ obs_eq T T').
  { intros strat Hst Hsub T HT.
    destruct (glued_in_s strat host p T (so_flag _ _ S) HT) as (k & Hk & Hg).
    assert (Hraw : In k (raw_of strat host p)) by (exact (C11_Dedup.subseq_in _ _ _ (prune_subseq _ _) Hk)).
    destruct (mono_facts host p k S (raw_is_mono_any strat host p k Hst SC Hraw)) as (Kf & Kv & Kok).
    destruct (Hsub k Hraw) as (k2 & Hraw2 & Pk).
    destruct (mono_facts host p k2 S (raw_is_mono_any 0%N host p k2 (or_introl eq_refl) SC Hraw2)) as (K2f & K2v & K2ok).
    destruct (obs_transfer _ _ T
                (glue_obs host host (p_rc p) (p_rc p) k k2 (obs_eq_refl _) (obs_eq_refl _)
                   (so_rc_simple _ _ S) (so_rc_simple _ _ S) Kf Kv K2f K2v (perm_items _ _ Pk) Kok) Hg) as (T2 & Hg2 & O2).
    destruct (kept_covers 0%N host p k2 T2 (or_introl eq_refl) SC Hraw2 Hg2) as (T' & HT' & O').
    exists T'. split; [exact HT' | eapply obs_eq_trans; eassumption]. }
  assert (Hcomp : forall k, In k (raw_of 1%N host p) -> exists k2, In k2 (raw_of 0%N host p) /\ Permutation k k2).
  { intros k Hin. exact (comp_subset_all host (p_pat p) (so_host _ _ S) (so_pat _ _ S) (proj2 SC) (so_count _ _ S) k Hin). }
  split.
  - apply (Hgen 1%N (or_intror (or_introl eq_refl)) Hcomp).
  - apply (Hgen 2%N (or_intror (or_intror eq_refl))).
    intros k Hin. destruct (raw_bt_cases host p SC k Hin) as [H1|H0]; [apply Hcomp; exact H1 | exists k; split; [exact H0 | apply Permutation_refl]].
Qed.

End WithThr.
