(** C12 -- what [last_size] is in ALL-SIZES mode (round 5; compared since round 1, proved now): [best_size] is overwritten on the
    way down, so after the loop it is the SMALLEST level that has a common induced mapping -- the size of the smallest returned
    mapping, not of the largest (the docstring of the property [last_size] says "size of the largest mapping").  The property
    text does not speak about [last_size]; the model follows the code. *)
From Coq Require Import List NArith ZArith Bool Arith Lia Permutation.
From SK Require Import lib.LGraph lib.Mono model.C12_Model proof.C12_Search.
Import ListNotations.
Local Open Scope nat_scope.

Section LastSize.
Variable nm : option nattr -> option nattr -> bool.
Variable em : eattr -> eattr -> bool.
Variables pattern host : graph.
Hypothesis pat_nodup : NoDup (node_ids pattern).
Hypothesis host_nodup : NoDup (node_ids host).
Notation CI := (common_induced nm em pattern host).
Notation LEVEL := (level nm em pattern host).

Lemma level_len k m : In m (LEVEL k) -> length m = k.
Proof. intros H. exact (proj2 (level_sound nm em pattern host pat_nodup k m H)). Qed.

(** with every stored mapping larger than the levels still to come, a level finds something new iff it is non-empty *)
Lemma add_new_found_iff acc k : (forall m, In m acc -> k < length m) ->
  snd (add_new acc (LEVEL k)) = true <-> LEVEL k <> [].
Proof.
  intros Hacc. destruct (add_new acc (LEVEL k)) as [a f] eqn:E. destruct (add_new_spec _ _ _ _ E) as (_ & H). simpl. rewrite H. split.
  - intros (m & I & _) F. rewrite F in I. destruct I.
  - intros Hne. destruct (LEVEL k) as [|m r] eqn:El; [now elim Hne|]. exists m. split; [now left|].
    intros I. pose proof (Hacc m I). assert (length m = k) by (apply level_len; rewrite El; now left). lia.
Qed.

Lemma search_loop_all_best k : forall acc best tried acc' best' tried',
  (forall m, In m acc -> k < length m) ->
  search_loop nm em false pattern host k acc best tried = (acc', best', tried') ->
  ((forall j, 1 <= j <= k -> LEVEL j = []) /\ best' = best) \/
  (exists b, 1 <= b <= k /\ LEVEL b <> [] /\ (forall j, 1 <= j < b -> LEVEL j = []) /\ best' = b).
Proof.
  induction k as [|k' IH]; intros acc best tried acc' best' tried' Hacc E.
  - simpl in E. inversion E; subst. left. split; [intros j Hj; lia|reflexivity].
  - cbn [search_loop andb] in E.
    pose proof (add_new_found_iff acc (S k') Hacc) as Hf.
    destruct (add_new acc (LEVEL (S k'))) as [acc1 found] eqn:Ea. simpl in Hf.
    destruct (add_new_spec _ _ _ _ Ea) as (H1 & _).
    assert (Hacc1 : forall m, In m acc1 -> k' < length m).
    { intros m Hm. apply H1 in Hm. destruct Hm as [Hm|Hm]; [pose proof (Hacc m Hm); lia|rewrite (level_len _ _ Hm); lia]. }
    destruct found.
    + assert (Hne : LEVEL (S k') <> []) by now apply Hf.
      destruct (IH _ _ _ _ _ _ Hacc1 E) as [(Hall & Hb)|(b & Hb & Hn & Hall & Eb)].
      * right. exists (S k'). split; [lia|]. split; [exact Hne|]. split; [intros j Hj; apply Hall; lia|exact Hb].
      * right. exists b. split; [lia|]. split; [exact Hn|]. split; [exact Hall|exact Eb].
    + assert (Hl : LEVEL (S k') = []).
      { destruct (LEVEL (S k')) eqn:El; [reflexivity|]. assert (false = true) by (apply Hf; discriminate). discriminate. }
      destruct (IH _ _ _ _ _ _ Hacc1 E) as [(Hall & Hb)|(b & Hb & Hn & Hall & Eb)].
      * left. split; [|exact Hb]. intros j Hj. destruct (Nat.eq_dec j (S k')) as [->|Hne]; [exact Hl|apply Hall; lia].
      * right. exists b. split; [lia|]. split; [exact Hn|]. split; [exact Hall|exact Eb].
Qed.

(** all-sizes mode: last_size = 0 with an empty result, else the size of the SMALLEST returned mapping (and some returned
    mapping has exactly that size) *)
Theorem last_size_all_sizes maps last tried :
  search_subgraphs nm em pattern host false = (maps, last, tried) ->
  (maps = [] /\ last = 0) \/
  (1 <= last /\ (exists m, In m maps /\ length m = last) /\ forall m, In m maps -> last <= length m).
Proof.
  intros Es. pose proof (search_all_spec nm em pattern host pat_nodup maps last tried Es) as (S1 & S2).
  unfold search_subgraphs in Es. set (max_k := Nat.min (n_nodes pattern) (n_nodes host)) in Es.
  destruct (search_loop nm em false pattern host max_k [] 0 0) as [[acc best] tr] eqn:E.
  cbn [andb] in Es.
  destruct (search_loop_all_best max_k [] 0 0 acc best tr (fun m F => match F with end) E) as [(Hall & Hb)|(b & Hb & Hn & Hall & Eb)].
  - (* no level has a mapping *)
    left. assert (Hm : maps = []).
    { apply nil_iff_no_elt. intros m Hm. destruct (S1 m Hm) as (C & L).
      destruct (level_complete nm em pattern host pat_nodup m C) as (m' & I & _).
      pose proof (ci_length nm em pattern host m C) as Hle. fold max_k in Hle.
      rewrite (Hall (length m)) in I by lia. destruct I. }
    split; [exact Hm|]. subst best. simpl in Es. inversion Es; subst. rewrite H0 in *. reflexivity.
  - right. subst best. assert (Hlast : last = b).
    { destruct b; [lia|]. simpl in Es. inversion Es; reflexivity. }
    subst last. split; [lia|]. split.
    + destruct (LEVEL b) as [|m r] eqn:El; [now elim Hn|].
      assert (Im : In m (LEVEL b)) by (rewrite El; now left).
      destruct (level_sound nm em pattern host pat_nodup b m Im) as (C & L).
      destruct (S2 m C ltac:(lia)) as (m' & I' & P). exists m'. split; [exact I'|]. rewrite <- (Permutation_length P). exact L.
    + intros m Hm. destruct (S1 m Hm) as (C & L).
      destruct (le_lt_dec b (length m)) as [G|G]; [exact G|].
      destruct (level_complete nm em pattern host pat_nodup m C) as (m' & I & _).
      rewrite (Hall (length m)) in I by lia. destruct I.
Qed.

End LastSize.

Module Example_last_size.
Definition at_ (e : N) : nattr := (Some e, [Some e]).
(** C-C=O against O=C, all sizes: one mapping of size 2, three of size 1; last_size is 1, the largest mapping has size 2 *)
Definition gA : graph := LG [(1, at_ 1); (2, at_ 1); (3, at_ 2)]%N [(1, 2, [Some 2%Z]); (2, 3, [Some 4%Z])]%N.
Definition gB : graph := LG [(7, at_ 2); (8, at_ 1)]%N [(7, 8, [Some 4%Z])]%N.
Example last_size_is_the_smallest_level :
  let r := find_common_subgraph [0%N] false 0%N gA gB false in
  r_last r = 1 /\ map (@length _) (r_maps r) = [2; 1; 1; 1].
Proof. vm_compute. split; reflexivity. Qed.
End Example_last_size.
