(** C09 — back-end wl is NOT numbering independent under the property's hypothesis "all reactant atoms distinguishable" (audit
    finding, round 5): 1-bromononane + hydroxide.  The mid-chain atoms 5 and 6 are distinguishable (the graph has no
    non-trivial automorphism: the nauty search finds exactly ONE minimal leaf, and by C08_Auts.nauty_auts_complete every
    automorphism yields one) but share their WL colour after the default 3 rounds (ranks below = the colours networkx returns,
    shipped by the harness); the tie is broken by the node id, i.e. by the input numbering: exchanging the numbers 5 and 6
    exchanges their canonical ids and the canonical graphs differ - while back-end nauty gives the same graph. *)
From Coq Require Import List NArith ZArith Bool Arith Lia Permutation.
From SK Require Import lib.LGraph lib.C01_GraphLemmas model.C01_Model model.C09_Model
  proof.C09_Lists proof.C09_Canon proof.C09_Equiv proof.C09_Main proof.C09_Indep proof.C09_Graph.
From SK Require model.C08_Model.
Import ListNotations.
Local Open Scope Z_scope.

Definition wt_G : mgraph := (LG [(1%N, (GN 17013%N false (0) (0) (Some [70%N]) (1))); (2%N, (GN 70%N false (2) (0) (Some [17013%N; 70%N]) (2))); (3%N, (GN 70%N false (2) (0) (Some [70%N; 70%N]) (3))); (4%N, (GN 70%N false (2) (0) (Some [70%N; 70%N]) (4))); (5%N, (GN 70%N false (2) (0) (Some [70%N; 70%N]) (5))); (6%N, (GN 70%N false (2) (0) (Some [70%N; 70%N]) (6))); (7%N, (GN 70%N false (2) (0) (Some [70%N; 70%N]) (7))); (8%N, (GN 70%N false (2) (0) (Some [70%N; 70%N]) (8))); (9%N, (GN 70%N false (2) (0) (Some [70%N; 70%N]) (9))); (10%N, (GN 70%N false (3) (0) (Some [70%N]) (10))); (11%N, (GN 82%N false (1) (-1) (Some []) (11)))] [(1%N, 2%N, (2)); (2%N, 3%N, (2)); (3%N, 4%N, (2)); (4%N, 5%N, (2)); (5%N, 6%N, (2)); (6%N, 7%N, (2)); (7%N, 8%N, (2)); (8%N, 9%N, (2)); (9%N, 10%N, (2))]).
Definition wt_H : mgraph := (LG [(2%N, (GN 70%N false (2) (0) (Some [70%N; 82%N]) (2))); (3%N, (GN 70%N false (2) (0) (Some [70%N; 70%N]) (3))); (4%N, (GN 70%N false (2) (0) (Some [70%N; 70%N]) (4))); (5%N, (GN 70%N false (2) (0) (Some [70%N; 70%N]) (5))); (6%N, (GN 70%N false (2) (0) (Some [70%N; 70%N]) (6))); (7%N, (GN 70%N false (2) (0) (Some [70%N; 70%N]) (7))); (8%N, (GN 70%N false (2) (0) (Some [70%N; 70%N]) (8))); (9%N, (GN 70%N false (2) (0) (Some [70%N; 70%N]) (9))); (10%N, (GN 70%N false (3) (0) (Some [70%N]) (10))); (11%N, (GN 82%N false (1) (0) (Some [70%N]) (11))); (1%N, (GN 17013%N false (0) (-1) (Some []) (1)))] [(2%N, 3%N, (2)); (2%N, 11%N, (2)); (3%N, 4%N, (2)); (4%N, 5%N, (2)); (5%N, 6%N, (2)); (6%N, 7%N, (2)); (7%N, 8%N, (2)); (8%N, 9%N, (2)); (9%N, 10%N, (2))]).
Definition wt_ranks1 : list (N * Z) := [(1%N, (2)); (2%N, (4)); (3%N, (8)); (4%N, (5)); (5%N, (7)); (6%N, (7)); (7%N, (0)); (8%N, (9)); (9%N, (3)); (10%N, (1)); (11%N, (6))].
Definition wt_p : N -> N := transp 5 6.
Definition wt_ranks2 : list (N * Z) := map (fun q : N * Z => (wt_p (fst q), snd q)) wt_ranks1.
Definition wt_G' : mgraph := set_amap (relabel wt_p wt_G).
Definition wt_H' : mgraph := set_amap (relabel wt_p wt_H).

Lemma wt_p_inj a b : wt_p a = wt_p b -> a = b.
Proof.
  unfold wt_p, transp. destruct (N.eqb_spec a 5), (N.eqb_spec a 6), (N.eqb_spec b 5), (N.eqb_spec b 6); lia.
Qed.

Ltac amap_case E n := repeat (match type of E with context [N.eqb n ?k] => destruct (N.eqb_spec n k); [subst; inversion E; reflexivity|] end); discriminate.
Lemma wt_G_parsed : parsed wt_G.
Proof.
  split; [|split].
  - apply wf_intro; [unfold node_ids; simpl; nodup_N| |repeat (apply simple_cons; [reflexivity|]); apply simple_nil].
    intros a b x I. simpl in I. repeat (destruct I as [I|I]; [inversion I; subst; simpl; repeat split; auto 20; discriminate|]). destruct I.
  - intros n a E. unfold label in E. simpl in E. amap_case E n.
  - intros n I. simpl in I. intuition (subst; discriminate).
Qed.
Lemma wt_H_parsed : parsed wt_H.
Proof.
  split; [|split].
  - apply wf_intro; [unfold node_ids; simpl; nodup_N| |repeat (apply simple_cons; [reflexivity|]); apply simple_nil].
    intros a b x I. simpl in I. repeat (destruct I as [I|I]; [inversion I; subst; simpl; repeat split; auto 20; discriminate|]). destruct I.
  - intros n a E. unfold label in E. simpl in E. amap_case E n.
  - intros n I. simpl in I. intuition (subst; discriminate).
Qed.
Lemma parsed_presented (p : N -> N) (X : mgraph) : (forall a b, p a = p b -> a = b) -> (forall n, In n (node_ids X) -> p n <> 0%N) ->
  parsed X -> parsed (set_amap (relabel p X)).
Proof.
  intros Pinj Ppos (W & _ & _). split; [apply wf_set_amap; apply (wf_relabel Pinj W)|split; [apply amap_id_set_amap|]].
  intros n I. rewrite node_ids_set_amap, (node_ids_relabel p X) in I. apply in_map_iff in I. destruct I as (m & <- & Im). apply Ppos. exact Im.
Qed.

Definition wt_wl1 := canonicalise_wl wt_ranks1 wt_G wt_H.
Definition wt_wl2 := canonicalise_wl wt_ranks2 wt_G' wt_H'.
Definition wt_n1 := canonicalise_nauty wt_G wt_H.
Definition wt_n2 := canonicalise_nauty wt_G' wt_H'.
Definition edges_of (r : option (mgraph * list (N * N) * mgraph)) : list (N * N * Z) :=
  match r with Some (Gc, _, _) => map nflip (gedges Gc) | None => [] end.

Theorem numbering_independent_wl_refuted :
  exists (ranks1 ranks2 : list (N * Z)) (G H G' H' : mgraph) (p : N -> N),
    parsed G /\ parsed H /\ parsed G' /\ parsed H' /\ (exists s, In s (node_ids G) /\ In s (node_ids H)) /\
    (forall a b, p a = p b -> a = b) /\ presents p G G' /\ presents p H H' /\
    (forall n, In n (node_ids G) -> C08_Model.rank_of ranks2 (p n) = C08_Model.rank_of ranks1 n) /\
    (* all reactant atoms distinguishable: the nauty search ends with exactly one minimal leaf *)
    length (snd (C08_Model.nauty_acc (to_c08 G))) = 1%nat /\
    (* every product atom has a reactant partner: the order hypothesis on partner-less product atoms is vacuous *)
    (forall n, In n (node_ids H) -> In n (node_ids G)) /\
    exists Gc1 pr1 Hc1 Gc2 pr2 Hc2 Nc1 qr1 Mc1 Nc2 qr2 Mc2,
      canonicalise_wl ranks1 G H = Some (Gc1, pr1, Hc1) /\ canonicalise_wl ranks2 G' H' = Some (Gc2, pr2, Hc2) /\
      ~ same_graph Gc2 Gc1 /\
      (* the complete back-end does not see the renumbering *)
      canonicalise_nauty G H = Some (Nc1, qr1, Mc1) /\ canonicalise_nauty G' H' = Some (Nc2, qr2, Mc2) /\
      same_graph Nc2 Nc1 /\ same_graph Mc2 Mc1.
Proof.
  exists wt_ranks1, wt_ranks2, wt_G, wt_H, wt_G', wt_H', wt_p.
  split; [exact wt_G_parsed|]. split; [exact wt_H_parsed|].
  split; [apply parsed_presented; [exact wt_p_inj| |exact wt_G_parsed]; intros n I; simpl in I; intuition (subst; discriminate)|].
  split; [apply parsed_presented; [exact wt_p_inj| |exact wt_H_parsed]; intros n I; simpl in I; intuition (subst; discriminate)|].
  split; [exists 2%N; simpl; auto|]. split; [exact wt_p_inj|]. split; [apply sg_refl|]. split; [apply sg_refl|].
  split; [intros n I; simpl in I; intuition (subst; reflexivity)|].
  split; [vm_compute; reflexivity|].
  split; [intros n I; simpl in I |- *; intuition|].
  destruct wt_wl1 as [[[Gc1 pr1] Hc1]|] eqn:E1; [|vm_compute in E1; discriminate].
  destruct wt_wl2 as [[[Gc2 pr2] Hc2]|] eqn:E2; [|vm_compute in E2; discriminate].
  destruct wt_n1 as [[[Nc1 qr1] Mc1]|] eqn:F1; [|vm_compute in F1; discriminate].
  destruct wt_n2 as [[[Nc2 qr2] Mc2]|] eqn:F2; [|vm_compute in F2; discriminate].
  exists Gc1, pr1, Hc1, Gc2, pr2, Hc2, Nc1, qr1, Mc1, Nc2, qr2, Mc2.
  split; [exact E1|]. split; [exact E2|].
  vm_compute in E1. vm_compute in E2. vm_compute in F1. vm_compute in F2.
  inversion E1; subst. inversion E2; subst. inversion F1; subst. inversion F2; subst. clear E1 E2 F1 F2.
  split.
  - intros (_ & P). vm_compute in P.
    assert (I : In (6%N, 9%N, 2) [(3%N, 5%N, 2); (5%N, 10%N, 2); (6%N, 10%N, 2); (6%N, 8%N, 2); (8%N, 9%N, 2); (1%N, 9%N, 2); (1%N, 11%N, 2); (4%N, 11%N, 2); (2%N, 4%N, 2)]).
    { eapply Permutation_in; [exact P|]. simpl. auto 10. }
    simpl in I. intuition discriminate.
  - split; [reflexivity|]. split; [reflexivity|]. split; split; vm_compute; apply Permutation_refl.
Qed.
