(** C10 — proofs, part 20: NXToGML.transform(attributes=[...]).  Whatever attributes are compared — as long as "charge" is
    among them — the rule reads back to the same ITS: moving more atoms from the context section to left/right (because their
    hcount, aromaticity, ... differ) loses nothing. *)
From Coq Require Import String List NArith ZArith Bool Lia.
From SK Require Import lib.Tok lib.LGraph lib.StrJoin model.C10_Model proof.C10_Proof proof.C10_Views proof.C10_Build
  proof.C10_Copy proof.C10_GmlRead proof.C10_GmlWrite proof.C10_Hydrogen proof.C10_HRound proof.C10_GmlEH.
Import ListNotations.
Local Open Scope Z_scope.

Lemma ctx_like_plain c ch : gwf c -> ctx_like c ch (context_entries c ch false).
Proof.
  intros W. rewrite context_entries_eq. split.
  - intros n. rewrite gn_find_sel by apply (gwf_nd c W). fold (label c n). destruct (label c n); [destruct (mem n ch)|]; reflexivity.
  - intros u v G. exfalso. apply G. apply ge_find_nodes. intros e He. exact (Nent_nodes _ _ _ He).
  - intros n E. rewrite endp_nodes in E by (intros e He; exact (Nent_nodes _ _ _ He)). discriminate.
Qed.

(** the pipeline for ANY list [ch] of atoms written to left/right instead of context, provided the atoms left in the
    context have the same charge on both sides *)
Theorem gml_pipeline_ch c sL sR ch B : IOK c -> side_like c false sL -> side_like c true sR -> ctx_like c ch B ->
  (forall n a, label c n = Some a -> mem n ch = false -> tg_ch (tG_of a) = tg_ch (tH_of a)) ->
  let I' := snd (gml_to_nx [(SLeft, side_entries sL ch); (SContext, B); (SRight, side_entries sR ch)]) in
  (forall n, has_node I' n = has_node c n) /\
  (forall n a, label c n = Some a ->
     label I' n = Some (gml_node n (tg_el (tG_of a)) (tg_ch (tG_of a)) (tg_ch (tH_of a)))) /\
  (forall u v, adj I' u v = adj c u v).
Proof.
  intros Hok SL SR CL Hch I'.
  assert (I' = its_construct (sideB B sL ch) (sideB B sR ch) (union_pairs (sideB B sL ch) (sideB B sR ch))) as ->.
  { unfold I'. rewrite gml_to_nx_three. reflexivity. }
  apply (assemble c _ _ Hok).
  - intros n. apply (sideB_label c false sL ch B n Hok SL CL).
    + intros a L. destruct (iok_node c n a Hok L) as (e & ar & h & q & ar' & h' & q' & Ht & _ & _ & He).
      unfold T_of, tG_of. rewrite Ht. exact He.
    + intros a L _. destruct (iok_node c n a Hok L) as (e & ar & h & q & ar' & h' & q' & Ht & E1 & E2 & _).
      unfold T_of, tG_of. rewrite Ht. simpl. auto.
  - intros n. rewrite (sideB_label c true sR ch B n Hok SR CL).
    + destruct (label c n) as [a|] eqn:L; [|reflexivity]. simpl.
      destruct (iok_node c n a Hok L) as (e & ar & h & q & ar' & h' & q' & Ht & _).
      unfold T_of, tG_of, tH_of. rewrite Ht. reflexivity.
    + intros a L. destruct (iok_node c n a Hok L) as (e & ar & h & q & ar' & h' & q' & Ht & _ & _ & He).
      unfold T_of, tH_of. rewrite Ht. exact He.
    + intros a L M. pose proof (Hch n a L M) as Eq.
      destruct (iok_node c n a Hok L) as (e & ar & h & q & ar' & h' & q' & Ht & E1 & E2 & _).
      unfold T_of, tG_of, tH_of in *. rewrite Ht in *. simpl in *. subst q'. auto.
  - intros u v x A. destruct (iok_edge c u v x Hok A) as (a & b & -> & Oa & Ob & _).
    unfold scal_order. rewrite (sideB_adj c false sL ch B u v SL CL), (sideB_adj c true sR ch B u v SR CL).
    unfold dd. rewrite A. unfold ord_of. simpl. split.
    + destruct (ord_ok_cases a Oa) as [->|[->|[->|[->| ->]]]]; simpl; auto.
    + destruct (ord_ok_cases b Ob) as [->|[->|[->|[->| ->]]]]; simpl; auto.
  - intros u v A. rewrite (sideB_adj c false sL ch B u v SL CL), (sideB_adj c true sR ch B u v SR CL). unfold dd. rewrite A. auto.
Qed.

Lemma mem_fcs_aux s (Rg : gr) n (l : list (N * natt)) : NoDup (map fst l) ->
  mem n (flat_map (fun p : N * natt => match label Rg (fst p) with
                                       | Some b => if natt_diff s (snd p) b then [fst p] else []
                                       | None => []
                                       end) l) =
  match assoc n l with
  | Some a => match label Rg n with Some b => natt_diff s a b | None => false end
  | None => false
  end.
Proof.
  induction l as [|[k a0] r IH]; intros Hnd; [reflexivity|].
  inversion Hnd as [|? ? Hnot Hnd']; subst. simpl flat_map. rewrite mem_app, (IH Hnd'). simpl assoc.
  destruct (N.eqb_spec n k) as [->|Hne].
  - apply assoc_none_iff in Hnot. rewrite Hnot, orb_false_r. destruct (label Rg k) as [b|]; [|reflexivity].
    destruct (natt_diff s a0 b); simpl; rewrite ?N.eqb_refl; reflexivity.
  - assert (forall l, (forall y, In y l -> y = k) -> mem n l = false) as Hk.
    { induction l as [|y l IHl]; intros H; [reflexivity|]. simpl. rewrite IHl by (intros z Hz; apply H; right; exact Hz).
      rewrite (H y) by (left; reflexivity). destruct (N.eqb_spec n k); [congruence|reflexivity]. }
    rewrite Hk; [reflexivity|]. intros y Hy. destruct (label Rg k); [|destruct Hy].
    destruct (natt_diff s a0 _); [|destruct Hy]. destruct Hy as [<-|[]]. reflexivity.
Qed.
Lemma mem_find_changed_sel s (Lg Rg : gr) n : NoDup (node_ids Lg) ->
  mem n (find_changed_sel s Lg Rg) =
  match label Lg n with
  | Some a => match label Rg n with Some b => natt_diff s a b | None => false end
  | None => false
  end.
Proof. intros Hnd. apply (mem_fcs_aux s Rg n (gnodes Lg) Hnd). Qed.

Theorem attributes_roundtrip c s : its_ok c = true -> k_ch s = true ->
  let I' := snd (gml_to_nx (nx_to_gml_sel s (fst (its_decompose c)) (snd (its_decompose c)) c false false)) in
  (forall n, has_node I' n = has_node c n) /\
  (forall n a, label c n = Some a ->
     label I' n = Some (gml_node n (tg_el (tG_of a)) (tg_ch (tG_of a)) (tg_ch (tH_of a)))) /\
  (forall u v, adj I' u v = adj c u v).
Proof.
  intros H Hk. pose proof (its_ok_IOK c H) as Hok. rewrite its_decompose_sides by exact Hok. unfold nx_to_gml_sel. cbv iota zeta. simpl fst. simpl snd.
  apply (gml_pipeline_ch c _ _ _ _ Hok (side_graph_like c false Hok) (side_graph_like c true Hok)).
  - apply ctx_like_plain, (iok_gwf c Hok).
  - intros n a L M. rewrite mem_find_changed_sel in M by apply (gwf_nd _ (side_graph_gwf c false)).
    rewrite !side_graph_label in M by exact Hok. rewrite L in M. simpl in M. unfold natt_diff in M. rewrite Hk in M.
    rewrite !orb_false_iff in M. destruct M as [[_ M] _].
    rewrite !a_ch_side in M. simpl in M. apply negb_false_iff, Z.eqb_eq in M. exact M.
Qed.

(** non-vacuity: with attributes = [charge, hcount] atom 10 of ex_centre (hcount 1 before, 0 after) moves out of the context *)
Definition ex_attr_rule : grec :=
  nx_to_gml_sel (AS false false true true false) (fst (its_decompose ex_centre)) (snd (its_decompose ex_centre)) ex_centre false false.
Example attributes_roundtrip_ex :
  ex_attr_rule <> its_to_gml ex_centre false false false /\
  adj (snd (gml_to_nx ex_attr_rule)) 20%N 30%N = adj ex_centre 20%N 30%N /\
  label (snd (gml_to_nx ex_attr_rule)) 10%N = Some (gml_node 10%N (s2l "C") 0 0).
Proof. split; [vm_compute; discriminate|vm_compute; auto]. Qed.
