(** C05 — part 9: gluing seen as a function of the GRAPHS (labels and adjacency as functions) and of the match as a
    SET of pairs: the glued ITS does not depend on the insertion order of substrate, rule or match; matches that
    differ by an automorphism of the rule glue to the same ITS.  Built on the pointwise characterisation of the
    glue in proof/C03_Proof.v. Stdlib lists. *)
From Coq Require Import List NArith ZArith Bool Arith Lia Permutation.
From SK Require Import lib.Tok lib.LGraph lib.Mono.
From SK Require model.C06_Model model.C11_Model.
From SK Require Import model.C03_Model proof.C03_Spec proof.C03_Proof proof.C03_Glue proof.C03_Iso.
From SK Require Import model.C05_Model proof.C05_Proof proof.C05_Glue.
Import ListNotations.
Local Open Scope Z_scope.

Section WithThr.
Context {TH : Thr}.


(** observational equality of list graphs: the same label and adjacency FUNCTIONS *)
Definition obs_eq {A B} (g g' : lgraph A B) : Prop :=
  (forall n, label g' n = label g n) /\ (forall a b, LGraph.adj g' a b = LGraph.adj g a b).

Lemma obs_eq_refl {A B} (g : lgraph A B) : obs_eq g g.
Proof. split; reflexivity. Qed.
Lemma obs_eq_sym {A B} (g g' : lgraph A B) : obs_eq g g' -> obs_eq g' g.
Proof. intros [H1 H2]. split; intros; symmetry; auto. Qed.
Lemma obs_eq_trans {A B} (g1 g2 g3 : lgraph A B) : obs_eq g1 g2 -> obs_eq g2 g3 -> obs_eq g1 g3.
Proof. intros [A1 A2] [B1 B2]. split; intros; [rewrite B1, A1 | rewrite B2, A2]; reflexivity. Qed.

(** two matches with the same pairs *)
Definition same_items (m m' : mapping) : Prop := forall ph, In ph m <-> In ph m'.

Lemma mget_in (m : mapping) u h : NoDup (map fst m) -> (mget m u = Some h <-> In (u, h) m).
Proof.
  intros Hnd. unfold mget. split; [apply assoc_in | apply assoc_nodup_in; exact Hnd].
Qed.

Lemma mget_items (m m' : mapping) : NoDup (map fst m) -> NoDup (map fst m') -> same_items m m' ->
  forall u, mget m' u = mget m u.
Proof.
  intros H H' S u. destruct (mget m u) as [h|] eqn:E.
  - apply (mget_in m' u h H'). apply S. apply (mget_in m u h H). exact E.
  - destruct (mget m' u) as [h'|] eqn:E'; [|reflexivity].
    apply (mget_in m' u h' H') in E'. apply S in E'. apply (mget_in m u h' H) in E'. congruence.
Qed.

Lemma hits_items (m m' : mapping) e a b : (forall u, mget m' u = mget m u) -> hits m' e a b = hits m e a b.
Proof. intros E. destruct e as [[u v] x]. unfold hits, img. rewrite !E. reflexivity. Qed.

(** the template edge that lands on a host pair, read off the rule's adjacency function *)
Lemma find_hit_transfer (m m' : mapping) (es es' : list (N * N * iedge)) a b x :
  (forall u, mget m' u = mget m u) ->
  simple_edgesb es = true -> distinct_images m' es' ->
  (forall u v, find_edge u v es' = find_edge u v es) ->
  find_hit m es a b = Some x -> find_hit m' es' a b = Some x.
Proof.
  intros Em Hs Hd Ea Hf.
  destruct (find_hit_in m es a b x Hf) as ([[u v] y] & Hin & Hh & Hx). simpl in Hx. subst y.
  pose proof (simple_in_find es u v x (simpleP_of_b es Hs) Hin) as Hadj.
  rewrite <- Ea in Hadj. destruct (find_edge_in es' u v x Hadj) as (p & q & Hin' & Hpq).
  change x with (snd (p, q, x)). apply find_hit_first; [exact Hd | exact Hin' |].
  rewrite (hits_items m m' _ a b Em).
  unfold hits, img in *. unfold peq in Hpq. apply orb_prop in Hpq.
  destruct Hpq as [Hpq|Hpq]; apply andb_prop in Hpq; destruct Hpq as [E1 E2]; apply N.eqb_eq in E1, E2; subst p q.
  - exact Hh.
  - destruct (mget m v) as [hv|]; [|destruct (mget m u); discriminate].
    destruct (mget m u) as [hu|]; [|discriminate]. rewrite peq_sym1. exact Hh.
Qed.

Lemma find_hit_same (m m' : mapping) (es es' : list (N * N * iedge)) a b :
  (forall u, mget m' u = mget m u) ->
  simple_edgesb es = true -> simple_edgesb es' = true ->
  distinct_images m es -> distinct_images m' es' ->
  (forall u v, find_edge u v es' = find_edge u v es) ->
  find_hit m' es' a b = find_hit m es a b.
Proof.
  intros Em Hs Hs' Hd Hd' Ea.
  destruct (find_hit m es a b) as [x|] eqn:E.
  - exact (find_hit_transfer m m' es es' a b x Em Hs Hd' Ea E).
  - destruct (find_hit m' es' a b) as [y|] eqn:E'; [|reflexivity].
    assert (find_hit m es a b = Some y)
      by exact (find_hit_transfer m' m es' es a b y (fun u => eq_sym (Em u)) Hs' Hd (fun u v => eq_sym (Ea u v)) E').
    congruence.
Qed.

(** when the edge fold fails, some template edge lands on a host bond whose merged order is not integral *)
Lemma fold_glue_none_hit m es : forall T, distinct_images m es ->
  fold_left (glue_edge m) es (Some T) = None ->
  exists a b x, find_hit m es a b = Some x /\ merge (LGraph.adj T a b) x = None.
Proof.
  induction es as [|e r IH]; cbn [fold_left find_hit distinct_images]; intros T Hd H; [discriminate|].
  destruct Hd as [Hd1 Hd2].
  destruct (glue_edge m (Some T) e) as [T1|] eqn:E.
  - destruct (IH T1 Hd2 H) as (a & b & x & Hf & Hm). exists a, b, x.
    destruct (hits m e a b) eqn:Eh; [rewrite (Hd1 a b Eh) in Hf; discriminate|].
    split; [exact Hf|]. pose proof (glue_edge_step m T e T1 a b E) as Hs. rewrite Eh in Hs. rewrite <- Hs. exact Hm.
  - destruct e as [[u v] x]. simpl in E.
    destruct (mget m u) as [hu|] eqn:Eu; [|discriminate]. destruct (mget m v) as [hv|] eqn:Ev; [|discriminate].
    destruct (LGraph.adj T hu hv) as [y|] eqn:Ea; [|discriminate].
    destruct (Z.eqb (eG x) 0) eqn:E0; [|discriminate]. destruct (Z.odd (eH y + eH x)) eqn:Eo; [|discriminate].
    exists hu, hv, x. unfold hits, img. rewrite Eu, Ev, peq_refl. split; [reflexivity|].
    rewrite Ea. simpl. rewrite E0, Eo. reflexivity.
Qed.

Section GlueObs.
  Variables (host host' : hostg) (rc rc' : its) (m m' : mapping).
  Hypothesis Hh : obs_eq host host'.
  Hypothesis Hr : obs_eq rc rc'.
  Hypothesis Hs : simple_edgesb (gedges rc) = true.
  Hypothesis Hs' : simple_edgesb (gedges rc') = true.
  Hypothesis Hf : NoDup (map fst m).
  Hypothesis Hv : NoDup (map snd m).
  Hypothesis Hf' : NoDup (map fst m').
  Hypothesis Hv' : NoDup (map snd m').
  Hypothesis Hi : same_items m m'.
  Hypothesis Hok : forall p h, In (p, h) m -> (exists pn, label rc p = Some pn) /\ (exists hn, label host h = Some hn).

  Let T1 := glue_nodes (its_of_host host) rc m.
  Let T1' := glue_nodes (its_of_host host') rc' m'.

  Lemma obs_T1_adj a b : LGraph.adj T1' a b = LGraph.adj T1 a b.
  Proof.
    unfold T1, T1', LGraph.adj. rewrite !glue_nodes_edges.
    change (LGraph.adj (its_of_host host') a b = LGraph.adj (its_of_host host) a b).
    rewrite !adj_its_of_host, (proj2 Hh). reflexivity.
  Qed.

  Lemma obs_T1_label n : label T1' n = label T1 n.
  Proof.
    unfold T1, T1'. destruct (in_dec N.eq_dec n (map snd m)) as [I|NI].
    - apply in_map_iff in I. destruct I as ([p h] & E & I). simpl in E. subst h.
      destruct (Hok p n I) as ((pn & Hp) & (hn & Hn)).
      rewrite (glue_nodes_at (its_of_host host) rc m p n pn (IN hn hn 0 None) Hv I Hf Hp)
        by (rewrite label_its_of_host, Hn; reflexivity).
      apply (glue_nodes_at (its_of_host host') rc' m' p n pn (IN hn hn 0 None) Hv' (proj1 (Hi (p, n)) I) Hf').
      + rewrite (proj1 Hr). exact Hp.
      + rewrite label_its_of_host, (proj1 Hh), Hn. reflexivity.
    - rewrite (glue_nodes_other (its_of_host host) rc m n NI).
      rewrite glue_nodes_other.
      + rewrite !label_its_of_host, (proj1 Hh). reflexivity.
      + intros I. apply NI. apply in_map_iff in I. destruct I as ([p h] & E & I). simpl in E. subst h.
        apply in_map_iff. exists (p, n). split; [reflexivity | apply Hi; exact I].
  Qed.

  Lemma obs_find_hit a b : find_hit m' (gedges rc') a b = find_hit m (gedges rc) a b.
  Proof.
    apply find_hit_same; auto.
    - apply mget_items; assumption.
    - apply distinct_images_of; assumption.
    - apply distinct_images_of; assumption.
    - intros u v. exact (proj2 Hr u v).
  Qed.

  (** the glued ITS is determined by the graphs as functions and the match as a set of pairs; so is failure *)
  Lemma glue_obs :
    match glue host rc m, glue host' rc' m' with
    | Some T, Some T' => obs_eq T T'
    | None, None => True
    | _, _ => False
    end.
  Proof.
    unfold glue. fold T1. fold T1'.
    pose proof (distinct_images_of m (gedges rc) Hv Hs) as D.
    pose proof (distinct_images_of m' (gedges rc') Hv' Hs') as D'.
    destruct (fold_left (glue_edge m) (gedges rc) (Some T1)) as [T|] eqn:E;
      destruct (fold_left (glue_edge m') (gedges rc') (Some T1')) as [T'|] eqn:E'.
    - split.
      + intros n. unfold label. rewrite (fold_glue_nodes _ _ _ _ E), (fold_glue_nodes _ _ _ _ E'). apply obs_T1_label.
      + intros a b. pose proof (fold_glue_spec m (gedges rc) T1 T D E a b) as S.
        pose proof (fold_glue_spec m' (gedges rc') T1' T' D' E' a b) as S'.
        rewrite obs_find_hit in S'. rewrite obs_T1_adj in S'.
        destruct (find_hit m (gedges rc) a b) as [x|].
        * destruct S as (r & Hm & Ha). destruct S' as (r' & Hm' & Ha'). rewrite Ha, Ha'. congruence.
        * rewrite S, S'. reflexivity.
    - destruct (fold_glue_none_hit m' (gedges rc') T1' D' E') as (a & b & x & Hfh & Hm).
      pose proof (fold_glue_spec m (gedges rc) T1 T D E a b) as S.
      rewrite obs_find_hit in Hfh. rewrite Hfh in S. rewrite obs_T1_adj in Hm.
      destruct S as (r & Hm' & _). congruence.
    - destruct (fold_glue_none_hit m (gedges rc) T1 D E) as (a & b & x & Hfh & Hm).
      pose proof (fold_glue_spec m' (gedges rc') T1' T' D' E' a b) as S.
      rewrite obs_find_hit, Hfh in S. rewrite obs_T1_adj in S.
      destruct S as (r & Hm' & _). congruence.
    - exact Logic.I.
  Qed.
End GlueObs.

(** ** automorphisms of the rule *)
Lemma lN_eqb_eq a : forall b, lN_eqb a b = true -> a = b.
Proof.
  induction a as [|x a IH]; intros [|y b]; simpl; try discriminate; [reflexivity|].
  intros H. apply andb_prop in H. destruct H as [H1 H2]. apply N.eqb_eq in H1. subst. f_equal. apply IH. exact H2.
Qed.
Lemma nattr_eqb_eq a b : nattr_eqb a b = true -> a = b.
Proof.
  destruct a as [e r h c n], b as [e' r' h' c' n']. unfold nattr_eqb. cbn [a_el a_aro a_hc a_ch a_nb]. intros H.
  apply andb_prop in H. destruct H as [H Hn]. apply andb_prop in H. destruct H as [H Hc].
  apply andb_prop in H. destruct H as [H Hh]. apply andb_prop in H. destruct H as [He Hr].
  apply N.eqb_eq in He. apply Bool.eqb_prop in Hr. apply Z.eqb_eq in Hh, Hc. apply lN_eqb_eq in Hn. subst. reflexivity.
Qed.
Lemma inode_eqb_eq a b : inode_eqb a b = true -> a = b.
Proof.
  destruct a as [g h c p], b as [g' h' c' p']. unfold inode_eqb. cbn [iG iH i_hc i_hp]. intros H.
  apply andb_prop in H. destruct H as [H Hp]. apply andb_prop in H. destruct H as [H Hc].
  apply andb_prop in H. destruct H as [Hg Hh].
  apply nattr_eqb_eq in Hg, Hh. apply Z.eqb_eq in Hc. subst.
  destruct p as [l|], p' as [l'|]; simpl in Hp; try discriminate; [apply lN_eqb_eq in Hp; subst|]; reflexivity.
Qed.
Lemma oinode_eqb_eq a b : oinode_eqb a b = true -> a = b.
Proof. destruct a, b; simpl; try discriminate; [intros H; apply inode_eqb_eq in H; subst|]; reflexivity. Qed.
Lemma iedge_eqb_eq x y : iedge_eqb x y = true -> x = y.
Proof.
  destruct x as [[a b] c], y as [[a' b'] c']. unfold iedge_eqb, eG, eH, eS; simpl. intros H.
  repeat (apply andb_prop in H; destruct H as [H ?]). apply Z.eqb_eq in H, H1, H0. subst. reflexivity.
Qed.

Section AutSpec.
  Variable rc : its.
  Hypothesis Hnd : NoDup (node_ids rc).
  Hypothesis Hloop : forall u, LGraph.adj rc u u = None.

  Let V := valid (node_ids rc) (label rc) (label rc) (LGraph.adj rc) (LGraph.adj rc) oinode_eqb iedge_eqb true.

  Lemma valid_edges m : V m ->
    forall p h p' h', In (p, h) m -> In (p', h') m -> LGraph.adj rc h h' = LGraph.adj rc p p'.
  Proof.
    induction 1 as [|p0 h0 acc Hv IH Hin Hok]; [intros ? ? ? ? []|].
    unfold ok in Hok. apply andb_prop in Hok. destruct Hok as [_ He]. rewrite forallb_forall in He.
    assert (Hnew : forall p' h', In (p', h') acc -> LGraph.adj rc h0 h' = LGraph.adj rc p0 p').
    { intros p' h' I. specialize (He _ I). unfold edge_ok in He. simpl in He.
      destruct (LGraph.adj rc p0 p') as [b|], (LGraph.adj rc h0 h') as [b'|]; try discriminate; [|reflexivity].
      apply iedge_eqb_eq in He. subst. reflexivity. }
    intros p h p' h' [E|I] [E'|I'].
    - inversion E; inversion E'; subst. rewrite !Hloop. reflexivity.
    - inversion E; subst. apply Hnew. exact I'.
    - inversion E'; subst. rewrite (adj_sym rc h _), (adj_sym rc p _). apply Hnew. exact I.
    - eapply IH; eauto.
  Qed.

  Lemma rule_auts_spec s : In s (rule_auts rc) ->
    map fst s = rev (node_ids rc) /\ NoDup (map snd s) /\
    (forall p h, In (p, h) s -> In h (node_ids rc) /\ label rc h = label rc p) /\
    (forall p h p' h', In (p, h) s -> In (p', h') s -> LGraph.adj rc h h' = LGraph.adj rc p p').
  Proof.
    unfold rule_auts. rewrite monos'_eq. intros Hin.
    destruct (monos_only_such _ _ _ _ _ _ _ _ _ _ Hin) as (hs & Hl & E & Hv).
    destruct (valid_pointwise Hv) as (P1 & P2 & _).
    split; [|split; [exact P2|split]].
    - subst s. rewrite map_rev. f_equal. clear -Hl. revert hs Hl.
      induction (node_ids rc) as [|x l IH]; intros [|y hs] Hl; simpl in *; try discriminate; [reflexivity|].
      f_equal. apply IH. lia.
    - intros p h I. destruct (P1 p h I) as [Q1 Q2]. split; [exact Q1|]. apply oinode_eqb_eq. exact Q2.
    - apply valid_edges. exact Hv.
  Qed.
End AutSpec.

(** the automorphism listed as [s], as a function on node ids (sigma[p] of the Python code) *)
Definition sfun (s : mapping) (p : N) : N := match assoc p s with Some q => q | None => p end.

Lemma act_mv s k : C11_Model.act s k = mv (sfun s) (fun h => h) k.
Proof. reflexivity. Qed.

Lemma relabel_id {A B} (g : lgraph A B) : relabel (fun x => x) g = g.
Proof.
  destruct g as [ns es]. unfold relabel; simpl. f_equal.
  - rewrite <- (map_id ns) at 2. apply map_ext. intros [k a]. reflexivity.
  - rewrite <- (map_id es) at 2. apply map_ext. intros [[a b] x]. reflexivity.
Qed.

Lemma assoc_none_notin {V} (l : list (N * V)) k : ~ In k (map fst l) -> assoc k l = None.
Proof.
  induction l as [|[k' v] r IH]; simpl; [reflexivity|]. intros H.
  destruct (N.eqb_spec k k') as [->|Hne]; [exfalso; apply H; left; reflexivity | apply IH; tauto].
Qed.

Lemma nodup_snd_inj (s : mapping) a b h : NoDup (map snd s) -> In (a, h) s -> In (b, h) s -> a = b.
Proof.
  induction s as [|[p q] r IH]; simpl; [intros _ []|]. intros Hnd. inversion Hnd as [|? ? Hn1 Hn2]; subst.
  intros [E|I] [E'|I'].
  - congruence.
  - inversion E; subst. exfalso. apply Hn1. change h with (snd (b, h)). apply in_map. exact I'.
  - inversion E'; subst. exfalso. apply Hn1. change h with (snd (a, h)). apply in_map. exact I.
  - auto.
Qed.

Lemma existsb_peq_relabel {B} (f : N -> N) (Hf : inj f) (es : list (N * N * B)) a b :
  existsb (fun e : N * N * B => let '(u, v, _) := e in peq u v (f a) (f b))
          (map (fun e : N * N * B => let '(a, b, x) := e in (f a, f b, x)) es)
  = existsb (fun e : N * N * B => let '(u, v, _) := e in peq u v a b) es.
Proof.
  induction es as [|[[u v] y] r IH]; simpl; [reflexivity|].
  unfold peq at 1 3. rewrite !(inj_eqb f _ _ Hf), IH. reflexivity.
Qed.

Lemma simple_relabel {B} (f : N -> N) (Hf : inj f) (es : list (N * N * B)) :
  simple_edgesb (map (fun e : N * N * B => let '(a, b, x) := e in (f a, f b, x)) es) = simple_edgesb es.
Proof.
  induction es as [|[[a b] x] r IH]; simpl; [reflexivity|].
  rewrite (inj_eqb f a b Hf), IH, (existsb_peq_relabel f Hf r a b). reflexivity.
Qed.

Section AutGlue.
  Variable rc : its.
  Variable s : mapping.
  Hypothesis Hnd : NoDup (node_ids rc).
  Hypothesis Hsimple : simple_edgesb (gedges rc) = true.
  Hypothesis Hclosed : forall a b x, In (a, b, x) (gedges rc) -> In a (node_ids rc) /\ In b (node_ids rc).
  Hypothesis Hs : In s (rule_auts rc).

  Lemma adj_nodes a b x : LGraph.adj rc a b = Some x -> In a (node_ids rc) /\ In b (node_ids rc).
  Proof.
    unfold LGraph.adj. intros H. destruct (find_edge_in _ _ _ _ H) as (p & q & I & Hp).
    destruct (Hclosed p q x I) as [Ip Iq]. unfold peq in Hp. apply orb_prop in Hp.
    destruct Hp as [Hp|Hp]; apply andb_prop in Hp; destruct Hp as [E1 E2]; apply N.eqb_eq in E1, E2; subst; tauto.
  Qed.

  Lemma no_loop u : LGraph.adj rc u u = None.
  Proof.
    destruct (LGraph.adj rc u u) as [x|] eqn:E; [|reflexivity]. exfalso.
    unfold LGraph.adj in E. destruct (find_edge_in _ _ _ _ E) as (p & q & I & Hp).
    pose proof (simple_edges_ne (gedges rc) p q x Hsimple I) as Hne.
    unfold peq in Hp. apply orb_prop in Hp.
    destruct Hp as [Hp|Hp]; apply andb_prop in Hp; destruct Hp as [E1 E2]; apply N.eqb_eq in E1, E2; subst; congruence.
  Qed.

  Let spec := rule_auts_spec rc no_loop s Hs.

  Lemma s_fst_nodup : NoDup (map fst s).
  Proof. rewrite (proj1 spec). apply NoDup_rev. exact Hnd. Qed.

  Lemma sfun_in p h : In (p, h) s -> sfun s p = h.
  Proof. intros I. unfold sfun. rewrite (assoc_nodup_in p s h s_fst_nodup I). reflexivity. Qed.

  Lemma sfun_out p : ~ In p (node_ids rc) -> sfun s p = p.
  Proof.
    intros H. unfold sfun. rewrite assoc_none_notin; [reflexivity|].
    rewrite (proj1 spec). intros I. apply H. apply in_rev. exact I.
  Qed.

  Lemma s_total p : In p (node_ids rc) -> exists h, In (p, h) s.
  Proof.
    intros I. assert (I' : In p (map fst s)) by (rewrite (proj1 spec); apply in_rev in I; exact I).
    apply in_map_iff in I'. destruct I' as ([p' h] & E & I'). simpl in E. subst. exists h. exact I'.
  Qed.

  Lemma sfun_nodes p : In p (node_ids rc) -> In (sfun s p) (node_ids rc).
  Proof.
    intros I. destruct (s_total p I) as (h & Ih). rewrite (sfun_in p h Ih).
    exact (proj1 (proj1 (proj2 (proj2 spec)) p h Ih)).
  Qed.

  Lemma sfun_label u : label rc (sfun s u) = label rc u.
  Proof.
    destruct (in_dec N.eq_dec u (node_ids rc)) as [I|NI]; [|rewrite (sfun_out u NI); reflexivity].
    destruct (s_total u I) as (h & Ih). rewrite (sfun_in u h Ih).
    exact (proj2 (proj1 (proj2 (proj2 spec)) u h Ih)).
  Qed.

  Lemma adj_out u v : ~ In u (node_ids rc) -> LGraph.adj rc u v = None.
  Proof.
    intros H. destruct (LGraph.adj rc u v) as [x|] eqn:E; [|reflexivity]. exfalso. apply H. exact (proj1 (adj_nodes u v x E)).
  Qed.

  Lemma sfun_adj u v : LGraph.adj rc (sfun s u) (sfun s v) = LGraph.adj rc u v.
  Proof.
    destruct (in_dec N.eq_dec u (node_ids rc)) as [Iu|NIu].
    - destruct (in_dec N.eq_dec v (node_ids rc)) as [Iv|NIv].
      + destruct (s_total u Iu) as (hu & Hu). destruct (s_total v Iv) as (hv & Hv).
        rewrite (sfun_in u hu Hu), (sfun_in v hv Hv). exact (proj2 (proj2 (proj2 spec)) u hu v hv Hu Hv).
      + rewrite (sfun_out v NIv). rewrite (adj_sym rc (sfun s u) v), (adj_sym rc u v), !(adj_out v _ NIv). reflexivity.
    - rewrite (sfun_out u NIu), !(adj_out u _ NIu). reflexivity.
  Qed.

  Lemma sfun_inj : inj (sfun s).
  Proof.
    intros a b E.
    destruct (in_dec N.eq_dec a (node_ids rc)) as [Ia|NIa]; destruct (in_dec N.eq_dec b (node_ids rc)) as [Ib|NIb].
    - destruct (s_total a Ia) as (ha & Ha). destruct (s_total b Ib) as (hb & Hb).
      rewrite (sfun_in a ha Ha), (sfun_in b hb Hb) in E. subst hb.
      exact (nodup_snd_inj s a b ha (proj1 (proj2 spec)) Ha Hb).
    - exfalso. apply NIb. rewrite (sfun_out b NIb) in E. rewrite <- E. apply sfun_nodes. exact Ia.
    - exfalso. apply NIa. rewrite (sfun_out a NIa) in E. rewrite E. apply sfun_nodes. exact Ib.
    - rewrite (sfun_out a NIa), (sfun_out b NIb) in E. exact E.
  Qed.

  Lemma sfun_surj n : exists u, sfun s u = n.
  Proof.
    destruct (in_dec N.eq_dec n (node_ids rc)) as [I|NI]; [|exists n; apply sfun_out; exact NI].
    assert (Hincl : incl (node_ids rc) (map snd s)).
    { apply NoDup_length_incl.
      - exact (proj1 (proj2 spec)).
      - rewrite map_length. rewrite <- (map_length fst s), (proj1 spec), rev_length. lia.
      - intros h Ih. apply in_map_iff in Ih. destruct Ih as ([p h'] & E & Ih). simpl in E. subst.
        exact (proj1 (proj1 (proj2 (proj2 spec)) p h Ih)). }
    specialize (Hincl n I). apply in_map_iff in Hincl. destruct Hincl as ([p h] & E & Ip). simpl in E. subst.
    exists p. apply sfun_in. exact Ip.
  Qed.

  (** renumbering the rule by one of its automorphisms gives the same graph *)
  Lemma relabel_aut_obs : obs_eq (relabel (sfun s) rc) rc.
  Proof.
    split.
    - intros n. destruct (sfun_surj n) as (u & <-). rewrite (label_relabel _ _ (sfun s) sfun_inj rc u). apply sfun_label.
    - intros a b. destruct (sfun_surj a) as (u & <-). destruct (sfun_surj b) as (v & <-).
      rewrite (adj_relabel _ _ (sfun s) sfun_inj rc u v). apply sfun_adj.
  Qed.

  (** a match moved by a rule automorphism glues to the same ITS *)
  Lemma glue_aut (host : hostg) (k : mapping) :
    NoDup (map fst k) -> NoDup (map snd k) ->
    (forall p h, In (p, h) k -> (exists pn, label rc p = Some pn) /\ (exists hn, label host h = Some hn)) ->
    match glue host rc k, glue host rc (C11_Model.act s k) with
    | Some T, Some T' => obs_eq T T'
    | None, None => True
    | _, _ => False
    end.
  Proof.
    intros Hf Hv Hok.
    pose proof (glue_equivariant (sfun s) (fun h => h) sfun_inj (fun a b E => E) host rc k) as Heq.
    rewrite !relabel_id, <- act_mv in Heq.
    assert (Hmap : option_map (relabel (fun h : N => h)) (glue host rc k) = glue host rc k)
      by (destruct (glue host rc k); simpl; [rewrite relabel_id|]; reflexivity).
    rewrite Hmap in Heq. rewrite <- Heq.
    apply (glue_obs host host (relabel (sfun s) rc) rc (C11_Model.act s k) (C11_Model.act s k)).
    - apply obs_eq_refl.
    - exact relabel_aut_obs.
    - unfold relabel; simpl. rewrite (simple_relabel (sfun s) sfun_inj). exact Hsimple.
    - exact Hsimple.
    - rewrite act_mv. unfold mv. rewrite map_map. simpl. rewrite <- (map_map fst (sfun s)).
      apply FinFun.Injective_map_NoDup; [exact sfun_inj | exact Hf].
    - rewrite act_mv. unfold mv. rewrite map_map. simpl. exact Hv.
    - rewrite act_mv. unfold mv. rewrite map_map. simpl. rewrite <- (map_map fst (sfun s)).
      apply FinFun.Injective_map_NoDup; [exact sfun_inj | exact Hf].
    - rewrite act_mv. unfold mv. rewrite map_map. simpl. exact Hv.
    - intros ph. tauto.
    - intros p h I. rewrite act_mv in I. unfold mv in I. apply in_map_iff in I. destruct I as ([p0 h0] & E & I).
      simpl in E. inversion E; subst. destruct (Hok p0 h I) as ((pn & Hp) & Hh). split; [|exact Hh].
      exists pn. rewrite (label_relabel _ _ (sfun s) sfun_inj rc p0). exact Hp.
  Qed.
End AutGlue.

End WithThr.
