(** C10 — proofs, part 13: ITS -> GML -> ITS with reindex=True (the default of its_to_gml): the round trip holds up to
    the documented renumbering old id -> position (from 1) in the node order. *)
From Coq Require Import String List NArith ZArith Bool Lia.
From SK Require Import lib.Tok lib.LGraph lib.StrJoin model.C10_Model proof.C10_Proof proof.C10_Views proof.C10_Build
  proof.C10_Copy proof.C10_GmlRead proof.C10_GmlWrite proof.C10_Relabel.
Import ListNotations.
Local Open Scope Z_scope.

Lemma fold_nstep_node_ids F l : forall g : gr, NoDup (map fst l) ->
  (forall k, In k (map fst l) -> has_node g k = false) ->
  node_ids (fold_left (nstep F) l g) = node_ids g ++ map fst l.
Proof.
  induction l as [|[k a] r IH]; intros g Hnd Hf; [simpl; rewrite app_nil_r; reflexivity|].
  inversion Hnd as [|? ? Hnot Hnd']; subst. cbn [fold_left]. rewrite IH; [| exact Hnd' |].
  - unfold nstep at 1. simpl fst. rewrite node_ids_add_node, (Hf k) by (left; reflexivity).
    rewrite <- app_assoc. reflexivity.
  - intros k' Hk'. unfold nstep. simpl fst. rewrite has_node_add_node, (Hf k') by (right; exact Hk').
    destruct (N.eqb_spec k' k) as [->|]; [contradiction|reflexivity].
Qed.

Lemma side_graph_node_ids c j : IOK c -> node_ids (side_graph c j) = node_ids c.
Proof.
  intros Hok. unfold node_ids at 1. rewrite side_graph_gnodes by exact Hok. fold (node_ids (side_nodes c (if j then tH_of else tG_of))).
  unfold side_nodes. rewrite fold_nstep_node_ids; [reflexivity|apply (gwf_nd c (iok_gwf c Hok))|reflexivity].
Qed.

Lemma its_to_gml_rec_reindex c : IOK c ->
  its_to_gml c false true false =
  let m := enum_from 1%N (node_ids c) in
  let sL := nx_relabel m (side_graph c false) in
  let sR := nx_relabel m (side_graph c true) in
  let c' := nx_relabel m c in
  let ch := find_changed sL sR in
  [(SLeft, side_entries sL ch); (SContext, context_entries c' ch false); (SRight, side_entries sR ch)].
Proof.
  intros Hok. unfold its_to_gml. rewrite its_decompose_sides by exact Hok. unfold nx_to_gml.
  rewrite (side_graph_node_ids c false Hok). reflexivity.
Qed.

Section Reindex.
Variable c : gr.
Hypothesis Hok : IOK c.
Let ids := node_ids c.
Let m := enum_from 1%N ids.
Let f := mapget m.
Let Wc := iok_gwf c Hok.

Lemma f_inj a b : In a ids -> In b ids -> f a = f b -> a = b.
Proof. apply enum_from_inj. apply (gwf_nd c Wc). Qed.
Let ids_nd : NoDup ids := gwf_nd c Wc.
Let Hm : forall n, mapget m n = f n := fun n => eq_refl.

Definition RL (g : gr) : gr := nx_relabel m g.
Lemma RL_gwf g : gwf g -> node_ids g = ids -> gwf (RL g).
Proof. intros W E. apply (relabel_gwf f ids ids_nd f_inj g W E m Hm). Qed.
Lemma RL_label g k : gwf g -> node_ids g = ids ->
  label (RL g) k = match finv f ids k with Some n => label g n | None => None end.
Proof. intros W E. apply (relabel_label f ids ids_nd f_inj g W E m Hm). Qed.
Lemma RL_adj g k l : gwf g -> node_ids g = ids ->
  adj (RL g) k l = match finv f ids k, finv f ids l with Some u, Some v => adj g u v | _, _ => None end.
Proof. intros W E. apply (relabel_adj f ids ids_nd f_inj g W E m Hm). Qed.

Lemma RL_IOK : IOK (RL c).
Proof.
  split; [apply RL_gwf; [exact Wc|reflexivity]|split].
  - intros k a L. rewrite RL_label in L by (try exact Wc; reflexivity).
    destruct (finv f ids k) as [n|]; [|discriminate]. apply (iok_node c n a Hok L).
  - intros k l x A. rewrite RL_adj in A by (try exact Wc; reflexivity).
    destruct (finv f ids k) as [u|] eqn:Fk; [|discriminate]. destruct (finv f ids l) as [v|] eqn:Fl; [|discriminate].
    destruct (iok_edge c u v x Hok A) as (a & b & E & O1 & O2 & O3 & Hu & Hv).
    exists a, b. repeat split; auto; unfold has_node; rewrite RL_label by (try exact Wc; reflexivity).
    + rewrite Fk. exact Hu.
    + rewrite Fl. exact Hv.
Qed.

Lemma RL_side j : side_like (RL c) j (RL (side_graph c j)).
Proof.
  pose proof (side_graph_like c j Hok) as SL. pose proof (side_graph_node_ids c j Hok) as E. pose proof (sl_wf _ _ _ SL) as Ws.
  split.
  - apply RL_gwf; assumption.
  - intros k L. rewrite RL_label in L by (try exact Wc; reflexivity). rewrite RL_label by assumption.
    destruct (finv f ids k) as [n|]; [|reflexivity]. apply (sl_none _ _ _ SL n L).
  - intros k a L. rewrite RL_label in L by (try exact Wc; reflexivity). rewrite RL_label by assumption.
    destruct (finv f ids k) as [n|]; [|discriminate]. apply (sl_some _ _ _ SL n a L).
  - intros k l. rewrite RL_adj by assumption. unfold dd. rewrite RL_adj by (try exact Wc; reflexivity).
    destruct (finv f ids k) as [u|]; [|reflexivity]. destruct (finv f ids l) as [v|]; [|reflexivity].
    rewrite (sl_adj _ _ _ SL). reflexivity.
Qed.

Theorem gml_roundtrip_reindex_iok :
  let I' := gml_to_its (its_to_gml c false true false) in
  (forall a b, In a ids -> In b ids -> f a = f b -> a = b) /\
  (forall k, has_node I' k = true <-> exists n, In n ids /\ k = f n) /\
  (forall n a, label c n = Some a ->
     label I' (f n) = Some (gml_node (f n) (tg_el (tG_of a)) (tg_ch (tG_of a)) (tg_ch (tH_of a)))) /\
  (forall u v, In u ids -> In v ids -> adj I' (f u) (f v) = adj c u v) /\
  (forall k l x, adj I' k l = Some x -> exists u v, In u ids /\ In v ids /\ k = f u /\ l = f v /\ adj c u v = Some x).
Proof.
  intros I'. unfold I', gml_to_its. rewrite its_to_gml_rec_reindex by exact Hok. cbv zeta.
  destruct (gml_pipeline (RL c) (RL (side_graph c false)) (RL (side_graph c true)) RL_IOK (RL_side false) (RL_side true))
    as (P1 & P2 & P3). cbv zeta in P1, P2, P3. unfold RL in P1, P2, P3. fold ids. fold m.
  split; [exact f_inj|split; [|split; [|split]]].
  - intros k. rewrite P1. fold (RL c). unfold has_node. rewrite RL_label by (try exact Wc; reflexivity). split.
    + destruct (finv f ids k) as [n|] eqn:F; [|discriminate]. intros _. apply finv_some in F. exists n. tauto.
    + intros (n & Hn & ->). rewrite (finv_f f ids ids_nd f_inj n Hn).
      apply has_node_in, has_node_label in Hn. destruct Hn as [a ->]. reflexivity.
  - intros n a L. apply P2. fold (RL c). rewrite RL_label by (try exact Wc; reflexivity).
    assert (In n ids) as Hn by (apply has_node_in, has_node_label; eauto).
    rewrite (finv_f f ids ids_nd f_inj n Hn). exact L.
  - intros u v Hu Hv. rewrite P3. fold (RL c). rewrite RL_adj by (try exact Wc; reflexivity).
    rewrite (finv_f f ids ids_nd f_inj u Hu), (finv_f f ids ids_nd f_inj v Hv). reflexivity.
  - intros k l x A. rewrite P3 in A. fold (RL c) in A. rewrite RL_adj in A by (try exact Wc; reflexivity).
    destruct (finv f ids k) as [u|] eqn:Fk; [|discriminate]. destruct (finv f ids l) as [v|] eqn:Fl; [|discriminate].
    apply finv_some in Fk, Fl. exists u, v. tauto.
Qed.
End Reindex.

Theorem gml_roundtrip_reindex c : its_ok c = true ->
  let f := mapget (enum_from 1%N (node_ids c)) in
  let I' := gml_to_its (its_to_gml c false true false) in
  (forall a b, In a (node_ids c) -> In b (node_ids c) -> f a = f b -> a = b) /\
  (forall k, has_node I' k = true <-> exists n, In n (node_ids c) /\ k = f n) /\
  (forall n a, label c n = Some a ->
     label I' (f n) = Some (gml_node (f n) (tg_el (tG_of a)) (tg_ch (tG_of a)) (tg_ch (tH_of a)))) /\
  (forall u v, In u (node_ids c) -> In v (node_ids c) -> adj I' (f u) (f v) = adj c u v) /\
  (forall k l x, adj I' k l = Some x ->
     exists u v, In u (node_ids c) /\ In v (node_ids c) /\ k = f u /\ l = f v /\ adj c u v = Some x).
Proof. intros H. apply (gml_roundtrip_reindex_iok c (its_ok_IOK c H)). Qed.

(** non-vacuity: the centre of proof/C10_GmlWrite.v, ids 10, 20, 30 become 1, 2, 3 *)
Example gml_roundtrip_reindex_ex :
  its_ok ex_centre = true /\
  map (mapget (enum_from 1%N (node_ids ex_centre))) [10; 20; 30]%N = [1; 2; 3]%N /\
  label (gml_to_its (its_to_gml ex_centre false true false)) 2%N = Some (gml_node 2%N (s2l "O") 0 (-1)) /\
  adj (gml_to_its (its_to_gml ex_centre false true false)) 1%N 3%N = Some (EA (Some (OP 0 2)) (Some (-2))).
Proof. vm_compute. repeat split. Qed.
