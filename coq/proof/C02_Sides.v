(** C02 — the centre stated on the two sides of the reaction: for the ITS built from a reactant graph G and a product
    graph H (ITSGraph, with or without ignore_aromaticity), a pair of atoms is joined in the centre iff it is bonded on
    some side and its order differs between the sides (by at least 1 under ignore_aromaticity), or both atoms are hydrogens.
    Uses C01's [union] (read-only import). *)
From Coq Require Import List NArith ZArith Bool Lia.
From SK Require Import lib.LGraph lib.C01_GraphLemmas model.C01_Model model.C02_Model
                       proof.C01_Proof proof.C02_Proof proof.C02_Opts proof.C02_Ctx.
Import ListNotations.
Local Open Scope Z_scope.

Definition restd (ia : bool) (e : iedge) : iedge := IE (e_G e) (e_H e) (std_ab ia (e_G e) (e_H e)).

Lemma gedges_construct_o ia bal G H :
  gedges (its_construct_ab ia bal G H) =
  map (fun e : N * N * iedge => let '(u, v, x) := e in (u, v, restd ia x)) (gedges (its_construct G H)).
Proof.
  unfold its_construct_ab, its_construct. simpl. rewrite map_app, !map_map. f_equal; apply map_ext; intros [[u v] o]; reflexivity.
Qed.

Lemma construct_o_bal ia bal G H : (bal = false \/ length (gnodes G) = length (gnodes H)) ->
  its_construct_ab ia bal G H = its_construct_ab ia false G H.
Proof.
  intros [->|E]; [reflexivity|]. destruct bal; [|reflexivity]. unfold its_construct_ab, base_is_G. rewrite E.
  rewrite Nat.leb_refl. reflexivity.
Qed.

Lemma adj_construct_o ia bal G H u v :
  adj (its_construct_ab ia bal G H) u v = option_map (restd ia) (adj (its_construct G H) u v).
Proof. unfold adj. rewrite gedges_construct_o. apply find_edge_map. Qed.

Lemma wf_construct_o ia G H : wf G -> wf H -> wf (its_construct_ab ia false G H).
Proof.
  intros WG WH. destruct (union G H WG WH) as (_ & _ & _ & _ & W). apply wf_intro.
  - exact (proj1 W).
  - intros a b x I. rewrite gedges_construct_o in I. apply in_map_iff in I. destruct I as ([[a' b'] y] & E & I).
    inversion E; subst. exact (wf_edge_nodes W I).
  - rewrite gedges_construct_o. apply (simple_map_attr (fun _ _ x => restd ia x)). apply wf_simple. exact W.
Qed.

Theorem centre_vs_sides ia bal (G H : mgraph) : wf G -> wf H ->
  (bal = false \/ length (gnodes G) = length (gnodes H)) ->
  let I := its_construct_ab ia bal G H in
  forall u v,
    (exists e, adj (get_rc I) u v = Some e) <->
    (adj G u v <> None \/ adj H u v <> None) /\
    ((if ia then 2 <= Z.abs (order_in G u v - order_in H u v) else order_in G u v <> order_in H u v) \/
     (is_h I u = true /\ is_h I v = true)).
Proof.
  intros WG WH Hb I u v. subst I. rewrite (construct_o_bal ia bal G H Hb).
  pose proof (wf_construct_o ia G H WG WH) as W.
  destruct (union G H WG WH) as (_ & _ & Hadj & _ & _).
  assert (forall e, adj (its_construct_ab ia false G H) u v = Some e <->
                    (adj G u v <> None \/ adj H u v <> None) /\
                    e = IE (order_in G u v) (order_in H u v) (std_ab ia (order_in G u v) (order_in H u v))) as Ha.
  { intros e. rewrite adj_construct_o. destruct (adj (its_construct G H) u v) as [[a b s]|] eqn:A; simpl.
    - apply Hadj in A. destruct A as (-> & -> & P & ->). unfold restd. simpl. split.
      + intros [= <-]. auto.
      + intros [_ ->]. reflexivity.
    - split; [discriminate|]. intros [P _]. exfalso.
      assert (adj (its_construct G H) u v = Some (IE (order_in G u v) (order_in H u v) (order_in G u v - order_in H u v))) as C
          by (apply Hadj; auto).
      congruence. }
  destruct ia.
  - pose proof (its_construct_ia_consistent false G H) as Hc. split.
    + intros (e & A). apply (rc_edges_ia _ W Hc) in A. destruct A as [A Hd]. apply Ha in A. destruct A as [P ->]. simpl in Hd. auto.
    + intros [P Hd]. eexists. apply (rc_edges_ia _ W Hc). split; [apply Ha; split; [exact P|reflexivity]|]. simpl. exact Hd.
  - pose proof (its_construct_noia_consistent false G H) as Hc. split.
    + intros (e & A). apply (rc_edges _ W Hc) in A. destruct A as [A Hd]. apply Ha in A. destruct A as [P ->]. simpl in Hd. auto.
    + intros [P Hd]. eexists. apply (rc_edges _ W Hc). split; [apply Ha; split; [exact P|reflexivity]|]. simpl. exact Hd.
Qed.

(** non-vacuity: the 3-atom example of proof/C02_Ctx.v, with and without ignore_aromaticity *)
Example C02_sides_nonvacuous :
  wf ia_G2 /\ wf ia_H2 /\ length (gnodes ia_G2) = length (gnodes ia_H2) /\
  adj (get_rc (its_construct_ab true true ia_G2 ia_H2)) 2%N 3%N = Some (IE 4 2 2) /\
  adj (get_rc (its_construct_ab true true ia_G2 ia_H2)) 1%N 2%N = None /\
  adj (get_rc (its_construct_ab false true ia_G2 ia_H2)) 1%N 2%N = Some (IE 3 2 1).
Proof.
  split; [|split; [|vm_compute; repeat split]].
  - apply wf_intro; simpl.
    + repeat constructor; simpl; intuition discriminate.
    + intros a b x I. repeat (destruct I as [E|I]; [inversion E; subst; simpl; intuition discriminate|]). destruct I.
    + repeat constructor.
  - apply wf_intro; simpl.
    + repeat constructor; simpl; intuition discriminate.
    + intros a b x I. repeat (destruct I as [E|I]; [inversion E; subst; simpl; intuition discriminate|]). destruct I.
    + repeat constructor.
Qed.
