From stdpp Require Import gmap strings sets.
From SK Require Import model.C15_Model.
Lemma stub : empty_net = empty_net. Proof. reflexivity. Qed.
