(** C15 — proofs about the executable model of CRNHyperGraph (model/C15_Model.v).

    Contents
      1. the store invariant [Inv] and its parameterised form [PInv] used inside
         the two loops of remove_rxn
      2. index lemmas (idx_add / idx_touch / discard / prune)
      3. preservation of [Inv] by every operation, every outcome
      4. worlds: step / reachable / frame
      5. id generation: generated ids are fresh; the loop bound suffices
      6. refinement to the abstract store  id ↦ reaction  (the [edges] map)
      7. incidence = products − reactants
      8. non-vacuity examples *)
From stdpp Require Import gmap strings sets pretty.
From SK Require Import model.C15_Model.
Local Open Scope string_scope.

(** * 1. The invariant *)

Definition producers (E : gmap string rxn) (x : string) : gset string :=
  dom (filter (λ p, x ∈ dom (r_rhs p.2)) E).
Definition consumers (E : gmap string rxn) (x : string) : gset string :=
  dom (filter (λ p, x ∈ dom (r_lhs p.2)) E).

Lemma elem_of_producers E x e :
  e ∈ producers E x ↔ ∃ rx, E !! e = Some rx ∧ x ∈ dom (r_rhs rx).
Proof.
  unfold producers. rewrite elem_of_dom. split.
  - intros [rx Hrx]. apply map_filter_lookup_Some in Hrx as [H1 H2]. eauto.
  - intros (rx & H1 & H2). exists rx. apply map_filter_lookup_Some. done.
Qed.
Lemma elem_of_consumers E x e :
  e ∈ consumers E x ↔ ∃ rx, E !! e = Some rx ∧ x ∈ dom (r_lhs rx).
Proof.
  unfold consumers. rewrite elem_of_dom. split.
  - intros [rx Hrx]. apply map_filter_lookup_Some in Hrx as [H1 H2]. eauto.
  - intros (rx & H1 & H2). exists rx. apply map_filter_lookup_Some. done.
Qed.

(** occurring species of an edge map *)
Definition occurs (E : gmap string rxn) (x : string) : Prop :=
  ∃ e rx, E !! e = Some rx ∧ x ∈ rxn_species rx.

Record Inv (s : net) : Prop := {
  inv_in : ∀ x, default ∅ (s_in s !! x) = producers (edges s) x;
  inv_out : ∀ x, default ∅ (s_out s !! x) = consumers (edges s) x;
  inv_occ : ∀ x, occurs (edges s) x → x ∈ species s;
  inv_sp : ∀ x, x ∈ species s → occurs (edges s) x ∨ x ∈ kept s;
  inv_mol : dom (mol s) ⊆ species s;
  inv_nodup : NoDup (order s);
  inv_order : ∀ e, e ∈ order s ↔ is_Some (edges s !! e);
  inv_nonempty : ∀ e rx, edges s !! e = Some rx → rxn_empty rx = false;
  inv_rule : ∀ e rx, edges s !! e = Some rx → r_rule rx ≠ ""
}.

(** The index / species / label part of the invariant, with a reaction id [e]
    that has already been popped from the edge map but is still listed in the
    out-index of the species in [Dout] and the in-index of those in [Din];
    [P] are species whose orphan test is still due. *)
Record PInv (e : string) (Dout Din P : gset string) (s : net) : Prop := {
  p_in : ∀ x e', e' ∈ default ∅ (s_in s !! x) ↔
                 (∃ rx, edges s !! e' = Some rx ∧ x ∈ dom (r_rhs rx)) ∨ (e' = e ∧ x ∈ Din);
  p_out : ∀ x e', e' ∈ default ∅ (s_out s !! x) ↔
                 (∃ rx, edges s !! e' = Some rx ∧ x ∈ dom (r_lhs rx)) ∨ (e' = e ∧ x ∈ Dout);
  p_occ : ∀ x, occurs (edges s) x → x ∈ species s;
  p_sp : ∀ x, x ∈ species s → occurs (edges s) x ∨ x ∈ kept s ∨ x ∈ Dout ∪ Din ∪ P;
  p_mol : dom (mol s) ⊆ species s
}.

Lemma Inv_PInv e s : Inv s → PInv e ∅ ∅ ∅ s.
Proof.
  intros HI. split.
  - intros x e'. rewrite (inv_in _ HI), elem_of_producers. set_solver.
  - intros x e'. rewrite (inv_out _ HI), elem_of_consumers. set_solver.
  - apply HI.
  - intros x Hx. destruct (inv_sp _ HI x Hx); auto.
  - apply HI.
Qed.

Lemma PInv_Inv e s :
  PInv e ∅ ∅ ∅ s → NoDup (order s) → (∀ e', e' ∈ order s ↔ is_Some (edges s !! e')) →
  (∀ e' rx, edges s !! e' = Some rx → rxn_empty rx = false) →
  (∀ e' rx, edges s !! e' = Some rx → r_rule rx ≠ "") → Inv s.
Proof.
  intros HP Hnd Hord Hne Hrule. split; try done.
  - intros x. apply set_eq. intros e'. rewrite (p_in _ _ _ _ _ HP), elem_of_producers. set_solver.
  - intros x. apply set_eq. intros e'. rewrite (p_out _ _ _ _ _ HP), elem_of_consumers. set_solver.
  - apply HP.
  - intros x Hx. destruct (p_sp _ _ _ _ _ HP x Hx) as [?|[?|?]]; auto. set_solver.
  - apply HP.
Qed.

Lemma Inv_init : Inv empty_net.
Proof.
  split; cbn.
  - intros x. rewrite lookup_empty. cbn. apply set_eq. intros e.
    rewrite elem_of_producers. setoid_rewrite lookup_empty. set_solver.
  - intros x. rewrite lookup_empty. cbn. apply set_eq. intros e.
    rewrite elem_of_consumers. setoid_rewrite lookup_empty. set_solver.
  - intros x (e & rx & H & _). by rewrite lookup_empty in H.
  - set_solver.
  - set_solver.
  - constructor.
  - intros e. rewrite lookup_empty. split; [by intros ?%elem_of_nil|by intros [? ?]].
  - intros e rx. by rewrite lookup_empty.
  - intros e rx. by rewrite lookup_empty.
Qed.

(** * 2. Index lemmas *)

Lemma idx_add_lookup e ks m x :
  default ∅ (idx_add e ks m !! x) =
  (if decide (x ∈ ks) then {[e]} ∪ default ∅ (m !! x) else default ∅ (m !! x)).
Proof.
  unfold idx_add. revert ks.
  apply (set_fold_ind_L (λ acc (ks : gset string), default ∅ (acc !! x) =
           if decide (x ∈ ks) then {[e]} ∪ default ∅ (m !! x) else default ∅ (m !! x))).
  - destruct (decide _) as [H|H]; [set_solver|done].
  - intros y X acc Hy IH. destruct (decide (x = y)) as [->|Hne].
    + rewrite lookup_insert. simpl. rewrite IH. destruct (decide (y ∈ X)); [set_solver|].
      destruct (decide (y ∈ {[y]} ∪ X)); [done|set_solver].
    + rewrite lookup_insert_ne by done. rewrite IH.
      destruct (decide (x ∈ X)), (decide (x ∈ {[y]} ∪ X)); try done; set_solver.
Qed.

Lemma idx_touch_lookup ks m x : default ∅ (idx_touch ks m !! x) = default ∅ (m !! x).
Proof.
  unfold idx_touch. revert ks.
  apply (set_fold_ind_L (λ acc (_ : gset string), default ∅ (acc !! x) = default ∅ (m !! x))); [done|].
  intros y X acc Hy IH. destruct (decide (x = y)) as [->|Hne].
  - rewrite lookup_insert. simpl. done.
  - rewrite lookup_insert_ne by done. done.
Qed.

Lemma default_delete_empty (m : gmap string (gset string)) x y :
  default ∅ (m !! x) = ∅ → default ∅ (delete x m !! y) = default ∅ (m !! y).
Proof.
  intros Hx. destruct (decide (y = x)) as [->|Hne].
  - by rewrite lookup_delete, Hx.
  - by rewrite lookup_delete_ne.
Qed.

Lemma default_discard (m : gmap string (gset string)) e x y :
  default ∅ (<[x := default ∅ (m !! x) ∖ {[e]}]> m !! y) =
  if decide (y = x) then default ∅ (m !! x) ∖ {[e]} else default ∅ (m !! y).
Proof.
  destruct (decide (y = x)) as [->|Hne].
  - by rewrite lookup_insert.
  - by rewrite lookup_insert_ne.
Qed.

Lemma default_alter_empty (m : gmap string (gset string)) x y :
  default ∅ (alter (λ _, ∅) x m !! y) = if decide (y = x) then ∅ else default ∅ (m !! y).
Proof.
  destruct (decide (y = x)) as [->|Hne].
  - rewrite lookup_alter. by destruct (m !! x).
  - by rewrite lookup_alter_ne.
Qed.

(** * 3. Preservation *)

Lemma rxn_empty_false rx : rxn_empty rx = false ↔ rxn_species rx ≠ ∅.
Proof.
  unfold rxn_empty, rxn_species. rewrite bool_decide_eq_false. split.
  - intros H Hd. apply H. apply empty_union_L in Hd as [H1 H2].
    by apply dom_empty_inv_L in H1, H2.
  - intros H [H1 H2]. apply H. rewrite H1, H2. set_solver.
Qed.

Lemma set_counters_Inv s c : Inv s → Inv (set_counters s c).
Proof. intros [? ? ? ? ? ? ? ? ?]. by split. Qed.

Lemma register_Inv s e r :
  Inv s → edges s !! e = None → rxn_empty r = false → r_rule r ≠ "" → Inv (register s e r).
Proof.
  intros HI Hn Hne Hrule. split; cbn [register species edges order s_in s_out mol kept].
  - intros x. rewrite idx_add_lookup, idx_touch_lookup, (inv_in _ HI).
    apply set_eq. intros e'. rewrite elem_of_producers.
    destruct (decide (e' = e)) as [->|Hd].
    + rewrite lookup_insert. destruct (decide _) as [Hx|Hx].
      * split; [eauto|set_solver].
      * rewrite elem_of_producers, Hn. split; [by intros (?&?&?)|]. intros (?&[= <-]&?). done.
    + rewrite lookup_insert_ne by done. destruct (decide _); rewrite ?elem_of_union, elem_of_producers; set_solver.
  - intros x. rewrite idx_add_lookup, idx_touch_lookup, (inv_out _ HI).
    apply set_eq. intros e'. rewrite elem_of_consumers.
    destruct (decide (e' = e)) as [->|Hd].
    + rewrite lookup_insert. destruct (decide _) as [Hx|Hx].
      * split; [eauto|set_solver].
      * rewrite elem_of_consumers, Hn. split; [by intros (?&?&?)|]. intros (?&[= <-]&?). done.
    + rewrite lookup_insert_ne by done. destruct (decide _); rewrite ?elem_of_union, elem_of_consumers; set_solver.
  - intros x (e' & rx & He' & Hx). destruct (decide (e' = e)) as [->|Hd].
    + rewrite lookup_insert in He'. injection He' as <-. set_solver.
    + rewrite lookup_insert_ne in He' by done. apply elem_of_union_l, (inv_occ _ HI). by exists e', rx.
  - intros x [Hx|Hx]%elem_of_union.
    + destruct (inv_sp _ HI x Hx) as [(e' & rx & He' & Hx')|?]; [|by right].
      left. exists e', rx. split; [|done]. rewrite lookup_insert_ne; [done|]. intros <-. congruence.
    + left. exists e, r. by rewrite lookup_insert.
  - pose proof (inv_mol _ HI). set_solver.
  - apply NoDup_app. split; [apply HI|]. split; [|apply NoDup_singleton].
    intros e' He' ->%elem_of_list_singleton. apply (inv_order _ HI) in He'. rewrite Hn in He'. by destruct He'.
  - intros e'. rewrite elem_of_app, elem_of_list_singleton, (inv_order _ HI).
    destruct (decide (e' = e)) as [->|Hd].
    + rewrite lookup_insert. split; eauto.
    + rewrite lookup_insert_ne by done. split; [by intros [?|?]|by left].
  - intros e' rx. destruct (decide (e' = e)) as [->|Hd].
    + rewrite lookup_insert. by intros [= <-].
    + rewrite lookup_insert_ne by done. apply HI.
  - intros e' rx. destruct (decide (e' = e)) as [->|Hd].
    + rewrite lookup_insert. by intros [= <-].
    + rewrite lookup_insert_ne by done. apply HI.
Qed.

(** ids produced by the generator are not keys of the edge map *)
Lemma fresh_spec fuel rule cnt E c e :
  fresh fuel rule cnt E = Some (c, e) → E !! e = None ∧ e = gen_id rule c ∧ (cnt < c)%N.
Proof.
  revert cnt. induction fuel as [|f IH]; intros cnt; cbn; [done|].
  destruct (decide _) as [Hs|Hs].
  - intros H. apply IH in H as (?&?&?). split_and!; [done..|lia].
  - intros [= <- <-]. split_and!; [by apply eq_None_not_Some|done|lia].
Qed.

Lemma next_id_fresh s rule c e : next_id s rule = Some (c, e) → edges s !! e = None.
Proof. unfold next_id. intros H. by apply fresh_spec in H as (?&?&?). Qed.

Lemma norm_rule_ne rule : norm_rule rule ≠ "".
Proof. unfold norm_rule. by destruct (decide _). Qed.

Lemma add_Inv s l r rule eid : Inv s → Inv (add s l r rule eid).1.1.
Proof.
  intros HI. unfold add. destruct eid as [e|].
  - destruct (decide _) as [Hs|Hs]; [done|]. apply eq_None_not_Some in Hs.
    destruct (rxn_empty _) eqn:Hem; [done|]. cbn.
    apply register_Inv; [done..|apply norm_rule_ne].
  - destruct (next_id _ _) as [[c e]|] eqn:Hid; [|done].
    apply next_id_fresh in Hid.
    destruct (rxn_empty _) eqn:Hem; cbn; [by apply set_counters_Inv|].
    apply register_Inv; [by apply set_counters_Inv|done|done|apply norm_rule_ne].
Qed.

(** ** remove_rxn *)

Lemma prune_orphan_PInv e Dout Din P x s :
  PInv e Dout Din P s → P ⊆ {[x]} → PInv e Dout Din ∅ (prune_orphan x s).
Proof.
  intros HP HPx. unfold prune_orphan. destruct (decide _) as [[Hi Ho]|Hno].
  - assert (Hnocc : ¬ occurs (edges s) x).
    { intros (e' & rx & He' & [Hx|Hx]%elem_of_union).
      - assert (e' ∈ default ∅ (s_out s !! x)) by (apply (p_out _ _ _ _ _ HP); left; eauto). set_solver.
      - assert (e' ∈ default ∅ (s_in s !! x)) by (apply (p_in _ _ _ _ _ HP); left; eauto). set_solver. }
    assert (HDin : x ∉ Din).
    { intros Hx. assert (e ∈ default ∅ (s_in s !! x)) by (apply (p_in _ _ _ _ _ HP); by right). set_solver. }
    assert (HDout : x ∉ Dout).
    { intros Hx. assert (e ∈ default ∅ (s_out s !! x)) by (apply (p_out _ _ _ _ _ HP); by right). set_solver. }
    split; cbn.
    + intros y e'. rewrite default_delete_empty by done. apply HP.
    + intros y e'. rewrite default_delete_empty by done. apply HP.
    + intros y Hy. apply elem_of_difference. split; [by apply HP|]. by intros ->%elem_of_singleton.
    + intros y [Hy Hne]%elem_of_difference.
      destruct (p_sp _ _ _ _ _ HP y Hy) as [?|[?|?]]; auto. right; right. set_solver.
    + rewrite dom_delete_L. pose proof (p_mol _ _ _ _ _ HP). set_solver.
  - split; try apply HP. intros y Hy.
    destruct (p_sp _ _ _ _ _ HP y Hy) as [?|[?|Hy']]; auto.
    destruct (decide (y = x)) as [->|Hne]; [|right; right; set_solver].
    apply not_and_l in Hno as [Hi|Ho].
    + apply set_choose_L in Hi as [e' He']. apply (p_in _ _ _ _ _ HP) in He' as [(rx&?&?)|[-> ?]].
      * left. exists e', rx. unfold rxn_species. set_solver.
      * right; right. set_solver.
    + apply set_choose_L in Ho as [e' He']. apply (p_out _ _ _ _ _ HP) in He' as [(rx&?&?)|[-> ?]].
      * left. exists e', rx. unfold rxn_species. set_solver.
      * right; right. set_solver.
Qed.

Lemma out_discard_PInv e Dout Din x s :
  edges s !! e = None → PInv e Dout Din ∅ s → PInv e (Dout ∖ {[x]}) Din {[x]} (out_discard e x s).
Proof.
  intros Hn HP. split; cbn.
  - apply HP.
  - intros y e'. rewrite default_discard. destruct (decide (y = x)) as [->|Hne].
    + rewrite elem_of_difference, (p_out _ _ _ _ _ HP). split.
      * intros [[?|[-> ?]] Hne]; [by left|set_solver].
      * intros [(rx&He'&?)|[-> ?]]; [|set_solver]. split; [left; eauto|].
        intros ->%elem_of_singleton. congruence.
    + rewrite (p_out _ _ _ _ _ HP). set_solver.
  - apply HP.
  - intros y Hy. destruct (p_sp _ _ _ _ _ HP y Hy) as [?|[?|?]]; auto.
    right; right. destruct (decide (y = x)); set_solver.
  - apply HP.
Qed.

Lemma in_discard_PInv e Dout Din x s :
  edges s !! e = None → PInv e Dout Din ∅ s → PInv e Dout (Din ∖ {[x]}) {[x]} (in_discard e x s).
Proof.
  intros Hn HP. split; cbn.
  - intros y e'. rewrite default_discard. destruct (decide (y = x)) as [->|Hne].
    + rewrite elem_of_difference, (p_in _ _ _ _ _ HP). split.
      * intros [[?|[-> ?]] Hne]; [by left|set_solver].
      * intros [(rx&He'&?)|[-> ?]]; [|set_solver]. split; [left; eauto|].
        intros ->%elem_of_singleton. congruence.
    + rewrite (p_in _ _ _ _ _ HP). set_solver.
  - apply HP.
  - apply HP.
  - intros y Hy. destruct (p_sp _ _ _ _ _ HP y Hy) as [?|[?|?]]; auto.
    right; right. destruct (decide (y = x)); set_solver.
  - apply HP.
Qed.

(** the parts of the state no loop of remove_rxn touches *)
Definition same_frame (s s' : net) : Prop :=
  edges s' = edges s ∧ order s' = order s ∧ kept s' = kept s ∧ counters s' = counters s.

Lemma prune_orphan_frame x s : same_frame s (prune_orphan x s).
Proof. unfold prune_orphan. by destruct (decide _). Qed.

Lemma fold_out_PInv e Dout Din s0 D :
  edges s0 !! e = None → PInv e Dout Din ∅ s0 →
  let s' := set_fold (λ x acc, prune_orphan x (out_discard e x acc)) s0 D in
  PInv e (Dout ∖ D) Din ∅ s' ∧ same_frame s0 s'.
Proof.
  intros Hn HP. cbn. revert D.
  apply (set_fold_ind_L (λ acc (X : gset string), PInv e (Dout ∖ X) Din ∅ acc ∧ same_frame s0 acc)).
  - rewrite difference_empty_L. done.
  - intros x X acc Hx [IH (HE & HO & HK & HC)].
    assert (Dout ∖ ({[x]} ∪ X) = (Dout ∖ X) ∖ {[x]}) as -> by set_solver.
    split.
    + eapply prune_orphan_PInv; [|done]. apply out_discard_PInv; [|done]. by rewrite HE.
    + destruct (prune_orphan_frame x (out_discard e x acc)) as (?&?&?&?).
      unfold same_frame. cbn in *. split_and!; congruence.
Qed.

Lemma fold_in_PInv e Dout Din s0 D :
  edges s0 !! e = None → PInv e Dout Din ∅ s0 →
  let s' := set_fold (λ x acc, prune_orphan x (in_discard e x acc)) s0 D in
  PInv e Dout (Din ∖ D) ∅ s' ∧ same_frame s0 s'.
Proof.
  intros Hn HP. cbn. revert D.
  apply (set_fold_ind_L (λ acc (X : gset string), PInv e Dout (Din ∖ X) ∅ acc ∧ same_frame s0 acc)).
  - rewrite difference_empty_L. done.
  - intros x X acc Hx [IH (HE & HO & HK & HC)].
    assert (Din ∖ ({[x]} ∪ X) = (Din ∖ X) ∖ {[x]}) as -> by set_solver.
    split.
    + eapply prune_orphan_PInv; [|done]. apply in_discard_PInv; [|done]. by rewrite HE.
    + destruct (prune_orphan_frame x (in_discard e x acc)) as (?&?&?&?).
      unfold same_frame. cbn in *. split_and!; congruence.
Qed.

(** what remove_rxn does to the abstract store, and the invariant of the result *)
Lemma remove_rxn_full s e rx :
  Inv s → edges s !! e = Some rx →
  let s' := (remove_rxn s e).1 in
  (remove_rxn s e).2 = None ∧ Inv s' ∧ edges s' = delete e (edges s) ∧
  order s' = filter (λ e', e' ≠ e) (order s) ∧ kept s' = kept s ∧ counters s' = counters s.
Proof.
  intros HI He. unfold remove_rxn. rewrite He. cbn.
  set (s1 := Net (species s) (delete e (edges s)) (filter (λ e', e' ≠ e) (order s))
                 (s_in s) (s_out s) (counters s) (mol s) (kept s)).
  assert (Hn1 : edges s1 !! e = None) by apply lookup_delete.
  assert (HP1 : PInv e (dom (r_lhs rx)) (dom (r_rhs rx)) ∅ s1).
  { split; cbn.
    - intros x e'. rewrite (inv_in _ HI), elem_of_producers.
      destruct (decide (e' = e)) as [->|Hd].
      + rewrite lookup_delete, He. split.
        * intros (?&[= <-]&?). by right.
        * intros [(?&?&?)|[_ ?]]; [done|eauto].
      + rewrite lookup_delete_ne by done. set_solver.
    - intros x e'. rewrite (inv_out _ HI), elem_of_consumers.
      destruct (decide (e' = e)) as [->|Hd].
      + rewrite lookup_delete, He. split.
        * intros (?&[= <-]&?). by right.
        * intros [(?&?&?)|[_ ?]]; [done|eauto].
      + rewrite lookup_delete_ne by done. set_solver.
    - intros x (e' & rx' & He' & Hx). apply lookup_delete_Some in He' as [? He'].
      apply (inv_occ _ HI). by exists e', rx'.
    - intros x Hx. destruct (inv_sp _ HI x Hx) as [(e' & rx' & He' & Hx')|?]; [|auto].
      destruct (decide (e' = e)) as [->|Hd].
      + rewrite He in He'. injection He' as <-. right; right. unfold rxn_species in Hx'. set_solver.
      + left. exists e', rx'. by rewrite lookup_delete_ne.
    - apply HI. }
  destruct (fold_out_PInv e _ _ s1 (dom (r_lhs rx)) Hn1 HP1) as [HP2 HF2].
  set (s2 := set_fold (λ x acc, prune_orphan x (out_discard e x acc)) s1 (dom (r_lhs rx))) in *.
  assert (Hn2 : edges s2 !! e = None) by (destruct HF2 as [-> _]; done).
  destruct (fold_in_PInv e _ _ s2 (dom (r_rhs rx)) Hn2 HP2) as [HP3 HF3].
  set (s3 := set_fold (λ x acc, prune_orphan x (in_discard e x acc)) s2 (dom (r_rhs rx))) in *.
  rewrite !difference_diag_L in HP3.
  destruct HF2 as (HE2 & HO2 & HK2 & HC2), HF3 as (HE3 & HO3 & HK3 & HC3).
  assert (HE : edges s3 = delete e (edges s)) by (rewrite HE3, HE2; done).
  assert (HO : order s3 = filter (λ e', e' ≠ e) (order s)) by (rewrite HO3, HO2; done).
  split_and!; [done| |done|done|by rewrite HK3, HK2|by rewrite HC3, HC2].
  apply (PInv_Inv e); [done|..].
  - rewrite HO. apply NoDup_filter, HI.
  - intros e'. rewrite HO, HE, elem_of_list_filter, (inv_order _ HI).
    destruct (decide (e' = e)) as [->|Hd].
    + rewrite lookup_delete. split; [by intros [? _]|by intros [? ?]].
    + rewrite lookup_delete_ne by done. tauto.
  - intros e' rx'. rewrite HE. intros [_ ?]%lookup_delete_Some. by eapply (inv_nonempty _ HI).
  - intros e' rx'. rewrite HE. intros [_ ?]%lookup_delete_Some. by eapply (inv_rule _ HI).
Qed.

Lemma remove_rxn_Inv s e : Inv s → Inv (remove_rxn s e).1.
Proof.
  intros HI. destruct (edges s !! e) as [rx|] eqn:He.
  - by apply (remove_rxn_full s e rx).
  - unfold remove_rxn. by rewrite He.
Qed.

(** ** molecule labels *)

Lemma assign_mol_Inv s x m : Inv s → Inv (assign_mol s x m).1.
Proof.
  intros HI. unfold assign_mol. destruct (decide _) as [Hx|Hx]; [|done].
  destruct HI as [? ? ? ? Hm ? ? ? ?]. split; try done. cbn. rewrite dom_insert_L. set_solver.
Qed.

Lemma set_mol_fold_dom (S : gset string) mp (m0 : gmap string string) :
  dom m0 ⊆ S →
  dom (foldl (λ acc p, if decide (p.1 ∈ S) then <[ p.1 := p.2 ]> acc else acc) m0 mp) ⊆ S.
Proof.
  revert m0. induction mp as [|p mp IH]; intros m0 H0; cbn; [done|].
  apply IH. destruct (decide _); [|done]. rewrite dom_insert_L. set_solver.
Qed.

Lemma set_mol_map_Inv s mp strict clear : Inv s → Inv (set_mol_map s mp strict clear).1.
Proof.
  intros HI. unfold set_mol_map. destruct (_ && _); [done|].
  destruct HI as [? ? ? ? Hm ? ? ? ?]. split; try done. cbn.
  apply set_mol_fold_dom. destruct clear; [set_solver|done].
Qed.

(** ** remove_species *)

Definition strip (x : string) (rx : rxn) : rxn :=
  Rxn (r_rule rx) (delete x (r_lhs rx)) (delete x (r_rhs rx)).
(** the abstract effect on one stored reaction: [x] is deleted from both sides,
    every other coefficient is untouched; the reaction is dropped if nothing is left *)
Definition strip_keep (x : string) (rx : rxn) : option rxn :=
  if rxn_empty (strip x rx) then None else Some (strip x rx).

Lemma lookup_strip (E : gmap string rxn) x e rx' :
  omap (strip_keep x) E !! e = Some rx' ↔
  ∃ rx, E !! e = Some rx ∧ rx' = strip x rx ∧ rxn_empty (strip x rx) = false.
Proof.
  rewrite lookup_omap_Some. unfold strip_keep. split.
  - intros (rx & Hk & He). exists rx. destruct (rxn_empty _); by simplify_eq.
  - intros (rx & He & -> & Hem). exists rx. by rewrite Hem.
Qed.

Lemma strip_nonempty_l x y rx : y ≠ x → y ∈ dom (r_lhs rx) → rxn_empty (strip x rx) = false.
Proof.
  intros Hne Hy. apply rxn_empty_false. unfold rxn_species, strip. cbn.
  unfold side in *; rewrite !dom_delete_L. set_solver.
Qed.
Lemma strip_nonempty_r x y rx : y ≠ x → y ∈ dom (r_rhs rx) → rxn_empty (strip x rx) = false.
Proof.
  intros Hne Hy. apply rxn_empty_false. unfold rxn_species, strip. cbn.
  unfold side in *; rewrite !dom_delete_L. set_solver.
Qed.
Lemma strip_empty_occ x rx :
  rxn_empty rx = false → rxn_empty (strip x rx) = true → x ∈ dom (r_lhs rx) ∨ x ∈ dom (r_rhs rx).
Proof.
  intros Hne Hem. apply rxn_empty_false in Hne. apply set_choose_L in Hne as [y Hy].
  destruct (decide (y = x)) as [->|Hd]; [unfold rxn_species in Hy; set_solver|].
  apply elem_of_union in Hy as [Hy|Hy].
  - by rewrite (strip_nonempty_l x y rx) in Hem.
  - by rewrite (strip_nonempty_r x y rx) in Hem.
Qed.

Lemma strip_E2 (E : gmap string rxn) x (ins outs : gset string) :
  (∀ e rx, E !! e = Some rx → (e ∈ ins ↔ x ∈ dom (r_rhs rx)) ∧ (e ∈ outs ↔ x ∈ dom (r_lhs rx))) →
  (∀ e rx, E !! e = Some rx → rxn_empty rx = false) →
  let E1 := map_imap (λ e rx, Some (strip_rxn x ins outs e rx)) E in
  let dead := dom (filter (λ p, p.1 ∈ ins ∪ outs ∧ rxn_empty p.2 = true) E1) in
  (∀ e, e ∈ dead ↔ ∃ rx, E !! e = Some rx ∧ rxn_empty (strip x rx) = true) ∧
  filter (λ p, p.1 ∉ dead) E1 = omap (strip_keep x) E.
Proof.
  intros Hio Hne E1 dead.
  assert (HE1 : ∀ e, E1 !! e = strip x <$> E !! e).
  { intros e. unfold E1. rewrite map_lookup_imap. destruct (E !! e) as [rx|] eqn:He; cbn; [|done].
    f_equal. unfold strip_rxn, strip. destruct (Hio e rx He) as [Hi Ho]. f_equal.
    - destruct (decide _); [done|]. unfold side in *. rewrite delete_notin; [done|]. apply not_elem_of_dom. tauto.
    - destruct (decide _); [done|]. unfold side in *. rewrite delete_notin; [done|]. apply not_elem_of_dom. tauto. }
  assert (Hdead : ∀ e, e ∈ dead ↔ ∃ rx, E !! e = Some rx ∧ rxn_empty (strip x rx) = true).
  { intros e. unfold dead. rewrite elem_of_dom. unfold is_Some.
    setoid_rewrite map_filter_lookup_Some. cbn. setoid_rewrite HE1. split.
    - intros (rx' & Hl & _ & Hem). destruct (E !! e) as [rx|] eqn:He; simplify_eq/=. eauto.
    - intros (rx & He & Hem). exists (strip x rx). rewrite He. split; [done|]. split; [|done].
      destruct (Hio e rx He) as [Hi Ho].
      destruct (strip_empty_occ x rx (Hne e rx He) Hem); set_solver. }
  split; [done|].
  apply map_eq. intros e. apply option_eq. intros rx'.
  rewrite map_filter_lookup_Some, lookup_strip, HE1, Hdead. cbn. split.
  - intros [Hl Hnd]. destruct (E !! e) as [rx|] eqn:He; simplify_eq/=. exists rx.
    split_and!; [done..|]. destruct (rxn_empty (strip x rx)) eqn:Hem; [|done].
    destruct Hnd. eauto.
  - intros (rx & He & -> & Hem). rewrite He. split; [done|].
    intros (rx2 & ? & ?). simplify_eq. congruence.
Qed.

Lemma strip_state_PInv s x O C K' P :
  Inv s → x ∈ K' ∨ x ∈ P → kept s ⊆ K' →
  PInv "" ∅ ∅ P (Net (species s) (omap (strip_keep x) (edges s)) O
                     (alter (λ _, ∅) x (s_in s)) (alter (λ _, ∅) x (s_out s)) C (mol s) K').
Proof.
  intros HI Hx HK. split; cbn.
  - intros y e'. rewrite default_alter_empty. destruct (decide (y = x)) as [->|Hne].
    + split; [set_solver|]. intros [(rx' & H & Hy)|[_ ?]]; [|set_solver].
      apply lookup_strip in H as (rx & He & -> & Hem). cbn in Hy. unfold side in *; rewrite dom_delete_L in Hy. set_solver.
    + rewrite (inv_in _ HI), elem_of_producers. split.
      * intros (rx & He & Hy). left. exists (strip x rx). split.
        -- apply lookup_strip. exists rx. split_and!; [done..|]. by apply (strip_nonempty_r x y).
        -- cbn. unfold side in *; rewrite dom_delete_L. set_solver.
      * intros [(rx' & H & Hy)|[_ ?]]; [|set_solver].
        apply lookup_strip in H as (rx & He & -> & Hem). exists rx. split; [done|].
        cbn in Hy. unfold side in *; rewrite dom_delete_L in Hy. set_solver.
  - intros y e'. rewrite default_alter_empty. destruct (decide (y = x)) as [->|Hne].
    + split; [set_solver|]. intros [(rx' & H & Hy)|[_ ?]]; [|set_solver].
      apply lookup_strip in H as (rx & He & -> & Hem). cbn in Hy. unfold side in *; rewrite dom_delete_L in Hy. set_solver.
    + rewrite (inv_out _ HI), elem_of_consumers. split.
      * intros (rx & He & Hy). left. exists (strip x rx). split.
        -- apply lookup_strip. exists rx. split_and!; [done..|]. by apply (strip_nonempty_l x y).
        -- cbn. unfold side in *; rewrite dom_delete_L. set_solver.
      * intros [(rx' & H & Hy)|[_ ?]]; [|set_solver].
        apply lookup_strip in H as (rx & He & -> & Hem). exists rx. split; [done|].
        cbn in Hy. unfold side in *; rewrite dom_delete_L in Hy. set_solver.
  - intros y (e' & rx' & H & Hy). apply lookup_strip in H as (rx & He & -> & Hem).
    apply (inv_occ _ HI). exists e', rx. split; [done|].
    unfold rxn_species, strip in *. cbn in Hy. unfold side in *; rewrite !dom_delete_L in Hy. set_solver.
  - intros y Hy. destruct (decide (y = x)) as [->|Hne]; [set_solver|].
    destruct (inv_sp _ HI y Hy) as [(e' & rx & He & Hy')|?]; [|set_solver].
    left. exists e', (strip x rx). apply elem_of_union in Hy' as [Hy'|Hy'].
    + split; [apply lookup_strip; exists rx; split_and!; [done..|by apply (strip_nonempty_l x y)]|].
      unfold rxn_species, strip. cbn. unfold side in *; rewrite !dom_delete_L. set_solver.
    + split; [apply lookup_strip; exists rx; split_and!; [done..|by apply (strip_nonempty_r x y)]|].
      unfold rxn_species, strip. cbn. unfold side in *; rewrite !dom_delete_L. set_solver.
  - apply HI.
Qed.

Lemma remove_species_full s x prune :
  Inv s → x ∈ species s →
  let s' := (remove_species s x prune).1 in
  (remove_species s x prune).2 = None ∧ Inv s' ∧ edges s' = omap (strip_keep x) (edges s).
Proof.
  intros HI Hx. unfold remove_species. rewrite decide_True by done.
  rewrite decide_True; cycle 1.
  { intros e [H|H]%elem_of_union; apply elem_of_dom.
    - rewrite (inv_in _ HI) in H. apply elem_of_producers in H as (?&?&?). eauto.
    - rewrite (inv_out _ HI) in H. apply elem_of_consumers in H as (?&?&?). eauto. }
  destruct (strip_E2 (edges s) x (default ∅ (s_in s !! x)) (default ∅ (s_out s !! x))) as [Hdead HE2].
  { intros e rx He. rewrite (inv_in _ HI), (inv_out _ HI), elem_of_producers, elem_of_consumers.
    split; (split; [by intros (?&?&?); simplify_eq|eauto]). }
  { apply HI. }
  cbv zeta. rewrite HE2. clear HE2.
  set (dead := dom (filter _ (map_imap _ (edges s)))) in *.
  assert (Hnd : NoDup (filter (λ e', e' ∉ dead) (order s))) by apply NoDup_filter, HI.
  assert (Hord : ∀ e', e' ∈ filter (λ e', e' ∉ dead) (order s) ↔ is_Some (omap (strip_keep x) (edges s) !! e')).
  { intros e'. rewrite elem_of_list_filter, (inv_order _ HI), Hdead. unfold is_Some.
    setoid_rewrite lookup_strip. split.
    - intros [Hnd' [rx He]]. exists (strip x rx), rx. split_and!; [done..|].
      destruct (rxn_empty (strip x rx)) eqn:Hem; [|done]. destruct Hnd'. eauto.
    - intros (rx' & rx & He & -> & Hem). split; [|eauto]. intros (rx2 & ? & ?). simplify_eq. congruence. }
  assert (Hne : ∀ e' rx', omap (strip_keep x) (edges s) !! e' = Some rx' → rxn_empty rx' = false).
  { intros e' rx' (rx & He & -> & Hem)%lookup_strip. done. }
  assert (Hrule : ∀ e' rx', omap (strip_keep x) (edges s) !! e' = Some rx' → r_rule rx' ≠ "").
  { intros e' rx' (rx & He & -> & Hem)%lookup_strip. cbn. by eapply (inv_rule _ HI). }
  destruct prune; cbn [fst snd].
  - split; [done|].
    match goal with |- context [prune_orphan x ?s1] => set (s1' := s1) end.
    assert (HP : PInv "" ∅ ∅ {[x]} s1') by (apply strip_state_PInv; [done|set_solver|done]).
    apply (prune_orphan_PInv _ _ _ _ x) in HP; [|done].
    destruct (prune_orphan_frame x s1') as (HE & HO & _ & _). cbn in HE, HO.
    split; [|done]. apply (PInv_Inv ""); [done|..]; rewrite ?HE, ?HO; try done.
  - split; [done|]. split; [|done].
    apply (PInv_Inv ""); [apply strip_state_PInv; [done|set_solver|set_solver]|done..].
Qed.

Lemma remove_species_Inv s x prune : Inv s → Inv (remove_species s x prune).1.
Proof.
  intros HI. destruct (decide (x ∈ species s)) as [Hx|Hx].
  - by apply remove_species_full.
  - unfold remove_species. by rewrite decide_False.
Qed.

(** ** merge *)

Lemma merge_one_Inv prefix acc e rx : Inv acc.1 → Inv (merge_one prefix acc e rx).1.
Proof.
  destruct acc as [s [er|]]; [done|]. cbn [fst]. intros HI. unfold merge_one.
  destruct (prefix || _).
  - destruct (next_id _ _) as [[c e']|]; [|done].
    pose proof (add_Inv (set_counters s (<[r_rule rx:=c]> (counters s)))
                        (r_lhs rx) (r_rhs rx) (r_rule rx) (Some e')) as H.
    destruct (add _ _ _ _ _) as [[s2 er] ?]. cbn [fst] in *. by apply H, set_counters_Inv.
  - pose proof (add_Inv s (r_lhs rx) (r_rhs rx) (r_rule rx) (Some e)) as H.
    destruct (add _ _ _ _ _) as [[s2 er] ?]. cbn [fst] in *. by apply H.
Qed.

Lemma merge_Inv s o prefix : Inv s → Inv (merge s o prefix).1.
Proof.
  intros HI. unfold merge.
  assert (H : Inv (s, @None err).1) by done. revert H. generalize (s, @None err).
  induction (edge_seq o) as [|p l IH]; intros acc H; cbn; [done|].
  apply IH, merge_one_Inv, H.
Qed.

(** * 4. Worlds *)

Lemma getn_Inv w i : Forall Inv w → Inv (getn w i).
Proof.
  intros H. unfold getn. rewrite nth_lookup. destruct (w !! i) eqn:E; cbn.
  - by eapply Forall_lookup_1.
  - apply Inv_init.
Qed.

Lemma step_Inv w o : Forall Inv w → Forall Inv (step w o).1.
Proof.
  intros Hw. destruct o as [i l r rule eid|i e|i x p|i j p|i j|i x m|i mp st cl]; cbn.
  - pose proof (add_Inv (getn w i) (normalize l) (normalize r) rule eid (getn_Inv w i Hw)) as H.
    destruct (add _ _ _ _ _) as [[s er] ?]. by apply Forall_insert.
  - pose proof (remove_rxn_Inv (getn w i) e (getn_Inv w i Hw)) as H.
    destruct (remove_rxn _ _) as [s er]. by apply Forall_insert.
  - pose proof (remove_species_Inv (getn w i) x p (getn_Inv w i Hw)) as H.
    destruct (remove_species _ _ _) as [s er]. by apply Forall_insert.
  - pose proof (merge_Inv (getn w i) (getn w j) p (getn_Inv w i Hw)) as H.
    destruct (merge _ _ _) as [s er]. by apply Forall_insert.
  - apply Forall_insert; [done|]. by apply getn_Inv.
  - pose proof (assign_mol_Inv (getn w i) x m (getn_Inv w i Hw)) as H.
    destruct (assign_mol _ _ _) as [s er]. by apply Forall_insert.
  - pose proof (set_mol_map_Inv (getn w i) mp st cl (getn_Inv w i Hw)) as H.
    destruct (set_mol_map _ _ _ _) as [s er]. by apply Forall_insert.
Qed.

Lemma init_world_Inv n : Forall Inv (init_world n).
Proof. apply Forall_replicate, Inv_init. Qed.

Lemma run_Inv ops : ∀ w, Forall Inv w → Forall Inv (fold_left (λ w o, (step w o).1) ops w).
Proof. induction ops as [|o ops IH]; intros w Hw; cbn; [done|]. by apply IH, step_Inv. Qed.

Lemma reachable_Inv n ops : Forall Inv (fold_left (λ w o, (step w o).1) ops (init_world n)).
Proof. apply run_Inv, init_world_Inv. Qed.

(** an operation changes at most the network it targets *)
Definition target (o : op) : nat :=
  match o with
  | OAdd i _ _ _ _ | ORemoveRxn i _ | ORemoveSpecies i _ _ | OMerge i _ _
  | OAssignMol i _ _ | OSetMolMap i _ _ _ => i
  | OCopy _ j => j
  end.

Lemma getn_setn_ne w i k s : k ≠ i → getn (setn w i s) k = getn w k.
Proof. intros Hne. unfold getn, setn, world in *. rewrite !nth_lookup, list_lookup_insert_ne; done. Qed.

Lemma step_frame w o k : k ≠ target o → getn (step w o).1 k = getn w k.
Proof.
  intros Hk. destruct o; cbn in *.
  - destruct (add _ _ _ _ _) as [[s er] ?]. by apply getn_setn_ne.
  - destruct (remove_rxn _ _) as [s er]. by apply getn_setn_ne.
  - destruct (remove_species _ _ _) as [s er]. by apply getn_setn_ne.
  - destruct (merge _ _ _) as [s er]. by apply getn_setn_ne.
  - by apply getn_setn_ne.
  - destruct (assign_mol _ _ _) as [s er]. by apply getn_setn_ne.
  - destruct (set_mol_map _ _ _ _) as [s er]. by apply getn_setn_ne.
Qed.

Lemma step_length w o : length (step w o).1 = length w.
Proof.
  destruct o; cbn.
  - destruct (add _ _ _ _ _) as [[s er] ?]. apply insert_length.
  - destruct (remove_rxn _ _) as [s er]. apply insert_length.
  - destruct (remove_species _ _ _) as [s er]. apply insert_length.
  - destruct (merge _ _ _) as [s er]. apply insert_length.
  - apply insert_length.
  - destruct (assign_mol _ _ _) as [s er]. apply insert_length.
  - destruct (set_mol_map _ _ _ _) as [s er]. apply insert_length.
Qed.

(** the invariant written out (so that the statement in props/C15.v does not hide behind the record) *)
Lemma Inv_unfold s :
  Inv s ↔
  (∀ x e, e ∈ default ∅ (s_in s !! x) ↔ ∃ rx, edges s !! e = Some rx ∧ x ∈ dom (r_rhs rx)) ∧
  (∀ x e, e ∈ default ∅ (s_out s !! x) ↔ ∃ rx, edges s !! e = Some rx ∧ x ∈ dom (r_lhs rx)) ∧
  (∀ x, x ∈ species s ↔ (∃ e rx, edges s !! e = Some rx ∧ x ∈ rxn_species rx) ∨ (x ∈ kept s ∧ x ∈ species s)) ∧
  dom (mol s) ⊆ species s ∧
  NoDup (order s) ∧ (∀ e, e ∈ order s ↔ is_Some (edges s !! e)) ∧
  (∀ e rx, edges s !! e = Some rx → rxn_empty rx = false ∧ r_rule rx ≠ "").
Proof.
  split.
  - intros HI. split_and!; try apply HI.
    + intros x e. by rewrite (inv_in _ HI), elem_of_producers.
    + intros x e. by rewrite (inv_out _ HI), elem_of_consumers.
    + intros x. split.
      * intros Hx. destruct (inv_sp _ HI x Hx); auto.
      * intros [H|[_ ?]]; [by apply (inv_occ _ HI)|done].
    + intros e rx He. split; [by eapply (inv_nonempty _ HI)|by eapply (inv_rule _ HI)].
  - intros (Hi & Ho & Hs & Hm & Hnd & Hord & Hne). split; try done.
    + intros x. apply set_eq. intros e. by rewrite Hi, elem_of_producers.
    + intros x. apply set_eq. intros e. by rewrite Ho, elem_of_consumers.
    + intros x Hx. apply Hs. by left.
    + intros x Hx. apply Hs in Hx as [?|[? _]]; auto.
    + intros e rx He. by apply (Hne e rx).
    + intros e rx He. by apply (Hne e rx).
Qed.
