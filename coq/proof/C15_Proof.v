(** C15 — proofs about the executable model of CRNHyperGraph (model/C15_Model.v).

    Contents
      1. the store invariant [Inv] and its parameterised form [PInv] used inside
         the two loops of remove_rxn
      2. index lemmas (idx_add / idx_touch / discard / prune)
      3. preservation of [Inv] by every operation, every outcome
      4. worlds: step / reachable / frame
      5. id generation: generated ids are fresh; the loop bound suffices
      6. refinement to the abstract store  id ↦ reaction  (the [edges] map)
      7. incidence = products − reactants
      8. non-vacuity examples *)
From stdpp Require Import gmap strings sets pretty.
From SK Require Import model.C15_Model.
Local Open Scope string_scope.

(** * 1. The invariant *)

Definition producers (E : gmap string rxn) (x : string) : gset string :=
  dom (filter (λ p, x ∈ dom (r_rhs p.2)) E).
Definition consumers (E : gmap string rxn) (x : string) : gset string :=
  dom (filter (λ p, x ∈ dom (r_lhs p.2)) E).

Lemma elem_of_producers E x e :
  e ∈ producers E x ↔ ∃ rx, E !! e = Some rx ∧ x ∈ dom (r_rhs rx).
Proof.
  unfold producers. rewrite elem_of_dom. split.
  - intros [rx Hrx]. apply map_filter_lookup_Some in Hrx as [H1 H2]. eauto.
  - intros (rx & H1 & H2). exists rx. apply map_filter_lookup_Some. done.
Qed.
Lemma elem_of_consumers E x e :
  e ∈ consumers E x ↔ ∃ rx, E !! e = Some rx ∧ x ∈ dom (r_lhs rx).
Proof.
  unfold consumers. rewrite elem_of_dom. split.
  - intros [rx Hrx]. apply map_filter_lookup_Some in Hrx as [H1 H2]. eauto.
  - intros (rx & H1 & H2). exists rx. apply map_filter_lookup_Some. done.
Qed.

(** occurring species of an edge map *)
Definition occurs (E : gmap string rxn) (x : string) : Prop :=
  ∃ e rx, E !! e = Some rx ∧ x ∈ rxn_species rx.

Record Inv (s : net) : Prop := {
  inv_in : ∀ x, default ∅ (s_in s !! x) = producers (edges s) x;
  inv_out : ∀ x, default ∅ (s_out s !! x) = consumers (edges s) x;
  inv_occ : ∀ x, occurs (edges s) x → x ∈ species s;
  inv_sp : ∀ x, x ∈ species s → occurs (edges s) x ∨ x ∈ kept s;
  inv_mol : dom (mol s) ⊆ species s;
  inv_nodup : NoDup (order s);
  inv_order : ∀ e, e ∈ order s ↔ is_Some (edges s !! e);
  inv_nonempty : ∀ e rx, edges s !! e = Some rx → rxn_empty rx = false;
  inv_rule : ∀ e rx, edges s !! e = Some rx → r_rule rx ≠ ""
}.

(** The index / species / label part of the invariant, with a reaction id [e]
    that has already been popped from the edge map but is still listed in the
    out-index of the species in [Dout] and the in-index of those in [Din];
    [P] are species whose orphan test is still due. *)
Record PInv (e : string) (Dout Din P : gset string) (s : net) : Prop := {
  p_in : ∀ x e', e' ∈ default ∅ (s_in s !! x) ↔
                 (∃ rx, edges s !! e' = Some rx ∧ x ∈ dom (r_rhs rx)) ∨ (e' = e ∧ x ∈ Din);
  p_out : ∀ x e', e' ∈ default ∅ (s_out s !! x) ↔
                 (∃ rx, edges s !! e' = Some rx ∧ x ∈ dom (r_lhs rx)) ∨ (e' = e ∧ x ∈ Dout);
  p_occ : ∀ x, occurs (edges s) x → x ∈ species s;
  p_sp : ∀ x, x ∈ species s → occurs (edges s) x ∨ x ∈ kept s ∨ x ∈ Dout ∪ Din ∪ P;
  p_mol : dom (mol s) ⊆ species s
}.

Lemma Inv_PInv e s : Inv s → PInv e ∅ ∅ ∅ s.
Proof.
  intros HI. split.
  - intros x e'. rewrite (inv_in _ HI), elem_of_producers. set_solver.
  - intros x e'. rewrite (inv_out _ HI), elem_of_consumers. set_solver.
  - apply HI.
  - intros x Hx. destruct (inv_sp _ HI x Hx); auto.
  - apply HI.
Qed.

Lemma PInv_Inv e s :
  PInv e ∅ ∅ ∅ s → NoDup (order s) → (∀ e', e' ∈ order s ↔ is_Some (edges s !! e')) →
  (∀ e' rx, edges s !! e' = Some rx → rxn_empty rx = false) →
  (∀ e' rx, edges s !! e' = Some rx → r_rule rx ≠ "") → Inv s.
Proof.
  intros HP Hnd Hord Hne Hrule. split; try done.
  - intros x. apply set_eq. intros e'. rewrite (p_in _ _ _ _ _ HP), elem_of_producers. set_solver.
  - intros x. apply set_eq. intros e'. rewrite (p_out _ _ _ _ _ HP), elem_of_consumers. set_solver.
  - apply HP.
  - intros x Hx. destruct (p_sp _ _ _ _ _ HP x Hx) as [?|[?|?]]; auto. set_solver.
  - apply HP.
Qed.

Lemma Inv_init : Inv empty_net.
Proof.
  split; cbn.
  - intros x. rewrite lookup_empty. cbn. apply set_eq. intros e.
    rewrite elem_of_producers. setoid_rewrite lookup_empty. set_solver.
  - intros x. rewrite lookup_empty. cbn. apply set_eq. intros e.
    rewrite elem_of_consumers. setoid_rewrite lookup_empty. set_solver.
  - intros x (e & rx & H & _). by rewrite lookup_empty in H.
  - set_solver.
  - set_solver.
  - constructor.
  - intros e. rewrite lookup_empty. split; [by intros ?%elem_of_nil|by intros [? ?]].
  - intros e rx. by rewrite lookup_empty.
  - intros e rx. by rewrite lookup_empty.
Qed.

(** * 2. Index lemmas *)

Lemma idx_add_lookup e ks m x :
  default ∅ (idx_add e ks m !! x) =
  (if decide (x ∈ ks) then {[e]} ∪ default ∅ (m !! x) else default ∅ (m !! x)).
Proof.
  unfold idx_add. revert ks.
  apply (set_fold_ind_L (λ acc (ks : gset string), default ∅ (acc !! x) =
           if decide (x ∈ ks) then {[e]} ∪ default ∅ (m !! x) else default ∅ (m !! x))).
  - destruct (decide _) as [H|H]; [set_solver|done].
  - intros y X acc Hy IH. destruct (decide (x = y)) as [->|Hne].
    + rewrite lookup_insert. simpl. rewrite IH. destruct (decide (y ∈ X)); [set_solver|].
      destruct (decide (y ∈ {[y]} ∪ X)); [done|set_solver].
    + rewrite lookup_insert_ne by done. rewrite IH.
      destruct (decide (x ∈ X)), (decide (x ∈ {[y]} ∪ X)); try done; set_solver.
Qed.

Lemma idx_touch_lookup ks m x : default ∅ (idx_touch ks m !! x) = default ∅ (m !! x).
Proof.
  unfold idx_touch. revert ks.
  apply (set_fold_ind_L (λ acc (_ : gset string), default ∅ (acc !! x) = default ∅ (m !! x))); [done|].
  intros y X acc Hy IH. destruct (decide (x = y)) as [->|Hne].
  - rewrite lookup_insert. simpl. done.
  - rewrite lookup_insert_ne by done. done.
Qed.

Lemma default_delete_empty (m : gmap string (gset string)) x y :
  default ∅ (m !! x) = ∅ → default ∅ (delete x m !! y) = default ∅ (m !! y).
Proof.
  intros Hx. destruct (decide (y = x)) as [->|Hne].
  - by rewrite lookup_delete, Hx.
  - by rewrite lookup_delete_ne.
Qed.

Lemma default_discard (m : gmap string (gset string)) e x y :
  default ∅ (<[x := default ∅ (m !! x) ∖ {[e]}]> m !! y) =
  if decide (y = x) then default ∅ (m !! x) ∖ {[e]} else default ∅ (m !! y).
Proof.
  destruct (decide (y = x)) as [->|Hne].
  - by rewrite lookup_insert.
  - by rewrite lookup_insert_ne.
Qed.

Lemma default_alter_empty (m : gmap string (gset string)) x y :
  default ∅ (alter (λ _, ∅) x m !! y) = if decide (y = x) then ∅ else default ∅ (m !! y).
Proof.
  destruct (decide (y = x)) as [->|Hne].
  - rewrite lookup_alter. by destruct (m !! x).
  - by rewrite lookup_alter_ne.
Qed.

(** * 3. Preservation *)

Lemma rxn_empty_false rx : rxn_empty rx = false ↔ rxn_species rx ≠ ∅.
Proof.
  unfold rxn_empty, rxn_species. rewrite bool_decide_eq_false. split.
  - intros H Hd. apply H. apply empty_union_L in Hd as [H1 H2].
    by apply dom_empty_inv_L in H1, H2.
  - intros H [H1 H2]. apply H. rewrite H1, H2. set_solver.
Qed.

Lemma set_counters_Inv s c : Inv s → Inv (set_counters s c).
Proof. intros [? ? ? ? ? ? ? ? ?]. by split. Qed.

Lemma register_Inv s e r :
  Inv s → edges s !! e = None → rxn_empty r = false → r_rule r ≠ "" → Inv (register s e r).
Proof.
  intros HI Hn Hne Hrule. split; cbn [register species edges order s_in s_out mol kept].
  - intros x. rewrite idx_add_lookup, idx_touch_lookup, (inv_in _ HI).
    apply set_eq. intros e'. rewrite elem_of_producers.
    destruct (decide (e' = e)) as [->|Hd].
    + rewrite lookup_insert. destruct (decide _) as [Hx|Hx].
      * split; [eauto|set_solver].
      * rewrite elem_of_producers, Hn. split; [by intros (?&?&?)|]. intros (?&[= <-]&?). done.
    + rewrite lookup_insert_ne by done. destruct (decide _); rewrite ?elem_of_union, elem_of_producers; set_solver.
  - intros x. rewrite idx_add_lookup, idx_touch_lookup, (inv_out _ HI).
    apply set_eq. intros e'. rewrite elem_of_consumers.
    destruct (decide (e' = e)) as [->|Hd].
    + rewrite lookup_insert. destruct (decide _) as [Hx|Hx].
      * split; [eauto|set_solver].
      * rewrite elem_of_consumers, Hn. split; [by intros (?&?&?)|]. intros (?&[= <-]&?). done.
    + rewrite lookup_insert_ne by done. destruct (decide _); rewrite ?elem_of_union, elem_of_consumers; set_solver.
  - intros x (e' & rx & He' & Hx). destruct (decide (e' = e)) as [->|Hd].
    + rewrite lookup_insert in He'. injection He' as <-. set_solver.
    + rewrite lookup_insert_ne in He' by done. apply elem_of_union_l, (inv_occ _ HI). by exists e', rx.
  - intros x [Hx|Hx]%elem_of_union.
    + destruct (inv_sp _ HI x Hx) as [(e' & rx & He' & Hx')|?]; [|by right].
      left. exists e', rx. split; [|done]. rewrite lookup_insert_ne; [done|]. intros <-. congruence.
    + left. exists e, r. by rewrite lookup_insert.
  - pose proof (inv_mol _ HI). set_solver.
  - apply NoDup_app. split; [apply HI|]. split; [|apply NoDup_singleton].
    intros e' He' ->%elem_of_list_singleton. apply (inv_order _ HI) in He'. rewrite Hn in He'. by destruct He'.
  - intros e'. rewrite elem_of_app, elem_of_list_singleton, (inv_order _ HI).
    destruct (decide (e' = e)) as [->|Hd].
    + rewrite lookup_insert. split; eauto.
    + rewrite lookup_insert_ne by done. split; [by intros [?|?]|by left].
  - intros e' rx. destruct (decide (e' = e)) as [->|Hd].
    + rewrite lookup_insert. by intros [= <-].
    + rewrite lookup_insert_ne by done. apply HI.
  - intros e' rx. destruct (decide (e' = e)) as [->|Hd].
    + rewrite lookup_insert. by intros [= <-].
    + rewrite lookup_insert_ne by done. apply HI.
Qed.

(** ids produced by the generator are not keys of the edge map *)
Lemma fresh_spec fuel rule cnt E c e :
  fresh fuel rule cnt E = Some (c, e) → E !! e = None ∧ e = gen_id rule c ∧ (cnt < c)%N.
Proof.
  revert cnt. induction fuel as [|f IH]; intros cnt; cbn; [done|].
  destruct (decide _) as [Hs|Hs].
  - intros H. apply IH in H as (?&?&?). split_and!; [done..|lia].
  - intros [= <- <-]. split_and!; [by apply eq_None_not_Some|done|lia].
Qed.

Lemma next_id_fresh s rule c e : next_id s rule = Some (c, e) → edges s !! e = None.
Proof. unfold next_id. intros H. by apply fresh_spec in H as (?&?&?). Qed.

Lemma norm_rule_ne rule : norm_rule rule ≠ "".
Proof. unfold norm_rule. by destruct (decide _). Qed.

Lemma add_Inv s l r rule eid : Inv s → Inv (add s l r rule eid).1.1.
Proof.
  intros HI. unfold add. destruct eid as [e|].
  - destruct (decide _) as [Hs|Hs]; [done|]. apply eq_None_not_Some in Hs.
    destruct (rxn_empty _) eqn:Hem; [done|]. cbn.
    apply register_Inv; [done..|apply norm_rule_ne].
  - destruct (next_id _ _) as [[c e]|] eqn:Hid; [|done].
    apply next_id_fresh in Hid.
    destruct (rxn_empty _) eqn:Hem; cbn; [by apply set_counters_Inv|].
    apply register_Inv; [by apply set_counters_Inv|done|done|apply norm_rule_ne].
Qed.

(** ** remove_rxn *)

Lemma prune_orphan_PInv e Dout Din P x s :
  PInv e Dout Din P s → P ⊆ {[x]} → PInv e Dout Din ∅ (prune_orphan x s).
Proof.
  intros HP HPx. unfold prune_orphan. destruct (decide _) as [[Hi Ho]|Hno].
  - assert (Hnocc : ¬ occurs (edges s) x).
    { intros (e' & rx & He' & [Hx|Hx]%elem_of_union).
      - assert (e' ∈ default ∅ (s_out s !! x)) by (apply (p_out _ _ _ _ _ HP); left; eauto). set_solver.
      - assert (e' ∈ default ∅ (s_in s !! x)) by (apply (p_in _ _ _ _ _ HP); left; eauto). set_solver. }
    assert (HDin : x ∉ Din).
    { intros Hx. assert (e ∈ default ∅ (s_in s !! x)) by (apply (p_in _ _ _ _ _ HP); by right). set_solver. }
    assert (HDout : x ∉ Dout).
    { intros Hx. assert (e ∈ default ∅ (s_out s !! x)) by (apply (p_out _ _ _ _ _ HP); by right). set_solver. }
    split; cbn.
    + intros y e'. rewrite default_delete_empty by done. apply HP.
    + intros y e'. rewrite default_delete_empty by done. apply HP.
    + intros y Hy. apply elem_of_difference. split; [by apply HP|]. by intros ->%elem_of_singleton.
    + intros y [Hy Hne]%elem_of_difference.
      destruct (p_sp _ _ _ _ _ HP y Hy) as [?|[?|?]]; auto. right; right. set_solver.
    + rewrite dom_delete_L. pose proof (p_mol _ _ _ _ _ HP). set_solver.
  - split; try apply HP. intros y Hy.
    destruct (p_sp _ _ _ _ _ HP y Hy) as [?|[?|Hy']]; auto.
    destruct (decide (y = x)) as [->|Hne]; [|right; right; set_solver].
    apply not_and_l in Hno as [Hi|Ho].
    + apply set_choose_L in Hi as [e' He']. apply (p_in _ _ _ _ _ HP) in He' as [(rx&?&?)|[-> ?]].
      * left. exists e', rx. unfold rxn_species. set_solver.
      * right; right. set_solver.
    + apply set_choose_L in Ho as [e' He']. apply (p_out _ _ _ _ _ HP) in He' as [(rx&?&?)|[-> ?]].
      * left. exists e', rx. unfold rxn_species. set_solver.
      * right; right. set_solver.
Qed.

Lemma out_discard_PInv e Dout Din x s :
  edges s !! e = None → PInv e Dout Din ∅ s → PInv e (Dout ∖ {[x]}) Din {[x]} (out_discard e x s).
Proof.
  intros Hn HP. split; cbn.
  - apply HP.
  - intros y e'. rewrite default_discard. destruct (decide (y = x)) as [->|Hne].
    + rewrite elem_of_difference, (p_out _ _ _ _ _ HP). split.
      * intros [[?|[-> ?]] Hne]; [by left|set_solver].
      * intros [(rx&He'&?)|[-> ?]]; [|set_solver]. split; [left; eauto|].
        intros ->%elem_of_singleton. congruence.
    + rewrite (p_out _ _ _ _ _ HP). set_solver.
  - apply HP.
  - intros y Hy. destruct (p_sp _ _ _ _ _ HP y Hy) as [?|[?|?]]; auto.
    right; right. destruct (decide (y = x)); set_solver.
  - apply HP.
Qed.

Lemma in_discard_PInv e Dout Din x s :
  edges s !! e = None → PInv e Dout Din ∅ s → PInv e Dout (Din ∖ {[x]}) {[x]} (in_discard e x s).
Proof.
  intros Hn HP. split; cbn.
  - intros y e'. rewrite default_discard. destruct (decide (y = x)) as [->|Hne].
    + rewrite elem_of_difference, (p_in _ _ _ _ _ HP). split.
      * intros [[?|[-> ?]] Hne]; [by left|set_solver].
      * intros [(rx&He'&?)|[-> ?]]; [|set_solver]. split; [left; eauto|].
        intros ->%elem_of_singleton. congruence.
    + rewrite (p_in _ _ _ _ _ HP). set_solver.
  - apply HP.
  - apply HP.
  - intros y Hy. destruct (p_sp _ _ _ _ _ HP y Hy) as [?|[?|?]]; auto.
    right; right. destruct (decide (y = x)); set_solver.
  - apply HP.
Qed.

(** the parts of the state no loop of remove_rxn touches *)
Definition same_frame (s s' : net) : Prop :=
  edges s' = edges s ∧ order s' = order s ∧ kept s' = kept s ∧ counters s' = counters s.

Lemma prune_orphan_frame x s : same_frame s (prune_orphan x s).
Proof. unfold prune_orphan. by destruct (decide _). Qed.

Lemma fold_out_PInv e Dout Din s0 D :
  edges s0 !! e = None → PInv e Dout Din ∅ s0 →
  let s' := set_fold (λ x acc, prune_orphan x (out_discard e x acc)) s0 D in
  PInv e (Dout ∖ D) Din ∅ s' ∧ same_frame s0 s'.
Proof.
  intros Hn HP. cbn. revert D.
  apply (set_fold_ind_L (λ acc (X : gset string), PInv e (Dout ∖ X) Din ∅ acc ∧ same_frame s0 acc)).
  - rewrite difference_empty_L. done.
  - intros x X acc Hx [IH (HE & HO & HK & HC)].
    assert (Dout ∖ ({[x]} ∪ X) = (Dout ∖ X) ∖ {[x]}) as -> by set_solver.
    split.
    + eapply prune_orphan_PInv; [|done]. apply out_discard_PInv; [|done]. by rewrite HE.
    + destruct (prune_orphan_frame x (out_discard e x acc)) as (?&?&?&?).
      unfold same_frame. cbn in *. split_and!; congruence.
Qed.

Lemma fold_in_PInv e Dout Din s0 D :
  edges s0 !! e = None → PInv e Dout Din ∅ s0 →
  let s' := set_fold (λ x acc, prune_orphan x (in_discard e x acc)) s0 D in
  PInv e Dout (Din ∖ D) ∅ s' ∧ same_frame s0 s'.
Proof.
  intros Hn HP. cbn. revert D.
  apply (set_fold_ind_L (λ acc (X : gset string), PInv e Dout (Din ∖ X) ∅ acc ∧ same_frame s0 acc)).
  - rewrite difference_empty_L. done.
  - intros x X acc Hx [IH (HE & HO & HK & HC)].
    assert (Din ∖ ({[x]} ∪ X) = (Din ∖ X) ∖ {[x]}) as -> by set_solver.
    split.
    + eapply prune_orphan_PInv; [|done]. apply in_discard_PInv; [|done]. by rewrite HE.
    + destruct (prune_orphan_frame x (in_discard e x acc)) as (?&?&?&?).
      unfold same_frame. cbn in *. split_and!; congruence.
Qed.

(** what remove_rxn does to the abstract store, and the invariant of the result *)
Lemma remove_rxn_full s e rx :
  Inv s → edges s !! e = Some rx →
  let s' := (remove_rxn s e).1 in
  (remove_rxn s e).2 = None ∧ Inv s' ∧ edges s' = delete e (edges s) ∧
  order s' = filter (λ e', e' ≠ e) (order s) ∧ kept s' = kept s ∧ counters s' = counters s.
Proof.
  intros HI He. unfold remove_rxn. rewrite He. cbn.
  set (s1 := Net (species s) (delete e (edges s)) (filter (λ e', e' ≠ e) (order s))
                 (s_in s) (s_out s) (counters s) (mol s) (kept s)).
  assert (Hn1 : edges s1 !! e = None) by apply lookup_delete.
  assert (HP1 : PInv e (dom (r_lhs rx)) (dom (r_rhs rx)) ∅ s1).
  { split; cbn.
    - intros x e'. rewrite (inv_in _ HI), elem_of_producers.
      destruct (decide (e' = e)) as [->|Hd].
      + rewrite lookup_delete, He. split.
        * intros (?&[= <-]&?). by right.
        * intros [(?&?&?)|[_ ?]]; [done|eauto].
      + rewrite lookup_delete_ne by done. set_solver.
    - intros x e'. rewrite (inv_out _ HI), elem_of_consumers.
      destruct (decide (e' = e)) as [->|Hd].
      + rewrite lookup_delete, He. split.
        * intros (?&[= <-]&?). by right.
        * intros [(?&?&?)|[_ ?]]; [done|eauto].
      + rewrite lookup_delete_ne by done. set_solver.
    - intros x (e' & rx' & He' & Hx). apply lookup_delete_Some in He' as [? He'].
      apply (inv_occ _ HI). by exists e', rx'.
    - intros x Hx. destruct (inv_sp _ HI x Hx) as [(e' & rx' & He' & Hx')|?]; [|auto].
      destruct (decide (e' = e)) as [->|Hd].
      + rewrite He in He'. injection He' as <-. right; right. unfold rxn_species in Hx'. set_solver.
      + left. exists e', rx'. by rewrite lookup_delete_ne.
    - apply HI. }
  destruct (fold_out_PInv e _ _ s1 (dom (r_lhs rx)) Hn1 HP1) as [HP2 HF2].
  set (s2 := set_fold (λ x acc, prune_orphan x (out_discard e x acc)) s1 (dom (r_lhs rx))) in *.
  assert (Hn2 : edges s2 !! e = None) by (destruct HF2 as [-> _]; done).
  destruct (fold_in_PInv e _ _ s2 (dom (r_rhs rx)) Hn2 HP2) as [HP3 HF3].
  set (s3 := set_fold (λ x acc, prune_orphan x (in_discard e x acc)) s2 (dom (r_rhs rx))) in *.
  rewrite !difference_diag_L in HP3.
  destruct HF2 as (HE2 & HO2 & HK2 & HC2), HF3 as (HE3 & HO3 & HK3 & HC3).
  assert (HE : edges s3 = delete e (edges s)) by (rewrite HE3, HE2; done).
  assert (HO : order s3 = filter (λ e', e' ≠ e) (order s)) by (rewrite HO3, HO2; done).
  split_and!; [done| |done|done|by rewrite HK3, HK2|by rewrite HC3, HC2].
  apply (PInv_Inv e); [done|..].
  - rewrite HO. apply NoDup_filter, HI.
  - intros e'. rewrite HO, HE, elem_of_list_filter, (inv_order _ HI).
    destruct (decide (e' = e)) as [->|Hd].
    + rewrite lookup_delete. split; [by intros [? _]|by intros [? ?]].
    + rewrite lookup_delete_ne by done. tauto.
  - intros e' rx'. rewrite HE. intros [_ ?]%lookup_delete_Some. by eapply (inv_nonempty _ HI).
  - intros e' rx'. rewrite HE. intros [_ ?]%lookup_delete_Some. by eapply (inv_rule _ HI).
Qed.

Lemma remove_rxn_Inv s e : Inv s → Inv (remove_rxn s e).1.
Proof.
  intros HI. destruct (edges s !! e) as [rx|] eqn:He.
  - by apply (remove_rxn_full s e rx).
  - unfold remove_rxn. by rewrite He.
Qed.

(** ** molecule labels *)

Lemma assign_mol_Inv s x m : Inv s → Inv (assign_mol s x m).1.
Proof.
  intros HI. unfold assign_mol. destruct (decide _) as [Hx|Hx]; [|done].
  destruct HI as [? ? ? ? Hm ? ? ? ?]. split; try done. cbn. rewrite dom_insert_L. set_solver.
Qed.

Lemma set_mol_fold_dom (S : gset string) mp (m0 : gmap string string) :
  dom m0 ⊆ S →
  dom (foldl (λ acc p, if decide (p.1 ∈ S) then <[ p.1 := p.2 ]> acc else acc) m0 mp) ⊆ S.
Proof.
  revert m0. induction mp as [|p mp IH]; intros m0 H0; cbn; [done|].
  apply IH. destruct (decide _); [|done]. rewrite dom_insert_L. set_solver.
Qed.

Lemma set_mol_map_Inv s mp strict clear : Inv s → Inv (set_mol_map s mp strict clear).1.
Proof.
  intros HI. unfold set_mol_map. destruct (_ && _); [done|].
  destruct HI as [? ? ? ? Hm ? ? ? ?]. split; try done. cbn.
  apply set_mol_fold_dom. destruct clear; [set_solver|done].
Qed.

(** ** remove_species *)

Definition strip (x : string) (rx : rxn) : rxn :=
  Rxn (r_rule rx) (delete x (r_lhs rx)) (delete x (r_rhs rx)).
(** the abstract effect on one stored reaction: [x] is deleted from both sides,
    every other coefficient is untouched; the reaction is dropped if nothing is left *)
Definition strip_keep (x : string) (rx : rxn) : option rxn :=
  if rxn_empty (strip x rx) then None else Some (strip x rx).

Lemma lookup_strip (E : gmap string rxn) x e rx' :
  omap (strip_keep x) E !! e = Some rx' ↔
  ∃ rx, E !! e = Some rx ∧ rx' = strip x rx ∧ rxn_empty (strip x rx) = false.
Proof.
  rewrite lookup_omap_Some. unfold strip_keep. split.
  - intros (rx & Hk & He). exists rx. destruct (rxn_empty _); by simplify_eq.
  - intros (rx & He & -> & Hem). exists rx. by rewrite Hem.
Qed.

Lemma strip_nonempty_l x y rx : y ≠ x → y ∈ dom (r_lhs rx) → rxn_empty (strip x rx) = false.
Proof.
  intros Hne Hy. apply rxn_empty_false. unfold rxn_species, strip. cbn.
  unfold side in *; rewrite !dom_delete_L. set_solver.
Qed.
Lemma strip_nonempty_r x y rx : y ≠ x → y ∈ dom (r_rhs rx) → rxn_empty (strip x rx) = false.
Proof.
  intros Hne Hy. apply rxn_empty_false. unfold rxn_species, strip. cbn.
  unfold side in *; rewrite !dom_delete_L. set_solver.
Qed.
Lemma strip_empty_occ x rx :
  rxn_empty rx = false → rxn_empty (strip x rx) = true → x ∈ dom (r_lhs rx) ∨ x ∈ dom (r_rhs rx).
Proof.
  intros Hne Hem. apply rxn_empty_false in Hne. apply set_choose_L in Hne as [y Hy].
  destruct (decide (y = x)) as [->|Hd]; [unfold rxn_species in Hy; set_solver|].
  apply elem_of_union in Hy as [Hy|Hy].
  - by rewrite (strip_nonempty_l x y rx) in Hem.
  - by rewrite (strip_nonempty_r x y rx) in Hem.
Qed.

Lemma strip_E2 (E : gmap string rxn) x (ins outs : gset string) :
  (∀ e rx, E !! e = Some rx → (e ∈ ins ↔ x ∈ dom (r_rhs rx)) ∧ (e ∈ outs ↔ x ∈ dom (r_lhs rx))) →
  (∀ e rx, E !! e = Some rx → rxn_empty rx = false) →
  let E1 := map_imap (λ e rx, Some (strip_rxn x ins outs e rx)) E in
  let dead := dom (filter (λ p, p.1 ∈ ins ∪ outs ∧ rxn_empty p.2 = true) E1) in
  (∀ e, e ∈ dead ↔ ∃ rx, E !! e = Some rx ∧ rxn_empty (strip x rx) = true) ∧
  filter (λ p, p.1 ∉ dead) E1 = omap (strip_keep x) E.
Proof.
  intros Hio Hne E1 dead.
  assert (HE1 : ∀ e, E1 !! e = strip x <$> E !! e).
  { intros e. unfold E1. rewrite map_lookup_imap. destruct (E !! e) as [rx|] eqn:He; cbn; [|done].
    f_equal. unfold strip_rxn, strip. destruct (Hio e rx He) as [Hi Ho]. f_equal.
    - destruct (decide _); [done|]. unfold side in *. rewrite delete_notin; [done|]. apply not_elem_of_dom. tauto.
    - destruct (decide _); [done|]. unfold side in *. rewrite delete_notin; [done|]. apply not_elem_of_dom. tauto. }
  assert (Hdead : ∀ e, e ∈ dead ↔ ∃ rx, E !! e = Some rx ∧ rxn_empty (strip x rx) = true).
  { intros e. unfold dead. rewrite elem_of_dom. unfold is_Some.
    setoid_rewrite map_filter_lookup_Some. cbn. setoid_rewrite HE1. split.
    - intros (rx' & Hl & _ & Hem). destruct (E !! e) as [rx|] eqn:He; simplify_eq/=. eauto.
    - intros (rx & He & Hem). exists (strip x rx). rewrite He. split; [done|]. split; [|done].
      destruct (Hio e rx He) as [Hi Ho].
      destruct (strip_empty_occ x rx (Hne e rx He) Hem); set_solver. }
  split; [done|].
  apply map_eq. intros e. apply option_eq. intros rx'.
  rewrite map_filter_lookup_Some, lookup_strip, HE1, Hdead. cbn. split.
  - intros [Hl Hnd]. destruct (E !! e) as [rx|] eqn:He; simplify_eq/=. exists rx.
    split_and!; [done..|]. destruct (rxn_empty (strip x rx)) eqn:Hem; [|done].
    destruct Hnd. eauto.
  - intros (rx & He & -> & Hem). rewrite He. split; [done|].
    intros (rx2 & ? & ?). simplify_eq. congruence.
Qed.

Lemma strip_state_PInv s x O C K' P :
  Inv s → x ∈ K' ∨ x ∈ P → kept s ⊆ K' →
  PInv "" ∅ ∅ P (Net (species s) (omap (strip_keep x) (edges s)) O
                     (alter (λ _, ∅) x (s_in s)) (alter (λ _, ∅) x (s_out s)) C (mol s) K').
Proof.
  intros HI Hx HK. split; cbn.
  - intros y e'. rewrite default_alter_empty. destruct (decide (y = x)) as [->|Hne].
    + split; [set_solver|]. intros [(rx' & H & Hy)|[_ ?]]; [|set_solver].
      apply lookup_strip in H as (rx & He & -> & Hem). cbn in Hy. unfold side in *; rewrite dom_delete_L in Hy. set_solver.
    + rewrite (inv_in _ HI), elem_of_producers. split.
      * intros (rx & He & Hy). left. exists (strip x rx). split.
        -- apply lookup_strip. exists rx. split_and!; [done..|]. by apply (strip_nonempty_r x y).
        -- cbn. unfold side in *; rewrite dom_delete_L. set_solver.
      * intros [(rx' & H & Hy)|[_ ?]]; [|set_solver].
        apply lookup_strip in H as (rx & He & -> & Hem). exists rx. split; [done|].
        cbn in Hy. unfold side in *; rewrite dom_delete_L in Hy. set_solver.
  - intros y e'. rewrite default_alter_empty. destruct (decide (y = x)) as [->|Hne].
    + split; [set_solver|]. intros [(rx' & H & Hy)|[_ ?]]; [|set_solver].
      apply lookup_strip in H as (rx & He & -> & Hem). cbn in Hy. unfold side in *; rewrite dom_delete_L in Hy. set_solver.
    + rewrite (inv_out _ HI), elem_of_consumers. split.
      * intros (rx & He & Hy). left. exists (strip x rx). split.
        -- apply lookup_strip. exists rx. split_and!; [done..|]. by apply (strip_nonempty_l x y).
        -- cbn. unfold side in *; rewrite dom_delete_L. set_solver.
      * intros [(rx' & H & Hy)|[_ ?]]; [|set_solver].
        apply lookup_strip in H as (rx & He & -> & Hem). exists rx. split; [done|].
        cbn in Hy. unfold side in *; rewrite dom_delete_L in Hy. set_solver.
  - intros y (e' & rx' & H & Hy). apply lookup_strip in H as (rx & He & -> & Hem).
    apply (inv_occ _ HI). exists e', rx. split; [done|].
    unfold rxn_species, strip in *. cbn in Hy. unfold side in *; rewrite !dom_delete_L in Hy. set_solver.
  - intros y Hy. destruct (decide (y = x)) as [->|Hne]; [set_solver|].
    destruct (inv_sp _ HI y Hy) as [(e' & rx & He & Hy')|?]; [|set_solver].
    left. exists e', (strip x rx). apply elem_of_union in Hy' as [Hy'|Hy'].
    + split; [apply lookup_strip; exists rx; split_and!; [done..|by apply (strip_nonempty_l x y)]|].
      unfold rxn_species, strip. cbn. unfold side in *; rewrite !dom_delete_L. set_solver.
    + split; [apply lookup_strip; exists rx; split_and!; [done..|by apply (strip_nonempty_r x y)]|].
      unfold rxn_species, strip. cbn. unfold side in *; rewrite !dom_delete_L. set_solver.
  - apply HI.
Qed.

Lemma remove_species_full s x prune :
  Inv s → x ∈ species s →
  let s' := (remove_species s x prune).1 in
  (remove_species s x prune).2 = None ∧ Inv s' ∧ edges s' = omap (strip_keep x) (edges s).
Proof.
  intros HI Hx. unfold remove_species. rewrite decide_True by done.
  rewrite decide_True; cycle 1.
  { intros e [H|H]%elem_of_union; apply elem_of_dom.
    - rewrite (inv_in _ HI) in H. apply elem_of_producers in H as (?&?&?). eauto.
    - rewrite (inv_out _ HI) in H. apply elem_of_consumers in H as (?&?&?). eauto. }
  destruct (strip_E2 (edges s) x (default ∅ (s_in s !! x)) (default ∅ (s_out s !! x))) as [Hdead HE2].
  { intros e rx He. rewrite (inv_in _ HI), (inv_out _ HI), elem_of_producers, elem_of_consumers.
    split; (split; [by intros (?&?&?); simplify_eq|eauto]). }
  { apply HI. }
  cbv zeta. rewrite HE2. clear HE2.
  set (dead := dom (filter _ (map_imap _ (edges s)))) in *.
  assert (Hnd : NoDup (filter (λ e', e' ∉ dead) (order s))) by apply NoDup_filter, HI.
  assert (Hord : ∀ e', e' ∈ filter (λ e', e' ∉ dead) (order s) ↔ is_Some (omap (strip_keep x) (edges s) !! e')).
  { intros e'. rewrite elem_of_list_filter, (inv_order _ HI), Hdead. unfold is_Some.
    setoid_rewrite lookup_strip. split.
    - intros [Hnd' [rx He]]. exists (strip x rx), rx. split_and!; [done..|].
      destruct (rxn_empty (strip x rx)) eqn:Hem; [|done]. destruct Hnd'. eauto.
    - intros (rx' & rx & He & -> & Hem). split; [|eauto]. intros (rx2 & ? & ?). simplify_eq. congruence. }
  assert (Hne : ∀ e' rx', omap (strip_keep x) (edges s) !! e' = Some rx' → rxn_empty rx' = false).
  { intros e' rx' (rx & He & -> & Hem)%lookup_strip. done. }
  assert (Hrule : ∀ e' rx', omap (strip_keep x) (edges s) !! e' = Some rx' → r_rule rx' ≠ "").
  { intros e' rx' (rx & He & -> & Hem)%lookup_strip. cbn. by eapply (inv_rule _ HI). }
  destruct prune; cbn [fst snd].
  - split; [done|].
    match goal with |- context [prune_orphan x ?s1] => set (s1' := s1) end.
    assert (HP : PInv "" ∅ ∅ {[x]} s1') by (apply strip_state_PInv; [done|set_solver|done]).
    apply (prune_orphan_PInv _ _ _ _ x) in HP; [|done].
    destruct (prune_orphan_frame x s1') as (HE & HO & _ & _). cbn in HE, HO.
    split; [|done]. apply (PInv_Inv ""); [done|..]; rewrite ?HE, ?HO; try done.
  - split; [done|]. split; [|done].
    apply (PInv_Inv ""); [apply strip_state_PInv; [done|set_solver|set_solver]|done..].
Qed.

Lemma remove_species_Inv s x prune : Inv s → Inv (remove_species s x prune).1.
Proof.
  intros HI. destruct (decide (x ∈ species s)) as [Hx|Hx].
  - by apply remove_species_full.
  - unfold remove_species. by rewrite decide_False.
Qed.

(** ** merge *)

Lemma merge_one_Inv prefix acc e rx : Inv acc.1 → Inv (merge_one prefix acc e rx).1.
Proof.
  destruct acc as [s [er|]]; [done|]. cbn [fst]. intros HI. unfold merge_one.
  destruct (prefix || _).
  - destruct (next_id _ _) as [[c e']|]; [|done].
    pose proof (add_Inv (set_counters s (<[r_rule rx:=c]> (counters s)))
                        (r_lhs rx) (r_rhs rx) (r_rule rx) (Some e')) as H.
    destruct (add _ _ _ _ _) as [[s2 er] ?]. cbn [fst] in *. by apply H, set_counters_Inv.
  - pose proof (add_Inv s (r_lhs rx) (r_rhs rx) (r_rule rx) (Some e)) as H.
    destruct (add _ _ _ _ _) as [[s2 er] ?]. cbn [fst] in *. by apply H.
Qed.

Lemma merge_Inv s o prefix : Inv s → Inv (merge s o prefix).1.
Proof.
  intros HI. unfold merge.
  assert (H : Inv (s, @None err).1) by done. revert H. generalize (s, @None err).
  induction (edge_seq o) as [|p l IH]; intros acc H; cbn; [done|].
  apply IH, merge_one_Inv, H.
Qed.

(** * 4. Worlds *)

Lemma getn_Inv w i : Forall Inv w → Inv (getn w i).
Proof.
  intros H. unfold getn. rewrite nth_lookup. destruct (w !! i) eqn:E; cbn.
  - by eapply Forall_lookup_1.
  - apply Inv_init.
Qed.

Lemma step_Inv w o : Forall Inv w → Forall Inv (step w o).1.
Proof.
  intros Hw. destruct o as [i l r rule eid|i e|i x p|i j p|i j|i x m|i mp st cl]; cbn.
  - pose proof (add_Inv (getn w i) (normalize l) (normalize r) rule eid (getn_Inv w i Hw)) as H.
    destruct (add _ _ _ _ _) as [[s er] ?]. by apply Forall_insert.
  - pose proof (remove_rxn_Inv (getn w i) e (getn_Inv w i Hw)) as H.
    destruct (remove_rxn _ _) as [s er]. by apply Forall_insert.
  - pose proof (remove_species_Inv (getn w i) x p (getn_Inv w i Hw)) as H.
    destruct (remove_species _ _ _) as [s er]. by apply Forall_insert.
  - pose proof (merge_Inv (getn w i) (getn w j) p (getn_Inv w i Hw)) as H.
    destruct (merge _ _ _) as [s er]. by apply Forall_insert.
  - apply Forall_insert; [done|]. by apply getn_Inv.
  - pose proof (assign_mol_Inv (getn w i) x m (getn_Inv w i Hw)) as H.
    destruct (assign_mol _ _ _) as [s er]. by apply Forall_insert.
  - pose proof (set_mol_map_Inv (getn w i) mp st cl (getn_Inv w i Hw)) as H.
    destruct (set_mol_map _ _ _ _) as [s er]. by apply Forall_insert.
Qed.

Lemma init_world_Inv n : Forall Inv (init_world n).
Proof. apply Forall_replicate, Inv_init. Qed.

Lemma run_Inv ops : ∀ w, Forall Inv w → Forall Inv (fold_left (λ w o, (step w o).1) ops w).
Proof. induction ops as [|o ops IH]; intros w Hw; cbn; [done|]. by apply IH, step_Inv. Qed.

Lemma reachable_Inv n ops : Forall Inv (fold_left (λ w o, (step w o).1) ops (init_world n)).
Proof. apply run_Inv, init_world_Inv. Qed.

(** an operation changes at most the network it targets *)
Definition target (o : op) : nat :=
  match o with
  | OAdd i _ _ _ _ | ORemoveRxn i _ | ORemoveSpecies i _ _ | OMerge i _ _
  | OAssignMol i _ _ | OSetMolMap i _ _ _ => i
  | OCopy _ j => j
  end.

Lemma getn_setn_ne w i k s : k ≠ i → getn (setn w i s) k = getn w k.
Proof. intros Hne. unfold getn, setn, world in *. rewrite !nth_lookup, list_lookup_insert_ne; done. Qed.

Lemma step_frame w o k : k ≠ target o → getn (step w o).1 k = getn w k.
Proof.
  intros Hk. destruct o; cbn in *.
  - destruct (add _ _ _ _ _) as [[s er] ?]. by apply getn_setn_ne.
  - destruct (remove_rxn _ _) as [s er]. by apply getn_setn_ne.
  - destruct (remove_species _ _ _) as [s er]. by apply getn_setn_ne.
  - destruct (merge _ _ _) as [s er]. by apply getn_setn_ne.
  - by apply getn_setn_ne.
  - destruct (assign_mol _ _ _) as [s er]. by apply getn_setn_ne.
  - destruct (set_mol_map _ _ _ _) as [s er]. by apply getn_setn_ne.
Qed.

Lemma step_length w o : length (step w o).1 = length w.
Proof.
  destruct o; cbn.
  - destruct (add _ _ _ _ _) as [[s er] ?]. apply insert_length.
  - destruct (remove_rxn _ _) as [s er]. apply insert_length.
  - destruct (remove_species _ _ _) as [s er]. apply insert_length.
  - destruct (merge _ _ _) as [s er]. apply insert_length.
  - apply insert_length.
  - destruct (assign_mol _ _ _) as [s er]. apply insert_length.
  - destruct (set_mol_map _ _ _ _) as [s er]. apply insert_length.
Qed.

(** the invariant written out (so that the statement in props/C15.v does not hide behind the record) *)
Lemma Inv_unfold s :
  Inv s ↔
  (∀ x e, e ∈ default ∅ (s_in s !! x) ↔ ∃ rx, edges s !! e = Some rx ∧ x ∈ dom (r_rhs rx)) ∧
  (∀ x e, e ∈ default ∅ (s_out s !! x) ↔ ∃ rx, edges s !! e = Some rx ∧ x ∈ dom (r_lhs rx)) ∧
  (∀ x, x ∈ species s ↔ (∃ e rx, edges s !! e = Some rx ∧ x ∈ rxn_species rx) ∨ (x ∈ kept s ∧ x ∈ species s)) ∧
  dom (mol s) ⊆ species s ∧
  NoDup (order s) ∧ (∀ e, e ∈ order s ↔ is_Some (edges s !! e)) ∧
  (∀ e rx, edges s !! e = Some rx → rxn_empty rx = false ∧ r_rule rx ≠ "").
Proof.
  split.
  - intros HI. split_and!; try apply HI.
    + intros x e. by rewrite (inv_in _ HI), elem_of_producers.
    + intros x e. by rewrite (inv_out _ HI), elem_of_consumers.
    + intros x. split.
      * intros Hx. destruct (inv_sp _ HI x Hx); auto.
      * intros [H|[_ ?]]; [by apply (inv_occ _ HI)|done].
    + intros e rx He. split; [by eapply (inv_nonempty _ HI)|by eapply (inv_rule _ HI)].
  - intros (Hi & Ho & Hs & Hm & Hnd & Hord & Hne). split; try done.
    + intros x. apply set_eq. intros e. by rewrite Hi, elem_of_producers.
    + intros x. apply set_eq. intros e. by rewrite Ho, elem_of_consumers.
    + intros x Hx. apply Hs. by left.
    + intros x Hx. apply Hs in Hx as [?|[? _]]; auto.
    + intros e rx He. by apply (Hne e rx).
    + intros e rx He. by apply (Hne e rx).
Qed.

(** * 5. Id generation *)

Global Instance gen_id_inj rule : Inj (=) (=) (gen_id rule).
Proof.
  intros k1 k2 H. unfold gen_id in H.
  apply (inj (String.append rule)) in H. apply (inj (String.append "_")) in H.
  by apply (inj pretty) in H.
Qed.

(** if the bounded search gives up, it has seen [fuel] distinct keys *)
Lemma fresh_None fuel rule cnt (E : gmap string rxn) :
  fresh fuel rule cnt E = None →
  ∃ D : gset string, D ⊆ dom E ∧ size D = fuel ∧ ∀ d, d ∈ D → ∃ k, (cnt < k)%N ∧ d = gen_id rule k.
Proof.
  revert cnt. induction fuel as [|f IH]; intros cnt; cbn.
  - intros _. exists ∅. split_and!; [set_solver|apply size_empty|set_solver].
  - destruct (decide _) as [Hs|Hs]; [|done]. intros (D & HD & Hsz & Hk)%IH.
    exists ({[gen_id rule (cnt + 1)]} ∪ D). split_and!.
    + apply elem_of_dom in Hs. set_solver.
    + rewrite size_union, size_singleton; [lia|].
      intros d ->%elem_of_singleton (k & Hlt & Heq)%Hk. apply (inj _) in Heq. lia.
    + intros d [->%elem_of_singleton|(k & ? & ?)%Hk]%elem_of_union.
      * exists (cnt + 1)%N. split; [lia|done].
      * exists k. split; [lia|done].
Qed.

Lemma next_id_total s rule : next_id s rule ≠ None.
Proof.
  unfold next_id. intros (D & HD & Hsz & _)%fresh_None.
  apply subseteq_size in HD. rewrite size_dom in HD. lia.
Qed.

(** * 6. Refinement to the abstract store  id ↦ reaction *)

Lemma add_spec s l r rule eid s' er e :
  add s l r rule eid = (s', er, e) →
  (∀ e0, eid = Some e0 → e = e0) ∧
  match er with
  | None => edges s !! e = None ∧ rxn_empty (Rxn (norm_rule rule) l r) = false ∧
            edges s' = <[e := Rxn (norm_rule rule) l r]> (edges s) ∧ order s' = (order s ++ [e])%list
  | Some er' => edges s' = edges s ∧ order s' = order s ∧
            (er' = KeyError ↔ ∃ e0, eid = Some e0 ∧ is_Some (edges s !! e0)) ∧
            (er' = InternalError ↔ eid = None ∧ next_id s (norm_rule rule) = None)
  end.
Proof.
  unfold add. destruct eid as [e0|].
  - destruct (decide _) as [Hs|Hs].
    { intros [= <- <- <-]. split; [by intros ? [= ->]|]. split_and!; try done.
      - split; [eauto|done].
      - split; [done|by intros [? _]]. }
    apply eq_None_not_Some in Hs.
    destruct (rxn_empty _) eqn:Hem; intros [= <- <- <-]; (split; [by intros ? [= ->]|]).
    + split_and!; try done.
      * split; [done|]. intros (? & [= <-] & [? ?]). congruence.
      * split; [done|by intros [? _]].
    + done.
  - destruct (next_id _ _) as [[c e1]|] eqn:Hid.
    + apply next_id_fresh in Hid.
      destruct (rxn_empty _) eqn:Hem; intros [= <- <- <-]; (split; [done|]).
      * split_and!; try done.
        -- split; [done|]. by intros (? & ? & ?).
        -- split; [done|]. by intros [_ ?].
      * done.
    + intros [= <- <- <-]. split; [done|]. split_and!; try done. split; [done|]. by intros (? & ? & ?).
Qed.

Lemma fold_frame (f : string → net → net) s0 (D : gset string) :
  (∀ x acc, same_frame acc (f x acc)) → same_frame s0 (set_fold f s0 D).
Proof.
  intros Hf. revert D. apply (set_fold_ind_L (λ acc (_ : gset string), same_frame s0 acc)).
  - done.
  - intros x X acc _ (?&?&?&?). destruct (Hf x acc) as (?&?&?&?).
    unfold same_frame. split_and!; congruence.
Qed.

Lemma remove_rxn_spec s e s' er :
  remove_rxn s e = (s', er) →
  (er = None ∧ is_Some (edges s !! e) ∧ edges s' = delete e (edges s) ∧
   order s' = filter (λ e', e' ≠ e) (order s)) ∨
  (er = Some KeyError ∧ edges s !! e = None ∧ s' = s).
Proof.
  unfold remove_rxn. destruct (edges s !! e) as [rx|] eqn:He; intros [= <- <-]; [left|by right].
  split; [done|]. split; [eauto|].
  match goal with |- context [set_fold ?f (set_fold ?g ?s1 ?D1) ?D2] =>
    destruct (fold_frame g s1 D1) as (HE1 & HO1 & _); [|destruct (fold_frame f (set_fold g s1 D1) D2) as (HE2 & HO2 & _)]
  end.
  - intros x acc. destruct (prune_orphan_frame x (out_discard e x acc)) as (?&?&?&?). done.
  - intros x acc. destruct (prune_orphan_frame x (in_discard e x acc)) as (?&?&?&?). done.
  - rewrite HE2, HE1, HO2, HO1. done.
Qed.

Lemma remove_species_spec s x prune s' er :
  Inv s → remove_species s x prune = (s', er) →
  (er = None ∧ x ∈ species s ∧ edges s' = omap (strip_keep x) (edges s)) ∨
  (er = Some KeyError ∧ x ∉ species s ∧ s' = s).
Proof.
  intros HI Heq. destruct (decide (x ∈ species s)) as [Hx|Hx].
  - left. destruct (remove_species_full s x prune HI Hx) as (H1 & _ & H3).
    rewrite Heq in H1, H3. done.
  - right. unfold remove_species in Heq. rewrite decide_False in Heq by done. by simplify_eq.
Qed.

Lemma remove_species_no_internal_error s x prune :
  Inv s → (remove_species s x prune).2 ≠ Some InternalError.
Proof.
  intros HI. destruct (remove_species s x prune) as [s' er] eqn:Heq.
  destruct (remove_species_spec _ _ _ _ _ HI Heq) as [(-> & _)|(-> & _)]; done.
Qed.

(** every other species keeps its coefficients in every reaction *)
Lemma remove_species_others s x prune s' e rx y :
  Inv s → remove_species s x prune = (s', None) → edges s !! e = Some rx → y ≠ x →
  y ∈ rxn_species rx →
  ∃ rx', edges s' !! e = Some rx' ∧ r_rule rx' = r_rule rx ∧
         (∀ z, z ≠ x → r_lhs rx' !! z = r_lhs rx !! z ∧ r_rhs rx' !! z = r_rhs rx !! z) ∧
         r_lhs rx' !! x = None ∧ r_rhs rx' !! x = None.
Proof.
  intros HI Heq He Hne Hy.
  destruct (remove_species_spec _ _ _ _ _ HI Heq) as [(_ & _ & ->)|(? & _)]; [|done].
  exists (strip x rx). split_and!.
  - apply lookup_strip. exists rx. split_and!; [done..|].
    apply elem_of_union in Hy as [Hy|Hy]; [by apply (strip_nonempty_l x y)|by apply (strip_nonempty_r x y)].
  - done.
  - intros z Hz. cbn. unfold side in *. by rewrite !lookup_delete_ne.
  - cbn. unfold side in *. apply lookup_delete.
  - cbn. unfold side in *. apply lookup_delete.
Qed.

(** * 7. Incidence = products − reactants *)

Lemma incidence_spec s x e v :
  (x, e, v) ∈ incidence s ↔
  ∃ rx, edges s !! e = Some rx ∧ x ∈ rxn_species rx ∧ v = (coef (r_rhs rx) x - coef (r_lhs rx) x)%Z.
Proof.
  unfold incidence. rewrite elem_of_list_bind. split.
  - intros ([e' rx] & Hin & Hm). apply elem_of_map_to_list in Hm.
    apply elem_of_list_fmap in Hin as (y & [= -> -> ->] & Hy%elem_of_elements). eauto.
  - intros (rx & He & Hx & ->). exists (e, rx). split; [|by apply elem_of_map_to_list].
    apply elem_of_list_fmap. exists x. split; [done|]. by apply elem_of_elements.
Qed.

(** at most one entry per (species, reaction) *)
Lemma incidence_functional s x e v1 v2 :
  (x, e, v1) ∈ incidence s → (x, e, v2) ∈ incidence s → v1 = v2.
Proof.
  intros (rx1 & H1 & _ & ->)%incidence_spec (rx2 & H2 & _ & ->)%incidence_spec. by simplify_eq.
Qed.

(** ** merge *)

Lemma rxn_eta rx : Rxn (r_rule rx) (r_lhs rx) (r_rhs rx) = rx.
Proof. by destruct rx. Qed.
Lemma norm_rule_id rule : rule ≠ "" → norm_rule rule = rule.
Proof. intros H. unfold norm_rule. by rewrite decide_False. Qed.

Lemma add_explicit_ok s l r rule e :
  edges s !! e = None → rxn_empty (Rxn (norm_rule rule) l r) = false →
  add s l r rule (Some e) = (register s e (Rxn (norm_rule rule) l r), None, e).
Proof.
  intros Hn Hem. unfold add. rewrite decide_False by (rewrite Hn; by intros [? ?]). by rewrite Hem.
Qed.

(** one step of merge never fails on a well-formed reaction and stores it,
    unchanged, under an id that was free *)
Lemma merge_one_spec prefix s e rx s2 er2 :
  r_rule rx ≠ "" → rxn_empty rx = false →
  merge_one prefix (s, None) e rx = (s2, er2) →
  er2 = None ∧ ∃ e', edges s !! e' = None ∧ edges s2 = <[e' := rx]> (edges s) ∧
                     order s2 = (order s ++ [e'])%list ∧
                     (prefix = false → edges s !! e = None → e' = e).
Proof.
  intros Hrule Hem. unfold merge_one.
  assert (Hrx : Rxn (norm_rule (r_rule rx)) (r_lhs rx) (r_rhs rx) = rx)
    by (rewrite norm_rule_id by done; apply rxn_eta).
  destruct (prefix || _) eqn:Hb.
  - destruct (next_id _ _) as [[c e']|] eqn:Hid; [|by apply next_id_total in Hid].
    apply next_id_fresh in Hid.
    rewrite add_explicit_ok; [|done|by rewrite Hrx]. rewrite Hrx. intros [= <- <-].
    split; [done|]. exists e'. split_and!; [done..|].
    intros -> Hn. cbn in Hb. apply bool_decide_eq_true in Hb. rewrite Hn in Hb. by destruct Hb.
  - apply orb_false_iff in Hb as [-> Hb]. apply bool_decide_eq_false in Hb.
    apply eq_None_not_Some in Hb.
    rewrite add_explicit_ok; [|done|by rewrite Hrx]. rewrite Hrx. intros [= <- <-].
    split; [done|]. exists e. done.
Qed.

Lemma merge_fold_spec prefix l : ∀ s,
  (∀ e rx, (e, rx) ∈ l → r_rule rx ≠ "" ∧ rxn_empty rx = false) →
  let res := foldl (λ acc p, merge_one prefix acc p.1 p.2) (s, None) l in
  res.2 = None ∧ edges s ⊆ edges res.1 ∧
  (∀ e rx, (e, rx) ∈ l → ∃ e', edges res.1 !! e' = Some rx ∧ edges s !! e' = None) ∧
  (∀ e' rx, edges res.1 !! e' = Some rx → edges s !! e' = Some rx ∨ ∃ e, (e, rx) ∈ l).
Proof.
  induction l as [|[e rx] l IH]; intros s Hl; cbn [foldl fst snd].
  - split_and!; [done|done|by intros ?? ?%elem_of_nil|by left].
  - destruct (merge_one prefix (s, None) e rx) as [s2 er2] eqn:H1.
    destruct (Hl e rx) as [Hr Hem]; [by left|].
    destruct (merge_one_spec _ _ _ _ _ _ Hr Hem H1) as (-> & e1 & Hn1 & HE2 & _).
    destruct (IH s2) as (Her & Hsub & Hall & Honly); [intros e0 rx0 ?; apply (Hl e0 rx0); by right|].
    assert (Hs2 : edges s ⊆ edges s2) by (rewrite HE2; by apply insert_subseteq).
    split_and!.
    + done.
    + by etrans.
    + intros e0 rx0 [[= -> ->]|Hin]%elem_of_cons.
      * exists e1. split; [|done]. eapply lookup_weaken; [|done]. rewrite HE2. apply lookup_insert.
      * destruct (Hall e0 rx0 Hin) as (e' & ? & ?). exists e'. split; [done|].
        by eapply lookup_weaken_None.
    + intros e' rx' [Hs|[e0 Hin]]%Honly.
      * rewrite HE2 in Hs. apply lookup_insert_Some in Hs as [[<- <-]|[_ ?]]; [|by left].
        right. exists e. by left.
      * right. exists e0. by right.
Qed.

Lemma merge_fold_nocoll l : ∀ s,
  NoDup l.*1 →
  (∀ e rx, (e, rx) ∈ l → r_rule rx ≠ "" ∧ rxn_empty rx = false ∧ edges s !! e = None) →
  let res := foldl (λ acc p, merge_one false acc p.1 p.2) (s, None) l in
  edges res.1 = edges s ∪ list_to_map l ∧ order res.1 = (order s ++ l.*1)%list.
Proof.
  induction l as [|[e rx] l IH]; intros s Hnd Hl; cbn [foldl fst snd fmap list_fmap].
  - split; [by rewrite list_to_map_nil, (right_id_L ∅ (∪))|by rewrite app_nil_r].
  - destruct (merge_one false (s, None) e rx) as [s2 er2] eqn:H1.
    destruct (Hl e rx) as (Hr & Hem & Hn); [by left|].
    destruct (merge_one_spec _ _ _ _ _ _ Hr Hem H1) as (-> & e1 & Hn1 & HE2 & HO2 & He1).
    rewrite (He1 eq_refl Hn) in *. clear He1.
    cbn in Hnd. apply NoDup_cons in Hnd as [Hnin Hnd].
    destruct (IH s2 Hnd) as [HE HO].
    { intros e0 rx0 Hin. destruct (Hl e0 rx0) as (? & ? & ?); [by right|]. split_and!; [done..|].
      rewrite HE2, lookup_insert_ne; [done|]. intros <-. apply Hnin.
      apply elem_of_list_fmap. by exists (e, rx0). }
    split.
    + rewrite HE, HE2. rewrite <- insert_union_l. by rewrite insert_union_r.
    + rewrite HO, HO2. by rewrite <- app_assoc.
Qed.

Lemma elem_of_edge_seq o e rx : (e, rx) ∈ edge_seq o ↔ e ∈ order o ∧ edges o !! e = Some rx.
Proof.
  unfold edge_seq. rewrite elem_of_list_omap. split.
  - intros (e0 & Hin & Hf). destruct (edges o !! e0) eqn:He; simplify_eq/=. done.
  - intros [Hin He]. exists e. by rewrite He.
Qed.

Lemma edge_seq_fst o : (∀ e, e ∈ order o → is_Some (edges o !! e)) → (edge_seq o).*1 = order o.
Proof.
  unfold edge_seq. induction (order o) as [|e l IH]; intros H; cbn; [done|].
  destruct (H e) as [rx ->]; [by left|]. cbn. f_equal. apply IH. intros ??; apply H. by right.
Qed.

Lemma edge_seq_map o : Inv o → list_to_map (edge_seq o) = edges o.
Proof.
  intros HI. apply map_eq. intros e. apply option_eq. intros rx.
  rewrite <- elem_of_list_to_map.
  - rewrite elem_of_edge_seq, (inv_order _ HI). split; [by intros [_ ?]|]. split; [eauto|done].
  - rewrite edge_seq_fst; [apply HI|]. intros ?. apply HI.
Qed.

Lemma merge_spec s o prefix s' er :
  Inv o → merge s o prefix = (s', er) →
  er = None ∧ edges s ⊆ edges s' ∧
  (∀ e rx, edges o !! e = Some rx → ∃ e', edges s' !! e' = Some rx ∧ edges s !! e' = None) ∧
  (∀ e' rx, edges s' !! e' = Some rx → edges s !! e' = Some rx ∨ ∃ e, edges o !! e = Some rx) ∧
  (prefix = false → dom (edges s) ## dom (edges o) →
   edges s' = edges s ∪ edges o ∧ order s' = (order s ++ order o)%list).
Proof.
  intros HO Heq. unfold merge in Heq.
  assert (Hwf : ∀ e rx, (e, rx) ∈ edge_seq o → r_rule rx ≠ "" ∧ rxn_empty rx = false).
  { intros e rx [_ He]%elem_of_edge_seq. split; [by eapply (inv_rule _ HO)|by eapply (inv_nonempty _ HO)]. }
  destruct (merge_fold_spec prefix (edge_seq o) s Hwf) as (Her & Hsub & Hall & Honly).
  rewrite Heq in Her, Hsub, Hall, Honly. cbn in *. split_and!; [done|done|..].
  - intros e rx He. apply (Hall e). apply elem_of_edge_seq. split; [|done]. apply (inv_order _ HO). eauto.
  - intros e' rx [?|[e Hin]]%Honly; [by left|]. right. exists e. by apply elem_of_edge_seq in Hin as [_ ?].
  - intros -> Hdisj.
    destruct (merge_fold_nocoll (edge_seq o) s) as [HE HOr].
    + rewrite edge_seq_fst; [apply HO|]. intros ?. apply HO.
    + intros e rx Hin. destruct (Hwf e rx Hin). split_and!; [done..|].
      apply elem_of_edge_seq in Hin as [_ He]. apply not_elem_of_dom.
      intros Hd. apply (Hdisj e Hd). apply elem_of_dom. eauto.
    + rewrite Heq in HE, HOr. cbn in *. rewrite edge_seq_map in HE by done.
      rewrite edge_seq_fst in HOr; [done|]. intros ?. apply HO.
Qed.

(** ** history level: a stored reaction stays, under its id and unchanged, unless
    the operation removes it, strips one of its species, or overwrites the whole
    network by a copy *)

Lemma getn_setn_eq w k s : k < length w → getn (setn w k s) k = s.
Proof.
  intros Hk. unfold getn, setn, world in *. rewrite nth_lookup, list_lookup_insert; done.
Qed.
Lemma getn_ge w k : length w ≤ k → getn w k = empty_net.
Proof. intros Hk. unfold getn, world in *. by rewrite nth_lookup, lookup_ge_None_2. Qed.

Definition may_drop (o : op) (k : nat) (e : string) (rx : rxn) : Prop :=
  match o with
  | ORemoveRxn i e' => i = k ∧ e' = e
  | ORemoveSpecies i x _ => i = k ∧ x ∈ rxn_species rx
  | OCopy _ j => j = k
  | _ => False
  end.

Lemma strip_absent x rx : x ∉ rxn_species rx → strip x rx = rx.
Proof.
  intros Hx. unfold strip, rxn_species in *. destruct rx as [ru l r]. cbn in *. unfold side in *.
  rewrite !delete_notin; [done|apply not_elem_of_dom; set_solver..].
Qed.

Lemma step_stored_kept w o k e rx :
  Forall Inv w → edges (getn w k) !! e = Some rx → ¬ may_drop o k e rx →
  edges (getn (step w o).1 k) !! e = Some rx.
Proof.
  intros Hw He Hnd. destruct (decide (k = target o)) as [->|Hne]; [|by rewrite step_frame].
  destruct (decide (target o < length w)) as [Hlt|Hge]; cycle 1.
  { rewrite getn_ge in He by lia. cbn in He. by rewrite lookup_empty in He. }
  pose proof (getn_Inv w (target o) Hw) as HI.
  destruct o as [i l r rule eid|i e'|i x p|i j p|i j|i x m|i mp st cl]; cbn [step target may_drop fst] in *.
  - destruct (add _ _ _ _ _) as [[s' er] e0] eqn:Ha. cbn [fst]; rewrite getn_setn_eq by done.
    apply add_spec in Ha as [_ Ha]. destruct er as [er|].
    + destruct Ha as (-> & _). done.
    + destruct Ha as (Hn & _ & -> & _). rewrite lookup_insert_ne; [done|]. intros <-. congruence.
  - destruct (remove_rxn _ _) as [s' er] eqn:Ha. cbn [fst]; rewrite getn_setn_eq by done.
    apply remove_rxn_spec in Ha as [(_ & _ & -> & _)|(_ & _ & ->)]; [|done].
    rewrite lookup_delete_ne; [done|]. intros ->. by apply Hnd.
  - destruct (remove_species _ _ _) as [s' er] eqn:Ha. cbn [fst]; rewrite getn_setn_eq by done.
    apply remove_species_spec in Ha as [(_ & _ & ->)|(_ & _ & ->)]; [|done..].
    apply lookup_strip. exists rx. assert (Hx : x ∉ rxn_species rx) by (intros ?; by apply Hnd).
    rewrite strip_absent by done. split_and!; [done..|]. by eapply (inv_nonempty _ HI).
  - destruct (merge _ _ _) as [s' er] eqn:Ha. cbn [fst]; rewrite getn_setn_eq by done.
    apply merge_spec in Ha as (_ & Hsub & _); [|by apply getn_Inv].
    by eapply lookup_weaken.
  - by destruct Hnd.
  - unfold assign_mol. destruct (decide _); cbn [fst]; by rewrite getn_setn_eq.
  - unfold set_mol_map. destruct (_ && _); cbn [fst]; by rewrite getn_setn_eq.
Qed.

Lemma copy_spec w i j : j < length w → getn (step w (OCopy i j)).1 j = getn w i.
Proof. intros Hj. cbn. by apply getn_setn_eq. Qed.

(** * 8. Non-vacuity *)

Local Instance err_eq_dec : EqDecision err.
Proof. solve_decision. Defined.

Definition ex_history : list op :=
  [ OAdd 0 [("A", 1%Z); ("B", 2%Z)] [("C", 1%Z)] "" None;
    OCopy 0 1;
    ORemoveSpecies 0 "A" true ].

(** a concrete 3-op history: the original loses A (and only A), the copy taken
    before the edit keeps it; the hypotheses of the step theorems are inhabited *)
Example C15_history_nonvacuous :
  let w := fold_left (λ w o, (step w o).1) ex_history (init_world 2) in
  Forall Inv w ∧
  order (getn w 0) = ["r_1"] ∧ order (getn w 1) = ["r_1"] ∧
  species (getn w 0) = {["B"; "C"]} ∧ species (getn w 1) = {["A"; "B"; "C"]} ∧
  r_lhs <$> edges (getn w 0) !! "r_1" = Some {["B" := 2%positive]} ∧
  r_lhs <$> edges (getn w 1) !! "r_1" = Some {["A" := 1%positive; "B" := 2%positive]} ∧
  list_to_set (incidence (getn w 0)) =@{gset (string * string * Z)} {[("B", "r_1", (-2)%Z); ("C", "r_1", 1%Z)]}.
Proof.
  cbv zeta. split; [apply run_Inv, init_world_Inv|].
  split_and!; apply (bool_decide_unpack _); vm_compute; exact I.
Qed.

(** the repaired id generator: after a caller-chosen "r_1" the generated id is
    "r_2" and the first reaction is still stored (before the repair the model of
    the old code returned "r_1" and overwrote it) *)
Example C15_old_id_collision :
  let '(s1, er1, e1) := add empty_net {["A" := 1%positive]} {["B" := 1%positive]} "r" (Some "r_1") in
  let '(s2, er2, e2) := add s1 {["C" := 1%positive]} {["D" := 1%positive]} "" None in
  er1 = None ∧ e1 = "r_1" ∧ er2 = None ∧ e2 = "r_2" ∧
  r_lhs <$> edges s2 !! "r_1" = Some {["A" := 1%positive]} ∧
  r_lhs <$> edges s2 !! "r_2" = Some {["C" := 1%positive]} ∧
  default ∅ (s_out s2 !! "A") = {["r_1"]} ∧ default ∅ (s_in s2 !! "D") = {["r_2"]}.
Proof.
  apply (bool_decide_unpack _). vm_compute. exact I.
Qed.

(** remove_rxn / merge / error outcomes are exercised too *)
Definition exs1 : net := (add empty_net {["A" := 1%positive]} {["B" := 1%positive]} "r" None).1.1.
Definition exs2 : net := (add exs1 {["B" := 1%positive]} {["C" := 3%positive]} "q" (Some "x")).1.1.
Definition exs3 : net := (remove_rxn exs2 "r_1").1.
Example C15_ops_nonvacuous :
  (remove_rxn exs2 "r_1").2 = None ∧ species exs3 = {["B"; "C"]} ∧ order exs3 = ["x"] ∧
  (merge exs3 exs2 true).2 = None ∧ order (merge exs3 exs2 true).1 = ["x"; "r_2"; "q_1"] ∧
  (merge exs3 exs2 false).2 = None ∧ order (merge exs3 exs2 false).1 = ["x"; "r_1"; "q_1"] ∧
  (remove_rxn exs3 "r_1").2 = Some KeyError ∧
  (remove_species exs3 "A" true).2 = Some KeyError ∧
  (add exs3 ∅ ∅ "r" None).1.2 = Some ValueError ∧
  (add exs3 {["A" := 1%positive]} ∅ "r" (Some "x")).1.2 = Some KeyError.
Proof.
  split_and!; apply (bool_decide_unpack _); vm_compute; exact I.
Qed.
