(** C09 — fixed point of [canonicalise_wl] WITHOUT the hypothesis of pairwise distinct colours (audit finding 2, round 5):
    after the first run the node ids of the canonical reactant graph ARE the positions in the (colour, degree, id) order, so when
    the colours of the second run correspond (networkx contract: premise) the second stable sort is the identity even with tied
    colours - a sorted list is a fixed point of the sort. *)
From Coq Require Import List NArith ZArith Bool Arith Lia Permutation.
From SK Require Import lib.LGraph lib.C01_GraphLemmas model.C01_Model model.C09_Model
  proof.C09_Lists proof.C09_Canon proof.C09_Equiv proof.C09_Main proof.C09_Indep proof.C09_Indep2 proof.C09_WL proof.C09_Nauty.
From SK Require model.C08_Model proof.C08_Sort proof.C08_Equiv proof.C08_Spec lib.IRInst.
Import ListNotations.

Notation lexleb := IRInst.lexleb.

(** replacing the last component of two 3-component keys by strictly increasing values keeps the order *)
Lemma lex3 (a b c a' b' c' d d' : Z) : lexleb [a; b; c] [a'; b'; c'] = true -> (d < d')%Z -> lexleb [a; b; d] [a'; b'; d'] = true.
Proof.
  simpl. intros H Hd.
  destruct (Z.ltb_spec a a'); [reflexivity|]. destruct (Z.ltb_spec a' a); [discriminate|].
  destruct (Z.ltb_spec b b'); [reflexivity|]. destruct (Z.ltb_spec b' b); [discriminate|].
  destruct (Z.ltb_spec d d'); [reflexivity|lia].
Qed.

Section Fix.
Variables (rk dg : N -> Z) (c : N -> N).
Let key1 (n : N) : list Z := [rk n; dg n; Z.of_N n].
Let key3 (n : N) : list Z := [rk n; dg n; Z.of_N (c n)].

Lemma ksorted_positions : forall (L : list N) (k : nat),
  map c L = map N.of_nat (seq k (length L)) -> C08_Sort.ksorted key1 L -> C08_Sort.ksorted key3 L.
Proof.
  induction L as [|x L IH]; intros k Hc Hs; [constructor|].
  inversion Hs as [|? ? Hs' Hx]; subst. simpl in Hc. injection Hc as Hx0 Hc'. constructor.
  - apply (IH (S k)); assumption.
  - intros y Iy. unfold key3. apply (lex3 _ _ (Z.of_N x) _ _ (Z.of_N y)); [exact (Hx y Iy)|].
    assert (Iy' : In (c y) (map c L)) by (apply in_map; exact Iy). rewrite Hc' in Iy'. apply in_map_iff in Iy'.
    destruct Iy' as (j & Ej & Ij). apply in_seq in Ij. rewrite Hx0, <- Ej. lia.
Qed.

Lemma sorted_fixed (L : list N) : NoDup L -> (forall x y, In x L -> In y L -> c x = c y -> x = y) ->
  map c L = map N.of_nat (seq 1 (length L)) -> C08_Sort.ksorted key1 L -> C08_Model.sort_by key3 L = L.
Proof.
  intros Hnd Hinj Hc Hs. apply (C08_Sort.ksorted_unique key3).
  - apply C08_Sort.sort_by_sorted.
  - apply (ksorted_positions L 1 Hc Hs).
  - apply C08_Sort.sort_by_perm.
  - intros x y Ix Iy E. apply (proj1 (C08_Sort.sort_by_in key3 L x)) in Ix. apply (proj1 (C08_Sort.sort_by_in key3 L y)) in Iy.
    apply Hinj; auto. unfold key3 in E. injection E as _ _ E. apply N2Z.inj. exact E.
Qed.
End Fix.

Theorem fixed_point_wl_ties (ranks1 ranks2 : list (N * Z)) (G H : mgraph) :
  parsed G -> parsed H -> (exists s, In s (node_ids G) /\ In s (node_ids H)) ->
  (forall n, In n (node_ids G) -> C08_Model.rank_of ranks2 (sigma_of (wl_order ranks1 G) n) = C08_Model.rank_of ranks1 n) ->
  exists (pairs1 : list (N * N)) (Gc1 Hc1 : mgraph),
    canonicalise_wl ranks1 G H = Some (Gc1, pairs1, Hc1) /\
    exists (pairs2 : list (N * N)) (Gc2 Hc2 : mgraph),
      canonicalise_wl ranks2 Gc1 Hc1 = Some (Gc2, pairs2, Hc2) /\ same_upto_order Gc2 Gc1 /\ same_upto_order Hc2 Hc1.
Proof.
  intros PG PH Hs Hr. pose proof PG as (WG & AG & PG'). pose proof PH as (WH & AH & PH').
  pose proof (wl_enumerates ranks1 G WG) as En1. pose proof En1 as (O1 & I1).
  set (order1 := wl_order ranks1 G) in *. set (Gc1 := canon_rebuild order1 G).
  pose proof (rebuild_relabelled order1 G WG En1) as R1. fold Gc1 in R1.
  destruct (canonicalise_with_spec G H Gc1 order1 WG WH AG AH PG' PH' O1 I1 R1 Hs) as (Hc1 & E1 & RF1 & EH1 & Fs1 & _).
  set (f1 := C09_Canon.f H Gc1 order1) in *.
  assert (Finj : forall a b, f1 a = f1 b -> a = b) by (intros a b; apply tau_injective).
  destruct (fixed_point_gen G H Gc1 order1 PG PH Hs En1 R1) as (pairs1 & Gc1' & Hc1' & E1' & Hfix).
  rewrite E1 in E1'. assert (EG : set_amap Gc1 = Gc1') by congruence. assert (EHc : set_amap Hc1 = Hc1') by congruence. subst Gc1' Hc1'.
  exists (aam_pairs Gc1 H), (set_amap Gc1), (set_amap Hc1). split; [exact E1|].
  assert (WGc : wf (set_amap Gc1)) by (apply wf_set_amap; apply (rel_wf f1 Finj G Gc1 WG RF1)).
  pose proof (wl_enumerates ranks2 (set_amap Gc1) WGc) as En2.
  (* the second canonical order is the list of the canonical ids in increasing order *)
  assert (Ef : map f1 order1 = map (sigma_of order1) order1) by (apply map_ext_in; intros n I; apply Fs1; exact I).
  assert (Epos : map f1 order1 = map N.of_nat (seq 1 (length order1))).
  { rewrite Ef. unfold sigma_of. apply (C08_Sort.mapping_of_map order1 O1). }
  assert (Eids : node_ids (set_amap Gc1) = map f1 order1).
  { rewrite node_ids_set_amap, Ef. unfold Gc1, canon_rebuild, node_ids. simpl.
    rewrite (flat_map_labels (sigma_of order1) G order1) by (intros v I; apply I1; exact I). rewrite map_map. reflexivity. }
  assert (Ord2 : wl_order ranks2 (set_amap Gc1) = map f1 order1).
  { unfold wl_order. cbv zeta. rewrite node_ids_to_c08, Eids, C08_Sort.sort_by_map. f_equal.
    set (rk := C08_Model.rank_of ranks1). set (dg := C08_Model.degree (to_c08 G)).
    rewrite (sort_by_ext _ (fun n => [rk n; dg n; Z.of_N (f1 n)])).
    - apply (sorted_fixed rk dg f1 order1 O1); [intros x y _ _ E; apply Finj; exact E|exact Epos|].
      unfold order1, wl_order. cbv zeta. rewrite node_ids_to_c08. apply C08_Sort.sort_by_sorted.
    - intros x y Ix Iy.
      assert (K : forall n, In n order1 ->
                [C08_Model.rank_of ranks2 (f1 n); C08_Model.degree (to_c08 (set_amap Gc1)) (f1 n); Z.of_N (f1 n)] = [rk n; dg n; Z.of_N (f1 n)]).
      { intros n In_. f_equal; [|f_equal].
        - rewrite (Fs1 n In_). apply Hr. apply I1. exact In_.
        - apply (C08_Equiv.degree_rel f1 Finj (to_c08 G) (to_c08 (set_amap Gc1)) (geq_cov_to_c08 f1 G Gc1 RF1)). }
      rewrite (K x Ix), (K y Iy). reflexivity. }
  assert (Hid : forall m, In m (node_ids (set_amap Gc1)) -> sigma_of (wl_order ranks2 (set_amap Gc1)) m = m).
  { intros m I. rewrite Eids in I. apply in_map_iff in I. destruct I as (n & <- & In_).
    rewrite Ord2, (sigma_of_map f1 Finj). symmetry. apply Fs1. exact In_. }
  destruct (Hfix (wl_order ranks2 (set_amap Gc1)) (canon_rebuild (wl_order ranks2 (set_amap Gc1)) (set_amap Gc1)) En2
              (rebuild_relabelled _ _ WGc En2) Hid) as (pairs2 & Hc2' & E2 & S1 & S2).
  exists pairs2, (set_amap (canon_rebuild (wl_order ranks2 (set_amap Gc1)) (set_amap Gc1))), Hc2'.
  unfold canonicalise_wl. auto.
Qed.

(** non-vacuity: the 1-bromononane witness of C09_WLRefuted has TIED colours (atoms 5 and 6) and the theorem applies to it *)
From SK Require proof.C09_WLRefuted.
Definition wt_ranks_after : list (N * Z) :=
  map (fun q : N * Z => (sigma_of (wl_order C09_WLRefuted.wt_ranks1 C09_WLRefuted.wt_G) (fst q), snd q)) C09_WLRefuted.wt_ranks1.
Example ex_fixed_point_wl_ties_hyps :
  parsed C09_WLRefuted.wt_G /\ parsed C09_WLRefuted.wt_H /\
  (forall n, In n (node_ids C09_WLRefuted.wt_G) ->
     C08_Model.rank_of wt_ranks_after (sigma_of (wl_order C09_WLRefuted.wt_ranks1 C09_WLRefuted.wt_G) n) = C08_Model.rank_of C09_WLRefuted.wt_ranks1 n) /\
  ~ ranks_distinct C09_WLRefuted.wt_ranks1 C09_WLRefuted.wt_G.
Proof.
  split; [exact C09_WLRefuted.wt_G_parsed|]. split; [exact C09_WLRefuted.wt_H_parsed|]. split.
  - intros n I. simpl in I. repeat (destruct I as [<-|I]; [vm_compute; reflexivity|]). destruct I.
  - intros D. assert (E : 5%N = 6%N) by (apply D; [simpl; auto 20|simpl; auto 20|vm_compute; reflexivity]). discriminate E.
Qed.

(** the same for EVERY parsed presentation of the canonical graphs (audit remark): the sort key (colour, degree, id) is total on
    distinct ids, so the second canonical order does not depend on the listing order of the atoms / bonds either *)
From SK Require Import proof.C09_Graph proof.C09_Backends.
From SK Require proof.C08_SigFun.

Lemma wl_order_after (ranks1 ranks2 : list (N * Z)) (G G' : mgraph) (f1 : N -> N) :
  wf G -> (forall a b, f1 a = f1 b -> a = b) ->
  (forall n, In n (wl_order ranks1 G) -> f1 n = sigma_of (wl_order ranks1 G) n) ->
  presents f1 G G' ->
  (forall n, In n (node_ids G) -> C08_Model.rank_of ranks2 (sigma_of (wl_order ranks1 G) n) = C08_Model.rank_of ranks1 n) ->
  wl_order ranks2 G' = map f1 (wl_order ranks1 G).
Proof.
  intros WG Finj Fs1 RG2 Hr. pose proof (wl_enumerates ranks1 G WG) as (O1 & I1). set (order1 := wl_order ranks1 G) in *.
  assert (Ef : map f1 order1 = map (sigma_of order1) order1) by (apply map_ext_in; intros n I; apply Fs1; exact I).
  assert (Epos : map f1 order1 = map N.of_nat (seq 1 (length order1))).
  { rewrite Ef. unfold sigma_of. apply (C08_Sort.mapping_of_map order1 O1). }
  assert (P : Permutation (node_ids G') (map f1 order1)).
  { eapply Permutation_trans; [apply (presents_node_ids f1 G G' RG2)|]. apply Permutation_map. apply Permutation_sym.
    apply NoDup_Permutation; [exact O1|destruct WG as (A & _); exact A|exact I1]. }
  unfold wl_order at 1. cbv zeta. rewrite node_ids_to_c08.
  rewrite (C08_Sort.sort_by_perm_eq _ (node_ids G') (map f1 order1) P)
    by (intros x y _ _ E; injection E as _ _ E; apply N2Z.inj; exact E).
  rewrite C08_Sort.sort_by_map. f_equal.
  set (rk := C08_Model.rank_of ranks1). set (dg := C08_Model.degree (to_c08 G)).
  rewrite (sort_by_ext _ (fun n => [rk n; dg n; Z.of_N (f1 n)])).
  - apply (sorted_fixed rk dg f1 order1 O1); [intros x y _ _ E; apply Finj; exact E|exact Epos|].
    unfold order1, wl_order. cbv zeta. rewrite node_ids_to_c08. apply C08_Sort.sort_by_sorted.
  - intros x y Ix Iy.
    assert (K : forall n, In n order1 ->
              [C08_Model.rank_of ranks2 (f1 n); C08_Model.degree (to_c08 G') (f1 n); Z.of_N (f1 n)] = [rk n; dg n; Z.of_N (f1 n)]).
    { intros n In_. f_equal; [|f_equal].
      - rewrite (Fs1 n In_). apply Hr. apply I1. exact In_.
      - apply (C08_Equiv.degree_rel f1 Finj (to_c08 G) (to_c08 G') (geq_cov_presents f1 G G' RG2)). }
    rewrite (K x Ix), (K y Iy). reflexivity.
Qed.

Theorem fixed_point_wl_ties_sg (ranks1 : list (N * Z)) (G H : mgraph) :
  parsed G -> parsed H -> (exists s, In s (node_ids G) /\ In s (node_ids H)) ->
  exists (pairs1 : list (N * N)) (Gc1 Hc1 : mgraph),
    canonicalise_wl ranks1 G H = Some (Gc1, pairs1, Hc1) /\
    forall (ranks2 : list (N * Z)) (G' H' : mgraph), parsed G' -> parsed H' -> same_graph G' Gc1 -> same_graph H' Hc1 ->
      (forall n, In n (node_ids G) -> C08_Model.rank_of ranks2 (sigma_of (wl_order ranks1 G) n) = C08_Model.rank_of ranks1 n) ->
      exists (pairs2 : list (N * N)) (Gc2 Hc2 : mgraph),
        canonicalise_wl ranks2 G' H' = Some (Gc2, pairs2, Hc2) /\ same_graph Gc2 Gc1 /\ same_graph Hc2 Hc1.
Proof.
  intros PG PH Hs. pose proof PG as (WG & _).
  pose proof (wl_enumerates ranks1 G WG) as En1. pose proof En1 as (O1 & I1).
  destruct (fixed_point_sg G H (canon_rebuild (wl_order ranks1 G) G) (wl_order ranks1 G) PG PH Hs En1 (rebuild_relabelled _ G WG En1))
    as (pairs1 & Gc1 & Hc1 & f1 & E1 & Finj & Fs & Hfix).
  exists pairs1, Gc1, Hc1. split; [exact E1|].
  intros ranks2 G' H' PG2 PH2 SG SH Hr. pose proof PG2 as (WG2 & _).
  destruct (Hfix G' H' PG2 PH2 SG SH) as (RG2 & Hrun).
  pose proof (wl_enumerates ranks2 G' WG2) as En2.
  assert (Ord2 : wl_order ranks2 G' = map f1 (wl_order ranks1 G)).
  { apply wl_order_after; auto. intros n I. apply Fs. apply I1. exact I. }
  destruct (Hrun (wl_order ranks2 G') (canon_rebuild (wl_order ranks2 G') G') En2 (rebuild_relabelled _ _ WG2 En2))
    as (pairs2 & Gc2 & Hc2 & E2 & EG & S1 & S2).
  - intros n I. rewrite Ord2. apply (sigma_of_map f1 Finj).
  - exists pairs2, Gc2, Hc2. unfold canonicalise_wl. rewrite E2. auto.
Qed.

(** string level: CanonRSMI(backend="wl").canonical_rsmi is a fixed point - with tied colours too - relative to the RDKit
    contracts [writer_ok] / [reads_back] and the correspondence of the colours of the second run *)
Theorem canonical_rsmi_fixed_point_wl_ties (W : mgraph -> StrJoin.str) (P : StrJoin.str -> option (mgraph * mgraph)) (ranks1 : list (N * Z)) (G H : mgraph) :
  writer_ok W ->
  parsed G -> parsed H -> (exists s, In s (node_ids G) /\ In s (node_ids H)) ->
  (forall Gc1 pairs1 Hc1, canonicalise_wl ranks1 G H = Some (Gc1, pairs1, Hc1) -> reads_back W P Gc1 Hc1) ->
  exists s G' H', C09_Strings.canonical_rsmi W (canonicalise_wl ranks1 G H) = Some s /\ P s = Some (G', H') /\
    forall ranks2 : list (N * Z),
      (forall n, In n (node_ids G) -> C08_Model.rank_of ranks2 (sigma_of (wl_order ranks1 G) n) = C08_Model.rank_of ranks1 n) ->
      C09_Strings.canonical_rsmi W (canonicalise_wl ranks2 G' H') = Some s.
Proof.
  intros HW PG PH Hs HP.
  destruct (fixed_point_wl_ties_sg ranks1 G H PG PH Hs) as (pairs1 & Gc1 & Hc1 & E1 & Hfix).
  destruct (HP Gc1 pairs1 Hc1 E1) as (G' & H' & EP & PG2 & PH2 & SG & SH).
  exists (W Gc1 ++ C09_Strings.GG ++ W Hc1), G', H'. rewrite E1. split; [reflexivity|]. split; [exact EP|].
  intros ranks2 Hrk.
  destruct (Hfix ranks2 G' H' PG2 PH2 SG SH Hrk) as (pairs2 & Gc2 & Hc2 & E2 & S1 & S2).
  rewrite E2. unfold C09_Strings.canonical_rsmi. rewrite (HW _ _ S1), (HW _ _ S2). reflexivity.
Qed.
