(** C12 -- proofs about model/C12_Trace.v: the trace follows the control flow of [search_loop] (its length is the number of
    GraphMatcher objects [search_subgraphs] counts), lists k-subsets of the pattern in descending size, and in maximum mode
    stops at the first level that yields an isomorphism. *)
From Coq Require Import List NArith ZArith Bool Arith Lia Permutation.
From SK Require Import lib.LGraph lib.Mono model.C12_Model model.C12_Trace proof.C12_Search.
Import ListNotations.
Local Open Scope nat_scope.

Section Trace.
Variable nm : option nattr -> option nattr -> bool.
Variable em : eattr -> eattr -> bool.
Variables pattern host : graph.

Lemma level_trace_length k : length (level_trace nm em pattern host k) = length (combs (node_ids pattern) k).
Proof. unfold level_trace. apply map_length. Qed.

Lemma flat_map_nil_iff {X Y} (f : X -> list Y) l : flat_map f l = [] <-> forall x, In x l -> f x = [].
Proof.
  induction l as [|x r IH]; simpl; [split; [intros _ y []|reflexivity]|]. split.
  - intros E. apply app_eq_nil in E. destruct E as (E1 & E2). intros y [<-|Hy]; [exact E1|now apply IH].
  - intros H. rewrite (H x (or_introl eq_refl)). simpl. apply IH. intros y Hy. apply H. now right.
Qed.

(** some subset of the level has a non-zero count iff the level is non-empty *)
Lemma level_trace_found k :
  existsb (fun p => negb (snd p =? 0)) (level_trace nm em pattern host k) = true <-> level nm em pattern host k <> [].
Proof.
  unfold level_trace, level. rewrite existsb_exists. split.
  - intros ([nodes c] & I & Hc). apply in_map_iff in I. destruct I as (n0 & E & I). inversion E; subst. simpl in Hc.
    intros F. rewrite flat_map_nil_iff in F. rewrite (F _ I) in Hc. discriminate.
  - intros Hne. destruct (existsb (fun p => negb (snd p =? 0)) (map (fun nodes => (nodes, length (sub_isos nm em pattern host nodes))) (combs (node_ids pattern) k))) eqn:Ex.
    + apply existsb_exists in Ex. exact Ex.
    + exfalso. apply Hne. apply flat_map_nil_iff. intros nodes I.
      destruct (sub_isos nm em pattern host nodes) eqn:Es; [reflexivity|].
      assert (existsb (fun p => negb (snd p =? 0)) (map (fun nodes => (nodes, length (sub_isos nm em pattern host nodes))) (combs (node_ids pattern) k)) = true).
      { apply existsb_exists. exists (nodes, length (sub_isos nm em pattern host nodes)). split; [apply in_map_iff; exists nodes; split; [reflexivity|exact I]|]. rewrite Es. reflexivity. }
      congruence.
Qed.

Lemma add_new_nil_found cands : snd (add_new [] cands) = true <-> cands <> [].
Proof.
  destruct (add_new [] cands) as [a f] eqn:E. destruct (add_new_spec _ _ _ _ E) as (_ & H). simpl. rewrite H. split.
  - intros (m & I & _) F. rewrite F in I. destruct I.
  - intros Hne. destruct cands as [|m r]; [now elim Hne|]. exists m. split; [now left|intros []].
Qed.

Lemma add_new_nil_acc cands : cands = [] -> add_new [] cands = ([], false).
Proof. intros ->. reflexivity. Qed.

(** maximum mode, from the initial state *)
Lemma trace_loop_mcs k : forall tried acc' best' tried',
  search_loop nm em true pattern host k [] 0 tried = (acc', best', tried') ->
  tried' = tried + length (trace_loop nm em true pattern host k).
Proof.
  induction k as [|k' IH]; intros tried acc' best' tried' E.
  - simpl in E. inversion E; subst. simpl. lia.
  - cbn [search_loop] in E. cbn [andb negb Nat.eqb] in E. cbn [trace_loop andb].
    destruct (add_new [] (level nm em pattern host (S k'))) as [acc1 found] eqn:Ea.
    assert (Hf : found = true <-> level nm em pattern host (S k') <> []).
    { rewrite <- add_new_nil_found, Ea. reflexivity. }
    destruct found.
    + inversion E; subst. assert (Hx : existsb (fun p => negb (snd p =? 0)) (level_trace nm em pattern host (S k')) = true).
      { apply level_trace_found. now apply Hf. }
      rewrite Hx, level_trace_length. reflexivity.
    + assert (Hl : level nm em pattern host (S k') = []).
      { destruct (level nm em pattern host (S k')) eqn:El; [reflexivity|]. assert (false = true) by (apply Hf; discriminate). discriminate. }
      assert (Hx : existsb (fun p => negb (snd p =? 0)) (level_trace nm em pattern host (S k')) = false).
      { destruct (existsb (fun p => negb (snd p =? 0)) (level_trace nm em pattern host (S k'))) eqn:Ex; [|reflexivity].
        apply level_trace_found in Ex. contradiction. }
      rewrite Hx, app_length, level_trace_length. rewrite Hl in Ea. simpl in Ea. inversion Ea; subst acc1.
      rewrite (IH _ _ _ _ E). lia.
Qed.

(** all-sizes mode, from any state *)
Lemma trace_loop_all k : forall acc best tried acc' best' tried',
  search_loop nm em false pattern host k acc best tried = (acc', best', tried') ->
  tried' = tried + length (trace_loop nm em false pattern host k).
Proof.
  induction k as [|k' IH]; intros acc best tried acc' best' tried' E.
  - simpl in E. inversion E; subst. simpl. lia.
  - cbn [search_loop andb] in E. cbn [trace_loop andb].
    destruct (add_new acc (level nm em pattern host (S k'))) as [acc1 found].
    rewrite app_length, level_trace_length.
    destruct found; rewrite (IH _ _ _ _ _ _ E); lia.
Qed.

(** the trace has one entry per GraphMatcher object the search counts *)
Theorem search_trace_length mcs :
  length (search_trace nm em pattern host mcs) = snd (search_subgraphs nm em pattern host mcs).
Proof.
  unfold search_trace, search_subgraphs.
  destruct (search_loop nm em mcs pattern host (Nat.min (n_nodes pattern) (n_nodes host)) [] 0 0) as [[maps best] tried] eqn:E.
  simpl. destruct mcs.
  - now rewrite (trace_loop_mcs _ _ _ _ _ E).
  - now rewrite (trace_loop_all _ _ _ _ _ _ _ E).
Qed.

(** what the entries are: for some level k <= min(|pattern|, |host|) the subset is one of the k-subsets of the pattern's nodes
    (a sub-list in node order) and the count is the number of results of the verified enumerator for it *)
Theorem search_trace_entries mcs nodes c :
  In (nodes, c) (search_trace nm em pattern host mcs) ->
  exists k, 1 <= k <= Nat.min (n_nodes pattern) (n_nodes host) /\ In nodes (combs (node_ids pattern) k) /\
            c = length (sub_isos nm em pattern host nodes).
Proof.
  unfold search_trace. generalize (Nat.min (n_nodes pattern) (n_nodes host)) as K.
  induction K as [|k' IH]; [intros []|]. cbn [trace_loop].
  assert (L : In (nodes, c) (level_trace nm em pattern host (S k')) ->
              exists k, 1 <= k <= S k' /\ In nodes (combs (node_ids pattern) k) /\ c = length (sub_isos nm em pattern host nodes)).
  { intros I. apply in_map_iff in I. destruct I as (n0 & E & I). inversion E; subst. exists (S k'). repeat split; auto; lia. }
  destruct (mcs && existsb (fun p => negb (snd p =? 0)) (level_trace nm em pattern host (S k'))); [exact L|].
  intros I. apply in_app_or in I. destruct I as [I|I]; [now apply L|].
  destruct (IH I) as (k & Hk & R). exists k. split; [lia|exact R].
Qed.

(** maximum mode: the search stops at the first level that yields an isomorphism -- every entry of the trace except those of
    its LAST level has count 0, and if some isomorphism exists at all the last level has one *)
Theorem search_trace_early_exit k :
  let t := trace_loop nm em true pattern host k in
  (forall j, 1 <= j <= k -> level nm em pattern host j = []) /\ (forall p, In p t -> snd p = 0) \/
  exists b, 1 <= b <= k /\ level nm em pattern host b <> [] /\ (forall j, b < j <= k -> level nm em pattern host j = []) /\
            exists pre, t = pre ++ level_trace nm em pattern host b /\ forall p, In p pre -> snd p = 0.
Proof.
  induction k as [|k' IH]; intros t.
  - left. split; [intros j Hj; lia|intros p []].
  - unfold t. cbn [trace_loop andb].
    destruct (existsb (fun p => negb (snd p =? 0)) (level_trace nm em pattern host (S k'))) eqn:Ex.
    + right. exists (S k'). split; [lia|]. split; [now apply level_trace_found|]. split; [intros j Hj; lia|].
      exists []. split; [reflexivity|intros p []].
    + assert (Hl : level nm em pattern host (S k') = []).
      { destruct (level nm em pattern host (S k')) eqn:El; [reflexivity|].
        assert (existsb (fun p => negb (snd p =? 0)) (level_trace nm em pattern host (S k')) = true) by (apply level_trace_found; rewrite El; discriminate).
        congruence. }
      assert (Hz : forall p, In p (level_trace nm em pattern host (S k')) -> snd p = 0).
      { intros p Hp. destruct (snd p =? 0) eqn:Ez; [now apply Nat.eqb_eq|].
        assert (existsb (fun p => negb (snd p =? 0)) (level_trace nm em pattern host (S k')) = true).
        { apply existsb_exists. exists p. split; [exact Hp|now rewrite Ez]. }
        congruence. }
      destruct IH as [(Hall & Hzero)|(b & Hb & Hne & Hall & pre & Et & Hpre)].
      * left. split.
        -- intros j Hj. destruct (Nat.eq_dec j (S k')) as [->|Hn]; [exact Hl|apply Hall; lia].
        -- intros p Hp. apply in_app_or in Hp. destruct Hp as [Hp|Hp]; [now apply Hz|now apply Hzero].
      * right. exists b. split; [lia|]. split; [exact Hne|]. split.
        -- intros j Hj. destruct (Nat.eq_dec j (S k')) as [->|Hn]; [exact Hl|apply Hall; lia].
        -- exists (level_trace nm em pattern host (S k') ++ pre). split; [rewrite Et, app_assoc; reflexivity|].
           intros p Hp. apply in_app_or in Hp. destruct Hp as [Hp|Hp]; [now apply Hz|now apply Hpre].
Qed.

End Trace.

Module Example_trace12.
(** C(1)-C(2)(=O(3)) against O(7)=C(8): level 2 has three subsets, only {2,3} has an image; the search stops there *)
Definition at_ (e : N) : nattr := (Some e, [Some e]).
Definition gA : graph := LG [(1, at_ 1); (2, at_ 1); (3, at_ 2)]%N [(1, 2, [Some 2%Z]); (2, 3, [Some 4%Z])]%N.
Definition gB : graph := LG [(7, at_ 2); (8, at_ 1)]%N [(7, 8, [Some 4%Z])]%N.
Example trace_mcs : fcs_trace [0%N] false 0%N gA gB true = [([7; 8]%N, 1)].
Proof. vm_compute. reflexivity. Qed.
Example trace_mcs_swapped : fcs_trace [0%N] false 0%N gB gA true = [([7; 8]%N, 1)].
Proof. vm_compute. reflexivity. Qed.
Example trace_all : fcs_trace [0%N] false 0%N gA gB false = [([7; 8]%N, 1); ([7]%N, 1); ([8]%N, 2)].
Proof. vm_compute. reflexivity. Qed.
(** the MTG copy keeps the first graph as pattern: three 2-subsets, one with an image *)
Example trace_mtg : mtg_trace [0%N] gA gB true = [([1; 2]%N, 0); ([1; 3]%N, 0); ([2; 3]%N, 1)].
Proof. vm_compute. reflexivity. Qed.
End Example_trace12.
