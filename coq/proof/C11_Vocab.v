(** C11 — the specification vocabulary used in props/C11.v, unfolded (so that the props file pins it down). *)
From Coq Require Import List NArith Arith.
From SK Require Import lib.LGraph lib.Mono model.C11_Model proof.C11_Aut proof.C11_Dedup proof.C11_Main proof.C11_Comp proof.C11_VF2.
Import ListNotations.

Lemma vocabulary (fn : nlab -> N) (fe : elab -> N) (g : graph) (s : N -> N) (u v : N) (m m' : mapping)
      (O : list (list N)) (c : list N) (cs : list (list N)) (E : list mapping) :
  (simple_graph g <-> NoDup (node_ids g) /\ forall a b x, In (a, b, x) (gedges g) -> a <> b) /\
  (is_automorphism fn fe g s <->
     (forall u, In u (node_ids g) -> In (s u) (node_ids g)) /\
     (forall u v, In u (node_ids g) -> In v (node_ids g) -> s u = s v -> u = v) /\
     (forall u, In u (node_ids g) -> option_map fn (label g (s u)) = option_map fn (label g u)) /\
     (forall u v, In u (node_ids g) -> In v (node_ids g) ->
        option_map fe (LGraph.adj g (s u) (s v)) = option_map fe (LGraph.adj g u v))) /\
  aut_pairs g s = rev (map (fun u => (u, s u)) (node_ids g)) /\
  (same_orbit fn fe g u v <-> exists m, In m (auts fn fe g) /\ In (u, v) m) /\
  (same_items m m' <-> forall ph, In ph m <-> In ph m') /\
  (exact_orbits fn fe g O <->
     (forall u, In u (node_ids g) -> exists o, In o O /\ In u o) /\
     (forall o u, In o O -> In u o -> In u (node_ids g)) /\
     (forall o1 o2 u, In o1 O -> In o2 O -> In u o1 -> In u o2 -> o1 = o2) /\
     NoDup O /\
     (forall o u v, In o O -> In u o -> (In v o <-> same_orbit fn fe g u v))) /\
  (pairwise_disjoint (c :: cs) <-> (forall d, In d cs -> forall x, In x c -> ~ In x d) /\ pairwise_disjoint cs) /\
  (nodupR same_items (m :: E) <-> (forall y, In y E -> ~ same_items m y) /\ nodupR same_items E) /\
  app_map m u = match assoc u m with Some q => q | None => u end /\
  act m m' = map (fun ph => (app_map m (fst ph), snd ph)) m'.
Proof.
  split; [apply iff_refl|]. split; [apply iff_refl|]. split; [reflexivity|]. split; [apply iff_refl|].
  split; [apply iff_refl|]. split; [apply iff_refl|]. split; [apply iff_refl|]. split; [apply iff_refl|].
  split; reflexivity.
Qed.
