(** C11 — automorphisms: the enumeration used by the model ([auts] = lib/Mono.v [monos], induced, G into G) is a
    duplicate-free listing of exactly the label-preserving automorphisms, which form a group (identity,
    composition, inverse); the count reported by [analyze] is the length of that listing and the reported orbits
    are exactly the classes of the relation "some listed automorphism maps u to v" (clauses 1 and 2).
    Stdlib lists. *)
From Coq Require Import List NArith ZArith Bool Arith Lia Permutation.
From SK Require Import lib.Tok lib.LGraph lib.Mono lib.Reach model.C11_Model.
Import ListNotations.

(** ---------- generic list facts ---------- *)
Lemma combine_map_pairs {X} (f : N -> X) (l : list N) : combine l (map f l) = map (fun u => (u, f u)) l.
Proof. induction l; simpl; congruence. Qed.

Lemma NoDup_map_inj_in {X Y} (f : X -> Y) (l : list X) x y :
  NoDup (map f l) -> In x l -> In y l -> f x = f y -> x = y.
Proof.
  induction l as [|a l IH]; simpl; [tauto|].
  intros Hnd Hx Hy E. inversion Hnd as [|? ? Hn Hnd']; subst.
  destruct Hx as [->|Hx], Hy as [->|Hy]; auto.
  - exfalso. apply Hn. rewrite E. apply in_map. exact Hy.
  - exfalso. apply Hn. rewrite <- E. apply in_map. exact Hx.
Qed.

Lemma inj_in_NoDup_map {X Y} (f : X -> Y) (l : list X) :
  NoDup l -> (forall x y, In x l -> In y l -> f x = f y -> x = y) -> NoDup (map f l).
Proof.
  induction 1 as [|a l Hn Hnd IH]; simpl; intros Hinj; [constructor|].
  constructor.
  - intros Hin. apply in_map_iff in Hin. destruct Hin as (y & E & Hy).
    apply Hn. rewrite (Hinj a y); auto.
  - apply IH. intros x y Hx Hy. apply Hinj; auto.
Qed.

Lemma assoc_combine_map (f : N -> N) (l : list N) u : In u l -> assoc u (combine l (map f l)) = Some (f u).
Proof.
  induction l as [|a l IH]; simpl; [tauto|].
  intros H. destruct (N.eqb_spec u a) as [->|Hne]; [reflexivity|].
  destruct H as [->|H]; [congruence | auto].
Qed.

Lemma assoc_not_in {V} u (l : list (N * V)) : ~ In u (map fst l) -> assoc u l = None.
Proof.
  induction l as [|[k v] l IH]; simpl; [reflexivity|].
  intros H. destruct (N.eqb_spec u k) as [->|Hne]; [exfalso; apply H; left; reflexivity|].
  apply IH. intros Hin. apply H. right. exact Hin.
Qed.

Lemma map_lookup_combine (ns hs : list N) :
  NoDup ns -> length hs = length ns ->
  map (fun u => match assoc u (combine ns hs) with Some h => h | None => u end) ns = hs.
Proof.
  revert hs. induction ns as [|n ns IH]; intros hs Hnd Hl; destruct hs as [|h hs]; try discriminate; [reflexivity|].
  simpl. rewrite N.eqb_refl. f_equal.
  inversion Hnd as [|? ? Hn Hnd']; subst.
  transitivity (map (fun u => match assoc u (combine ns hs) with Some h0 => h0 | None => u end) ns);
    [|apply IH; [exact Hnd' | simpl in Hl; lia]].
  apply map_ext_in. intros u Hu.
  destruct (N.eqb_spec u n) as [->|Hne]; [contradiction | reflexivity].
Qed.

Lemma oeqb_eq a b : oeqb a b = true <-> a = b.
Proof.
  destruct a, b; simpl; try (split; [discriminate | discriminate]); try tauto.
  rewrite N.eqb_eq. split; [intros ->; reflexivity | intros [= ->]; reflexivity].
Qed.
Lemma oeqb_refl a : oeqb a a = true.
Proof. apply oeqb_eq. reflexivity. Qed.

(** ---------- the abstract setting: a node list, a label function, a symmetric loop-free adjacency ---------- *)
Section Auto.
Variable ns : list N.
Variable Lb : N -> option N.
Variable Ed : N -> N -> option N.
Hypothesis ns_nodup : NoDup ns.
Hypothesis Ed_sym : forall u v, Ed u v = Ed v u.
Hypothesis Ed_irrefl : forall u, Ed u u = None.

Definition A : list mapping := monos ns ns Lb Lb Ed Ed oeqb N.eqb true.
Definition V (m : mapping) : Prop := valid ns Lb Lb Ed Ed oeqb N.eqb true m.

(** a label-preserving automorphism, as a function on node ids (only its values on [ns] matter) *)
Definition isaut (s : N -> N) : Prop :=
  (forall u, In u ns -> In (s u) ns) /\
  (forall u v, In u ns -> In v ns -> s u = s v -> u = v) /\
  (forall u, In u ns -> Lb (s u) = Lb u) /\
  (forall u v, In u ns -> In v ns -> Ed (s u) (s v) = Ed u v).

Definition pairs_of (s : N -> N) : mapping := rev (map (fun u => (u, s u)) ns).

Lemma in_pairs_of s u v : In (u, v) (pairs_of s) <-> In u ns /\ v = s u.
Proof.
  unfold pairs_of. rewrite <- in_rev, in_map_iff. split.
  - intros (x & E & Hx). inversion E; subst. auto.
  - intros [H ->]. exists u. auto.
Qed.

Lemma edge_ok_eq p h p' h' : edge_ok Ed Ed N.eqb true p h (p', h') = true <-> Ed p p' = Ed h h'.
Proof.
  unfold edge_ok; simpl. destruct (Ed p p') as [b|], (Ed h h') as [b'|]; simpl.
  - rewrite N.eqb_eq. split; [intros ->; reflexivity | intros [= ->]; reflexivity].
  - split; discriminate.
  - split; discriminate.
  - tauto.
Qed.

Lemma valid_of_pointwise (m : mapping) :
  (forall p h, In (p, h) m -> In h ns /\ Lb h = Lb p) ->
  NoDup (map snd m) ->
  (forall p h p' h', In (p, h) m -> In (p', h') m -> Ed p p' = Ed h h') ->
  V m.
Proof.
  unfold V. induction m as [|[p h] acc IH]; intros H1 H2 H3; [constructor|].
  simpl in H2. inversion H2 as [|? ? Hn Hnd]; subst.
  constructor.
  - apply IH; auto.
    + intros p0 h0 Hin. apply H1. right. exact Hin.
    + intros p0 h0 p1 h1 Ha Hb. apply H3; right; assumption.
  - apply (H1 p h). left. reflexivity.
  - unfold ok. rewrite !andb_true_iff. split; [split|].
    + apply oeqb_eq. apply (H1 p h). left. reflexivity.
    + apply fresh_spec. exact Hn.
    + apply forallb_forall. intros [p' h'] Hin. apply edge_ok_eq. apply H3; [left; reflexivity | right; exact Hin].
Qed.

Lemma valid_pairs (m : mapping) : V m ->
  (forall p h, In (p, h) m -> In h ns /\ Lb h = Lb p) /\
  NoDup (map snd m) /\
  (forall p h p' h', In (p, h) m -> In (p', h') m -> Ed p p' = Ed h h').
Proof.
  intros Hv. destruct (valid_pointwise Hv) as (H1 & H2 & H3).
  split; [|split; [exact H2|]].
  - intros p h Hin. destruct (H1 p h Hin) as [Ha Hb]. split; [exact Ha | apply oeqb_eq; exact Hb].
  - intros p h p' h' Ha Hb.
    destruct (in_split _ _ Ha) as (l1 & l2 & ->).
    apply in_app_or in Hb. destruct Hb as [Hb|[Hb|Hb]].
    + destruct (in_split _ _ Hb) as (a & b & ->).
      rewrite (Ed_sym p p'), (Ed_sym h h'). apply edge_ok_eq.
      apply (H3 a p' h' b p h l2). rewrite <- app_assoc. reflexivity.
    + inversion Hb; subst. rewrite !Ed_irrefl. reflexivity.
    + destruct (in_split _ _ Hb) as (a & b & ->).
      apply edge_ok_eq. apply (H3 l1 p h a p' h' b). reflexivity.
Qed.

(** every automorphism is listed *)
Lemma isaut_listed s : isaut s -> In (pairs_of s) A.
Proof.
  intros (H1 & H2 & H3 & H4). unfold A, pairs_of. rewrite <- combine_map_pairs.
  apply monos_spec; [apply map_length|].
  rewrite combine_map_pairs. apply valid_of_pointwise.
  - intros p h Hin. apply (in_pairs_of s) in Hin. destruct Hin as [Hp ->]. auto.
  - rewrite map_rev, map_map. simpl. apply NoDup_rev. apply inj_in_NoDup_map; auto.
  - intros p h p' h' Ha Hb. apply (in_pairs_of s) in Ha. apply (in_pairs_of s) in Hb.
    destruct Ha as [Hp ->], Hb as [Hp' ->]. symmetry. apply H4; auto.
Qed.

(** every listed mapping is the pair list of an automorphism *)
Lemma listed_isaut m : In m A -> exists s, isaut s /\ m = pairs_of s.
Proof.
  intros Hin. destruct (monos_only_such _ _ _ _ _ _ _ _ _ _ Hin) as (hs & Hl & Em & Hv).
  set (s := fun u => match assoc u (combine ns hs) with Some h => h | None => u end).
  assert (Ehs : map s ns = hs) by (apply map_lookup_combine; auto).
  assert (Em' : m = pairs_of s).
  { unfold pairs_of. rewrite <- combine_map_pairs, Ehs. exact Em. }
  exists s. split; [|exact Em'].
  destruct (valid_pairs m Hv) as (H1 & H2 & H3).
  assert (Hmem : forall u, In u ns -> In (u, s u) m) by (intros u Hu; rewrite Em'; apply in_pairs_of; auto).
  repeat split.
  - intros u Hu. apply (H1 u (s u)). auto.
  - intros u v Hu Hv' E. rewrite Em' in H2. unfold pairs_of in H2. rewrite map_rev, map_map in H2. simpl in H2.
    apply NoDup_rev in H2. rewrite rev_involutive in H2.
    eapply NoDup_map_inj_in; eauto.
  - intros u Hu. apply (H1 u (s u)). auto.
  - intros u v Hu Hv'. symmetry. apply (H3 u (s u) v (s v)); auto.
Qed.

Lemma listing_spec m : In m A <-> exists s, isaut s /\ m = pairs_of s.
Proof.
  split; [apply listed_isaut|]. intros (s & Hs & ->). apply isaut_listed. exact Hs.
Qed.

Lemma listing_nodup : NoDup A.
Proof. unfold A. apply monos_nodup. exact ns_nodup. Qed.

(** ---------- the automorphisms form a group ---------- *)
Lemma isaut_id : isaut (fun u => u).
Proof. repeat split; auto. Qed.

Lemma isaut_comp s t : isaut s -> isaut t -> isaut (fun u => s (t u)).
Proof.
  intros (S1 & S2 & S3 & S4) (T1 & T2 & T3 & T4). repeat split.
  - auto.
  - intros u v Hu Hv E. apply T2; auto.
  - intros u Hu. rewrite S3; auto.
  - intros u v Hu Hv. rewrite S4; auto.
Qed.

Lemma isaut_surj s : isaut s -> forall v, In v ns -> exists u, In u ns /\ s u = v.
Proof.
  intros (S1 & S2 & _ & _) v Hv.
  assert (Hincl : incl ns (map s ns)).
  { apply NoDup_length_incl.
    - apply inj_in_NoDup_map; auto.
    - rewrite map_length. lia.
    - intros x Hx. apply in_map_iff in Hx. destruct Hx as (u & <- & Hu). auto. }
  specialize (Hincl v Hv). apply in_map_iff in Hincl. destruct Hincl as (u & E & Hu). eauto.
Qed.

Definition inv_fun (s : N -> N) (v : N) : N :=
  match find (fun u => N.eqb (s u) v) ns with Some u => u | None => v end.

Lemma inv_fun_spec s : isaut s -> forall v, In v ns -> In (inv_fun s v) ns /\ s (inv_fun s v) = v.
Proof.
  intros Hs v Hv. unfold inv_fun. destruct (find (fun u => N.eqb (s u) v) ns) as [u|] eqn:F.
  - apply find_some in F. destruct F as [Hu E]. apply N.eqb_eq in E. auto.
  - exfalso. destruct (isaut_surj s Hs v Hv) as (u & Hu & E).
    pose proof (find_none _ _ F u Hu) as Hn. simpl in Hn. rewrite E, N.eqb_refl in Hn. discriminate.
Qed.

Lemma isaut_inv s : isaut s -> isaut (inv_fun s).
Proof.
  intros Hs. pose proof (inv_fun_spec s Hs) as Hi. destruct Hs as (S1 & S2 & S3 & S4). repeat split.
  - intros u Hu. apply Hi; auto.
  - intros u v Hu Hv E. destruct (Hi u Hu) as [_ <-]. destruct (Hi v Hv) as [_ <-]. rewrite E. reflexivity.
  - intros u Hu. destruct (Hi u Hu) as [Hin E]. rewrite <- E at 2. symmetry. apply S3. exact Hin.
  - intros u v Hu Hv. destruct (Hi u Hu) as [Hin E]. destruct (Hi v Hv) as [Hin' E'].
    rewrite <- E at 2. rewrite <- E' at 2. symmetry. apply S4; auto.
Qed.

(** ---------- the orbit relation: some listed automorphism maps u to v ---------- *)
Definition rel (u v : N) : Prop := exists m, In m A /\ In (u, v) m.

Lemma rel_fun u v : rel u v <-> exists s, isaut s /\ In u ns /\ v = s u.
Proof.
  unfold rel. split.
  - intros (m & Hm & Hin). apply listing_spec in Hm. destruct Hm as (s & Hs & ->).
    apply in_pairs_of in Hin. exists s. tauto.
  - intros (s & Hs & Hu & ->). exists (pairs_of s). split; [apply isaut_listed; exact Hs | apply in_pairs_of; auto].
Qed.

Lemma rel_nodes u v : rel u v -> In u ns /\ In v ns.
Proof. intros H. apply rel_fun in H. destruct H as (s & Hs & Hu & ->). split; auto. apply Hs. exact Hu. Qed.

Lemma rel_refl u : In u ns -> rel u u.
Proof. intros Hu. apply rel_fun. exists (fun x => x). split; [apply isaut_id | auto]. Qed.

Lemma rel_sym u v : rel u v -> rel v u.
Proof.
  intros H. apply rel_fun in H. destruct H as (s & Hs & Hu & ->). apply rel_fun.
  exists (inv_fun s). split; [apply isaut_inv; exact Hs|].
  assert (Hsu : In (s u) ns) by (apply Hs; exact Hu).
  split; [exact Hsu|].
  destruct (inv_fun_spec s Hs (s u) Hsu) as [Hin E].
  destruct Hs as (_ & S2 & _ & _). symmetry. apply S2; auto.
Qed.

Lemma rel_trans u v w : rel u v -> rel v w -> rel u w.
Proof.
  intros H1 H2. apply rel_fun in H1. apply rel_fun in H2.
  destruct H1 as (s & Hs & Hu & ->). destruct H2 as (t & Ht & _ & ->).
  apply rel_fun. exists (fun x => t (s x)). split; [apply isaut_comp; assumption | auto].
Qed.

Lemma listing_nonempty : A <> [].
Proof. intros E. pose proof (isaut_listed _ isaut_id) as H. rewrite E in H. exact H. Qed.

End Auto.

(** ---------- canonical sets of N: [canonN] depends only on the set of elements ---------- *)
Fixpoint ssorted (l : list N) : Prop :=
  match l with
  | [] => True
  | x :: r => (forall y, In y r -> (x < y)%N) /\ ssorted r
  end.

Lemma insN_in x l y : In y (insN x l) <-> y = x \/ In y l.
Proof.
  induction l as [|a l IH]; simpl; [intuition|].
  destruct (x <=? a)%N; simpl; [intuition | rewrite IH; intuition].
Qed.

Lemma insN_ssorted x l : ssorted l -> ~ In x l -> ssorted (insN x l).
Proof.
  induction l as [|a l IH]; simpl; [intros _ _; split; [intros ? []|exact Logic.I]|].
  intros [Ha Hs] Hn. destruct (N.leb_spec x a) as [Hle|Hlt]; simpl.
  - split; [|split; assumption].
    intros y [<-|Hy]; [|specialize (Ha y Hy)]; lia.
  - split.
    + intros y Hy. apply insN_in in Hy. destruct Hy as [->|Hy]; [exact Hlt | auto].
    + apply IH; auto.
Qed.

Lemma sortN_in l y : In y (sortN l) <-> In y l.
Proof. induction l as [|a l IH]; simpl; [tauto|]. rewrite insN_in, IH. intuition. Qed.

Lemma sortN_ssorted l : NoDup l -> ssorted (sortN l).
Proof.
  induction 1 as [|a l Hn Hnd IH]; simpl; [exact Logic.I|].
  apply insN_ssorted; [exact IH | rewrite sortN_in; exact Hn].
Qed.

Lemma dedupN_in l y : In y (dedupN l) <-> In y l.
Proof.
  induction l as [|a l IH]; simpl; [tauto|].
  destruct (LGraph.mem a l) eqn:E; simpl; rewrite IH; [|tauto].
  apply LGraph.mem_spec in E. split; [auto | intros [<-|H]; auto].
Qed.

Lemma dedupN_nodup l : NoDup (dedupN l).
Proof.
  induction l as [|a l IH]; simpl; [constructor|].
  destruct (LGraph.mem a l) eqn:E; [exact IH|].
  constructor; [|exact IH]. rewrite dedupN_in. intros H. apply LGraph.mem_spec in H. congruence.
Qed.

Lemma canonN_in l y : In y (canonN l) <-> In y l.
Proof. unfold canonN. rewrite sortN_in, dedupN_in. tauto. Qed.

Lemma canonN_ssorted l : ssorted (canonN l).
Proof. apply sortN_ssorted, dedupN_nodup. Qed.

Lemma ssorted_ext l1 : forall l2, ssorted l1 -> ssorted l2 -> (forall y, In y l1 <-> In y l2) -> l1 = l2.
Proof.
  induction l1 as [|a l1 IH]; intros [|b l2] S1 S2 H.
  - reflexivity.
  - exfalso. apply (H b). left. reflexivity.
  - exfalso. apply (H a). left. reflexivity.
  - simpl in S1, S2. destruct S1 as [Ha S1], S2 as [Hb S2].
    assert (a = b).
    { assert (Hab : In a (b :: l2)) by (apply H; left; reflexivity).
      assert (Hba : In b (a :: l1)) by (apply H; left; reflexivity).
      destruct Hab as [->|Hab]; [reflexivity|]. destruct Hba as [->|Hba]; [reflexivity|].
      specialize (Ha b Hba). specialize (Hb a Hab). lia. }
    subst b. f_equal. apply IH; auto.
    intros y. split; intros Hy.
    + assert (Hin : In y (a :: l2)) by (apply H; right; exact Hy).
      destruct Hin as [<-|Hin]; [|exact Hin]. specialize (Ha a Hy). lia.
    + assert (Hin : In y (a :: l1)) by (apply H; right; exact Hy).
      destruct Hin as [<-|Hin]; [|exact Hin]. specialize (Hb a Hy). lia.
Qed.

Lemma canonN_ext l1 l2 : (forall y, In y l1 <-> In y l2) -> canonN l1 = canonN l2.
Proof.
  intros H. apply ssorted_ext; try apply canonN_ssorted.
  intros y. rewrite !canonN_in. apply H.
Qed.

Lemma leqb_eq a : forall b, leqb a b = true <-> a = b.
Proof.
  induction a as [|x a IH]; intros [|y b]; simpl; try (split; [discriminate | discriminate]); try tauto.
  rewrite andb_true_iff, N.eqb_eq, IH. split; [intros [-> ->]; reflexivity | intros [= -> ->]; auto].
Qed.

Lemma dedupL_in l o : In o (dedupL l) <-> In o l.
Proof.
  induction l as [|a l IH]; simpl; [tauto|].
  destruct (existsb (leqb a) l) eqn:E; simpl; rewrite IH; [|tauto].
  apply existsb_exists in E. destruct E as (b & Hb & E). apply leqb_eq in E. subst b.
  split; [auto | intros [<-|H]; auto].
Qed.

Lemma dedupL_nodup l : NoDup (dedupL l).
Proof.
  induction l as [|a l IH]; simpl; [constructor|].
  destruct (existsb (leqb a) l) eqn:E; [exact IH|].
  constructor; [|exact IH]. rewrite dedupL_in. intros H.
  assert (existsb (leqb a) l = true) by (apply existsb_exists; exists a; split; [exact H | apply leqb_eq; reflexivity]).
  congruence.
Qed.

(** ---------- orbit sets ---------- *)
Lemma orbit_raw_in (As : list mapping) u v :
  In v (orbit_raw As u) <-> exists m, In m As /\ (In (u, v) m \/ In (v, u) m).
Proof.
  unfold orbit_raw. rewrite in_flat_map. split.
  - intros (m & Hm & Hin). exists m. split; [exact Hm|].
    apply in_flat_map in Hin. destruct Hin as ([a b] & Hab & Hin). simpl in Hin.
    destruct (N.eqb_spec a u) as [->|Hne].
    + destruct Hin as [<-|[]]. left. exact Hab.
    + destruct (N.eqb_spec b u) as [->|Hne']; [|destruct Hin].
      destruct Hin as [<-|[]]. right. exact Hab.
  - intros (m & Hm & [Hin|Hin]); exists m; (split; [exact Hm|]); apply in_flat_map.
    + exists (u, v). split; [exact Hin|]. simpl. rewrite N.eqb_refl. left. reflexivity.
    + exists (v, u). split; [exact Hin|]. simpl.
      destruct (N.eqb_spec v u) as [->|Hne]; [left; reflexivity|].
      rewrite N.eqb_refl. left. reflexivity.
Qed.

(** ---------- graphs ---------- *)
(** what the theorems need of a graph: distinct node ids and no self-loops (implied by [LGraph.wf]) *)
Definition simple_graph (g : graph) : Prop :=
  NoDup (node_ids g) /\ forall a b x, In (a, b, x) (gedges g) -> a <> b.

Lemma wf_simple g : wf g -> simple_graph g.
Proof. intros (H1 & H2 & _). split; [exact H1|]. intros a b x Hin. apply (H2 a b x Hin). Qed.

Lemma find_edge_some {B} u v (es : list (N * N * B)) x :
  find_edge u v es = Some x -> exists a b, In (a, b, x) es /\ ((a = u /\ b = v) \/ (a = v /\ b = u)).
Proof.
  induction es as [|[[a b] y] r IH]; simpl; [discriminate|].
  destruct ((N.eqb a u && N.eqb b v) || (N.eqb a v && N.eqb b u)) eqn:E.
  - intros [= ->]. exists a, b. split; [left; reflexivity|].
    apply orb_true_iff in E. destruct E as [E|E]; apply andb_true_iff in E; destruct E as [E1 E2];
      apply N.eqb_eq in E1; apply N.eqb_eq in E2; auto.
  - intros H. destruct (IH H) as (a' & b' & Hin & Hc). exists a', b'. split; [right; exact Hin | exact Hc].
Qed.

Lemma adj_irrefl g u : simple_graph g -> LGraph.adj g u u = None.
Proof.
  intros [_ H]. destruct (LGraph.adj g u u) as [x|] eqn:E; [|reflexivity].
  apply find_edge_some in E. destruct E as (a & b & Hin & [[-> ->]|[-> ->]]); exfalso; exact (H _ _ _ Hin eq_refl).
Qed.

Lemma adj_of_sym fe g u v : adj_of fe g u v = adj_of fe g v u.
Proof. unfold adj_of. rewrite adj_sym. reflexivity. Qed.

Lemma adj_of_irrefl fe g u : simple_graph g -> adj_of fe g u u = None.
Proof. intros H. unfold adj_of. rewrite adj_irrefl; auto. Qed.

Lemma NoDup_map_fst_filter {V} (f : N * V -> bool) (l : list (N * V)) : NoDup (map fst l) -> NoDup (map fst (filter f l)).
Proof.
  induction l as [|a l IH]; simpl; [auto|]. intros H. inversion H as [|? ? Hn Hnd]; subst.
  destruct (f a); simpl; [|auto]. constructor; [|auto].
  intros Hin. apply Hn. apply in_map_iff in Hin. destruct Hin as (y & E & Hy).
  apply filter_In in Hy. rewrite <- E. apply in_map. tauto.
Qed.

Lemma induced_simple g c : simple_graph g -> simple_graph (induced_sub g c).
Proof.
  intros [H1 H2]. split.
  - unfold node_ids, induced_sub. simpl. apply NoDup_map_fst_filter. exact H1.
  - intros a b x Hin. unfold induced_sub in Hin. simpl in Hin. apply filter_In in Hin. apply (H2 a b x). tauto.
Qed.

(** a label-preserving automorphism of [g] w.r.t. the node label [fn] and the edge label [fe] *)
Definition is_automorphism (fn : nlab -> N) (fe : elab -> N) (g : graph) (s : N -> N) : Prop :=
  (forall u, In u (node_ids g) -> In (s u) (node_ids g)) /\
  (forall u v, In u (node_ids g) -> In v (node_ids g) -> s u = s v -> u = v) /\
  (forall u, In u (node_ids g) -> lab_of fn g (s u) = lab_of fn g u) /\
  (forall u v, In u (node_ids g) -> In v (node_ids g) -> adj_of fe g (s u) (s v) = adj_of fe g u v).

(** its list of (node, image) pairs, in the order the enumerator uses *)
Definition aut_pairs (g : graph) (s : N -> N) : mapping := rev (map (fun u => (u, s u)) (node_ids g)).

(** u ~ v: some listed automorphism maps u to v *)
Definition same_orbit (fn : nlab -> N) (fe : elab -> N) (g : graph) (u v : N) : Prop :=
  exists m, In m (auts fn fe g) /\ In (u, v) m.

Section Graph.
Variable fn : nlab -> N.
Variable fe : elab -> N.
Variable g : graph.
Hypothesis Hg : simple_graph g.

Lemma auts_listing m : In m (auts fn fe g) <-> exists s, is_automorphism fn fe g s /\ m = aut_pairs g s.
Proof. exact (listing_spec (node_ids g) (lab_of fn g) (adj_of fe g) (proj1 Hg) (adj_of_sym fe g) (fun u => adj_of_irrefl fe g u Hg) m). Qed.

Lemma auts_nodup : NoDup (auts fn fe g).
Proof. exact (listing_nodup (node_ids g) (lab_of fn g) (adj_of fe g) (proj1 Hg)). Qed.

Lemma auts_nonempty : auts fn fe g <> [].
Proof. exact (listing_nonempty (node_ids g) (lab_of fn g) (adj_of fe g) (proj1 Hg)). Qed.

Lemma same_orbit_fun u v : same_orbit fn fe g u v <-> exists s, is_automorphism fn fe g s /\ In u (node_ids g) /\ v = s u.
Proof. exact (rel_fun (node_ids g) (lab_of fn g) (adj_of fe g) (proj1 Hg) (adj_of_sym fe g) (fun u => adj_of_irrefl fe g u Hg) u v). Qed.

Lemma same_orbit_refl u : In u (node_ids g) -> same_orbit fn fe g u u.
Proof. exact (rel_refl (node_ids g) (lab_of fn g) (adj_of fe g) (proj1 Hg) (adj_of_sym fe g) (fun u => adj_of_irrefl fe g u Hg) u). Qed.
Lemma same_orbit_sym u v : same_orbit fn fe g u v -> same_orbit fn fe g v u.
Proof. exact (rel_sym (node_ids g) (lab_of fn g) (adj_of fe g) (proj1 Hg) (adj_of_sym fe g) (fun u => adj_of_irrefl fe g u Hg) u v). Qed.
Lemma same_orbit_trans u v w : same_orbit fn fe g u v -> same_orbit fn fe g v w -> same_orbit fn fe g u w.
Proof. exact (rel_trans (node_ids g) (lab_of fn g) (adj_of fe g) (proj1 Hg) (adj_of_sym fe g) (fun u => adj_of_irrefl fe g u Hg) u v w). Qed.
Lemma same_orbit_nodes u v : same_orbit fn fe g u v -> In u (node_ids g) /\ In v (node_ids g).
Proof. exact (rel_nodes (node_ids g) (lab_of fn g) (adj_of fe g) (proj1 Hg) (adj_of_sym fe g) (fun u => adj_of_irrefl fe g u Hg) u v). Qed.

Lemma orbit_set_in u v : In u (node_ids g) -> (In v (orbit_set (auts fn fe g) u) <-> same_orbit fn fe g u v).
Proof.
  intros Hu. unfold orbit_set. rewrite canonN_in, orbit_raw_in. split.
  - intros (m & Hm & [H|H]).
    + exists m. auto.
    + apply same_orbit_sym. exists m. auto.
  - intros (m & Hm & H). exists m. auto.
Qed.

(** the orbit list of a component analysis *)
Definition exact_orbits (O : list (list N)) : Prop :=
  (forall u, In u (node_ids g) -> exists o, In o O /\ In u o) /\
  (forall o u, In o O -> In u o -> In u (node_ids g)) /\
  (forall o1 o2 u, In o1 O -> In o2 O -> In u o1 -> In u o2 -> o1 = o2) /\
  NoDup O /\
  (forall o u v, In o O -> In u o -> (In v o <-> same_orbit fn fe g u v)).

Lemma orbit_classes_exact : exact_orbits (dedupL (map (orbit_set (auts fn fe g)) (node_ids g))).
Proof.
  set (O := dedupL _).
  assert (HO : forall o, In o O <-> exists w, In w (node_ids g) /\ o = orbit_set (auts fn fe g) w).
  { intros o. unfold O. rewrite dedupL_in, in_map_iff. split; intros (w & H1 & H2); exists w; auto. }
  assert (H5 : forall o u v, In o O -> In u o -> (In v o <-> same_orbit fn fe g u v)).
  { intros o u v Ho Hu. apply HO in Ho. destruct Ho as (w & Hw & ->).
    apply orbit_set_in in Hu; [|exact Hw]. rewrite orbit_set_in by exact Hw. split; intros H.
    - eapply same_orbit_trans; [apply same_orbit_sym; exact Hu | exact H].
    - eapply same_orbit_trans; eauto. }
  split; [|split; [|split; [|split]]].
  - intros u Hu. exists (orbit_set (auts fn fe g) u). split; [apply HO; eauto|].
    apply orbit_set_in; [exact Hu | apply same_orbit_refl; exact Hu].
  - intros o u Ho Hu. apply HO in Ho. destruct Ho as (w & Hw & ->).
    apply orbit_set_in in Hu; [|exact Hw]. apply same_orbit_nodes in Hu. tauto.
  - intros o1 o2 u Ho1 Ho2 Hu1 Hu2.
    pose proof (fun v => H5 o1 u v Ho1 Hu1) as E1. pose proof (fun v => H5 o2 u v Ho2 Hu2) as E2.
    apply HO in Ho1. apply HO in Ho2. destruct Ho1 as (w1 & Hw1 & ->). destruct Ho2 as (w2 & Hw2 & ->).
    assert (Hy : forall y, In y (orbit_set (auts fn fe g) w1) <-> In y (orbit_set (auts fn fe g) w2)).
    { intros y. rewrite (E1 y), (E2 y). tauto. }
    unfold orbit_set in *. apply canonN_ext. intros y. specialize (Hy y). rewrite !canonN_in in Hy. exact Hy.
  - apply dedupL_nodup.
  - exact H5.
Qed.

Lemma single_node_auts n : node_ids g = [n] -> auts fn fe g = [[(n, n)]].
Proof.
  intros E. unfold auts, monos. rewrite E. simpl. unfold ok. simpl. rewrite oeqb_refl. reflexivity.
Qed.

Lemma analyze_component_count : snd (analyze_component fn fe g) = N.of_nat (length (auts fn fe g)).
Proof.
  unfold analyze_component. destruct (node_ids g) as [|n [|n' r]] eqn:E.
  - unfold auts. rewrite E. reflexivity.
  - rewrite (single_node_auts n E). reflexivity.
  - destruct (auts fn fe g) eqn:EA; [exfalso; exact (auts_nonempty EA) | reflexivity].
Qed.

Lemma analyze_component_orbits : exact_orbits (fst (analyze_component fn fe g)).
Proof.
  unfold analyze_component. destruct (node_ids g) as [|n [|n' r]] eqn:E.
  - simpl. unfold exact_orbits. rewrite E. repeat split; try (intros; contradiction); try constructor.
  - simpl. unfold exact_orbits. rewrite E. split; [|split; [|split; [|split]]].
    + intros u [<-|[]]. exists [n]. split; left; reflexivity.
    + intros o u [<-|[]] Hu. exact Hu.
    + intros o1 o2 u [<-|[]] [<-|[]] _ _. reflexivity.
    + constructor; [intros [] | constructor].
    + intros o u v [<-|[]] [<-|[]]. split.
      * intros [<-|[]]. apply same_orbit_refl. rewrite E. left. reflexivity.
      * intros H. apply same_orbit_nodes in H. rewrite E in H. tauto.
  - destruct (auts fn fe g) eqn:EA; [exfalso; exact (auts_nonempty EA)|].
    cbv beta iota delta [fst]. rewrite <- EA, <- E. apply orbit_classes_exact.
Qed.

End Graph.

(** ---------- Automorphism._analyze ---------- *)
Lemma analyze_count fn fe g : simple_graph g ->
  a_count (analyze fn fe g) =
    if (length (components g) <=? 1)%nat then N.of_nat (length (auts fn fe g))
    else fold_left N.mul (map (fun c => N.of_nat (length (auts fn fe (induced_sub g c)))) (components g)) 1%N.
Proof.
  intros Hg. unfold analyze. destruct (node_ids g) as [|n r] eqn:E.
  - assert (Ec : components g = []) by (unfold components; rewrite E; reflexivity).
    rewrite Ec. simpl. unfold auts. rewrite E. reflexivity.
  - destruct (length (components g) <=? 1)%nat.
    + rewrite <- (analyze_component_count fn fe g Hg). destruct (analyze_component fn fe g). reflexivity.
    + simpl. rewrite map_map. f_equal. apply map_ext. intros c.
      apply analyze_component_count. apply induced_simple. exact Hg.
Qed.

Lemma analyze_orbits_connected fn fe g : simple_graph g -> (length (components g) <= 1)%nat ->
  exact_orbits fn fe g (a_orbits (analyze fn fe g)).
Proof.
  intros Hg Hc. unfold analyze. destruct (node_ids g) as [|n r] eqn:E.
  - simpl. unfold exact_orbits. rewrite E. repeat split; try (intros; contradiction); try constructor.
  - apply Nat.leb_le in Hc. rewrite Hc.
    pose proof (analyze_component_orbits fn fe g Hg) as H. destruct (analyze_component fn fe g). exact H.
Qed.

Lemma analyze_orbits_disconnected fn fe g : simple_graph g -> (1 < length (components g))%nat ->
  forall o, In o (a_orbits (analyze fn fe g)) <->
            exists c, In c (components g) /\ In o (fst (analyze_component fn fe (induced_sub g c))).
Proof.
  intros Hg Hc o. unfold analyze. destruct (node_ids g) as [|n r] eqn:E.
  - assert (Ec : components g = []) by (unfold components; rewrite E; reflexivity).
    rewrite Ec in Hc. simpl in Hc. lia.
  - apply Nat.leb_gt in Hc. rewrite Hc. simpl. rewrite dedupL_in, in_flat_map. split.
    + intros (x & Hx & Ho). apply in_map_iff in Hx. destruct Hx as (c & <- & Hin). eauto.
    + intros (c & Hin & Ho). exists (analyze_component fn fe (induced_sub g c)). split; [|exact Ho].
      apply in_map_iff. exists c. split; [reflexivity | exact Hin].
Qed.

Lemma analyze_orbits_nodup fn fe g : simple_graph g -> NoDup (a_orbits (analyze fn fe g)).
Proof.
  intros Hg. unfold analyze. destruct (node_ids g) as [|n r] eqn:E; [constructor|].
  destruct (length (components g) <=? 1)%nat.
  - pose proof (analyze_component_orbits fn fe g Hg) as H. destruct (analyze_component fn fe g). apply H.
  - simpl. apply dedupL_nodup.
Qed.
