(** C16 — bipartite view, part A: what [hypergraph_to_bipartite] builds (nodes, arcs, the two id maps). *)
From stdpp Require Import gmap strings sets pretty sorting.
From SK Require Import lib.Tok model.C15_Model proof.C15_Proof model.C16_Model proof.C16_Defs proof.C16_Common.
Local Open Scope string_scope.
Local Open Scope list_scope.

Lemma string_app_inj (p s s' : string) : p +:+ s = p +:+ s' → s = s'.
Proof. induction p as [|a p IH]; simpl; [done|]. intros [= ?]. auto. Qed.

Lemma opt_upd_None {A} (x : option A) : opt_upd x None = x.
Proof. by destruct x. Qed.
Lemma bnode_upd_empty nd : bnode_upd nd (BNode None None None None None) = nd.
Proof. destruct nd. unfold bnode_upd. cbn. by rewrite !opt_upd_None. Qed.
Lemma barc_upd_empty a : barc_upd a (BArc None None) = a.
Proof. destruct a. unfold barc_upd. cbn. by rewrite !opt_upd_None. Qed.

Section export.
  Context (fl : bflags) (H : net).

  Definition sp_nid (s : string) (k : N) : nid := if f_int fl then inl k else inr (default "" (f_sp fl) +:+ s).
  Definition rx_nid (e : string) (k : N) : nid := if f_int fl then inl k else inr (default "" (f_rp fl) +:+ e).
  Definition bump (k : N) : N := if f_int fl then (k + 1)%N else k.

  (** the shape of a species id in the current mode *)
  Definition sp_mode (s : string) (n : nid) (next : N) : Prop :=
    if f_int fl then ∃ k, n = inl k ∧ (k < next)%N else n = inr (default "" (f_sp fl) +:+ s).
  Definition rx_mode (e : string) (n : nid) (next : N) : Prop :=
    if f_int fl then ∃ k, n = inl k ∧ (k < next)%N else n = inr (default "" (f_rp fl) +:+ e).

  Lemma sp_mode_mono s n k k' : (k ≤ k')%N → sp_mode s n k → sp_mode s n k'.
  Proof. unfold sp_mode. destruct (f_int fl); [|done]. intros ? (j & -> & ?). exists j. split; [done|lia]. Qed.
  Lemma rx_mode_mono e n k k' : (k ≤ k')%N → rx_mode e n k → rx_mode e n k'.
  Proof. unfold rx_mode. destruct (f_int fl); [|done]. intros ? (j & -> & ?). exists j. split; [done|lia]. Qed.

  (** * phase 1: the species nodes *)
  Record Inv1 (st : est) : Prop := {
    i1_arcs : e_arcs st = ∅;
    i1_nodes : ∀ n nd, e_nodes st !! n = Some nd ↔ ∃ s, e_smap st !! s = Some n ∧ nd = sp_attrs fl H s;
    i1_inj : ∀ s s' n, e_smap st !! s = Some n → e_smap st !! s' = Some n → s = s';
    i1_mode : ∀ s n, e_smap st !! s = Some n → sp_mode s n (e_next st)
  }.

  Lemma add_sp_node_known st s n : e_smap st !! s = Some n → add_sp_node fl H st s = (st, n).
  Proof. intros Hs. unfold add_sp_node. by rewrite Hs. Qed.

  Lemma add_sp_node_Inv1 st s : Inv1 st →
    Inv1 (add_sp_node fl H st s).1 ∧ dom (e_smap (add_sp_node fl H st s).1) = dom (e_smap st) ∪ {[ s ]}.
  Proof.
    intros [Ha Hn Hi Hm]. unfold add_sp_node. destruct (e_smap st !! s) as [n|] eqn:Hs.
    - split; [done|]. cbn. apply elem_of_dom_2 in Hs. set_solver.
    - cbv zeta. match goal with |- context [<[s := ?x]> (e_smap st)] => set (n := x) end.
      assert (e_nodes st !! n = None) as Hfresh.
      { destruct (e_nodes st !! n) as [nd|] eqn:E; [|done]. apply Hn in E as (s' & Hs' & _).
        specialize (Hm s' n Hs'). unfold sp_mode, n in *. destruct (f_int fl).
        - destruct Hm as (k & [= <-] & ?). lia.
        - injection Hm as Hm. apply string_app_inj in Hm. congruence. }
      rewrite Hfresh. cbn. split; [|by rewrite dom_insert_L; set_solver]. split; cbn.
      + done.
      + intros n' nd. rewrite lookup_insert_Some. split.
        * intros [[<- <-]|[Hne Hl]].
          -- exists s. by rewrite lookup_insert.
          -- apply Hn in Hl as (s' & Hs' & ->). exists s'. split; [|done].
             rewrite lookup_insert_ne; [done|]. intros ->. congruence.
        * intros (s' & Hs' & ->). apply lookup_insert_Some in Hs' as [[<- <-]|[Hne Hs']]; [by left|].
          right. split.
          -- intros <-. assert (is_Some (e_nodes st !! n)) as [? ?]; [|congruence]. eexists. apply Hn. eauto.
          -- apply Hn. eauto.
      + intros s1 s2 n'. rewrite !lookup_insert_Some.
        intros [[<- <-]|[Hne1 H1]] [[<- Heq]|[Hne2 H2]]; try done.
        * exfalso. assert (is_Some (e_nodes st !! n)) as [? ?]; [|congruence]. eexists. apply Hn. eauto.
        * exfalso. subst n'. assert (is_Some (e_nodes st !! n)) as [? ?]; [|congruence]. eexists. apply Hn. eauto.
        * eauto.
      + intros s' n'. rewrite lookup_insert_Some. intros [[<- <-]|[Hne Hs']].
        * unfold sp_mode, n. destruct (f_int fl); [|done]. eexists. split; [done|lia].
        * eapply sp_mode_mono; [|by apply Hm]. destruct (f_int fl); lia.
  Qed.

  Lemma fold_sp_Inv1 (l : list string) : ∀ st, Inv1 st →
    Inv1 (foldl (λ st s, (add_sp_node fl H st s).1) st l) ∧
    dom (e_smap (foldl (λ st s, (add_sp_node fl H st s).1) st l)) = dom (e_smap st) ∪ list_to_set l.
  Proof.
    induction l as [|s l IH]; intros st Hst; cbn [foldl].
    - split; [done|set_solver].
    - destruct (add_sp_node_Inv1 st s Hst) as [H1 Hd]. destruct (IH _ H1) as [H2 Hd2]. split; [done|].
      rewrite Hd2, Hd. set_solver.
  Qed.

  Definition st0 : est := foldl (λ st s, (add_sp_node fl H st s).1) (Est ∅ ∅ ∅ 1%N) (species_iter fl H).
  Definition M : gmap string nid := e_smap st0.

  Lemma init_Inv1 : Inv1 (Est ∅ ∅ ∅ 1%N).
  Proof.
    split; cbn; [done| | |]; try by intros ??? ?%lookup_empty_Some.
    - intros n nd. rewrite lookup_empty. split; [done|]. by intros (? & ?%lookup_empty_Some & _).
    - by intros ?? ?%lookup_empty_Some.
  Qed.
  Lemma st0_Inv1 : Inv1 st0.
  Proof. apply fold_sp_Inv1, init_Inv1. Qed.
  Lemma M_dom : dom M = list_to_set (species_iter fl H).
  Proof. unfold M, st0. rewrite (proj2 (fold_sp_Inv1 _ _ init_Inv1)). cbn. set_solver. Qed.

  Lemma species_iter_elem s : s ∈ species_iter fl H →  s ∈ species H.
  Proof.
    unfold species_iter, sort_strings. rewrite merge_sort_Permutation, elem_of_elements.
    destruct (f_isolated fl); [done|]. by intros [_ ?]%elem_of_filter.
  Qed.
  Lemma species_iter_occurring s : wf_species H → s ∈ occurring H → s ∈ species_iter fl H.
  Proof.
    intros Hwf Hs. destruct (Hwf s Hs) as [Hsp Hidx].
    unfold species_iter, sort_strings. rewrite merge_sort_Permutation, elem_of_elements.
    destruct (f_isolated fl); [done|]. by apply elem_of_filter.
  Qed.

  Lemma M_species s n : M !! s = Some n → s ∈ species H.
  Proof.
    intros Hs%elem_of_dom_2. rewrite M_dom in Hs. apply elem_of_list_to_set in Hs. by apply species_iter_elem.
  Qed.
  Lemma M_occurring s : wf_species H → s ∈ occurring H → is_Some (M !! s).
  Proof. intros Hwf Hs. apply elem_of_dom. rewrite M_dom. apply elem_of_list_to_set. by apply species_iter_occurring. Qed.

  (** * phase 2: reaction nodes and arcs *)
  Definition arc_spec (R : gmap string nid) (D : list (string * rxn)) (u v : nid) (a : barc) : Prop :=
    (∃ e rx s c, (e, rx) ∈ D ∧ R !! e = Some v ∧ M !! s = Some u ∧ r_lhs rx !! s = Some c ∧ a = arc_attrs fl c "reactant") ∨
    (∃ e rx s c, (e, rx) ∈ D ∧ R !! e = Some u ∧ M !! s = Some v ∧ r_rhs rx !! s = Some c ∧ a = arc_attrs fl c "product").

  Record Inv2 (st : est) (R : gmap string nid) (D : list (string * rxn)) : Prop := {
    i2_smap : e_smap st = M;
    i2_nodes : ∀ n nd, e_nodes st !! n = Some nd ↔
                 (∃ s, M !! s = Some n ∧ nd = sp_attrs fl H s) ∨
                 (∃ e rx, (e, rx) ∈ D ∧ R !! e = Some n ∧ nd = rx_attrs fl e (r_rule rx));
    i2_arcs : ∀ u v a, e_arcs st !! (u, v) = Some a ↔ arc_spec R D u v a;
    i2_Rdom : ∀ e, is_Some (R !! e) ↔ e ∈ D.*1;
    i2_Rinj : ∀ e e' n, R !! e = Some n → R !! e' = Some n → e = e';
    i2_disj : ∀ s e n, M !! s = Some n → R !! e = Some n → False;
    i2_Mmode : ∀ s n, M !! s = Some n → sp_mode s n (e_next st);
    i2_Rmode : ∀ e n, R !! e = Some n → rx_mode e n (e_next st)
  }.

  Lemma M_inj s s' n : M !! s = Some n → M !! s' = Some n → s = s'.
  Proof. apply (i1_inj _ st0_Inv1). Qed.

  Lemma Inv2_init : Inv2 st0 ∅ [].
  Proof.
    pose proof st0_Inv1 as [Ha Hn Hi Hm]. split; try done.
    - intros n nd. rewrite Hn. split; [by left|]. intros [?|(? & ? & ?%elem_of_nil & _)]; done.
    - intros u v a. rewrite Ha, lookup_empty. split; [done|].
      intros [(? & ? & ? & ? & ?%elem_of_nil & _)|(? & ? & ? & ? & ?%elem_of_nil & _)]; done.
    - intros e. rewrite lookup_empty. split; [by intros [? ?]|by intros ?%elem_of_nil].
  Qed.

  (** the inner loops: arcs between the reaction node and the (already numbered) species nodes *)
  Definition arc_step (mk : nid → nid * nid) (role : string) (st : est) (sc : string * positive) : est :=
    let '(st', u) := add_sp_node fl H st sc.1 in add_arc st' (mk u).1 (mk u).2 (arc_attrs fl sc.2 role).

  Lemma arc_fold mk role (l : list (string * positive)) : Inj (=) (=) mk → NoDup l.*1 → ∀ st,
    e_smap st = M → (∀ s c, (s, c) ∈ l → ∃ u, M !! s = Some u ∧ e_arcs st !! mk u = None) →
    e_nodes (foldl (arc_step mk role) st l) = e_nodes st ∧ e_smap (foldl (arc_step mk role) st l) = M ∧
    e_next (foldl (arc_step mk role) st l) = e_next st ∧
    ∀ k a, e_arcs (foldl (arc_step mk role) st l) !! k = Some a ↔
           e_arcs st !! k = Some a ∨ ∃ s c u, (s, c) ∈ l ∧ M !! s = Some u ∧ k = mk u ∧ a = arc_attrs fl c role.
  Proof.
    intros Hmk. induction l as [|[s c] l IH]; intros Hnd st Hsm Hfresh.
    - cbn. split_and!; try done. intros k a. split; [by left|]. intros [?|(? & ? & ? & ?%elem_of_nil & _)]; done.
    - rewrite fmap_cons in Hnd. apply NoDup_cons in Hnd as [Hs Hnd]. cbn [fst] in Hs. cbn [foldl].
      destruct (Hfresh s c) as (u & Hu & Hfu); [by left|].
      assert (arc_step mk role st (s, c)
              = Est (e_nodes st) (<[mk u := arc_attrs fl c role]> (e_arcs st)) (e_smap st) (e_next st)) as Hstep.
      { unfold arc_step. cbn [fst snd]. rewrite (add_sp_node_known st s u) by (by rewrite Hsm).
        unfold add_arc. rewrite <-surjective_pairing, Hfu. cbn [default]. by rewrite barc_upd_empty. }
      rewrite Hstep. destruct (IH Hnd (Est (e_nodes st) (<[mk u := arc_attrs fl c role]> (e_arcs st)) (e_smap st) (e_next st)))
        as (Hn & Hm & Hx & Harcs).
      { done. }
      { intros s' c' Hin. destruct (Hfresh s' c') as (u' & Hu' & Hfu'); [by right|]. exists u'. split; [done|].
        cbn. rewrite lookup_insert_ne; [done|]. intros Heq%Hmk. subst u'.
        assert (s' = s) as -> by (by eapply M_inj). apply Hs. apply elem_of_list_fmap. by exists (s, c'). }
      split_and!; [done|done|done|]. intros k a. rewrite Harcs. cbn [e_arcs]. rewrite lookup_insert_Some. split.
      + intros [[[<- <-]|[_ ?]]|(s' & c' & u' & Hin & ?)].
        * right. exists s, c, u. split; [by left|done].
        * by left.
        * right. exists s', c', u'. split; [by right|done].
      + intros [Hk|(s' & c' & u' & [[= -> ->]|Hin]%elem_of_cons & Hu' & -> & ->)].
        * left. right. split; [|done]. intros <-. congruence.
        * assert (u' = u) as -> by congruence. left. by left.
        * right. eauto 10.
  Qed.

  Lemma export_rxn_unfold st e rx :
    export_rxn fl H st (e, rx) =
    foldl (arc_step (λ v, (rx_nid e (e_next st), v)) "product")
      (foldl (arc_step (λ u, (u, rx_nid e (e_next st))) "reactant")
         (Est (<[rx_nid e (e_next st) := bnode_upd (rx_attrs fl e (r_rule rx))
                                          (default (BNode None None None None None) (e_nodes st !! rx_nid e (e_next st)))]> (e_nodes st))
              (e_arcs st) (e_smap st) (bump (e_next st)))
         (map_to_list (r_lhs rx)))
      (map_to_list (r_rhs rx)).
  Proof. reflexivity. Qed.

  Lemma export_rxn_Inv2 st R D e rx : Inv2 st R D → e ∉ D.*1 →
    (∀ s, s ∈ rxn_species rx → is_Some (M !! s)) →
    (f_int fl = false → ∀ s n, M !! s = Some n → n ≠ inr (default "" (f_rp fl) +:+ e)) →
    Inv2 (export_rxn fl H st (e, rx)) (<[e := rx_nid e (e_next st)]> R) (D ++ [(e, rx)]).
  Proof.
    intros [Hsm Hnodes Harcs HRdom HRinj Hdisj HMm HRm] HeD Hsp Hnames.
    set (rnd := rx_nid e (e_next st)).
    assert (∀ s, M !! s ≠ Some rnd) as F1.
    { intros s Hs. pose proof (HMm s rnd Hs) as Hmode. unfold sp_mode, rnd, rx_nid in *.
      destruct (f_int fl) eqn:Hint.
      - destruct Hmode as (k & [= <-] & ?). lia.
      - by apply (Hnames eq_refl s _ Hs). }
    assert (∀ e', R !! e' ≠ Some rnd) as F2.
    { intros e' He'. pose proof (HRm e' rnd He') as Hmode. unfold rx_mode, rnd, rx_nid in *.
      destruct (f_int fl).
      - destruct Hmode as (k & [= <-] & ?). lia.
      - injection Hmode as Hq. apply string_app_inj in Hq. subst e'. apply HeD, HRdom. eauto. }
    assert (e_nodes st !! rnd = None) as F3.
    { destruct (e_nodes st !! rnd) as [nd|] eqn:E; [|done].
      apply Hnodes in E as [(s & Hs & _)|(e' & rx' & _ & He' & _)]; [by apply F1 in Hs|by apply F2 in He']. }
    assert (∀ u v a, e_arcs st !! (u, v) = Some a → u ≠ rnd ∧ v ≠ rnd) as F4.
    { intros u v a Ha. apply Harcs in Ha as [(e' & rx' & s & c & _ & He' & Hs & _)|(e' & rx' & s & c & _ & He' & Hs & _)];
        split; intros ->; first [by apply F1 in Hs|by apply F2 in He']. }
    rewrite export_rxn_unfold. fold rnd. rewrite F3. cbn [default]. rewrite bnode_upd_empty.
    set (st1 := Est (<[rnd := rx_attrs fl e (r_rule rx)]> (e_nodes st)) (e_arcs st) (e_smap st) (bump (e_next st))).
    destruct (arc_fold (λ u, (u, rnd)) "reactant" (map_to_list (r_lhs rx))) with (st := st1) as (Hn1 & Hm1 & Hx1 & Ha1).
    { by intros ?? [= ?]. }
    { apply NoDup_fst_map_to_list. }
    { done. }
    { intros s c Hin%elem_of_map_to_list. destruct (Hsp s) as [u Hu].
      { apply elem_of_union_l. by apply elem_of_dom_2 in Hin. }
      exists u. split; [done|]. cbn. destruct (e_arcs st !! (u, rnd)) as [a|] eqn:E; [|done].
      apply F4 in E as [_ ?]. done. }
    set (st2 := foldl (arc_step (λ u, (u, rnd)) "reactant") st1 (map_to_list (r_lhs rx))) in *.
    destruct (arc_fold (λ v, (rnd, v)) "product" (map_to_list (r_rhs rx))) with (st := st2) as (Hn2 & Hm2 & Hx2 & Ha2).
    { by intros ?? [= ?]. }
    { apply NoDup_fst_map_to_list. }
    { done. }
    { intros s c Hin%elem_of_map_to_list. destruct (Hsp s) as [v Hv].
      { apply elem_of_union_r. by apply elem_of_dom_2 in Hin. }
      exists v. split; [done|]. destruct (e_arcs st2 !! (rnd, v)) as [a|] eqn:E; [|done].
      apply Ha1 in E as [E|(s' & c' & u' & _ & Hu' & [= -> ->] & _)].
      - cbn in E. apply F4 in E as [? _]. done.
      - by apply F1 in Hu'. }
    set (st3 := foldl (arc_step (λ v, (rnd, v)) "product") st2 (map_to_list (r_rhs rx))) in *.
    assert (∀ e0 rx0, (e0, rx0) ∈ D → e0 ≠ e) as HDne.
    { intros e0 rx0 Hin ->. apply HeD. apply elem_of_list_fmap. by exists (e, rx0). }
    assert (∀ e0 rx0, (e0, rx0) ∈ D → (<[e := rnd]> R) !! e0 = R !! e0) as HR'.
    { intros e0 rx0 Hin. rewrite lookup_insert_ne; [done|]. intros <-. by eapply HDne. }
    split.
    - by rewrite Hm2.
    - intros n nd. rewrite Hn2, Hn1. cbn [st1 e_nodes]. rewrite lookup_insert_Some, Hnodes. split.
      + intros [[<- <-]|[Hne [(s & Hs & ->)|(e0 & rx0 & Hin & He0 & ->)]]].
        * right. exists e, rx. split; [set_solver|]. by rewrite lookup_insert.
        * left. eauto.
        * right. exists e0, rx0. split; [set_solver|]. by rewrite (HR' e0 rx0).
      + intros [(s & Hs & ->)|(e0 & rx0 & [Hin|Hq%elem_of_list_singleton]%elem_of_app & He0 & ->)].
        * right. split; [intros <-; by apply F1 in Hs|]. left. eauto.
        * rewrite (HR' e0 rx0) in He0 by done. right. split; [intros <-; by apply F2 in He0|]. right. eauto.
        * injection Hq as -> ->. rewrite lookup_insert in He0. injection He0 as <-. by left.
    - intros u v a. rewrite Ha2, Ha1. cbn [st1 e_arcs]. rewrite Harcs. unfold arc_spec. split.
      + intros [[[(e0 & rx0 & s & c & Hin & He0 & ?)|(e0 & rx0 & s & c & Hin & He0 & ?)]|(s & c & u' & Hin%elem_of_map_to_list & Hu' & [= -> ->] & ->)]|(s & c & v' & Hin%elem_of_map_to_list & Hv' & [= -> ->] & ->)].
        * left. exists e0, rx0, s, c. split; [set_solver|]. by rewrite (HR' e0 rx0).
        * right. exists e0, rx0, s, c. split; [set_solver|]. by rewrite (HR' e0 rx0).
        * left. exists e, rx, s, c. split; [set_solver|]. by rewrite lookup_insert.
        * right. exists e, rx, s, c. split; [set_solver|]. by rewrite lookup_insert.
      + intros [(e0 & rx0 & s & c & [Hin|Hq%elem_of_list_singleton]%elem_of_app & He0 & Hs & Hc & ->)|(e0 & rx0 & s & c & [Hin|Hq%elem_of_list_singleton]%elem_of_app & He0 & Hs & Hc & ->)].
        * rewrite (HR' e0 rx0) in He0 by done. left. left. left. eauto 10.
        * injection Hq as -> ->. rewrite lookup_insert in He0. injection He0 as <-.
          left. right. exists s, c, u. split; [by apply elem_of_map_to_list|done].
        * rewrite (HR' e0 rx0) in He0 by done. left. left. right. eauto 10.
        * injection Hq as -> ->. rewrite lookup_insert in He0. injection He0 as <-.
          right. exists s, c, v. split; [by apply elem_of_map_to_list|done].
    - intros e0. rewrite lookup_insert_is_Some, fmap_app, elem_of_app, HRdom. cbn. rewrite elem_of_list_singleton.
      destruct (decide (e = e0)); naive_solver.
    - intros e1 e2 n. rewrite !lookup_insert_Some.
      intros [[<- <-]|[? H1]] [[<- Hq]|[? H2]]; try done.
      + by apply F2 in H2.
      + subst n. by apply F2 in H1.
      + eauto.
    - intros s e0 n Hs. rewrite lookup_insert_Some. intros [[<- <-]|[_ He0]]; [by apply F1 in Hs|eauto].
    - intros s n Hs. rewrite Hx2, Hx1. cbn [st1 e_next]. eapply sp_mode_mono; [|by apply HMm].
      unfold bump. destruct (f_int fl); lia.
    - intros e0 n. rewrite Hx2, Hx1. cbn [st1 e_next]. rewrite lookup_insert_Some. intros [[<- <-]|[_ He0]].
      + unfold rx_mode, rnd, rx_nid, bump. destruct (f_int fl); [|done]. eexists. split; [done|lia].
      + eapply rx_mode_mono; [|by apply HRm]. unfold bump. destruct (f_int fl); lia.
  Qed.
End export.

(** * the exported graph *)
Record bip_spec (fl : bflags) (H : net) (G : bgraph) (Ms Rs : gmap string nid) : Prop := {
  bs_nodes : ∀ n nd, b_nodes G !! n = Some nd ↔
               (∃ s, Ms !! s = Some n ∧ nd = sp_attrs fl H s) ∨
               (∃ e rx, edges H !! e = Some rx ∧ Rs !! e = Some n ∧ nd = rx_attrs fl e (r_rule rx));
  bs_arcs : ∀ u v a, b_arcs G !! (u, v) = Some a ↔
               (∃ e rx s c, edges H !! e = Some rx ∧ Rs !! e = Some v ∧ Ms !! s = Some u ∧ r_lhs rx !! s = Some c ∧
                            a = arc_attrs fl c "reactant") ∨
               (∃ e rx s c, edges H !! e = Some rx ∧ Rs !! e = Some u ∧ Ms !! s = Some v ∧ r_rhs rx !! s = Some c ∧
                            a = arc_attrs fl c "product");
  bs_Rdom : ∀ e, is_Some (Rs !! e) ↔ is_Some (edges H !! e);
  bs_Rinj : ∀ e e' n, Rs !! e = Some n → Rs !! e' = Some n → e = e';
  bs_Minj : ∀ s s' n, Ms !! s = Some n → Ms !! s' = Some n → s = s';
  bs_disj : ∀ s e n, Ms !! s = Some n → Rs !! e = Some n → False;
  bs_Mocc : ∀ s, s ∈ occurring H → is_Some (Ms !! s)
}.

Lemma export_fold fl H (l : list (string * rxn)) : NoDup l.*1 →
  (∀ e rx, (e, rx) ∈ l → (∀ s, s ∈ rxn_species rx → is_Some (M fl H !! s)) ∧
                         (f_int fl = false → ∀ s n, M fl H !! s = Some n → n ≠ inr (default "" (f_rp fl) +:+ e))) →
  ∀ st R D, Inv2 fl H st R D → (∀ e, e ∈ l.*1 → e ∉ D.*1) →
  ∃ R', Inv2 fl H (foldl (export_rxn fl H) st l) R' (D ++ l).
Proof.
  induction l as [|[e rx] l IH]; intros Hnd Hok st R D HI Hfresh.
  - exists R. by rewrite app_nil_r.
  - rewrite fmap_cons in Hnd. apply NoDup_cons in Hnd as [He Hnd]. cbn [fst] in He. cbn [foldl].
    destruct (Hok e rx) as [Hsp Hnm]; [by left|].
    pose proof (export_rxn_Inv2 fl H st R D e rx HI ltac:(apply Hfresh; by left) Hsp Hnm) as HI'.
    destruct (IH Hnd) with (st := export_rxn fl H st (e, rx)) (R := <[e := rx_nid fl e (e_next st)]> R) (D := D ++ [(e, rx)])
      as [R' HR'].
    + intros e' rx' Hin. apply Hok. by right.
    + done.
    + intros e' He'. rewrite fmap_app, elem_of_app. cbn. rewrite elem_of_list_singleton. intros [Hd|Hq].
      * eapply Hfresh; [|done]. by right.
      * by subst e'.
    + exists R'. by rewrite <-(assoc_L (++)) in HR'.
Qed.

Lemma export_spec fl H : wf_species H → bip_names_ok fl H →
  ∃ Ms Rs, bip_spec fl H (hypergraph_to_bipartite fl H) Ms Rs.
Proof.
  intros Hwf Hnames. unfold hypergraph_to_bipartite, export_state. fold (st0 fl H).
  set (l := sort_by_key (map_to_list (edges H))).
  assert (l ≡ₚ map_to_list (edges H)) as Hperm by apply merge_sort_Permutation.
  assert (∀ e rx, (e, rx) ∈ l ↔ edges H !! e = Some rx) as Hl.
  { intros e rx. by rewrite Hperm, elem_of_map_to_list. }
  destruct (export_fold fl H l) with (st := st0 fl H) (R := (∅ : gmap string nid)) (D := @nil (string * rxn)) as [R HI].
  - rewrite Hperm. apply NoDup_fst_map_to_list.
  - intros e rx Hin%Hl. split.
    + intros s Hs. apply M_occurring; [done|]. apply elem_of_occurring. eauto.
    + intros Hint s n Hs. pose proof (i1_mode _ _ _ (st0_Inv1 fl H) s n Hs) as Hm. unfold sp_mode in Hm. rewrite Hint in Hm.
      subst n. intros [= Hq]. destruct Hnames as [?|Hnm]; [congruence|].
      apply (Hnm s (M_species fl H s _ Hs) e); [|done]. apply elem_of_dom. eauto.
  - apply Inv2_init.
  - intros e _. cbn. apply not_elem_of_nil.
  - cbn [app] in HI. destruct HI as [Hsm Hnodes Harcs HRdom HRinj Hdisj _ _].
    exists (M fl H), R. split; cbn [b_nodes b_arcs].
    + intros n nd. rewrite Hnodes. by setoid_rewrite Hl.
    + intros u v a. rewrite Harcs. unfold arc_spec. by setoid_rewrite Hl.
    + intros e. rewrite HRdom. rewrite elem_of_list_fmap. split.
      * intros ([e' rx] & -> & Hin%Hl). eauto.
      * intros [rx Hrx%Hl]. by exists (e, rx).
    + done.
    + apply M_inj.
    + done.
    + intros s Hs. by apply M_occurring.
Qed.
