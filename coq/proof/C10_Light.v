(** C10 — proofs, part 21: the light-weight builder MolToGraph.mol_to_graph(mol, light_weight=True) (one loop, every atom
    adds its own bonds) builds the same graph — node dictionaries and bond dictionaries — as MolToGraph.transform. *)
From Coq Require Import String List NArith ZArith Bool Lia.
From SK Require Import lib.Tok lib.LGraph lib.StrJoin model.C10_Model proof.C10_Views proof.C10_Build proof.C10_Copy
  proof.C10_MolGraph.
Import ListNotations.
Local Open Scope Z_scope.

Lemma fold_estep_label_cases d eo : forall (g : gr) n,
  label (fold_left (estep d) eo g) n = label g n \/ (label g n = None /\ label (fold_left (estep d) eo g) n = Some na_empty).
Proof.
  induction eo as [|[u v] r IH]; intros g n; [left; reflexivity|]. simpl.
  destruct (IH (estep d g (u, v)) n) as [E|[E1 E2]]; unfold estep in *; simpl in *; destruct (d u v) as [y|].
  - rewrite E, label_add_edge. destruct (N.eqb n u || N.eqb n v); [|left; reflexivity].
    destruct (label g n); [left; reflexivity|right; auto].
  - left. exact E.
  - rewrite label_add_edge in E1. destruct (N.eqb n u || N.eqb n v); [discriminate|]. right. auto.
  - right. auto.
Qed.

Lemma na_update_att a : na_update (atom_att a) na_empty = atom_att a.
Proof. reflexivity. Qed.

Section Light.
Variable m : rmol.
Variable ab : list (list (N * Z)).
Hypothesis Hwf : wf_mol m = true.
Let atoms := fst m.
Let bonds := snd m.
Let natoms := N.of_nat (List.length atoms).
(** [ab] lists, for every atom, exactly its bonds (atom.GetBonds()) *)
Hypothesis Hs : forall i bs nb o, nth_error ab i = Some bs -> In (nb, o) bs -> bond_find (N.of_nat i) nb bonds = Some o.
Hypothesis Hc : forall i nb o, bond_find i nb bonds = Some o -> exists bs, nth_error ab (N.to_nat i) = Some bs /\ In (nb, o) bs.

Lemma bond_lt i nb o : bond_find i nb bonds = Some o -> (i < natoms)%N /\ (nb < natoms)%N.
Proof.
  intros F. destruct (wf_bonds_spec _ _ Hwf) as [_ HB]. fold bonds natoms in HB. apply bond_find_in_list in F.
  destruct F as (b & e & Hin). destruct (HB b e o Hin) as (H1 & H2 & _).
  (* the entry found joins i and nb in one of the two orientations *)
  clear -H1 H2 Hin. revert Hin. generalize bonds. intros l Hin. auto.
Abort.

Lemma bond_find_ends i j l o : bond_find i j l = Some o -> exists b e, In (b, e, o) l /\ ((b = i /\ e = j) \/ (b = j /\ e = i)).
Proof.
  induction l as [|[[b e] o'] r IH]; [discriminate|]. simpl.
  destruct ((N.eqb b i && N.eqb e j) || (N.eqb b j && N.eqb e i)) eqn:E.
  - intros [= ->]. exists b, e. split; [left; reflexivity|].
    apply orb_true_iff in E. rewrite !andb_true_iff, !N.eqb_eq in E. exact E.
  - intros H. destruct (IH H) as (b' & e' & Hin & Hor). exists b', e'. split; [right; exact Hin|exact Hor].
Qed.
Lemma bond_lt i nb o : bond_find i nb bonds = Some o -> (i < natoms)%N /\ (nb < natoms)%N.
Proof.
  intros F. destruct (wf_bonds_spec _ _ Hwf) as [_ HB]. apply bond_find_ends in F. destruct F as (b & e & Hin & Hor).
  destruct (HB b e o Hin) as (H1 & H2 & _). fold atoms natoms in H1, H2. destruct Hor as [[<- <-]|[<- <-]]; auto.
Qed.
Lemma nth_atom_lt k : (k < natoms)%N -> exists a, nth_atom atoms k = Some a.
Proof.
  intros H. unfold nth_atom. destruct (nth_error atoms (N.to_nat k)) eqn:E; [eauto|]. apply nth_error_None in E. unfold natoms in H. lia.
Qed.

Definition pairs_of (idx : N) (bs : list (N * Z)) : list (N * N) := map (fun b : N * Z => (N.succ idx, N.succ (fst b))) bs.

Lemma md_of idx nb o : bond_find idx nb bonds = Some o -> md m (N.succ idx) (N.succ nb) = Some (EA (Some (OS o)) None).
Proof.
  intros F. unfold md. destruct (N.eqb_spec (N.succ idx) 0); [lia|]. destruct (N.eqb_spec (N.succ nb) 0); [lia|]. simpl.
  rewrite !N.pred_succ. fold bonds. rewrite F. reflexivity.
Qed.

Lemma inner_fold idx bs (g : gr) : (forall nb o, In (nb, o) bs -> bond_find idx nb bonds = Some o) ->
  fold_left (light_bond atoms false false (N.succ idx)) bs g = fold_left (estep (md m)) (pairs_of idx bs) g.
Proof.
  intros H. unfold pairs_of. rewrite fold_left_map'. apply fold_left_ext_in. intros acc [nb o] Hin.
  pose proof (H nb o Hin) as F. destruct (bond_lt idx nb o F) as [_ Hnb]. destruct (nth_atom_lt nb Hnb) as [a Ea].
  unfold light_bond, estep. simpl. rewrite Ea, (md_of idx nb o F). reflexivity.
Qed.

Record LInv (idx : N) (g : gr) : Prop := {
  li_done : forall k a, (k < idx)%N -> nth_atom atoms k = Some a -> label g (N.succ k) = Some (atom_att a);
  li_cases : forall n, label g n = None \/ label g n = Some na_empty \/
                       exists k a, n = N.succ k /\ (k < idx)%N /\ nth_atom atoms k = Some a /\ label g n = Some (atom_att a);
  li_rng : forall n, label g n <> None -> n <> 0%N /\ (N.pred n < natoms)%N;
  li_adj : forall u v, adj g u v = None \/ adj g u v = md m u v;
  li_bonds : forall k bs nb o, (N.of_nat k < idx)%N -> nth_error ab k = Some bs -> In (nb, o) bs ->
             adj g (N.succ (N.of_nat k)) (N.succ nb) = md m (N.succ (N.of_nat k)) (N.succ nb) }.

Lemma LInv_step idx g a bs : LInv idx g -> nth_atom atoms idx = Some a -> nth_error ab (N.to_nat idx) = Some bs ->
  LInv (N.succ idx) (fold_left (light_bond atoms false false (N.succ idx)) bs (add_node g (N.succ idx) (atom_att a))).
Proof.
  intros I Ha Hb.
  assert (forall nb o, In (nb, o) bs -> bond_find idx nb bonds = Some o) as Hbs.
  { intros nb o Hin. pose proof (Hs _ _ nb o Hb Hin) as F. rewrite N2Nat.id in F. exact F. }
  rewrite (inner_fold idx bs _ Hbs).
  set (g1 := add_node g (N.succ idx) (atom_att a)). set (g2 := fold_left (estep (md m)) (pairs_of idx bs) g1).
  assert (idx < natoms)%N as Hidx.
  { unfold nth_atom in Ha. assert (nth_error atoms (N.to_nat idx) <> None) as NE by congruence. apply nth_error_Some in NE. unfold natoms. lia. }
  assert (label g1 (N.succ idx) = Some (atom_att a)) as L1.
  { unfold g1. rewrite label_add_node, N.eqb_refl. destruct (li_cases _ _ I (N.succ idx)) as [E|[E|(k & a' & E1 & E2 & _)]]; rewrite ?E; try reflexivity. lia. }
  assert (forall n, n <> N.succ idx -> label g1 n = label g n) as L1o.
  { intros n Hn. unfold g1. rewrite label_add_node. destruct (N.eqb_spec n (N.succ idx)); [contradiction|reflexivity]. }
  assert (forall u v, adj g1 u v = adj g u v) as A1 by (intros; apply adj_add_node).
  assert (forall u v, adj g2 u v = if pmatch u v (pairs_of idx bs) then md m u v else adj g u v) as A2.
  { intros u v. unfold g2. rewrite (fold_estep_adj (md m) (md_sym m)); [rewrite A1; reflexivity|]. rewrite A1. apply (li_adj _ _ I). }
  assert (forall n, label g1 n <> None -> label g2 n = label g1 n) as L2s.
  { intros n Hn. destruct (label g1 n) as [b|] eqn:E; [|congruence]. apply fold_estep_label_some. exact E. }
  assert (forall n, label g1 n = None -> label g2 n = None \/
            (label g2 n = Some na_empty /\ exists nb o, In (nb, o) bs /\ n = N.succ nb)) as L2n.
  { intros n Hn. destruct (fold_estep_label_cases (md m) (pairs_of idx bs) g1 n) as [E|[_ E]]; [left; fold g2 in E; congruence|].
    right. split; [exact E|]. assert (has_node g2 n = true) as HN by (apply has_node_label; eauto).
    unfold g2 in HN. apply fold_estep_has_node in HN. destruct HN as [HN|(e & He & Hm)].
    - apply has_node_label in HN. destruct HN. congruence.
    - unfold pairs_of in He. apply in_map_iff in He. destruct He as ([nb o] & <- & Hin). simpl in Hm.
      destruct Hm as [->| ->]; [rewrite L1 in Hn; discriminate|eauto]. }
  split.
  - intros k a' Hk Ha'. destruct (N.eq_dec k idx) as [->|Hne].
    + assert (a' = a) as -> by congruence. rewrite L2s by congruence. exact L1.
    + assert (label g1 (N.succ k) = Some (atom_att a')) as E by (rewrite L1o by lia; apply (li_done _ _ I); [lia|exact Ha']).
      rewrite L2s by congruence. exact E.
  - intros n. destruct (label g1 n) as [b|] eqn:E.
    + rewrite L2s by congruence. rewrite E. destruct (N.eq_dec n (N.succ idx)) as [->|Hne].
      * right. right. exists idx, a. rewrite L1 in E. injection E as <-. repeat split; auto. lia.
      * rewrite L1o in E by exact Hne. destruct (li_cases _ _ I n) as [E'|[E'|(k & a' & E1 & E2 & E3 & E4)]]; try congruence.
        -- right. left. congruence.
        -- right. right. exists k, a'. repeat split; auto; [lia|congruence].
    + destruct (L2n n E) as [->|[-> _]]; auto.
  - intros n Hn. destruct (label g1 n) as [b|] eqn:E.
    + destruct (N.eq_dec n (N.succ idx)) as [->|Hne]; [split; [lia|rewrite N.pred_succ; exact Hidx]|].
      rewrite L1o in E by exact Hne. apply (li_rng _ _ I). congruence.
    + destruct (L2n n E) as [E'|[_ (nb & o & Hin & ->)]]; [congruence|].
      destruct (bond_lt idx nb o (Hbs nb o Hin)) as [_ Hnb]. split; [lia|rewrite N.pred_succ; exact Hnb].
  - intros u v. rewrite A2. destruct (pmatch u v (pairs_of idx bs)); [right; reflexivity|apply (li_adj _ _ I)].
  - intros k bs' nb o Hk Hk' Hin. rewrite A2. destruct (pmatch _ _ (pairs_of idx bs)) eqn:PM; [reflexivity|].
    destruct (N.eq_dec (N.of_nat k) idx) as [E|Hne].
    + exfalso. assert (bs' = bs) as -> by (rewrite <- E, Nat2N.id in Hb; congruence).
      assert (pmatch (N.succ (N.of_nat k)) (N.succ nb) (pairs_of idx bs) = true); [|congruence].
      unfold pmatch. apply existsb_exists. exists (N.succ idx, N.succ nb). split.
      * unfold pairs_of. apply in_map_iff. exists (nb, o). auto.
      * simpl. rewrite E. apply pair_eqb_refl.
    + apply (li_bonds _ _ I k bs' nb o); [lia|exact Hk'|exact Hin].
Qed.

Lemma light_loop_inv rest : forall idx g,
  (forall k a bs, nth_error rest k = Some (a, bs) ->
     nth_atom atoms (idx + N.of_nat k) = Some a /\ nth_error ab (N.to_nat idx + k) = Some bs) ->
  LInv idx g -> LInv (idx + N.of_nat (List.length rest)) (light_loop atoms false false idx rest g).
Proof.
  induction rest as [|[a bs] r IH]; intros idx g Hsuf I; simpl.
  - rewrite N.add_0_r. exact I.
  - destruct (Hsuf 0%nat a bs eq_refl) as [Ha Hb]. rewrite N.add_0_r in Ha. rewrite Nat.add_0_r in Hb.
    replace (idx + N.pos (Pos.of_succ_nat (List.length r)))%N with (N.succ idx + N.of_nat (List.length r))%N by lia.
    apply IH; [|apply LInv_step; assumption].
    intros k a' bs' Hk. destruct (Hsuf (S k) a' bs' Hk) as [H1 H2]. split.
    + replace (N.succ idx + N.of_nat k)%N with (idx + N.of_nat (S k))%N by lia. exact H1.
    + replace (N.to_nat (N.succ idx) + k)%nat with (N.to_nat idx + S k)%nat by lia. exact H2.
Qed.
End Light.

Lemma nth_error_combine {A B} (l1 : list A) (l2 : list B) : forall k a b,
  nth_error (combine l1 l2) k = Some (a, b) -> nth_error l1 k = Some a /\ nth_error l2 k = Some b.
Proof.
  revert l2. induction l1 as [|x r IH]; intros l2 k a b; [destruct k; discriminate|].
  destruct l2 as [|y r2]; [destruct k; discriminate|]. destruct k; simpl.
  - intros [= -> ->]. auto.
  - apply IH.
Qed.
Lemma assoc_num_hit l : forall idx k a, nth_error l k = Some a -> assoc (N.succ (idx + N.of_nat k)) (num idx l) = Some (atom_att a).
Proof.
  induction l as [|x r IH]; intros idx k a H; [destruct k; discriminate|]. simpl.
  destruct k; simpl in H.
  - injection H as <-. replace (N.succ (idx + N.of_nat 0)) with (N.succ idx) by lia. rewrite N.eqb_refl. reflexivity.
  - destruct (N.eqb_spec (N.succ (idx + N.of_nat (S k))) (N.succ idx)); [lia|].
    replace (N.succ (idx + N.of_nat (S k))) with (N.succ (N.succ idx + N.of_nat k)) by lia. apply IH. exact H.
Qed.
Lemma assoc_num_rng l : forall idx n x, assoc n (num idx l) = Some x -> (idx < n)%N /\ (N.pred n < idx + N.of_nat (List.length l))%N.
Proof.
  induction l as [|y r IH]; intros idx n x H; [discriminate|]. simpl in H. destruct (N.eqb_spec n (N.succ idx)) as [->|Hne].
  - simpl List.length. lia.
  - apply IH in H. simpl List.length. lia.
Qed.

Theorem light_eq (m : rmol) (ab : list (list (N * Z))) :
  wf_mol m = true -> List.length ab = List.length (fst m) ->
  (forall i bs nb o, nth_error ab i = Some bs -> In (nb, o) bs -> bond_find (N.of_nat i) nb (snd m) = Some o) ->
  (forall i nb o, bond_find i nb (snd m) = Some o -> exists bs, nth_error ab (N.to_nat i) = Some bs /\ In (nb, o) bs) ->
  let g := mol_to_graph_light m ab false false in
  let g' := mol_to_graph m false false in
  (forall n, label g n = label g' n) /\ (forall u v, adj g u v = adj g' u v).
Proof.
  intros Hwf Hlen Hs Hc g g'.
  assert (LInv m ab 0%N g_empty) as I0.
  { split; try (intros; lia); auto.
    - intros n Hn. exfalso. apply Hn. reflexivity. }
  pose proof (light_loop_inv m ab Hwf Hs (combine (fst m) ab) 0%N g_empty) as IL.
  assert (LInv m ab (N.of_nat (List.length (fst m))) g) as I.
  { unfold g, mol_to_graph_light. replace (N.of_nat (List.length (fst m))) with (0 + N.of_nat (List.length (combine (fst m) ab)))%N
      by (rewrite combine_length, Hlen, Nat.min_id; lia).
    apply IL; [|exact I0]. intros k a bs Hk. apply nth_error_combine in Hk. destruct Hk as [H1 H2]. split.
    - unfold nth_atom. rewrite N.add_0_l, Nat2N.id. exact H1.
    - simpl. exact H2. }
  split.
  - intros n. unfold g' at 1. unfold label at 2. rewrite (G_gnodes m Hwf).
    destruct (assoc n (num 0 (fst m))) as [x|] eqn:E.
    + destruct (assoc_num_rng _ _ _ _ E) as [H1 H2].
      destruct (nth_atom_lt m (N.pred n)) as [a Ha]; [lia|].
      pose proof (li_done _ _ _ _ I (N.pred n) a) as D. rewrite N.succ_pred in D by lia. rewrite D; [|lia|exact Ha].
      unfold nth_atom in Ha. pose proof (assoc_num_hit (fst m) 0%N (N.to_nat (N.pred n)) a Ha) as Hh.
      rewrite N2Nat.id, N.add_0_l, N.succ_pred in Hh by lia. congruence.
    + destruct (label g n) as [y|] eqn:L; [|reflexivity]. exfalso.
      destruct (li_rng _ _ _ _ I n) as [H1 H2]; [congruence|].
      destruct (nth_atom_lt m (N.pred n) H2) as [a Ha]. unfold nth_atom in Ha.
      pose proof (assoc_num_hit (fst m) 0%N (N.to_nat (N.pred n)) a Ha) as Hh.
      rewrite N2Nat.id, N.add_0_l, N.succ_pred in Hh by lia. congruence.
  - intros u v. unfold g'. rewrite (G_adj m Hwf). destruct (md m u v) as [y|] eqn:D.
    + unfold md in D. destruct (N.eqb_spec u 0); [discriminate|]. destruct (N.eqb_spec v 0); [discriminate|]. simpl in D.
      destruct (bond_find (N.pred u) (N.pred v) (snd m)) as [o|] eqn:F; [|discriminate].
      destruct (Hc _ _ _ F) as (bs & Hb & Hin). destruct (bond_lt m Hwf _ _ _ F) as [Hu _].
      pose proof (li_bonds _ _ _ _ I (N.to_nat (N.pred u)) bs (N.pred v) o) as B.
      rewrite N2Nat.id, !N.succ_pred in B by lia. rewrite B; [|lia|exact Hb|exact Hin].
      unfold md. destruct (N.eqb_spec u 0); [lia|]. destruct (N.eqb_spec v 0); [lia|]. simpl. rewrite F. exact D.
    + destruct (li_adj _ _ _ _ I u v) as [E|E]; rewrite E; [reflexivity|exact D].
Qed.

(** non-vacuity: the molecule of proof/C10_MolGraph.v with its per-atom bond lists *)
Example light_eq_ex :
  let ab := [[]; [(2%N, 3); (3%N, 4)]; [(1%N, 3)]; [(1%N, 4)]] in
  gnodes (mol_to_graph_light ex_mol ab false false) = gnodes (mol_to_graph ex_mol false false) /\
  adj (mol_to_graph_light ex_mol ab false false) 2%N 4%N = Some (EA (Some (OS 4)) None).
Proof. vm_compute. auto. Qed.
