(** C06 — proofs, part 7: the cheap pre-filter.  It answers "skip" only when (a) some
    pattern node has no host candidate with matching labels and at least its degree —
    then there is provably no monomorphism at all — or (b) the documented estimate guard
    fired (product of the candidate counts of a prefix of the pattern nodes exceeds
    10^4 x threshold).  Stdlib lists. *)
From Coq Require Import List NArith Bool Arith Lia Permutation.
From SK Require Import lib.LGraph lib.C01_GraphLemmas model.C06_Model lib.C06_Spec proof.C06_All proof.C06_Comps proof.C06_CompSem.
Import ListNotations.

(** ---------- neighbour lists of a simple graph have no repetition ---------- *)
Definition nb (es : list (N * N * elab)) (u : N) : list N :=
  flat_map (fun e => let '(a, b, _) := e in if N.eqb a u then [b] else if N.eqb b u then [a] else []) es.

Lemma in_nb es u v : In v (nb es u) <-> find_edge u v es <> None.
Proof. exact (in_nbrs (LG (@nil (N * nlab)) es) u v). Qed.

Lemma nb_nodup es u : simple es -> NoDup (nb es u).
Proof.
  induction 1 as [|a b x es Hn Hs IH]; simpl; [constructor|].
  destruct (N.eqb_spec a u) as [->|Ha].
  - simpl. constructor; [|exact IH]. rewrite in_nb. congruence.
  - destruct (N.eqb_spec b u) as [->|Hb]; [|exact IH].
    simpl. constructor; [|exact IH]. rewrite in_nb, find_edge_sym. congruence.
Qed.

Lemma nbrs_nodup (g : graph) u : LGraph.wf g -> NoDup (nbrs g u).
Proof. intros Hw. apply (nb_nodup (gedges g) u). apply wf_simple. exact Hw. Qed.

Lemma wf_gwf (g : graph) : LGraph.wf g -> gwf g.
Proof. intros (A & B & _). split; assumption. Qed.

(** ---------- pigeonhole along an injective relation ---------- *)
Lemma rel_length {X Y} (R : X -> Y -> Prop) : forall (l : list X) (l' : list Y),
  NoDup l -> (forall x, In x l -> exists y, In y l' /\ R x y) ->
  (forall x x' y, R x y -> R x' y -> x = x') -> length l <= length l'.
Proof.
  induction l as [|x l IH]; intros l' Hnd Hex Hinj; simpl; [lia|].
  inversion Hnd as [|? ? Hnot Hnd']; subst.
  destruct (Hex x (or_introl eq_refl)) as (y & Iy & Rxy).
  apply in_split in Iy. destruct Iy as (l1 & l2 & ->).
  rewrite app_length. simpl. rewrite Nat.add_succ_r, <- app_length. apply le_n_S.
  apply IH; auto. intros x' Ix'. destruct (Hex x' (or_intror Ix')) as (y' & Iy' & Rx'y').
  exists y'. split; [|exact Rx'y'].
  apply in_app_or in Iy'. apply in_or_app. destruct Iy' as [I|[E|I]]; auto.
  exfalso. subst y'. assert (x = x') by (eapply Hinj; eauto). subst x'. contradiction.
Qed.

Lemma functional_inv (m : mapping) p p' h : NoDup (map snd m) -> In (p, h) m -> In (p', h) m -> p = p'.
Proof.
  induction m as [|[q k] m IH]; simpl; intros Hnd I I'; [destruct I|].
  inversion Hnd as [|? ? Hnot Hnd']; subst.
  destruct I as [E|I], I' as [E'|I'].
  - congruence.
  - exfalso. inversion E; subst. apply Hnot. change h with (snd (p', h)). apply in_map. exact I'.
  - exfalso. inversion E'; subst. apply Hnot. change h with (snd (p, h)). apply in_map. exact I.
  - eauto.
Qed.

(** a monomorphism cannot lower the degree *)
Lemma mono_degree (H P : graph) m p h : LGraph.wf P -> is_mono H P m -> In (p, h) m ->
  (degree P p <= degree H h)%N.
Proof.
  intros HwfP (A & B & C & D & E) I. unfold degree, lenN.
  assert (length (nbrs P p) <= length (nbrs H h)); [|lia].
  apply (rel_length (fun p' h' => In (p', h') m)).
  - apply nbrs_nodup. exact HwfP.
  - intros p' Ip'. apply in_nbrs in Ip'.
    assert (Inode : In p' (node_ids P)) by (apply (adjacent_nodes P p p' (wf_gwf P HwfP) Ip')).
    apply B in Inode. apply in_map_fst in Inode. destruct Inode as (h' & Ih').
    exists h'. split; [|exact Ih'].
    destruct (LGraph.adj P p p') as [b|] eqn:Eb; [|congruence].
    destruct (E p h p' h' b I Ih' Eb) as (b' & Eb' & _). apply in_nbrs. congruence.
  - intros x x' y Ix Ix'. eapply functional_inv; eauto.
Qed.

(** ---------- the two exits of the pre-filter ---------- *)
Definition cnt (H P : graph) (p : N) : N :=
  lenN (filter (fun h => nm (lab H h) (lab P p) && (degree P p <=? degree H h)%N) (node_ids H)).

Lemma qpf_loop_true H P thr : forall ps est, qpf_loop H P thr ps est = true ->
  (exists p, In p ps /\ cnt H P p = 0%N) \/
  (exists pre suf, ps = pre ++ suf /\ (thr * 10000 < fold_left (fun e p => e * cnt H P p) pre est)%N).
Proof.
  induction ps as [|p ps IH]; intros est Hq; [discriminate|].
  cbn [qpf_loop] in Hq. fold (cnt H P p) in Hq.
  destruct (N.eqb_spec (cnt H P p) 0) as [E0|_].
  - left. exists p. split; [left; reflexivity|exact E0].
  - destruct (N.ltb_spec (thr * 10000) (est * cnt H P p)) as [Hlt|_].
    + right. exists [p], ps. split; [reflexivity|exact Hlt].
    + destruct (IH _ Hq) as [(q & Iq & Eq)|(pre & suf & -> & Hlt)].
      * left. exists q. split; [right; exact Iq|exact Eq].
      * right. exists (p :: pre), suf. split; [reflexivity|exact Hlt].
Qed.

Theorem prefilter_sound (H P : graph) (thr : N) :
  LGraph.wf P -> quick_pre_filter H P thr = true ->
  (forall m, ~ is_mono H P m) \/
  (exists pre suf, node_ids P = pre ++ suf /\
     (thr * 10000 < fold_left (fun e p => e * cnt H P p) pre 1)%N).
Proof.
  intros HwfP Hq. destruct (qpf_loop_true H P thr _ _ Hq) as [(p & Ip & E0)|Hg]; [left|right; exact Hg].
  intros m Hm. pose proof Hm as (A & B & C & D & E).
  apply B in Ip. apply in_map_fst in Ip. destruct Ip as (h & Ih).
  destruct (D p h Ih) as (Inode & Hnm).
  pose proof (mono_degree H P m p h HwfP Hm Ih) as Hdeg.
  unfold cnt, lenN in E0.
  assert (Iin : In h (filter (fun h => nm (lab H h) (lab P p) && (degree P p <=? degree H h)%N) (node_ids H))).
  { apply filter_In. split; [exact Inode|]. rewrite Hnm. apply N.leb_le. exact Hdeg. }
  destruct (filter _ (node_ids H)); [destruct Iin|simpl in E0; lia].
Qed.
