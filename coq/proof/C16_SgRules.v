(** C16 — species graph, rules: when the reactions that share a species pair agree on their rule, the rule comes back too,
    i.e. the whole id ↦ (rule, reactants, products) map is reproduced. *)
From stdpp Require Import gmap strings sets pretty sorting.
From SK Require Import lib.Tok model.C15_Model proof.C15_Proof model.C16_Model proof.C16_Defs proof.C16_Common proof.C16_Sg.
Local Open Scope string_scope.
Local Open Scope list_scope.

(** reactions sharing a (reactant, product) pair carry the same rule *)
Definition rules_agree (H : net) : Prop :=
  ∀ e e' rx rx' u v, edges H !! e = Some rx → edges H !! e' = Some rx' →
    is_Some (r_lhs rx !! u) → is_Some (r_rhs rx !! v) → is_Some (r_lhs rx' !! u) → is_Some (r_rhs rx' !! v) →
    r_rule rx = r_rule rx'.

(** * rule sets of the arcs *)
Definition RInv (done : list tup) (arcs : gmap (string * string) sarc) : Prop :=
  ∀ u v a rule, arcs !! (u, v) = Some a →
    rule ∈ sa_rules a ↔ ∃ t, t ∈ done ∧ t_u t = u ∧ t_v t = v ∧ t_rule t = rule.

Lemma step_RInv done G t : AInv done (g_arcs G) → RInv done (g_arcs G) → RInv (done ++ [t]) (g_arcs (step_tuple G t)).
Proof.
  intros HA HR u v a rule. unfold step_tuple, collapse_pair. cbn [g_arcs].
  destruct (decide ((u, v) = (t_u t, t_v t))) as [[= -> ->]|Hne].
  - rewrite lookup_insert. intros [= <-]. destruct (g_arcs G !! (t_u t, t_v t)) as [d|] eqn:E; cbn [sa_rules].
    + rewrite elem_of_union, elem_of_singleton, (HR _ _ _ rule E). split.
      * intros [->|(t0 & Hin & ?)]; [exists t|exists t0]; (split; [set_solver|done]).
      * intros (t0 & [Hin|Hq%elem_of_list_singleton]%elem_of_app & Hu & Hv & Hr); [right; eauto|subst t0; by left].
    + rewrite elem_of_singleton. split.
      * intros ->. exists t. split; [set_solver|done].
      * intros (t0 & [Hin|Hq%elem_of_list_singleton]%elem_of_app & Hu & Hv & Hr); [|by subst t0].
        destruct (ai_arc _ _ HA t0 Hin) as [? Hs]. rewrite Hu, Hv in Hs. congruence.
  - rewrite lookup_insert_ne by done. intros Ha. rewrite (HR _ _ _ rule Ha). split.
    + intros (t0 & Hin & ?). exists t0. split; [set_solver|done].
    + intros (t0 & [Hin|Hq%elem_of_list_singleton]%elem_of_app & Hu & Hv & Hr); [eauto|]. subst t0. congruence.
Qed.

Lemma fold_RInv l : ∀ done G, AInv done (g_arcs G) → NInv (g_nodes G) → RInv done (g_arcs G) → tfun (done ++ l) →
  RInv (done ++ l) (g_arcs (foldl step_tuple G l)).
Proof.
  induction l as [|t l IH]; intros done G HA HN HR Hfun.
  - by rewrite app_nil_r.
  - cbn [foldl]. replace (done ++ t :: l) with ((done ++ [t]) ++ l) in * by (by rewrite <-(assoc_L (++))).
    assert (tfun (done ++ [t])) as Hf1 by (intros t1 t2 H1 H2; apply Hfun; set_solver).
    destruct (fold_AInv [t] done G HA HN Hf1) as [HA' HN'].
    apply IH; [exact HA'|exact HN'|by apply step_RInv|done].
Qed.

Lemma export_RInv im H : RInv (sg_tuples H) (g_arcs (hypergraph_to_species_graph im H)).
Proof.
  unfold hypergraph_to_species_graph. rewrite export_flat.
  apply (fold_RInv _ []); [| | |apply tfun_all].
  - split; cbn [g_arcs]; [by intros ???? ?%lookup_empty_Some|set_solver|set_solver|by intros ?? ?%lookup_empty_Some].
  - cbn [g_nodes]. generalize (elements (species H)). intros l.
    assert (NInv ∅) as H0 by (by intros ?? ?%lookup_empty_Some). revert H0. generalize (∅ : gmap string snode).
    induction l as [|s l IH]; intros m Hm; [done|]. cbn [foldl]. apply IH.
    intros y nd. rewrite lookup_insert_Some. intros [[<- <-]|[_ ?]]; [by right|by eapply Hm].
  - intros ???? Hq. cbn in Hq. by apply lookup_empty_Some in Hq.
Qed.

(** * rule sets of the grouped entries *)
Definition ERInv (done : list triple) (ents : gmap string sentry) : Prop :=
  ∀ e ent rule, ents !! e = Some ent → rule ∈ se_rules ent ↔ ∃ t, t ∈ done ∧ t.2 = e ∧ rule ∈ sa_rules t.1.2.

Lemma group_triple_rules G ents t :
  ∃ ent', group_triple G ents t = <[ t.2 := ent' ]> ents ∧
          se_rules ent' = se_rules (default (SEntry ∅ ∅ ∅ false) (ents !! t.2)) ∪ sa_rules t.1.2.
Proof.
  unfold group_triple, group_one. destruct (put_first _ _ _) as [rm c1]. destruct (put_first _ _ _) as [pm c2].
  eexists. split; [done|]. done.
Qed.

Lemma group_triple_ERInv H G done ents t : EInv H done ents → ERInv done ents → ERInv (done ++ [t]) (group_triple G ents t).
Proof.
  intros HE HR. destruct (group_triple_rules G ents t) as (ent' & -> & Hrules).
  intros e ent rule. rewrite lookup_insert_Some. intros [[<- <-]|[Hne Hent]].
  - rewrite Hrules, elem_of_union. destruct (ents !! t.2) as [ent0|] eqn:E0; cbn [default].
    + rewrite (HR _ _ rule E0). split.
      * intros [(t0 & Hin & ?)|Hr]; [exists t0|exists t]; (split; [set_solver|done]).
      * intros (t0 & [Hin|Hq%elem_of_list_singleton]%elem_of_app & He & Hr); [left; eauto|subst t0; by right].
    + cbn [se_rules]. split.
      * intros [?|Hr]; [set_solver|]. exists t. split; [set_solver|done].
      * intros (t0 & [Hin|Hq%elem_of_list_singleton]%elem_of_app & He & Hr); [|subst t0; by right].
        destruct (ei_complete _ _ _ HE t0 Hin) as (? & Hs & _). rewrite He in Hs. congruence.
  - rewrite (HR _ _ rule Hent). split.
    + intros (t0 & Hin & ?). exists t0. split; [set_solver|done].
    + intros (t0 & [Hin|Hq%elem_of_list_singleton]%elem_of_app & He & Hr); [eauto|]. subst t0. congruence.
Qed.

Lemma fold_ERInv H G (HN : NInv (g_nodes G)) l : ∀ done ents, EInv H done ents → ERInv done ents → Forall (good H) l →
  ERInv (done ++ l) (foldl (group_triple G) ents l).
Proof.
  induction l as [|t l IH]; intros done ents HE HR Hg; [by rewrite app_nil_r|].
  apply Forall_cons in Hg as [Ht Hg]. cbn [foldl].
  replace (done ++ t :: l) with ((done ++ [t]) ++ l) by (by rewrite <-(assoc_L (++))).
  apply IH; [by apply group_triple_EInv|by eapply group_triple_ERInv|done].
Qed.

Lemma sg_ents_ERInv H G : AInv (sg_tuples H) (g_arcs G) → NInv (g_nodes G) → ERInv (triples (g_arcs G)) (sg_ents G).
Proof.
  intros HA HN. apply (fold_ERInv H G HN _ [] ∅).
  - split; [by intros ?? ?%lookup_empty_Some|set_solver].
  - by intros ??? ?%lookup_empty_Some.
  - apply Forall_forall. intros t. apply triples_good. by apply AInv_VAInv.
Qed.

(** the merged rule set of a reaction is exactly its own rule *)
Lemma sg_ents_rules H G : AInv (sg_tuples H) (g_arcs G) → NInv (g_nodes G) → RInv (sg_tuples H) (g_arcs G) →
  two_sided H → rules_agree H →
  ∀ e ent rx, sg_ents G !! e = Some ent → edges H !! e = Some rx → se_rules ent = {[ r_rule rx ]}.
Proof.
  intros HA HN HR H2 Hag e ent rx Hent Hrx. apply set_eq. intros rule.
  rewrite (sg_ents_ERInv H G HA HN e ent rule Hent), elem_of_singleton. split.
  - intros ([[[u v] a] e0] & Hin & He & Hr). cbn in He, Hr.
    apply elem_of_list_bind in Hin as ([[u' v'] a'] & Hin1 & Harc%elem_of_map_to_list).
    apply elem_of_list_fmap in Hin1 as (e1 & Heq & Hvia%elem_of_elements). cbn in Heq, Hvia.
    assert (u' = u ∧ v' = v ∧ a' = a ∧ e1 = e) as (-> & -> & -> & ->) by (by simplify_eq). clear Heq He.
    apply (HR _ _ _ rule Harc) in Hr as (t' & Ht' & <- & <- & <-).
    apply (ai_via _ _ HA _ _ _ e Harc) in Hvia as (t & Ht & <- & Hu & Hv).
    apply elem_of_all_tuples in Ht as (rx1 & Hrx1%elem_of_map_to_list & _ & Hu1 & Hv1).
    apply elem_of_all_tuples in Ht' as (rx2 & Hrx2%elem_of_map_to_list & Hrule2 & Hu2 & Hv2).
    assert (rx1 = rx) as -> by congruence. rewrite Hrule2. symmetry.
    eapply (Hag (t_e t) (t_e t') rx rx2 (t_u t') (t_v t')); eauto; rewrite <-?Hu, <-?Hv; eauto.
  - intros ->. destruct (H2 e rx Hrx) as [Hl Hr].
    apply map_choose in Hl as (u & c & Hu). apply map_choose in Hr as (v & d & Hv).
    destruct (triple_of_tuple H G (AInv_VAInv _ _ HA) e rx u c v d Hrx Hu Hv) as [a Hin].
    exists (u, v, a, e). split; [done|]. split; [done|]. cbn.
    apply elem_of_list_bind in Hin as ([[u' v'] a'] & Hin1 & Harc%elem_of_map_to_list).
    apply elem_of_list_fmap in Hin1 as (e1 & Heq & _). cbn in Heq.
    assert (u' = u ∧ v' = v ∧ a' = a) as (-> & -> & ->) by (by simplify_eq). clear Heq.
    apply (HR _ _ _ (r_rule rx) Harc). exists (Tup e (r_rule rx) u c v d). split; [|done].
    apply elem_of_all_tuples. exists rx. cbn. split; [by apply elem_of_map_to_list|done].
Qed.

(** * the round trip with rules *)
Lemma species_graph_roundtrip_rules (pick : gset string → string) (default_rule : string) (include_mol mol_attr : bool) (H : net) :
  (∀ x, pick {[ x ]} = x) → two_sided H → wf_rxns H → rules_agree H →
  (species_graph_to_hypergraph pick default_rule mol_attr (hypergraph_to_species_graph include_mol H)).2 = None ∧
  edges (species_graph_to_hypergraph pick default_rule mol_attr (hypergraph_to_species_graph include_mol H)).1 = edges H.
Proof.
  intros Hpick H2 Hwf Hag. destruct (export_inv include_mol H) as [HA HN]. pose proof (export_RInv include_mol H) as HR.
  set (G := hypergraph_to_species_graph include_mol H) in *.
  unfold species_graph_to_hypergraph. rewrite (entries_flat G) by (intros; eapply ai_ne; eauto).
  fold (sg_ents G). cbn [orb].
  pose proof (sg_ents_spec H G (AInv_VAInv _ _ HA) HN H2) as Hspec. pose proof (sg_ents_dom H G (AInv_VAInv _ _ HA) HN H2) as Hdom.
  rewrite bool_decide_eq_false_2.
  2:{ intros (e & ent & He & Hc). destruct (Hspec e ent He) as (rx & _ & Hcl & _). congruence. }
  set (l := sort_by_key (map_to_list (sg_ents G))).
  assert (l ≡ₚ map_to_list (sg_ents G)) as Hperm by apply merge_sort_Permutation.
  assert (∀ e ent, (e, ent) ∈ l ↔ sg_ents G !! e = Some ent) as Hl.
  { intros e ent. by rewrite Hperm, elem_of_map_to_list. }
  set (fl := λ p : string * sentry, normalize (map_to_list (se_r p.2))).
  set (fr := λ p : string * sentry, normalize (map_to_list (se_p p.2))).
  set (frule := λ p : string * sentry, if decide (se_rules p.2 = ∅) then default_rule else pick (se_rules p.2)).
  assert (∀ e ent, (e, ent) ∈ l → ∃ rx, edges H !! e = Some rx ∧ fl (e, ent) = r_lhs rx ∧ fr (e, ent) = r_rhs rx ∧
                                          frule (e, ent) = r_rule rx) as Hside.
  { intros e ent Hin%Hl. destruct (Hspec e ent Hin) as (rx & Hrx & _ & Hr & Hp). exists rx. split; [done|].
    unfold fl, fr, frule. cbn [snd]. rewrite Hr, Hp, !normalize_pos_map.
    rewrite (sg_ents_rules H G HA HN HR H2 Hag e ent rx Hin Hrx). rewrite decide_False by set_solver. by rewrite Hpick. }
  assert (NoDup l.*1) as Hnd by (rewrite Hperm; apply NoDup_fst_map_to_list).
  destruct (rebuild_fold fst fl fr frule l Hnd) with (s := empty_net) as (s' & Hf & He & _ & _).
  { apply Forall_forall. intros [e ent] Hin. destruct (Hside e ent Hin) as (rx & Hrx & -> & -> & _).
    destruct (H2 e rx Hrx). tauto. }
  { done. }
  match goal with |- context [foldl ?f (empty_net, None) l] =>
    change (foldl f (empty_net, None) l) with (foldl (rebuild_step fst fl fr frule) (empty_net, None) l) end.
  rewrite Hf. split; [done|]. cbn [fst].
  match goal with |- edges ?X = _ => assert (edges X = edges s') as -> end.
  { destruct mol_attr; [|done].
    pose proof (foldl_mol_edges (λ acc (xn : string * snode),
             match sn_mol xn.2 with
             | Some m => if decide (default xn.1 (sn_label xn.2) ∈ species acc) then Some (default xn.1 (sn_label xn.2), m) else None
             | None => None end) (map_to_list (g_nodes G)) s') as Hq.
    rewrite <-Hq. f_equal. apply foldl_ext_in. intros acc xn _. destruct (sn_mol xn.2); [|done]. cbn zeta. by destruct (decide _). }
  rewrite He. cbn [edges empty_net]. rewrite (right_id_L ∅ (∪)).
  apply map_eq. intros e. destruct (edges H !! e) as [rx|] eqn:Hrx.
  - destruct (Hdom e rx Hrx) as [ent Hent]. apply Hl in Hent as Hin.
    destruct (Hside e ent Hin) as (rx' & Hrx' & Hfl & Hfr & Hfrule). assert (rx' = rx) as -> by congruence.
    apply (elem_of_list_to_map_1 _ e rx); [by rewrite rebuilt_fst|].
    apply elem_of_list_fmap. exists (e, ent). split; [|done]. unfold rebuilt. cbn [fst].
    rewrite Hfl, Hfr, Hfrule, norm_rule_id by (by destruct (Hwf e rx Hrx)). by rewrite rxn_eta.
  - apply not_elem_of_list_to_map_1. rewrite rebuilt_fst.
    intros ([e' ent] & -> & Hin)%elem_of_list_fmap. destruct (Hside _ _ Hin) as (rx & Hrx' & _). cbn in Hrx. congruence.
Qed.

(** * non-vacuity: parallel reactions under one rule; and the premise is needed *)
Definition ex_sgr_net : net :=
  mk_net [] [(None, "r", [("A", 2%Z)], [("B", 1%Z)]); (None, "r", [("A", 1%Z)], [("B", 3%Z)]); (Some "x", "q", [("B", 1%Z)], [("C", 1%Z)])] [].
Definition ex_sgr_back : net := (species_graph_to_hypergraph pick_first "d" false (hypergraph_to_species_graph false ex_sgr_net)).1.
Example ex_sgr : bool_decide (edges ex_sgr_back = edges ex_sgr_net) = true ∧ size (edges ex_sgr_net) = 3%nat.
Proof. by vm_compute. Qed.
Lemma pick_first_singleton x : pick_first {[ x ]} = x.
Proof. unfold pick_first. by rewrite elements_singleton. Qed.
