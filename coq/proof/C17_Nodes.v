(** C17 — the identifier level of _species_and_reaction_order / build_S_minus_plus (model/C17_NodeModel.v)
    computes, for EVERY injective assignment of node identifiers, the labels and matrices of the label-level
    model (model/C17_Model.v): rows and labels cannot diverge, whatever the identifiers look like
    (1..N+M, two-digit, permuted, strings).  Style: stdlib lists. *)
From Coq Require Import List NArith ZArith Bool Arith Lia Permutation Sorting.Sorted.
From SK Require Import lib.IRSortKeys lib.C17_Farkas model.C17_Model model.C17_NodeModel proof.C17_Proof.
Import ListNotations.
Local Open Scope nat_scope.

(* ------------------------------------------------------------------ sorting commutes with decorating *)

Lemma insert_map {A B} (g : A -> B) (lebB : B -> B -> bool) x l :
  insert lebB (g x) (map g l) = map g (insert (fun a b => lebB (g a) (g b)) x l).
Proof.
  induction l as [|a l IH]; simpl; auto. destruct (lebB (g x) (g a)); simpl; auto. now rewrite IH.
Qed.

Lemma isort_map {A B} (g : A -> B) (lebB : B -> B -> bool) l :
  isort lebB (map g l) = map g (isort (fun a b => lebB (g a) (g b)) l).
Proof. induction l as [|a l IH]; simpl; auto. rewrite IH. apply insert_map. Qed.

Definition gs (ids : str -> N) : str -> bnode := fun s => BNode (ids s) s.
Definition gr (idr : str -> N) : rxn -> bnode := fun e => BNode (idr (rid e)) (rrule e).
Definition ga (ids idr : str -> N) : arc -> barc :=
  fun a => BArc (ids (a_species a)) (idr (a_rxn a)) (a_stoich a) (a_role a).

Lemma species_nodes_sorted ids l : nodes_sorted (map (gs ids) l) = map (gs ids) (isort strleb l).
Proof. unfold nodes_sorted. rewrite isort_map. reflexivity. Qed.

Lemma rxn_nodes_sorted idr l :
  nodes_sorted (map (gr idr) l) = map (gr idr) (isort (fun a b => strleb (rrule a) (rrule b)) l).
Proof. unfold nodes_sorted. rewrite isort_map. reflexivity. Qed.

(* ------------------------------------------------------------------ the index dictionaries *)

Lemma index_get_nth {A} (h : A -> N) (l : list A) : forall k i x,
  NoDup l -> (forall a b, In a l -> In b l -> h a = h b -> a = b) ->
  nth_error l i = Some x ->
  index_get (combine (map h l) (seq k (length l))) (h x) = Some (k + i).
Proof.
  induction l as [|y l IH]; intros k i x ND Hinj Hn.
  - destruct i; discriminate.
  - simpl. destruct i as [|i]; simpl in Hn.
    + injection Hn as ->. rewrite N.eqb_refl. f_equal. lia.
    + inversion ND as [|? ? Hy ND']; subst.
      assert (Ix : In x l) by (eapply nth_error_In; eauto).
      destruct (N.eqb (h y) (h x)) eqn:E.
      * apply N.eqb_eq in E. apply Hinj in E; [|left; auto|right; auto]. subst. contradiction.
      * rewrite (IH (S k) i x); auto.
        -- f_equal. lia.
        -- intros a b Ia Ib. apply Hinj; right; auto.
Qed.

Lemma index_get_in d : forall u i, index_get d u = Some i -> In i (map snd d).
Proof.
  induction d as [|[v k] d IH]; intros u i H; simpl in *; [discriminate|].
  destruct (N.eqb v u); [injection H as ->; auto|right; eauto].
Qed.

Lemma index_get_lt keys len u i : index_get (combine keys (seq 0 len)) u = Some i -> i < len.
Proof.
  intros H. apply index_get_in in H. apply in_map_iff in H. destruct H as ([v k] & <- & H).
  apply in_combine_r in H. apply in_seq in H. simpl. lia.
Qed.

(* ------------------------------------------------------------------ matrices: cells, shape, += *)

Definition cell (M : list (list Z)) (i j : nat) : Z := nth j (nth i M []) 0%Z.
Definition rows_n (n : nat) (M : list (list Z)) : Prop := Forall (fun r => length r = n) M.

Lemma row_add_length r : forall j c, length (row_add r j c) = length r.
Proof. induction r as [|x r IH]; intros [|j] c; simpl; auto. Qed.

Lemma row_add_nth r : forall j c j', j < length r ->
  nth j' (row_add r j c) 0%Z = (nth j' r 0 + if Nat.eqb j j' then c else 0)%Z.
Proof.
  induction r as [|x r IH]; intros j c j' H; simpl in H; [lia|].
  destruct j as [|j], j' as [|j']; simpl; try lia.
  apply IH. lia.
Qed.

Lemma mat_add_length M : forall i j c, length (mat_add M i j c) = length M.
Proof. induction M as [|r M IH]; intros [|i] j c; simpl; auto. Qed.

Lemma mat_add_rows n M : forall i j c, rows_n n M -> rows_n n (mat_add M i j c).
Proof.
  induction M as [|r M IH]; intros [|i] j c H; simpl; auto; inversion H; subst; constructor; auto.
  - apply row_add_length.
  - apply IH; auto.
Qed.

Lemma mat_add_cell n M : forall i j c i' j', i < length M -> rows_n n M -> j < n ->
  cell (mat_add M i j c) i' j' = (cell M i' j' + if Nat.eqb i i' && Nat.eqb j j' then c else 0)%Z.
Proof.
  induction M as [|r M IH]; intros i j c i' j' Hi HR Hj; simpl in Hi; [lia|].
  inversion HR as [|? ? Hr HR']; subst.
  destruct i as [|i], i' as [|i']; unfold cell; simpl.
  - apply row_add_nth. lia.
  - lia.
  - lia.
  - apply (IH i j c i' j'); auto. lia.
Qed.

Lemma zeros_length m n : length (zeros m n) = m.
Proof. apply repeat_length. Qed.
Lemma zeros_rows m n : rows_n n (zeros m n).
Proof. apply Forall_forall. intros r H. apply repeat_spec in H. subst. apply repeat_length. Qed.
Lemma zeros_cell m n i j : cell (zeros m n) i j = 0%Z.
Proof.
  unfold cell, zeros.
  destruct (nth_in_or_default i (repeat (repeat 0%Z n) m) []) as [H|H].
  - apply repeat_spec in H. rewrite H. apply nth_repeat.
  - rewrite H. now destruct j.
Qed.

Lemma mat_ext m n (A B : list (list Z)) :
  length A = m -> length B = m -> rows_n n A -> rows_n n B ->
  (forall i j, i < m -> j < n -> cell A i j = cell B i j) -> A = B.
Proof.
  intros LA LB RA RB H. apply (nth_ext A B [] []); [congruence|].
  intros i Hi. rewrite LA in Hi.
  assert (La : length (nth i A []) = n).
  { unfold rows_n in RA. rewrite Forall_forall in RA. apply RA. apply nth_In. lia. }
  assert (Lb : length (nth i B []) = n).
  { unfold rows_n in RB. rewrite Forall_forall in RB. apply RB. apply nth_In. lia. }
  apply (nth_ext _ _ 0%Z 0%Z); [congruence|].
  intros j Hj. rewrite La in Hj. apply (H i j Hi Hj).
Qed.

(* ------------------------------------------------------------------ one pass over the arcs *)

Section Pass.
Variables (m n : nat) (pos : barc -> option (nat * nat)).
Hypothesis pos_ok : forall a i j, pos a = Some (i, j) -> i < m /\ j < n.

Definition stepf (M : list (list Z)) (a : barc) : list (list Z) :=
  match pos a with Some (i, j) => mat_add M i j (ba_stoich a) | None => M end.
Definition contrib (a : barc) (i' j' : nat) : Z :=
  match pos a with
  | Some (i, j) => if Nat.eqb i i' && Nat.eqb j j' then ba_stoich a else 0%Z
  | None => 0%Z
  end.

Lemma pass_shape arcs : forall M, length M = m -> rows_n n M ->
  length (fold_left stepf arcs M) = m /\ rows_n n (fold_left stepf arcs M).
Proof.
  induction arcs as [|a arcs IH]; intros M L R; simpl; auto.
  apply IH; unfold stepf; destruct (pos a) as [[i j]|]; auto.
  - now rewrite mat_add_length.
  - now apply mat_add_rows.
Qed.

Lemma pass_cell arcs : forall M i' j', length M = m -> rows_n n M ->
  cell (fold_left stepf arcs M) i' j' = (cell M i' j' + fold_right (fun a acc => contrib a i' j' + acc) 0 arcs)%Z.
Proof.
  induction arcs as [|a arcs IH]; intros M i' j' L R; simpl; [lia|].
  rewrite IH.
  - unfold stepf, contrib. destruct (pos a) as [[i j]|] eqn:E; [|lia].
    destruct (pos_ok a i j E) as [Hi Hj].
    rewrite (mat_add_cell n) by (auto; lia). lia.
  - unfold stepf. destruct (pos a) as [[i j]|]; auto. now rewrite mat_add_length.
  - unfold stepf. destruct (pos a) as [[i j]|]; auto. now apply mat_add_rows.
Qed.
End Pass.

Lemma fold_left_ext {A B} (f g : A -> B -> A) l : (forall a b, f a b = g a b) -> forall a, fold_left f l a = fold_left g l a.
Proof. intros H. induction l as [|b l IH]; intros a; simpl; auto. rewrite H. apply IH. Qed.

(* ------------------------------------------------------------------ the refinement *)

Section Refine.
Variables (ids idr : str -> N) (net : list rxn) (iso : list str).
Hypothesis ids_inj : forall s s', In s (species_set net iso) -> In s' (species_set net iso) -> ids s = ids s' -> s = s'.
Hypothesis idr_inj : forall e e', In e net -> In e' net -> idr (rid e) = idr (rid e') -> rid e = rid e'.
Hypothesis ND : NoDup (map rid net).

Let G := export ids idr net iso.
Let sp := species_order net iso.
Let rx := reaction_order net.

Lemma G_species : bg_species G = map (gs ids) (species_set net iso). Proof. reflexivity. Qed.
Lemma G_rxns : bg_rxns G = map (gr idr) (edges_sorted net). Proof. reflexivity. Qed.
Lemma G_arcs : bg_arcs G = map (ga ids idr) (bip_arcs net). Proof. reflexivity. Qed.

Lemma labels_species : node_labels (bg_species G) = sp.
Proof.
  unfold node_labels. rewrite G_species, species_nodes_sorted, map_map. simpl. rewrite map_id. reflexivity.
Qed.

Lemma labels_rxns : node_labels (bg_rxns G) = map rrule rx.
Proof. unfold node_labels. rewrite G_rxns, rxn_nodes_sorted, map_map. reflexivity. Qed.

Lemma index_species : node_index (bg_species G) = combine (map ids sp) (seq 0 (length sp)).
Proof.
  unfold node_index. rewrite G_species, species_nodes_sorted, !map_map, map_length. simpl.
  unfold sp, species_order. f_equal. f_equal.
  apply Permutation_length. apply Permutation_sym, isort_perm.
Qed.

Lemma index_rxns : node_index (bg_rxns G) = combine (map (fun e => idr (rid e)) rx) (seq 0 (length rx)).
Proof.
  unfold node_index. rewrite G_rxns, rxn_nodes_sorted, !map_map, map_length. simpl.
  unfold rx, reaction_order. f_equal. f_equal.
  apply Permutation_length. apply Permutation_sym, isort_perm.
Qed.

Lemma sp_nodup : NoDup sp.
Proof. unfold sp. rewrite species_order_eq. apply ssorted_NoDup, species_set_sorted. Qed.

Lemma sp_in s : In s sp <-> In s (species_set net iso).
Proof. unfold sp. rewrite species_order_eq. tauto. Qed.

Lemma rx_in e : In e rx <-> In e net.
Proof.
  split; intros H.
  - eapply Permutation_in; [apply reaction_order_perm|exact H].
  - eapply Permutation_in; [apply Permutation_sym, reaction_order_perm|exact H].
Qed.

Lemma rx_nodup_rid : NoDup (map rid rx).
Proof. eapply NoDup_rid_perm; [apply reaction_order_perm|exact ND]. Qed.

Lemma rx_nodup : NoDup rx.
Proof. apply (NoDup_map_inv rid). apply rx_nodup_rid. Qed.

Lemma rid_inj_net e e' : In e net -> In e' net -> rid e = rid e' -> e = e'.
Proof.
  intros I I' E. apply (In_nth_error net) in I. apply (In_nth_error net) in I'.
  destruct I as [a Ha], I' as [b Hb].
  assert (a = b).
  { apply (proj1 (NoDup_nth_error (map rid net)) ND).
    - apply nth_error_Some. rewrite (map_nth_error rid a net Ha). discriminate.
    - rewrite (map_nth_error rid a net Ha), (map_nth_error rid b net Hb). now f_equal. }
  subst. congruence.
Qed.

Lemma species_index_of s i : nth_error sp i = Some s -> index_get (node_index (bg_species G)) (ids s) = Some i.
Proof.
  intros H. rewrite index_species.
  rewrite (index_get_nth ids sp 0 i s); auto.
  - apply sp_nodup.
  - intros a b Ia Ib. apply ids_inj; apply sp_in; auto.
Qed.

Lemma rxn_index_of e j : nth_error rx j = Some e -> index_get (node_index (bg_rxns G)) (idr (rid e)) = Some j.
Proof.
  intros H. rewrite index_rxns.
  rewrite (index_get_nth (fun e => idr (rid e)) rx 0 j e); auto.
  - apply rx_nodup.
  - intros a b Ia Ib E. apply rx_in in Ia. apply rx_in in Ib. apply rid_inj_net; auto.
Qed.

(** every arc of the export joins a species of the species list and a reaction of the reaction list *)
Definition arc_ok (a : arc) : Prop := In (a_species a) sp /\ exists e, In e rx /\ a_rxn a = rid e.

Lemma arcs_ok : Forall arc_ok (bip_arcs net).
Proof.
  apply Forall_forall. intros a H. unfold bip_arcs in H. apply in_flat_map in H. destruct H as (e & Ie & Ia).
  assert (Ien : In e net) by (eapply Permutation_in; [apply edges_sorted_perm|exact Ie]).
  unfold arcs_of in Ia. apply in_app_iff in Ia.
  assert (Hs : In (a_species a) (rxn_species e) /\ a_rxn a = rid e).
  { unfold rxn_species. rewrite in_app_iff.
    destruct Ia as [Ia|Ia]; apply in_map_iff in Ia; destruct Ia as (p & <- & Ip); simpl; split; auto;
      [left|right]; apply in_map; exact Ip. }
  destruct Hs as [Hs Hr]. split.
  - apply sp_in. apply species_set_in. left. exists e. auto.
  - exists e. split; [apply rx_in; exact Ien|exact Hr].
Qed.

Definition pos_of (ro : role) (a : barc) : option (nat * nat) :=
  if role_eqb (ba_role a) ro
  then match index_get (node_index (bg_species G)) (ba_species a), index_get (node_index (bg_rxns G)) (ba_rxn a) with
       | Some i, Some j => Some (i, j)
       | _, _ => None
       end
  else None.

Lemma pos_of_ok ro a i j : pos_of ro a = Some (i, j) -> i < length sp /\ j < length rx.
Proof.
  unfold pos_of. destruct (role_eqb (ba_role a) ro); [|discriminate].
  destruct (index_get (node_index (bg_species G)) (ba_species a)) as [i0|] eqn:E1; [|discriminate].
  destruct (index_get (node_index (bg_rxns G)) (ba_rxn a)) as [j0|] eqn:E2; [|discriminate].
  intros H. injection H as <- <-.
  rewrite index_species in E1. rewrite index_rxns in E2.
  split; eapply index_get_lt; eauto.
Qed.

Lemma fill_as_pass ro :
  fill ro G = fold_left (stepf (pos_of ro)) (bg_arcs G) (zeros (length sp) (length rx)).
Proof.
  unfold fill.
  replace (length (bg_species G)) with (length sp).
  2:{ rewrite G_species, map_length. unfold sp. now rewrite species_order_eq. }
  replace (length (bg_rxns G)) with (length rx).
  2:{ rewrite G_rxns, map_length. unfold rx, reaction_order. apply Permutation_length, isort_perm. }
  apply fold_left_ext. intros M a. unfold stepf, pos_of.
  destruct (role_eqb (ba_role a) ro); auto.
  destruct (index_get (node_index (bg_species G)) (ba_species a)); auto.
  destruct (index_get (node_index (bg_rxns G)) (ba_rxn a)); auto.
Qed.

Lemma eqb_as_streqb (a b : nat) (x y : str) : (a = b <-> x = y) -> Nat.eqb a b = streqb x y.
Proof.
  intros H. destruct (Nat.eqb a b) eqn:E.
  - apply Nat.eqb_eq in E. symmetry. apply streqb_eq. tauto.
  - apply Nat.eqb_neq in E. symmetry. apply streqb_neq. tauto.
Qed.

Lemma entry_cons ro a l s id :
  entry ro (a :: l) s id =
  (if streqb (a_species a) s && streqb (a_rxn a) id && role_eqb (a_role a) ro
   then a_stoich a + entry ro l s id else entry ro l s id)%Z.
Proof. reflexivity. Qed.

Lemma contrib_sum ro i j s e l :
  nth_error sp i = Some s -> nth_error rx j = Some e -> Forall arc_ok l ->
  fold_right (fun a acc => (contrib (pos_of ro) a i j + acc)%Z) 0%Z (map (ga ids idr) l) = entry ro l s (rid e).
Proof.
  intros Hi Hj. induction 1 as [|a l Ha Hl IH]; [reflexivity|].
  cbn [map fold_right]. rewrite IH. clear IH. rewrite entry_cons.
  destruct Ha as [Has (r & Ir & Hr)].
  apply (In_nth_error sp) in Has. destruct Has as [ix Hix].
  apply (In_nth_error rx) in Ir. destruct Ir as [jr Hjr].
  unfold contrib, pos_of, ga. cbn [ba_species ba_rxn ba_stoich ba_role].
  rewrite (species_index_of _ _ Hix). rewrite Hr. rewrite (rxn_index_of _ _ Hjr).
  assert (E1 : Nat.eqb ix i = streqb (a_species a) s).
  { apply eqb_as_streqb. split.
    - intros ->. congruence.
    - intros <-. apply (proj1 (NoDup_nth_error sp) sp_nodup); [apply nth_error_Some; congruence|congruence]. }
  assert (E2 : Nat.eqb jr j = streqb (rid r) (rid e)).
  { apply eqb_as_streqb. split.
    - intros ->. congruence.
    - intros E. assert (r = e).
      { apply rid_inj_net; auto; apply rx_in; eapply nth_error_In; eauto. }
      subst. apply (proj1 (NoDup_nth_error rx) rx_nodup); [apply nth_error_Some; congruence|congruence]. }
  rewrite <- E1, <- E2.
  destruct (role_eqb (a_role a) ro); [|rewrite andb_false_r; lia].
  rewrite andb_true_r. destruct (Nat.eqb ix i && Nat.eqb jr j); lia.
Qed.

Lemma S_side_shape ro : length (S_side ro net iso) = length sp /\ rows_n (length rx) (S_side ro net iso).
Proof.
  unfold S_side. rewrite map_length. split; [reflexivity|].
  apply Forall_forall. intros r H. apply in_map_iff in H. destruct H as (s & <- & _). now rewrite map_length.
Qed.

Lemma fill_eq ro : fill ro G = S_side ro net iso.
Proof.
  rewrite fill_as_pass.
  destruct (pass_shape (length sp) (length rx) (pos_of ro) (bg_arcs G) _ (zeros_length _ _) (zeros_rows _ _)) as [L R].
  destruct (S_side_shape ro) as [L' R'].
  apply (mat_ext (length sp) (length rx)); auto.
  intros i j Hi Hj.
  rewrite (pass_cell (length sp) (length rx) (pos_of ro) (pos_of_ok ro)) by (auto using zeros_length, zeros_rows).
  rewrite zeros_cell.
  destruct (nth_error sp i) as [s|] eqn:Es; [|apply nth_error_None in Es; lia].
  destruct (nth_error rx j) as [e|] eqn:Ee; [|apply nth_error_None in Ee; lia].
  rewrite G_arcs, (contrib_sum ro i j s e _ Es Ee arcs_ok).
  unfold cell, S_side. unfold sp in Es. unfold rx in Ee.
  rewrite (@nth_map2 str rxn (fun s e => entry ro (bip_arcs net) s (rid e)) _ _ i j s e Es Ee). lia.
Qed.

Theorem nodes_refine :
  node_labels (bg_species G) = species_order net iso /\
  node_labels (bg_rxns G) = map rrule (reaction_order net) /\
  fill Reactant G = S_minus net iso /\
  fill Product G = S_plus net iso /\
  build_S_nodes G = build_S net iso.
Proof.
  split; [apply labels_species|]. split; [apply labels_rxns|].
  split; [apply (fill_eq Reactant)|]. split; [apply (fill_eq Product)|].
  unfold build_S_nodes, build_S, S_plus, S_minus. now rewrite !fill_eq.
Qed.
End Refine.

(* ------------------------------------------------------------------ identifiers read off a real graph *)

Lemma look_nth keys : forall vals i k, NoDup keys -> length vals = length keys ->
  nth_error keys i = Some k -> nth_error vals i = Some (look keys vals k).
Proof.
  unfold look. induction keys as [|k0 keys IH]; intros vals i k ND L H; [destruct i; discriminate|].
  destruct vals as [|v vals]; [discriminate|]. simpl in L. inversion ND as [|? ? Hk ND']; subst.
  destruct i as [|i]; simpl in *.
  - injection H as ->. now rewrite streqb_refl.
  - assert (k0 <> k) by (intros ->; apply Hk; eapply nth_error_In; eauto).
    rewrite (streqb_neq k0 k) by assumption. apply IH; auto.
Qed.

Lemma look_inj keys vals : NoDup keys -> NoDup vals -> length vals = length keys ->
  forall a b, In a keys -> In b keys -> look keys vals a = look keys vals b -> a = b.
Proof.
  intros NK NV L a b Ia Ib E.
  apply (In_nth_error keys) in Ia. apply (In_nth_error keys) in Ib.
  destruct Ia as [i Hi], Ib as [j Hj].
  pose proof (look_nth keys vals i a NK L Hi) as Vi. pose proof (look_nth keys vals j b NK L Hj) as Vj.
  rewrite E in Vi.
  assert (i = j).
  { apply (proj1 (NoDup_nth_error vals) NV); [apply nth_error_Some; congruence|congruence]. }
  subst. congruence.
Qed.

(** the identifier-level computation evaluated by the correspondence ([graph_of]: identifiers handed over as two lists)
    equals the label-level model whenever the identifiers are pairwise distinct *)
Theorem graph_of_refine (net : list rxn) (iso : list str) (sid rids : list N) :
  NoDup (map rid net) ->
  NoDup sid -> length sid = length (species_set net iso) ->
  NoDup rids -> length rids = length net ->
  let G := graph_of net iso sid rids in
  node_labels (bg_species G) = species_order net iso /\
  node_labels (bg_rxns G) = map rrule (reaction_order net) /\
  fill Reactant G = S_minus net iso /\
  fill Product G = S_plus net iso /\
  build_S_nodes G = build_S net iso.
Proof.
  intros ND NS LS NR LR. apply nodes_refine; auto.
  - apply look_inj; auto. apply ssorted_NoDup, species_set_sorted.
  - intros e e' Ie Ie'.
    assert (P : Permutation (map rid (edges_sorted net)) (map rid net)) by (apply Permutation_map, edges_sorted_perm).
    apply look_inj; auto.
    + eapply Permutation_NoDup; [apply Permutation_sym; exact P|exact ND].
    + rewrite map_length. rewrite LR. symmetry. apply Permutation_length, edges_sorted_perm.
    + eapply Permutation_in; [apply Permutation_sym; exact P|apply in_map; exact Ie].
    + eapply Permutation_in; [apply Permutation_sym; exact P|apply in_map; exact Ie'].
Qed.

(** Non-vacuity: 2 A + B -> C (rule "r", id "e2"), C -> A (rule "q", id "e1"); species identifiers 11, 2, 10 for A, B, C
    (as strings "11" < "2" but 2 < 10 < 11 as numbers: sorting identifiers either way disagrees with the label order),
    reaction identifiers 7 and 3. *)
Definition sA : str := [65%N]. Definition sB : str := [66%N]. Definition sC : str := [67%N].
Definition ex_net : list rxn :=
  [ ([101%N; 50%N], [114%N], [(sA, 2%Z); (sB, 1%Z)], [(sC, 1%Z)]);
    ([101%N; 49%N], [113%N], [(sC, 1%Z)], [(sA, 1%Z)]) ].
Definition ex_G : bgraph := graph_of ex_net [] [11%N; 2%N; 10%N] [7%N; 3%N].

Example ex_nodes_nonvacuous :
  node_labels (bg_species ex_G) = [sA; sB; sC] /\
  build_S_nodes ex_G = [[1; -2]; [0; -1]; [-1; 1]]%Z /\
  build_S_nodes ex_G = build_S ex_net [] /\
  index_get (node_index (bg_species ex_G)) 10%N = Some 2.
Proof. vm_compute. repeat split. Qed.
