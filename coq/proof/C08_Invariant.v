(** C08 — the exact back-end is invariant: isomorphic graphs (on the covered attributes), however numbered,
    ordered or oriented, get the same canonical graph (on the covered attributes) and the same serialisation,
    hence the same signature.  From the equality of the minimal labels (C08_Equiv.v), injectivity of the label
    string (C08_Render.v: two leaves with the same label differ by an automorphism) and serialise_geq_cov. *)
From Coq Require Import List NArith ZArith Bool Arith Lia Permutation.
From SK Require Import lib.LGraph lib.IRSortKeys lib.IRCore lib.IRSearch lib.StrJoin.
From SK Require Import model.C08_Model proof.C08_Spec proof.C08_Sort proof.C08_Faithful proof.C08_Cov proof.C08_SigFun
                       proof.C08_Render proof.C08_IR proof.C08_Nauty proof.C08_Sound proof.C08_Equiv.
From SK Require lib.IRInst.
Import ListNotations.

(* ---------------- extending an injection on a finite node list to all of N ---------------- *)
Definition lmax (l : list N) : N := fold_right N.max 0%N l.
Lemma lmax_ge l x : In x l -> (x <= lmax l)%N.
Proof. induction l as [|y l IH]; simpl; [tauto|]. intros [->|I]; [lia|specialize (IH I); lia]. Qed.
Definition extend (f : N -> N) (l : list N) (x : N) : N :=
  if memN x l then f x else (lmax (map f l) + 1 + x)%N.
Lemma extend_on f l x : In x l -> extend f l x = f x.
Proof. intros I. unfold extend. rewrite (proj2 (C08_IR.memN_spec x l) I). reflexivity. Qed.
Lemma extend_inj f l : C08_Spec.inj_on f l -> forall x y, extend f l x = extend f l y -> x = y.
Proof.
  intros Hi x y. unfold extend.
  destruct (memN x l) eqn:Ex, (memN y l) eqn:Ey; intros E.
  - apply Hi; auto; apply C08_IR.memN_spec; auto.
  - apply C08_IR.memN_spec in Ex. pose proof (lmax_ge (map f l) (f x) (in_map f l x Ex)). lia.
  - apply C08_IR.memN_spec in Ey. pose proof (lmax_ge (map f l) (f y) (in_map f l y Ey)). lia.
  - lia.
Qed.
Lemma relabel_ext_on f f' (g : graph) : wf g -> (forall x, In x (node_ids g) -> f x = f' x) -> relabel f g = relabel f' g.
Proof.
  intros (_ & Hend & _) H. unfold relabel. f_equal.
  - apply map_ext_in. intros [k a] I. cbn [fst snd]. rewrite H; auto.
    unfold node_ids. change k with (fst (k, a)). apply in_map. exact I.
  - apply map_ext_in. intros [[a b] x] I. destruct (Hend _ _ _ I) as (Ha & Hb & _). rewrite !H; auto.
Qed.

(* ---------------- position tables ---------------- *)
Notation ix p := (apply_map (mapping_of p)).

Lemma assoc_combine_pi pi (pi_inj : forall x y : N, pi x = pi y -> x = y) x (l : list N) : forall vals : list N,
  assoc (pi x) (combine (map pi l) vals) = assoc x (combine l vals).
Proof.
  induction l as [|y l IH]; intros [|v vals]; simpl; auto.
  rewrite (eqb_pi pi pi_inj). destruct (N.eqb x y); auto.
Qed.
Lemma ix_map pi (pi_inj : forall x y : N, pi x = pi y -> x = y) p x : ix (map pi p) (pi x) = ix p x.
Proof. unfold apply_map, mapping_of. rewrite map_length. rewrite (assoc_combine_pi pi pi_inj). reflexivity. Qed.

Lemma ix_combine_gen (p p' : list N) : forall vals : list N, NoDup p -> NoDup p' -> length p = length p' ->
  forall a a', In (a, a') (combine p p') -> apply_map (combine p vals) a = apply_map (combine p' vals) a'.
Proof.
  revert p'. induction p as [|x p IH]; intros [|x' p'] vals Hn Hn' Hl a a' I; simpl in *; try contradiction; try discriminate.
  inversion Hn as [|? ? Hx Hnp]; subst. inversion Hn' as [|? ? Hx' Hnp']; subst.
  destruct vals as [|v vals]; [unfold apply_map; reflexivity|].
  destruct I as [E|I].
  - inversion E; subst. unfold apply_map. simpl. rewrite !N.eqb_refl. reflexivity.
  - unfold apply_map. simpl.
    destruct (N.eqb_spec a x) as [->|_]; [exfalso; apply Hx; eapply in_combine_l; eauto|].
    destruct (N.eqb_spec a' x') as [->|_]; [exfalso; apply Hx'; eapply in_combine_r; eauto|].
    apply (IH p' vals); auto.
Qed.
Lemma ix_combine p p' a a' : NoDup p -> NoDup p' -> length p = length p' -> In (a, a') (combine p p') -> ix p a = ix p' a'.
Proof. intros Hn Hn' Hl I. unfold mapping_of. rewrite <- Hl. apply ix_combine_gen; auto. Qed.

Lemma in_combine_ex {A B} (l : list A) : forall (l' : list B) a, length l = length l' -> In a l -> exists b, In (a, b) (combine l l').
Proof.
  induction l as [|x l IH]; intros [|y l'] a Hl I; simpl in *; try contradiction; try discriminate.
  destruct I as [->|I]; [exists y; auto|]. destruct (IH l' a) as (b & Hb); auto. exists b. auto.
Qed.
Lemma map_eq_combine {A A' B} (f : A -> B) (f' : A' -> B) l : forall l', map f l = map f' l' ->
  forall a a', In (a, a') (combine l l') -> f a = f' a'.
Proof.
  induction l as [|x l IH]; intros [|y l'] E a a' I; simpl in *; try contradiction; try discriminate.
  inversion E. destruct I as [I|I]; [inversion I; subst; auto|eauto].
Qed.
Lemma combine_app_eq {A B} (l1 l2 : list A) (m1 m2 : list B) : length l1 = length m1 ->
  combine (l1 ++ l2) (m1 ++ m2) = combine l1 m1 ++ combine l2 m2.
Proof.
  revert m1. induction l1 as [|x l1 IH]; intros [|y m1] Hl; simpl in *; try discriminate; auto. f_equal. apply IH. lia.
Qed.
Lemma combine_map_pair (x x' : N) (r r' : list N) :
  combine (map (pair x) r) (map (pair x') r') = map (fun bb => ((x, fst bb), (x', snd bb))) (combine r r').
Proof. revert r'. induction r as [|b r IH]; intros [|b' r']; simpl; auto. f_equal. apply IH. Qed.

Lemma pairs_combine (p : list N) : forall p', length p = length p' ->
  forall a a' b b', In (a, a') (combine p p') -> In (b, b') (combine p p') -> a <> b ->
  In ((a, b), (a', b')) (combine (pairs p) (pairs p')) \/ In ((b, a), (b', a')) (combine (pairs p) (pairs p')).
Proof.
  induction p as [|x p IH]; intros [|x' p'] Hl a a' b b' Ia Ib Hne; simpl in *; try contradiction; try discriminate.
  rewrite combine_app_eq by (rewrite !map_length; lia). rewrite combine_map_pair.
  destruct Ia as [Ea|Ia], Ib as [Eb|Ib].
  - inversion Ea; inversion Eb; subst. congruence.
  - inversion Ea; subst. left. apply in_or_app. left. apply in_map_iff. exists (b, b'). auto.
  - inversion Eb; subst. right. apply in_or_app. left. apply in_map_iff. exists (a, a'). auto.
  - destruct (IH p' (eq_add_S _ _ Hl) a a' b b' Ia Ib Hne) as [H|H]; [left|right]; apply in_or_app; right; exact H.
Qed.

(* ---------------- two leaves with the same label give the same covered canonical graph ---------------- *)
Section SameLabel.
Variable g : graph.
Hypothesis Hg : wf g.
Hypothesis Eg : els_ok g.

Lemma attr_el_ok v : el_ok (el (attr_of g v)).
Proof.
  unfold attr_of, label. destruct (assoc v (gnodes g)) as [a|] eqn:E; [|reflexivity].
  apply assoc_in in E. apply (Eg (v, a)). exact E.
Qed.

Lemma wf_adj a b x : In (a, b, x) (gedges g) -> adj g a b = Some x.
Proof.
  intros I. destruct Hg as (_ & _ & Hu). apply in_split in I. destruct I as (l1 & l2 & E).
  destruct (Hu _ _ _ _ _ E) as [N1 _]. unfold adj. rewrite E, find_edge_app, N1. simpl.
  rewrite !N.eqb_refl. reflexivity.
Qed.

Definition zrel (p p' : list N) : Prop :=
  (forall a a', In (a, a') (combine p p') -> ncov (attr_of g a) = ncov (attr_of g a')) /\
  (forall a a' b b', In (a, a') (combine p p') -> In (b, b') (combine p p') -> a <> b ->
     option_map ecov (adj g a b) = option_map ecov (adj g a' b')).

Lemma label_zrel p p' : length p = length p' -> nlabel g p = nlabel g p' -> zrel p p'.
Proof.
  intros Hl E. destruct (nlabel_inj g g p p' Hl (fun v _ => attr_el_ok v) (fun v _ => attr_el_ok v) E) as [E1 E2]. split.
  - intros a a' I. exact (map_eq_combine _ _ _ _ E1 a a' I).
  - intros a a' b b' Ia Ib Hne. destruct (pairs_combine p p' Hl a a' b b' Ia Ib Hne) as [H|H].
    + exact (map_eq_combine _ _ _ _ E2 _ _ H).
    + pose proof (map_eq_combine _ _ _ _ E2 _ _ H) as H'. cbn [fst snd] in H'.
      rewrite (adj_sym g a b), (adj_sym g a' b'). exact H'.
Qed.

Lemma half p p' : Permutation p (node_ids g) -> Permutation p' (node_ids g) -> zrel p p' ->
  (forall c, In c (cov_nodes (relabel (ix p) g)) -> In c (cov_nodes (relabel (ix p') g))) /\
  (forall c, In c (cov_edges (relabel (ix p) g)) -> In c (cov_edges (relabel (ix p') g))).
Proof.
  intros Hp Hp' [Z1 Z2].
  pose proof (proj1 Hg) as Hnd.
  assert (Hn : NoDup p) by (eapply Permutation_NoDup; [apply Permutation_sym; exact Hp|exact Hnd]).
  assert (Hn' : NoDup p') by (eapply Permutation_NoDup; [apply Permutation_sym; exact Hp'|exact Hnd]).
  assert (Hl : length p = length p') by (rewrite (Permutation_length Hp), (Permutation_length Hp'); reflexivity).
  assert (Hex : forall a, In a (node_ids g) -> exists a', In (a, a') (combine p p') /\ In a' (node_ids g) /\ ix p a = ix p' a').
  { intros a Ia. apply (Permutation_in _ (Permutation_sym Hp)) in Ia. destruct (in_combine_ex p p' a Hl Ia) as (a' & I).
    exists a'. split; auto. split; [apply (Permutation_in _ Hp'); eapply in_combine_r; eauto|apply ix_combine; auto]. }
  split.
  - intros c I. rewrite cov_nodes_relabel in *. apply in_map_iff in I. destruct I as (d & <- & I).
    unfold cov_nodes in I. apply in_map_iff in I. destruct I as ([a att] & <- & I).
    assert (Ia : In a (node_ids g)) by (unfold node_ids; change a with (fst (a, att)); apply in_map; exact I).
    destruct (Hex a Ia) as (a' & Iz & Ia' & Ei).
    unfold node_ids in Ia'. apply in_map_iff in Ia'. destruct Ia' as ([a2 att'] & E2 & I'). cbn [fst] in E2. subst a2.
    apply in_map_iff. exists (covn (a', att')). split.
    + unfold rn, covn. cbn [fst snd]. rewrite <- Ei. f_equal.
      pose proof (Z1 a a' Iz) as H.
      pose proof (attr_of_in g (a, att) Hnd I) as H1. pose proof (attr_of_in g (a', att') Hnd I') as H2.
      cbn [fst snd] in H1, H2. rewrite H1, H2 in H. symmetry. exact H.
    + unfold cov_nodes. apply in_map. exact I'.
  - intros c I. apply in_cov_edges in I. destruct I as (u & v & x & I & ->).
    unfold relabel in I. cbn [gedges] in I. apply in_map_iff in I. destruct I as ([[a b] x0] & E & I). inversion E; subst. clear E.
    destruct Hg as (_ & Hend & _). destruct (Hend _ _ _ I) as (Ia & Ib & Hne).
    destruct (Hex a Ia) as (a' & Iza & Ia' & Eia). destruct (Hex b Ib) as (b' & Izb & Ib' & Eib).
    pose proof (Z2 a a' b b' Iza Izb Hne) as H. rewrite (wf_adj a b x I) in H. cbn [option_map] in H.
    destruct (adj g a' b') as [y|] eqn:Ey; [|discriminate]. cbn [option_map] in H. assert (Hxy : ecov x = ecov y) by congruence.
    unfold adj in Ey. apply find_edge_some in Ey. destruct Ey as (c & d & Ic & Hcd).
    apply in_cov_edges. exists (ix p' c), (ix p' d), y. split.
    + unfold relabel. cbn [gedges]. apply in_map_iff. exists (c, d, y). auto.
    + rewrite Eia, Eib, Hxy. destruct Hcd as [[-> ->]|[-> ->]]; [reflexivity|].
      rewrite N.min_comm, N.max_comm. reflexivity.
Qed.

Theorem same_label_geq_cov p p' : Permutation p (node_ids g) -> Permutation p' (node_ids g) ->
  nlabel g p = nlabel g p' -> geq_cov (relabel (ix p) g) (relabel (ix p') g).
Proof.
  intros Hp Hp' E.
  assert (Hl : length p = length p') by (rewrite (Permutation_length Hp), (Permutation_length Hp'); reflexivity).
  destruct (half p p' Hp Hp' (label_zrel p p' Hl E)) as [A1 A2].
  destruct (half p' p Hp' Hp (label_zrel p' p (eq_sym Hl) (eq_sym E))) as [B1 B2].
  assert (S1 : simple (relabel (ix p) g)).
  { apply simple_relabel; auto. apply inj_on_same. eapply inj_on_perm; [exact Hp|]. apply mapping_of_inj.
    eapply Permutation_NoDup; [apply Permutation_sym; exact Hp|apply Hg]. }
  assert (S2 : simple (relabel (ix p') g)).
  { apply simple_relabel; auto. apply inj_on_same. eapply inj_on_perm; [exact Hp'|]. apply mapping_of_inj.
    eapply Permutation_NoDup; [apply Permutation_sym; exact Hp'|apply Hg]. }
  split; apply NoDup_Permutation.
  - apply (NoDup_map_inv fst). rewrite <- node_ids_cov. apply S1.
  - apply (NoDup_map_inv fst). rewrite <- node_ids_cov. apply S2.
  - intros c. split; auto.
  - apply (NoDup_map_inv fst). apply S1.
  - apply (NoDup_map_inv fst). apply S2.
  - intros c. split; auto.
Qed.
End SameLabel.

(* ---------------- every leaf of the search is a permutation of the node set ---------------- *)
Notation lvs k := (leaves2 _ lexleb (sigN k) (rfuel k) (children k) (sfuel k) (init_partition k) []).
Lemma leaf_perm (k : graph) p : NoDup (node_ids k) -> In p (lvs k) -> Permutation p (node_ids k).
Proof.
  intros Hnd Hin.
  apply (leaves2_perm _ lexleb IRInst.lexleb_total IRInst.lexleb_trans IRInst.lexleb_antisym (sigN k) (rfuel k) (children k)
           (children_perm k) (node_ids k) Hnd _ _ _ _ (init_vpart k)) in Hin; auto.
  split; [constructor|intros x []].
Qed.

(* ---------------- the invariance theorem ---------------- *)
Theorem nauty_invariant g h : wf g -> wf h -> els_ok g -> iso_cov g h ->
  geq_cov (canon_nauty g) (canon_nauty h) /\ serialise (canon_nauty g) = serialise (canon_nauty h).
Proof.
  intros Hg Hh Eg (f & Hf & Hq0).
  set (pi := extend f (node_ids g)).
  assert (pi_inj : forall x y, pi x = pi y -> x = y) by (apply extend_inj; exact Hf).
  assert (Hq : geq_cov (relabel pi g) h).
  { rewrite (relabel_ext_on pi f g Hg); auto. intros x I. apply extend_on. exact I. }
  pose proof (proj1 Hg) as Ng. pose proof (proj1 Hh) as Nh.
  destruct (nauty_perm_leaf g Ng) as [Lp Ep]. destruct (nauty_perm_leaf h Nh) as [Lq Eq].
  pose proof (nauty_label_rel pi pi_inj g h Hg Hq) as El. rewrite Ep, Eq in El. inversion El as [El'].
  (* the best leaf of h is the image of a leaf of g *)
  pose proof (leaves_rel pi pi_inj g h Hg Hq) as HL.
  apply (Permutation_in _ (Permutation_sym HL)) in Lq. apply in_map_iff in Lq. destruct Lq as (p' & Eq' & Lp').
  set (p := nauty_perm g) in *. set (q := nauty_perm h) in *.
  assert (Elab : nlabel g p = nlabel g p') by (rewrite <- El', <- Eq'; apply (nlabel_rel pi pi_inj g h Hg Hq)).
  pose proof (leaf_perm g p Ng Lp) as Pp. pose proof (leaf_perm g p' Ng Lp') as Pp'.
  assert (C : geq_cov (canon_nauty g) (canon_nauty h)).
  { unfold canon_nauty. fold p q.
    eapply geq_cov_trans; [apply (same_label_geq_cov g Hg Eg p p' Pp Pp' Elab)|].
    apply geq_cov_sym.
    eapply geq_cov_trans; [apply relabel_geq_cov; apply geq_cov_sym; exact Hq|].
    rewrite relabel_compose. rewrite (relabel_ext_on _ (ix p') g Hg); [apply geq_cov_refl|].
    intros x _. rewrite <- Eq'. apply ix_map. exact pi_inj. }
  split; [exact C|].
  apply serialise_geq_cov; [|exact C].
  unfold canon_nauty. apply simple_relabel; auto.
  apply inj_on_same. eapply inj_on_perm; [exact Pp|]. apply mapping_of_inj.
  eapply Permutation_NoDup; [apply Permutation_sym; exact Pp|exact Ng].
Qed.

Theorem signature_invariant_nauty (D : Type) (digest : str -> D) g h : wf g -> wf h -> els_ok g -> iso_cov g h ->
  geq_cov (canon_nauty g) (canon_nauty h) /\ digest (serialise (canon_nauty g)) = digest (serialise (canon_nauty h)).
Proof. intros Hg Hh Eg Hi. destruct (nauty_invariant g h Hg Hh Eg Hi) as [H1 H2]. split; auto. f_equal. exact H2. Qed.

(* the signature is a function of the graph, nauty: special case f = identity *)
Theorem signature_function_nauty (D : Type) (digest : str -> D) g h : wf g -> wf h -> els_ok g -> geq_cov g h ->
  digest (serialise (canon_nauty g)) = digest (serialise (canon_nauty h)).
Proof.
  intros Hg Hh Eg Hq. apply (signature_invariant_nauty D digest g h); auto.
  exists (fun x => x). split; [intros x y _ _ E; exact E|].
  rewrite (relabel_id_on (fun x => x) g Hg); auto.
Qed.

(* non-vacuity: so_h (C08_Sound.v) is so_g renumbered 7->2, 5->9, 3->1, re-inserted, one edge flipped *)
Ltac wf_small :=
  split; [repeat constructor; simpl; intuition discriminate|]; split;
  [ intros a b x I; simpl in I; repeat (destruct I as [I|I]; [inversion I; subst; simpl; intuition discriminate|]); contradiction
  | intros l1 a b x l2 E; destruct l1 as [|e1 [|e2 [|e3 l1]]]; simpl in E; inversion E; subst; simpl; auto ].
Definition so_f (x : N) : N := if N.eqb x 7 then 2%N else if N.eqb x 5 then 9%N else 1%N.
Example inv_ex : wf so_g /\ wf so_h /\ els_ok so_g /\ iso_cov so_g so_h /\ gnodes (canon_nauty so_g) <> gnodes (canon_nauty so_h).
Proof.
  split; [wf_small|]. split; [wf_small|]. split; [apply so_ex|]. split.
  - exists so_f. split.
    + intros x y Hx Hy. simpl in Hx, Hy.
      destruct Hx as [<-|[<-|[<-|[]]]], Hy as [<-|[<-|[<-|[]]]]; vm_compute; intros E; try reflexivity; discriminate.
    + split; vm_compute; apply perm_swap.
  - vm_compute. discriminate.
Qed.

Print Assumptions nauty_invariant.
Print Assumptions signature_function_nauty.
