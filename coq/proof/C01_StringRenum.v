(** C01 — renumbering the atom maps of a reaction commutes with the string half of the model *)
From Coq Require Import List NArith ZArith Bool Lia Arith.
From SK Require Import lib.LGraph lib.C01_GraphLemmas model.C01_Model model.C02_Model model.C01_String model.C01_Renum
  proof.C01_Proof proof.C01_StringProof proof.C01_StringPipe.
Import ListNotations.
Local Open Scope Z_scope.

Section Renum.
Variable f : N -> N.
Hypothesis Hinj : forall a b, f a = f b -> a = b.
Hypothesis Hnz : forall a, a <> 0%N -> f a <> 0%N.

Lemma is_mapped_renum a : is_mapped (renum_atom f a) = is_mapped a.
Proof.
  unfold is_mapped, renum_atom. cbn [ra_map]. destruct (N.eqb_spec (ra_map a) 0) as [E|E]; [reflexivity|].
  destruct (N.eqb_spec (f (ra_map a)) 0) as [F|F]; [exfalso; exact (Hnz _ E F)|reflexivity].
Qed.

Lemma ra_map_renum a : is_mapped a = true -> ra_map (renum_atom f a) = f (ra_map a).
Proof. unfold is_mapped, renum_atom. cbn [ra_map]. destruct (N.eqb (ra_map a) 0); [discriminate|reflexivity]. Qed.

Definition renode (p : N * gnode) : N * gnode :=
  (f (fst p), let a := snd p in GN (g_el a) (g_arom a) (g_hc a) (g_ch a) (g_nb a) (Z.of_N (f (fst p)))).

Lemma mapped_nodes_renum (m : rmol) : mapped_nodes (renum_mol f m) = map renode (mapped_nodes m).
Proof.
  unfold mapped_nodes, renum_mol. cbn [rm_atoms]. induction (rm_atoms m) as [|a l IH]; [reflexivity|].
  cbn [map flat_map]. rewrite is_mapped_renum, IH, map_app. f_equal.
  destruct (is_mapped a) eqn:M; [|reflexivity]. cbn [map]. unfold renode. cbn [fst snd].
  rewrite (ra_map_renum a M). unfold atom_node. rewrite (ra_map_renum a M). reflexivity.
Qed.

Lemma enumerate_map {X Y} (g : X -> Y) (l : list X) :
  enumerate (map g l) = map (fun q => (fst q, g (snd q))) (enumerate l).
Proof.
  unfold enumerate. rewrite map_length. generalize 0%nat. induction l as [|x l IH]; intros s; [reflexivity|].
  cbn [length seq combine map]. rewrite IH. reflexivity.
Qed.

Lemma mapped_ix_renum (m : rmol) : mapped_ix (renum_mol f m) = map (fun q => (fst q, f (snd q))) (mapped_ix m).
Proof.
  unfold mapped_ix, renum_mol. cbn [rm_atoms]. rewrite enumerate_map.
  induction (enumerate (rm_atoms m)) as [|[i a] l IH]; [reflexivity|].
  cbn [map flat_map fst snd]. rewrite is_mapped_renum, IH, map_app. f_equal.
  destruct (is_mapped a) eqn:M; [|reflexivity]. cbn [map fst snd]. rewrite (ra_map_renum a M). reflexivity.
Qed.

Lemma lookup_idx_map i (ix : list (nat * N)) :
  lookup_idx i (map (fun q => (fst q, f (snd q))) ix) = option_map f (lookup_idx i ix).
Proof.
  induction ix as [|[j n] r IH]; [reflexivity|]. cbn [map lookup_idx fst snd]. destruct (Nat.eqb i j); [reflexivity|exact IH].
Qed.

Lemma mapped_bonds_renum (m : rmol) :
  mapped_bonds (renum_mol f m) = map (fun e : N * N * Z => let '(a, b, x) := e in (f a, f b, x)) (mapped_bonds m).
Proof.
  unfold mapped_bonds. rewrite mapped_ix_renum. cbn [renum_mol rm_bonds].
  induction (rm_bonds m) as [|[[i j] o] l IH]; [reflexivity|].
  cbn [flat_map fst snd]. rewrite !lookup_idx_map, IH, map_app. f_equal.
  destruct (lookup_idx i (mapped_ix m)); [|reflexivity]. destruct (lookup_idx j (mapped_ix m)); reflexivity.
Qed.

(** the molecule graph of the renumbered molecule is the renumbered molecule graph (atom_map follows the node id) *)
Theorem graph_of_renum (m : rmol) : graph_of (renum_mol f m) = set_amap (relabel f (graph_of m)).
Proof.
  unfold graph_of, set_amap, relabel. cbn [gnodes gedges]. rewrite mapped_nodes_renum, mapped_bonds_renum. f_equal.
  rewrite map_map. apply map_ext. intros [n a]. reflexivity.
Qed.

(** ITSGraph only reads atom_map to copy it: on graphs whose atom_map is the node id it yields an ITS with the same *)
Lemma label_set_amap (g : mgraph) n :
  label (set_amap g) n = option_map (fun a => GN (g_el a) (g_arom a) (g_hc a) (g_ch a) (g_nb a) (Z.of_N n)) (label g n).
Proof.
  unfold label, set_amap. cbn [gnodes].
  apply (assoc_map_val (fun k (a : gnode) => GN (g_el a) (g_arom a) (g_hc a) (g_ch a) (g_nb a) (Z.of_N k))).
Qed.

Lemma side_tuple_set_amap (g : mgraph) n : side_tuple (set_amap g) n = side_tuple g n.
Proof. unfold side_tuple. rewrite label_set_amap. destruct (label g n); reflexivity. Qed.

Lemma has_node_set_amap (g : mgraph) n : has_node (set_amap g) n = has_node g n.
Proof. unfold has_node. rewrite label_set_amap. destruct (label g n); reflexivity. Qed.

Lemma construct_set_amap (G H : mgraph) : its_construct (set_amap G) (set_amap H) = set_iamap (its_construct G H).
Proof.
  unfold its_construct, set_iamap. cbn [gnodes gedges].
  assert (base_is_G (set_amap G) (set_amap H) = base_is_G G H) as ->
    by (unfold base_is_G, set_amap; cbn [gnodes]; rewrite !map_length; reflexivity).
  f_equal.
  assert (forall X Y : mgraph,
      map (fun p => (fst p, its_node (set_amap G) (set_amap H) (fst p) (g_amap (snd p))))
          (gnodes (set_amap X) ++ filter (fun p => negb (has_node (set_amap X) (fst p))) (gnodes (set_amap Y))) =
      map (fun p => (fst p, let a := snd p in IN (i_el a) (i_ch a) (Z.of_N (fst p)) (i_extra a) (i_G a) (i_H a)))
          (map (fun p => (fst p, its_node G H (fst p) (g_amap (snd p))))
               (gnodes X ++ filter (fun p => negb (has_node X (fst p))) (gnodes Y)))) as E.
    { intros X Y.
      set (sa := fun p : N * gnode => (fst p, let a := snd p in GN (g_el a) (g_arom a) (g_hc a) (g_ch a) (g_nb a) (Z.of_N (fst p)))).
      change (gnodes (set_amap X)) with (map sa (gnodes X)). change (gnodes (set_amap Y)) with (map sa (gnodes Y)).
      rewrite (filter_map_comm sa (fun p => negb (has_node X (fst p)))).
      - rewrite <- map_app, !map_map. apply map_ext. intros [k a]. cbn [fst snd sa].
        unfold its_node. rewrite !side_tuple_set_amap. reflexivity.
      - intros [k a]. cbn [fst snd sa]. rewrite has_node_set_amap. reflexivity. }
  destruct (base_is_G G H); apply E.
Qed.
End Renum.

(** C01_renumber: renumbering the atom maps of both sides of a reaction by an injective map (non-zero maps stay non-zero)
    yields the renumbered ITS *)
Theorem renumber (f : N -> N) : (forall a b, f a = f b -> a = b) -> (forall a, a <> 0%N -> f a <> 0%N) ->
  forall mr mp : rmol,
  graph_of (renum_mol f mr) = set_amap (relabel f (graph_of mr)) /\
  its_construct (graph_of (renum_mol f mr)) (graph_of (renum_mol f mp)) =
    set_iamap (relabel f (its_construct (graph_of mr) (graph_of mp))).
Proof.
  intros Hinj Hnz mr mp. split; [apply graph_of_renum; assumption|].
  rewrite !(graph_of_renum f Hnz), construct_set_amap, (construct_equivariant f Hinj). reflexivity.
Qed.

(** non-vacuity: shifting the maps of CH3Br + OH- by 10 *)
Example C01_renumber_nonvacuous :
  node_ids (graph_of (renum_mol (N.add 10) C01_StringPipe.ex_mr)) = [11; 12; 13]%N /\
  length (rm_atoms (renum_mol (N.add 10) C01_StringPipe.ex_mr)) = 4%nat /\
  node_ids (its_construct (graph_of (renum_mol (N.add 10) C01_StringPipe.ex_mr)) (graph_of (renum_mol (N.add 10) C01_StringPipe.ex_mp))) = [11; 12; 13]%N /\
  option_map i_amap (label (its_construct (graph_of (renum_mol (N.add 10) C01_StringPipe.ex_mr)) (graph_of (renum_mol (N.add 10) C01_StringPipe.ex_mp))) 12%N) = Some 12.
Proof. repeat split. Qed.
