(** C11 (round 5) — the safe region of deduplicate_matches_with_anchor (DESIGN section 5, "C11_prune_sound_exact_orbits_
    singletons"): when every prepared free orbit has at most one member, the signature of a match determines the match on
    all covered pattern nodes, so the function drops nothing but duplicates (same items as a kept match).  Outside this
    region it merges matches that no symmetry of the pattern relates - a concrete witness on the path a-b-c-d with its
    exact orbits (this is why the reactor prunes by rule automorphisms since fix aa7fe3c, and why PartialMatcher's
    prune_auto is documented as approximate).  Stdlib lists. *)
From Coq Require Import List NArith ZArith Bool Arith Lia.
From SK Require Import lib.Tok lib.LGraph lib.Mono model.C11_Model proof.C11_Aut proof.C11_Dedup proof.C11_Sig.
Import ListNotations.

(** ---------- every match is represented by a kept match with the same signature ---------- *)
Lemma dedup_sig_go_repr {X} (key : X -> mapping) (sg : mapping -> option sig) xs :
  forall seen out, dedup_sig_go key sg xs seen = Some out ->
  forall x, In x xs -> exists s, sg (key x) = Some s /\ (In s seen \/ exists y, In y out /\ sg (key y) = Some s).
Proof.
  induction xs as [|h r IH]; intros seen out H x Hx; [destruct Hx|].
  simpl in H. destruct (sg (key h)) as [s|] eqn:Es; [|discriminate].
  destruct (existsb (sig_eqb s) seen) eqn:Eseen.
  - destruct Hx as [<-|Hx]; [|exact (IH seen out H x Hx)].
    exists s. split; [exact Es|]. left. apply seen_spec. exact Eseen.
  - destruct (dedup_sig_go key sg r (s :: seen)) as [o|] eqn:Eo; [|discriminate]. inversion H; subst out.
    destruct Hx as [<-|Hx].
    + exists s. split; [exact Es|]. right. exists h. split; [left; reflexivity | exact Es].
    + destruct (IH (s :: seen) o Eo x Hx) as (s' & Es' & [[<-|Hin]|(y & Hy & Ey)]).
      * exists s. split; [exact Es'|]. right. exists h. split; [left; reflexivity | exact Es].
      * exists s'. split; [exact Es'|]. left. exact Hin.
      * exists s'. split; [exact Es'|]. right. exists y. split; [right; exact Hy | exact Ey].
Qed.

(** ---------- signatures over orbits with at most one member ---------- *)
Definition part_of (m : mapping) (p : N) : list (list N * list N) :=
  match assoc p m with Some h => [([p], [h])] | None => [] end.

Lemma free_sig_small m free :
  (forall o, In o free -> (length o <= 1)%nat) ->
  free_sig_pattern m free None = Some (flat_map (part_of m) (concat free)).
Proof.
  induction free as [|o r IH]; intros H; [reflexivity|].
  assert (Hr : forall o', In o' r -> (length o' <= 1)%nat) by (intros o' Ho'; apply H; right; exact Ho').
  specialize (IH Hr). pose proof (H o (or_introl eq_refl)) as Ho.
  destruct o as [|p [|q o']]; [| |simpl in Ho; lia].
  - simpl. exact IH.
  - simpl. unfold part_of at 1. destruct (assoc p m) as [h|] eqn:E; simpl.
    + rewrite E. simpl. rewrite IH. reflexivity.
    + exact IH.
Qed.

Lemma parts_in m ps e : In e (flat_map (part_of m) ps) -> exists q, In q ps /\ fst e = [q].
Proof.
  intros H. apply in_flat_map in H. destruct H as (q & Hq & He). exists q. split; [exact Hq|].
  unfold part_of in He. destruct (assoc q m); [|destruct He]. destruct He as [<-|[]]. reflexivity.
Qed.

Lemma parts_inj m m' ps : NoDup ps ->
  flat_map (part_of m) ps = flat_map (part_of m') ps -> forall p, In p ps -> assoc p m = assoc p m'.
Proof.
  induction 1 as [|a r Ha Hnd IH]; intros E p Hp; [destruct Hp|].
  simpl in E.
  assert (Hhead : forall mm e, In e (flat_map (part_of mm) r) -> fst e <> [a]).
  { intros mm e He Hfa. destruct (parts_in mm r e He) as (q & Hq & Hfq). rewrite Hfa in Hfq. inversion Hfq; subst. contradiction. }
  unfold part_of at 1 3 in E.
  destruct (assoc a m) as [h|] eqn:E1; destruct (assoc a m') as [h'|] eqn:E2; simpl in E.
  - inversion E as [[Eh Et]]. destruct Hp as [<-|Hp]; [congruence | exact (IH Et p Hp)].
  - exfalso. apply (Hhead m' ([a], [h])); [rewrite <- E; left; reflexivity | reflexivity].
  - exfalso. apply (Hhead m ([a], [h'])); [rewrite E; left; reflexivity | reflexivity].
  - destruct Hp as [<-|Hp]; [congruence | exact (IH E p Hp)].
Qed.

Lemma anchor_sig_inj m m' ps : NoDup ps ->
  anchor_sig m ps = anchor_sig m' ps -> forall p, In p ps -> assoc p m = assoc p m'.
Proof.
  unfold anchor_sig. induction 1 as [|a r Ha Hnd IH]; intros E p Hp; [destruct Hp|].
  simpl in E.
  assert (Hhead : forall (mm : mapping) (e : N * N), In e (flat_map (fun p => match assoc p mm with Some h => [(p, h)] | None => [] end) r) -> fst e <> a).
  { intros mm e He Hfa. apply in_flat_map in He. destruct He as (q & Hq & He).
    destruct (assoc q mm); [|destruct He]. destruct He as [<-|[]]. simpl in Hfa. subst q. contradiction. }
  destruct (assoc a m) as [h|] eqn:E1; destruct (assoc a m') as [h'|] eqn:E2; simpl in E.
  - inversion E as [[Eh Et]]. destruct Hp as [<-|Hp]; [congruence | exact (IH Et p Hp)].
  - exfalso. apply (Hhead m' (a, h)); [rewrite <- E; left; reflexivity | reflexivity].
  - exfalso. apply (Hhead m (a, h')); [rewrite E; left; reflexivity | reflexivity].
  - destruct Hp as [<-|Hp]; [congruence | exact (IH E p Hp)].
Qed.

Lemma ssorted_nodup l : ssorted l -> NoDup l.
Proof.
  induction l as [|x r IH]; simpl; [constructor|]. intros [Hx Hr]. constructor; [|exact (IH Hr)].
  intros Hin. specialize (Hx x Hin). lia.
Qed.

(** equal lookups on all keys of both dictionaries = same items *)
Lemma same_lookups_same_items (m m' : mapping) (cov : N -> Prop) :
  NoDup (map fst m) -> NoDup (map fst m') ->
  (forall p h, In (p, h) m -> cov p) -> (forall p h, In (p, h) m' -> cov p) ->
  (forall p, cov p -> assoc p m = assoc p m') ->
  forall ph, In ph m <-> In ph m'.
Proof.
  intros N1 N2 C1 C2 H [p h]. split; intros Hin.
  - apply assoc_in. rewrite <- (H p (C1 p h Hin)). apply assoc_nodup_in; assumption.
  - apply assoc_in. rewrite (H p (C2 p h Hin)). apply assoc_nodup_in; assumption.
Qed.

Lemma signature_small_inj (free : list (list N)) (anchored : list N) (m m' : mapping) (s : sig) :
  (forall o, In o free -> (length o <= 1)%nat) -> NoDup (concat free) -> NoDup anchored ->
  NoDup (map fst m) -> NoDup (map fst m') ->
  (forall p h, In (p, h) m -> In p (concat free) \/ In p anchored) ->
  (forall p h, In (p, h) m' -> In p (concat free) \/ In p anchored) ->
  signature (match free, anchored with [], [] => false | _, _ => true end) free anchored None m = Some s ->
  signature (match free, anchored with [], [] => false | _, _ => true end) free anchored None m' = Some s ->
  forall ph, In ph m <-> In ph m'.
Proof.
  intros Hsmall Hnd Hanch Nx Ny Cx Cy Es Ey.
  destruct (match free, anchored with [], [] => false | _, _ => true end) eqn:Eu.
  - unfold signature in Es, Ey.
    rewrite (free_sig_small m free Hsmall) in Es. rewrite (free_sig_small m' free Hsmall) in Ey.
    inversion Es as [Es']. inversion Ey as [Ey'']. rewrite <- Ey'' in Es'. inversion Es' as [[Ef Ea]].
    apply (same_lookups_same_items m m' (fun p => In p (concat free) \/ In p anchored)); try assumption.
    intros p [Hp|Hp].
    + exact (parts_inj m m' (concat free) Hnd Ef p Hp).
    + exact (anchor_sig_inj m m' anchored Hanch Ea p Hp).
  - assert (free = [] /\ anchored = []) as [-> ->].
    { destruct free; destruct anchored; try discriminate. split; reflexivity. }
    assert (Ex : m = []).
    { destruct m as [|[p h] r]; [reflexivity|]. destruct (Cx p h (or_introl eq_refl)) as [[]|[]]. }
    assert (Ey' : m' = []).
    { destruct m' as [|[p h] r]; [reflexivity|]. destruct (Cy p h (or_introl eq_refl)) as [[]|[]]. }
    rewrite Ex, Ey'. tauto.
Qed.

Theorem dedup_singletons_sound (X : Type) (key : X -> mapping) (xs : list X) (porbs : list (list N)) (anchor : list N)
        (out : list X) :
  let free := fst (prepare (Some porbs) anchor) in
  let anchored := snd (prepare (Some porbs) anchor) in
  (forall o, In o free -> (length o <= 1)%nat) ->
  NoDup (concat free) ->
  (forall x, In x xs -> NoDup (map fst (key x)) /\
                        forall p h, In (p, h) (key x) -> In p (concat free) \/ In p anchored) ->
  dedup_anchor key xs (Some porbs) anchor None = Some out ->
  forall x, In x xs -> exists y, In y out /\ forall ph, In ph (key x) <-> In ph (key y).
Proof.
  intros free anchored Hsmall Hnd Hcov H x Hx.
  pose proof (proj1 (dedup_sublist_all X key xs) (Some porbs) anchor None out H) as Hsub.
  rewrite dedup_anchor_sig in H.
  destruct (dedup_sig_go_repr key (anchor_signature (Some porbs) anchor None) xs [] out H x Hx)
    as (s & Es & [[]|(y & Hy & Ey)]).
  exists y. split; [exact Hy|].
  assert (Hyin : In y xs) by exact (subseq_in out xs y Hsub Hy).
  destruct (Hcov x Hx) as [Nx Cx]. destruct (Hcov y Hyin) as [Ny Cy].
  assert (Hanch : NoDup anchored).
  { unfold anchored. simpl. apply ssorted_nodup, canonN_ssorted. }
  unfold anchor_signature in Es, Ey.
  assert (Eprep : prepare (Some porbs) anchor = (free, anchored)) by (unfold free, anchored; destruct (prepare _ _); reflexivity).
  rewrite Eprep in Es, Ey.
  exact (signature_small_inj free anchored (key x) (key y) s Hsmall Hnd Hanch Nx Ny Cx Cy Es Ey).
Qed.

(** ---------- outside the safe region: unrelated matches are merged ---------- *)
(** the path a-b-c-d (ids 1-2-3-4), all atoms alike: exact orbits {1,4}, {2,3}, the only symmetry is the mirror.  The
    matches m = (1,2,3,4) -> (11,12,13,14) and m' = (1,2,3,4) -> (14,12,13,11) hit the same image set in every orbit, so
    the second is dropped - but no automorphism of the pattern turns one into the other (b and c stay, a and d swap). *)
Definition ex_p4 : graph :=
  LG [(1%N, (0%N, 0%N, 0%N)); (2%N, (0%N, 0%N, 0%N)); (3%N, (0%N, 0%N, 0%N)); (4%N, (0%N, 0%N, 0%N))]
     [(1%N, 2%N, (0%N, 0%N)); (2%N, 3%N, (0%N, 0%N)); (3%N, 4%N, (0%N, 0%N))].
Definition ex_m1 : mapping := [(1, 11); (2, 12); (3, 13); (4, 14)]%N.
Definition ex_m2 : mapping := [(1, 14); (2, 12); (3, 13); (4, 11)]%N.

Theorem dedup_orbit_sets_merge_unrelated :
  let O := a_orbits (analyze n_exact e_order ex_p4) in
  wfb ex_p4 = true /\ O = [[2; 3]; [1; 4]]%N /\
  dedup_anchor (fun m : mapping => m) [ex_m1; ex_m2] (Some O) [] None = Some [ex_m1] /\
  length (auts n_exact e_order ex_p4) = 2%nat /\
  (forall s, In s (auts n_exact e_order ex_p4) -> set_eqb ex_m2 (act s ex_m1) = false) /\
  set_eqb ex_m2 ex_m1 = false.
Proof.
  split; [vm_compute; reflexivity|]. split; [vm_compute; reflexivity|]. split; [vm_compute; reflexivity|].
  split; [vm_compute; reflexivity|]. split; [|vm_compute; reflexivity].
  intros s Hs. vm_compute in Hs. destruct Hs as [<-|[<-|[]]]; vm_compute; reflexivity.
Qed.

(** non-vacuity of the safe region: the same pattern with one atom relabelled (no symmetry left: every orbit a singleton) -
    both matches are kept, and the premises of the theorem hold *)
Definition ex_p4o : graph :=
  LG [(1%N, (7%N, 7%N, 7%N)); (2%N, (0%N, 0%N, 0%N)); (3%N, (0%N, 0%N, 0%N)); (4%N, (0%N, 0%N, 0%N))]
     [(1%N, 2%N, (0%N, 0%N)); (2%N, 3%N, (0%N, 0%N)); (3%N, 4%N, (0%N, 0%N))].
Example ex_singletons :
  let O := a_orbits (analyze n_exact e_order ex_p4o) in
  O = [[1]; [2]; [3]; [4]]%N /\
  prepare (Some O) [] = ([[1]; [2]; [3]; [4]]%N, []) /\
  dedup_anchor (fun m : mapping => m) [ex_m1; ex_m2; ex_m1] (Some O) [] None = Some [ex_m1; ex_m2].
Proof. vm_compute. repeat split. Qed.
