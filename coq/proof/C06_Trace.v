(** C06 — the trace of VF2 calls: how much of an enumeration a loop consumes (closed form), the items
    that were not pulled do not influence the result, every call is on parts of the two graphs and
    pulls at most threshold + 1 items. *)
From Coq Require Import List NArith Bool Arith Lia.
From SK Require Import lib.LGraph lib.Mono lib.Reach model.C06_Model model.C06_Attrs model.C06_Trace proof.C06_Attrs.
Import ListNotations.

Lemma lenN_cons {X} (x : X) l : lenN (x :: l) = N.succ (lenN l).
Proof. unfold lenN. simpl length. apply Nat2N.inj_succ. Qed.

Lemma capped_spec cap n : capped cap n = true <-> (0 < cap /\ cap <= n)%N.
Proof. unfold capped. rewrite andb_true_iff, N.ltb_lt, N.leb_le. reflexivity. Qed.

(** closed form of the consumption of one iterator *)
Lemma loop_n_closed cap thr it : forall n,
  loop_n cap thr it n =
  N.min (n + lenN it) (N.min (if (cap =? 0)%N then n + lenN it else N.max (n + 1) cap) (N.max (n + 1) (thr + 1))).
Proof.
  induction it as [|m it IH]; intros n.
  - simpl. change (lenN (@nil mapping)) with 0%N. destruct (cap =? 0)%N; lia.
  - cbn [loop_n]. rewrite lenN_cons.
    destruct (capped cap (N.succ n)) eqn:Ec.
    + apply capped_spec in Ec. destruct (N.eqb_spec cap 0); lia.
    + destruct (N.ltb_spec thr (N.succ n)) as [Ht|Ht].
      * destruct (N.eqb_spec cap 0); lia.
      * rewrite IH.
        assert (Hc : (cap = 0 \/ N.succ n < cap)%N).
        { destruct (N.eq_dec cap 0) as [->|Hne]; [left; reflexivity|right].
          destruct (N.lt_ge_cases (N.succ n) cap) as [L|L]; [exact L|].
          exfalso. assert (capped cap (N.succ n) = true) by (apply capped_spec; lia). congruence. }
        destruct (N.eqb_spec cap 0); lia.
Qed.

Theorem pulled_closed cap thr it :
  loop_n cap thr it 0 = N.min (lenN it) (N.min (if (cap =? 0)%N then lenN it else cap) (thr + 1)).
Proof. rewrite loop_n_closed. destruct (N.eqb_spec cap 0); lia. Qed.

Lemma loop_n_ge cap thr it n : (n <= loop_n cap thr it n)%N.
Proof. rewrite loop_n_closed. destruct (cap =? 0)%N; lia. Qed.

Lemma loop_n_le cap thr it n : (loop_n cap thr it n <= n + lenN it)%N.
Proof. rewrite loop_n_closed. lia. Qed.

(** the exhaustive loop depends on its iterator only through the items it pulled *)
Lemma all_loop_pulled maxr thr it : forall acc n,
  all_loop maxr thr it acc n =
  all_loop maxr thr (firstn (N.to_nat (loop_n maxr thr it n - n)) it) acc n.
Proof.
  induction it as [|m it IH]; intros acc n.
  - rewrite firstn_nil. reflexivity.
  - cbn [loop_n all_loop].
    destruct (capped maxr (N.succ n)) eqn:Ec.
    + replace (N.to_nat (N.succ n - n)) with 1%nat by lia. cbn [firstn all_loop]. rewrite Ec. reflexivity.
    + destruct (thr <? N.succ n)%N eqn:Et.
      * replace (N.to_nat (N.succ n - n)) with 1%nat by lia. cbn [firstn all_loop]. rewrite Ec, Et. reflexivity.
      * pose proof (loop_n_ge maxr thr it (N.succ n)) as Hge.
        replace (N.to_nat (loop_n maxr thr it (N.succ n) - n))
          with (S (N.to_nat (loop_n maxr thr it (N.succ n) - N.succ n))) by lia.
        cbn [firstn all_loop]. rewrite Ec, Et. apply IH.
Qed.

Theorem find_all_pulled enum maxr thr (H P : graph) :
  find_all enum maxr thr H P =
  all_loop maxr thr (firstn (N.to_nat (loop_n maxr thr (enum (node_ids H) (node_ids P)) 0)) (enum (node_ids H) (node_ids P))) [] 0%N.
Proof.
  unfold find_all. rewrite (all_loop_pulled maxr thr _ [] 0%N). rewrite N.sub_0_r. reflexivity.
Qed.

(** ---------- every call of the trace ---------- *)
Section Calls.
Variable enum : list N -> list N -> list mapping.

Definition call_ok (H P : graph) (thr : N) (c : call) : Prop :=
  let '(hn, pn, k) := c in
  incl hn (node_ids H) /\ incl pn (node_ids P) /\ (k <= lenN (enum hn pn))%N /\ (k <= thr + 1)%N.

Lemma pulled_bound cap thr it n : (loop_n cap thr it n - n <= lenN it)%N /\ (loop_n cap thr it n - n <= thr + 1)%N.
Proof. rewrite loop_n_closed. destruct (cap =? 0)%N; lia. Qed.

Lemma trace_all_ok maxr thr H P c : In c (trace_all enum maxr thr H P) -> call_ok H P thr c.
Proof.
  intros [<-|[]]. unfold call_ok. split; [apply incl_refl|split; [apply incl_refl|]].
  pose proof (pulled_bound maxr thr (enum (node_ids H) (node_ids P)) 0) as [A B].
  rewrite N.sub_0_r in A, B. split; assumption.
Qed.

Lemma cc_outer_calls_ok cap thr H P pc : incl pc (node_ids P) -> forall cands n c,
  (forall ih, In ih cands -> incl (snd ih) (node_ids H)) ->
  In c (cc_outer_calls enum cap thr pc cands n) -> call_ok H P thr c.
Proof.
  intros Hpc. induction cands as [|[i hc] r IH]; intros n c Hc; cbn [cc_outer_calls]; [intros []|].
  intros [<-|Hin].
  - unfold call_ok. split; [exact (Hc (i, hc) (or_introl eq_refl))|split; [exact Hpc|]].
    apply pulled_bound.
  - destruct (capped cap (loop_n cap thr (enum hc pc) n) || (thr <? loop_n cap thr (enum hc pc) n)%N); [destruct Hin|].
    apply (IH (loop_n cap thr (enum hc pc) n) c); [|exact Hin]. intros ih Hi. apply Hc. right. exact Hi.
Qed.

Lemma per_cc_calls_ok cap thr H P hcs : (forall ih, In ih hcs -> incl (snd ih) (node_ids H)) ->
  forall pcs c, (forall pc, In pc pcs -> incl pc (node_ids P)) ->
  In c (per_cc_calls enum cap thr hcs pcs) -> call_ok H P thr c.
Proof.
  intros Hh. induction pcs as [|pc r IH]; intros c Hp; cbn [per_cc_calls]; [intros []|].
  remember (filter (fun ih => length pc <=? length (snd ih)) hcs) as cand eqn:Ecand.
  destruct cand as [|x cand']; [intros []|].
  rewrite in_app_iff. intros [Hin|Hin].
  - apply (cc_outer_calls_ok cap thr H P pc (Hp pc (or_introl eq_refl)) (x :: cand') 0%N c); [|exact Hin].
    intros ih Hi. apply Hh. rewrite Ecand in Hi. apply filter_In in Hi. exact (proj1 Hi).
  - destruct (cc_outer enum cap thr pc (x :: cand') [] 0%N) as [[|y l]|]; try destruct Hin.
    apply IH; [|exact Hin]. intros pc' Hi. apply Hp. right. exact Hi.
Qed.

Lemma trace_comp_ok maxr thr strict H P c : In c (trace_comp enum maxr thr strict H P) -> call_ok H P thr c.
Proof.
  unfold trace_comp.
  destruct (length (comps P) =? 0); [intros []|].
  destruct (length (comps H) <? length (comps P)); [apply trace_all_ok|].
  destruct ((length (comps P) <? length (comps H)) && strict); [intros []|].
  apply per_cc_calls_ok.
  - intros ih Hin. apply comps_incl. exact (index_from_snd _ _ _ Hin).
  - intros pc Hin. apply comps_incl. exact Hin.
Qed.

(** every VF2 call of a search is on parts of the two graphs, and never pulls more than
    threshold + 1 monomorphisms (nor more than the enumeration has) *)
Theorem trace_ok cfg H P c : In c (trace enum cfg H P) -> call_ok H P (c_thr cfg) c.
Proof.
  unfold trace. destruct (c_pref cfg && quick_pre_filter H P (c_thr cfg)); [intros []|].
  destruct (c_strat cfg) as [|[?|?|]]; try apply trace_all_ok; try apply trace_comp_ok;
    unfold trace_bt; rewrite in_app_iff; (intros [Hin|Hin]; [exact (trace_comp_ok _ _ _ _ _ _ Hin)|]);
    (destruct (find_comp enum (c_maxr cfg) (c_thr cfg) (c_strict cfg) H P); [exact (trace_all_ok _ _ _ _ _ Hin)|destruct Hin]).
Qed.
End Calls.
