(** C07 — proofs about model/C07_Model.v (stdlib lists). *)
From Coq Require Import List NArith Bool Arith Lia Permutation.
From SK Require Import lib.LGraph lib.Mono model.C07_Model.
Import ListNotations.

Lemma opt_eqb_refl x : opt_eqb x x = true.
Proof. destruct x; simpl; auto. apply N.eqb_refl. Qed.
