(** C05 — non-vacuity examples for the theorems of props/C05.v (evaluated by vm_compute on concrete graphs taken
    from the implementation's parsing of hand-made cases; intermediate values are named by top-level definitions). *)
From Coq Require Import List NArith ZArith Bool Arith Lia.
From SK Require Import lib.Tok lib.LGraph lib.Mono.
From SK Require model.C06_Model model.C11_Model.
From SK Require Import model.C03_Model model.C05_Model proof.C05_Proof proof.C05_Glue proof.C05_Pipe proof.C05_Prep proof.C05_Comp proof.C05_Main proof.C05_Order proof.C05_Sub proof.C05_Set proof.C05_Result proof.C05_AllStrat proof.C05_PrepOrder proof.C05_Final proof.C05_Default proof.C05_Rewrite proof.C05_Capstone proof.C05_Cap proof.C05_AnyCap proof.C05_Prefilter proof.C05_Enum.
From SK Require Import lib.C06_Spec proof.C06_Comp proof.C06_Main.
Import ListNotations.

(* the cap of these examples: the engine's default (no embed_threshold given) *)
#[local] Instance default_thr : Thr := thr_of None.

(** sz: Suzuki-type rule [C:1][Br:2].[B:3][C:4]>>[C:1][C:4].[B:3][Br:2] applied backwards to CCC(C)C.OB(O)Br (the
    design-time witness of the numbering dependence, implicit-hydrogen mode); mt: metathesis on C=C.C=C; ds: disulfide
    formation on SCCS.CS; hx: halogen exchange on BrCCI (one substrate component, two pattern components). *)
Definition sz_host : hostg := (LG [(1%N, (NA 67%N false (3)%Z (0)%Z [67%N])); (2%N, (NA 67%N false (2)%Z (0)%Z [67%N; 67%N])); (3%N, (NA 67%N false (1)%Z (0)%Z [67%N; 67%N; 67%N])); (4%N, (NA 67%N false (3)%Z (0)%Z [67%N])); (5%N, (NA 67%N false (3)%Z (0)%Z [67%N])); (6%N, (NA 79%N false (1)%Z (0)%Z [66%N])); (7%N, (NA 66%N false (0)%Z (0)%Z [17010%N; 79%N; 79%N])); (8%N, (NA 79%N false (1)%Z (0)%Z [66%N])); (9%N, (NA 17010%N false (0)%Z (0)%Z [66%N]))] [(1%N, 2%N, (2)%Z); (2%N, 3%N, (2)%Z); (3%N, 4%N, (2)%Z); (3%N, 5%N, (2)%Z); (6%N, 7%N, (2)%Z); (7%N, 8%N, (2)%Z); (7%N, 9%N, (2)%Z)]).
Definition sz_tpl : its := (LG [(1%N, IN (NA 67%N false (0)%Z (0)%Z [17010%N]) (NA 67%N false (0)%Z (0)%Z [67%N]) 0%Z None); (4%N, IN (NA 67%N false (0)%Z (0)%Z [66%N]) (NA 67%N false (0)%Z (0)%Z [67%N]) 0%Z None); (2%N, IN (NA 17010%N false (0)%Z (0)%Z [67%N]) (NA 17010%N false (0)%Z (0)%Z [66%N]) 0%Z None); (3%N, IN (NA 66%N false (0)%Z (0)%Z [67%N]) (NA 66%N false (0)%Z (0)%Z [17010%N]) 0%Z None)] [(1%N, 4%N, ((0)%Z, (2)%Z, (-2)%Z)); (1%N, 2%N, ((2)%Z, (0)%Z, (2)%Z)); (4%N, 3%N, ((2)%Z, (0)%Z, (2)%Z)); (2%N, 3%N, ((0)%Z, (2)%Z, (-2)%Z))]).
Definition mt_host : hostg := (LG [(1%N, (NA 67%N false (2)%Z (0)%Z [67%N])); (2%N, (NA 67%N false (2)%Z (0)%Z [67%N])); (3%N, (NA 67%N false (2)%Z (0)%Z [67%N])); (4%N, (NA 67%N false (2)%Z (0)%Z [67%N]))] [(1%N, 2%N, (4)%Z); (3%N, 4%N, (4)%Z)]).
Definition mt_tpl : its := (LG [(1%N, IN (NA 67%N false (2)%Z (0)%Z [67%N]) (NA 67%N false (2)%Z (0)%Z [67%N]) 0%Z None); (3%N, IN (NA 67%N false (2)%Z (0)%Z [67%N]) (NA 67%N false (2)%Z (0)%Z [67%N]) 0%Z None); (2%N, IN (NA 67%N false (2)%Z (0)%Z [67%N]) (NA 67%N false (2)%Z (0)%Z [67%N]) 0%Z None); (4%N, IN (NA 67%N false (2)%Z (0)%Z [67%N]) (NA 67%N false (2)%Z (0)%Z [67%N]) 0%Z None)] [(1%N, 3%N, ((0)%Z, (4)%Z, (-4)%Z)); (1%N, 2%N, ((4)%Z, (0)%Z, (4)%Z)); (3%N, 4%N, ((4)%Z, (0)%Z, (4)%Z)); (2%N, 4%N, ((0)%Z, (4)%Z, (-4)%Z))]).
Definition ds_host : hostg := (LG [(1%N, (NA 83%N false (1)%Z (0)%Z [67%N])); (2%N, (NA 67%N false (2)%Z (0)%Z [67%N; 83%N])); (3%N, (NA 67%N false (2)%Z (0)%Z [67%N; 83%N])); (4%N, (NA 83%N false (1)%Z (0)%Z [67%N])); (5%N, (NA 67%N false (3)%Z (0)%Z [83%N])); (6%N, (NA 83%N false (1)%Z (0)%Z [67%N]))] [(1%N, 2%N, (2)%Z); (2%N, 3%N, (2)%Z); (3%N, 4%N, (2)%Z); (5%N, 6%N, (2)%Z)]).
Definition ds_tpl : its := (LG [(2%N, IN (NA 83%N false (0)%Z (0)%Z [67%N]) (NA 83%N false (0)%Z (0)%Z [67%N; 83%N]) 0%Z None); (4%N, IN (NA 83%N false (0)%Z (0)%Z [67%N]) (NA 83%N false (0)%Z (0)%Z [67%N; 83%N]) 0%Z None)] [(2%N, 4%N, ((0)%Z, (2)%Z, (-2)%Z))]).
Definition hx_host : hostg := (LG [(1%N, (NA 17010%N false (0)%Z (0)%Z [67%N])); (2%N, (NA 67%N false (2)%Z (0)%Z [17010%N; 67%N])); (3%N, (NA 67%N false (2)%Z (0)%Z [67%N; 73%N])); (4%N, (NA 73%N false (0)%Z (0)%Z [67%N]))] [(1%N, 2%N, (2)%Z); (2%N, 3%N, (2)%Z); (3%N, 4%N, (2)%Z)]).
Definition hx_tpl : its := (LG [(1%N, IN (NA 67%N false (0)%Z (0)%Z [17010%N]) (NA 67%N false (0)%Z (0)%Z [73%N]) 0%Z None); (4%N, IN (NA 73%N false (0)%Z (0)%Z [67%N]) (NA 73%N false (0)%Z (0)%Z [67%N]) 0%Z None); (2%N, IN (NA 17010%N false (0)%Z (0)%Z [67%N]) (NA 17010%N false (0)%Z (0)%Z [67%N]) 0%Z None); (3%N, IN (NA 67%N false (0)%Z (0)%Z [73%N]) (NA 67%N false (0)%Z (0)%Z [17010%N]) 0%Z None)] [(1%N, 4%N, ((0)%Z, (2)%Z, (-2)%Z)); (1%N, 2%N, ((2)%Z, (0)%Z, (2)%Z)); (4%N, 3%N, ((2)%Z, (0)%Z, (2)%Z)); (2%N, 3%N, ((0)%Z, (2)%Z, (-2)%Z))]).

Definition dummy : prepared := Prep (LG [] []) (LG [] []) (LG [] []) false (LG [] []).
Definition prep_of (inv : bool) (t : its) : prepared := match prepare inv true t with Some p => p | None => dummy end.
Definition sz_p := prep_of true sz_tpl.
Definition mt_p := prep_of false mt_tpl.
Definition ds_p := prep_of false ds_tpl.
Definition hx_p := prep_of false hx_tpl.

(** the renumbering of the witness: template maps 1,2,3,4 -> 3,1,2,4 (B/Br get the small numbers); substrate reversed *)
Definition sz_sg (n : N) : N := (if n =? 1 then 3 else if n =? 2 then 1 else if n =? 3 then 2 else n)%N.
Definition sz_pi (n : N) : N := (if n <=? 31 then 31 - n else n)%N.

Lemma sz_sg_inj : inj sz_sg.
Proof.
  intros a b. unfold sz_sg.
  destruct (N.eqb_spec a 1), (N.eqb_spec a 2), (N.eqb_spec a 3), (N.eqb_spec b 1), (N.eqb_spec b 2), (N.eqb_spec b 3);
    intros E; lia.
Qed.
Lemma sz_pi_inj : inj sz_pi.
Proof.
  intros a b. unfold sz_pi. destruct (N.leb_spec a 31), (N.leb_spec b 31); intros E; lia.
Qed.

(** results: 8 glued graphs, flag off, and the equation of C05_result_set_invariant_partial evaluated *)
Example result_invariant_nonvacuous :
  p_flag sz_p = false /\ length (glued_of 0%N sz_host sz_p) = 8%nat /\
  length (kept_of 0%N sz_host sz_p) = 8%nat /\
  glued_of 0%N (relabel sz_pi sz_host) (relabel_prep sz_sg sz_p) = map (relabel sz_pi) (glued_of 0%N sz_host sz_p).
Proof. repeat split; vm_compute; reflexivity. Qed.

(** the renumbered template gives, through the whole pipeline, as many results as the original (the defect repaired by
    aa7fe3c gave 6 and 3 distinct precursor sets here) *)
Example suzuki_counts :
  option_map (@length its) (pipeline true true false 0%N sz_host sz_tpl) = Some 8%nat /\
  option_map (@length its) (pipeline true true false 0%N (relabel sz_pi sz_host) (relabel sz_sg sz_tpl)) = Some 8%nat.
Proof. split; vm_compute; reflexivity. Qed.

(** matches: 8 raw matches transported *)
Example matches_equivariant_nonvacuous :
  length (matches 0%N sz_host (p_pat sz_p)) = 8%nat /\
  matches 0%N (relabel sz_pi sz_host) (relabel sz_sg (p_pat sz_p)) = map (mv sz_sg sz_pi) (matches 0%N sz_host (p_pat sz_p)).
Proof. split; vm_compute; reflexivity. Qed.

(** pruning: the metathesis rule has 4 automorphisms; 8 raw matches, 2 kept, every dropped one covered *)
Example prune_nonvacuous :
  length (rule_auts (p_rc mt_p)) = 4%nat /\ length (raw_of 0%N mt_host mt_p) = 8%nat /\ length (kept_of 0%N mt_host mt_p) = 2%nat /\
  rule_auts (relabel sz_sg (p_rc mt_p)) = map (mv sz_sg sz_sg) (rule_auts (p_rc mt_p)).
Proof. repeat split; vm_compute; reflexivity. Qed.

(** strategies: disulfide formation on SCCS.CS — 6 raw matches exhaustively, 4 component-aware (non-empty), BACKTRACK
    returns the component-aware ones; halogen exchange on BrCCI — fewer substrate components, COMPONENT = ALL *)
Example strategy_nonvacuous :
  length (raw_of 0%N ds_host ds_p) = 6%nat /\ length (raw_of 1%N ds_host ds_p) = 4%nat /\
  raw_of 2%N ds_host ds_p = raw_of 1%N ds_host ds_p /\
  length (glued_of 1%N ds_host ds_p) = 2%nat /\ glued_of 2%N ds_host ds_p = glued_of 1%N ds_host ds_p /\
  length (C06_Model.comps (host_c06 hx_host)) = 1%nat /\ length (C06_Model.comps (pat_c06 (p_pat hx_p))) = 2%nat /\
  length (matches 1%N hx_host (p_pat hx_p)) = 1%nat /\ matches 1%N hx_host (p_pat hx_p) = matches 0%N hx_host (p_pat hx_p).
Proof. repeat split; vm_compute; reflexivity. Qed.

(** repetition *)
Example repeat_nonvacuous : pipeline true true false 0%N sz_host sz_tpl <> None.
Proof. vm_compute. discriminate. Qed.

(** end to end: the hypotheses of C05_pipeline_invariant_partial hold for the witness and its conclusion evaluates *)
Example pipeline_invariant_nonvacuous :
  prepare true true sz_tpl = Some sz_p /\ p_flag sz_p = false /\
  pipeline true true false 0%N (relabel sz_pi sz_host) (relabel sz_sg sz_tpl)
  = option_map (map (relabel sz_pi)) (pipeline true true false 0%N sz_host sz_tpl).
Proof. repeat split; vm_compute; reflexivity. Qed.

(** every strategy: the disulfide case (component-aware search smaller than the exhaustive one) renumbered *)
Example all_strategies_nonvacuous :
  length (glued_of 1%N ds_host ds_p) = 2%nat /\ length (glued_of 0%N ds_host ds_p) = 3%nat /\ p_flag ds_p = false /\
  glued_of 1%N (relabel sz_pi ds_host) (relabel_prep sz_sg ds_p) = map (relabel sz_pi) (glued_of 1%N ds_host ds_p) /\
  glued_of 2%N (relabel sz_pi ds_host) (relabel_prep sz_sg ds_p) = map (relabel sz_pi) (glued_of 2%N ds_host ds_p) /\
  pipeline false true false 1%N (relabel sz_pi ds_host) (relabel sz_sg ds_tpl)
  = option_map (map (relabel sz_pi)) (pipeline false true false 1%N ds_host ds_tpl).
Proof. repeat split; vm_compute; reflexivity. Qed.

(** BrCCI written backwards: nodes and bonds in reverse insertion order, every stored bond flipped *)
Definition hx_host2 : hostg :=
  LG (rev (gnodes hx_host)) (map (fun e : N * N * Z => let '(a, b, o) := e in (b, a, o)) (rev (gedges hx_host))).

Lemma hx_same : same_graph hx_host hx_host2.
Proof.
  split; [|split; [|split; [|split]]].
  - intros u. unfold label; simpl.
    repeat match goal with |- context [N.eqb u ?k] => destruct (N.eqb_spec u k); [subst u; simpl; try reflexivity|] end; reflexivity.
  - intros u v. unfold LGraph.adj, hx_host2, hx_host. cbn [gedges rev map app find_edge].
    repeat match goal with
           | |- context [N.eqb ?k u] => destruct (N.eqb_spec k u); [subst u|]
           | |- context [N.eqb ?k v] => destruct (N.eqb_spec k v); [subst v|]
           end; cbn; try reflexivity; try congruence.
  - intros u. simpl. tauto.
  - simpl. repeat constructor; simpl; intuition discriminate.
  - simpl. repeat constructor; simpl; intuition discriminate.
Qed.

Example matches_order_nonvacuous :
  same_graph hx_host hx_host2 /\ gnodes hx_host2 <> gnodes hx_host /\
  length (matches 0%N hx_host (p_pat hx_p)) = 1%nat /\
  (forall m, In m (matches 0%N hx_host (p_pat hx_p)) <-> In m (matches 0%N hx_host2 (p_pat hx_p))).
Proof.
  split; [exact hx_same|]. split; [vm_compute; discriminate|]. split; [vm_compute; reflexivity|].
  apply matches_all_host_order. exact hx_same.
Qed.

(** ** component-aware matches are exhaustive matches: premises hold and the conclusion is about 4 matches *)
Example comp_subset_nonvacuous :
  gwf (host_c06 ds_host) /\ gwf (pat_c06 (p_pat ds_p)) /\
  (comp_bound (C06_Model.monos_on (host_c06 ds_host) (pat_c06 (p_pat ds_p))) true (host_c06 ds_host) (pat_c06 (p_pat ds_p)) <= thr_val)%N /\
  (C06_Model.lenN (C06_Model.monos_on (host_c06 ds_host) (pat_c06 (p_pat ds_p)) (node_ids (host_c06 ds_host)) (node_ids (pat_c06 (p_pat ds_p)))) <= thr_val)%N /\
  length (matches 1%N ds_host (p_pat ds_p)) = 4%nat /\
  (forall m, In m (matches 1%N ds_host (p_pat ds_p)) -> exists m', In m' (matches 0%N ds_host (p_pat ds_p)) /\ Permutation.Permutation m m').
Proof.
  assert (G1 : gwf (host_c06 ds_host)) by (apply gwfb_spec; vm_compute; reflexivity).
  assert (G2 : gwf (pat_c06 (p_pat ds_p))) by (apply gwfb_spec; vm_compute; reflexivity).
  assert (B1 : (comp_bound (C06_Model.monos_on (host_c06 ds_host) (pat_c06 (p_pat ds_p))) true (host_c06 ds_host) (pat_c06 (p_pat ds_p)) <= thr_val)%N)
    by (apply N.leb_le; vm_compute; reflexivity).
  assert (B2 : (C06_Model.lenN (C06_Model.monos_on (host_c06 ds_host) (pat_c06 (p_pat ds_p)) (node_ids (host_c06 ds_host)) (node_ids (pat_c06 (p_pat ds_p)))) <= thr_val)%N)
    by (apply N.leb_le; vm_compute; reflexivity).
  split; [exact G1|]. split; [exact G2|]. split; [exact B1|]. split; [exact B2|]. split; [vm_compute; reflexivity|].
  exact (comp_subset_all ds_host (p_pat ds_p) G1 G2 B1 B2).
Qed.

(** ** the set of glued graphs under re-ordering (BrCCI written backwards) and under renumbering + re-ordering *)
Lemma same_graph_refl {A B} (g : lgraph A B) : NoDup (node_ids g) -> same_graph g g.
Proof. intros H. repeat split; auto. Qed.

Lemma hx_rc_nodup : NoDup (node_ids (p_rc hx_p)).
Proof. apply C03_Proof.nodupb_NoDup. vm_compute. reflexivity. Qed.
Lemma hx_pat_nodup : NoDup (node_ids (p_pat hx_p)).
Proof. apply C03_Proof.nodupb_NoDup. vm_compute. reflexivity. Qed.

Example glued_set_invariant_nonvacuous :
  side_ok hx_host hx_p /\ side_ok hx_host2 hx_p /\ same_graph hx_host hx_host2 /\
  length (glued_of 0%N hx_host hx_p) = 1%nat /\
  (forall T, In T (glued_of 0%N hx_host hx_p) -> exists T', In T' (glued_of 0%N hx_host2 hx_p) /\ obs_eq T T').
Proof.
  assert (S1 : side_ok hx_host hx_p) by (apply side_okb_ok; vm_compute; reflexivity).
  assert (S2 : side_ok hx_host2 hx_p) by (apply side_okb_ok; vm_compute; reflexivity).
  split; [exact S1|]. split; [exact S2|]. split; [exact hx_same|]. split; [vm_compute; reflexivity|].
  exact (glued_set_invariant hx_host hx_host2 hx_p hx_p S1 S2 hx_same (same_graph_refl _ hx_rc_nodup) (same_graph_refl _ hx_pat_nodup)).
Qed.

(** renumbered by (sz_sg, sz_pi), then written backwards *)
Definition hx_host_r : hostg := Eval vm_compute in relabel sz_pi hx_host.
Definition hx_host_r2 : hostg :=
  LG (rev (gnodes hx_host_r)) (map (fun e : N * N * Z => let '(a, b, o) := e in (b, a, o)) (rev (gedges hx_host_r))).

Lemma hx_same_r : same_graph (relabel sz_pi hx_host) hx_host_r2.
Proof.
  change (relabel sz_pi hx_host) with hx_host_r.
  split; [|split; [|split; [|split]]].
  - intros u. unfold label; simpl.
    repeat match goal with |- context [N.eqb u ?k] => destruct (N.eqb_spec u k); [subst u; simpl; try reflexivity|] end; reflexivity.
  - intros u v. unfold LGraph.adj, hx_host_r2, hx_host_r. cbn [gedges rev map app find_edge].
    repeat match goal with
           | |- context [N.eqb ?k u] => destruct (N.eqb_spec k u); [subst u|]
           | |- context [N.eqb ?k v] => destruct (N.eqb_spec k v); [subst v|]
           end; cbn; try reflexivity; try congruence.
  - intros u. simpl. tauto.
  - simpl. repeat constructor; simpl; intuition discriminate.
  - simpl. repeat constructor; simpl; intuition discriminate.
Qed.

Example glued_set_rewriting_nonvacuous :
  gnodes hx_host_r2 <> gnodes (relabel sz_pi hx_host) /\
  (forall T, In T (glued_of 0%N hx_host hx_p) ->
     exists T'', In T'' (glued_of 0%N hx_host_r2 (relabel_prep sz_sg hx_p)) /\ obs_eq (relabel sz_pi T) T'') /\
  (forall T'', In T'' (glued_of 0%N hx_host_r2 (relabel_prep sz_sg hx_p)) ->
     exists T, In T (glued_of 0%N hx_host hx_p) /\ obs_eq (relabel sz_pi T) T'').
Proof.
  split; [vm_compute; discriminate|].
  assert (S1 : side_ok (relabel sz_pi hx_host) (relabel_prep sz_sg hx_p)) by (apply side_okb_ok; vm_compute; reflexivity).
  assert (S2 : side_ok hx_host_r2 (relabel_prep sz_sg hx_p)) by (apply side_okb_ok; vm_compute; reflexivity).
  apply (glued_set_rewriting sz_sg sz_pi sz_sg_inj sz_pi_inj hx_host hx_host_r2 hx_p (relabel_prep sz_sg hx_p) S1 S2 hx_same_r).
  - apply same_graph_refl. apply C03_Proof.nodupb_NoDup. vm_compute. reflexivity.
  - apply same_graph_refl. apply C03_Proof.nodupb_NoDup. vm_compute. reflexivity.
Qed.

(** ** every strategy under re-ordering: disulfide formation on SCCS.CS written backwards (component-aware search
    smaller than the exhaustive one: 2 vs 3 glued graphs) *)
Definition ds_host2 : hostg :=
  LG (rev (gnodes ds_host)) (map (fun e : N * N * Z => let '(a, b, o) := e in (b, a, o)) (rev (gedges ds_host))).

Lemma ds_same : same_graph ds_host ds_host2.
Proof.
  split; [|split; [|split; [|split]]].
  - intros u. unfold label; simpl.
    repeat match goal with |- context [N.eqb u ?k] => destruct (N.eqb_spec u k); [subst u; simpl; try reflexivity|] end; reflexivity.
  - intros u v. unfold LGraph.adj, ds_host2, ds_host. cbn [gedges rev map app find_edge].
    repeat match goal with
           | |- context [N.eqb ?k u] => destruct (N.eqb_spec k u); [subst u|]
           | |- context [N.eqb ?k v] => destruct (N.eqb_spec k v); [subst v|]
           end; cbn; try reflexivity; try congruence.
  - intros u. simpl. tauto.
  - simpl. repeat constructor; simpl; intuition discriminate.
  - simpl. repeat constructor; simpl; intuition discriminate.
Qed.

Lemma ds_side (h : hostg) : side_okb_c h ds_p = true -> side_ok_c h ds_p.
Proof. apply side_okb_c_ok. Qed.

Example glued_set_invariant_any_nonvacuous :
  gnodes ds_host2 <> gnodes ds_host /\
  length (glued_of 1%N ds_host ds_p) = 2%nat /\ length (glued_of 0%N ds_host ds_p) = 3%nat /\
  (forall T, In T (glued_of 1%N ds_host ds_p) -> exists T', In T' (glued_of 1%N ds_host2 ds_p) /\ obs_eq T T') /\
  (forall T, In T (glued_of 2%N ds_host ds_p) -> exists T', In T' (glued_of 2%N ds_host2 ds_p) /\ obs_eq T T') /\
  (forall T, In T (glued_of 0%N ds_host ds_p) -> exists T', In T' (glued_of 0%N ds_host2 ds_p) /\ obs_eq T T').
Proof.
  assert (S1 : side_ok_c ds_host ds_p) by (apply ds_side; vm_compute; reflexivity).
  assert (S2 : side_ok_c ds_host2 ds_p) by (apply ds_side; vm_compute; reflexivity).
  assert (R : same_graph (p_rc ds_p) (p_rc ds_p)) by (apply same_graph_refl; apply C03_Proof.nodupb_NoDup; vm_compute; reflexivity).
  assert (Q : same_graph (p_pat ds_p) (p_pat ds_p)) by (apply same_graph_refl; apply C03_Proof.nodupb_NoDup; vm_compute; reflexivity).
  split; [vm_compute; discriminate|]. split; [vm_compute; reflexivity|]. split; [vm_compute; reflexivity|].
  split; [|split].
  - exact (glued_set_invariant_any 1%N ds_host ds_host2 ds_p ds_p (or_intror (or_introl eq_refl)) S1 S2 ds_same R Q).
  - exact (glued_set_invariant_any 2%N ds_host ds_host2 ds_p ds_p (or_intror (or_intror eq_refl)) S1 S2 ds_same R Q).
  - exact (glued_set_invariant_any 0%N ds_host ds_host2 ds_p ds_p (or_introl eq_refl) S1 S2 ds_same R Q).
Qed.

(** ** from the template: halogen exchange, template renumbered by sz_sg and written backwards, substrate renumbered by
    sz_pi and written backwards *)
Definition hx_tpl_r : its := Eval vm_compute in relabel sz_sg hx_tpl.
Definition hx_tpl_r2 : its :=
  LG (rev (gnodes hx_tpl_r)) (map (fun e : N * N * iedge => let '(a, b, o) := e in (b, a, o)) (rev (gedges hx_tpl_r))).

Lemma hx_tpl_same : same_graph (relabel sz_sg hx_tpl) hx_tpl_r2.
Proof.
  change (relabel sz_sg hx_tpl) with hx_tpl_r.
  split; [|split; [|split; [|split]]].
  - intros u. unfold label; simpl.
    repeat match goal with |- context [N.eqb u ?k] => destruct (N.eqb_spec u k); [subst u; simpl; try reflexivity|] end; reflexivity.
  - intros u v. unfold LGraph.adj, hx_tpl_r2, hx_tpl_r. cbn [gedges rev map app find_edge].
    repeat match goal with
           | |- context [N.eqb ?k u] => destruct (N.eqb_spec k u); [subst u|]
           | |- context [N.eqb ?k v] => destruct (N.eqb_spec k v); [subst v|]
           end; cbn; try reflexivity; try congruence.
  - intros u. simpl. tauto.
  - simpl. repeat constructor; simpl; intuition discriminate.
  - simpl. repeat constructor; simpl; intuition discriminate.
Qed.

Example pipeline_set_invariant_nonvacuous :
  gnodes hx_tpl_r2 <> gnodes (relabel sz_sg hx_tpl) /\
  exists p'', prepare false true hx_tpl_r2 = Some p'' /\
    pipeline false true false 0%N hx_host_r2 hx_tpl_r2 = Some (glued_of 0%N hx_host_r2 p'') /\
    length (glued_of 0%N hx_host hx_p) = 1%nat /\
    (forall T, In T (glued_of 0%N hx_host hx_p) -> exists T'', In T'' (glued_of 0%N hx_host_r2 p'') /\ obs_eq (relabel sz_pi T) T'').
Proof.
  split; [vm_compute; discriminate|].
  assert (Hprep : prepare false true hx_tpl = Some hx_p) by (vm_compute; reflexivity).
  assert (Hflag : p_flag hx_p = false) by (vm_compute; reflexivity).
  assert (Hw : simple_edgesb (gedges hx_tpl) = true) by (vm_compute; reflexivity).
  assert (Hw2 : simple_edgesb (gedges hx_tpl_r2) = true) by (vm_compute; reflexivity).
  destruct (pipeline_set_invariant 0%N sz_sg sz_pi false hx_host hx_host_r2 hx_tpl hx_tpl_r2 hx_p (or_introl eq_refl)
              sz_sg_inj sz_pi_inj Hprep Hflag Hw Hw2 hx_same_r hx_tpl_same) as (p2 & H1 & _ & _ & H4 & H5).
  assert (E : p2 = prep_of false hx_tpl_r2) by (unfold prep_of; rewrite H1; reflexivity).
  exists p2. split; [exact H1|]. split; [exact H4|]. split; [vm_compute; reflexivity|].
  apply H5.
  - apply side_okb_c_ok. vm_compute. reflexivity.
  - subst p2. apply side_okb_c_ok. vm_compute. reflexivity.
Qed.

(** results of the component-aware strategy among the results of the exhaustive one: 2 of 3 on SCCS.CS *)
Example strategy_subset_results_nonvacuous :
  side_okb_c ds_host ds_p = true /\ length (glued_of 1%N ds_host ds_p) = 2%nat /\ length (glued_of 0%N ds_host ds_p) = 3%nat /\
  (forall T, In T (glued_of 1%N ds_host ds_p) -> exists T', In T' (glued_of 0%N ds_host ds_p) /\ obs_eq T T').
Proof.
  assert (S : side_okb_c ds_host ds_p = true) by (vm_compute; reflexivity).
  split; [exact S|]. split; [vm_compute; reflexivity|]. split; [vm_compute; reflexivity|].
  exact (proj1 (glued_comp_subset_all ds_host ds_p (side_okb_c_ok _ _ S))).
Qed.

(** ** default configuration: halogen exchange (no hydrogen atoms in the template), template and substrate renumbered and
    written backwards; the _explicit_h stage is on *)
Example pipeline_default_nonvacuous :
  noHb hx_tpl = true /\ pipeline false false true 0%N hx_host hx_tpl = Some (glued_of 0%N hx_host (prep_default false hx_tpl)) /\
  length (glued_of 0%N hx_host (prep_default false hx_tpl)) = 1%nat /\
  (forall T, In T (glued_of 0%N hx_host (prep_default false hx_tpl)) ->
     exists T'', In T'' (glued_of 0%N hx_host_r2 (prep_default false hx_tpl_r2)) /\ obs_eq (relabel sz_pi T) T'').
Proof.
  assert (HP : forall X : its, (forallb (fun p : N * inode => match i_hp (snd p) with None => true | Some [] => true | _ => false end) (gnodes X) = true) ->
               forall k a, In (k, a) (gnodes X) -> i_hp a = None \/ i_hp a = Some []).
  { intros X H k a I. rewrite forallb_forall in H. specialize (H _ I). simpl in H. destruct (i_hp a) as [[|x l]|]; [right; reflexivity | discriminate | left; reflexivity]. }
  assert (A1 : nodupb (node_ids hx_tpl) = true) by (vm_compute; reflexivity).
  assert (A2 : noHb hx_tpl = true) by (vm_compute; reflexivity).
  assert (A3 : nohp hx_tpl) by (unfold nohp; apply (HP hx_tpl); vm_compute; reflexivity).
  assert (A4 : simple_edgesb (gedges hx_tpl) = true) by (vm_compute; reflexivity).
  assert (B1 : nodupb (node_ids hx_tpl_r2) = true) by (vm_compute; reflexivity).
  assert (B2 : noHb hx_tpl_r2 = true) by (vm_compute; reflexivity).
  assert (B3 : nohp hx_tpl_r2) by (unfold nohp; apply (HP hx_tpl_r2); vm_compute; reflexivity).
  assert (B4 : simple_edgesb (gedges hx_tpl_r2) = true) by (vm_compute; reflexivity).
  destruct (pipeline_default_set_invariant 0%N sz_sg sz_pi false hx_host hx_host_r2 hx_tpl hx_tpl_r2 (or_introl eq_refl) sz_sg_inj sz_pi_inj
              A1 A2 A3 A4 B1 B2 B3 B4 hx_same_r hx_tpl_same) as (P1 & _ & P3).
  split; [exact A2|]. split; [exact P1|]. split; [vm_compute; reflexivity|].
  apply P3; apply side_okb_c_ok; vm_compute; reflexivity.
Qed.

(** the monitor accepts the renumbered and reversed writing of the halogen-exchange case (pi = sz_pi on 1..4, sg = sz_sg) *)
Example rewriting_monitor_nonvacuous :
  rewriting_okb hx_host hx_tpl (hx_host_r2, hx_tpl_r2, [(1, 30); (2, 29); (3, 28); (4, 27); (30, 1); (29, 2); (28, 3); (27, 4)]%N,
                                [(1, 3); (2, 1); (3, 2)]%N) = true.
Proof. vm_compute. reflexivity. Qed.

(** capstones on the halogen-exchange case: everything the theorems ask of the two writings is evaluated *)
Definition hx_pi : list (N * N) := [(1, 30); (2, 29); (3, 28); (4, 27); (30, 1); (29, 2); (28, 3); (27, 4)]%N.
Definition hx_sg : list (N * N) := [(1, 3); (2, 1); (3, 2)]%N.
Example capstones_nonvacuous :
  (exists p, prepare false true hx_tpl_r2 = Some p /\
     forall T, In T (glued_of 1%N hx_host hx_p) -> exists T', In T' (glued_of 1%N hx_host_r2 p) /\ obs_eq (relabel (apply_map hx_pi) T) T') /\
  (forall T, In T (glued_of 2%N hx_host (prep_default false hx_tpl)) ->
     exists T', In T' (glued_of 2%N hx_host_r2 (prep_default false hx_tpl_r2)) /\ obs_eq (relabel (apply_map hx_pi) T) T').
Proof.
  assert (Hrw : rewriting_okb hx_host hx_tpl (hx_host_r2, hx_tpl_r2, hx_pi, hx_sg) = true) by (vm_compute; reflexivity).
  split.
  - destruct (pipeline_checked_implicit 1%N false hx_host hx_host_r2 hx_tpl hx_tpl_r2 hx_pi hx_sg hx_p (or_intror (or_introl eq_refl)) Hrw)
      as (p & A & _ & _ & _ & E); try (vm_compute; reflexivity).
    exists p. split; [exact A|].
    assert (Ep : p = prep_of false hx_tpl_r2) by (unfold prep_of; rewrite A; reflexivity).
    apply E. subst p. vm_compute. reflexivity.
  - assert (HP : forall X : its, (forallb (fun q : N * inode => match i_hp (snd q) with None => true | Some [] => true | _ => false end) (gnodes X) = true) -> nohp X).
    { intros X H k a I. rewrite forallb_forall in H. specialize (H _ I). simpl in H. destruct (i_hp a) as [[|x l]|]; [right; reflexivity | discriminate | left; reflexivity]. }
    destruct (pipeline_checked_default 2%N false hx_host hx_host_r2 hx_tpl hx_tpl_r2 hx_pi hx_sg (or_intror (or_intror eq_refl)) Hrw) as (_ & _ & F & _);
      try (vm_compute; reflexivity); try (apply HP; vm_compute; reflexivity).
    exact F.
Qed.

(** ** the embedding cap: the number of embeddings does not depend on the writing (halogen exchange on BrCCI written
    backwards AND renumbered: the same number of embeddings either way), and the cap-free invariance theorem applied to the two writings
    under a cap below (0: both searches capped, no result) and at (1) the number of embeddings *)
Example cap_decision_nonvacuous :
  C06_Model.lenN (enum_all hx_host (p_pat hx_p)) = C06_Model.lenN (enum_all hx_host2 (p_pat hx_p)) /\
  C06_Model.lenN (enum_all hx_host_r2 (p_pat (relabel_prep sz_sg hx_p))) = C06_Model.lenN (enum_all hx_host (p_pat hx_p)) /\
  (0 < C06_Model.lenN (enum_all hx_host (p_pat hx_p)))%N.
Proof.
  split; [apply enum_all_count_host_order; exact hx_same|].
  split; [|vm_compute; reflexivity].
  destruct hx_p as [rc l r fl pat] eqn:E. simpl.
  apply (capped_invariant sz_sg sz_pi sz_sg_inj sz_pi_inj). exact hx_same_r.
Qed.

Example any_cap_nonvacuous :
  side_okb0 (relabel sz_pi hx_host) (relabel_prep sz_sg hx_p) = true /\ side_okb0 hx_host_r2 (relabel_prep sz_sg hx_p) = true /\
  length (@glued_of (thr_of (Some 0%N)) 0%N hx_host hx_p) = 0%nat /\
  length (@glued_of (thr_of (Some 0%N)) 0%N hx_host_r2 (relabel_prep sz_sg hx_p)) = 0%nat /\
  length (@glued_of (thr_of (Some 1%N)) 0%N hx_host hx_p) = 1%nat /\
  length (@glued_of (thr_of (Some 1%N)) 0%N hx_host_r2 (relabel_prep sz_sg hx_p)) = 1%nat.
Proof. repeat split; vm_compute; reflexivity. Qed.

(** the pre-filter option on the same two writings: premises of the any-options theorem evaluated; the guard does not fire
    under the default cap (one glued graph on both sides) and fires under cap 0 (none on both sides) *)
Example any_options_nonvacuous :
  C06_Model.wfb (host_c06 (relabel sz_pi hx_host)) = true /\ C06_Model.wfb (host_c06 hx_host_r2) = true /\
  C06_Model.wfb (pat_c06 (p_pat (relabel_prep sz_sg hx_p))) = true /\
  length (@glued_of_pf (thr_of None) true 0%N hx_host hx_p) = 1%nat /\
  length (@glued_of_pf (thr_of None) true 0%N hx_host_r2 (relabel_prep sz_sg hx_p)) = 1%nat /\
  @prefilter_fires (thr_of (Some 0%N)) hx_host hx_p = true /\
  @glued_of_pf (thr_of (Some 0%N)) true 0%N hx_host_r2 (relabel_prep sz_sg hx_p) = [].
Proof. repeat split; vm_compute; reflexivity. Qed.

(** the enumeration order: the 8 raw matches of the metathesis rule on C=C.C=C listed backwards with every match written
    backwards — the pruning keeps OTHER representatives, the same number of glued graphs results (and, by the theorem, the
    same graphs up to [obs_eq]) *)
Definition mt_raw := raw_of 0%N mt_host mt_p.
Definition mt_raw' := rev (map (fun m : mapping => rev m) mt_raw).
Example enumeration_nonvacuous :
  side_okb mt_host mt_p = true /\
  prune (p_rc mt_p) mt_raw' <> prune (p_rc mt_p) mt_raw /\
  forallb (fun k' => negb (existsb (fun k => C11_Model.set_eqb k k') (prune (p_rc mt_p) mt_raw))) (prune (p_rc mt_p) mt_raw') = true /\
  length (flat_map (glue1 mt_host (p_rc mt_p)) (prune (p_rc mt_p) mt_raw')) = 2%nat /\
  length (glued_of 0%N mt_host mt_p) = 2%nat.
Proof. repeat split; try (vm_compute; reflexivity). vm_compute. discriminate. Qed.
