(** C03 — where the pair ids come from (default-mode rule preparation) and where they go (gluing): two atoms of the
    prepared rule share a pair id only if both were bonded to ONE explicit hydrogen of the template, and two atoms of a
    glued ITS share a pair id only if they are the images of two such rule atoms.  With [explicit_h_wiring] this ties
    every re-materialised hydrogen to the template's own hydrogen transfers.  Stdlib lists only. *)
From Coq Require Import List NArith ZArith Bool Lia Permutation.
From SK Require Import lib.Tok lib.LGraph model.C03_Model proof.C03_Proof proof.C03_Glue proof.C03_Backward proof.C03_Skeleton
                       proof.C03_Wiring.
Import ListNotations.
Local Open Scope Z_scope.

(** * neighbours are monotone in the edge list *)
Lemma nbrs_in {A B} (g : lgraph A B) h x :
  In x (nbrs g h) <-> exists e, In e (gedges g) /\ ((fst (fst e) = h /\ snd (fst e) = x) \/ (fst (fst e) <> h /\ snd (fst e) = h /\ fst (fst e) = x)).
Proof.
  unfold nbrs. rewrite in_flat_map. split.
  - intros ([[a b] o] & I & Ix). exists (a, b, o). split; [exact I|]. cbn [fst snd].
    destruct (N.eqb_spec a h) as [->|Na]; [destruct Ix as [<-|[]]; auto|].
    destruct (N.eqb_spec b h) as [->|Nb]; [destruct Ix as [<-|[]]; auto|destruct Ix].
  - intros ([[a b] o] & I & H). exists (a, b, o). split; [exact I|]. cbn [fst snd] in H.
    destruct H as [[-> ->]|(Na & -> & ->)].
    + rewrite N.eqb_refl. left. reflexivity.
    + destruct (N.eqb_spec x h); [contradiction|]. rewrite N.eqb_refl. left. reflexivity.
Qed.
Lemma nbrs_mono {A B} (g g0 : lgraph A B) h x : incl (gedges g) (gedges g0) -> In x (nbrs g h) -> In x (nbrs g0 h).
Proof. intros Hi H. apply nbrs_in in H. destruct H as (e & I & He). apply nbrs_in. exists e. split; [apply Hi; exact I|exact He]. Qed.

(** * pair ids during _strip_explicit_h: every id on an atom was assigned to a hydrogen bonded to that atom *)
Definition pinv (tpl g : its) (asg : list (N * N)) : Prop :=
  incl (gedges g) (gedges tpl) /\
  forall x A p, In (x, A) (gnodes g) -> In p (hp_of A) -> exists h, In (p, h) asg /\ In x (nbrs tpl h).

Lemma hp_of_bump pid A p : In p (hp_of (bump_i pid A)) -> In p (hp_of A) \/ pid = Some p.
Proof.
  unfold hp_of, bump_i. cbn [i_hp]. destruct pid as [q|]; [|auto]. unfold hp_append.
  destruct (i_hp A); simpl; intros I; [apply in_app_or in I; destruct I as [I|[<-|[]]]; auto|destruct I as [<-|[]]; auto].
Qed.

Lemma bump_fold_hp pid ns : forall (g : its) x A p,
  In (x, A) (gnodes (fold_left (fun g' y => if is_H_i g' y then g' else upd_node g' y (bump_i pid)) ns g)) -> In p (hp_of A) ->
  (exists A0, In (x, A0) (gnodes g) /\ In p (hp_of A0)) \/ (pid = Some p /\ In x ns).
Proof.
  induction ns as [|y r IH]; intros g x A p I Ip; [left; exists A; auto|].
  cbn [fold_left] in I. destruct (IH _ x A p I Ip) as [(A1 & I1 & P1)|[E Ix]]; [|right; split; [exact E|right; exact Ix]].
  destruct (is_H_i g y); [left; exists A1; auto|].
  unfold upd_node in I1; cbn [gnodes] in I1. apply in_map_iff in I1. destruct I1 as ([k A0] & E & I0). cbn [fst snd] in E.
  destruct (N.eqb_spec k y) as [->|Nk].
  - inversion E; subst. destruct (hp_of_bump pid A0 p P1) as [P0|Ep]; [left; exists A0; auto|right; split; [exact Ep|left; reflexivity]].
  - inversion E; subst. left. exists A1. auto.
Qed.

Lemma bump_fold_edges pid ns : forall g : its,
  gedges (fold_left (fun g' y => if is_H_i g' y then g' else upd_node g' y (bump_i pid)) ns g) = gedges g.
Proof. induction ns as [|y r IH]; intros g; [reflexivity|]. cbn [fold_left]. rewrite IH. destruct (is_H_i g y); reflexivity. Qed.

Lemma pinv_strip tpl g asg h pid :
  pinv tpl g asg -> pinv tpl (strip_i g h pid) (match pid with Some p => (p, h) :: asg | None => asg end).
Proof.
  intros [P1 P2]. unfold strip_i. destruct (has_node g h).
  - split.
    + unfold remove_node; cbn [gedges]. rewrite bump_fold_edges. intros e I. apply filter_In in I. apply P1. tauto.
    + intros x A p I Ip. unfold remove_node in I; cbn [gnodes] in I. apply filter_In in I. destruct I as [I _].
      destruct (bump_fold_hp pid (nbrs g h) g x A p I Ip) as [(A0 & I0 & P0)|[E Ix]].
      * destruct (P2 x A0 p I0 P0) as (h0 & H1 & H2). exists h0. split; [destruct pid; [right|]; exact H1|exact H2].
      * subst pid. exists h. split; [left; reflexivity|]. exact (nbrs_mono g tpl h x P1 Ix).
  - split; [exact P1|]. intros x A p I Ip. destruct (P2 x A p I Ip) as (h0 & H1 & H2). exists h0. split; [destruct pid; [right|]; exact H1|exact H2].
Qed.

(** the ids handed out by step 2 are distinct: id k goes to the k-th shared hydrogen *)
Definition asg_ok (asg : list (N * N)) (next : N) : Prop :=
  (forall p h, In (p, h) asg -> (p < next)%N) /\ (forall p h h', In (p, h) asg -> In (p, h') asg -> h = h').

Lemma strip_shared_pinv tpl (Q : N -> Prop) hs : (forall h, In h hs -> Q h) ->
  forall (t : triple) pid asg, pinv tpl (fst (fst t)) asg -> asg_ok asg pid -> (forall p h, In (p, h) asg -> Q h) ->
  exists asg', pinv tpl (fst (fst (fst (fold_left (fun (st : triple * N) h =>
         let '(rc, l, r, pid) := st in
         (strip_i rc h (Some pid), strip_m l h (Some pid), strip_m r h (Some pid), N.succ pid)) hs (t, pid))))) asg' /\
         (forall p h h', In (p, h) asg' -> In (p, h') asg' -> h = h') /\ (forall p h, In (p, h) asg' -> Q h).
Proof.
  induction hs as [|h r IH]; intros HQ t pid asg P [A1 A2] AQ; [cbn [fold_left fst]; eauto|].
  cbn [fold_left]. destruct t as [[rc l] rr]. cbn [fst] in P.
  apply (IH (fun x I => HQ x (or_intror I)) (strip_i rc h (Some pid), strip_m l h (Some pid), strip_m rr h (Some pid)) (N.succ pid) ((pid, h) :: asg)).
  - cbn [fst]. exact (pinv_strip tpl rc asg h (Some pid) P).
  - split.
    + intros p h0 [E|I]; [inversion E; subst; lia|specialize (A1 p h0 I); lia].
    + intros p h0 h1 [E0|I0] [E1|I1].
      * congruence.
      * inversion E0; subst. specialize (A1 _ _ I1). lia.
      * inversion E1; subst. specialize (A1 _ _ I0). lia.
      * eauto.
  - intros p h0 [E|I]; [inversion E; subst; apply HQ; left; reflexivity|eauto].
Qed.

Lemma step3_rc_pinv tpl hs : forall (t t' : triple) asg, pinv tpl (fst (fst t)) asg ->
  fold_left (fun (st : option triple) h =>
      match st with
      | None => None
      | Some (rc, l, r) => match fully_removable l r h with
                           | Some true => Some (strip_i rc h None, l, r) | Some false => st | None => None end
      end) hs (Some t) = Some t' -> pinv tpl (fst (fst t')) asg.
Proof.
  induction hs as [|h r IH]; intros t t' asg P H; [simpl in H; inversion H; subst; exact P|].
  cbn [fold_left] in H. destruct t as [[rc l] rr]. cbn [fst] in P.
  destruct (fully_removable l rr h) as [[|]|].
  - apply (IH (strip_i rc h None, l, rr) t' asg); [|exact H]. cbn [fst]. exact (pinv_strip tpl rc asg h None P).
  - exact (IH (rc, l, rr) t' asg P H).
  - exfalso. clear - H. induction r as [|x r IH]; simpl in H; [discriminate|auto].
Qed.

Lemma refresh_types_hp rc l r rc' : refresh_types rc l r = Some rc' ->
  forall x A, In (x, A) (gnodes rc') -> exists A0, In (x, A0) (gnodes rc) /\ i_hp A = i_hp A0.
Proof.
  unfold refresh_types.
  match goal with |- context [fold_right ?f _ _] => set (F := f) end.
  destruct (fold_right F (Some []) (gnodes rc)) as [ns|] eqn:E; [|discriminate]. intros H. inversion H; subst. cbn [gnodes].
  clear H. revert ns E. induction (gnodes rc) as [|[k0 a0] r0 IH]; intros ns E x A I.
  - simpl in E. inversion E; subst. destruct I.
  - cbn [fold_right] in E. destruct (fold_right F (Some []) r0) as [ns0|]; [|unfold F in E; discriminate].
    unfold F at 1 in E. cbn [fst snd] in E.
    destruct (label l k0); [|discriminate]. destruct (label r k0); [|discriminate]. inversion E; subst. destruct I as [I|I].
    + inversion I; subst. exists a0. split; [left; reflexivity|reflexivity].
    + destruct (IH ns0 eq_refl x A I) as (A0 & I0 & E0). exists A0. split; [right; exact I0|exact E0].
Qed.

Theorem synrule_default_pairs (tpl rc : its) (l r : molg) :
  nodupb (node_ids tpl) = true -> (forall k a, In (k, a) (gnodes tpl) -> i_hp a = None) ->
  synrule tpl true = Some (rc, l, r) ->
  forall x y A B p, In (x, A) (gnodes rc) -> In (y, B) (gnodes rc) -> In p (hp_of A) -> In p (hp_of B) ->
  exists h, is_H_i tpl h = true /\ In x (nbrs tpl h) /\ In y (nbrs tpl h).
Proof.
  intros Hnd Hnone H. apply nodupb_NoDup in Hnd. unfold synrule in H. cbn [negb] in H.
  set (rc0 := standardize_hydrogen tpl) in H. unfold its_decompose in H.
  set (l0 := dec_side iG eG rc0) in H. set (r0 := dec_side iH eH rc0) in H.
  destruct (strip_explicit_h rc0 l0 r0) as [[[rc1 l1] r1]|] eqn:Es; [|discriminate].
  destruct (refresh_types rc1 l1 r1) as [rc'|] eqn:Er; [|discriminate]. inversion H; subst rc' l1 r1. clear H.
  assert (P0 : pinv tpl (init_i rc0) []).
  { split; [unfold init_i, rc0, standardize_hydrogen, map_nodes; cbn [gedges]; intros e I; exact I|].
    intros x A p I Ip. exfalso. unfold init_i, rc0, standardize_hydrogen, map_nodes in I; cbn [gnodes] in I. rewrite map_map in I.
    apply in_map_iff in I. destruct I as ([k a] & E & I). cbn [fst snd] in E. inversion E; subst. clear E.
    unfold hp_of in Ip. cbn [i_hp std_h_node] in Ip. rewrite (Hnone _ a I) in Ip.
    cbn [a_el iG set_hc] in Ip. destruct (N.eqb (a_el (iG a)) EL_H); simpl in Ip; exact Ip. }
  unfold strip_explicit_h in Es. cbn [fst snd] in Es.
  destruct (shared_h (init_m l0) (init_m r0)) as [hs|] eqn:Eh; [|discriminate]. unfold strip_shared in Es.
  assert (HsH : forall h, In h (sort_N hs) -> is_H_i tpl h = true).
  { intros h I. apply in_sort_N in I. apply (shared_h_incl _ _ _ Eh) in I.
    unfold h_nodes_m in I. apply in_map_iff in I. destruct I as ([k a] & <- & I). apply filter_In in I. destruct I as [I Ea].
    cbn [fst snd] in *. unfold init_m, map_nodes, l0, dec_side, rc0, standardize_hydrogen, map_nodes in I. cbn [gnodes] in I.
    rewrite !map_map in I. apply in_map_iff in I. destruct I as ([k0 a0] & E & I). cbn [fst snd] in E. inversion E; subst k a. clear E.
    cbn [m_el dec_node std_h_node iG set_hc a_el] in Ea.
    unfold is_H_i, label. rewrite (assoc_nodup_in k0 (gnodes tpl) a0 Hnd I). exact Ea. }
  destruct (strip_shared_pinv tpl (fun h => is_H_i tpl h = true) (sort_N hs) HsH (init_i rc0, init_m l0, init_m r0) 1%N [] P0) as (asg & P2 & U2 & Q2).
  { split; [intros p h []|intros p h h' []]. }
  { intros p h []. }
  match type of Es with context [step3_rc ?z] => set (t2 := z) in * end.
  destruct (step3_rc t2) as [t3|] eqn:E3; [|discriminate].
  destruct (step3_l t3) as [t4|] eqn:E4; [|discriminate].
  unfold step3_rc in E3. pose proof (step3_rc_pinv tpl _ t2 t3 asg P2 E3) as P3.
  pose proof (step3_l_rc _ _ _ E4) as R4. pose proof (step3_r_rc _ _ _ Es) as R5. cbn [fst] in R5.
  rewrite R4 in R5. rewrite <- R5 in P3. destruct P3 as [_ P3].
  intros x y A B p Ix Iy Px Py.
  destruct (refresh_types_hp _ _ _ _ Er x A Ix) as (A0 & Ix0 & Ex). destruct (refresh_types_hp _ _ _ _ Er y B Iy) as (B0 & Iy0 & Ey).
  unfold hp_of in Px, Py. rewrite Ex in Px. rewrite Ey in Py.
  destruct (P3 x A0 p Ix0 Px) as (h1 & H1 & N1). destruct (P3 y B0 p Iy0 Py) as (h2 & H2 & N2).
  rewrite (U2 p h2 h1 H2 H1) in N2. exists h1. split; [exact (Q2 p h1 H1)|auto].
Qed.

(** * gluing copies the rule's pair ids onto the matched atoms and nothing else *)
Theorem glue_share_pair host rc m T a b :
  wf_hostb host = true -> wf_rcb rc = true -> match_rcb host rc m = true -> glue host rc m = Some T ->
  share_pair T a b ->
  exists x y X Y p, mget m x = Some a /\ mget m y = Some b /\ In (x, X) (gnodes rc) /\ In (y, Y) (gnodes rc) /\
                    In p (hp_of X) /\ In p (hp_of Y).
Proof.
  intros Hwh Hwr Hm Hg (p & A & B & IA & IB & PA & PB).
  pose proof (match_rcb_sound host rc m (wf_rc_nodup rc Hwr) Hm) as MO.
  pose proof (glued_nodup host rc m T Hwh Hwr Hm Hg) as Hnd.
  assert (K : forall c C, In (c, C) (gnodes T) -> In p (hp_of C) ->
              exists x X, mget m x = Some c /\ In (x, X) (gnodes rc) /\ In p (hp_of X)).
  { intros c C IC PC. pose proof (assoc_nodup_in c (gnodes T) C Hnd IC) as Lc. fold (label T c) in Lc.
    destruct (in_dec N.eq_dec c (map snd m)) as [I|NI].
    - apply in_map_iff in I. destruct I as ([x c'] & E & I). simpl in E; subst c'.
      assert (Ix : In x (node_ids rc)).
      { apply (Permutation_in _ (Permutation_sym (mo_perm _ _ _ MO))). change x with (fst (x, c)). apply in_map. exact I. }
      unfold node_ids in Ix. apply in_map_iff in Ix. destruct Ix as ([x' X] & E & Ix). simpl in E; subst x'.
      assert (Eg : mget m x = Some c) by (apply assoc_nodup_in; [exact (mo_keys _ _ _ MO)|exact I]).
      destruct (glued_node host rc m T Hwr Hm Hg x c X Eg Ix) as (hn & _ & Hl). rewrite Hl in Lc. inversion Lc; subst C.
      exists x, X. split; [exact Eg|]. split; [exact Ix|]. unfold hp_of in *. cbn [i_hp] in PC. destruct (i_hp X); exact PC.
    - rewrite (unglued_node host rc m T Hg c NI) in Lc. destruct (label host c); inversion Lc; subst C. destruct PC. }
  destruct (K a A IA PA) as (x & X & E1 & I1 & P1). destruct (K b B IB PB) as (y & Y & E2 & I2 & P2).
  exists x, y, X, Y, p. auto 10.
Qed.

(** * the chain: in default mode, two atoms of a proposed ITS that share a pair id are the images of two rule atoms
      that were both bonded to one explicit hydrogen of the template *)
Theorem default_share_pair_template tpl rc l r host m T a b :
  nodupb (node_ids tpl) = true -> (forall k n, In (k, n) (gnodes tpl) -> i_hp n = None) -> synrule tpl true = Some (rc, l, r) ->
  wf_hostb host = true -> wf_rcb rc = true -> match_rcb host rc m = true -> glue host rc m = Some T ->
  share_pair T a b ->
  exists x y h, mget m x = Some a /\ mget m y = Some b /\ is_H_i tpl h = true /\ In x (nbrs tpl h) /\ In y (nbrs tpl h).
Proof.
  intros Hnd Hnone Hs Hwh Hwr Hm Hg Hsp.
  destruct (glue_share_pair host rc m T a b Hwh Hwr Hm Hg Hsp) as (x & y & X & Y & p & E1 & E2 & I1 & I2 & P1 & P2).
  destruct (synrule_default_pairs tpl rc l r Hnd Hnone Hs x y X Y p I1 I2 P1 P2) as (h & H1 & H2 & H3).
  exists x, y, h. auto 10.
Qed.
