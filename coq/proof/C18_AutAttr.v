(** C18 — CRNAutomorphism under a node_attr_keys selection (model/C18_AutAttrModel.v): recoding the node kinds by the selected
    attribute tuple turns the structure-preserving self-maps of the recoded view into exactly the self-maps of the view that
    preserve the SELECTED node attributes, adjacency, role and stoichiometry; so the enumerator is duplicate-free, sound and
    complete for them and the union-find reports exactly their exchangeability classes. *)
From Coq Require Import List NArith ZArith Bool Arith Lia Permutation.
From SK Require Import lib.IRSortKeys lib.IRCore lib.C18_IRValid model.C18_Model model.C18_AttrModel model.C18_WLModel model.C18_UFModel
  model.C18_AutAttrModel proof.C18_Spec proof.C18_Graph proof.C18_Orbits proof.C18_Vf2 proof.C18_WL proof.C18_UF.
From SK Require lib.IRInst.
Import ListNotations.

Lemma lexleb_eqb_eq a b : eqb lexleb a b = true <-> a = b.
Proof. apply (eqb_eq lexleb IRInst.lexleb_total IRInst.lexleb_antisym). Qed.

Lemma rank_in_range keys k : forall i, In k keys -> (i <= rank_in keys k i < i + Z.of_nat (length keys))%Z.
Proof.
  induction keys as [|x keys IH]; intros i Hk; [contradiction|]. cbn [rank_in length].
  destruct (eqb lexleb x k) eqn:E; [lia|]. destruct Hk as [->|Hk]; [|specialize (IH (i + 1)%Z Hk); lia].
  assert (eqb lexleb k k = true) by (apply lexleb_eqb_eq; reflexivity). congruence.
Qed.
Lemma rank_in_inj keys : forall i k k', In k keys -> In k' keys -> rank_in keys k i = rank_in keys k' i -> k = k'.
Proof.
  induction keys as [|x keys IH]; intros i k k' Hk Hk'; [contradiction|]. cbn [rank_in].
  destruct (eqb lexleb x k) eqn:E, (eqb lexleb x k') eqn:E'.
  - apply lexleb_eqb_eq in E, E'. congruence.
  - intros H. destruct Hk' as [->|Hk']; [assert (eqb lexleb k' k' = true) by (apply lexleb_eqb_eq; reflexivity); congruence|].
    pose proof (rank_in_range keys k' (i + 1)%Z Hk'). lia.
  - intros H. destruct Hk as [->|Hk]; [assert (eqb lexleb k k = true) by (apply lexleb_eqb_eq; reflexivity); congruence|].
    pose proof (rank_in_range keys k (i + 1)%Z Hk). lia.
  - destruct Hk as [->|Hk]; [assert (eqb lexleb k k = true) by (apply lexleb_eqb_eq; reflexivity); congruence|].
    destruct Hk' as [->|Hk']; [assert (eqb lexleb k' k' = true) by (apply lexleb_eqb_eq; reflexivity); congruence|].
    apply IH; auto.
Qed.

Section Recode.
Variables (g : vgraph) (t : ltab) (nk : list nsel).
Hypothesis Hw : wf g.

Lemma node_ids_recode : node_ids (recode g t nk) = node_ids g.
Proof. unfold node_ids, recode. simpl. rewrite map_map. reflexivity. Qed.
Lemma find_arc_recode u v : find_arc (recode g t nk) u v = find_arc g u v.
Proof. reflexivity. Qed.
Lemma wf_recode : wf (recode g t nk).
Proof. destruct Hw as (H1 & H2 & H3). split; [rewrite node_ids_recode; auto|]. split; [exact H2|]. intros e He. rewrite node_ids_recode. apply H3. exact He. Qed.
Lemma kind_of_recode v : In v (node_ids g) ->
  kind_of (recode g t nk) v = rank_in (key_codes g t nk) (nkey g t nk v) 0%Z.
Proof.
  intros Hv. unfold kind_of. apply kind_of_l_in.
  - change (map fst (vnodes (recode g t nk))) with (node_ids (recode g t nk)). rewrite node_ids_recode. apply Hw.
  - unfold recode. simpl. unfold node_ids in Hv. apply in_map_iff in Hv. destruct Hv as ([v' k] & <- & Hin).
    apply in_map_iff. exists (v', k). split; auto.
Qed.
Lemma key_in v : In v (node_ids g) -> In (nkey g t nk v) (key_codes g t nk).
Proof. intros Hv. apply (sort_dedup_in lexleb IRInst.lexleb_antisym). apply in_map. exact Hv. Qed.

Theorem is_aut_recode s : is_aut (recode g t nk) s <-> is_autA g t nk [ERole; EStoich] s.
Proof.
  unfold is_aut, is_autA. rewrite node_ids_recode. split.
  - intros (H1 & H2 & H3 & H4). repeat split; auto.
    + intros v Hv. specialize (H3 v Hv). rewrite !kind_of_recode in H3 by auto.
      apply (rank_in_inj (key_codes g t nk) 0%Z); auto using key_in.
    + intros u v Hu Hv. rewrite <- !find_arc_recode. rewrite H4 by auto. reflexivity.
  - intros (H1 & H2 & H3 & H4). repeat split; auto.
    + intros v Hv. rewrite !kind_of_recode by auto. rewrite H3 by auto. reflexivity.
    + intros u v Hu Hv. rewrite !find_arc_recode. specialize (H4 u v Hu Hv).
      destruct (find_arc g (s u) (s v)) as [[a1 a2]|], (find_arc g u v) as [[b1 b2]|]; simpl in H4; try discriminate; auto.
      inversion H4. reflexivity.
Qed.

(** count: the enumerator lists every selected-attribute-preserving self-map exactly once *)
Theorem autsA_spec :
  NoDup (autsA g t nk) /\
  (forall s, is_autA g t nk [ERole; EStoich] s ->
     In (rev (combine (aut_order (recode g t nk)) (map s (aut_order (recode g t nk))))) (autsA g t nk)) /\
  (forall m, In m (autsA g t nk) -> exists s, is_autA g t nk [ERole; EStoich] s /\
     m = rev (combine (aut_order (recode g t nk)) (map s (aut_order (recode g t nk))))).
Proof.
  destruct (auts_spec (recode g t nk) wf_recode) as (H1 & H2 & H3). unfold autsA. split; auto. split.
  - intros s Hs. apply H2. apply is_aut_recode. exact Hs.
  - intros m Hm. destruct (H3 m Hm) as (s & Hs & E). exists s. split; auto. apply is_aut_recode. exact Hs.
Qed.

(** orbits: the code's union-find on these mappings gives exactly their exchangeability classes *)
Theorem autsA_orbits :
  part (node_ids g) (orbits_from_mappings (node_ids g) (autsA g t nk)) /\
  (forall u v, In u (node_ids g) ->
     (conn (orbits_from_mappings (node_ids g) (autsA g t nk)) u v <-> exists s, is_autA g t nk [ERole; EStoich] s /\ s u = v)).
Proof.
  destruct (vf2_orbits_uf (recode g t nk) wf_recode) as [H1 H2]. rewrite node_ids_recode in *. unfold autsA. split; auto.
  intros u v Hu. rewrite (H2 u v Hu). split; intros (s & Hs & E); exists s; split; auto; apply is_aut_recode; auto.
Qed.
End Recode.

(** the default selection: the same self-maps as the base model's *)
Theorem is_autA_default g t s : wf g -> (is_autA g t [NKind] [ERole; EStoich] s <-> is_aut g s).
Proof.
  intros Hw. split; [|apply is_aut_is_autA; repeat constructor; discriminate].
  intros (H1 & H2 & H3 & H4). repeat split; auto.
  - intros v Hv. specialize (H3 v Hv). unfold nkey in H3. simpl in H3. inversion H3. reflexivity.
  - intros u v Hu Hv. specialize (H4 u v Hu Hv).
    destruct (find_arc g (s u) (s v)) as [[a1 a2]|], (find_arc g u v) as [[b1 b2]|]; simpl in H4; try discriminate; auto.
    inversion H4. reflexivity.
Qed.
