(** C01 — proofs about model/C01_Model.v (its_construct, its_decompose). *)
From Coq Require Import List NArith ZArith Bool Lia.
From SK Require Import lib.LGraph lib.C01_GraphLemmas model.C01_Model.
Import ListNotations.
Local Open Scope Z_scope.

(** * small list facts *)
Lemma NoDup_app_intro {A} (l1 l2 : list A) :
  NoDup l1 -> NoDup l2 -> (forall x, In x l1 -> ~ In x l2) -> NoDup (l1 ++ l2).
Proof.
  induction l1 as [|a l1 IH]; simpl; intros H1 H2 Hd; [exact H2|].
  inversion H1; subst. constructor.
  - rewrite in_app_iff. intros [F|F]; [contradiction|]. apply (Hd a); auto.
  - apply IH; auto.
Qed.

Lemma NoDup_map_fst_filter {V} (p : N * V -> bool) (l : list (N * V)) :
  NoDup (map fst l) -> NoDup (map fst (filter p l)).
Proof.
  induction l as [|[k a] r IH]; simpl; intros Hn; [constructor|]. inversion Hn; subst.
  destruct (p (k, a)); simpl; [constructor|]; auto.
  intros F. apply in_map_iff in F. destruct F as ([k' a'] & E & F). simpl in E. subst.
  apply filter_In in F. destruct F as [F _]. apply H1. change k with (fst (k, a')). apply in_map. exact F.
Qed.

Lemma filter_map_comm {A B} (f : A -> B) (p : A -> bool) (q : B -> bool) (l : list A) :
  (forall x, q (f x) = p x) -> filter q (map f l) = map f (filter p l).
Proof.
  intros H. induction l as [|a l IH]; simpl; [reflexivity|]. rewrite H.
  destruct (p a); simpl; rewrite IH; reflexivity.
Qed.

(** * order lookups *)
Lemma order_in_sym (G : mgraph) u v : order_in G u v = order_in G v u.
Proof. unfold order_in. rewrite adj_sym. reflexivity. Qed.

Lemma order_in_some (G : mgraph) u v o : adj G u v = Some o -> order_in G u v = o.
Proof. unfold order_in. intros ->. reflexivity. Qed.

Lemma order_in_none (G : mgraph) u v : adj G u v = None -> order_in G u v = 0.
Proof. unfold order_in. intros ->. reflexivity. Qed.
Arguments order_in_some [G u v o] _.
Arguments order_in_none [G u v] _.



(** * the edge list of the ITS *)
Definition its_edges (G H : mgraph) : list (N * N * iedge) :=
  map (fun e => let '(u, v, o) := e in (u, v, mk_iedge o (order_in H u v))) (gedges G)
  ++ map (fun e => let '(u, v, o) := e in (u, v, mk_iedge 0 o)) (filter (absent_in G) (gedges H)).

Lemma gedges_its G H : gedges (its_construct G H) = its_edges G H.
Proof. reflexivity. Qed.

Lemma in_its_edges G H a b e :
  In (a, b, e) (its_edges G H) <->
  (exists o, In (a, b, o) (gedges G) /\ e = mk_iedge o (order_in H a b)) \/
  (exists o, In (a, b, o) (gedges H) /\ adj G a b = None /\ e = mk_iedge 0 o).
Proof.
  unfold its_edges. rewrite in_app_iff, !in_map_iff. split.
  - intros [([[u v] o] & E & I)|([[u v] o] & E & I)]; inversion E; subst.
    + left. eauto.
    + right. apply filter_In in I. destruct I as [I Ab]. simpl in Ab.
      destruct (adj G a b) eqn:Ad; [discriminate|]. eauto.
  - intros [(o & I & ->)|(o & I & Ad & ->)].
    + left. exists (a, b, o). auto.
    + right. exists (a, b, o). split; [reflexivity|]. apply filter_In. split; [exact I|].
      simpl. rewrite Ad. reflexivity.
Qed.

(** every stored ITS edge carries (order in G or 0, order in H or 0, difference) *)
Lemma its_edges_determined G H : wf G -> wf H -> forall a b e, In (a, b, e) (its_edges G H) ->
  e = mk_iedge (order_in G a b) (order_in H a b) /\ (adj G a b <> None \/ adj H a b <> None).
Proof.
  intros WG WH a b e I. apply in_its_edges in I. destruct I as [(o & I & ->)|(o & I & Ad & ->)].
  - pose proof (wf_in_adj WG I) as Ad. rewrite (order_in_some Ad). split; [reflexivity|]. left. congruence.
  - pose proof (wf_in_adj WH I) as Ah. rewrite (order_in_some Ah), (order_in_none Ad).
    split; [reflexivity|]. right. congruence.
Qed.

Lemma its_edges_consistent G H : wf G -> wf H -> consistent (its_edges G H).
Proof.
  intros WG WH a b x y Hx Hy.
  assert (forall z, In (a, b, z) (its_edges G H) \/ In (b, a, z) (its_edges G H) ->
                    z = mk_iedge (order_in G a b) (order_in H a b)) as D.
  { intros z [I|I]; apply (its_edges_determined G H WG WH) in I; destruct I as [-> _]; [reflexivity|].
    rewrite (order_in_sym G b a), (order_in_sym H b a). reflexivity. }
  rewrite (D x Hx), (D y Hy). reflexivity.
Qed.

Lemma its_edges_exists G H u v : wf G -> wf H -> adj G u v <> None \/ adj H u v <> None ->
  exists e, In (u, v, e) (its_edges G H) \/ In (v, u, e) (its_edges G H).
Proof.
  intros WG WH Hex. destruct (adj G u v) as [o|] eqn:Ag.
  - apply (wf_adj_iff WG) in Ag. destruct Ag as [I|I].
    + exists (mk_iedge o (order_in H u v)). left. apply in_its_edges. left. eauto.
    + exists (mk_iedge o (order_in H v u)). right. apply in_its_edges. left. eauto.
  - destruct Hex as [F|Hh]; [congruence|]. destruct (adj H u v) as [o|] eqn:Ah; [|congruence].
    apply (wf_adj_iff WH) in Ah. exists (mk_iedge 0 o). destruct Ah as [I|I].
    + left. apply in_its_edges. right. eauto.
    + right. apply in_its_edges. right. exists o. rewrite adj_sym. auto.
Qed.

(** the edge map of the ITS *)
Lemma its_adj G H u v : wf G -> wf H ->
  adj (its_construct G H) u v =
  match adj G u v, adj H u v with
  | None, None => None
  | _, _ => Some (mk_iedge (order_in G u v) (order_in H u v))
  end.
Proof.
  intros WG WH. unfold adj at 1. rewrite gedges_its. apply option_ext. intros x.
  rewrite (find_edge_iff (its_edges_consistent G H WG WH)). split.
  - intros I.
    assert (x = mk_iedge (order_in G u v) (order_in H u v) /\ (adj G u v <> None \/ adj H u v <> None)) as [-> Hex].
    { destruct I as [I|I]; apply (its_edges_determined G H WG WH) in I; [exact I|].
      rewrite (order_in_sym G u v), (order_in_sym H u v), (adj_sym G u v), (adj_sym H u v). exact I. }
    destruct (adj G u v), (adj H u v); try reflexivity. destruct Hex; congruence.
  - intros E.
    assert (adj G u v <> None \/ adj H u v <> None) as Hex.
    { destruct (adj G u v), (adj H u v); try discriminate; [left|left|right]; discriminate. }
    assert (x = mk_iedge (order_in G u v) (order_in H u v)) as ->.
    { destruct (adj G u v), (adj H u v); congruence. }
    destruct (its_edges_exists G H u v WG WH Hex) as (e & I).
    assert (e = mk_iedge (order_in G u v) (order_in H u v)) as <-; [|exact I].
    destruct I as [I|I]; apply (its_edges_determined G H WG WH) in I; destruct I as [-> _]; [reflexivity|].
    rewrite (order_in_sym G v u), (order_in_sym H v u). reflexivity.
Qed.

(** * the node list of the ITS *)
Definition its_base (G H : mgraph) := if base_is_G G H then G else H.
Definition its_other (G H : mgraph) := if base_is_G G H then H else G.

Lemma its_label G H n :
  label (its_construct G H) n =
  match label (its_base G H) n with
  | Some a => Some (its_node G H n (g_amap a))
  | None => match label (its_other G H) n with
            | Some a => Some (its_node G H n (g_amap a))
            | None => None
            end
  end.
Proof.
  unfold label at 1, its_construct. simpl. fold (its_base G H). fold (its_other G H).
  rewrite (assoc_map_val (fun k (v : gnode) => its_node G H k (g_amap v))), assoc_app.
  fold (label (its_base G H) n). destruct (label (its_base G H) n) as [a|] eqn:Lb; simpl; [reflexivity|].
  rewrite (assoc_filter (fun k => negb (has_node (its_base G H) k))).
  unfold has_node. rewrite Lb. simpl. fold (label (its_other G H) n).
  destruct (label (its_other G H) n); reflexivity.
Qed.

Lemma its_node_ids G H n :
  In n (node_ids (its_construct G H)) <-> In n (node_ids G) \/ In n (node_ids H).
Proof.
  assert (In n (node_ids (its_construct G H)) <-> In n (node_ids (its_base G H)) \/ In n (node_ids (its_other G H))) as E.
  { split.
    - intros I. apply node_label_some in I. destruct I as (a & L). rewrite its_label in L.
      destruct (label (its_base G H) n) eqn:Lb; [left; eapply label_some_node; eauto|].
      destruct (label (its_other G H) n) eqn:Lo; [right; eapply label_some_node; eauto|discriminate].
    - intros I.
      assert (label (its_construct G H) n <> None) as L.
      { rewrite its_label. destruct I as [I|I]; apply node_label_some in I; destruct I as (a & L).
        - rewrite L. discriminate.
        - destruct (label (its_base G H) n); [discriminate|]. rewrite L. discriminate. }
      destruct (label (its_construct G H) n) eqn:L'; [eapply label_some_node; eauto|congruence]. }
  rewrite E. unfold its_base, its_other. destruct (base_is_G G H); tauto.
Qed.

(** typesGH of every ITS node *)
Lemma its_label_types G H n a : label (its_construct G H) n = Some a ->
  i_G a = side_tuple G n /\ i_H a = side_tuple H n /\
  i_el a = a_el (side_tuple G n) /\ i_ch a = a_ch (side_tuple G n) /\
  i_extra a = Some (a_arom (side_tuple G n), a_hc (side_tuple G n), a_nb (side_tuple G n)).
Proof.
  rewrite its_label. intros L.
  assert (exists m, a = its_node G H n m) as (m & ->).
  { destruct (label (its_base G H) n); [inversion L; eauto|].
    destruct (label (its_other G H) n); [inversion L; eauto|discriminate]. }
  simpl. auto.
Qed.

Lemma its_nodup G H : wf G -> wf H -> NoDup (node_ids (its_construct G H)).
Proof.
  intros WG WH. unfold node_ids, its_construct. simpl. fold (its_base G H). fold (its_other G H).
  rewrite (map_fst_map_val (fun k (v : gnode) => its_node G H k (g_amap v))), map_app.
  assert (NoDup (node_ids (its_base G H)) /\ NoDup (node_ids (its_other G H))) as [Nb No].
  { unfold its_base, its_other. destruct (base_is_G G H); split; first [apply WG|apply WH]. }
  apply NoDup_app_intro.
  - exact Nb.
  - apply NoDup_map_fst_filter. exact No.
  - intros x Ix F. apply in_map_iff in F. destruct F as ([k a] & E & F). simpl in E. subst.
    apply filter_In in F. destruct F as [_ F]. simpl in F.
    apply has_node_spec in Ix. rewrite Ix in F. discriminate.
Qed.

Lemma its_edges_simple G H : wf G -> wf H -> simple (its_edges G H).
Proof.
  intros WG WH. unfold its_edges. apply simple_app.
  - apply (simple_map_attr (fun u v (o : Z) => mk_iedge o (order_in H u v))). apply wf_simple. exact WG.
  - apply (simple_map_attr (fun _ _ (o : Z) => mk_iedge 0 o)). apply simple_filter. apply wf_simple. exact WH.
  - intros a b x I. apply in_map_iff in I. destruct I as ([[u v] o] & E & I). inversion E; subst.
    apply find_edge_none. intros y. split; intros F; apply in_map_iff in F;
      destruct F as ([[u' v'] o'] & E' & F); inversion E'; subst; apply filter_In in F; destruct F as [_ F]; simpl in F.
    + rewrite (wf_in_adj WG I) in F. discriminate.
    + rewrite adj_sym, (wf_in_adj WG I) in F. discriminate.
Qed.

Lemma its_wf G H : wf G -> wf H -> wf (its_construct G H).
Proof.
  intros WG WH. apply wf_intro.
  - apply its_nodup; assumption.
  - intros a b x I. rewrite gedges_its in I. rewrite !its_node_ids. apply in_its_edges in I.
    destruct I as [(o & I & _)|(o & I & _ & _)].
    + destruct (wf_edge_nodes WG I) as (Ha & Hb & Hab). tauto.
    + destruct (wf_edge_nodes WH I) as (Ha & Hb & Hab). tauto.
  - rewrite gedges_its. apply its_edges_simple; assumption.
Qed.

Lemma its_std_consistent G H : std_consistent (its_construct G H).
Proof.
  intros u v x I. rewrite gedges_its in I. apply in_its_edges in I.
  destruct I as [(o & _ & ->)|(o & _ & _ & ->)]; reflexivity.
Qed.

(** * its_decompose *)
Lemma dec_label sn se (I : its) n :
  label (dec_side sn se I) n = option_map (fun a => dec_node (sn a) n) (label I n).
Proof.
  unfold label, dec_side. simpl. apply (assoc_map_val (fun k (a : inode) => dec_node (sn a) k)).
Qed.

Lemma in_dec_edges sn se (I : its) a b o :
  In (a, b, o) (gedges (dec_side sn se I)) <-> exists x, In (a, b, x) (gedges I) /\ 0 < se x /\ o = se x.
Proof.
  unfold dec_side. simpl. rewrite in_flat_map. split.
  - intros ([[u v] x] & I1 & I2). destruct (0 <? se x) eqn:P; [|destruct I2].
    destruct I2 as [E|[]]. inversion E; subst. apply Z.ltb_lt in P. eauto.
  - intros (x & I1 & P & ->). exists (a, b, x). split; [exact I1|]. apply Z.ltb_lt in P. rewrite P. left. reflexivity.
Qed.

Lemma dec_adj sn se (I : its) u v : consistent (gedges I) ->
  adj (dec_side sn se I) u v =
  match adj I u v with Some x => if 0 <? se x then Some (se x) else None | None => None end.
Proof.
  intros Hc.
  assert (consistent (gedges (dec_side sn se I))) as Hd.
  { intros a b x y Hx Hy.
    assert (forall z, In (a, b, z) (gedges (dec_side sn se I)) \/ In (b, a, z) (gedges (dec_side sn se I)) ->
                      exists w, (In (a, b, w) (gedges I) \/ In (b, a, w) (gedges I)) /\ z = se w) as D.
    { intros z [F|F]; apply in_dec_edges in F; destruct F as (w & F & _ & ->); eauto. }
    destruct (D x Hx) as (w1 & I1 & ->), (D y Hy) as (w2 & I2 & ->). f_equal. eapply Hc; eauto. }
  apply option_ext. intros o. unfold adj at 1. rewrite (find_edge_iff Hd), !in_dec_edges. split.
  - intros [(x & I1 & P & ->)|(x & I1 & P & ->)].
    + assert (adj I u v = Some x) as -> by (apply (find_edge_iff Hc); auto).
      apply Z.ltb_lt in P. rewrite P. reflexivity.
    + assert (adj I u v = Some x) as -> by (apply (find_edge_iff Hc); auto).
      apply Z.ltb_lt in P. rewrite P. reflexivity.
  - destruct (adj I u v) as [x|] eqn:Ad; [|discriminate].
    destruct (0 <? se x) eqn:P; [|discriminate]. intros [= <-]. apply Z.ltb_lt in P.
    apply (find_edge_iff Hc) in Ad. destruct Ad as [Ad|Ad]; [left|right]; eauto.
Qed.

Lemma dec_amap_id sn se (I : its) : amap_id (dec_side sn se I).
Proof.
  intros n a L. rewrite dec_label in L. destruct (label I n); inversion L. reflexivity.
Qed.

(** * C01_roundtrip *)
Lemma orders_pos_adj (G : mgraph) u v o : orders_pos G -> adj G u v = Some o -> 0 < o.
Proof.
  intros P Ad. apply find_edge_some_in in Ad. destruct Ad as [I|I]; eapply P; eauto.
Qed.

Lemma same_nodes_label_none (G H : mgraph) n : same_nodes G H -> label G n = None -> label H n = None.
Proof.
  intros S L. destruct (label H n) eqn:LH; [|reflexivity]. exfalso.
  apply label_some_node, S, node_label_some in LH. destruct LH. congruence.
Qed.

Lemma roundtrip_labels G H : wf G -> wf H -> same_nodes G H ->
  forall n,
    option_map sel4 (label (fst (its_decompose (its_construct G H))) n) = option_map sel4 (label G n) /\
    option_map sel4 (label (snd (its_decompose (its_construct G H))) n) = option_map sel4 (label H n).
Proof.
  intros WG WH S n. simpl. rewrite !dec_label.
  destruct (label (its_construct G H) n) as [a|] eqn:L.
  - destruct (its_label_types G H n a L) as (EG & EH & _). simpl. rewrite EG, EH.
    assert (In n (node_ids G)) as IG.
    { apply label_some_node in L. apply its_node_ids in L. destruct L as [L|L]; [exact L|apply S; exact L]. }
    pose proof (proj1 (S n) IG) as IH. apply node_label_some in IG, IH.
    destruct IG as (ag & LG), IH as (ah & LH). unfold side_tuple. rewrite LG, LH. split; reflexivity.
  - assert (label G n = None) as LG.
    { destruct (label G n) eqn:LG; [|reflexivity]. exfalso.
      assert (In n (node_ids (its_construct G H))) as I by (apply its_node_ids; left; eapply label_some_node; eauto).
      apply node_label_some in I. destruct I. congruence. }
    rewrite LG, (same_nodes_label_none _ _ _ S LG). split; reflexivity.
Qed.

Lemma roundtrip_adj G H : wf G -> wf H -> orders_pos G -> orders_pos H ->
  forall u v,
    adj (fst (its_decompose (its_construct G H))) u v = adj G u v /\
    adj (snd (its_decompose (its_construct G H))) u v = adj H u v.
Proof.
  intros WG WH PG PH u v. simpl.
  assert (consistent (gedges (its_construct G H))) as Hc by (rewrite gedges_its; apply its_edges_consistent; assumption).
  rewrite !(dec_adj _ _ _ _ _ Hc), (its_adj G H u v WG WH).
  destruct (adj G u v) as [og|] eqn:Ag, (adj H u v) as [oh|] eqn:Ah; simpl;
    rewrite ?(order_in_some Ag), ?(order_in_some Ah), ?(order_in_none Ag), ?(order_in_none Ah);
    try (pose proof (orders_pos_adj _ _ _ _ PG Ag) as P1; apply Z.ltb_lt in P1; rewrite P1);
    try (pose proof (orders_pos_adj _ _ _ _ PH Ah) as P2; apply Z.ltb_lt in P2; rewrite P2);
    auto.
Qed.

Theorem roundtrip G H : wf G -> wf H -> same_nodes G H -> orders_pos G -> orders_pos H ->
  geq_sel (fst (its_decompose (its_construct G H))) G /\ amap_id (fst (its_decompose (its_construct G H))) /\
  geq_sel (snd (its_decompose (its_construct G H))) H /\ amap_id (snd (its_decompose (its_construct G H))).
Proof.
  intros WG WH S PG PH. unfold geq_sel. repeat split.
  - intros n. apply (roundtrip_labels G H WG WH S).
  - intros u v. apply (roundtrip_adj G H WG WH PG PH).
  - apply dec_amap_id.
  - intros n. apply (roundtrip_labels G H WG WH S).
  - intros u v. apply (roundtrip_adj G H WG WH PG PH).
  - apply dec_amap_id.
Qed.

(** * C01_union *)
Theorem union G H : wf G -> wf H ->
  let I := its_construct G H in
  (forall n, In n (node_ids I) <-> In n (node_ids G) \/ In n (node_ids H)) /\
  (forall n a, label I n = Some a -> i_G a = side_tuple G n /\ i_H a = side_tuple H n) /\
  (forall u v a b s, adj I u v = Some (IE a b s) <->
      a = order_in G u v /\ b = order_in H u v /\ (adj G u v <> None \/ adj H u v <> None) /\ s = a - b) /\
  std_consistent I /\ wf I.
Proof.
  intros WG WH I. subst I. split; [|split; [|split; [|split]]].
  - apply its_node_ids.
  - intros n a L. destruct (its_label_types G H n a L) as (E1 & E2 & _). split; assumption.
  - intros u v a b s. rewrite (its_adj G H u v WG WH). split.
    + intros E.
      assert (IE a b s = mk_iedge (order_in G u v) (order_in H u v) /\ (adj G u v <> None \/ adj H u v <> None)) as [E' Hex].
      { destruct (adj G u v), (adj H u v); inversion E; (split; [reflexivity|]); [left|left|right]; discriminate. }
      inversion E'; subst. auto.
    + intros (-> & -> & Hex & ->).
      destruct (adj G u v), (adj H u v); try reflexivity. destruct Hex; congruence.
  - apply its_std_consistent.
  - apply its_wf; assumption.
Qed.

(** * C01_equivariant *)
Section Equivariant.
Variable f : N -> N.
Hypothesis Hinj : forall a b, f a = f b -> a = b.

Lemma side_tuple_relabel (G : mgraph) n : side_tuple (relabel f G) (f n) = side_tuple G n.
Proof. unfold side_tuple. rewrite (label_relabel Hinj). reflexivity. Qed.

Lemma its_node_relabel G H n m : its_node (relabel f G) (relabel f H) (f n) m = its_node G H n m.
Proof. unfold its_node. rewrite !side_tuple_relabel. reflexivity. Qed.

Lemma order_in_relabel (G : mgraph) u v : order_in (relabel f G) (f u) (f v) = order_in G u v.
Proof. unfold order_in. rewrite (adj_relabel Hinj). reflexivity. Qed.

Lemma base_is_G_relabel (G H : mgraph) : base_is_G (relabel f G) (relabel f H) = base_is_G G H.
Proof. unfold base_is_G, relabel. simpl. rewrite !map_length. reflexivity. Qed.

Definition its_build (G H base other : mgraph) : its :=
  LG (map (fun p => (fst p, its_node G H (fst p) (g_amap (snd p))))
          (gnodes base ++ filter (fun p => negb (has_node base (fst p))) (gnodes other)))
     (its_edges G H).

Lemma construct_build G H : its_construct G H = its_build G H (its_base G H) (its_other G H).
Proof. reflexivity. Qed.

Lemma lg_eq {A B} (g h : lgraph A B) : gnodes g = gnodes h -> gedges g = gedges h -> g = h.
Proof. destruct g, h. simpl. intros -> ->. reflexivity. Qed.

Lemma gnodes_relabel {A B} (g : lgraph A B) : gnodes (relabel f g) = map (fun p => (f (fst p), snd p)) (gnodes g).
Proof. reflexivity. Qed.
Lemma gedges_relabel {A B} (g : lgraph A B) :
  gedges (relabel f g) = map (fun e => let '(a, b, x) := e in (f a, f b, x)) (gedges g).
Proof. reflexivity. Qed.

Lemma its_edges_equivariant G H :
  its_edges (relabel f G) (relabel f H) = map (fun e => let '(a, b, x) := e in (f a, f b, x)) (its_edges G H).
Proof.
  unfold its_edges. rewrite map_app, !gedges_relabel. f_equal.
  - rewrite !map_map. apply map_ext. intros [[u v] o]. rewrite order_in_relabel. reflexivity.
  - rewrite (filter_map_comm (fun e : N * N * Z => let '(a, b, x) := e in (f a, f b, x)) (absent_in G)).
    + rewrite !map_map. apply map_ext. intros [[u v] o]. reflexivity.
    + intros [[u v] o]. simpl. rewrite (adj_relabel Hinj). reflexivity.
Qed.

Lemma build_equivariant G H base other :
  its_build (relabel f G) (relabel f H) (relabel f base) (relabel f other) = relabel f (its_build G H base other).
Proof.
  apply lg_eq.
  - rewrite gnodes_relabel. cbn [its_build gnodes]. rewrite !gnodes_relabel.
    rewrite (filter_map_comm (fun p : N * gnode => (f (fst p), snd p)) (fun p => negb (has_node base (fst p)))).
    + rewrite <- map_app, !map_map. apply map_ext. intros [k a]. cbn [fst snd]. rewrite its_node_relabel. reflexivity.
    + intros [k a]. cbn [fst snd]. rewrite (has_node_relabel Hinj). reflexivity.
  - rewrite gedges_relabel. cbn [its_build gedges]. apply its_edges_equivariant.
Qed.

Lemma construct_equivariant G H :
  its_construct (relabel f G) (relabel f H) = relabel f (its_construct G H).
Proof.
  rewrite !construct_build, <- build_equivariant. unfold its_base, its_other. rewrite base_is_G_relabel.
  destruct (base_is_G G H); reflexivity.
Qed.

Lemma dec_side_equivariant sn se (I : its) :
  dec_side sn se (relabel f I) = set_amap (relabel f (dec_side sn se I)).
Proof.
  unfold dec_side, set_amap, relabel. simpl. f_equal.
  - rewrite !map_map. apply map_ext. intros [k a]. reflexivity.
  - induction (gedges I) as [|[[u v] x] r IH]; simpl; [reflexivity|].
    rewrite map_app, IH. destruct (0 <? se x); reflexivity.
Qed.

Lemma decompose_equivariant (I : its) :
  its_decompose (relabel f I) =
  (set_amap (relabel f (fst (its_decompose I))), set_amap (relabel f (snd (its_decompose I)))).
Proof. unfold its_decompose. simpl. rewrite !dec_side_equivariant. reflexivity. Qed.
End Equivariant.

Theorem equivariant (f : N -> N) : (forall a b, f a = f b -> a = b) -> forall (G H : mgraph) (I : its),
  its_construct (relabel f G) (relabel f H) = relabel f (its_construct G H) /\
  its_decompose (relabel f I) =
    (set_amap (relabel f (fst (its_decompose I))), set_amap (relabel f (snd (its_decompose I)))).
Proof. intros Hinj G H I. split; [apply construct_equivariant|apply decompose_equivariant]; exact Hinj. Qed.

(** set_amap is the identity on what its_decompose returns *)
Lemma set_amap_dec sn se (I : its) : set_amap (dec_side sn se I) = dec_side sn se I.
Proof.
  unfold set_amap, dec_side. simpl. f_equal. rewrite map_map. apply map_ext. intros [k a]. reflexivity.
Qed.

(** * C01_one_sided_refuted: a node present on the reactant side only comes back as a "*" atom on the product side *)
Definition ex_G1 : mgraph := LG [(1%N, GN 70%N false 4 0 (Some []) 1)] [].
Definition ex_H0 : mgraph := LG [] [].

Lemma wf_nil_edges {A B} (ns : list (N * A)) : NoDup (map fst ns) -> wf (LG ns ([] : list (N * N * B))).
Proof. intros Hn. apply wf_intro; simpl; [exact Hn|intros ? ? ? []|constructor]. Qed.

Theorem one_sided_refuted :
  exists G H : mgraph, wf G /\ wf H /\ orders_pos G /\ orders_pos H /\ ~ same_nodes G H /\
    ~ geq_sel (snd (its_decompose (its_construct G H))) H.
Proof.
  exists ex_G1, ex_H0. split; [|split; [|split; [|split; [|split]]]].
  - apply wf_nil_edges. simpl. constructor; [intros []|constructor].
  - apply wf_nil_edges. constructor.
  - intros u v o [].
  - intros u v o [].
  - intros S. destruct (proj1 (S 1%N)). left. reflexivity.
  - intros [L _]. specialize (L 1%N). vm_compute in L. discriminate.
Qed.

(** * C01_rsmi_partial: the string round trip relative to the RDKit contract S1 *)
Lemma geq_sel_trans (g1 g2 g3 : mgraph) : geq_sel g1 g2 -> geq_sel g2 g3 -> geq_sel g1 g3.
Proof. intros [A1 A2] [B1 B2]. split; intros; etransitivity; eauto. Qed.

Theorem rsmi_partial (rsmi : Type) (parse : rsmi -> option (mgraph * mgraph))
        (write : mgraph -> mgraph -> its -> option rsmi) :
  (forall g h I s, write g h I = Some s ->
     exists g' h', parse s = Some (g', h') /\ geq_sel g' g /\ geq_sel h' h) ->
  forall r G H, parse r = Some (G, H) -> wf G -> wf H -> same_nodes G H -> orders_pos G -> orders_pos H ->
  forall I s, rsmi_to_its parse r = Some I -> its_to_rsmi write I = Some s ->
  exists G' H', parse s = Some (G', H') /\ geq_sel G' G /\ geq_sel H' H.
Proof.
  intros S1 r G H P WG WH S PG PH I s RI WR.
  unfold rsmi_to_its in RI. rewrite P in RI. inversion RI; subst I. clear RI.
  unfold its_to_rsmi in WR. destruct (its_decompose (its_construct G H)) as [g h] eqn:D.
  destruct (S1 _ _ _ _ WR) as (g' & h' & P' & E1 & E2).
  destruct (roundtrip G H WG WH S PG PH) as (R1 & _ & R2 & _). rewrite D in R1, R2. simpl in R1, R2.
  exists g', h'. split; [exact P'|]. split; eapply geq_sel_trans; eauto.
Qed.

(** * non-vacuity: a 4-atom substitution  C1-Br2 + O3-H4 -> C1-O3 + Br2-H4  *)
Definition ex_na (el : N) (hc : Z) (m : Z) : gnode := GN el false hc 0 (Some []) m.
Definition ex_G : mgraph :=
  LG [(1%N, ex_na 70%N 3 1); (2%N, ex_na 17013%N 0 2); (3%N, ex_na 82%N 1 3); (4%N, ex_na 2%N 0 4)]
     [(1%N, 2%N, 2); (3%N, 4%N, 2)].
Definition ex_H : mgraph :=
  LG [(1%N, ex_na 70%N 3 1); (2%N, ex_na 17013%N 0 2); (3%N, ex_na 82%N 1 3); (4%N, ex_na 2%N 0 4)]
     [(3%N, 1%N, 2); (4%N, 2%N, 2)].

Lemma ex_G_wf : wf ex_G.
Proof.
  apply wf_intro; simpl.
  - repeat constructor; simpl; intuition discriminate.
  - intros a b x [E|[E|[]]]; inversion E; subst; simpl; intuition discriminate.
  - repeat constructor.
Qed.
Lemma ex_H_wf : wf ex_H.
Proof.
  apply wf_intro; simpl.
  - repeat constructor; simpl; intuition discriminate.
  - intros a b x [E|[E|[]]]; inversion E; subst; simpl; intuition discriminate.
  - repeat constructor.
Qed.
Lemma ex_same : same_nodes ex_G ex_H.
Proof. intros n. reflexivity. Qed.
Lemma ex_pos_G : orders_pos ex_G.
Proof. intros u v o [E|[E|[]]]; inversion E; lia. Qed.
Lemma ex_pos_H : orders_pos ex_H.
Proof. intros u v o [E|[E|[]]]; inversion E; lia. Qed.

(** the hypotheses of C01_roundtrip / C01_union are satisfiable and the ITS is not trivial:
    four bonds, all of them changed *)
Example C01_nonvacuous :
  wf ex_G /\ wf ex_H /\ same_nodes ex_G ex_H /\ orders_pos ex_G /\ orders_pos ex_H /\
  adj (its_construct ex_G ex_H) 1%N 2%N = Some (IE 2 0 2) /\
  adj (its_construct ex_G ex_H) 1%N 3%N = Some (IE 0 2 (-2)) /\
  length (gedges (its_construct ex_G ex_H)) = 4%nat /\
  gedges (fst (its_decompose (its_construct ex_G ex_H))) = gedges ex_G.
Proof.
  split; [apply ex_G_wf|]. split; [apply ex_H_wf|]. split; [apply ex_same|]. split; [apply ex_pos_G|].
  split; [apply ex_pos_H|]. repeat split.
Qed.

(** equivariance is not vacuous: a non-identity injective renumbering moves the ITS *)
Example C01_equivariant_nonvacuous :
  its_construct (relabel (N.add 10) ex_G) (relabel (N.add 10) ex_H) = relabel (N.add 10) (its_construct ex_G ex_H) /\
  relabel (N.add 10) (its_construct ex_G ex_H) <> its_construct ex_G ex_H.
Proof.
  split; [apply construct_equivariant; intros a b; apply N.add_cancel_l|]. intros E. vm_compute in E. discriminate.
Qed.

(** the RDKit contract S1 is satisfiable: with reaction strings = graph pairs, parse = Some, write = Some *)
Example C01_rsmi_nonvacuous :
  let parse := fun r : mgraph * mgraph => Some r in
  let write := fun (g h : mgraph) (_ : its) => Some (g, h) in
  (forall g h I s, write g h I = Some s -> exists g' h', parse s = Some (g', h') /\ geq_sel g' g /\ geq_sel h' h) /\
  exists s, its_to_rsmi write (its_construct ex_G ex_H) = Some s.
Proof.
  split.
  - intros g h I s [= <-]. exists g, h. repeat split; reflexivity.
  - eexists. reflexivity.
Qed.
