From Coq Require Import List NArith ZArith Bool Lia.
From SK Require Import lib.LGraph model.C01_Model.
Lemma stub_c01 : forall a n, g_amap (dec_node a n) = Z.of_N n. Proof. reflexivity. Qed.
