(** C09 — back-end nauty: invariance premise of C09_numbering_independent_partial / C09_fixed_point_partial discharged
    for reactant graphs whose atoms are all distinguishable ([rigid], proof/C09_NautyRigid.v, on top of C08). *)
From Coq Require Import List NArith ZArith Bool Arith Lia Permutation.
From SK Require Import lib.LGraph lib.C01_GraphLemmas model.C01_Model model.C09_Model
  proof.C09_Lists proof.C09_Canon proof.C09_Equiv proof.C09_Main proof.C09_Indep proof.C09_Indep2 proof.C09_WL proof.C09_NautyRigid.
From SK Require model.C08_Model proof.C08_Spec.
Import ListNotations.

Lemma wf_to_c08 (G : mgraph) : wf G -> wf (to_c08 G).
Proof.
  intros W. pose proof W as (A & B & _). apply wf_intro.
  - rewrite node_ids_to_c08. exact A.
  - intros a b x I. rewrite node_ids_to_c08. unfold to_c08 in I. simpl in I. apply in_map_iff in I.
    destruct I as ([[u v] o] & E & I). inversion E; subst. apply (B a b o I).
  - unfold to_c08. simpl. apply (simple_map_attr (fun _ _ (o : Z) => C08_Model.EA o None)). apply wf_simple. exact W.
Qed.

Lemma geq_cov_to_c08 (p : N -> N) (G G2' : mgraph) : relabelled_by p G G2' ->
  C08_Spec.geq_cov (relabel p (to_c08 G)) (to_c08 (set_amap G2')).
Proof.
  intros (RP & RE). split.
  - unfold C08_Spec.cov_nodes, relabel, to_c08, set_amap. simpl. rewrite !map_map. simpl.
    apply Permutation_sym. eapply Permutation_trans; [apply Permutation_map; exact RP|].
    unfold relabel. simpl. rewrite map_map. simpl. apply Permutation_refl.
  - unfold C08_Spec.cov_edges, relabel, to_c08, set_amap. simpl. rewrite RE. unfold relabel. simpl. rewrite !map_map.
    erewrite map_ext; [apply Permutation_refl|]. intros [[u v] o]. reflexivity.
Qed.

(** the invariance premise for nauty *)
Theorem nauty_invariance (G G2' : mgraph) (p : N -> N) :
  (forall a b, p a = p b -> a = b) -> wf G -> relabelled_by p G G2' ->
  C08_Spec.els_ok (to_c08 G) -> rigid (to_c08 G) ->
  forall n, sigma_of (nauty_order (set_amap G2')) (p n) = sigma_of (nauty_order G) n.
Proof.
  intros Pinj WG RG Eg Hr n. unfold nauty_order.
  rewrite (nauty_perm_rigid p Pinj (to_c08 G) (to_c08 (set_amap G2'))); auto.
  - apply sigma_of_map. exact Pinj.
  - apply wf_to_c08. exact WG.
  - apply wf_to_c08. apply wf_set_amap. apply (rel_wf p Pinj G G2' WG RG).
  - apply geq_cov_to_c08. exact RG.
Qed.

(** numbering / atom-order independence of [canonicalise_nauty] (what [run_canon_nauty] evaluates) *)
Theorem numbering_independent_nauty (G H G2' H2' : mgraph) (p : N -> N) :
  parsed G -> parsed H -> (exists s, In s (node_ids G) /\ In s (node_ids H)) ->
  (forall a b, p a = p b -> a = b) -> (forall n, In n (node_ids G) \/ In n (node_ids H) -> p n <> 0%N) ->
  (forall m n, In m (node_ids H) -> ~ In m (node_ids G) -> In n (node_ids H) -> ~ In n (node_ids G) -> (m <= n)%N -> (p m <= p n)%N) ->
  relabelled_by p G G2' -> relabelled_by p H H2' ->
  C08_Spec.els_ok (to_c08 G) -> rigid (to_c08 G) ->
  exists (pairs1 pairs2 : list (N * N)) (Gc1 Gc2 Hc1 Hc2 : mgraph),
    canonicalise_nauty G H = Some (Gc1, pairs1, Hc1) /\
    canonicalise_nauty (set_amap G2') (set_amap H2') = Some (Gc2, pairs2, Hc2) /\
    same_upto_order Gc2 Gc1 /\ same_upto_order Hc2 Hc1.
Proof.
  intros PG PH Hs Pinj Ppos Pmono RG2 RH2 Eg Hr. pose proof PG as (WG & _).
  assert (WG2 : wf (set_amap G2')) by (apply wf_set_amap; apply (rel_wf p Pinj G G2' WG RG2)).
  pose proof (nauty_enumerates G WG) as En1. pose proof (nauty_enumerates (set_amap G2') WG2) as En2.
  destruct (presentation_independent_mono G H G2' H2' (canon_relabel (nauty_order G) G) (canon_relabel (nauty_order (set_amap G2')) (set_amap G2'))
              (nauty_order G) (nauty_order (set_amap G2')) p PG PH Hs Pinj Ppos Pmono RG2 RH2 En1 (relabelled_exact _ G)
              En2 (relabelled_exact _ _))
    as (pairs1 & pairs2 & Hc1 & Hc2 & E1 & E2 & S1 & S2).
  - intros n _. apply (nauty_invariance G G2' p Pinj WG RG2 Eg Hr).
  - exists pairs1, pairs2, (set_amap (canon_relabel (nauty_order G) G)), (set_amap (canon_relabel (nauty_order (set_amap G2')) (set_amap G2'))),
      (set_amap Hc1), (set_amap Hc2). unfold canonicalise_nauty. auto.
Qed.

(** fixed point of [canonicalise_nauty] *)
Theorem fixed_point_nauty (G H : mgraph) :
  parsed G -> parsed H -> (exists s, In s (node_ids G) /\ In s (node_ids H)) ->
  C08_Spec.els_ok (to_c08 G) -> rigid (to_c08 G) ->
  exists (pairs1 : list (N * N)) (Gc1 Hc1 : mgraph),
    canonicalise_nauty G H = Some (Gc1, pairs1, Hc1) /\
    exists (pairs2 : list (N * N)) (Gc2 Hc2 : mgraph),
      canonicalise_nauty Gc1 Hc1 = Some (Gc2, pairs2, Hc2) /\ same_upto_order Gc2 Gc1 /\ same_upto_order Hc2 Hc1.
Proof.
  intros PG PH Hs Eg Hr. pose proof PG as (WG & AG & PG'). pose proof PH as (WH & AH & PH').
  pose proof (nauty_enumerates G WG) as En1. pose proof En1 as (O1 & I1).
  set (order1 := nauty_order G) in *. set (Gc1 := canon_relabel order1 G).
  pose proof (relabelled_exact (sigma_of order1) G) as R1. fold (canon_relabel order1 G) in R1. fold Gc1 in R1.
  destruct (canonicalise_with_spec G H Gc1 order1 WG WH AG AH PG' PH' O1 I1 R1 Hs) as (Hc1 & E1 & RF1 & EH1 & Fs1 & _).
  set (f1 := C09_Canon.f H Gc1 order1) in *.
  destruct (fixed_point_gen G H Gc1 order1 PG PH Hs En1 R1) as (pairs1 & Gc1' & Hc1' & E1' & Hfix).
  rewrite E1 in E1'. assert (EG : set_amap Gc1 = Gc1') by congruence. assert (EHc : set_amap Hc1 = Hc1') by congruence. subst Gc1' Hc1'.
  exists (aam_pairs Gc1 H), (set_amap Gc1), (set_amap Hc1). split; [exact E1|].
  assert (WGc : wf (set_amap Gc1)) by (apply wf_set_amap; apply (rel_wf f1 (fun a b => tau_injective _ _ a b) G Gc1 WG RF1)).
  pose proof (nauty_enumerates (set_amap Gc1) WGc) as En2.
  assert (Hid : forall m, In m (node_ids (set_amap Gc1)) -> sigma_of (nauty_order (set_amap Gc1)) m = m).
  { intros m I. rewrite node_ids_set_amap in I. apply (rel_node_ids f1 G Gc1 RF1) in I. apply in_map_iff in I. destruct I as (n & <- & In').
    rewrite (nauty_invariance G Gc1 f1 (fun a b => tau_injective _ _ a b) WG RF1 Eg Hr n). symmetry. apply Fs1. apply I1. exact In'. }
  destruct (Hfix (nauty_order (set_amap Gc1)) (canon_relabel (nauty_order (set_amap Gc1)) (set_amap Gc1)) En2
              (relabelled_exact _ _) Hid) as (pairs2 & Hc2' & E2 & S1 & S2).
  exists pairs2, (set_amap (canon_relabel (nauty_order (set_amap Gc1)) (set_amap Gc1))), Hc2'.
  unfold canonicalise_nauty. auto.
Qed.

(** non-vacuity: CH3Br + OH- is rigid (three different elements) and its symbols are alphanumeric *)
Lemma combine_eq (p : list N) : forall p', length p = length p' -> (forall a a', In (a, a') (combine p p') -> a = a') -> p = p'.
Proof.
  induction p as [|x p IH]; intros [|y p'] Hl Hc; simpl in *; try discriminate; [reflexivity|].
  f_equal; [apply Hc; left; reflexivity|]. apply IH; [lia|]. intros a a' I. apply Hc. right. exact I.
Qed.
Example ex_G_rigid : rigid (to_c08 ex_G) /\ C08_Spec.els_ok (to_c08 ex_G).
Proof.
  split.
  - intros p p' Pp Pp' (Z1 & _). apply combine_eq; [rewrite (Permutation_length Pp), (Permutation_length Pp'); reflexivity|].
    intros a a' I. pose proof (Z1 a a' I) as E.
    assert (Ia : In a (node_ids (to_c08 ex_G))) by (eapply Permutation_in; [exact Pp|]; apply in_combine_l in I; exact I).
    assert (Ia' : In a' (node_ids (to_c08 ex_G))) by (eapply Permutation_in; [exact Pp'|]; apply in_combine_r in I; exact I).
    simpl in Ia, Ia'. destruct Ia as [<-|[<-|[<-|[]]]]; destruct Ia' as [<-|[<-|[<-|[]]]]; try reflexivity; vm_compute in E; discriminate.
  - intros q I. simpl in I. destruct I as [<-|[<-|[<-|[]]]]; vm_compute; reflexivity.
Qed.
