(** C03 — non-vacuity: concrete inputs that satisfy the hypotheses of every theorem of props/C03.v, and on which the
    conclusions say something (a bond really changes, a charge really moves, the additive branch is really taken, no
    ITS is really produced).  Intermediate values are top-level Definitions (no destructuring lets in statements). *)
From Coq Require Import List NArith ZArith Bool Lia Permutation.
From SK Require Import lib.Tok lib.LGraph model.C03_Model proof.C03_Proof proof.C03_Glue proof.C03_Backward proof.C03_ExplicitH proof.C03_ExplicitShape proof.C03_ExplicitTotal proof.C03_Expand proof.C03_Default proof.C03_Iso proof.C03_Skeleton proof.C03_StripCounts proof.C03_Wiring proof.C03_WiringCount proof.C03_PairIds proof.C03_StripExact proof.C03_StripCor proof.C03_PairIdsComplete proof.C03_DefaultBalance proof.C03_DefaultEnd proof.C03_DefaultWiring.
Import ListNotations.
Local Open Scope Z_scope.

Definition C : N := 67%N.  Definition Nn : N := 78%N.  Definition Br : N := 17010%N.
Definition at_ (el : N) (hc ch : Z) : nattr := NA el false hc ch [].
Definition same (t : nattr) : inode := IN t t 0 None.

(** quaternisation-like rule  C-Br . N  >>  C-N+ . Br-   (rule atoms 10, 11, 12) *)
Definition ex_rc : its :=
  LG [(10%N, same (at_ C 0 0)); (11%N, IN (at_ Br 0 0) (at_ Br 0 (-1)) 0 None); (12%N, IN (at_ Nn 0 0) (at_ Nn 0 1) 0 None)]
     [(10%N, 11%N, (2, 0, 2)); (10%N, 12%N, (0, 2, -2))].
Definition ex_m : mapping := [(10%N, 1%N); (11%N, 2%N); (12%N, 3%N)].

(** substrate CH3Br . NH3 . CH4 (atom 4 is a bystander) *)
Definition ex_host : hostg :=
  LG [(1%N, at_ C 3 0); (2%N, at_ Br 0 0); (3%N, at_ Nn 3 0); (4%N, at_ C 4 0)] [(1%N, 2%N, 2)].
Definition ex_T : its := match glue ex_host ex_rc ex_m with Some t => t | None => LG [] [] end.

Example ex_hyps : wf_hostb ex_host = true /\ wf_rcb ex_rc = true /\ match_rcb ex_host ex_rc ex_m = true /\
                  glue ex_host ex_rc ex_m = Some ex_T /\ balancedb ex_rc = true.
Proof. vm_compute. repeat split; reflexivity. Qed.

(** the conclusions bite: the C-Br bond is broken, the C-N bond formed, N and Br change charge, atom 4 and nothing else changes *)
Example ex_T_value :
  adj ex_T 1%N 2%N = Some (2, 0, 2) /\ adj ex_T 3%N 1%N = Some (0, 2, -2) /\
  option_map (fun a => (a_ch (iG a), a_ch (iH a))) (label ex_T 3%N) = Some (0, 1) /\
  option_map (fun a => (a_ch (iG a), a_ch (iH a))) (label ex_T 2%N) = Some (0, -1) /\
  label ex_T 4%N = Some (same (at_ C 4 0)).
Proof. vm_compute. repeat split; reflexivity. Qed.

(** instances of the theorems on the example (hypotheses discharged by computation) *)
Example ex_left_is_host : gnodes (fst (its_decompose ex_T)) = gnodes (mol_of_host ex_host) /\
                          (forall a b, adj (fst (its_decompose ex_T)) a b = adj ex_host a b).
Proof. destruct ex_hyps as (H1 & H2 & H3 & H4 & _). exact (left_is_host_dec ex_host ex_rc ex_m ex_T H1 H2 H3 H4). Qed.
Example ex_left_tuples : node_ids ex_T = node_ids ex_host.
Proof. destruct ex_hyps as (H1 & H2 & H3 & H4 & _). exact (proj1 (left_is_host ex_host ex_rc ex_m ex_T H1 H2 H3 H4)). Qed.
Example ex_conserve : (forall e, elem_count e (fst (its_decompose ex_T)) = elem_count e (snd (its_decompose ex_T))) /\
                      total_charge (fst (its_decompose ex_T)) = total_charge (snd (its_decompose ex_T)).
Proof. destruct ex_hyps as (H1 & H2 & H3 & H4 & H5). exact (conserve_balanced ex_host ex_rc ex_m ex_T H1 H2 H3 H4 H5). Qed.
Example ex_conserve_nontrivial : elem_count EL_H (fst (its_decompose ex_T)) = 10 /\ elem_count C (fst (its_decompose ex_T)) = 2.
Proof. vm_compute. split; reflexivity. Qed.
Example ex_imbalance_exact : total_charge (snd (its_decompose ex_T)) - total_charge (fst (its_decompose ex_T)) = sumZ dQ ex_rc.
Proof. destruct ex_hyps as (H1 & H2 & H3 & H4 & _). exact (proj2 (proj2 (conserve_counts ex_host ex_rc ex_m ex_T H1 H2 H3 H4))). Qed.
Example ex_changes_exact : exists a b y, adj ex_T a b = Some y /\ eG y <> eH y.
Proof. exists 1%N, 2%N, (2, 0, 2). split; [vm_compute; reflexivity|vm_compute; discriminate]. Qed.
Example ex_unchanged_elsewhere : adj ex_T 1%N 4%N = option_map lift (adj ex_host 1%N 4%N).
Proof.
  destruct ex_hyps as (_ & H2 & H3 & H4 & _). apply (unchanged_elsewhere_explicit ex_host ex_rc ex_m ex_T H2 H3 H4).
  intros u v x hu hv I E1 E2. simpl in I. destruct I as [I|[I|[]]]; inversion I; subst; vm_compute in E1, E2; inversion E1; inversion E2; reflexivity.
Qed.
Example ex_changed_atoms : exists a, label ex_T 3%N = Some a /\ a_ch (iG a) = 0 /\ a_ch (iH a) = 1.
Proof.
  destruct ex_hyps as (_ & H2 & H3 & H4 & _).
  destruct (proj1 (glued_atoms ex_host ex_rc ex_m ex_T H2 H3 H4) 12%N (IN (at_ Nn 0 0) (at_ Nn 0 1) 0 None) 3%N) as (a & Ha & _ & _ & _ & G & H).
  - simpl. auto.
  - reflexivity.
  - exists a. auto.
Qed.
Example ex_std_consistent : forall a b y, adj ex_T a b = Some y -> eS y = eG y - eH y.
Proof.
  destruct ex_hyps as (_ & H2 & H3 & H4 & _). apply (std_consistent_glue ex_host ex_rc ex_m ex_T H2 H3 H4).
  intros u v x I. simpl in I. destruct I as [I|[I|[]]]; inversion I; subst; reflexivity.
Qed.

(** the additive branch: the same rule on Br-CH2-NH2 (the C-N bond to be formed already exists): 1.0 + 1.0 = 2.0 *)
Definition ex_host_add : hostg :=
  LG [(1%N, at_ C 2 0); (2%N, at_ Br 0 0); (3%N, at_ Nn 2 0)] [(1%N, 2%N, 2); (1%N, 3%N, 2)].
Definition ex_T_add : its := match glue ex_host_add ex_rc ex_m with Some t => t | None => LG [] [] end.
Example ex_additive_hyps : wf_rcb ex_rc = true /\ match_rcb ex_host_add ex_rc ex_m = true /\ glue ex_host_add ex_rc ex_m = Some ex_T_add.
Proof. vm_compute. repeat split; reflexivity. Qed.
Example ex_additive : adj ex_T_add 1%N 3%N = Some (2, 4, -2) /\ Z.odd (2 + 2) = false.
Proof.
  destruct ex_additive_hyps as (H2 & H3 & H4).
  apply (additive ex_host_add ex_rc ex_m ex_T_add H2 H3 H4 10%N 12%N (0, 2, -2) 1%N 3%N 2); try reflexivity. simpl. auto.
Qed.

(** ... and on an aromatic host bond (1.5): 1.5 + 1.0 is not a bond order, no ITS is produced *)
Definition ex_host_aro : hostg :=
  LG [(1%N, at_ C 0 0); (2%N, at_ Br 0 0); (3%N, at_ Nn 0 0)] [(1%N, 2%N, 2); (1%N, 3%N, 3)].
Example ex_additive_none : wf_rcb ex_rc = true /\ match_rcb ex_host_aro ex_rc ex_m = true /\ glue ex_host_aro ex_rc ex_m = None.
Proof. vm_compute. repeat split; reflexivity. Qed.
Example ex_additive_none_iff :
  exists u v x hu hv o, In (u, v, x) (gedges ex_rc) /\ eG x = 0 /\ mget ex_m u = Some hu /\ mget ex_m v = Some hv /\
                        adj ex_host_aro hu hv = Some o /\ Z.odd (o + eH x) = true.
Proof. destruct ex_additive_none as (H2 & H3 & H4). exact (proj1 (glue_none_iff ex_host_aro ex_rc ex_m H2 H3) H4). Qed.

(** backward: the inverted rule on the product  CH3-NH3+ . Br- *)
Definition ex_host_bwd : hostg :=
  LG [(1%N, at_ C 3 0); (2%N, at_ Br 0 (-1)); (3%N, at_ Nn 3 1)] [(1%N, 3%N, 2)].
Definition ex_T_bwd : its := match glue ex_host_bwd (invert_template ex_rc) ex_m with Some t => t | None => LG [] [] end.
Example ex_backward_hyps : wf_hostb ex_host_bwd = true /\ wf_rcb ex_rc = true /\
  match_rcb ex_host_bwd (invert_template ex_rc) ex_m = true /\ glue ex_host_bwd (invert_template ex_rc) ex_m = Some ex_T_bwd.
Proof. vm_compute. repeat split; reflexivity. Qed.
Example ex_backward : adj ex_T_bwd 1%N 2%N = Some (0, 2, -2) /\ adj ex_T_bwd 1%N 3%N = Some (2, 0, 2) /\
                      wf_rcb (invert_template ex_rc) = true.
Proof. vm_compute. repeat split; reflexivity. Qed.
Example ex_backward_thm : forall a b, adj (fst (its_decompose ex_T_bwd)) a b = adj ex_host_bwd a b.
Proof.
  destruct ex_backward_hyps as (H1 & H2 & H3 & H4).
  exact (proj2 (proj1 (proj2 (proj2 (backward ex_host_bwd ex_rc ex_m ex_T_bwd H1 H2 H3 H4))))).
Qed.
Example ex_synrule_implicit : nodupb (node_ids ex_rc) = true /\
  synrule ex_rc false = Some (ex_rc, fst (its_decompose ex_rc), snd (its_decompose ex_rc)).
Proof. split; [reflexivity|]. apply synrule_implicit. reflexivity. Qed.

(** explicit-hydrogen stage: proton transfer  O-H . N  >>  O- . H-N+  written with h_pairs (pair id 1 on both atoms);
    substrate CH3OH . NH3 *)
Definition Oo : N := 79%N.
Definition ex_rc_h : its :=
  LG [(10%N, IN (at_ Oo 1 0) (at_ Oo 0 (-1)) 1 (Some [1%N])); (12%N, IN (at_ Nn 0 0) (at_ Nn 1 1) 0 (Some [1%N]))] [].
Definition ex_m_h : mapping := [(10%N, 2%N); (12%N, 3%N)].
Definition ex_host_h : hostg := LG [(1%N, at_ C 3 0); (2%N, at_ Oo 1 0); (3%N, at_ Nn 3 0)] [(1%N, 2%N, 2)].
Definition ex_T_h : its := match glue ex_host_h ex_rc_h ex_m_h with Some t => t | None => LG [] [] end.
Definition ex_T_h' : its := match explicit_h ex_T_h with Some r => fst r | None => LG [] [] end.
Example ex_explicit_hyps :
  wf_hostb ex_host_h = true /\ wf_rcb ex_rc_h = true /\ match_rcb ex_host_h ex_rc_h ex_m_h = true /\
  glue ex_host_h ex_rc_h ex_m_h = Some ex_T_h /\ balancedb ex_rc_h = true /\
  explicit_h ex_T_h = Some (ex_T_h', [(2%N, 3%N)]).
Proof. vm_compute. repeat split; reflexivity. Qed.
(** one new H atom (id 4), bonded (1,0) to the donor O and (0,1) to the recipient N *)
Example ex_explicit_value :
  node_ids ex_T_h' = [1%N; 2%N; 3%N; 4%N] /\ adj ex_T_h' 2%N 4%N = Some (2, 0, 2) /\ adj ex_T_h' 4%N 3%N = Some (0, 2, -2) /\
  option_map (fun a => (a_hc (iG a), a_hc (iH a))) (label ex_T_h' 2%N) = Some (0, 0) /\
  option_map (fun a => (a_hc (iG a), a_hc (iH a))) (label ex_T_h' 3%N) = Some (3, 3).
Proof. vm_compute. repeat split; reflexivity. Qed.
Example ex_explicitH_partial : forall e, elem_count e (fst (its_decompose ex_T_h')) = elem_count e (fst (its_decompose ex_T_h)).
Proof.
  destruct ex_explicit_hyps as (_ & _ & _ & _ & _ & H6). intros e.
  refine (proj1 (proj1 (proj2 (explicit_h_accounting ex_T_h ex_T_h' _ _ H6)) e)).
  apply nodupb_NoDup. reflexivity.
Qed.
Example ex_explicitH_conserve : forall e, elem_count e (fst (its_decompose ex_T_h')) = elem_count e (snd (its_decompose ex_T_h')).
Proof.
  destruct ex_explicit_hyps as (H1 & H2 & H3 & H4 & H5 & H6).
  exact (proj1 (explicit_h_conserve ex_host_h ex_rc_h ex_m_h ex_T_h ex_T_h' _ H1 H2 H3 H4 H5 H6)).
Qed.

(** explicit path: CH3OH . NH3 expanded at the oxygen (new H atom 4), proton transfer written with an explicit H *)
Definition ex_hb : hostg := h_to_explicit ex_host_h [2%N].
Definition ex_rc_x : its :=
  LG [(10%N, IN (at_ Oo 0 0) (at_ Oo 0 (-1)) 0 None); (11%N, same (at_ EL_H 0 0)); (12%N, IN (at_ Nn 0 0) (at_ Nn 0 1) 0 None)]
     [(10%N, 11%N, (2, 0, 2)); (11%N, 12%N, (0, 2, -2))].
Definition ex_m_x : mapping := [(10%N, 2%N); (11%N, 4%N); (12%N, 3%N)].
Definition ex_T_x : its := match glue ex_hb ex_rc_x ex_m_x with Some t => t | None => LG [] [] end.
Example ex_expand_host : node_ids ex_hb = [1%N; 2%N; 3%N; 4%N] /\ adj ex_hb 2%N 4%N = Some 2 /\
                         option_map a_hc (label ex_hb 2%N) = Some 0 /\ NoDup (node_ids ex_host_h).
Proof. split; [reflexivity|]. split; [reflexivity|]. split; [reflexivity|]. apply nodupb_NoDup. reflexivity. Qed.
Example ex_explicit_path_hyps :
  wf_hostb ex_host_h = true /\ wf_hostb (h_to_explicit ex_host_h [2%N]) = true /\ wf_rcb ex_rc_x = true /\
  match_rcb (h_to_explicit ex_host_h [2%N]) ex_rc_x ex_m_x = true /\ glue (h_to_explicit ex_host_h [2%N]) ex_rc_x ex_m_x = Some ex_T_x /\
  explicit_h ex_T_x = Some (ex_T_x, []) /\ balancedb ex_rc_x = true /\ adj ex_T_x 4%N 3%N = Some (0, 2, -2).
Proof. vm_compute. repeat split; reflexivity. Qed.
Example ex_explicit_path : forall e, elem_count e (fst (its_decompose ex_T_x)) = elem_count e (mol_of_host ex_host_h).
Proof.
  destruct ex_explicit_path_hyps as (H1 & H2 & H3 & H4 & H5 & H6 & _).
  exact (proj1 (explicit_path ex_host_h [2%N] ex_rc_x ex_m_x ex_T_x ex_T_x [] H1 H2 H3 H4 H5 H6)).
Qed.

Example ex_explicitH_shape : gedges ex_T_h' = gedges ex_T_h ++ [(2%N, 4%N, (2, 0, 2)); (4%N, 3%N, (0, 2, -2))].
Proof.
  destruct ex_explicit_hyps as (_ & _ & _ & _ & _ & H6).
  refine (proj1 (explicit_h_shape ex_T_h ex_T_h' _ _ H6)). apply nodupb_NoDup. reflexivity.
Qed.

(** default mode on a template without explicit hydrogens (a keto-enol-like rule written with implicit counts) *)
Definition ex_tpl_d : its :=
  LG [(1%N, IN (at_ C 3 0) (at_ C 2 0) 0 None); (2%N, IN (at_ Oo 0 0) (at_ Oo 1 0) 0 None)] [(1%N, 2%N, (4, 2, 2))].
Example ex_synrule_default_noH :
  nodupb (node_ids ex_tpl_d) = true /\
  forallb (fun p => negb (N.eqb (a_el (iG (snd p))) EL_H) && negb (N.eqb (a_el (iH (snd p))) EL_H)) (gnodes ex_tpl_d) = true /\
  option_map (fun t => fst (fst t)) (synrule ex_tpl_d true) = Some (default_rc ex_tpl_d) /\
  sumZ dH ex_tpl_d = 0 /\ option_map (fun a => (a_hc (iG a), a_hc (iH a))) (label (default_rc ex_tpl_d) 1%N) = Some (0, 0).
Proof. vm_compute. repeat split; reflexivity. Qed.

(** _explicit_h raises: an atom that loses a hydrogen (pair id 1) with no partner to take it *)
Definition ex_T_crash : its := LG [(1%N, IN (at_ Oo 1 0) (at_ Oo 0 (-1)) 0 (Some [1%N]))] [].
Example ex_explicitH_crash_iff : explicit_h ex_T_crash = None /\ pairs_okb ex_T_crash = false /\ pairs_okb ex_T_h = true.
Proof. vm_compute. repeat split; reflexivity. Qed.

Example ex_changed_bonds_iso : changed_bonds ex_T = [((1%N, 2%N), -2); ((1%N, 3%N), 2)] /\
                               image_changed_bonds ex_m ex_rc = [((1%N, 2%N), -2); ((1%N, 3%N), 2)].
Proof. vm_compute. split; reflexivity. Qed.

(** default mode on a template with an explicit migrating hydrogen (O-H . N >> O . H-N): the H atom 2 and its two
    bonds are stripped, the hydrogen change is kept as counts and as h_pairs *)
Definition ex_tpl_x : its :=
  LG [(1%N, same (at_ Oo 0 0)); (2%N, same (at_ EL_H 0 0)); (3%N, same (at_ Nn 0 0))]
     [(1%N, 2%N, (2, 0, 2)); (2%N, 3%N, (0, 2, -2))].
Definition ex_rc_s : its := match synrule ex_tpl_x true with Some t => fst (fst t) | None => LG [] [] end.
Example ex_synrule_default_skeleton :
  nodupb (node_ids ex_tpl_x) = true /\ option_map (fun t => fst (fst t)) (synrule ex_tpl_x true) = Some ex_rc_s /\
  node_ids ex_rc_s = [1%N; 3%N] /\ gedges ex_rc_s = [] /\ is_H_i ex_tpl_x 2%N = true /\
  option_map (fun a => (a_hc (iG a), a_hc (iH a), i_hp a)) (label ex_rc_s 1%N) = Some (1, 0, Some [1%N]) /\
  option_map (fun a => (a_hc (iG a), a_hc (iH a), i_hp a)) (label ex_rc_s 3%N) = Some (0, 1, Some [1%N]).
Proof. vm_compute. repeat split; reflexivity. Qed.
Definition ex_m_s : mapping := [(1%N, 2%N); (3%N, 3%N)].
Definition ex_T_s : its := match glue ex_host_h ex_rc_s ex_m_s with Some t => t | None => LG [] [] end.
Example ex_default_changed_bonds :
  wf_hostb ex_host_h = true /\ wf_rcb ex_rc_s = true /\ match_rcb ex_host_h ex_rc_s ex_m_s = true /\
  glue ex_host_h ex_rc_s ex_m_s = Some ex_T_s /\ changed_bonds ex_T_s = [] /\
  option_map (fun a => (a_hc (iG a), a_hc (iH a))) (label ex_T_s 2%N) = Some (1, 0) /\
  option_map (fun a => (a_hc (iG a), a_hc (iH a))) (label ex_T_s 3%N) = Some (3, 4).
Proof. vm_compute. repeat split; reflexivity. Qed.

(** the counts on the same template: the left side keeps O (hcount 1 = its one bond to the stripped H 2) and N (0) *)
Definition ex_l_s : molg := match synrule ex_tpl_x true with Some t => snd (fst t) | None => LG [] [] end.
Example ex_synrule_default_counts :
  map (fun p => (fst p, m_hc (snd p))) (gnodes ex_l_s) = [(1%N, 1); (3%N, 0)] /\ gedges ex_l_s = [] /\
  sum_cnt (gedges (fst (its_decompose (standardize_hydrogen ex_tpl_x)))) [2%N] 1%N = 1 /\
  sum_cnt (gedges (fst (its_decompose (standardize_hydrogen ex_tpl_x)))) [2%N] 3%N = 0.
Proof. vm_compute. repeat split; reflexivity. Qed.

(** wiring: two independent hydrogen transfers C1 -> C3 (pair id 1) and O2 -> O4 (pair id 2), the recipients listed in
    the opposite order to the donors (the shape of the seeded change C03-r2-1): each hydrogen stays in its group *)
Definition ex_T_w : its :=
  LG [(1%N, IN (at_ C 1 0) (at_ C 0 0) 0 (Some [1%N])); (2%N, IN (at_ Oo 1 0) (at_ Oo 0 0) 0 (Some [2%N]));
      (4%N, IN (at_ Oo 0 0) (at_ Oo 1 0) 0 (Some [2%N])); (3%N, IN (at_ C 0 0) (at_ C 1 0) 0 (Some [1%N]))]
     [(1%N, 2%N, (2, 4, -2)); (3%N, 4%N, (4, 2, 2))].
Definition ex_T_w' : its := match explicit_h ex_T_w with Some r => fst r | None => LG [] [] end.
Example ex_explicitH_wiring :
  explicit_h ex_T_w = Some (ex_T_w', [(2%N, 4%N); (1%N, 3%N)]) /\ nodupb (node_ids ex_T_w) = true /\
  pairs_exactb ex_T_w = true /\ grouped ex_T_w 1%N = true /\ grouped ex_T_w 5%N = false /\
  occurrences 1%N (map fst [(2%N, 4%N); (1%N, 3%N)]) = 1 /\ dl_of ex_T_w 1%N = 1 /\ dl_of ex_T_w 4%N = -1.
Proof. vm_compute. repeat split; reflexivity. Qed.
Example ex_explicitH_wiring_thm : same_group ex_T_w 1%N 3%N /\ same_group ex_T_w 2%N 4%N.
Proof.
  destruct ex_explicitH_wiring as (H & Hn & _).
  destruct (explicit_h_wiring ex_T_w ex_T_w' _ (nodupb_NoDup _ Hn) H) as [_ W].
  split; [exact (proj1 (W (1%N, 3%N) (or_intror (or_introl eq_refl))))|exact (proj1 (W (2%N, 4%N) (or_introl eq_refl)))].
Qed.

(** pair ids: in the rule prepared from ex_tpl_x (O-H . N >> O . H-N) the atoms 1 and 3 share pair id 1 and both are bonded
    to the template's hydrogen 2; glued on CH3OH . NH3 the ids sit on the images 2 and 3 *)
Example ex_pair_ids :
  forallb (fun p => match i_hp (snd p) with None => true | Some _ => false end) (gnodes ex_tpl_x) = true /\
  option_map (fun a => hp_of a) (label ex_rc_s 1%N) = Some [1%N] /\ option_map (fun a => hp_of a) (label ex_rc_s 3%N) = Some [1%N] /\
  is_H_i ex_tpl_x 2%N = true /\ nbrs ex_tpl_x 2%N = [1%N; 3%N] /\
  option_map (fun a => hp_of a) (label ex_T_s 2%N) = Some [1%N] /\ option_map (fun a => hp_of a) (label ex_T_s 3%N) = Some [1%N] /\
  option_map (fun a => hp_of a) (label ex_T_s 1%N) = Some [].
Proof. vm_compute. repeat split; reflexivity. Qed.
Example ex_share_pair : share_pair ex_T_s 2%N 3%N.
Proof.
  exists 1%N, (match label ex_T_s 2%N with Some a => a | None => H_inode end), (match label ex_T_s 3%N with Some a => a | None => H_inode end).
  vm_compute. repeat split; auto.
Qed.

(** the exact characterisation on ex_tpl_x: hydrogen 2 has a heavy neighbour on both sides (O on the left, N on the right) *)
Example ex_synrule_default_exact :
  forallb (fun p => N.eqb (a_el (iH (snd p))) (a_el (iG (snd p)))) (gnodes ex_tpl_x) = true /\
  is_H_i ex_tpl_x 2%N = true /\ heavy_nbr (side0 iG eG ex_tpl_x) 2%N = true /\ heavy_nbr (side0 iH eH ex_tpl_x) 2%N = true /\
  heavy_nbr (side0 iG eG ex_tpl_x) 1%N = false /\ node_ids ex_rc_s = [1%N; 3%N].
Proof. vm_compute. repeat split; reflexivity. Qed.

Example ex_synrule_default_total : exists rc l r, synrule ex_tpl_x true = Some (rc, l, r).
Proof.
  apply synrule_default_total; [reflexivity|]. intros k a I. simpl in I. destruct I as [I|[I|[I|[]]]]; inversion I; subst; reflexivity.
Qed.
Example ex_synrule_default_pointwise :
  simple_edgesb (gedges ex_tpl_x) = true /\ sum_cnt (gedges (side0 iG eG ex_tpl_x)) [2%N] 1%N = 1 /\
  sum_cnt (gedges (side0 iH eH ex_tpl_x)) [2%N] 1%N = 0 /\ sum_cnt (gedges (side0 iH eH ex_tpl_x)) [2%N] 3%N = 1 /\
  option_map (fun a => (a_hc (iG a), a_hc (iH a))) (label ex_rc_s 1%N) = Some (1, 0) /\ has_XH ex_l_s = false /\ h_to_implicit ex_l_s = ex_l_s.
Proof. vm_compute. repeat split; reflexivity. Qed.

Example ex_pair_ids_complete : exists p, forall x, In x (nbrs ex_tpl_x 2%N) -> is_H_i ex_tpl_x x = false -> has_node ex_tpl_x x = true ->
                                         exists A, label ex_rc_s x = Some A /\ In p (hp_of A).
Proof.
  destruct ex_synrule_default_exact as (_ & H1 & H2 & H3 & _).
  apply (synrule_default_pairs_complete ex_tpl_x ex_rc_s (match synrule ex_tpl_x true with Some t => snd (fst t) | None => LG [] [] end)
           (match synrule ex_tpl_x true with Some t => snd t | None => LG [] [] end)); auto.
  intros k a I. simpl in I. destruct I as [I|[I|[I|[]]]]; inversion I; subst; reflexivity.
Qed.

Example ex_default_rule_dH : simple_edgesb (gedges ex_tpl_x) = true /\ sumZ dH ex_rc_s = 0 /\
  countZ (fun k => bonded eH ex_tpl_x k 2%N) [1%N; 3%N] = 1 /\ countZ (fun k => bonded eG ex_tpl_x k 2%N) [1%N; 3%N] = 1.
Proof. vm_compute. repeat split; reflexivity. Qed.

(** the template condition of the end-to-end theorems holds on ex_tpl_x (one removed hydrogen, one bond on each side) *)
Lemma countZ_perm {A} (P : A -> bool) l l' : Permutation l l' -> countZ P l = countZ P l'.
Proof. unfold countZ. induction 1; simpl; try (destruct (P x)); try (destruct (P y)); simpl; try lia. Qed.

Lemma isH_in (tpl : its) h : is_H_i tpl h = true -> In h (node_ids tpl).
Proof. intros H. apply has_node_in. unfold is_H_i in H. unfold has_node. destruct (label tpl h); [reflexivity|discriminate]. Qed.

Example ex_tpl_condition : tpl_condition ex_tpl_x.
Proof.
  intros R K NR NK HR HK.
  assert (ER : forall h, In h R <-> In h [2%N]).
  { intros h. rewrite HR. split.
    - intros (A & B & C). apply isH_in in A. simpl in A. destruct A as [<-|[<-|[<-|[]]]]; [vm_compute in B; discriminate|left; reflexivity|vm_compute in B; discriminate].
    - intros [<-|[]]. vm_compute. auto. }
  assert (EK : forall k, In k K <-> In k [1%N; 3%N]).
  { intros k. rewrite HK. split.
    - intros (A & B). simpl in A. destruct A as [<-|[<-|[<-|[]]]]; [left; reflexivity|vm_compute in B; discriminate|right; left; reflexivity].
    - intros [<-|[<-|[]]]; vm_compute; auto. }
  assert (PK : Permutation K [1%N; 3%N]).
  { apply NoDup_Permutation; [exact NK|repeat constructor; simpl; intuition discriminate|exact EK]. }
  split.
  - intros h Ih. apply ER in Ih. destruct Ih as [<-|[]]. rewrite !(countZ_perm _ _ _ PK). reflexivity.
  - rewrite (filter_ext_all (keepn R) (keepn [2%N])); [reflexivity|]. intros p. unfold keepn. f_equal.
    destruct (mem (fst p) R) eqn:E1, (mem (fst p) [2%N]) eqn:E2; try reflexivity.
    + apply mem_spec in E1. apply ER in E1. apply mem_spec in E1. congruence.
    + apply mem_spec in E2. apply ER in E2. apply mem_spec in E2. congruence.
Qed.

Example ex_default_end_to_end : explicit_h ex_T_s = Some (match explicit_h ex_T_s with Some p => fst p | None => LG [] [] end, [(2%N, 3%N)]) /\
  sumZ dQ ex_rc_s = 0.
Proof. vm_compute. split; reflexivity. Qed.

(** the migration of ex_T_s (O 2 -> N 3 on CH3OH . NH3) is the image of the template atoms 1 and 3, linked through hydrogen 2 *)
Example ex_default_migrations : tpl_group ex_tpl_x 1%N 3%N /\ mget ex_m_s 1%N = Some 2%N /\ mget ex_m_s 3%N = Some 3%N.
Proof.
  split; [|split; reflexivity]. eapply tg_step; [|constructor]. exists 2%N. vm_compute. auto.
Qed.
