(** C15 (round 3) — whole histories of the extended language: a reaction that is
    stored at some point of a history and that no later operation removes,
    strips, overwrites by a copy or coefficient-edits is still stored, under its
    id and with its stoichiometry, at the end; in particular a reaction that was
    just added. *)
From stdpp Require Import gmap strings sets pretty sorting.
From SK Require Import lib.Tok model.C15_Model model.C15_Ext proof.C15_Proof proof.C15_Ext.
Local Open Scope string_scope.

Definition run_world (ops : list op2) (w : world2) : world2 := fold_left (λ w o, (step2 w o).1.1) ops w.

Lemma run2_stored_kept ops : ∀ w k e rx,
  Forall Inv (nets w) → edges (getn (nets w) k) !! e = Some rx →
  Forall (λ o, ¬ may_drop2 o k e rx) ops →
  edges (getn (nets (run_world ops w)) k) !! e = Some rx.
Proof.
  induction ops as [|o ops IH]; intros w k e rx Hw He Hall; cbn; [done|].
  apply Forall_cons in Hall as [Ho Hall]. apply IH; [by apply step2_Inv| |done].
  by apply step2_stored_kept.
Qed.

Lemma run_world_length ops : ∀ w, length (nets (run_world ops w)) = length (nets w).
Proof.
  induction ops as [|o ops IH]; intros w; cbn; [done|]. unfold run_world in IH. rewrite IH. apply step2_length.
Qed.

Lemma run_world_Inv ops w : Forall Inv (nets w) → Forall Inv (nets (run_world ops w)).
Proof. apply run2_Inv. Qed.

(** "added and not removed => still present under its own id with its own
    stoichiometry": the add happens after any prefix [pre] of a history from
    empty networks; [post] is any continuation that does not name the reaction *)
Lemma history_added_kept n p pre post i l r rule eid :
  (i < n)%nat →
  (step2 (run_world pre (init_world2 n p)) (OAddItems i l r rule eid)).1.2 = None →
  ∃ e, (∀ e0, eid = Some e0 → e = e0) ∧
       (step2 (run_world pre (init_world2 n p)) (OAddItems i l r rule eid)).2 = tstr e ∧
       edges (getn (nets (run_world pre (init_world2 n p))) i) !! e = None ∧
       (Forall (λ o, ¬ may_drop2 o i e (Rxn (norm_rule rule) (normalize_items l) (normalize_items r))) post →
        edges (getn (nets (run_world post (step2 (run_world pre (init_world2 n p)) (OAddItems i l r rule eid)).1.1)) i) !! e
        = Some (Rxn (norm_rule rule) (normalize_items l) (normalize_items r))).
Proof.
  set (w := run_world pre (init_world2 n p)). intros Hi.
  assert (Hw : Forall Inv (nets w)) by (apply run_world_Inv; cbn; apply init_world_Inv).
  assert (Hlen : length (nets w) = n).
  { unfold w. rewrite run_world_length. cbn. apply replicate_length. }
  pose proof (step2_Inv w (OAddItems i l r rule eid) Hw) as Hw'. revert Hw'.
  cbn [step2]. destruct (add _ _ _ _ _) as [[s' er] e] eqn:Ha. cbn [fst snd]. intros Hw' ->.
  apply add_stores in Ha as (H1 & H2 & H3). exists e. split_and!; [done..|].
  intros Hpost. apply run2_stored_kept; [done| |done].
  cbn [nets setnets]. rewrite getn_setn_eq by lia. done.
Qed.

(** non-vacuity: a successful add and a continuation that does not name it *)
Example C15_ext_history_nonvacuous :
  (step2 (run_world [] (init_world2 2 2)) (OAddItems 0 [IPair "A" 1] [ILabel "B"] "" None)).1.2 = None ∧
  Forall (λ o, ¬ may_drop2 o 0 "r_1" (Rxn "r" {[ "A" := 1%positive ]} {[ "B" := 1%positive ]}))
         [OPoolNew 0 []; OQuery 0 QLen; OBase (ORemoveRxn 0 "zz"); OBase (ORemoveSpecies 0 "C" true); OSideSet 1 "r_1" true "A" 3].
Proof.
  split; [vm_compute; reflexivity|]. repeat constructor; cbn; try tauto.
  - intros [_ ?]; done.
  - intros [_ H]. revert H. apply (bool_decide_unpack _). vm_compute. exact Logic.I.
  - intros [? _]; done.
Qed.
