(** C04 — the identity is among the raw matches of the search engine: the reactor's node / edge predicates
    ([match_okb], model/C03_Model.v) translated into C06's monomorphism specification, then C06's theorem for the
    exhaustive strategy (proof/C06_All.v, read-only) under its VF2 contract. *)
From Coq Require Import List NArith ZArith Bool Arith Lia Permutation SetoidList.
From SK Require Import lib.Tok lib.LGraph lib.Mono model.C06_Model lib.C06_Spec proof.C06_All.
From SK Require Import model.C03_Model model.C04_Model model.C04_Reactor proof.C03_Proof proof.C04_Glue proof.C04_Template proof.C04_Proof.
Import ListNotations.
Local Open Scope Z_scope.

(** [chcode] / [tr_edges] / [tr_host] / [tr_pat]: model/C04_Reactor.v (node_attrs = ["element", "charge"], edge_attrs = ["order"] as the
    reactor passes them; any injective coding of charges / orders into N would do) *)
Lemma chcode_inj a b : chcode a = chcode b -> a = b.
Proof. destruct a, b; simpl; intros E; try discriminate; try reflexivity; inversion E; reflexivity. Qed.

Lemma leqb_refl l : leqb l l = true.
Proof. induction l as [|x r IH]; simpl; [reflexivity|]. rewrite N.eqb_refl. exact IH. Qed.
Lemma assoc_map' {V W} (f : V -> W) (l : list (N * V)) k : assoc k (map (fun p => (fst p, f (snd p))) l) = option_map f (assoc k l).
Proof. induction l as [|[k' v] r IH]; simpl; [reflexivity|]. destruct (N.eqb k k'); [reflexivity|exact IH]. Qed.
Lemma tr_host_ids g : node_ids (tr_host g) = node_ids g.
Proof. unfold node_ids, tr_host; simpl. rewrite map_map. reflexivity. Qed.
Lemma tr_pat_ids g : node_ids (tr_pat g) = node_ids g.
Proof. unfold node_ids, tr_pat; simpl. rewrite map_map. reflexivity. Qed.
Lemma tr_adj (es : list (N * N * Z)) a b : find_edge a b (tr_edges es) = option_map (fun o => [Z.to_N o]) (find_edge a b es).
Proof.
  unfold tr_edges. induction es as [|[[u v] o] r IH]; simpl; [reflexivity|].
  destruct ((N.eqb u a && N.eqb v b) || (N.eqb u b && N.eqb v a)); [reflexivity|exact IH].
Qed.

Lemma label_tr_host g n : label (tr_host g) n = option_map (fun a => ([a_el a; chcode (a_ch a)], Z.to_N (a_hc a))) (label g n).
Proof. unfold label, tr_host; simpl. exact (assoc_map' (fun a : nattr => ([a_el a; chcode (a_ch a)], Z.to_N (a_hc a))) (gnodes g) n). Qed.
Lemma label_tr_pat g n : label (tr_pat g) n = option_map (fun a => ([m_el a; chcode (m_ch a)], Z.to_N (m_hc a))) (label g n).
Proof. unfold label, tr_pat; simpl. exact (assoc_map' (fun a : mnode => ([m_el a; chcode (m_ch a)], Z.to_N (m_hc a))) (gnodes g) n). Qed.

(** a mapping the reactor's predicates accept is a monomorphism in C06's sense *)
Theorem match_is_mono (host : hostg) (pat : molg) (m : C03_Model.mapping) :
  NoDup (node_ids pat) -> (forall n a, In (n, a) (gnodes pat) -> 0 <= m_hc a) ->
  match_okb host pat m = true -> is_mono (tr_host host) (tr_pat pat) m.
Proof.
  intros Hnd Hhc H. unfold match_okb in H.
  apply andb_prop in H. destruct H as [H H5]. apply andb_prop in H. destruct H as [H H4].
  apply andb_prop in H. destruct H as [H H3]. apply andb_prop in H. destruct H as [H1 H2].
  apply nodupb_NoDup in H1. apply nodupb_NoDup in H2. apply Nat.eqb_eq in H3. rewrite forallb_forall in H4, H5.
  (* every pattern atom has an image *)
  assert (Himg : forall n a, In (n, a) (gnodes pat) -> exists h x, mget m n = Some h /\ label host h = Some x /\
             a_el x = m_el a /\ a_ch x = m_ch a /\ m_hc a <= a_hc x).
  { intros n a I. specialize (H4 _ I). unfold node_okb in H4. simpl in H4. destruct (mget m n) as [h|]; [|discriminate].
    destruct (label host h) as [x|] eqn:Ex; [|discriminate]. apply andb_prop in H4. destruct H4 as [H4 Hc]. apply andb_prop in H4. destruct H4 as [Ha Hb].
    exists h, x. split; [reflexivity|]. split; [exact Ex|]. split; [apply N.eqb_eq; exact Ha|]. split; [apply Z.eqb_eq; exact Hb|apply Z.leb_le; exact Hc]. }
  assert (Hkeys : forall p, In p (map fst m) <-> In p (node_ids pat)).
  { assert (Hinc : incl (node_ids pat) (map fst m)).
    { intros p I. unfold node_ids in I. apply in_map_iff in I. destruct I as ([k a] & E & I). simpl in E; subst.
      destruct (Himg _ _ I) as (h & _ & Eh & _). unfold mget in Eh. apply assoc_in in Eh. change p with (fst (p, h)). apply in_map. exact Eh. }
    intros p. split; [|apply Hinc].
    apply (NoDup_length_incl Hnd); [|exact Hinc]. unfold node_ids. rewrite !map_length. lia. }
  unfold is_mono, is_mono_on. rewrite tr_host_ids, tr_pat_ids.
  split; [exact H1|]. split; [exact Hkeys|]. split; [exact H2|]. split.
  - intros p h I.
    assert (Ep : mget m p = Some h) by (unfold mget; apply assoc_nodup_in; assumption).
    assert (Ip : In p (node_ids pat)) by (apply Hkeys; change p with (fst (p, h)); apply in_map; exact I).
    destruct (in_ids_label pat p Ip) as [a Ea]. destruct (Himg p a (assoc_in p (gnodes pat) Ea)) as (h' & x & Eh & Ex & E1 & E2 & E3).
    rewrite Ep in Eh. inversion Eh; subst h'. split; [exact (label_some_in host h x Ex)|].
    unfold nm, lab. rewrite label_tr_host, label_tr_pat, Ex, Ea. simpl.
    rewrite E1, E2, !N.eqb_refl. simpl. apply N.leb_le. pose proof (Hhc p a (assoc_in p (gnodes pat) Ea)). lia.
  - intros p h p' h' b I I' Eb. unfold LGraph.adj, tr_pat in Eb; simpl in Eb. rewrite tr_adj in Eb.
    destruct (find_edge p p' (gedges pat)) as [o|] eqn:Eo; [|discriminate]. simpl in Eb. inversion Eb; subst b.
    apply find_edge_in in Eo. destruct Eo as (u & v & Ie & Hp). specialize (H5 _ Ie). unfold edge_okb in H5.
    destruct (mget m u) as [hu|] eqn:Eu; [|discriminate]. destruct (mget m v) as [hv|] eqn:Ev; [|discriminate].
    destruct (LGraph.adj host hu hv) as [o'|] eqn:Ea; [|discriminate]. apply Z.eqb_eq in H5. subst o'.
    assert (Eph : mget m p = Some h) by (unfold mget; apply assoc_nodup_in; assumption).
    assert (Eph' : mget m p' = Some h') by (unfold mget; apply assoc_nodup_in; assumption).
    exists [Z.to_N o]. split; [|apply leqb_refl].
    unfold LGraph.adj, tr_host; simpl. rewrite tr_adj.
    assert (Hq : peq hu hv h h' = true).
    { unfold peq in Hp |- *. apply orb_prop in Hp. destruct Hp as [Hp|Hp]; apply andb_prop in Hp; destruct Hp as [P1 P2];
        apply N.eqb_eq in P1; apply N.eqb_eq in P2; subst u v.
      - rewrite Eph in Eu. rewrite Eph' in Ev. inversion Eu; inversion Ev; subst. rewrite !N.eqb_refl. reflexivity.
      - rewrite Eph' in Eu. rewrite Eph in Ev. inversion Eu; inversion Ev; subst. rewrite !N.eqb_refl. simpl. apply orb_true_r. }
    unfold LGraph.adj in Ea. rewrite <- (find_edge_peq (gedges host) hu hv h h' Hq), Ea. reflexivity.
Qed.

(** hence, under the VF2 contract of C06 for the one enumeration call the exhaustive strategy makes and a threshold that
    is not exceeded, every mapping the reactor's predicates accept is (as a set of pairs) among the raw matches *)
Theorem accepted_match_among_raw (enum : list N -> list N -> list C06_Model.mapping) (T : N) (strict : bool)
    (host : hostg) (pat : molg) (m : C03_Model.mapping) :
  NoDup (node_ids pat) -> (forall n a, In (n, a) (gnodes pat) -> 0 <= m_hc a) ->
  match_okb host pat m = true ->
  vf2_contract enum (tr_host host) (tr_pat pat) (node_ids (tr_host host)) (node_ids (tr_pat pat)) ->
  (lenN (enum (node_ids (tr_host host)) (node_ids (tr_pat pat))) <= T)%N ->
  exists m', In m' (C06_Model.find enum (Cfg 0 0 T strict false) (tr_host host) (tr_pat pat)) /\ Permutation m m'.
Proof.
  intros Hnd Hhc Hm Hc Hle.
  destruct (all_exact enum T strict (tr_host host) (tr_pat pat) Hc Hle) as (_ & Hcomp & _).
  exact (Hcomp m (match_is_mono host pat m Hnd Hhc Hm)).
Qed.

(** the identity match of the reaction's own template (implicit mode) is among the raw matches of strategy ALL *)
Theorem identity_among_raw (core invert : bool) (G H : hostg) (enum : list N -> list N -> list C06_Model.mapping) (T : N) (strict : bool)
    (rc : its) (l r : molg) :
  pair_wfb G H = true -> no_explicit_H G = true ->
  rule_of core invert G H = Some (rc, l, r) ->
  forallb (fun p => 0 <=? m_hc (snd p)) (gnodes (pattern_of l)) = true ->
  vf2_contract enum (tr_host (substrate invert G H)) (tr_pat (pattern_of l))
               (node_ids (tr_host (substrate invert G H))) (node_ids (tr_pat (pattern_of l))) ->
  (lenN (enum (node_ids (tr_host (substrate invert G H))) (node_ids (tr_pat (pattern_of l)))) <= T)%N ->
  exists m', In m' (C06_Model.find enum (Cfg 0 0 T strict false) (tr_host (substrate invert G H)) (tr_pat (pattern_of l))) /\
             Permutation (id_map (node_ids (pattern_of l))) m'.
Proof.
  intros W NH Er Hnn Hc Hle.
  destruct (identity_match core invert G H W NH) as (rc' & l' & r' & Er' & Hm & _).
  rewrite Er in Er'. inversion Er'; subst rc' l' r'.
  apply (accepted_match_among_raw enum T strict (substrate invert G H) (pattern_of l) _); try assumption.
  - unfold match_okb in Hm. apply andb_prop in Hm. destruct Hm as [Hm _]. apply andb_prop in Hm. destruct Hm as [Hm _].
    apply andb_prop in Hm. destruct Hm as [Hm _]. apply andb_prop in Hm. destruct Hm as [Hm _].
    rewrite id_map_fst in Hm. apply nodupb_NoDup. exact Hm.
  - intros n a I. rewrite forallb_forall in Hnn. specialize (Hnn _ I). simpl in Hnn. apply Z.leb_le. exact Hnn.
Qed.
