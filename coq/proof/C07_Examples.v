(** C07 — non-vacuity examples: every theorem of props/C07.v instantiated on concrete graphs where its premises hold
    and its conclusion is non-trivial (the defect witnesses of corpus/regress/C07).  Stdlib lists. *)
From Coq Require Import List NArith Bool Arith Lia.
From SK Require Import lib.Tok lib.LGraph lib.Mono model.C07_Model
  proof.C07_Spec proof.C07_History proof.C07_Filters proof.C07_Main proof.C07_WL proof.C07_Relabel proof.C07_Final.
Import ListNotations.

(** a boolean well-formedness checker, sound for [gwf] *)
Fixpoint nodupb (l : list N) : bool := match l with [] => true | x :: r => negb (mem x r) && nodupb r end.
Fixpoint uniqb (es : list (N * N * attrs)) : bool :=
  match es with
  | [] => true
  | (a, b, _) :: r => match find_edge a b r with None => uniqb r | Some _ => false end
  end.
Definition gwfb (g : graph) : bool :=
  nodupb (node_ids g) &&
  forallb (fun e : N * N * attrs => let '(a, b, _) := e in mem a (node_ids g) && mem b (node_ids g) && negb (N.eqb a b)) (gedges g) &&
  uniqb (gedges g).

Lemma nodupb_sound l : nodupb l = true -> NoDup l.
Proof.
  induction l as [|x r IH]; simpl; [constructor|]. intros E. apply andb_prop in E. destruct E as (E1 & E2).
  constructor; auto. intros I. apply mem_spec in I. rewrite I in E1. discriminate.
Qed.

Lemma uniqb_sound es : uniqb es = true ->
  forall l1 a b x l2, es = l1 ++ (a, b, x) :: l2 -> find_edge a b l1 = None /\ find_edge a b l2 = None.
Proof.
  intros U l1. revert es U. induction l1 as [|[[a' b'] x'] l1 IH]; intros es U a b x l2 E; subst es; simpl in U.
  - destruct (find_edge a b l2); [discriminate|]. auto.
  - destruct (find_edge a' b' (l1 ++ (a, b, x) :: l2)) eqn:F; [discriminate|].
    destruct (IH _ U a b x l2 eq_refl) as (N1 & N2). split; auto. simpl.
    destruct ((N.eqb a' a && N.eqb b' b) || (N.eqb a' b && N.eqb b' a)) eqn:T; auto.
    exfalso. apply pair_test_spec in T.
    apply (find_edge_in_some a' b' (l1 ++ (a, b, x) :: l2) a b x); auto.
    + apply in_or_app. right. left. reflexivity.
    + unfold same_pair in *. intuition congruence.
Qed.

Lemma gwfb_sound g : gwfb g = true -> gwf g.
Proof.
  unfold gwfb. intros E. apply andb_prop in E. destruct E as (E & E3). apply andb_prop in E. destruct E as (E1 & E2).
  split; [apply nodupb_sound; exact E1|]. split.
  - intros a b x I. rewrite forallb_forall in E2. specialize (E2 _ I). simpl in E2.
    apply andb_prop in E2. destruct E2 as (E2 & Hn). apply andb_prop in E2. destruct E2 as (Ia & Ib).
    apply mem_spec in Ia. apply mem_spec in Ib. apply negb_true_iff, N.eqb_neq in Hn. auto.
  - apply uniqb_sound. exact E3.
Qed.

Ltac wf_small := apply gwfb_sound; vm_compute; reflexivity.

(* keys: 1 element, 2 charge, 4 order; values: C = 1, O = 2, charge 0 = 3, charge -1 = 4, order 1 = 5 *)
Definition aC : attrs := [(1, 1); (2, 3)]%N.
Definition aO : attrs := [(1, 2); (2, 3)]%N.
Definition aOm : attrs := [(1, 2); (2, 4)]%N.
Definition b1 : attrs := [(4, 5)]%N.
Definition gCO : graph := LG [(1, aC); (2, aO)]%N [(1, 2, b1)]%N.           (* C-O, ids 1,2 *)
Definition gOC : graph := LG [(7, aO); (5, aC)]%N [(7, 5, b1)]%N.           (* O-C, ids 7,5: a relabelled copy *)
Definition gCOm : graph := LG [(7, aC); (5, aOm)]%N [(7, 5, b1)]%N.         (* C-[O-] *)
Definition gCOC : graph := LG [(5, aC); (6, aO); (7, aC)]%N [(5, 6, b1); (6, 7, b1)]%N.   (* C-O-C, ids 5,6,7 *)
Definition eFull : engine := Eng [1; 2]%N [4]%N true None.      (* element + charge, order; WL filter on *)
Definition eElem : engine := Eng [1]%N [4]%N true None.         (* element only; WL filter on *)

Lemma wf_gCO : gwf gCO. Proof. wf_small. Qed.
Lemma wf_gOC : gwf gOC. Proof. wf_small. Qed.
Lemma wf_gCOm : gwf gCOm. Proof. wf_small. Qed.
Lemma wf_gCOC : gwf gCOC. Proof. wf_small. Qed.

Definition gsA : list graph := [gCO; gOC; gCOm; gCOC].
Lemma wfA k : (k < 4)%nat -> gwf (gnth gsA k).
Proof.
  intros Hk. destruct k as [|[|[|[|k]]]]; [apply wf_gCO | apply wf_gOC | apply wf_gCOm | apply wf_gCOC | lia].
Qed.

(** (1) a true and a false verdict, and the bijection the theorem yields *)
Example ex_iso_true : exists f, iso_map (nm_eng eFull) (em_eng eFull) gCO gOC f.
Proof.
  apply (iso_verdict has_mono has_mono_contract gsA eFull 0 1 [] (cache_inv_nil gsA) (wfA 0 ltac:(lia)) (wfA 1 ltac:(lia))).
  vm_compute. reflexivity.
Qed.
Example ex_iso_false : ~ exists f, iso_map (nm_eng eFull) (em_eng eFull) gCO gCOm f.
Proof.
  intros C. apply (iso_verdict has_mono has_mono_contract gsA eFull 0 2 [] (cache_inv_nil gsA) (wfA 0 ltac:(lia)) (wfA 2 ltac:(lia))) in C.
  vm_compute in C. discriminate.
Qed.

(** (2a) renaming the nodes of the first graph by +10: premises hold, both verdicts are [true] *)
Definition r10 (x : N) : N := (x + 10)%N.
Definition gsB : list graph := [grelabel r10 gCO; gOC; gCOm; gCOC].
Example ex_relabel :
  fst (isomorphic has_mono eFull 0 (gnth gsB 0) 1 (gnth gsB 1) []) = fst (isomorphic has_mono eFull 0 (gnth gsA 0) 1 (gnth gsA 1) [])
  /\ fst (isomorphic has_mono eFull 0 (gnth gsA 0) 1 (gnth gsA 1) []) = true
  /\ node_ids (gnth gsB 0) = [11; 12]%N.
Proof.
  split; [|split; vm_compute; reflexivity].
  apply (relabel_invariant has_mono has_mono_contract eFull r10 gsA gsB 0 1 [] [] (cache_inv_nil gsA) (cache_inv_nil gsB)
           (wfA 0 ltac:(lia)) (wfA 1 ltac:(lia))).
  left. split; [reflexivity|]. split; [|reflexivity]. intros a b _ _. unfold r10. lia.
Qed.

(** (2b) hcount absent everywhere: hc_all 0 *)
Lemma hc0_gCO : hc_all 0%N gCO. Proof. intros u [<-|[<-|[]]]; reflexivity. Qed.
Lemma hc0_gOC : hc_all 0%N gOC. Proof. intros u [<-|[<-|[]]]; reflexivity. Qed.
Example ex_symmetric :
  fst (isomorphic has_mono eFull 0 (gnth gsA 0) 1 (gnth gsA 1) []) = fst (isomorphic has_mono eFull 1 (gnth gsA 1) 0 (gnth gsA 0) []).
Proof.
  apply (symmetric has_mono has_mono_contract eFull gsA 0 1 [] [] 0%N (cache_inv_nil gsA) (cache_inv_nil gsA)
           (wfA 0 ltac:(lia)) (wfA 1 ltac:(lia)) hc0_gCO hc0_gOC).
Qed.
(** ... and not symmetric in general: host hcount 1 >= pattern hcount 0 only one way round *)
Definition gH1 : graph := LG [(1, [(0, 1); (1, 1)])]%N [].
Definition gH0 : graph := LG [(3, [(0, 0); (1, 1)])]%N [].
Example ex_asymmetric_hcount :
  fst (isomorphic has_mono eElem 0 gH1 1 gH0 []) = true /\ fst (isomorphic has_mono eElem 1 gH0 0 gH1 []) = false.
Proof. split; vm_compute; reflexivity. Qed.

(** (3) the former edge-filter defect: child C-O (ids 1,2) in parent C-O-C (ids 5,6,7), filter on *)
Definition namesEC : list (N * N) := [(1, 9); (2, 3)]%N.
Example ex_subgraph_bool : contained true (nm_subc CEq namesEC) (em_subc CEq (Some 4%N)) gCOC gCO /\
                           ~ contained false (nm_subc CEq namesEC) (em_subc CEq (Some 4%N)) gCO gCOC.
Proof.
  split.
  - apply (subgraph_bool has_mono has_mono_contract true true CEq CEq namesEC (Some 4%N) gCO gCOC wf_gCO wf_gCOC). vm_compute. reflexivity.
  - intros C. apply (subgraph_bool has_mono has_mono_contract true false CEq CEq namesEC (Some 4%N) gCOC gCO wf_gCOC wf_gCO) in C.
    vm_compute in C. discriminate.
Qed.

(** (4) the former argument-order defect: a strictly smaller pattern has 2 embeddings, both valid *)
Definition mapsEx : list mapping := fst (get_mappings has_mono (monos_g true) eFull 3 (gnth gsA 3) 0 (gnth gsA 0) []).
Example ex_embeddings_count : length mapsEx = 2%nat.
Proof. vm_compute. reflexivity. Qed.
Example ex_embeddings : (forall m, In m mapsEx -> mapping_valid true (nm_eng eFull) (em_eng eFull) gCOC gCO m) /\ mapsEx <> [].
Proof.
  destruct (embeddings has_mono (monos_g true) has_mono_contract monos_g_contract gsA eFull 3 0 [] (cache_inv_nil gsA)
              (wfA 3 ltac:(lia)) (wfA 0 ltac:(lia))) as (V & _).
  split; [exact V|]. vm_compute. discriminate.
Qed.

(** (5) the WL filter really rejects (C-O vs C-[O-] under element+charge) and agrees with the unfiltered engine *)
Example ex_filter_rejects : fst (pre_check eFull 0 (gnth gsA 0) 2 (gnth gsA 2) []) = false
                            /\ fst (pre_check (set_wl eFull false) 0 (gnth gsA 0) 2 (gnth gsA 2) []) = true.
Proof. split; vm_compute; reflexivity. Qed.
Example ex_filter_transparent :
  fst (isomorphic has_mono (set_wl eFull false) 0 (gnth gsA 0) 2 (gnth gsA 2) []) = fst (isomorphic has_mono eFull 0 (gnth gsA 0) 2 (gnth gsA 2) []).
Proof.
  apply (filters_transparent has_mono (monos_g true) has_mono_contract monos_g_contract); auto using cache_inv_nil.
  - apply (wfA 0). lia.
  - apply (wfA 2). lia.
Qed.
Example ex_filter_necessary : fst (pre_check eFull 3 (gnth gsA 3) 0 (gnth gsA 0) []) = true.
Proof.
  apply filters_necessary; [apply cache_inv_nil | apply (wfA 3); lia | apply (wfA 0); lia |].
  apply (has_mono_contract true _ _ gCOC gCO wf_gCOC wf_gCO). vm_compute. reflexivity.
Qed.

(** (6) the former cache defect: a charge-aware query, then an element-only query on the same two graph objects.
    The second query hits the cache for neither graph (different node_attrs key) and answers like a fresh engine. *)
Definition histQ : list query := [QIso 0 0 2; QIso 1 0 2; QMaps 1 0 2; QPre 1 0 2; QIso 0 0 2].
Definition histRun : list tok := run_from has_mono (monos_g true) gsA [eFull; eElem] histQ [].
(** (each answer of an isomorphic query carries its intermediate values: host index, pattern index, _pre_check's answer, deciding method) *)
Example ex_history_answers : firstn 2 histRun = [L [tbool false; tlist tN [2; 0; 0; 0]%N]; L [tbool true; tlist tN [2; 0; 1; 1]%N]].
Proof. vm_compute. reflexivity. Qed.
Example ex_history : histRun = map (fun q => fst (step has_mono (monos_g true) gsA [eFull; eElem] q [])) histQ.
Proof. apply no_history_fresh. Qed.
Definition cacheAfter : cache := snd (step has_mono (monos_g true) gsA [eFull; eElem] (QIso 1 0 2)
                                       (snd (step has_mono (monos_g true) gsA [eFull; eElem] (QIso 0 0 2) []))).
Example ex_cache_keys : map fst cacheAfter = [(0%nat, [1%N]); (2%nat, [1%N]); (0%nat, [1; 2]%N); (2%nat, [1; 2]%N)].
Proof. vm_compute. reflexivity. Qed.
