(** C03 — when does _explicit_h raise (StopIteration inside the donor / recipient pairing)?  Exactly when, in some
    connected component of the h_pairs relation, the donors have more hydrogens to give than the recipients can take.
    Stdlib lists only. *)
From Coq Require Import List NArith ZArith Bool Lia.
From SK Require Import lib.Tok lib.LGraph model.C03_Model proof.C03_Proof proof.C03_Glue proof.C03_ExplicitH.
Import ListNotations.
Local Open Scope Z_scope.

Definition capsum (rs : list (N * Z)) : Z := fold_right (fun p acc => snd p + acc) 0 rs.
Definition caps_nonneg (rs : list (N * Z)) : Prop := Forall (fun p => 0 <= snd p) rs.
Definition need (dl : N -> Z) (ds : list N) : Z := fold_right (fun d acc => Z.of_nat (Z.to_nat (dl d)) + acc) 0 ds.

Lemma need_nonneg dl ds : 0 <= need dl ds.
Proof. induction ds; simpl; lia. Qed.

Lemma take_recip_none rs : caps_nonneg rs -> take_recip rs = None -> capsum rs = 0.
Proof.
  induction rs as [|[r cap] rest IH]; simpl; intros Hn H; [reflexivity|].
  inversion Hn as [|? ? H1 H2]; subst. simpl in H1.
  destruct (Z.ltb_spec 0 cap); [discriminate|].
  destruct (take_recip rest) as [[x rest']|] eqn:E; [discriminate|]. rewrite (IH H2 eq_refl). lia.
Qed.
Lemma take_recip_some rs : forall x rs', caps_nonneg rs -> take_recip rs = Some (x, rs') ->
  caps_nonneg rs' /\ capsum rs' = capsum rs - 1.
Proof.
  induction rs as [|[r cap] rest IH]; simpl; intros x rs' Hn H; [discriminate|].
  inversion Hn as [|? ? H1 H2]; subst. simpl in H1.
  destruct (Z.ltb_spec 0 cap).
  - inversion H; subst. split; [constructor; [simpl; lia|exact H2]|simpl; lia].
  - destruct (take_recip rest) as [[x' rest']|] eqn:E; [|discriminate]. inversion H; subst.
    destruct (IH x rest' H2 eq_refl) as [A B]. split; [constructor; [exact H1|exact A]|simpl; lia].
Qed.

Lemma donate_total d k : forall rs acc, caps_nonneg rs ->
  match donate d k rs acc with
  | Some (rs', _) => caps_nonneg rs' /\ capsum rs' = capsum rs - Z.of_nat k
  | None => capsum rs < Z.of_nat k
  end.
Proof.
  induction k as [|k IH]; intros rs acc Hn.
  - simpl. split; [exact Hn|lia].
  - cbn [donate]. destruct (take_recip rs) as [[r rs1]|] eqn:E.
    + destruct (take_recip_some rs r rs1 Hn E) as [A B]. specialize (IH rs1 (acc ++ [(d, r)]) A).
      destruct (donate d k rs1 (acc ++ [(d, r)])) as [[rs' acc']|]; [destruct IH as [C D]; split; [exact C|]|]; lia.
    + rewrite (take_recip_none rs Hn E). lia.
Qed.

Lemma donor_fold_total dl ds : forall rs acc, caps_nonneg rs ->
  match fold_left (donor_step dl) ds (Some (rs, acc)) with
  | Some (rs', _) => caps_nonneg rs' /\ capsum rs' = capsum rs - need dl ds
  | None => capsum rs < need dl ds
  end.
Proof.
  induction ds as [|d r IH]; intros rs acc Hn.
  - simpl. split; [exact Hn|lia].
  - cbn [fold_left need fold_right]. unfold donor_step at 2.
    pose proof (donate_total d (Z.to_nat (dl d)) rs acc Hn) as Hd.
    destruct (donate d (Z.to_nat (dl d)) rs acc) as [[rs1 acc1]|].
    + destruct Hd as [A B]. specialize (IH rs1 acc1 A). fold (need dl r).
      destruct (fold_left (donor_step dl) r (Some (rs1, acc1))) as [[rs' acc']|]; [destruct IH as [C D]; split; [exact C|]|]; lia.
    + rewrite donor_fold_none. fold (need dl r). pose proof (need_nonneg dl r). lia.
Qed.

(** the condition, as a boolean on one component *)
Definition comp_okb (T : its) (comp : list N) : bool :=
  need (dl_of T) (filter (fun n => 0 <? dl_of T n) comp)
  <=? capsum (map (fun n => (n, - dl_of T n)) (filter (fun n => dl_of T n <? 0) comp)).

Lemma forallb_ext_all {A} (f g : A -> bool) l : (forall x, f x = g x) -> forallb f l = forallb g l.
Proof. intros H. induction l as [|x r IH]; simpl; [reflexivity|]. rewrite H, IH. reflexivity. Qed.
Lemma need_sumF dl comp : need dl (filter (fun n => 0 <? dl n) comp) = sumF dl (filter (fun n => 0 <? dl n) comp).
Proof.
  induction comp as [|a r IH]; simpl; [reflexivity|]. destruct (Z.ltb_spec 0 (dl a)); simpl; [|exact IH].
  rewrite IH, Z2Nat.id by lia. reflexivity.
Qed.
Lemma capsum_sumF (f : N -> Z) l : capsum (map (fun n => (n, f n)) l) = sumF f l.
Proof. induction l as [|a r IH]; simpl; [reflexivity|]. rewrite IH. reflexivity. Qed.
Lemma comp_okb_balancedb T comp : comp_okb T comp = comp_balancedb T comp.
Proof. unfold comp_okb, comp_balancedb. rewrite need_sumF, (capsum_sumF (fun n => - dl_of T n)). reflexivity. Qed.

Lemma migrations_of_total T comp :
  match migrations_of T comp with Some _ => comp_okb T comp = true | None => comp_okb T comp = false end.
Proof.
  unfold migrations_of, comp_okb. fold (dl_of T).
  change (fold_left _ (filter (fun n => 0 <? dl_of T n) comp) (Some (map (fun n => (n, - dl_of T n)) (filter (fun n => dl_of T n <? 0) comp), [])))
    with (fold_left (donor_step (dl_of T)) (filter (fun n => 0 <? dl_of T n) comp)
                    (Some (map (fun n => (n, - dl_of T n)) (filter (fun n => dl_of T n <? 0) comp), []))).
  set (rs := map (fun n => (n, - dl_of T n)) (filter (fun n => dl_of T n <? 0) comp)).
  assert (Hn : caps_nonneg rs).
  { unfold caps_nonneg, rs. apply Forall_forall. intros [n c] I. apply in_map_iff in I. destruct I as (n' & E & I). inversion E; subst.
    apply filter_In in I. destruct I as [_ I]. apply Z.ltb_lt in I. simpl. lia. }
  pose proof (donor_fold_total (dl_of T) (filter (fun n => 0 <? dl_of T n) comp) rs [] Hn) as H.
  destruct (fold_left _ _ _) as [[rs' acc]|].
  - destruct H as [A B]. apply Z.leb_le.
    assert (0 <= capsum rs') by (clear - A; induction A as [|[n c] l H1 H2 IH]; simpl in *; lia). lia.
  - apply Z.leb_gt. exact H.
Qed.

Lemma comp_fold_total T cs : forall acc,
  match fold_left (comp_step T) cs (Some acc) with
  | Some _ => forallb (fun c => comp_okb T (sort_N c)) cs = true
  | None => forallb (fun c => comp_okb T (sort_N c)) cs = false
  end.
Proof.
  induction cs as [|c r IH]; intros acc; [reflexivity|].
  cbn [fold_left forallb]. unfold comp_step at 2. pose proof (migrations_of_total T (sort_N c)) as Hc.
  destruct (migrations_of T (sort_N c)) as [ms|].
  - rewrite Hc. exact (IH (acc ++ ms)).
  - rewrite Hc, comp_fold_none. reflexivity.
Qed.

Theorem explicit_h_crash_iff T : explicit_h T = None <-> pairs_okb T = false.
Proof.
  unfold explicit_h, pairs_okb, all_migrations.
  rewrite (forallb_ext_all (fun c => comp_balancedb T (sort_N c)) (fun c => comp_okb T (sort_N c)) (components (pair_to_nodes T)))
    by (intros; symmetry; apply comp_okb_balancedb).
  change (fold_left _ (components (pair_to_nodes T)) (Some [])) with (fold_left (comp_step T) (components (pair_to_nodes T)) (Some [])).
  pose proof (comp_fold_total T (components (pair_to_nodes T)) []) as H.
  destruct (fold_left (comp_step T) (components (pair_to_nodes T)) (Some [])) as [ms|].
  - rewrite H. split; [|discriminate].
    destruct (fold_left _ ms (T, N.succ (max_id T))) as [T1 h1]. discriminate.
  - rewrite H. split; reflexivity.
Qed.
