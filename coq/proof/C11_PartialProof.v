(** C11 (round 3) — PartialMatcher's pruning over its list of hosts. *)
From Coq Require Import List NArith.
From SK Require Import lib.LGraph model.C11_Model model.C11_Partial proof.C11_Dedup proof.C11_Sig.
Import ListNotations.

Lemma partial_prune_hosts_all (X : Type) (key : X -> mapping) (fn : nlab -> N) (k : nat) (xs : list X) :
  (forall h, partial_prune_hosts key fn [h] k xs = partial_prune key fn h k xs) /\
  (forall hosts, length hosts <> 1%nat -> xs <> [] -> partial_prune_hosts key fn hosts k xs = Some xs) /\
  (forall hosts out, partial_prune_hosts key fn hosts k xs = Some out -> subseq out xs).
Proof.
  split; [|split].
  - intros h. destruct xs; reflexivity.
  - intros hosts Hl Hx. destruct xs as [|x r]; [congruence|]. destruct hosts as [|h [|h' t]]; simpl in *; try reflexivity. congruence.
  - intros hosts out. destruct xs as [|x r]; simpl; [intros [= <-]; constructor|].
    destruct hosts as [|h [|h' t]]; try (intros [= <-]; apply subseq_refl).
    apply (partial_prune_subseq X key fn h k (x :: r) out).
Qed.
