(** C04 — the pruning premise discharged with C11's theorem: whatever the pruning by rule automorphisms keeps of a raw
    list that contains the identity, its_list built from it contains an ITS that decomposes to the reaction.
    Uses proof/C11_Main.v (prune_complete_fun) read-only.  The rule is handed to C11's model through node / edge codes
    [cn] / [ce] (the harness interns attribute values; here: any coding that determines both tuples / the bond label). *)
From Coq Require Import List NArith ZArith Bool Arith Lia Permutation.
From SK Require Import lib.Tok lib.LGraph lib.Mono model.C11_Model proof.C11_Aut proof.C11_Dedup proof.C11_Main.
From SK Require Import model.C03_Model model.C04_Model model.C04_Reactor proof.C03_Proof proof.C03_Glue proof.C03_Backward
                       proof.C04_Glue proof.C04_Template proof.C04_Any proof.C04_Proof.
Import ListNotations.
Local Open Scope Z_scope.

Section Codes.
  Variable cn : inode -> N.
  Variable ce : iedge -> N.
  Local Notation tr_rule := (C04_Reactor.tr_rule cn ce).

  Lemma tr_rule_ids t : node_ids (tr_rule t) = node_ids t.
  Proof. unfold node_ids, tr_rule; simpl. rewrite map_map. reflexivity. Qed.
  Lemma tr_rule_label t n : lab_of n_full (tr_rule t) n = option_map cn (label t n).
  Proof.
    unfold lab_of, label, tr_rule; simpl. induction (gnodes t) as [|[k a] r IH]; simpl; [reflexivity|].
    destruct (N.eqb n k); [reflexivity|exact IH].
  Qed.
  Lemma tr_rule_adj t a b : adj_of e_full (tr_rule t) a b = option_map ce (LGraph.adj t a b).
  Proof.
    unfold adj_of, LGraph.adj, tr_rule; simpl. induction (gedges t) as [|[[u v] x] r IH]; simpl; [reflexivity|].
    destruct ((N.eqb u a && N.eqb v b) || (N.eqb u b && N.eqb v a)); [reflexivity|exact IH].
  Qed.

  (** an automorphism in C11's sense of the coded rule is a symmetry of the rule, with an inverse *)
  Definition inv_on (ns : list N) (s : N -> N) (v : N) : N :=
    match find (fun u => N.eqb (s u) v) ns with Some u => u | None => v end.

  (** the codes need to be faithful only on the atoms and bonds of the rule at hand *)
  Definition faithful (t : its) : Prop :=
    (forall n a n' b, In (n, a) (gnodes t) -> In (n', b) (gnodes t) -> cn a = cn b -> iG a = iG b /\ iH a = iH b) /\
    (forall u v x u' v' z, In (u, v, x) (gedges t) -> In (u', v', z) (gedges t) -> ce x = ce z -> x = z).

  Lemma aut_is_rule_aut (t : its) (s : N -> N) : faithful t -> wf_rcb t = true ->
    (forall u v x, In (u, v, x) (gedges t) -> In u (node_ids t) /\ In v (node_ids t)) ->
    is_automorphism n_full e_full (tr_rule t) s -> rule_aut t s (inv_on (node_ids t) s).
  Proof.
    intros [Hcn Hce] Hw Hcl (S1 & S2 & S3 & S4). rewrite tr_rule_ids in S1, S2, S3, S4.
    pose proof (wf_rc_nodup t Hw) as Hnd. set (ns := node_ids t) in *.
    assert (Hsurj : forall v, In v ns -> exists u, In u ns /\ s u = v).
    { intros v Hv. assert (Hincl : incl ns (map s ns)).
      { apply NoDup_length_incl.
        - apply NoDup_map_inj; [exact Hnd|]. intros a b Ia Ib E. exact (S2 a b Ia Ib E).
        - rewrite map_length. lia.
        - intros x Hx. apply in_map_iff in Hx. destruct Hx as (u & <- & Hu). auto. }
      specialize (Hincl v Hv). apply in_map_iff in Hincl. destruct Hincl as (u & E & Hu). eauto. }
    assert (Hinv : forall v, In v ns -> In (inv_on ns s v) ns /\ s (inv_on ns s v) = v).
    { intros v Hv. unfold inv_on. destruct (find (fun u => N.eqb (s u) v) ns) as [u|] eqn:F.
      - apply find_some in F. destruct F as [Hu E]. apply N.eqb_eq in E. auto.
      - exfalso. destruct (Hsurj v Hv) as (u & Hu & E). pose proof (find_none _ _ F u Hu) as Hn. simpl in Hn.
        rewrite E, N.eqb_refl in Hn. discriminate. }
    assert (Hedge : forall f, (forall u, In u ns -> In (f u) ns) ->
              (forall u v, In u ns -> In v ns -> option_map ce (LGraph.adj t (f u) (f v)) = option_map ce (LGraph.adj t u v)) ->
              forall u v x, In (u, v, x) (gedges t) -> LGraph.adj t (f u) (f v) = Some x).
    { intros f F1 F2 u v x I. destruct (Hcl u v x I) as [Iu Iv]. specialize (F2 u v Iu Iv).
      assert (Ea : LGraph.adj t u v = Some x).
      { unfold LGraph.adj. apply simple_in_find; [apply simpleP_of_b; exact (wf_rc_simple t Hw)|exact I]. }
      rewrite Ea in F2. destruct (LGraph.adj t (f u) (f v)) as [y|] eqn:Ey; [|discriminate]. simpl in F2. inversion F2 as [E].
      unfold LGraph.adj in Ey. apply find_edge_in in Ey. destruct Ey as (p & q & Iy & _).
      rewrite (Hce _ _ _ _ _ _ Iy I E). reflexivity. }
    constructor.
    - intros n In_. destruct (Hinv n In_) as [I1 E1]. split; [exact (S1 n In_)|]. split; [exact I1|]. split; [|exact E1].
      destruct (Hinv (s n) (S1 n In_)) as [I2 E2]. exact (S2 _ _ I2 In_ E2).
    - intros n a E. pose proof (S3 n (label_some_in t n a E)) as L. rewrite !tr_rule_label, E in L. simpl in L.
      destruct (label t (s n)) as [a'|] eqn:Ea'; [|discriminate]. simpl in L. inversion L as [Ec]. exists a'. split; [reflexivity|].
      destruct (Hcn _ _ _ _ (assoc_in (s n) (gnodes t) Ea') (assoc_in n (gnodes t) E) Ec). auto.
    - apply Hedge; [exact S1|]. intros u v Iu Iv. pose proof (S4 u v Iu Iv) as Q. rewrite !tr_rule_adj in Q. exact Q.
    - apply Hedge; [intros u Iu; exact (proj1 (Hinv u Iu))|]. intros u v Iu Iv.
      destruct (Hinv u Iu) as [Iu' Eu]. destruct (Hinv v Iv) as [Iv' Ev].
      pose proof (S4 _ _ Iu' Iv') as Q. rewrite !tr_rule_adj, Eu, Ev in Q. symmetry. exact Q.
  Qed.
End Codes.

(** * mappings that are equal as sets of pairs behave alike *)
Lemma same_pairs_mget (m1 m2 : C03_Model.mapping) : NoDup (map fst m1) -> NoDup (map fst m2) ->
  (forall p h, In (p, h) m1 <-> In (p, h) m2) -> forall p, mget m1 p = mget m2 p.
Proof.
  intros N1 N2 E p. destruct (mget m1 p) as [h|] eqn:E1.
  - symmetry. apply mget_in_nodup; [exact N2|]. apply E. unfold mget in E1. apply assoc_in in E1. exact E1.
  - destruct (mget m2 p) as [h|] eqn:E2; [|reflexivity]. exfalso.
    unfold mget in E2. apply assoc_in in E2. apply E in E2. rewrite (mget_in_nodup m1 p h N1 E2) in E1. discriminate.
Qed.
Lemma find_hit_ext (m1 m2 : C03_Model.mapping) es a b : (forall p, mget m1 p = mget m2 p) -> find_hit m1 es a b = find_hit m2 es a b.
Proof.
  intros E. induction es as [|[[u v] x] r IH]; simpl; [reflexivity|]. unfold hits, img. rewrite !E, IH. reflexivity.
Qed.
Lemma NoDup_pairs_of_keys (m : C03_Model.mapping) : NoDup (map fst m) -> NoDup m.
Proof. intros H. exact (NoDup_map_inv fst m H). Qed.

Section Kept.
  Variables (A B : hostg) (tpl : its) (s s' : N -> N) (y : C03_Model.mapping).
  Hypothesis PW : pair_wf A B.
  Hypothesis D : describes A B tpl.
  Hypothesis RA : rule_aut tpl s s'.
  Hypothesis Yk : NoDup (map fst y).
  Hypothesis Yv : NoDup (map snd y).
  Hypothesis Ys : forall p h, In (p, h) y <-> In (p, h) (aut_map tpl s).
  Let Hwr := d_wf _ _ _ D.
  Let m := aut_map tpl s.
  Let Hnd : NoDup (node_ids tpl) := wf_rc_nodup tpl Hwr.

  Lemma m_keys : NoDup (map fst m).
  Proof. unfold m. rewrite aut_map_fst. exact Hnd. Qed.
  Lemma y_mget p : mget y p = mget m p.
  Proof. apply same_pairs_mget; [exact Yk|exact m_keys|exact Ys]. Qed.
  Lemma y_perm : Permutation y m.
  Proof. apply NoDup_Permutation; [apply NoDup_pairs_of_keys; exact Yk|apply NoDup_pairs_of_keys; exact m_keys|]. intros [p h]. apply Ys. Qed.

  Lemma y_MN n a : In (n, a) (gnodes tpl) ->
    exists h x z, mget y n = Some h /\ label A h = Some x /\ label B h = Some z /\ node_fit a x z.
  Proof. intros I. destruct (aut_MN A B tpl s s' D RA n a I) as (h & x & z & E & R). exists h, x, z. rewrite y_mget. auto. Qed.
  Lemma y_ME u v x : In (u, v, x) (gedges tpl) ->
    exists hu hv, mget y u = Some hu /\ mget y v = Some hv /\ eG x = order_in A hu hv /\ eH x = order_in B hu hv.
  Proof. intros I. destruct (aut_ME A B tpl s s' D RA u v x I) as (hu & hv & E1 & E2 & R). exists hu, hv. rewrite !y_mget. auto. Qed.

  Lemma y_match : match_rcb A tpl y = true.
  Proof.
    unfold match_rcb. apply andb_true_intro; split; [apply andb_true_intro; split; [apply andb_true_intro; split; [apply andb_true_intro; split|]|]|].
    - apply NoDup_nodupb. exact Yk.
    - apply NoDup_nodupb. exact Yv.
    - rewrite (Permutation_length y_perm). unfold m, aut_map, node_ids. rewrite !map_length. apply Nat.eqb_refl.
    - apply forallb_forall. intros [n a] I. unfold rc_node_okb. simpl.
      destruct (y_MN n a I) as (h & x & z & Eh & Ex & _ & E1 & _ & E3 & _ & E5 & _). rewrite Eh, Ex.
      rewrite E1, E3, N.eqb_refl, Z.eqb_refl. simpl. apply Z.leb_le. exact E5.
    - apply forallb_forall. intros [[u v] x] I. unfold rc_edge_okb.
      destruct (y_ME u v x I) as (hu & hv & E1 & E2 & Eg & _). rewrite E1, E2.
      destruct (0 <? eG x) eqn:E; [|reflexivity]. apply Z.ltb_lt in E.
      rewrite Eg in E. unfold order_in in E, Eg. destruct (LGraph.adj A hu hv) as [o|]; [|lia]. apply Z.eqb_eq. congruence.
  Qed.

  Theorem kept_regen : match_rcb A tpl y = true /\ exists T, glue A tpl y = Some T /\ regen_exact T A B = true.
  Proof.
    split; [exact y_match|].
    assert (MCe : forall a b, order_in A a b <> order_in B a b -> find_hit y (gedges tpl) a b <> None).
    { intros a b NE. rewrite (find_hit_ext y m (gedges tpl) a b y_mget). exact (aut_MCe A B tpl s s' D RA a b NE). }
    assert (MCn : forall h x z, label A h = Some x -> label B h = Some z -> sel x <> sel z -> In h (map snd y)).
    { intros h x z Ex Ez NE. pose proof (aut_MCn A B tpl s s' D RA h x z Ex Ez NE) as I.
      apply (Permutation_in _ (Permutation_map snd (Permutation_sym y_perm))). exact I. }
    destruct (m_glue_some A B tpl y PW Hwr y_match y_ME) as [T ET]. exists T. split; [exact ET|].
    exact (m_regen_exact A B tpl y PW Hwr y_match y_MN y_ME MCe MCn T ET).
  Qed.
End Kept.

(** * the theorem: its_list on the pruned raw list *)
Section Pruned.
  Variable cn : inode -> N.
  Variable ce : iedge -> N.
  Variables (core invert : bool) (G H : hostg).
  Hypothesis Hcodes : faithful cn ce (template core invert G H).
  Hypothesis W : pair_wfb G H = true.
  Hypothesis NH : no_explicit_H G = true.
  Hypothesis CC : core = true -> centre_carries (its_construct G H) = true.
  Let A := if invert then H else G.
  Let B := if invert then G else H.
  Let tpl := template core invert G H.
  Variable raw : list C03_Model.mapping.
  (** what the engine returns (C06): injective maps defined on atoms of the rule *)
  Hypothesis Hraw : forall m, In m raw -> NoDup (map fst m) /\ NoDup (map snd m) /\ forall p h, In (p, h) m -> In p (node_ids tpl).
  (** ... the identity among them, as a set of pairs (C04_identity_among_raw) *)
  Hypothesis Hid : exists m0, In m0 raw /\ Permutation (id_map (node_ids tpl)) m0.

  Theorem pruned_results :
    exists T, In (Some T) (its_list core invert G H (prune (fun m : C03_Model.mapping => m) (tr_rule cn ce tpl) raw)) /\
              regen_exact T A B = true.
  Proof.
    pose proof (template_describes core invert G H W NH CC) as D. fold A in D. fold B in D. fold tpl in D.
    pose proof (proj1 (pair_wfb_sound G H W)) as PW0.
    assert (PW : pair_wf A B) by (unfold A, B; destruct invert; [apply pair_wf_sym|]; exact PW0).
    pose proof (d_wf _ _ _ D) as Hwr. pose proof (wf_rc_nodup tpl Hwr) as Hnd.
    destruct Hid as (m0 & I0 & P0).
    assert (SG : simple_graph (tr_rule cn ce tpl)).
    { split; [rewrite tr_rule_ids; exact Hnd|]. intros a b x I. unfold tr_rule in I; simpl in I. apply in_map_iff in I.
      destruct I as ([[u v] z] & E & I). inversion E; subst. exact (simple_edges_ne (gedges tpl) a b z (wf_rc_simple tpl Hwr) I). }
    destruct (prune_complete_fun C03_Model.mapping (fun m => m) (tr_rule cn ce tpl) raw SG) with (x := m0) as (y & Iy & s & Hs & Hy).
    { intros x p h Ix Ip. rewrite tr_rule_ids. exact (proj2 (proj2 (Hraw x Ix)) p h Ip). }
    { exact I0. }
    assert (Iyr : In y raw) by exact (subseq_in _ _ y (prune_subseq C03_Model.mapping (fun m => m) (tr_rule cn ce tpl) raw) Iy).
    destruct (Hraw y Iyr) as (Yk & Yv & Yd).
    assert (RA : rule_aut tpl s (inv_on (node_ids tpl) s)).
    { apply (aut_is_rule_aut cn ce tpl s Hcodes Hwr); [|exact Hs]. intros u v x I. destruct (d_edges _ _ _ D u v x I) as (Iu & Iv & _). auto. }
    assert (M0 : forall p h, In (p, h) m0 <-> p = h /\ In p (node_ids tpl)).
    { intros p h. split.
      - intros I. apply (Permutation_in _ (Permutation_sym P0)) in I. unfold id_map in I. apply in_map_iff in I.
        destruct I as (n & E & In_). inversion E; subst. auto.
      - intros [-> I]. apply (Permutation_in _ P0). unfold id_map. apply in_map_iff. exists h. auto. }
    assert (Ys : forall p h, In (p, h) y <-> In (p, h) (aut_map tpl s)).
    { intros p h. unfold aut_map. rewrite in_map_iff. split.
      - intros I. exists p. split; [|exact (Yd p h I)]. f_equal.
        assert (Q : In (s p, h) m0) by (apply Hy; exists p; auto). apply M0 in Q. destruct Q as [Q _]. exact Q.
      - intros (n & E & In_). inversion E; subst n h.
        assert (Q : In (s p, s p) m0) by (apply M0; split; [reflexivity|exact (proj1 (ra_in _ _ _ RA p In_))]).
        apply Hy in Q. destruct Q as (p' & Ip' & Es).
        assert (p' = p).
        { destruct (ra_in _ _ _ RA p In_) as (_ & _ & E1 & _). destruct (ra_in _ _ _ RA p' (Yd p' (s p) Ip')) as (_ & _ & E2 & _). congruence. }
        subst p'. exact Ip'. }
    destruct (kept_regen A B tpl s (inv_on (node_ids tpl) s) y PW D RA Yk Yv Ys) as (_ & T & ET & ER).
    exists T. split; [|exact ER].
    unfold its_list. rewrite (rule_is_template core invert G H W NH), (mode_implicit G H W NH), (substrate_is_A core invert G H W NH).
    fold tpl. fold A. apply in_map_iff. exists y. split; [rewrite ET; reflexivity|exact Iy].
  Qed.
End Pruned.

Lemma pruned_results_all (cn : inode -> N) (ce : iedge -> N) (core invert : bool) (G H : hostg) (raw : list C03_Model.mapping) :
  faithful cn ce (template core invert G H) ->
  pair_wfb G H = true -> no_explicit_H G = true ->
  (core = true -> centre_carries (its_construct G H) = true) ->
  (forall m, In m raw -> NoDup (map fst m) /\ NoDup (map snd m) /\
                         forall p h, In (p, h) m -> In p (node_ids (template core invert G H))) ->
  (exists m0, In m0 raw /\ Permutation (id_map (node_ids (template core invert G H))) m0) ->
  exists T : its,
    In (Some T) (its_list core invert G H (prune (fun m : C03_Model.mapping => m) (tr_rule cn ce (template core invert G H)) raw)) /\
    regen_exact T (if invert then H else G) (if invert then G else H) = true.
Proof. intros Hc W NH CC Hraw Hid. exact (pruned_results cn ce core invert G H Hc W NH CC raw Hraw Hid). Qed.
