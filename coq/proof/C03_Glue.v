(** C03 — second layer of glue proofs: the statements of proof/C03_Proof.v lifted to the DECOMPOSITION of the glued
    ITS (what _to_smarts serialises), element / hydrogen / charge accounting under [balancedb], the bundled
    changed-bond correspondence with end-atom labels, and the exact condition under which no ITS is produced.
    Stdlib lists only. *)
From Coq Require Import List NArith ZArith Bool Lia Permutation.
From SK Require Import lib.Tok lib.LGraph model.C03_Model proof.C03_Proof.
Import ListNotations.
Local Open Scope Z_scope.

(** * Simple edge lists (one entry per unordered pair, no loops), as a proposition on the endpoint pairs *)
Definition pairs {B} (es : list (N * N * B)) : list (N * N) := map (fun e => fst e) es.
Fixpoint simpleP (ps : list (N * N)) : Prop :=
  match ps with
  | [] => True
  | (a, b) :: r => a <> b /\ (forall u v, In (u, v) r -> peq u v a b = false) /\ simpleP r
  end.

Lemma simpleP_of_b {B} (es : list (N * N * B)) : simple_edgesb es = true -> simpleP (pairs es).
Proof.
  induction es as [|[[a b] x] r IH]; simpl; [auto|]. intros H.
  apply andb_prop in H. destruct H as [H H3]. apply andb_prop in H. destruct H as [H1 H2].
  split; [|split; [|auto]].
  - intro; subst. rewrite N.eqb_refl in H1. discriminate.
  - intros u v I. unfold pairs in I. apply in_map_iff in I. destruct I as ([[u' v'] y] & E & I). simpl in E. inversion E; subst.
    apply negb_true_iff in H2. destruct (peq u v a b) eqn:Ep; [|reflexivity].
    rewrite <- H2. symmetry. apply existsb_exists. exists (u, v, y). auto.
Qed.

Lemma simpleP_app ps a b : simpleP ps -> a <> b -> (forall u v, In (u, v) ps -> peq u v a b = false) -> simpleP (ps ++ [(a, b)]).
Proof.
  induction ps as [|[a0 b0] r IH]; simpl; intros Hs Hne Hall.
  - split; [exact Hne|]. split; [intros u v []|constructor].
  - destruct Hs as (H1 & H2 & H3). split; [exact H1|]. split.
    + intros u v I. apply in_app_or in I. destruct I as [I|[I|[]]]; [auto|]. inversion I; subst.
      rewrite peq_swap. apply Hall. auto.
    + apply IH; auto.
Qed.

Lemma peq_false_trans u v p q a b : peq u v p q = false -> peq p q a b = true -> peq u v a b = false.
Proof.
  intros H1 H2. destruct (peq u v a b) eqn:E; [|reflexivity].
  rewrite <- H1. symmetry. apply (peq_trans a b u v p q); rewrite peq_swap; assumption.
Qed.

Lemma find_edge_none_all {B} (es : list (N * N * B)) a b :
  (forall u v y, In (u, v, y) es -> peq u v a b = false) -> find_edge a b es = None.
Proof.
  induction es as [|[[p q] y] r IH]; simpl; intros H; [reflexivity|].
  change ((N.eqb p a && N.eqb q b) || (N.eqb p b && N.eqb q a)) with (peq p q a b).
  rewrite (H p q y) by auto. apply IH. intros; eapply H; eauto.
Qed.

Lemma simple_edges_ne {B} (es : list (N * N * B)) u v x : simple_edgesb es = true -> In (u, v, x) es -> u <> v.
Proof.
  intros H I. apply in_split in I. destruct I as (l1 & l2 & E).
  exact (proj1 (simple_edgesb_spec es H l1 u v x l2 E)).
Qed.

(** * The glued ITS has a simple edge list *)
Lemma pairs_set_edge (T : its) u v x : pairs (gedges (set_edge T u v x)) = pairs (gedges T).
Proof.
  unfold pairs, set_edge; simpl. rewrite map_map. apply map_ext. intros [[a b] y].
  destruct ((N.eqb a u && N.eqb b v) || (N.eqb a v && N.eqb b u)); reflexivity.
Qed.

Lemma glue_edge_simple m T e T' :
  NoDup (map snd m) -> fst (fst e) <> snd (fst e) -> simpleP (pairs (gedges T)) ->
  glue_edge m (Some T) e = Some T' -> simpleP (pairs (gedges T')).
Proof.
  destruct e as [[u v] x]. simpl. intros Hm Hne Hs.
  destruct (mget m u) as [hu|] eqn:E1; [|intros [= <-]; exact Hs].
  destruct (mget m v) as [hv|] eqn:E2; [|intros [= <-]; exact Hs].
  destruct (adj T hu hv) as [y|] eqn:Ea.
  - destruct (Z.eqb (eG x) 0); [destruct (Z.odd _); [discriminate|]|]; intros [= <-]; rewrite pairs_set_edge; exact Hs.
  - intros [= <-]. simpl. unfold pairs. rewrite map_app. simpl. apply simpleP_app; [exact Hs| |].
    + intro; subst hv. apply Hne. exact (mget_inj m u v hu Hm E1 E2).
    + intros p q I. apply in_map_iff in I. destruct I as ([[p' q'] y] & E & I). simpl in E. inversion E; subst.
      exact (find_edge_none_in (gedges T) hu hv p q y Ea I).
Qed.

Lemma fold_glue_simple m es : forall T T',
  NoDup (map snd m) -> (forall u v x, In (u, v, x) es -> u <> v) -> simpleP (pairs (gedges T)) ->
  fold_left (glue_edge m) es (Some T) = Some T' -> simpleP (pairs (gedges T')).
Proof.
  induction es as [|e r IH]; cbn [fold_left]; intros T T' Hm Hne Hs H; [inversion H; subst; exact Hs|].
  destruct (glue_edge m (Some T) e) as [T1|] eqn:E; [|rewrite fold_glue_none in H; discriminate].
  apply (IH T1 T' Hm); [intros; eapply Hne; right; eauto| |exact H].
  eapply glue_edge_simple; eauto. destruct e as [[u v] x]. simpl. eapply Hne. left. reflexivity.
Qed.

(** * Decomposition of an ITS with a simple edge list *)
Lemma dec_adj sn se (T : its) a b : simpleP (pairs (gedges T)) ->
  adj (dec_side sn se T) a b = match adj T a b with Some x => if 0 <? se x then Some (se x) else None | None => None end.
Proof.
  unfold adj, dec_side; simpl. induction (gedges T) as [|[[p q] y] r IH]; simpl; intros Hs; [reflexivity|].
  destruct Hs as (Hne & Hr & Hs).
  change ((N.eqb p a && N.eqb q b) || (N.eqb p b && N.eqb q a)) with (peq p q a b).
  destruct (peq p q a b) eqn:E.
  - destruct (0 <? se y) eqn:Ey; simpl.
    + change ((N.eqb p a && N.eqb q b) || (N.eqb p b && N.eqb q a)) with (peq p q a b). rewrite E. reflexivity.
    + apply find_edge_none_all. intros u v z I. apply in_flat_map in I. destruct I as ([[u' v'] y'] & I & I').
      destruct (0 <? se y'); [|destruct I']. destruct I' as [I'|[]]. inversion I'; subst.
      apply (peq_false_trans u v p q a b); [|exact E]. apply Hr. unfold pairs.
      change (u, v) with (fst (u, v, y')). apply in_map. exact I.
  - destruct (0 <? se y); simpl.
    + change ((N.eqb p a && N.eqb q b) || (N.eqb p b && N.eqb q a)) with (peq p q a b). rewrite E. apply IH; exact Hs.
    + apply IH; exact Hs.
Qed.

Lemma dec_gnodes sn se (T : its) : gnodes (dec_side sn se T) = map (fun p => (fst p, dec_node (sn (snd p)))) (gnodes T).
Proof. reflexivity. Qed.

(** * Sums *)
Lemma sumL_map {V W} (w : W -> Z) (f : V -> W) (l : list (N * V)) :
  sumL w (map (fun p => (fst p, f (snd p))) l) = sumL (fun a => w (f a)) l.
Proof. induction l as [|[k v] r IH]; simpl; [reflexivity|]. rewrite IH. reflexivity. Qed.
Lemma sumL_ext_in {V} (w w' : V -> Z) (l : list (N * V)) : (forall k v, In (k, v) l -> w v = w' v) -> sumL w l = sumL w' l.
Proof.
  induction l as [|[k v] r IH]; simpl; intros H; [reflexivity|]. rewrite (H k v) by auto. rewrite IH; [reflexivity|].
  intros; eapply H; eauto.
Qed.
Lemma sumL_sub {V} (f g : V -> Z) (l : list (N * V)) : sumL (fun a => f a - g a) l = sumL f l - sumL g l.
Proof. induction l as [|[k v] r IH]; simpl; [reflexivity|]. rewrite IH. lia. Qed.

Lemma count_el_dec e sn se (T : its) :
  count_el e (dec_side sn se T) = sumZ (fun a => if N.eqb (a_el (sn a)) e then 1 else 0) T.
Proof. unfold count_el, sumZ. rewrite dec_gnodes. apply (sumL_map (fun a => if N.eqb (m_el a) e then 1 else 0) (fun a => dec_node (sn a))). Qed.
Lemma total_hc_dec sn se (T : its) : total_hc (dec_side sn se T) = sumZ (fun a => a_hc (sn a)) T.
Proof. unfold total_hc, sumZ. rewrite dec_gnodes. apply (sumL_map m_hc (fun a => dec_node (sn a))). Qed.
Lemma total_charge_dec sn se (T : its) : total_charge (dec_side sn se T) = sumZ (fun a => a_ch (sn a)) T.
Proof. unfold total_charge, sumZ. rewrite dec_gnodes. apply (sumL_map m_ch (fun a => dec_node (sn a))). Qed.

(** * Node gluing keeps the reactant tuples, as lists *)
Lemma glue_nodes_iG_list T rc m :
  map (fun p => (fst p, iG (snd p))) (gnodes (glue_nodes T rc m)) = map (fun p => (fst p, iG (snd p))) (gnodes T).
Proof.
  revert T. induction m as [|[p h] r IH]; intros T; [reflexivity|].
  unfold glue_nodes in *. simpl. destruct (label rc p) as [pn|]; [|apply IH].
  destruct (has_node T h); rewrite IH; [|reflexivity].
  unfold upd_node; simpl. rewrite map_map. apply map_ext. intros [k v]; simpl. destruct (N.eqb k h); reflexivity.
Qed.

Section Glue2.
  Variables (host : hostg) (rc : its) (m : mapping) (T : its).
  Hypothesis Hwh : wf_hostb host = true.
  Hypothesis Hwr : wf_rcb rc = true.
  Hypothesis Hm : match_rcb host rc m = true.
  Hypothesis Hg : glue host rc m = Some T.

  Let MO : match_ok host rc m := match_rcb_sound host rc m (wf_rc_nodup rc Hwr) Hm.
  Let DI : distinct_images m (gedges rc) := distinct_images_of m (gedges rc) (mo_vals _ _ _ MO) (wf_rc_simple rc Hwr).

  Lemma wf_host_simple : simpleP (pairs (gedges host)).
  Proof.
    apply simpleP_of_b. unfold wf_hostb in Hwh. apply andb_prop in Hwh. destruct Hwh as [H _].
    apply andb_prop in H. destruct H as [_ H]. exact H.
  Qed.

  Lemma glued_simple : simpleP (pairs (gedges T)).
  Proof.
    unfold glue in Hg. apply (fold_glue_simple m (gedges rc) _ T (mo_vals _ _ _ MO)) in Hg; [exact Hg| |].
    - intros u v x I. exact (simple_edges_ne (gedges rc) u v x (wf_rc_simple rc Hwr) I).
    - rewrite glue_nodes_edges. unfold pairs, its_of_host; simpl. rewrite map_map.
      erewrite map_ext; [exact wf_host_simple|]. intros [[u v] o]; reflexivity.
  Qed.

  Lemma glued_nodup : NoDup (node_ids T).
  Proof. rewrite (proj1 (left_is_host host rc m T Hwh Hwr Hm Hg)). exact (wf_host_nodup host Hwh). Qed.

  (** ** (a) on the decomposition: the reactant molecule graph of the glued ITS IS the substrate *)
  Theorem left_is_host_dec :
    gnodes (fst (its_decompose T)) = gnodes (mol_of_host host) /\
    (forall a b, adj (fst (its_decompose T)) a b = adj host a b).
  Proof.
    split.
    - unfold its_decompose; simpl. rewrite (glue_gnodes host rc m T Hg).
      change (map (fun p : N * inode => (fst p, dec_node (iG (snd p)))) ?l)
        with (map (fun p : N * inode => (fst p, dec_node (iG (snd p)))) l).
      transitivity (map (fun q : N * nattr => (fst q, dec_node (snd q)))
                        (map (fun p : N * inode => (fst p, iG (snd p))) (gnodes (glue_nodes (its_of_host host) rc m)))).
      + rewrite map_map. reflexivity.
      + rewrite glue_nodes_iG_list. unfold its_of_host; simpl. rewrite !map_map. reflexivity.
    - intros a b. unfold its_decompose; simpl. rewrite (dec_adj iG eG T a b glued_simple).
      exact (proj2 (proj2 (left_is_host host rc m T Hwh Hwr Hm Hg)) a b).
  Qed.

  (** ** (b) accounting on the two sides of the decomposition *)
  Lemma glued_elements k a : In (k, a) (gnodes T) -> a_el (iH a) = a_el (iG a).
  Proof.
    intros I. apply (proj2 (proj2 (conserve host rc m T Hwh Hwr Hm Hg)) k a).
    apply assoc_nodup_in; [exact glued_nodup|exact I].
  Qed.

  Theorem conserve_counts :
    (forall e, count_el e (fst (its_decompose T)) = count_el e (snd (its_decompose T))) /\
    total_hc (snd (its_decompose T)) - total_hc (fst (its_decompose T)) = sumZ dH rc /\
    total_charge (snd (its_decompose T)) - total_charge (fst (its_decompose T)) = sumZ dQ rc.
  Proof.
    unfold its_decompose; simpl. split; [|split].
    - intros e. rewrite !count_el_dec. unfold sumZ. apply sumL_ext_in. intros k a I. rewrite (glued_elements k a I). reflexivity.
    - rewrite !total_hc_dec. unfold sumZ. rewrite <- sumL_sub. exact (proj1 (conserve host rc m T Hwh Hwr Hm Hg)).
    - rewrite !total_charge_dec. unfold sumZ. rewrite <- sumL_sub. exact (proj1 (proj2 (conserve host rc m T Hwh Hwr Hm Hg))).
  Qed.

  Theorem conserve_balanced : balancedb rc = true ->
    (forall e, elem_count e (fst (its_decompose T)) = elem_count e (snd (its_decompose T))) /\
    total_charge (fst (its_decompose T)) = total_charge (snd (its_decompose T)).
  Proof.
    intros Hb. unfold balancedb in Hb. apply andb_prop in Hb. destruct Hb as [H1 H2].
    apply Z.eqb_eq in H1. apply Z.eqb_eq in H2.
    destruct conserve_counts as (C1 & C2 & C3). split.
    - intros e. unfold elem_count. rewrite (C1 e). destruct (N.eqb e EL_H); lia.
    - lia.
  Qed.

  (** ** (c) atoms: matched atoms change exactly as their template atoms; all other atoms do not change *)
  Theorem glued_atoms :
    (forall p pn h, In (p, pn) (gnodes rc) -> mget m p = Some h ->
       exists a, label T h = Some a /\ a_el (iG a) = a_el (iG pn) /\ a_el (iH a) = a_el (iG pn) /\ dH a = dH pn /\
                 a_ch (iG a) = a_ch (iG pn) /\ a_ch (iH a) = a_ch (iH pn)) /\
    (forall h a, ~ In h (map snd m) -> label T h = Some a -> iH a = iG a).
  Proof.
    split.
    - intros p pn h I E. destruct (glued_node host rc m T Hwr Hm Hg p h pn E I) as (hn & Hh & Hl).
      destruct (mo_nodes _ _ _ MO p pn I) as (h' & hn' & E' & Hh' & He & Hc & _).
      rewrite E in E'. inversion E'; subst h'. rewrite Hh in Hh'. inversion Hh'; subst hn'.
      eexists. split; [exact Hl|]. unfold dH; simpl. repeat split; auto; lia.
    - intros h a NI Hl. rewrite (unglued_node host rc m T Hg h NI) in Hl.
      destruct (label host h); inversion Hl; subst. reflexivity.
  Qed.

  (** ** (c) bonds, bundled: the match is injective, every template edge has an image bond with the template's order
      change, every changed bond of the result is such an image, every other pair of atoms is bonded as in the host *)
  Theorem changes_exact :
    NoDup (map snd m) /\
    (forall u v x, In (u, v, x) (gedges rc) ->
       exists hu hv y, mget m u = Some hu /\ mget m v = Some hv /\ adj T hu hv = Some y /\ eH y - eG y = eH x - eG x) /\
    (forall a b y, adj T a b = Some y -> eG y <> eH y ->
       exists u v x hu hv, In (u, v, x) (gedges rc) /\ mget m u = Some hu /\ mget m v = Some hv /\ peq hu hv a b = true /\
                           eH y - eG y = eH x - eG x) /\
    (forall a b, (forall u v x hu hv, In (u, v, x) (gedges rc) -> mget m u = Some hu -> mget m v = Some hv -> peq hu hv a b = false) ->
       adj T a b = option_map lift (adj host a b)).
  Proof.
    split; [exact (mo_vals _ _ _ MO)|]. split; [exact (changes_image host rc m T Hwr Hm Hg)|]. split.
    - intros a b y Ha Hne. destruct (changes_only host rc m T Hwr Hm Hg a b y Ha Hne) as (u & v & x & I & Hh & Hd).
      unfold hits, img in Hh. destruct (mget m u) as [hu|] eqn:E1; [|discriminate]. destruct (mget m v) as [hv|] eqn:E2; [|discriminate].
      exists u, v, x, hu, hv. repeat split; auto.
    - intros a b Hall. apply (unchanged_elsewhere host rc m T Hwr Hm Hg).
      destruct (find_hit m (gedges rc) a b) as [x|] eqn:Ef; [|reflexivity]. exfalso.
      apply find_hit_in in Ef. destruct Ef as ([[u v] x'] & I & Hh & _). unfold hits, img in Hh.
      destruct (mget m u) as [hu|] eqn:E1; [|discriminate]. destruct (mget m v) as [hv|] eqn:E2; [|discriminate].
      rewrite (Hall u v x' hu hv I E1 E2) in Hh. discriminate.
  Qed.
End Glue2.

(** * When is no ITS produced?  Exactly when some bond-forming template edge lands on a host bond and the sum of the
      two orders is not an integral bond order (odd in half-units) — fb58253 *)
Lemma fold_glue_none_witness m es : forall T, distinct_images m es ->
  fold_left (glue_edge m) es (Some T) = None ->
  exists u v x hu hv y, In (u, v, x) es /\ mget m u = Some hu /\ mget m v = Some hv /\ adj T hu hv = Some y /\
                        eG x = 0 /\ Z.odd (eH y + eH x) = true.
Proof.
  induction es as [|e r IH]; cbn [fold_left distinct_images]; intros T Hd H; [discriminate|].
  destruct Hd as [Hd1 Hd2].
  destruct (glue_edge m (Some T) e) as [T1|] eqn:E.
  - destruct (IH T1 Hd2 H) as (u & v & x & hu & hv & y & I & E1 & E2 & Ea & E0 & Eo).
    exists u, v, x, hu, hv, y. split; [right; exact I|]. repeat split; auto.
    pose proof (glue_edge_step m T e T1 hu hv E) as Hs.
    destruct (hits m e hu hv) eqn:Eh.
    + pose proof (Hd1 hu hv Eh) as Hn. pose proof (find_hit_none_in m r hu hv (u, v, x) Hn I) as Hh.
      unfold hits, img in Hh. rewrite E1, E2, peq_refl in Hh. discriminate.
    + rewrite <- Hs. exact Ea.
  - clear IH H. destruct e as [[u v] x]. simpl in E.
    destruct (mget m u) as [hu|] eqn:E1; [|discriminate]. destruct (mget m v) as [hv|] eqn:E2; [|discriminate].
    destruct (adj T hu hv) as [y|] eqn:Ea; [|discriminate].
    destruct (Z.eqb_spec (eG x) 0) as [E0|]; [|discriminate].
    destruct (Z.odd (eH y + eH x)) eqn:Eo; [|discriminate].
    exists u, v, x, hu, hv, y. split; [left; reflexivity|]. repeat split; auto.
Qed.

Theorem glue_none_iff host rc m :
  wf_rcb rc = true -> match_rcb host rc m = true ->
  (glue host rc m = None <->
   exists u v x hu hv o, In (u, v, x) (gedges rc) /\ eG x = 0 /\ mget m u = Some hu /\ mget m v = Some hv /\
                         adj host hu hv = Some o /\ Z.odd (o + eH x) = true).
Proof.
  intros Hwr Hm.
  pose proof (match_rcb_sound host rc m (wf_rc_nodup rc Hwr) Hm) as MO.
  pose proof (distinct_images_of m (gedges rc) (mo_vals _ _ _ MO) (wf_rc_simple rc Hwr)) as DI.
  split.
  - intros H. unfold glue in H. destruct (fold_glue_none_witness m (gedges rc) _ DI H)
      as (u & v & x & hu & hv & y & I & E1 & E2 & Ea & E0 & Eo).
    unfold adj in Ea. rewrite glue_nodes_edges in Ea. fold (adj (its_of_host host) hu hv) in Ea.
    rewrite adj_its_of_host in Ea. destruct (adj host hu hv) as [o|] eqn:Eh; [|discriminate].
    inversion Ea; subst y. exists u, v, x, hu, hv, o. repeat split; auto.
  - intros (u & v & x & hu & hv & o & I & E0 & E1 & E2 & Eh & Eo).
    destruct (glue host rc m) as [T|] eqn:Eg; [|reflexivity]. exfalso.
    destruct (additive host rc m T Hwr Hm Eg u v x hu hv o I E0 E1 E2 Eh) as [_ Hf]. rewrite Hf in Eo. discriminate.
Qed.

(** the last clause of [changes_exact] on its own *)
Lemma unchanged_elsewhere_explicit host rc m T :
  wf_rcb rc = true -> match_rcb host rc m = true -> glue host rc m = Some T ->
  forall a b, (forall u v x hu hv, In (u, v, x) (gedges rc) -> mget m u = Some hu -> mget m v = Some hv -> peq hu hv a b = false) ->
  adj T a b = option_map lift (adj host a b).
Proof. intros Hwr Hm Hg. exact (proj2 (proj2 (proj2 (changes_exact host rc m T Hwr Hm Hg)))). Qed.
