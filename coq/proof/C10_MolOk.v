(** C10 — proofs, part 18: the graphs rsmi_to_graph builds (MolToGraph.transform with drop_non_aam=True,
    use_index_as_atom_map=True) from an RDKit molecule whose mapped atoms carry distinct map numbers are molecule graphs in
    the sense of [mol_ok] — the premise of C10_smart_roundtrip follows from a contract about RDKit molecules. *)
From Coq Require Import String List NArith ZArith Bool Lia.
From SK Require Import lib.Tok lib.LGraph lib.StrJoin model.C10_Model proof.C10_Views proof.C10_Build proof.C10_Copy
  proof.C10_MolGraph.
Import ListNotations.
Local Open Scope Z_scope.

(** the mapped atoms in index order as (atom index, node id) *)
Fixpoint i2T (idx : N) (l : list ratom) : list (N * N) :=
  match l with [] => [] | a :: r => (if r_map a =? 0 then [] else [(idx, Z.to_N (r_map a))]) ++ i2T (N.succ idx) r end.

Lemma i2T_ge idx l bi x : assoc bi (i2T idx l) = Some x -> (idx <= bi)%N.
Proof.
  revert idx. induction l as [|a r IH]; intros idx; simpl; [discriminate|]. rewrite assoc_app.
  destruct (r_map a =? 0); simpl.
  - intros H. apply IH in H. lia.
  - destruct (N.eqb_spec bi idx); [intros _; lia|]. intros H. apply IH in H. lia.
Qed.

Lemma m2g_nodes_tt atoms : forall idx (g : gr) i2,
  NoDup (map fst (gnodes g) ++ map fst (numT atoms)) -> gwf g ->
  let st := m2g_nodes true true idx atoms (g, i2) in
  gnodes (fst st) = gnodes g ++ numT atoms /\ gedges (fst st) = gedges g /\ gwf (fst st) /\
  (forall bi, assoc bi (snd st) = match assoc bi (i2T idx atoms) with Some x => Some x | None => assoc bi i2 end).
Proof.
  induction atoms as [|a r IH]; intros idx g i2 Hnd W; cbn [m2g_nodes numT i2T].
  - cbv zeta. simpl. rewrite app_nil_r. auto.
  - unfold atom_id. simpl andb. cbn [numT] in Hnd. destruct (r_map a =? 0) eqn:E; simpl negb; cbv iota; rewrite ?E in Hnd.
    + simpl app in *. apply (IH (N.succ idx) g i2 Hnd W).
    + cbn [fst snd]. simpl app in Hnd.
      assert (has_node g (Z.to_N (r_map a)) = false) as Hf.
      { apply not_true_is_false. intros H. apply has_node_in in H. unfold node_ids in H.
        apply NoDup_remove_2 in Hnd. apply Hnd. apply in_app_iff. left. exact H. }
      rewrite (add_node_fresh g _ _ Hf).
      specialize (IH (N.succ idx) (LG (gnodes g ++ [(Z.to_N (r_map a), atom_att a)]) (gedges g)) ((idx, Z.to_N (r_map a)) :: i2)).
      destruct IH as (E1 & E2 & W' & E3).
      * simpl gnodes. rewrite map_app. simpl. rewrite <- app_assoc. simpl. exact Hnd.
      * rewrite <- (add_node_fresh g _ _ Hf). apply gwf_add_node. exact W.
      * cbv zeta in *. rewrite E1. simpl gnodes. rewrite <- app_assoc. split; [reflexivity|split; [exact E2|split; [exact W'|]]].
        intros bi. rewrite E3. simpl. destruct (N.eqb_spec bi idx) as [->|Hne]; [|reflexivity].
        destruct (assoc idx (i2T (N.succ idx) r)) as [x|] eqn:A; [|reflexivity]. apply i2T_ge in A. lia.
Qed.

(** invariants of the bond loop *)
Definition nodes_good (g : gr) : Prop := forall n a, In (n, a) (gnodes g) -> mol_node_ok a = true.
Definition edges_good (g : gr) : Prop :=
  forall u v x, In (u, v, x) (gedges g) -> u <> v /\ exists o, x = EA (Some (OS o)) None /\ okord o = true.

Definition egood (e : N * N * eatt) : Prop :=
  fst (fst e) <> snd (fst e) /\ exists o, snd e = EA (Some (OS o)) None /\ okord o = true.
Lemma upd_edge_egood u v o es : okord o = true -> (forall e, In e es -> egood e) ->
  forall e, In e (upd_edge u v (ea_update (EA (Some (OS o)) None)) es) -> egood e.
Proof.
  intros Ho. induction es as [|[[a0 b0] x0] r IH]; intros H e Hin; [destruct Hin|].
  simpl in Hin. destruct (_ || _).
  - destruct Hin as [<-|Hin]; [|apply H; right; exact Hin].
    destruct (H (a0, b0, x0) (or_introl eq_refl)) as [Hab (o0 & E & _)]. simpl in *. subst x0. split; [exact Hab|]. exists o. auto.
  - destruct Hin as [<-|Hin]; [apply H; left; reflexivity|]. apply IH; [intros e' He'; apply H; right; exact He'|exact Hin].
Qed.

Lemma add_edge_good (g : gr) u v o : gwf g -> nodes_good g -> edges_good g ->
  has_node g u = true -> has_node g v = true -> u <> v -> okord o = true ->
  let g' := add_edge g u v (EA (Some (OS o)) None) in gwf g' /\ nodes_good g' /\ edges_good g' /\ gnodes g' = gnodes g.
Proof.
  intros W NG EG Hu Hv Huv Ho g'. pose proof (gnodes_add_edge_exist g u v (EA (Some (OS o)) None) Hu Hv) as En.
  split; [apply gwf_add_edge; exact W|]. split; [intros n a; unfold g'; rewrite En; apply NG|]. split; [|exact En].
  unfold g'. rewrite add_edge_unfold. cbv zeta.
  assert (gedges (ends_exist g u v) = gedges g) as Ee by apply gedges_ends_exist.
  unfold edges_good. destruct (has_edge (ends_exist g u v) u v); intros a b x Hin; simpl in Hin; rewrite Ee in Hin.
  - apply (upd_edge_egood u v o (gedges g) Ho (fun e => match e with (a', b', x') => EG a' b' x' end) (a, b, x) Hin).
  - apply in_app_iff in Hin. destruct Hin as [Hin|[E|[]]]; [apply EG; exact Hin|]. inversion E; subst. split; [exact Huv|]. exists o. auto.
Qed.

Section MolOk.
Variable m : rmol.
Let atoms := fst m.
Let bonds := snd m.
Hypothesis Hwf : wf_mol m = true.
Hypothesis Hsym : forall a, In a atoms -> elem_ok (r_sym a) = true.
Hypothesis Hord : forall b e o, In (b, e, o) bonds -> okord o = true.
Hypothesis Hmaps : NoDup (map fst (numT atoms)).

Let st := m2g_nodes true true 0%N atoms (g_empty, []).
Let g0 := fst st.

Lemma st_tt : gnodes g0 = numT atoms /\ gedges g0 = [] /\ gwf g0 /\ forall bi, assoc bi (snd st) = assoc bi (i2T 0 atoms).
Proof.
  destruct (m2g_nodes_tt atoms 0%N g_empty []) as (E1 & E2 & W & E3); [exact Hmaps|apply gwf_empty|].
  fold st in E1, E2, W, E3. fold g0 in E1, E2, W. split; [exact E1|split; [exact E2|split; [exact W|]]].
  intros bi. rewrite E3. destruct (assoc bi (i2T 0 atoms)); reflexivity.
Qed.

Lemma numT_good l : (forall a, In a l -> elem_ok (r_sym a) = true) -> forall n a, In (n, a) (numT l) -> mol_node_ok a = true.
Proof.
  induction l as [|x r IH]; intros H n a Hin; [destruct Hin|]. simpl in Hin. apply in_app_iff in Hin. destruct Hin as [Hin|Hin].
  - destruct (r_map x =? 0); [destruct Hin|]. destruct Hin as [E|[]]. inversion E; subst. unfold mol_node_ok, atom_att. simpl.
    apply H. left. reflexivity.
  - apply (IH (fun y Hy => H y (or_intror Hy)) n a Hin).
Qed.

(** index -> id is injective on the mapped atoms, and every id it returns is a node *)
Lemma i2T_in idx l bi x : assoc bi (i2T idx l) = Some x -> In x (map fst (numT l)).
Proof.
  revert idx. induction l as [|a r IH]; intros idx; simpl; [discriminate|]. rewrite assoc_app, map_app, in_app_iff.
  destruct (r_map a =? 0); simpl; [intros H; right; apply (IH _ H)|].
  destruct (N.eqb bi idx); [intros [= <-]; left; left; reflexivity|intros H; right; apply (IH _ H)].
Qed.
Lemma i2T_inj l : forall idx b e x, NoDup (map fst (numT l)) -> assoc b (i2T idx l) = Some x -> assoc e (i2T idx l) = Some x -> b = e.
Proof.
  induction l as [|a r IH]; intros idx b e x Hnd; simpl; [discriminate|]. rewrite !assoc_app. simpl in Hnd. rewrite map_app in Hnd.
  destruct (r_map a =? 0); simpl in *; [apply IH; exact Hnd|]. inversion Hnd as [|? ? Hnot Hnd']; subst.
  destruct (N.eqb_spec b idx) as [->|Hb]; destruct (N.eqb_spec e idx) as [->|He]; try reflexivity.
  - intros [= <-] H. exfalso. apply Hnot. apply (i2T_in _ _ _ _ H).
  - intros H [= <-]. exfalso. apply Hnot. apply (i2T_in _ _ _ _ H).
  - apply IH. exact Hnd'.
Qed.

Lemma bonds_fold l : forall g : gr, (forall b e o, In (b, e, o) l -> b <> e /\ okord o = true) ->
  gwf g -> nodes_good g -> edges_good g -> gnodes g = gnodes g0 ->
  let g' := fold_left (m2g_bond (snd st)) l g in gwf g' /\ nodes_good g' /\ edges_good g' /\ gnodes g' = gnodes g0.
Proof.
  induction l as [|[[b e] o] r IH]; intros g Hl W NG EG En; [simpl; auto|]. cbn [fold_left].
  destruct (Hl b e o (or_introl eq_refl)) as [Hbe Ho].
  assert (forall b' e' o', In (b', e', o') r -> b' <> e' /\ okord o' = true) as Hl' by (intros; apply Hl; right; assumption).
  destruct st_tt as (E1 & _ & _ & HA).
  assert (m2g_bond (snd st) g (b, e, o) =
          match assoc b (i2T 0 atoms), assoc e (i2T 0 atoms) with
          | Some u, Some v => add_edge g u v (EA (Some (OS o)) None) | _, _ => g end) as Es
    by (unfold m2g_bond; rewrite !HA; reflexivity).
  rewrite Es. clear Es.
  destruct (assoc b (i2T 0 atoms)) as [u|] eqn:Ab; [|apply IH; assumption].
  destruct (assoc e (i2T 0 atoms)) as [v|] eqn:Ae; [|apply IH; assumption].
  assert (has_node g u = true /\ has_node g v = true) as [Hu Hv].
  { split; apply has_node_in; unfold node_ids; rewrite En, E1; eapply i2T_in; eassumption. }
  assert (u <> v) as Huv by (intros ->; apply Hbe; apply (i2T_inj atoms 0%N b e v Hmaps Ab Ae)).
  destruct (add_edge_good g u v o W NG EG Hu Hv Huv Ho) as (W' & NG' & EG' & En'). cbv zeta in *.
  apply IH; try assumption. congruence.
Qed.

Lemma NoDup_nodupb l : NoDup l -> nodupb l = true.
Proof.
  induction 1 as [|x r Hx Hr IH]; [reflexivity|]. simpl. rewrite IH, andb_true_r. apply negb_true_iff, not_true_is_false.
  intros H. apply mem_spec in H. contradiction.
Qed.

Theorem mol_to_graph_mol_ok : mol_ok (mol_to_graph m true true) = true.
Proof.
  destruct st_tt as (E1 & E2 & W0 & _).
  assert (nodes_good g0) as NG0 by (intros n a Hin; rewrite E1 in Hin; apply (numT_good atoms Hsym n a Hin)).
  assert (edges_good g0) as EG0 by (intros u v x Hin; rewrite E2 in Hin; destruct Hin).
  assert (forall b e o, In (b, e, o) bonds -> b <> e /\ okord o = true) as Hl.
  { intros b e o Hin. split; [|apply (Hord b e o Hin)]. destruct (wf_bonds_spec _ _ Hwf) as [_ HB]. apply (HB b e o Hin). }
  destruct (bonds_fold bonds g0 Hl W0 NG0 EG0 eq_refl) as (W & NG & EG & En). cbv zeta in *.
  set (G := fold_left (m2g_bond (snd st)) bonds g0) in *.
  change (mol_ok G = true).
  unfold mol_ok. rewrite !andb_true_iff. repeat split.
  - apply NoDup_nodupb, (gwf_nd G W).
  - apply (gwf_uq G W).
  - apply forallb_forall. intros [n a] Hin. apply (NG n a Hin).
  - apply forallb_forall. intros [[u v] x] Hin. destruct (EG u v x Hin) as [Huv (o & -> & Ho)].
    destruct (gwf_cl G W u v _ Hin) as [Hu Hv]. unfold mol_edge_ok. rewrite Hu, Hv. simpl.
    destruct (N.eqb_spec u v); [contradiction|]. simpl. exact Ho.
Qed.
Theorem mol_to_graph_std_free : std_free (mol_to_graph m true true) = true.
Proof.
  destruct st_tt as (E1 & E2 & W0 & _).
  assert (nodes_good g0) as NG0 by (intros n a Hin; rewrite E1 in Hin; apply (numT_good atoms Hsym n a Hin)).
  assert (edges_good g0) as EG0 by (intros u v x Hin; rewrite E2 in Hin; destruct Hin).
  assert (forall b e o, In (b, e, o) bonds -> b <> e /\ okord o = true) as Hl.
  { intros b e o Hin. split; [|apply (Hord b e o Hin)]. destruct (wf_bonds_spec _ _ Hwf) as [_ HB]. apply (HB b e o Hin). }
  destruct (bonds_fold bonds g0 Hl W0 NG0 EG0 eq_refl) as (W & NG & EG & En). cbv zeta in *.
  set (G := fold_left (m2g_bond (snd st)) bonds g0) in *.
  change (std_free G = true). unfold std_free. apply forallb_forall. intros [[u v] x] Hin.
  destruct (EG u v x Hin) as [_ (o & -> & _)]. reflexivity.
Qed.
End MolOk.

Theorem rsmi_graph_std_free (m : rmol) : rdmol_ok m = true -> std_free (mol_to_graph m true true) = true.
Proof.
  unfold rdmol_ok. rewrite !andb_true_iff. intros [[[H1 H2] H3] H4]. apply mol_to_graph_std_free.
  - exact H1.
  - intros a Ha. rewrite forallb_forall in H2. apply (H2 a Ha).
  - intros b e o Hin. rewrite forallb_forall in H3. apply (H3 (b, e, o) Hin).
  - apply nodupb_NoDup. exact H4.
Qed.

Theorem rsmi_graph_mol_ok (m : rmol) : rdmol_ok m = true -> mol_ok (mol_to_graph m true true) = true.
Proof.
  unfold rdmol_ok. rewrite !andb_true_iff. intros [[[H1 H2] H3] H4]. apply mol_to_graph_mol_ok.
  - exact H1.
  - intros a Ha. rewrite forallb_forall in H2. apply (H2 a Ha).
  - intros b e o Hin. rewrite forallb_forall in H3. apply (H3 (b, e, o) Hin).
  - apply nodupb_NoDup. exact H4.
Qed.

Local Open Scope string_scope.
Example rsmi_graph_mol_ok_ex :
  let m : rmol := ([RAt (s2l "C") false 3 0 11; RAt (s2l "Cl") false 0 0 0; RAt (s2l "O") false 0 (-1) 12], [(0%N, 1%N, 2); (0%N, 2%N, 2)]) in
  rdmol_ok m = true /\ node_ids (mol_to_graph m true true) = [11; 12]%N /\ mol_ok (mol_to_graph m true true) = true.
Proof. vm_compute. repeat split. Qed.
