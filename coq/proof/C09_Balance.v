(** C09 — balance check at graph level: [balancedb] answers true exactly when every element count (implicit
    hydrogens counted as H atoms) and the total charge agree on both sides. *)
From Coq Require Import List NArith ZArith Bool Lia Permutation.
From SK Require Import lib.LGraph model.C01_Model model.C09_Model.
Import ListNotations.
Local Open Scope Z_scope.

Lemma el_count_absent (e : N) (g : mgraph) : ~ In e (elements_of g) -> el_count e g = 0.
Proof.
  unfold elements_of, el_count. intros Hn.
  assert (He : N.eqb e EL_H = false) by (apply N.eqb_neq; intros ->; apply Hn; left; reflexivity).
  assert (Hn' : ~ In e (map (fun p : N * gnode => g_el (snd p)) (gnodes g))) by (intros I; apply Hn; right; exact I).
  clear Hn. induction (gnodes g) as [|p l IH]; simpl; [reflexivity|].
  rewrite IH by (intros I; apply Hn'; right; exact I). rewrite He.
  destruct (N.eqb (g_el (snd p)) e) eqn:E; [|reflexivity].
  apply N.eqb_eq in E. exfalso. apply Hn'. left. exact E.
Qed.

Theorem balance_iff (G H : mgraph) :
  balancedb G H = true <-> (forall e, el_count e G = el_count e H) /\ total_charge G = total_charge H.
Proof.
  unfold balancedb. rewrite andb_true_iff, forallb_forall, Z.eqb_eq. split.
  - intros [Hall Hq]. split; [|exact Hq]. intros e.
    destruct (in_dec N.eq_dec e (elements_of G ++ elements_of H)) as [I|I].
    + apply Z.eqb_eq. apply Hall. exact I.
    + rewrite !el_count_absent; [reflexivity| |]; intros J; apply I; apply in_or_app; auto.
  - intros [Hall Hq]. split; [|exact Hq]. intros e _. apply Z.eqb_eq. apply Hall.
Qed.

(** the count is what it says: atoms of the element plus, for hydrogen, the hydrogen counts *)
Lemma el_count_cons (e : N) (n : N) (a : gnode) ns es :
  el_count e (LG ((n, a) :: ns) es) =
  el_count e (LG ns es) + (if N.eqb (g_el a) e then 1 else 0) + (if N.eqb e EL_H then g_hc a else 0).
Proof. reflexivity. Qed.
Lemma total_charge_cons (n : N) (a : gnode) ns es :
  total_charge (LG ((n, a) :: ns) es) = total_charge (LG ns es) + g_ch a.
Proof. reflexivity. Qed.

(** non-vacuity: methanol + HBr-like toy sides.  CH3-OH (H counted through hcount) vs CH2=O + H-H (explicit) *)
Definition ex_bal_G : mgraph :=
  LG [(1%N, GN 70%N false 3 0 None 1); (2%N, GN 82%N false 1 0 None 2)] [(1%N, 2%N, 2)].
Definition ex_bal_H : mgraph :=
  LG [(1%N, GN 70%N false 2 0 None 1); (2%N, GN 82%N false 0 0 None 2); (3%N, GN EL_H false 0 0 None 3); (4%N, GN EL_H false 0 0 None 4)]
     [(1%N, 2%N, 4); (3%N, 4%N, 2)].
Definition ex_bal_H' : mgraph :=
  LG [(1%N, GN 70%N false 2 0 None 1); (2%N, GN 82%N false 0 (-1) None 2); (3%N, GN EL_H false 0 1 None 3); (4%N, GN EL_H false 0 0 None 4)]
     [(1%N, 2%N, 4)].
Example ex_balanced : balancedb ex_bal_G ex_bal_H = true /\ el_count EL_H ex_bal_G = 4 /\ el_count EL_H ex_bal_H = 4.
Proof. vm_compute. auto. Qed.
Example ex_unbalanced_charge : balancedb ex_bal_G (LG (gnodes ex_bal_H') []) = true /\
  balancedb ex_bal_G (LG [(2%N, GN 82%N false 0 (-1) None 2)] []) = false.
Proof. vm_compute. auto. Qed.

(** dicts_balance_check: nothing is lost or duplicated, and a record lands in the balanced list exactly when its counts
    and charge agree *)
Lemma filter_split_perm {X} (f : X -> bool) (l : list X) : Permutation (filter f l ++ filter (fun x => negb (f x)) l) l.
Proof.
  induction l as [|x l IH]; simpl; [constructor|]. destruct (f x); simpl.
  - apply perm_skip. exact IH.
  - eapply Permutation_trans; [apply Permutation_sym; apply Permutation_middle|]. apply perm_skip. exact IH.
Qed.
Theorem balance_partition_spec {X} (rs : list (X * (mgraph * mgraph))) :
  Permutation (fst (balance_partition rs) ++ snd (balance_partition rs)) (map fst rs) /\
  (forall x, In x (fst (balance_partition rs)) <->
     exists G H, In (x, (G, H)) rs /\ (forall e, el_count e G = el_count e H) /\ total_charge G = total_charge H) /\
  (forall x, In x (snd (balance_partition rs)) <->
     exists G H, In (x, (G, H)) rs /\ ~ ((forall e, el_count e G = el_count e H) /\ total_charge G = total_charge H)).
Proof.
  unfold balance_partition. simpl. split; [|split].
  - rewrite <- map_app. apply Permutation_map. apply filter_split_perm.
  - intros x. rewrite in_map_iff. split.
    + intros ([y [G H]] & <- & I). apply filter_In in I. destruct I as [I B]. exists G, H. split; [exact I|]. apply balance_iff. exact B.
    + intros (G & H & I & B). exists (x, (G, H)). split; [reflexivity|]. apply filter_In. split; [exact I|]. apply balance_iff. exact B.
  - intros x. rewrite in_map_iff. split.
    + intros ([y [G H]] & <- & I). apply filter_In in I. destruct I as [I B]. exists G, H. split; [exact I|].
      intros C. apply balance_iff in C. unfold bal_of in B. simpl in B. rewrite C in B. discriminate.
    + intros (G & H & I & B). exists (x, (G, H)). split; [reflexivity|]. apply filter_In. split; [exact I|].
      unfold bal_of. simpl. destruct (balancedb G H) eqn:E; [|reflexivity]. exfalso. apply B. apply balance_iff. exact E.
Qed.
Example ex_partition :
  balance_partition [(0%nat, (ex_bal_G, ex_bal_H)); (1%nat, (ex_bal_G, LG [(2%N, GN 82%N false 0 (-1) None 2)] [])); (2%nat, (ex_bal_H, ex_bal_G))]
  = ([0%nat; 2%nat], [1%nat]).
Proof. vm_compute. reflexivity. Qed.
