(** C11 (round 3) — what a reused object answers.  Stdlib lists. *)
From Coq Require Import List NArith ZArith Bool.
From SK Require Import lib.LGraph model.C11_Model model.C11_State.
Import ListNotations.

Lemma read_fresh fn fe g : fst (a_read fn fe (a_new g)) = analyze fn fe g.
Proof. reflexivity. Qed.

Lemma read_twice fn fe o : let '(a, o') := a_read fn fe o in a_read fn fe o' = (a, o').
Proof. unfold a_read. destruct o as [g [a|]]; reflexivity. Qed.

(** once read, the object keeps its answer whatever happens to the graph afterwards *)
Lemma read_after_edit fn fe o g' : let '(a, o') := a_read fn fe o in fst (a_read fn fe (a_edit g' o')) = a.
Proof. unfold a_read, a_edit. destruct o as [g [a|]]; reflexivity. Qed.

(** an object that has not been read yet answers for the value the graph has at the first read *)
Lemma unread_after_edit fn fe g g' : fst (a_read fn fe (a_edit g' (a_new g))) = analyze fn fe g'.
Proof. reflexivity. Qed.

Lemma reads_cached fn fe a : forall gs o, o_cache o = Some a -> reads fn fe o gs = map (fun _ => a) gs.
Proof.
  induction gs as [|g r IH]; intros o H; simpl; [reflexivity|].
  unfold a_read, a_edit. simpl. rewrite H. f_equal. apply IH. reflexivity.
Qed.

(** a history of in-place edits, read after each: every answer is the analysis of the FIRST value read *)
Lemma reads_stale fn fe g0 gs : reads fn fe (a_new g0) gs = map (fun _ => analyze fn fe (hd g0 gs)) gs.
Proof.
  destruct gs as [|g r]; [reflexivity|]. simpl. f_equal. apply reads_cached. reflexivity.
Qed.

(** fitting again always answers for the current value *)
Lemma refits_fresh fn fe k : forall gs o, refits fn fe k o gs = map (fun g => Some (wl fn fe g k)) gs.
Proof. induction gs as [|g r IH]; intros o; simpl; [reflexivity|]. f_equal. apply IH. Qed.

Lemma unfitted_raises g : e_colors (e_new g) = None.
Proof. reflexivity. Qed.

Lemma objects_all (fn : nlab -> N) (fe : elab -> N) (k : nat) (g0 : graph) (gs : list graph) :
  reads fn fe (a_new g0) gs = map (fun _ => analyze fn fe (hd g0 gs)) gs /\
  (forall g g', fst (a_read fn fe (a_edit g' (a_new g))) = analyze fn fe g') /\
  (forall o, let '(a, o') := a_read fn fe o in a_read fn fe o' = (a, o')) /\
  refits fn fe k (e_new g0) gs = map (fun g => Some (wl fn fe g k)) gs /\
  e_colors (e_new g0) = None.
Proof.
  split; [apply reads_stale|]. split; [intros; apply unread_after_edit|]. split; [apply read_twice|].
  split; [apply refits_fresh | reflexivity].
Qed.

Example ex_objects :
  let g1 := LG [(1, (0, 0, 0)); (2, (0, 0, 0)); (3, (0, 0, 0))]%N [(1, 2, (0, 0)); (2, 3, (0, 0))]%N in
  let g2 := LG [(1, (1, 1, 1)); (2, (0, 0, 0)); (3, (0, 0, 0))]%N [(1, 2, (0, 0)); (2, 3, (0, 0))]%N in
  map a_count (reads n_exact e_order (a_new g1) [g1; g2]) = [2; 2]%N /\
  a_count (analyze n_exact e_order g2) = 1%N /\
  map (option_map (map snd)) (refits n_exact e_order 10 (e_new g1) [g1; g2]) = [Some [0; 1; 0]; Some [0; 1; 2]]%N.
Proof. repeat split; vm_compute; reflexivity. Qed.
