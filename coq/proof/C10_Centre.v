(** C10 — proofs, part 10: get_rc seen through [label] / [adj]; the centre of a centre is the centre. *)
From Coq Require Import String List NArith ZArith Bool Lia.
From SK Require Import lib.Tok lib.LGraph lib.StrJoin model.C10_Model proof.C10_Views proof.C10_Build proof.C10_Copy.
Import ListNotations.
Local Open Scope Z_scope.

Definition rca (I : gr) (n : N) : natt := match label I n with Some a => rc_attr a | None => na_empty end.
Definition ENS (I rc : gr) (n : N) : gr := if has_node rc n then rc else add_node rc n (rca I n).
Definition selc (I : gr) (k : bool) (u v : N) (x : eatt) : bool := if k then is_H I u && is_H I v else changed x.
Definition stepk (I : gr) (k : bool) (rc : gr) (e : N * N * eatt) : gr :=
  let '(u, v, x) := e in
  if selc I k u v x then
    let rc1 := ENS I (ENS I rc u) v in
    if k then (if has_edge rc1 u v then rc1 else add_edge rc1 u v x) else add_edge rc1 u v x
  else rc.

Lemma ensure_node_ENS I rc n a : label I n = Some a -> ensure_node I rc n = ENS I rc n.
Proof.
  intros L. unfold ensure_node, ENS, rca. rewrite L. destruct (has_node rc n) eqn:E; [reflexivity|].
  rewrite add_node_fresh by exact E. reflexivity.
Qed.
Lemma ensure_node_hh_ENS I rc n a : label I n = Some a -> a_tgh a <> None -> ensure_node_hh I rc n = ENS I rc n.
Proof.
  intros L T. unfold ensure_node_hh, ENS, rca. rewrite L. destruct (has_node rc n) eqn:E; [reflexivity|].
  rewrite add_node_fresh by exact E. destruct a as [el ar hc ch am [t|]]; [reflexivity|simpl in T; congruence].
Qed.

Lemma label_ENS I rc n m : label (ENS I rc n) m = if N.eqb m n then Some (dflt (label rc n) (rca I n)) else label rc m.
Proof.
  unfold ENS, has_node. destruct (label rc n) as [b|] eqn:E.
  - destruct (N.eqb_spec m n) as [->|]; [rewrite E|]; reflexivity.
  - rewrite label_add_node, E. reflexivity.
Qed.
Lemma gedges_ENS I rc n : gedges (ENS I rc n) = gedges rc.
Proof. unfold ENS. destruct (has_node rc n); [reflexivity|apply gedges_add_node]. Qed.
Lemma gwf_ENS I rc n : gwf rc -> gwf (ENS I rc n).
Proof. unfold ENS. destruct (has_node rc n); [auto|apply gwf_add_node]. Qed.
Lemma label_ENS2 I rc u v m :
  label (ENS I (ENS I rc u) v) m = if N.eqb m u || N.eqb m v then Some (dflt (label rc m) (rca I m)) else label rc m.
Proof.
  rewrite !label_ENS. neq; repeat match goal with |- context [label rc ?z] => destruct (label rc z) end; reflexivity.
Qed.
Lemma has_node_ENS2 I rc u v : has_node (ENS I (ENS I rc u) v) u = true /\ has_node (ENS I (ENS I rc u) v) v = true.
Proof. unfold has_node. rewrite !label_ENS2, !N.eqb_refl, orb_true_r. simpl. auto. Qed.

Lemma label_stepk I k rc u v x m :
  label (stepk I k rc (u, v, x)) m =
  if selc I k u v x && (N.eqb m u || N.eqb m v) then Some (dflt (label rc m) (rca I m)) else label rc m.
Proof.
  unfold stepk. destruct (selc I k u v x); [|reflexivity]. simpl.
  destruct (has_node_ENS2 I rc u v) as [Hu Hv].
  assert (forall y, label (add_edge (ENS I (ENS I rc u) v) u v y) m = label (ENS I (ENS I rc u) v) m) as Hadd.
  { intros y. unfold label. rewrite gnodes_add_edge_exist by assumption. reflexivity. }
  destruct k; [destruct (has_edge _ u v)|]; rewrite ?Hadd; apply label_ENS2.
Qed.
Lemma adj_stepk I k rc u v x p q :
  adj (stepk I k rc (u, v, x)) p q =
  if selc I k u v x && pair_eqb u v p q
  then Some (match adj rc u v with Some old => if k then old else ea_update x old | None => x end)
  else adj rc p q.
Proof.
  unfold stepk. destruct (selc I k u v x); [|reflexivity]. simpl.
  assert (forall a b, adj (ENS I (ENS I rc u) v) a b = adj rc a b) as HE by (intros; unfold adj; rewrite !gedges_ENS; reflexivity).
  destruct k.
  - unfold has_edge. rewrite HE. destruct (adj rc u v) as [old|] eqn:A.
    + rewrite HE. destruct (pair_eqb u v p q) eqn:P; [|reflexivity]. rewrite <- (adj_pair rc _ _ _ _ P). exact A.
    + rewrite adj_add_edge, !HE, A. reflexivity.
  - rewrite adj_add_edge, !HE. reflexivity.
Qed.
Lemma gwf_stepk I k rc e : gwf rc -> gwf (stepk I k rc e).
Proof.
  destruct e as [[u v] x]. intros W. unfold stepk. destruct (selc I k u v x); [|exact W].
  pose proof (gwf_ENS I _ v (gwf_ENS I rc u W)) as W2.
  destruct k; [destruct (has_edge _ u v)|]; auto using gwf_add_edge.
Qed.

(** ** the two loops *)
Definition hitk (I : gr) (k : bool) (p q : N) (es : list (N * N * eatt)) : bool :=
  existsb (fun e : N * N * eatt => let '(u, v, x) := e in selc I k u v x && pair_eqb u v p q) es.
Definition touchk (I : gr) (k : bool) (m : N) (es : list (N * N * eatt)) : bool :=
  existsb (fun e : N * N * eatt => let '(u, v, x) := e in selc I k u v x && (N.eqb m u || N.eqb m v)) es.

Lemma fold_stepk_label I k es : forall rc m,
  label (fold_left (stepk I k) es rc) m =
  match label rc m with Some b => Some b | None => if touchk I k m es then Some (rca I m) else None end.
Proof.
  induction es as [|[[u v] x] r IH]; intros rc m; [simpl; destruct (label rc m); reflexivity|].
  cbn [fold_left]. rewrite IH, label_stepk. simpl touchk.
  destruct (label rc m) as [b|]; simpl.
  - destruct (selc I k u v x && _); reflexivity.
  - destruct (selc I k u v x && (N.eqb m u || N.eqb m v)); reflexivity.
Qed.

Lemma fold_stepk_adj I k es : forall rc p q,
  (forall u v x, In (u, v, x) es -> adj I u v = Some x) ->
  (adj rc p q = None \/ adj rc p q = adj I p q) ->
  adj (fold_left (stepk I k) es rc) p q = if hitk I k p q es then adj I p q else adj rc p q.
Proof.
  induction es as [|[[u v] x] r IH]; intros rc p q Hd Hinv; [reflexivity|].
  cbn [fold_left].
  change (hitk I k p q ((u, v, x) :: r)) with ((selc I k u v x && pair_eqb u v p q) || hitk I k p q r).
  assert (adj I u v = Some x) as Ax by (apply Hd; left; reflexivity).
  assert (forall u' v' x', In (u', v', x') r -> adj I u' v' = Some x') as Hd' by (intros; apply Hd; right; assumption).
  destruct (selc I k u v x && pair_eqb u v p q) eqn:C; cbn [orb].
  - apply andb_true_iff in C. destruct C as [C P].
    assert (adj (stepk I k rc (u, v, x)) p q = adj I p q) as E.
    { rewrite adj_stepk, C, P. simpl. rewrite (adj_pair rc _ _ _ _ P), <- (adj_pair I _ _ _ _ P), Ax.
      destruct Hinv as [H|H]; rewrite H; [reflexivity|]. rewrite <- (adj_pair I _ _ _ _ P), Ax.
      destruct k; [reflexivity|rewrite ea_update_idem; reflexivity]. }
    rewrite (IH _ p q Hd' (or_intror E)). destruct (hitk I k p q r); [reflexivity|exact E].
  - assert (adj (stepk I k rc (u, v, x)) p q = adj rc p q) as E by (rewrite adj_stepk, C; reflexivity).
    assert (adj (stepk I k rc (u, v, x)) p q = None \/ adj (stepk I k rc (u, v, x)) p q = adj I p q) as Hinv'
      by (destruct Hinv as [H|H]; [left|right]; congruence).
    rewrite (IH _ p q Hd' Hinv'). destruct (hitk I k p q r); [reflexivity|exact E].
Qed.
Lemma fold_stepk_gwf I k es : forall rc, gwf rc -> gwf (fold_left (stepk I k) es rc).
Proof. induction es as [|e r IH]; intros rc W; [exact W|]. simpl. apply IH, gwf_stepk, W. Qed.

(** ** get_rc *)
Definition is_ok (I : gr) : Prop := gwf I /\ forall n a, label I n = Some a -> a_tgh a <> None.

Lemma get_rc_fold I : is_ok I ->
  get_rc I = fold_left (stepk I true) (edges_iter I) (fold_left (stepk I false) (edges_iter I) g_empty).
Proof.
  intros [W T]. unfold get_rc. cbv zeta.
  assert (forall u v x, In (u, v, x) (edges_iter I) -> exists a b, label I u = Some a /\ label I v = Some b) as Hl.
  { intros u v x Hin. apply in_edges_from in Hin.
    assert (has_node I u = true /\ has_node I v = true) as [Hu Hv] by (destruct Hin as [H|H]; destruct (gwf_cl I W _ _ _ H); auto).
    apply has_node_label in Hu, Hv. destruct Hu as [a Ha]. destruct Hv as [b Hb]. eauto. }
  rewrite (fold_left_ext_in (rc_step1 I) (stepk I false)).
  - apply fold_left_ext_in. intros acc [[u v] x] Hin. destruct (Hl u v x Hin) as (a & b & La & Lb).
    unfold rc_step2, stepk, selc. destruct (is_H I u && is_H I v); [|reflexivity].
    rewrite (ensure_node_hh_ENS I acc u a La (T u a La)). rewrite (ensure_node_hh_ENS I _ v b Lb (T v b Lb)). reflexivity.
  - intros acc [[u v] x] Hin. destruct (Hl u v x Hin) as (a & b & La & Lb).
    unfold rc_step1, stepk, selc. destruct (changed x); [|reflexivity].
    rewrite (ensure_node_ENS I acc u a La), (ensure_node_ENS I _ v b Lb). reflexivity.
Qed.

(** selection of a bond: changed, or joining two hydrogens *)
Definition sel (I : gr) (u v : N) (x : eatt) : bool := changed x || (is_H I u && is_H I v).

Lemma selc_sym I k u v x : selc I k u v x = selc I k v u x.
Proof. unfold selc. destruct k; [apply andb_comm|reflexivity]. Qed.

Lemma hitk_spec I k p q : gwf I ->
  hitk I k p q (edges_iter I) = match adj I p q with Some x => selc I k p q x | None => false end.
Proof.
  intros W. apply eq_true_iff_eq. split.
  - unfold hitk. rewrite existsb_exists. intros ([[u v] x] & Hin & C). apply andb_true_iff in C. destruct C as [C P].
    apply (edges_iter_data I u v x W) in Hin. rewrite <- (adj_pair I _ _ _ _ P), Hin.
    apply pair_eqb_spec in P. destruct P as [[<- <-]|[<- <-]]; [exact C|rewrite selc_sym; exact C].
  - destruct (adj I p q) as [x|] eqn:A; [|discriminate]. intros C.
    assert (has_pair p q (edges_iter I) = true) as HP by (rewrite has_pair_edges_iter, A by exact W; reflexivity).
    unfold has_pair in HP. apply existsb_exists in HP. destruct HP as ([[u v] x'] & Hin & P). simpl in P.
    unfold hitk. apply existsb_exists. exists (u, v, x'). split; [exact Hin|]. rewrite P, andb_true_r.
    pose proof (edges_iter_data I u v x' W Hin) as A'. rewrite (adj_pair I _ _ _ _ P), A in A'. injection A' as <-.
    apply pair_eqb_spec in P. destruct P as [[-> ->]|[-> ->]]; [exact C|rewrite selc_sym; exact C].
Qed.

Theorem get_rc_adj I p q : is_ok I ->
  adj (get_rc I) p q = match adj I p q with Some x => if sel I p q x then Some x else None | None => None end.
Proof.
  intros HI. pose proof (proj1 HI) as W. rewrite (get_rc_fold I HI).
  assert (forall u v x, In (u, v, x) (edges_iter I) -> adj I u v = Some x) as Hd by (intros; apply (edges_iter_data I); assumption).
  set (rc1 := fold_left (stepk I false) (edges_iter I) g_empty).
  assert (adj rc1 p q = if hitk I false p q (edges_iter I) then adj I p q else None) as E1.
  { unfold rc1. rewrite fold_stepk_adj by (auto; left; reflexivity). reflexivity. }
  rewrite fold_stepk_adj; [|exact Hd|rewrite E1; destruct (hitk I false p q _); auto].
  rewrite E1, !hitk_spec by exact W. unfold sel, selc. destruct (adj I p q) as [x|]; [|reflexivity].
  destruct (is_H I p && is_H I q); destruct (changed x); reflexivity.
Qed.

Definition touched (I : gr) (m : N) : bool := touchk I false m (edges_iter I) || touchk I true m (edges_iter I).

Theorem get_rc_label I m : is_ok I ->
  label (get_rc I) m = if touched I m then Some (rca I m) else None.
Proof.
  intros HI. rewrite (get_rc_fold I HI), !fold_stepk_label. unfold touched. simpl.
  destruct (touchk I false m _); reflexivity.
Qed.
Lemma get_rc_gwf I : is_ok I -> gwf (get_rc I).
Proof. intros HI. rewrite (get_rc_fold I HI). apply fold_stepk_gwf, fold_stepk_gwf, gwf_empty. Qed.

(** a node is touched iff it has a selected bond *)
Lemma touchk_spec I k m : gwf I ->
  touchk I k m (edges_iter I) = true <-> exists w x, adj I m w = Some x /\ selc I k m w x = true.
Proof.
  intros W. unfold touchk. rewrite existsb_exists. split.
  - intros ([[u v] x] & Hin & C). apply andb_true_iff in C. destruct C as [C E].
    apply (edges_iter_data I u v x W) in Hin. apply orb_true_iff in E. rewrite !N.eqb_eq in E. destruct E as [->| ->].
    + exists v, x. auto.
    + exists u, x. rewrite adj_sym, selc_sym. auto.
  - intros (w & x & A & C).
    assert (has_pair m w (edges_iter I) = true) as HP by (rewrite has_pair_edges_iter, A by exact W; reflexivity).
    unfold has_pair in HP. apply existsb_exists in HP. destruct HP as ([[u v] x'] & Hin & P). simpl in P.
    exists (u, v, x'). split; [exact Hin|].
    pose proof (edges_iter_data I u v x' W Hin) as A'. rewrite (adj_pair I _ _ _ _ P), A in A'. injection A' as <-.
    apply pair_eqb_spec in P. destruct P as [[-> ->]|[-> ->]].
    + rewrite C, N.eqb_refl. reflexivity.
    + rewrite selc_sym, C, N.eqb_refl, orb_true_r. reflexivity.
Qed.
Lemma touched_spec I m : gwf I -> touched I m = true <-> exists w x, adj I m w = Some x /\ sel I m w x = true.
Proof.
  intros W. unfold touched. rewrite orb_true_iff, !touchk_spec by exact W. unfold sel, selc. split.
  - intros [(w & x & A & C)|(w & x & A & C)]; exists w, x; rewrite C; auto using orb_true_r.
  - intros (w & x & A & C). apply orb_true_iff in C. destruct C as [C|C]; [left|right]; exists w, x; auto.
Qed.
