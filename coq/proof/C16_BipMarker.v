(** C16 — the networkx `bipartite` node marker is an opaque attribute: bipartite_to_hypergraph never reads it.  Nodes are
    classified by `kind` (then by id prefix, then by degree), labels / ids / rules / coefficients come from the other
    attributes; so ANY marker values (default, swapped, booleans, equal, strings) give the same import. *)
From stdpp Require Import gmap strings sets pretty sorting.
From SK Require Import lib.Tok model.C15_Model proof.C15_Proof model.C16_Model proof.C16_Defs proof.C16_Common.
Local Open Scope string_scope.
Local Open Scope list_scope.

Definition strip_marker (nd : bnode) : bnode := BNode None (bn_label nd) (bn_kind nd) (bn_mol nd) (bn_eid nd).
Definition strip_bip (G : bgraph) : bgraph := BGraph (strip_marker <$> b_nodes G) (b_arcs G).

Lemma strip_lookup G n : b_nodes (strip_bip G) !! n = strip_marker <$> b_nodes G !! n.
Proof. apply lookup_fmap. Qed.
Lemma node_label_strip G n : node_label (strip_bip G) n = node_label G n.
Proof. unfold node_label. rewrite strip_lookup. by destruct (b_nodes G !! n). Qed.

Lemma dom_filter_strip (P : nid * bnode → Prop) `{∀ x, Decision (P x)} (m : gmap nid bnode) :
  (∀ n nd, P (n, strip_marker nd) ↔ P (n, nd)) →
  dom (filter P (strip_marker <$> m)) = dom (filter P m).
Proof.
  intros HP. apply set_eq. intros n. rewrite !elem_of_dom. split.
  - intros [nd [Hl Hp]%map_filter_lookup_Some]. rewrite lookup_fmap in Hl.
    destruct (m !! n) as [nd0|] eqn:E; [|done]. cbn in Hl. injection Hl as <-.
    exists nd0. apply map_filter_lookup_Some. split; [done|]. by apply HP.
  - intros [nd [Hl Hp]%map_filter_lookup_Some]. exists (strip_marker nd). apply map_filter_lookup_Some.
    split; [by rewrite lookup_fmap, Hl|]. by apply HP.
Qed.

Lemma classify_strip ifl G : classify ifl (strip_bip G) = classify ifl G.
Proof.
  unfold classify. cbv zeta. cbn [b_nodes b_arcs strip_bip].
  rewrite !dom_filter_strip; [done|by intros n nd|by intros n nd].
Qed.

Lemma omap_ext_all {A B} (f g : A → option B) (l : list A) : (∀ x, f x = g x) → omap f l = omap g l.
Proof. intros Hfg. induction l as [|x l IH]; [done|]. cbn. by rewrite Hfg, IH. Qed.

Lemma side_map_strip G spn rnd inc : side_map (strip_bip G) spn rnd inc = side_map G spn rnd inc.
Proof.
  unfold side_map, side_contribs. cbn [b_arcs strip_bip]. f_equal. apply omap_ext_all.
  intros [[u v] a]. cbn. by rewrite !node_label_strip.
Qed.

Lemma import_rxn_strip ifl G spn acc rnd : import_rxn ifl (strip_bip G) spn acc rnd = import_rxn ifl G spn acc rnd.
Proof.
  unfold import_rxn. destruct acc as [s [e|]]; [done|]. rewrite !side_map_strip, strip_lookup.
  destruct (b_nodes G !! rnd) as [nd|]; done.
Qed.

Lemma import_mols_strip G spn s : import_mols (strip_bip G) spn s = import_mols G spn s.
Proof.
  unfold import_mols. apply foldl_ext_in. intros acc n _. rewrite strip_lookup, node_label_strip.
  by destruct (b_nodes G !! n).
Qed.

(** the import never reads the marker *)
Lemma import_ignores_marker ifl G : bipartite_to_hypergraph ifl (strip_bip G) = bipartite_to_hypergraph ifl G.
Proof.
  unfold bipartite_to_hypergraph. rewrite classify_strip. destruct (classify ifl G) as [spn rxn_nodes].
  rewrite (foldl_ext_in (import_rxn ifl (strip_bip G) spn) (import_rxn ifl G spn)) by (intros; apply import_rxn_strip).
  destruct (foldl _ _ _) as [s [e|]]; [done|]. by rewrite import_mols_strip.
Qed.

(** hence: two graphs that differ only in the markers import to the same network *)
Lemma import_marker_independent ifl G1 G2 : strip_bip G1 = strip_bip G2 →
  bipartite_to_hypergraph ifl G1 = bipartite_to_hypergraph ifl G2.
Proof. intros Heq. by rewrite <-(import_ignores_marker ifl G1), Heq, import_ignores_marker. Qed.

(** non-vacuity: reaction marker 0 / species marker 1 (the networkx convention swapped) *)
Definition ex_mk_net : net := mk_net [] [(Some "e1", "R1", [("A", 2%Z)], [("C", 3%Z)])] [("A", "CC")].
Definition ex_mk_fl (s r : Z) : bflags := BFlags (Some "S:") (Some "R:") s r true true true false true true.
Example ex_marker_swapped :
  bool_decide (edges (bipartite_to_hypergraph (default_iflags true) (hypergraph_to_bipartite (ex_mk_fl 1 0) ex_mk_net)).1
               = edges ex_mk_net) = true ∧
  (bn_bip <$> b_nodes (hypergraph_to_bipartite (ex_mk_fl 1 0) ex_mk_net) !! inr "R:e1") = Some (Some 0%Z) ∧
  (bn_bip <$> b_nodes (hypergraph_to_bipartite (ex_mk_fl 1 0) ex_mk_net) !! inr "S:A") = Some (Some 1%Z).
Proof. by vm_compute. Qed.
