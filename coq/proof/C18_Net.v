(** C18 — clause 2 stated on networks (bipartite view, with / without stoichiometry). *)
From Coq Require Import List NArith ZArith Bool Arith Lia Permutation.
From SK Require Import lib.IRCore lib.IRSearch model.C18_Model proof.C18_Spec proof.C18_Graph proof.C18_Label
  proof.C18_View proof.C18_Invariant proof.C18_NetBip.
Import ListNotations.

Theorem net_canon_invariant_bip st f n n' lab p lab' p' :
  net_ok st n -> net_ok st n' -> coeffs_ok n -> net_variant f n n' ->
  inj_on f (nspecies n ++ map rid (nrxns n)) ->
  fst (canon_search (view true st n)) = Some (lab, p) -> fst (canon_search (view true st n')) = Some (lab', p') ->
  lab' = lab /\ geq (canon_graph (view true st n') p') (canon_graph (view true st n) p).
Proof.
  intros Hn Hn' Hc Hv Hf Hb Hb'. simpl in *.
  destruct (view_bip_GI st n Hc) as (Hw & Hk & Ha).
  apply (canon_invariant_on f (view_bip st n) (view_bip st n') lab p lab' p'); auto.
  - rewrite (node_ids_view_bip st n Hn). exact Hf.
  - apply net_variant_bip; auto.
Qed.

(** the same network under another node naming scheme (integer_ids=True: species 1..N, reactions N+1..N+M; or prefixes):
    every species label AND every reaction id replaced through an injective map, lists in the same order *)
Definition rename_rxn (f : N -> N) (r : rxn) : rxn := Rxn (f (rid r)) (rename_side f (lhs r)) (rename_side f (rhs r)).
Definition rename_net (f : N -> N) (n : net) : net := Net (map f (nspecies n)) (map (rename_rxn f) (nrxns n)).

Lemma rename_net_variant f n : net_variant f n (rename_net f n).
Proof.
  split; [apply Permutation_refl|]. exists (map (rename_rxn f) (nrxns n)). split; [|apply Permutation_refl].
  induction (nrxns n) as [|r l IH]; simpl; constructor; auto.
  split; [reflexivity|]. split; apply Permutation_refl.
Qed.

Theorem net_renamed_ids_bip st f n lab p lab' p' :
  net_ok st n -> net_ok st (rename_net f n) -> coeffs_ok n ->
  inj_on f (nspecies n ++ map rid (nrxns n)) ->
  fst (canon_search (view true st n)) = Some (lab, p) -> fst (canon_search (view true st (rename_net f n))) = Some (lab', p') ->
  lab' = lab /\ geq (canon_graph (view true st (rename_net f n)) p') (canon_graph (view true st n) p).
Proof. intros H1 H2 H3 H4 Hb Hb'. apply (net_canon_invariant_bip st f n (rename_net f n) lab p lab' p'); auto. apply rename_net_variant. Qed.
