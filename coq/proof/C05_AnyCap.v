(** C05 — the set-level invariance of the exhaustive strategy WITHOUT any premise about the embedding cap.
    proof/C05_Result.v proves it for searches below the cap ([side_ok] contains "the number of embeddings is at most
    [thr_val]", for both writings).  With proof/C05_Cap.v — the number of embeddings does not depend on the writing, and
    a search over the cap produces nothing — the premise disappears: for EVERY cap, both writings are over it (two empty
    result lists) or both are below it (results correspond one to one). *)
From Coq Require Import List NArith ZArith Bool Arith Lia Permutation.
From SK Require Import lib.Tok lib.LGraph lib.Mono.
From SK Require model.C06_Model model.C11_Model.
From SK Require Import lib.C06_Spec proof.C06_All proof.C06_Main.
From SK Require proof.C11_Dedup proof.C03_Proof.
From SK Require Import model.C03_Model model.C05_Model proof.C05_Proof proof.C05_Glue proof.C05_Pipe proof.C05_Prep proof.C05_Comp proof.C05_Main proof.C05_Order proof.C05_Sub
     proof.C05_Set proof.C05_Result proof.C05_Cap.
Import ListNotations.

(** what is asked of one writing: [side_ok] without the clause about the cap *)
Record side_ok0 (host : hostg) (p : prepared) : Prop := {
  s0_flag : p_flag p = false;
  s0_host : gwf (host_c06 host);
  s0_pat : gwf (pat_c06 (p_pat p));
  s0_rc_nodup : NoDup (node_ids (p_rc p));
  s0_rc_simple : simple_edgesb (gedges (p_rc p)) = true;
  s0_rc_closed : forall a b x, In (a, b, x) (gedges (p_rc p)) -> In a (node_ids (p_rc p)) /\ In b (node_ids (p_rc p));
  s0_pat_rc : forall u, In u (node_ids (p_pat p)) -> In u (node_ids (p_rc p)) }.

Lemma side_okb0_ok host p : side_okb0 host p = true -> side_ok0 host p.
Proof.
  unfold side_okb0. intros H.
  repeat (apply andb_prop in H; let H' := fresh "B" in destruct H as [H H']).
  constructor.
  - apply negb_true_iff. exact H.
  - apply gwfb_spec. exact B4.
  - apply gwfb_spec. exact B3.
  - apply C03_Proof.nodupb_NoDup. exact B2.
  - exact B1.
  - intros a b x I. unfold closedb in B0. rewrite forallb_forall in B0. specialize (B0 _ I). simpl in B0.
    apply andb_prop in B0. destruct B0 as [Ba Bb]. split; apply LGraph.mem_spec; assumption.
  - intros u I. rewrite forallb_forall in B. apply LGraph.mem_spec. apply B. exact I.
Qed.

Section WithThr.
Context {TH : Thr}.

Lemma side_ok_ok0 host p : side_ok host p -> side_ok0 host p.
Proof. intros [A B C D E F G I]. constructor; assumption. Qed.

Lemma side_ok_of0 host p : side_ok0 host p ->
  (C06_Model.lenN (enum_all host (p_pat p)) <= thr_val)%N -> side_ok host p.
Proof. intros [A B C E F G I] D. constructor; assumption. Qed.

(** the monitored boolean of the default-cap theorems implies the cap-free one *)
Lemma side_okb_okb0 host p : side_okb host p = true -> side_okb0 host p = true.
Proof.
  unfold side_okb, side_okb_with, side_okb0. intros H.
  repeat (apply andb_prop in H; let H' := fresh "B" in destruct H as [H H']).
  rewrite H, B5, B4, B2, B1, B0, B. reflexivity.
Qed.

Theorem glued_set_invariant_any_cap (host host' : hostg) (p p' : prepared) :
  side_ok0 host p -> side_ok0 host' p' ->
  same_graph host host' -> same_graph (p_rc p) (p_rc p') -> same_graph (p_pat p) (p_pat p') ->
  forall T, In T (glued_of 0%N host p) -> exists T', In T' (glued_of 0%N host' p') /\ obs_eq T T'.
Proof.
  intros S S' Hh Hr Hp T HT.
  pose proof (enum_all_count_any_order host host' (p_pat p) (p_pat p') Hh Hp
                (s0_host _ _ S) (s0_pat _ _ S) (s0_host _ _ S') (s0_pat _ _ S')) as Hcount.
  destruct (N.le_gt_cases (C06_Model.lenN (enum_all host (p_pat p))) thr_val) as [Hle|Hgt].
  - apply (glued_set_invariant host host' p p'); try assumption.
    + apply side_ok_of0; assumption.
    + apply side_ok_of0; [assumption|]. rewrite Hcount. exact Hle.
  - destruct (capped_results host p Hgt) as (_ & _ & G & _). rewrite G in HT. destruct HT.
Qed.

(** renumbering by (sg, pi) followed by any re-ordering of both inputs, any cap *)
Theorem glued_set_rewriting_any_cap (sg pi : N -> N) (Hs : inj sg) (Hp : inj pi)
        (host host'' : hostg) (p p'' : prepared) :
  side_ok0 (relabel pi host) (relabel_prep sg p) -> side_ok0 host'' p'' ->
  same_graph (relabel pi host) host'' -> same_graph (relabel sg (p_rc p)) (p_rc p'') ->
  same_graph (relabel sg (p_pat p)) (p_pat p'') ->
  (forall T, In T (glued_of 0%N host p) -> exists T'', In T'' (glued_of 0%N host'' p'') /\ obs_eq (relabel pi T) T'') /\
  (forall T'', In T'' (glued_of 0%N host'' p'') -> exists T, In T (glued_of 0%N host p) /\ obs_eq (relabel pi T) T'').
Proof.
  intros S S'' Hh Hr Hpt.
  assert (Hflag : p_flag p = false) by exact (s0_flag _ _ S).
  pose proof (glued_relabel 0%N sg pi Hs Hp host p Hflag) as Hlit.
  split.
  - intros T HT.
    apply (glued_set_invariant_any_cap (relabel pi host) host'' (relabel_prep sg p) p'' S S'' Hh Hr Hpt).
    rewrite Hlit. apply in_map. exact HT.
  - intros T'' HT''.
    destruct (glued_set_invariant_any_cap host'' (relabel pi host) p'' (relabel_prep sg p) S'' S
                (same_graph_sym _ _ Hh) (same_graph_sym _ _ Hr) (same_graph_sym _ _ Hpt) T'' HT'') as (T1 & HT1 & O).
    rewrite Hlit in HT1. apply in_map_iff in HT1. destruct HT1 as (T & <- & HT).
    exists T. split; [exact HT | apply obs_eq_sym; exact O].
Qed.

End WithThr.

(** non-vacuity: the premises hold for the halogen-exchange witness of proof/C05_Cap.v; under the cap 3 both result lists
    are empty, under the cap 4 (= the number of embeddings) there are 4 glued graphs *)
Example any_cap_examples :
  side_okb0 cx_host cx_p = true /\
  @glued_of (thr_of (Some 3%N)) 0%N cx_host cx_p = [] /\
  length (@glued_of (thr_of (Some 4%N)) 0%N cx_host cx_p) = 4%nat /\
  @side_okb (thr_of (Some 3%N)) cx_host cx_p = false /\ @side_okb (thr_of (Some 4%N)) cx_host cx_p = true.
Proof. repeat split; vm_compute; reflexivity. Qed.
