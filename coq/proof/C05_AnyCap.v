(** C05 — the set-level invariance of the exhaustive strategy WITHOUT any premise about the embedding cap.
    proof/C05_Result.v proves it for searches below the cap ([side_ok] contains "the number of embeddings is at most
    [thr_val]", for both writings).  With proof/C05_Cap.v — the number of embeddings does not depend on the writing, and
    a search over the cap produces nothing — the premise disappears: for EVERY cap, both writings are over it (two empty
    result lists) or both are below it (results correspond one to one). *)
From Coq Require Import List NArith ZArith Bool Arith Lia Permutation.
From SK Require Import lib.Tok lib.LGraph lib.Mono.
From SK Require model.C06_Model model.C11_Model.
From SK Require Import lib.C06_Spec proof.C06_All proof.C06_Main.
From SK Require proof.C11_Dedup proof.C03_Proof.
From SK Require Import model.C03_Model model.C05_Model proof.C05_Proof proof.C05_Glue proof.C05_Pipe proof.C05_Prep proof.C05_Comp proof.C05_Main proof.C05_Order proof.C05_Sub
     proof.C05_Set proof.C05_Result proof.C05_Cap.
Import ListNotations.

(** what is asked of one writing: [side_ok] without the clause about the cap *)
Record side_ok0 (host : hostg) (p : prepared) : Prop := {
  s0_flag : p_flag p = false;
  s0_host : gwf (host_c06 host);
  s0_pat : gwf (pat_c06 (p_pat p));
  s0_rc_nodup : NoDup (node_ids (p_rc p));
  s0_rc_simple : simple_edgesb (gedges (p_rc p)) = true;
  s0_rc_closed : forall a b x, In (a, b, x) (gedges (p_rc p)) -> In a (node_ids (p_rc p)) /\ In b (node_ids (p_rc p));
  s0_pat_rc : forall u, In u (node_ids (p_pat p)) -> In u (node_ids (p_rc p)) }.

Lemma side_okb0_ok host p : side_okb0 host p = true -> side_ok0 host p.
Proof.
  unfold side_okb0. intros H.
  repeat (apply andb_prop in H; let H' := fresh "B" in destruct H as [H H']).
  constructor.
  - apply negb_true_iff. exact H.
  - apply gwfb_spec. exact B4.
  - apply gwfb_spec. exact B3.
  - apply C03_Proof.nodupb_NoDup. exact B2.
  - exact B1.
  - intros a b x I. unfold closedb in B0. rewrite forallb_forall in B0. specialize (B0 _ I). simpl in B0.
    apply andb_prop in B0. destruct B0 as [Ba Bb]. split; apply LGraph.mem_spec; assumption.
  - intros u I. rewrite forallb_forall in B. apply LGraph.mem_spec. apply B. exact I.
Qed.

Section WithThr.
Context {TH : Thr}.

Lemma side_ok_ok0 host p : side_ok host p -> side_ok0 host p.
Proof. intros [A B C D E F G I]. constructor; assumption. Qed.

Lemma side_ok_of0 host p : side_ok0 host p ->
  (C06_Model.lenN (enum_all host (p_pat p)) <= thr_val)%N -> side_ok host p.
Proof. intros [A B C E F G I] D. constructor; assumption. Qed.

(** the monitored boolean of the default-cap theorems implies the cap-free one *)
Lemma side_okb_okb0 host p : side_okb host p = true -> side_okb0 host p = true.
Proof.
  unfold side_okb, side_okb_with, side_okb0. intros H.
  repeat (apply andb_prop in H; let H' := fresh "B" in destruct H as [H H']).
  rewrite H, B5, B4, B2, B1, B0, B. reflexivity.
Qed.

Theorem glued_set_invariant_any_cap (host host' : hostg) (p p' : prepared) :
  side_ok0 host p -> side_ok0 host' p' ->
  same_graph host host' -> same_graph (p_rc p) (p_rc p') -> same_graph (p_pat p) (p_pat p') ->
  forall T, In T (glued_of 0%N host p) -> exists T', In T' (glued_of 0%N host' p') /\ obs_eq T T'.
Proof.
  intros S S' Hh Hr Hp T HT.
  pose proof (enum_all_count_any_order host host' (p_pat p) (p_pat p') Hh Hp
                (s0_host _ _ S) (s0_pat _ _ S) (s0_host _ _ S') (s0_pat _ _ S')) as Hcount.
  destruct (N.le_gt_cases (C06_Model.lenN (enum_all host (p_pat p))) thr_val) as [Hle|Hgt].
  - apply (glued_set_invariant host host' p p'); try assumption.
    + apply side_ok_of0; assumption.
    + apply side_ok_of0; [assumption|]. rewrite Hcount. exact Hle.
  - destruct (capped_results host p Hgt) as (_ & _ & G & _). rewrite G in HT. destruct HT.
Qed.

(** renumbering by (sg, pi) followed by any re-ordering of both inputs, any cap *)
Theorem glued_set_rewriting_any_cap (sg pi : N -> N) (Hs : inj sg) (Hp : inj pi)
        (host host'' : hostg) (p p'' : prepared) :
  side_ok0 (relabel pi host) (relabel_prep sg p) -> side_ok0 host'' p'' ->
  same_graph (relabel pi host) host'' -> same_graph (relabel sg (p_rc p)) (p_rc p'') ->
  same_graph (relabel sg (p_pat p)) (p_pat p'') ->
  (forall T, In T (glued_of 0%N host p) -> exists T'', In T'' (glued_of 0%N host'' p'') /\ obs_eq (relabel pi T) T'') /\
  (forall T'', In T'' (glued_of 0%N host'' p'') -> exists T, In T (glued_of 0%N host p) /\ obs_eq (relabel pi T) T'').
Proof.
  intros S S'' Hh Hr Hpt.
  assert (Hflag : p_flag p = false) by exact (s0_flag _ _ S).
  pose proof (glued_relabel 0%N sg pi Hs Hp host p Hflag) as Hlit.
  split.
  - intros T HT.
    apply (glued_set_invariant_any_cap (relabel pi host) host'' (relabel_prep sg p) p'' S S'' Hh Hr Hpt).
    rewrite Hlit. apply in_map. exact HT.
  - intros T'' HT''.
    destruct (glued_set_invariant_any_cap host'' (relabel pi host) p'' (relabel_prep sg p) S'' S
                (same_graph_sym _ _ Hh) (same_graph_sym _ _ Hr) (same_graph_sym _ _ Hpt) T'' HT'') as (T1 & HT1 & O).
    rewrite Hlit in HT1. apply in_map_iff in HT1. destruct HT1 as (T & <- & HT).
    exists T. split; [exact HT | apply obs_eq_sym; exact O].
Qed.

End WithThr.

(** non-vacuity: the premises hold for the halogen-exchange witness of proof/C05_Cap.v; under the cap 3 both result lists
    are empty, under the cap 4 (= the number of embeddings) there are 4 glued graphs *)
Example any_cap_examples :
  side_okb0 cx_host cx_p = true /\
  @glued_of (thr_of (Some 3%N)) 0%N cx_host cx_p = [] /\
  length (@glued_of (thr_of (Some 4%N)) 0%N cx_host cx_p) = 4%nat /\
  @side_okb (thr_of (Some 3%N)) cx_host cx_p = false /\ @side_okb (thr_of (Some 4%N)) cx_host cx_p = true.
Proof. repeat split; vm_compute; reflexivity. Qed.

(** ** results of the component-aware and of the fallback strategy are results of the exhaustive strategy whenever the
    EXHAUSTIVE search is not capped ([side_ok]); nothing is asked of the component-aware search.  Proof by changing the
    cap: under the larger cap max(cap, bound of the component-aware search) the theorem of proof/C05_AllStrat.v applies;
    the exhaustive result is the same under both caps, and the component-aware / fallback result under the smaller cap
    is empty or one of the results under the larger one (all-or-nothing). *)
From SK Require Import proof.C06_Comp proof.C05_AllStrat.

Section WithThr3.
Context {TH : Thr}.

Definition bigger (host : hostg) (p : prepared) : Thr :=
  {| thr_val := N.max thr_val (comp_bound (C06_Model.monos_on (host_c06 host) (pat_c06 (p_pat p))) true (host_c06 host) (pat_c06 (p_pat p)));
     pmax_val := pmax_val |}.

Lemma glued_of_raw_eq (TH1 TH2 : Thr) strat host p : p_flag p = false ->
  @raw_of TH1 strat host p = @raw_of TH2 strat host p -> @glued_of TH1 strat host p = @glued_of TH2 strat host p.
Proof.
  intros Hf E. unfold glued_of, kept_of. rewrite E. apply flat_map_ext. intros m.
  unfold glue_all, glue_base. rewrite Hf. reflexivity.
Qed.

Lemma glued_of_raw_nil strat host p : raw_of strat host p = [] -> glued_of strat host p = [].
Proof. intros E. unfold glued_of, kept_of. rewrite E. reflexivity. Qed.

Theorem glued_subset_all_any_cap (host : hostg) (p : prepared) : side_ok host p ->
  (forall T, In T (glued_of 1%N host p) -> exists T', In T' (glued_of 0%N host p) /\ obs_eq T T') /\
  (forall T, In T (glued_of 2%N host p) -> exists T', In T' (glued_of 0%N host p) /\ obs_eq T T').
Proof.
  intros S. pose proof (so_flag _ _ S) as Hf.
  set (B := comp_bound (C06_Model.monos_on (host_c06 host) (pat_c06 (p_pat p))) true (host_c06 host) (pat_c06 (p_pat p))).
  (* the premises under the larger cap *)
  assert (S' : @side_ok (bigger host p) host p).
  { destruct S as [A1 A2 A3 A4 A5 A6 A7 A8]. constructor; try assumption. simpl. fold B. lia. }
  assert (SC' : @side_ok_c (bigger host p) host p) by (split; [exact S'|]; simpl; fold B; lia).
  destruct (@glued_comp_subset_all (bigger host p) host p SC') as [G1 G2].
  (* the exhaustive strategy: the same raw matches, hence the same glued graphs, under both caps *)
  assert (E0 : @raw_of (bigger host p) 0%N host p = raw_of 0%N host p).
  { unfold raw_of. rewrite (@all_or_nothing_all (bigger host p)), all_or_nothing_all.
    assert (L1 : (C06_Model.lenN (enum_all host (p_pat p)) <= thr_val)%N) by exact (so_count _ _ S).
    assert (L2 : (C06_Model.lenN (enum_all host (p_pat p)) <= @thr_val (bigger host p))%N) by (simpl; lia).
    apply N.ltb_ge in L1. apply N.ltb_ge in L2. rewrite L1, L2. reflexivity. }
  pose proof (glued_of_raw_eq (bigger host p) TH 0%N host p Hf E0) as EG0.
  assert (U1 : @raw_of (bigger host p) 1%N host p
               = comp_unl (C06_Model.monos_on (host_c06 host) (pat_c06 (p_pat p))) true (host_c06 host) (pat_c06 (p_pat p))).
  { unfold raw_of. apply (@matches_comp_unl (bigger host p)). simpl. fold B. lia. }
  split.
  - intros T HT. destruct (all_or_nothing_comp host (p_pat p)) as [E|E].
    + rewrite (glued_of_raw_nil 1%N host p E) in HT. destruct HT.
    + rewrite <- EG0. apply G1.
      rewrite (glued_of_raw_eq (bigger host p) TH 1%N host p Hf); [exact HT|]. rewrite U1. symmetry. exact E.
  - intros T HT. destruct (all_or_nothing_bt host (p_pat p)) as [E|[E|E]].
    + rewrite (glued_of_raw_nil 2%N host p E) in HT. destruct HT.
    + (* the limit-free component-aware result: empty (no result) or the fallback's answer under the larger cap *)
      destruct (comp_unl (C06_Model.monos_on (host_c06 host) (pat_c06 (p_pat p))) true (host_c06 host) (pat_c06 (p_pat p))) as [|c r] eqn:Ec.
      * rewrite (glued_of_raw_nil 2%N host p E) in HT. destruct HT.
      * rewrite <- EG0. apply G2.
        rewrite (glued_of_raw_eq (bigger host p) TH 2%N host p Hf); [exact HT|].
        unfold raw_of at 1. rewrite (@matches_bt_unl (bigger host p)); [|simpl; fold B; lia|simpl; pose proof (so_count _ _ S); unfold enum_all in *; lia].
        unfold bt_unl_result. rewrite Ec. symmetry. exact E.
    + (* the exhaustive result itself *)
      exists T. split; [|apply obs_eq_refl].
      assert (E2 : raw_of 2%N host p = raw_of 0%N host p).
      { unfold raw_of. rewrite E, all_or_nothing_all.
        assert (L1 : (C06_Model.lenN (enum_all host (p_pat p)) <= thr_val)%N) by exact (so_count _ _ S).
        apply N.ltb_ge in L1. rewrite L1. reflexivity. }
      (* glue_all does not depend on the strategy when the pattern has no explicit X-H bond *)
      assert (EG : glued_of 2%N host p = glued_of 0%N host p).
      { unfold glued_of, kept_of. rewrite E2. apply flat_map_ext. intros m. unfold glue_all, glue_base. rewrite Hf. reflexivity. }
      rewrite <- EG. exact HT.
Qed.

End WithThr3.

(** non-vacuity of [glued_subset_all_any_cap]: cap 4 = the number of embeddings of the exhaustive search: the premise holds,
    2 component-aware / fallback results among the 4 exhaustive ones; under cap 3 the premise fails — that is the refuted
    scenario of proof/C05_Cap.v *)
Example subset_results_any_cap_example :
  @side_okb (thr_of (Some 4%N)) cx_host cx_p = true /\
  length (@glued_of (thr_of (Some 4%N)) 1%N cx_host cx_p) = 2%nat /\ length (@glued_of (thr_of (Some 4%N)) 2%N cx_host cx_p) = 2%nat /\
  length (@glued_of (thr_of (Some 4%N)) 0%N cx_host cx_p) = 4%nat /\
  @side_okb (thr_of (Some 3%N)) cx_host cx_p = false.
Proof. repeat split; vm_compute; reflexivity. Qed.
