(** C13 -- batched classification on the caller's graphs: BatchCluster.fit from no templates over ANY arrival order of the raw
    items, with any batch size and any sampler choices, puts two items into one class IFF their raw graphs are isomorphic. *)
From Coq Require Import List NArith ZArith Bool Arith Lia Permutation.
From SK Require Import lib.Tok lib.LGraph lib.Mono model.C13_Model model.C13_Trace proof.C13_Proof proof.C13_More proof.C13_Iso
     proof.C13_Trace proof.C13_Raw.
Import ListNotations.
Local Open Scope nat_scope.

Theorem batch_any_order_raw (c : ccfg) (mode : attr_mode) (data data' : list ritem) (bs : option nat) (picks : list nat) :
  Permutation data data' ->
  length (cc_defs c) = length (cc_names c) ->
  (forall x, In x data -> NoDup (node_ids (ri_graph x))) ->
  (forall x y, In x data -> In y data -> raw_isomorphic c (ri_graph x) (ri_graph y) ->
               gc_key mode (mk_item c x) = gc_key mode (mk_item c y)) ->
  match bs with None => True | Some b => 1 <= b end ->
  let classes' := fst (fit (item_iso true (cc_defs c)) mode (map (mk_item c) data') [] bs picks) in
  forall i' j' x y, nth_error data' i' = Some x -> nth_error data' j' = Some y ->
    (nth_error classes' i' = nth_error classes' j' <-> raw_isomorphic c (ri_graph x) (ri_graph y)).
Proof.
  intros P EL Hnd Hattr Hbs classes' i' j' x y Hi Hj.
  assert (Hnd' : forall z, In z data' -> NoDup (node_ids (ri_graph z))).
  { intros z Hz. apply Hnd. eapply Permutation_in; [apply Permutation_sym; exact P|exact Hz]. }
  assert (Hattr' : forall z w, In z data' -> In w data' -> raw_isomorphic c (ri_graph z) (ri_graph w) ->
                               gc_key mode (mk_item c z) = gc_key mode (mk_item c w)).
  { intros z w Hz Hw. apply Hattr; (eapply Permutation_in; [apply Permutation_sym; exact P|assumption]). }
  assert (Hrefl : forall it, In it (map (mk_item c) data') -> item_iso true (cc_defs c) it it = true).
  { intros it Hit. apply in_map_iff in Hit. destruct Hit as (r & <- & Hr). apply item_iso_refl. split.
    - simpl. rewrite project13_ids. now apply Hnd'.
    - intros u a Hin. simpl in Hin. apply in_map_iff in Hin. destruct Hin as ([u' a'] & E & _). inversion E; subst.
      rewrite map_length, EL. apply le_n. }
  unfold classes'. rewrite (batch_equals_oneshot (item_iso true (cc_defs c)) mode (map (mk_item c) data') bs picks Hbs Hrefl).
  rewrite (nth_error_map_inj class_z _ i' j' class_z_inj).
  destruct (partition_raw c mode data' EL Hnd' Hattr') as (_ & H).
  destruct (H i' j' x y Hi Hj) as (ci & cj & E1 & E2 & Iff). rewrite E1, E2. rewrite <- Iff.
  split; [intros E; now inversion E|intros ->; reflexivity].
Qed.
