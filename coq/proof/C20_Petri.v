(** C20 — proofs about Part 2 of the model (PetriNet.enabled / fire / marking_to_tuple). *)
From Coq Require Import ZArith NArith List Bool Arith Lia.
Import ListNotations.
From SK Require Import model.C20_Model proof.C20_Spec.
Local Open Scope Z_scope.

Lemma get_set_same d p c : get (set d p c) p = c.
Proof.
  induction d as [|[q c'] d IH]; simpl.
  - now rewrite N.eqb_refl.
  - destruct (N.eqb q p) eqn:E; simpl; rewrite E; auto.
Qed.

Lemma get_set_other d p q c : p <> q -> get (set d p c) q = get d q.
Proof.
  intros Hne. induction d as [|[r c'] d IH]; simpl.
  - destruct (N.eqb p q) eqn:E; auto. apply N.eqb_eq in E. congruence.
  - destruct (N.eqb r p) eqn:E; simpl.
    + apply N.eqb_eq in E. subst r. destruct (N.eqb p q) eqn:E2; auto.
      apply N.eqb_eq in E2. congruence.
    + destruct (N.eqb r q); auto.
Qed.

Lemma get_set d p q c : get (set d p c) q = if N.eqb p q then c else get d q.
Proof.
  destruct (N.eqb p q) eqn:E.
  - apply N.eqb_eq in E. subst. apply get_set_same.
  - apply N.eqb_neq in E. now apply get_set_other.
Qed.

Lemma fold_sub_get L : forall m p,
  get (fold_left (fun m pw => set m (fst pw) (get m (fst pw) - snd pw)) L m) p = get m p - weight L p.
Proof.
  induction L as [|[q w] L IH]; intros m p; simpl.
  - lia.
  - rewrite IH, get_set. destruct (N.eqb q p) eqn:E.
    + apply N.eqb_eq in E. subst. lia.
    + lia.
Qed.

Lemma fold_add_get L : forall m p,
  get (fold_left (fun m pw => set m (fst pw) (get m (fst pw) + snd pw)) L m) p = get m p + weight L p.
Proof.
  induction L as [|[q w] L IH]; intros m p; simpl.
  - lia.
  - rewrite IH, get_set. destruct (N.eqb q p) eqn:E.
    + apply N.eqb_eq in E. subst. lia.
    + lia.
Qed.

(** firing changes the marking by products minus reactants, at every place *)
Lemma fire_t_spec t m p : get (fire_t t m) p = get m p - weight (t_pre t) p + weight (t_post t) p.
Proof. unfold fire_t. now rewrite fold_add_get, fold_sub_get. Qed.

(** a transition is enabled exactly when the marking covers its reactants *)
Lemma enabled_t_spec t m :
  enabled_t t m = true <-> forall p w, In (p, w) (t_pre t) -> w <= get m p.
Proof.
  unfold enabled_t. rewrite forallb_forall. split.
  - intros H p w Hin. specialize (H (p, w) Hin). simpl in H.
    apply negb_true_iff, Z.ltb_ge in H. auto.
  - intros H [p w] Hin. simpl. apply negb_true_iff, Z.ltb_ge. auto.
Qed.

(** for a dict with unique keys (a Python dict) the weight of a place is its entry *)
Lemma weight_notin d p : ~ In p (map fst d) -> weight d p = 0.
Proof.
  induction d as [|[q c] d IH]; simpl; auto. intros H.
  destruct (N.eqb q p) eqn:E.
  - apply N.eqb_eq in E. subst. tauto.
  - rewrite IH; tauto.
Qed.

Lemma get_notin d p : ~ In p (map fst d) -> get d p = 0.
Proof.
  induction d as [|[q c] d IH]; simpl; auto. intros H.
  destruct (N.eqb q p) eqn:E.
  - apply N.eqb_eq in E. subst. tauto.
  - apply IH. tauto.
Qed.

Lemma weight_get d p : NoDup (map fst d) -> weight d p = get d p.
Proof.
  induction d as [|[q c] d IH]; simpl; auto. intros H. inversion H; subst.
  destruct (N.eqb q p) eqn:E.
  - apply N.eqb_eq in E. subst. rewrite weight_notin; auto. lia.
  - rewrite IH; auto.
Qed.

Lemma marking_to_tuple_length net m : length (marking_to_tuple net m) = length (pn_places net).
Proof. unfold marking_to_tuple. apply map_length. Qed.

Lemma marking_to_tuple_nth net m i p :
  nth_error (pn_places net) i = Some p -> nth_error (marking_to_tuple net m) i = Some (get m p).
Proof. intros H. unfold marking_to_tuple. now apply map_nth_error. Qed.

(** reading a tuple back as a dict over the place list *)
Lemma get_combine_map (f : N -> Z) ps : forall p, In p ps -> get (combine ps (map f ps)) p = f p.
Proof.
  induction ps as [|q ps IH]; intros p Hp; simpl in *; [tauto|].
  destruct (N.eqb q p) eqn:E.
  - apply N.eqb_eq in E. now subst.
  - apply N.eqb_neq in E. apply IH. destruct Hp; congruence.
Qed.

Lemma get_combine_notin ps : forall (mt : list Z) p, ~ In p ps -> get (combine ps mt) p = 0.
Proof.
  intros mt p H. apply get_notin. intros Hin. apply H.
  clear H. revert mt Hin. induction ps as [|q ps IH]; intros [|z mt] Hin; simpl in *; try tauto.
  destruct Hin; eauto.
Qed.

(** non-vacuity *)
Example fire_example :
  let t := T 0%N [(0%N, 2); (1%N, 1)] [(1%N, 3); (2%N, 1)] in
  enabled_t t [(0%N, 2); (1%N, 1)] = true /\ enabled_t t [(0%N, 1); (1%N, 1)] = false /\
  fire_t t [(0%N, 2); (1%N, 1)] = [(0%N, 0); (1%N, 3); (2%N, 1)].
Proof. vm_compute. auto. Qed.
