(** C11 (round 5) — the three-label graph built from the attribute dictionaries (model/C11_Attr3.v): under each of the
    three readings its label-preserving automorphisms are the maps preserving the corresponding attribute data.
    Stdlib lists. *)
From Coq Require Import List NArith ZArith Bool Arith Lia.
From SK Require Import lib.Tok lib.LGraph lib.Mono lib.Reach model.C11_Model model.C11_Keys model.C11_Attr model.C11_Attr3
     proof.C11_Aut proof.C11_Main proof.C11_AttrProof.
Import ListNotations.

Section View.
Variables A B : Type.
Variable t : lgraph A B.
Variable F : A -> nlab.
Variable G : B -> elab.
Let g : graph := LG (map (fun p => (fst p, F (snd p))) (gnodes t)) (map (fun e => (fst e, G (snd e))) (gedges t)).

Lemma view_ids : node_ids g = node_ids t.
Proof. unfold node_ids, g. simpl. rewrite map_map. apply map_ext. reflexivity. Qed.

Lemma view_label u : label g u = option_map F (label t u).
Proof. unfold label, g. simpl. exact (assoc_map_snd F u (gnodes t)). Qed.

Lemma view_adj u v : LGraph.adj g u v = option_map G (LGraph.adj t u v).
Proof. unfold LGraph.adj, g. simpl. exact (find_edge_map G u v (gedges t)). Qed.

Variable fn : nlab -> N.
Variable pi : A -> list N.
Hypothesis Hn : forall a, fn (F a) = lidx (pi a) (map (fun p => pi (snd p)) (gnodes t)) 0%N.

Lemma view_lab_eq u v :
  lab_of fn g u = lab_of fn g v <-> option_map pi (label t u) = option_map pi (label t v).
Proof.
  unfold lab_of. rewrite !view_label.
  destruct (label t u) as [x|] eqn:Eu; destruct (label t v) as [y|] eqn:Ev; simpl; rewrite ?Hn;
    try (split; [discriminate | discriminate]); try tauto.
  split.
  - intros [= E]. f_equal. apply (lidx_inj (pi x) (pi y) (map (fun p => pi (snd p)) (gnodes t)) 0%N); [| |exact E].
    + apply assoc_in in Eu. apply in_map_iff. exists (u, x). split; [reflexivity | exact Eu].
    + apply assoc_in in Ev. apply in_map_iff. exists (v, y). split; [reflexivity | exact Ev].
  - intros [= ->]. reflexivity.
Qed.

Variable fe : elab -> N.
Variable rho : B -> list N.
Hypothesis He : forall b, fe (G b) = lidx (rho b) (map (fun e => rho (snd e)) (gedges t)) 0%N.

Lemma view_adj_eq u v u' v' :
  adj_of fe g u v = adj_of fe g u' v' <-> option_map rho (LGraph.adj t u v) = option_map rho (LGraph.adj t u' v').
Proof.
  unfold adj_of. rewrite !view_adj.
  destruct (LGraph.adj t u v) as [x|] eqn:Eu; destruct (LGraph.adj t u' v') as [y|] eqn:Ev; simpl; rewrite ?He;
    try (split; [discriminate | discriminate]); try tauto.
  split.
  - intros [= E]. f_equal. apply (lidx_inj (rho x) (rho y) (map (fun e => rho (snd e)) (gedges t)) 0%N); [| |exact E].
    + apply find_edge_some in Eu. destruct Eu as (a & b & Hin & _). apply in_map_iff. exists (a, b, x). split; [reflexivity | exact Hin].
    + apply find_edge_some in Ev. destruct Ev as (a & b & Hin & _). apply in_map_iff. exists (a, b, y). split; [reflexivity | exact Hin].
  - intros [= ->]. reflexivity.
Qed.

Lemma view_automorphism s :
  is_automorphism fn fe g s <->
  (forall u, In u (node_ids t) -> In (s u) (node_ids t)) /\
  (forall u v, In u (node_ids t) -> In v (node_ids t) -> s u = s v -> u = v) /\
  (forall u, In u (node_ids t) -> option_map pi (label t (s u)) = option_map pi (label t u)) /\
  (forall u v, In u (node_ids t) -> In v (node_ids t) ->
     option_map rho (LGraph.adj t (s u) (s v)) = option_map rho (LGraph.adj t u v)).
Proof.
  unfold is_automorphism. rewrite view_ids.
  split; intros (H1 & H2 & H3 & H4); (split; [exact H1 | split; [exact H2 | split]]).
  - intros u Hu. apply view_lab_eq. apply H3. exact Hu.
  - intros u v Hu Hv. apply view_adj_eq. apply H4; assumption.
  - intros u Hu. apply view_lab_eq. apply H3. exact Hu.
  - intros u v Hu Hv. apply view_adj_eq. apply H4; assumption.
Qed.
End View.

(** ---------- the tuples of [picked3] ---------- *)
Lemma picked3_ids ag : node_ids (picked3 ag) = node_ids ag.
Proof. unfold node_ids, picked3. simpl. rewrite map_map. apply map_ext. reflexivity. Qed.

Lemma picked3_label ag u :
  label (picked3 ag) u =
  option_map (fun d => (pick node_default DEF_NODE d, pick node_default WL4 d, dict_tuple [K_atom_map] (keys_of snd (gnodes ag)) d))
             (label ag u).
Proof. unfold label, picked3. simpl. exact (assoc_map_snd _ u (gnodes ag)). Qed.

Lemma picked3_adj ag u v :
  LGraph.adj (picked3 ag) u v =
  option_map (fun d => (pick edge_default DEF_EDGE d, dict_tuple [] (keys_of snd (gedges ag)) d)) (LGraph.adj ag u v).
Proof. unfold LGraph.adj, picked3. simpl. exact (find_edge_map _ u v (gedges ag)). Qed.

Lemma option_map_map {X Y Z} (f : X -> Y) (h : Y -> Z) (o : option X) : option_map h (option_map f o) = option_map (fun x => h (f x)) o.
Proof. destruct o; reflexivity. Qed.

Lemma dict_tuple_same skip (ag : agraph) u v :
  option_map (dict_tuple skip (keys_of snd (gnodes ag))) (label ag u) =
  option_map (dict_tuple skip (keys_of snd (gnodes ag))) (label ag v) <-> same_dict skip (label ag u) (label ag v).
Proof. rewrite <- !dicted_label. apply dicted_label_eq. Qed.

Lemma dict_tuple_same_e (ag : agraph) u v u' v' :
  option_map (dict_tuple [] (keys_of snd (gedges ag))) (LGraph.adj ag u v) =
  option_map (dict_tuple [] (keys_of snd (gedges ag))) (LGraph.adj ag u' v') <-> same_dict [] (LGraph.adj ag u v) (LGraph.adj ag u' v').
Proof. rewrite <- !(dicted_adj []). apply (dicted_adj_eq []). Qed.

Theorem three_views (ag : agraph) :
  node_ids (to_graph3 ag) = node_ids ag /\
  (wf ag -> wf (to_graph3 ag)) /\
  (forall s, is_automorphism n_exact e_order (to_graph3 ag) s <-> attr_automorphism DEF_NODE DEF_EDGE ag s) /\
  (forall s, is_automorphism n_wl e_order (to_graph3 ag) s <-> attr_automorphism WL4 DEF_EDGE ag s) /\
  (forall s, is_automorphism n_full e_full (to_graph3 ag) s <-> rule_automorphism [K_atom_map] ag s).
Proof.
  set (t := picked3 ag).
  set (F := fun l : nlab3 => (lidx (fst (fst l)) (map (fun p => fst (fst (snd p))) (gnodes t)) 0%N,
                              lidx (snd (fst l)) (map (fun p => snd (fst (snd p))) (gnodes t)) 0%N,
                              lidx (snd l) (map (fun p => snd (snd p)) (gnodes t)) 0%N)).
  set (G := fun l : elab3 => (lidx (fst l) (map (fun e => fst (snd e)) (gedges t)) 0%N,
                              lidx (snd l) (map (fun e => snd (snd e)) (gedges t)) 0%N)).
  assert (Eg : to_graph3 ag = LG (map (fun p => (fst p, F (snd p))) (gnodes t)) (map (fun e => (fst e, G (snd e))) (gedges t))) by reflexivity.
  assert (Hids : node_ids (to_graph3 ag) = node_ids ag).
  { rewrite Eg. exact (eq_trans (view_ids _ _ t F G) (picked3_ids ag)). }
  split; [exact Hids|]. split.
  - intros Hw. rewrite Eg. apply (wf_map_attrs F G t). unfold t, picked3.
    apply (wf_map_attrs (fun d => (pick node_default DEF_NODE d, pick node_default WL4 d, dict_tuple [K_atom_map] (keys_of snd (gnodes ag)) d))
                        (fun d => (pick edge_default DEF_EDGE d, dict_tuple [] (keys_of snd (gedges ag)) d)) ag Hw).
  - split; [|split]; intros s; rewrite Eg.
    + rewrite (view_automorphism _ _ t F G n_exact (fun l => fst (fst l)) (fun a => eq_refl) e_order (fun l => fst l) (fun b => eq_refl) s).
      unfold attr_automorphism, t. rewrite picked3_ids.
      split; intros (H1 & H2 & H3 & H4); (split; [exact H1 | split; [exact H2 | split]]).
      * intros u Hu. specialize (H3 u Hu). rewrite !picked3_label, !option_map_map in H3. exact H3.
      * intros u v Hu Hv. specialize (H4 u v Hu Hv). rewrite !picked3_adj, !option_map_map in H4. exact H4.
      * intros u Hu. rewrite !picked3_label, !option_map_map. exact (H3 u Hu).
      * intros u v Hu Hv. rewrite !picked3_adj, !option_map_map. exact (H4 u v Hu Hv).
    + rewrite (view_automorphism _ _ t F G n_wl (fun l => snd (fst l)) (fun a => eq_refl) e_order (fun l => fst l) (fun b => eq_refl) s).
      unfold attr_automorphism, t. rewrite picked3_ids.
      split; intros (H1 & H2 & H3 & H4); (split; [exact H1 | split; [exact H2 | split]]).
      * intros u Hu. specialize (H3 u Hu). rewrite !picked3_label, !option_map_map in H3. exact H3.
      * intros u v Hu Hv. specialize (H4 u v Hu Hv). rewrite !picked3_adj, !option_map_map in H4. exact H4.
      * intros u Hu. rewrite !picked3_label, !option_map_map. exact (H3 u Hu).
      * intros u v Hu Hv. rewrite !picked3_adj, !option_map_map. exact (H4 u v Hu Hv).
    + rewrite (view_automorphism _ _ t F G n_full (fun l => snd l) (fun a => eq_refl) e_full (fun l => snd l) (fun b => eq_refl) s).
      unfold rule_automorphism, t. rewrite picked3_ids.
      split; intros (H1 & H2 & H3 & H4); (split; [exact H1 | split; [exact H2 | split]]).
      * intros u Hu. specialize (H3 u Hu). rewrite !picked3_label, !option_map_map in H3. apply dict_tuple_same. exact H3.
      * intros u v Hu Hv. specialize (H4 u v Hu Hv). rewrite !picked3_adj, !option_map_map in H4. apply dict_tuple_same_e. exact H4.
      * intros u Hu. rewrite !picked3_label, !option_map_map. apply dict_tuple_same. exact (H3 u Hu).
      * intros u v Hu Hv. rewrite !picked3_adj, !option_map_map. apply dict_tuple_same_e. exact (H4 u v Hu Hv).
Qed.

Example ex_three_views :
  let g := to_graph3 ex_ag in
  a_count (analyze n_exact e_order g) = 2%N /\ a_count (analyze n_wl e_order g) = 1%N /\
  length (rule_auts g) = 1%nat /\ wfb g = true.
Proof. vm_compute. repeat split. Qed.
