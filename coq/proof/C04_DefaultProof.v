(** C04 — default (explicit-hydrogen) mode: from the precondition (as the boolean [default_okb]) to the regeneration
    before _explicit_h, through C03's characterisation of _strip_explicit_h (proof/C03_StripCor.v, read-only). *)
From Coq Require Import List NArith ZArith Bool Lia Permutation.
From SK Require Import lib.Tok lib.LGraph model.C03_Model model.C04_Model proof.C03_Proof proof.C03_Glue proof.C03_Backward
                       proof.C03_Skeleton proof.C03_StripCounts proof.C03_StripExact proof.C03_StripCor
                       proof.C04_Glue proof.C04_Template proof.C04_Fold proof.C04_Default.
Import ListNotations.
Local Open Scope Z_scope.

Lemma foldableb_sound g : NoDup (node_ids g) -> foldableb g = true -> foldable g.
Proof.
  intros Hnd H h Hh. unfold foldableb in H. rewrite forallb_forall in H.
  specialize (H h (proj2 (h_nodes_h_spec g Hnd h) Hh)). destruct (nbrs g h) as [|x0 xs] eqn:E; [discriminate|].
  split; [discriminate|]. intros x I. rewrite forallb_forall in H. specialize (H x I). apply andb_prop in H. destruct H as [H1 H2].
  split; [apply negb_true_iff; exact H1|exact H2].
Qed.

Lemma in_nbrs {V B} (g : lgraph V B) u v x : In (u, v, x) (gedges g) -> In v (nbrs g u) /\ In u (nbrs g v).
Proof.
  intros I. unfold nbrs. split; apply in_flat_map; exists (u, v, x); (split; [exact I|]).
  - rewrite N.eqb_refl. left. reflexivity.
  - destruct (N.eqb u v) eqn:E; [apply N.eqb_eq in E; subst; left; reflexivity|]. rewrite N.eqb_refl. left. reflexivity.
Qed.

Section DefaultMode.
  Variables (A B : hostg) (tpl : its).
  Hypothesis PW : pair_wf A B.
  Hypothesis CA : closed A.
  Hypothesis CB : closed B.
  Hypothesis D : describes A B tpl.
  Hypothesis OK : default_okb A B tpl = true.
  Let HA := pw_A _ _ PW.
  Let HB := pw_B _ _ PW.
  Let Hwr := d_wf _ _ _ D.

  Let OK1 := proj1 (andb_prop _ _ (proj1 (andb_prop _ _ (proj1 (andb_prop _ _ (proj1 (andb_prop _ _ OK))))))).
  Let OK2 := proj2 (andb_prop _ _ (proj1 (andb_prop _ _ (proj1 (andb_prop _ _ (proj1 (andb_prop _ _ OK))))))).
  Let OK3 := proj2 (andb_prop _ _ (proj1 (andb_prop _ _ (proj1 (andb_prop _ _ OK))))).
  Let OK4 := proj2 (andb_prop _ _ (proj1 (andb_prop _ _ OK))).
  Let OK5 := proj2 (andb_prop _ _ OK).

  Lemma dE12 n x y : label A n = Some x -> label B n = Some y -> a_hc x = a_hc y /\ 0 <= a_hc x.
  Proof.
    intros Ex Ey. pose proof OK1 as H. rewrite forallb_forall in H. specialize (H (n, x) (assoc_in n (gnodes A) Ex)). simpl in H.
    rewrite Ey in H. apply andb_prop in H. destruct H as [H1 H2]. split; [apply Z.eqb_eq; exact H1|apply Z.leb_le; exact H2].
  Qed.
  Lemma dFA : foldable A.
  Proof. apply foldableb_sound; [exact (wf_host_nodup A HA)|exact OK2]. Qed.
  Lemma dFB : foldable B.
  Proof. apply foldableb_sound; [exact (wf_host_nodup B HB)|exact OK3]. Qed.
  Lemma dE3 h : is_H_h A h = true -> In h (node_ids tpl) ->
    forall k, adj A h k <> None \/ adj B h k <> None -> exists x, adj tpl h k = Some x.
  Proof.
    intros Hh It. pose proof OK4 as H. rewrite forallb_forall in H.
    specialize (H h (proj2 (h_nodes_h_spec A (wf_host_nodup A HA) h) Hh)).
    apply mem_spec in It. rewrite It in H. rename H into H2.
    rewrite forallb_forall in H2. intros k Hk.
    assert (K : forall (X : hostg), (forall e, In e (gedges X) -> In e (gedges A ++ gedges B)) -> adj X h k <> None -> exists x, adj tpl h k = Some x).
    { intros X HX Ne. destruct (adj X h k) as [o|] eqn:Ea; [|congruence]. unfold adj in Ea. apply find_edge_in in Ea.
      destruct Ea as (p & q & I & Hp). specialize (H2 _ (HX _ I)). simpl in H2.
      assert (Eh : N.eqb p h || N.eqb q h = true).
      { unfold peq in Hp. apply orb_prop in Hp. destruct Hp as [Hp|Hp]; apply andb_prop in Hp; destruct Hp as [P1 P2]; rewrite P1 || rewrite P2; auto using orb_true_r. }
      rewrite Eh in H2. unfold has_adj in H2. destruct (adj tpl p q) as [x|] eqn:Et; [|discriminate]. exists x.
      unfold adj in *. rewrite <- (find_edge_peq (gedges tpl) p q h k Hp). exact Et. }
    destruct Hk as [Hk|Hk]; [apply (K A); [intros; apply in_or_app; auto|exact Hk]|apply (K B); [intros; apply in_or_app; auto|exact Hk]].
  Qed.

  Lemma tpl_el k a : In (k, a) (gnodes tpl) -> a_el (iH a) = a_el (iG a).
  Proof.
    intros I. destruct (d_nodes _ _ _ D k a I) as (x & y & Ex & Ey & N1 & N2 & _). rewrite N1, N2. symmetry. exact (pw_el _ _ PW k x y Ex Ey).
  Qed.
  Lemma tpl_nodupb : nodupb (node_ids tpl) = true.
  Proof. exact (fits_nodupb A B tpl (d_fits _ _ _ D)). Qed.
  Lemma isH_tpl h : is_H_i tpl h = true <-> In h (node_ids tpl) /\ is_H_h A h = true.
  Proof.
    unfold is_H_i, is_H_h. split.
    - destruct (label tpl h) as [a|] eqn:E; [|discriminate]. intros Ha. split; [exact (label_some_in tpl h a E)|].
      destruct (d_nodes _ _ _ D h a (assoc_in h (gnodes tpl) E)) as (x & y & Ex & _ & N1 & _). rewrite Ex, <- N1. exact Ha.
    - intros [I Ha]. destruct (in_ids_label tpl h I) as [a E]. rewrite E.
      destruct (d_nodes _ _ _ D h a (assoc_in h (gnodes tpl) E)) as (x & y & Ex & _ & N1 & _). rewrite Ex in Ha. rewrite N1. exact Ha.
  Qed.
  Lemma all_H_strippable h : is_H_i tpl h = true -> heavy_nbr (side0 iG eG tpl) h = true /\ heavy_nbr (side0 iH eH tpl) h = true.
  Proof.
    intros Hh. pose proof OK5 as H. rewrite forallb_forall in H. unfold is_H_i in Hh.
    destruct (label tpl h) as [a|] eqn:E; [|discriminate]. specialize (H (h, a) (assoc_in h (gnodes tpl) E)). simpl in H.
    rewrite Hh in H. apply andb_prop in H. exact H.
  Qed.

  (** the rule the reactor prepares in the default mode describes the pair of implicit-hydrogen forms; the matcher's
      pattern is its left side as it is *)
  Theorem default_rule :
    exists rc l r, synrule tpl true = Some (rc, l, r) /\ pattern_of l = l /\ node_ids l = node_ids rc /\
      pair_wf (h_to_implicit_host A) (h_to_implicit_host B) /\ describes (h_to_implicit_host A) (h_to_implicit_host B) rc.
  Proof.
    destruct (synrule_default_total tpl tpl_nodupb tpl_el) as (rc & l & r & Es). exists rc, l, r. split; [exact Es|].
    destruct (synrule_default_pointwise tpl rc l r tpl_nodupb tpl_el Es) as (R & RN & RH & Ri & Rl & _ & RCn & RCe & RCa & RX).
    assert (AllH : forall h, is_H_i tpl h = true -> In h R).
    { intros h Hh. apply RH. destruct (all_H_strippable h Hh). auto. }
    destruct (RX AllH) as [X1 X2].
    split; [unfold pattern_of; rewrite X1; reflexivity|]. split; [exact Rl|].
    assert (RH' : forall h, In h R <-> In h (node_ids tpl) /\ is_H_h A h = true).
    { intros h. split.
      - intros I. apply isH_tpl. exact (proj1 (proj1 (RH h) I)).
      - intros I. apply AllH. apply isH_tpl. exact I. }
    assert (RCi : forall k, In k (node_ids rc) <-> In k (node_ids tpl) /\ ~ In k R).
    { intros k. rewrite Ri, filter_In. split; intros [I K]; (split; [exact I|]).
      - apply negb_true_iff in K. intros J. apply mem_spec in J. congruence.
      - apply negb_true_iff. destruct (mem k R) eqn:E; [apply mem_spec in E; contradiction|reflexivity]. }
    assert (RCa' : forall k a0, label tpl k = Some a0 -> ~ In k R ->
      exists a, label rc k = Some a /\ a_el (iG a) = a_el (iG a0) /\ a_el (iH a) = a_el (iH a0) /\
                a_ch (iG a) = a_ch (iG a0) /\ a_ch (iH a) = a_ch (iH a0) /\
                a_hc (iG a) = sum_cnt (gedges (side0 iG eG tpl)) R k /\ a_hc (iH a) = sum_cnt (gedges (side0 iH eH tpl)) R k).
    { intros k a0 E NI. destruct (RCa k a0 E NI) as (a & Ea & S1 & S2 & C1 & C2). exists a. split; [exact Ea|].
      assert (NH : N.eqb (a_el (iG a0)) EL_H = false).
      { destruct (N.eqb (a_el (iG a0)) EL_H) eqn:Eh; [|reflexivity]. exfalso. apply NI. apply AllH. unfold is_H_i. rewrite E. exact Eh. }
      rewrite NH in C1, C2. unfold set_hc in S1, S2. inversion S1. inversion S2. repeat split; assumption. }
    pose proof (fun n x y Ex Ey => proj1 (dE12 n x y Ex Ey)) as E1.
    assert (E2 : forall n x, label A n = Some x -> 0 <= a_hc x).
    { intros n x Ex. destruct (in_ids_label B n (proj1 (pw_ids _ _ PW n) (label_some_in A n x Ex))) as [y Ey]. exact (proj2 (dE12 n x y Ex Ey)). }
    split.
    - exact (pair_folded A B PW dFA dFB).
    - exact (rule_describes_folded A B tpl rc R PW D E1 E2 dFA dFB dE3 RH' RN RCn RCi RCa' RCe).
  Qed.
End DefaultMode.

(** * the theorem for the reaction's own templates *)
Lemma default_okb_foldable A B t : pair_wf A B -> default_okb A B t = true -> foldable A /\ foldable B.
Proof.
  intros PW OK. unfold default_okb in OK.
  apply andb_prop in OK. destruct OK as [OK _]. apply andb_prop in OK. destruct OK as [OK _]. apply andb_prop in OK. destruct OK as [OK O3].
  apply andb_prop in OK. destruct OK as [_ O2].
  split; apply foldableb_sound; auto; [exact (wf_host_nodup A (pw_A _ _ PW))|exact (wf_host_nodup B (pw_B _ _ PW))].
Qed.

Section OwnTemplate.
  Variables (core invert : bool) (G H : hostg).
  Hypothesis W : pair_wfb G H = true.
  Let A := if invert then H else G.
  Let B := if invert then G else H.
  Let tpl := template core invert G H.
  Hypothesis OK : default_okb A B tpl = true.
  Hypothesis CC : core = true -> centre_carries (its_construct G H) = true.
  Let PW : pair_wf G H := proj1 (pair_wfb_sound G H W).
  Let CG : closed G := proj1 (proj2 (pair_wfb_sound G H W)).
  Let CH : closed H := proj2 (proj2 (pair_wfb_sound G H W)).

  Lemma pair_AB' : pair_wf A B.
  Proof. unfold A, B. destruct invert; [apply pair_wf_sym|]; exact PW. Qed.
  Lemma fold_GH : foldable G /\ foldable H.
  Proof. destruct (default_okb_foldable A B tpl pair_AB' OK) as [FA FB]. unfold A, B in *. destruct invert; auto. Qed.

  Lemma T0_isH u : is_H_i (its_construct G H) u = true -> is_H_h G u = true.
  Proof.
    unfold is_H_i, is_H_h. destruct (label (its_construct G H) u) as [a|] eqn:E; [|discriminate].
    destruct (T0_label G H PW u a E) as [-> I]. destruct (in_ids_label G u I) as [x Ex].
    unfold its_node, side_tuple; simpl. rewrite Ex. auto.
  Qed.
  Lemma NHH' : forall u v x, In (u, v, x) (gedges (its_construct G H)) -> is_hh (its_construct G H) u v = false.
  Proof.
    intros u v x I. unfold is_hh. destruct (is_H_i (its_construct G H) u) eqn:Eu; [|reflexivity].
    destruct (is_H_i (its_construct G H) v) eqn:Ev; [|reflexivity]. exfalso.
    apply T0_isH in Eu. apply T0_isH in Ev. destruct fold_GH as [FG FH].
    destruct (construct_edge G H u v x I) as [(o & Io & _)|(o & Io & _)].
    - destruct (proj2 (FG u Eu) v (proj1 (in_nbrs G u v o Io))) as [K _]. congruence.
    - rewrite <- (isH_AB G H PW u) in Eu. rewrite <- (isH_AB G H PW v) in Ev.
      destruct (proj2 (FH u Eu) v (proj1 (in_nbrs H u v o Io))) as [K _]. congruence.
  Qed.

  Lemma own_describes : describes A B tpl.
  Proof.
    pose proof NHH' as NHH.
    c03 (rc_describes G H) as D1. c03 (construct_describes G H) as D2. c03 (rc_edges_pos G H) as P1. c03 (T0_edges_pos G H) as P2.
    unfold A, B, tpl, template. destruct invert, core.
    - apply invert_describes; [exact (pw_A _ _ PW)|exact (pw_B _ _ PW)|exact (D1 (CC eq_refl))|exact P1].
    - apply invert_describes; [exact (pw_A _ _ PW)|exact (pw_B _ _ PW)|exact D2|exact P2].
    - exact (D1 (CC eq_refl)).
    - exact D2.
  Qed.
  Lemma closed_AB : closed A /\ closed B.
  Proof. unfold A, B. destruct invert; auto. Qed.

  (** default mode: the reactor's rule exists, the matcher's pattern is its left side, the identity is a valid match on
      the substrate and the glued ITS (before _explicit_h re-materialises the migrating hydrogens) decomposes to the
      pair of implicit-hydrogen forms of the reaction's sides *)
  Theorem default_identity_glue : mode_E G H = true ->
    exists rc l r, rule_of core invert G H = Some (rc, l, r) /\ pattern_of l = l /\
      match_rcb (substrate invert G H) rc (id_map (node_ids (pattern_of l))) = true /\
      exists T, glue (substrate invert G H) rc (id_map (node_ids (pattern_of l))) = Some T /\
                regen_exact T (substrate invert G H) (h_to_implicit_host B) = true.
  Proof.
    intros ME. destruct closed_AB as [CA CB].
    destruct (default_rule A B tpl pair_AB' own_describes OK) as (rc & l & r & Es & Ep & El & PW' & D').
    exists rc, l, r. unfold rule_of. rewrite ME. fold tpl. split; [exact Es|]. split; [exact Ep|].
    rewrite Ep, El. unfold substrate. fold A. split.
    - exact (identity_match_rc (h_to_implicit_host A) (h_to_implicit_host B) rc D').
    - destruct (identity_glue_some (h_to_implicit_host A) (h_to_implicit_host B) rc PW' D') as [T ET]. exists T. split; [exact ET|].
      exact (regen_exact_true (h_to_implicit_host A) (h_to_implicit_host B) rc PW' D' T ET).
  Qed.
End OwnTemplate.

Lemma default_identity_glue_all (core invert : bool) (G H : hostg) :
  pair_wfb G H = true -> mode_E G H = true ->
  default_okb (if invert then H else G) (if invert then G else H) (template core invert G H) = true ->
  (core = true -> centre_carries (its_construct G H) = true) ->
  exists (rc : its) (l r : molg), rule_of core invert G H = Some (rc, l, r) /\ pattern_of l = l /\
    match_rcb (substrate invert G H) rc (id_map (node_ids (pattern_of l))) = true /\
    exists T : its, glue (substrate invert G H) rc (id_map (node_ids (pattern_of l))) = Some T /\
      regen_exact T (substrate invert G H) (h_to_implicit_host (if invert then G else H)) = true.
Proof. intros W ME OK CC. exact (default_identity_glue core invert G H W OK CC ME). Qed.
