(** C10 — proofs, part 28: DFS-style annotated SMILES -> mapped SMILES -> DFS-style is the identity on token strings
    (bracket atoms with trailing map digits, any other characters in between). *)
From Coq Require Import String List NArith ZArith Bool Lia.
From SK Require Import lib.Tok lib.LGraph lib.StrJoin model.C10_Model model.C10_Text model.C10_Dfs.
Import ListNotations.
Local Open Scope N_scope.

Lemma span_stop (p : N -> bool) l c rest : forallb p l = true -> p c = false -> span p (l ++ c :: rest) = (l, c :: rest).
Proof.
  induction l as [|x t IH]; simpl; intros H Hc; [rewrite Hc; reflexivity|]. apply andb_true_iff in H. destruct H as [Hx Ht].
  rewrite Hx, (IH Ht Hc). reflexivity.
Qed.
Lemma span_all (p : N -> bool) l : forallb p l = true -> span p l = (l, []).
Proof. induction l as [|x t IH]; simpl; intros H; [reflexivity|]. apply andb_true_iff in H. destruct H as [Hx Ht]. rewrite Hx, (IH Ht). reflexivity. Qed.
Lemma span_stops (p : N -> bool) l rest : forallb p l = true -> stops p rest = true -> span p (l ++ rest) = (l, rest).
Proof.
  intros H S. destruct rest as [|c r]; [rewrite app_nil_r; apply span_all, H|]. apply span_stop; [exact H|]. simpl in S. apply negb_true_iff, S.
Qed.

Lemma dfs_skip keep l : forall rest, dfs_sub keep (List.length l) (l ++ rest) = dfs_sub keep O rest.
Proof. induction l as [|x t IH]; intros rest; [reflexivity|]. simpl. apply IH. Qed.
Lemma s2d_skip l : forall rest, s2d_sub (List.length l) (l ++ rest) = s2d_sub O rest.
Proof. induction l as [|x t IH]; intros rest; [reflexivity|]. simpl. apply IH. Qed.

Lemma inner_not_rb inner : inner_ok inner = true -> forallb not_rb inner = true.
Proof.
  unfold inner_ok. rewrite andb_true_iff, !forallb_forall. intros [_ H] x Hx. specialize (H x Hx). unfold not_rb.
  rewrite !andb_true_iff in H. tauto.
Qed.
Lemma inner_no_colon inner : inner_ok inner = true -> existsb (N.eqb c_colon) inner = false.
Proof.
  unfold inner_ok. rewrite andb_true_iff, forallb_forall. intros [_ H]. destruct (existsb _ inner) eqn:E; [|reflexivity]. exfalso.
  apply existsb_exists in E. destruct E as (x & Hx & Ex). specialize (H x Hx). rewrite !andb_true_iff in H. destruct H as [_ H].
  apply N.eqb_eq in Ex. subst x. rewrite N.eqb_refl in H. discriminate.
Qed.

(** one DFS atom through the first pattern *)
Lemma dfs_sub_atom inner ds rest :
  inner_ok inner = true -> digits_ok ds = true -> stops is_digit rest = true ->
  dfs_sub true O (c_lb :: inner ++ c_rb :: ds ++ rest) = (c_lb :: inner ++ [c_colon] ++ ds ++ [c_rb]) ++ dfs_sub true O rest.
Proof.
  intros Hi Hd Hs. pose proof (inner_not_rb inner Hi) as H1. unfold digits_ok in Hd. apply andb_true_iff in Hd. destruct Hd as [Hne Hdig].
  cbn [dfs_sub]. rewrite N.eqb_refl.
  rewrite (span_stop not_rb inner c_rb (ds ++ rest) H1 eq_refl).
  rewrite (span_stops is_digit ds rest Hdig Hs). cbn [fst]. rewrite Hne, (inner_no_colon inner Hi).
  assert (inner <> []) as Hin by (unfold inner_ok in Hi; destruct inner; [discriminate|discriminate]).
  destruct inner as [|i0 it]; [contradiction|].
  f_equal. replace ((i0 :: it) ++ c_rb :: ds ++ rest) with (((i0 :: it) ++ c_rb :: ds) ++ rest) by (rewrite <- app_assoc; reflexivity).
  replace (List.length (i0 :: it) + 1 + List.length ds)%nat with (List.length ((i0 :: it) ++ c_rb :: ds)) by (rewrite app_length; simpl; lia).
  apply dfs_skip.
Qed.

Lemma split_last_colon_atom inner ds : inner_ok inner = true -> digits_ok ds = true ->
  split_last_colon (inner ++ [c_colon] ++ ds) = Some (inner, ds).
Proof.
  intros Hi Hd. unfold split_last_colon. rewrite !rev_app_distr. simpl rev at 2. rewrite <- app_assoc. simpl app at 2.
  unfold digits_ok in Hd. apply andb_true_iff in Hd. destruct Hd as [_ Hdig].
  assert (forallb (fun c => negb (N.eqb c c_colon)) (rev ds) = true) as H.
  { apply forallb_forall. intros x Hx. apply in_rev in Hx. rewrite forallb_forall in Hdig. specialize (Hdig x Hx).
    unfold is_digit in Hdig. apply andb_true_iff in Hdig. destruct Hdig as [A B]. apply N.leb_le in A, B.
    apply negb_true_iff, N.eqb_neq. unfold c_colon. lia. }
  rewrite (span_stop _ (rev ds) c_colon (rev inner) H) by (rewrite N.eqb_refl; reflexivity). rewrite !rev_involutive. reflexivity.
Qed.

(** one mapped atom through the second pattern (inner is not the wildcard) *)
Lemma s2d_sub_atom inner ds rest :
  inner_ok inner = true -> digits_ok ds = true -> str_eqb inner [c_ast] = false ->
  s2d_sub O (c_lb :: inner ++ [c_colon] ++ ds ++ [c_rb] ++ rest) = (c_lb :: inner ++ [c_rb] ++ ds) ++ s2d_sub O rest.
Proof.
  intros Hi Hd Hst. cbn [s2d_sub]. rewrite N.eqb_refl.
  assert (forallb not_rb (inner ++ [c_colon] ++ ds) = true) as H1.
  { rewrite !forallb_app. rewrite (inner_not_rb inner Hi). simpl. unfold digits_ok in Hd. apply andb_true_iff in Hd. destruct Hd as [_ Hdig].
    apply forallb_forall. intros x Hx. rewrite forallb_forall in Hdig. specialize (Hdig x Hx). unfold is_digit in Hdig.
    apply andb_true_iff in Hdig. destruct Hdig as [A B]. apply N.leb_le in A, B. unfold not_rb. apply negb_true_iff, N.eqb_neq. unfold c_rb. lia. }
  replace (inner ++ [c_colon] ++ ds ++ [c_rb] ++ rest) with ((inner ++ [c_colon] ++ ds) ++ c_rb :: rest) by (rewrite <- !app_assoc; reflexivity).
  rewrite (span_stop not_rb _ c_rb rest H1 eq_refl). rewrite (split_last_colon_atom inner ds Hi Hd).
  pose proof Hi as Hi2. unfold inner_ok in Hi2. apply andb_true_iff in Hi2. destruct Hi2 as [Hne _].
  pose proof Hd as Hd2. unfold digits_ok in Hd2. apply andb_true_iff in Hd2. destruct Hd2 as [Hdn Hdd].
  rewrite Hne, Hdn, Hdd, Hst. cbn [andb]. f_equal.
  replace (List.length (inner ++ [c_colon] ++ ds) + 1)%nat with (List.length ((inner ++ [c_colon] ++ ds) ++ [c_rb])) by (rewrite app_length; simpl; lia).
  replace ((inner ++ [c_colon] ++ ds) ++ c_rb :: rest) with (((inner ++ [c_colon] ++ ds) ++ [c_rb]) ++ rest) by (rewrite <- app_assoc; reflexivity).
  apply s2d_skip.
Qed.

(** the wildcard atom through the second pattern *)
Lemma s2d_sub_star ds rest : digits_ok ds = true ->
  s2d_sub O (c_lb :: [c_ast] ++ [c_colon] ++ ds ++ [c_rb] ++ rest) = (c_lb :: c_rb :: ds) ++ s2d_sub O rest.
Proof.
  intros Hd. assert (inner_ok [c_ast] = true) as Hi by reflexivity. cbn [s2d_sub]. rewrite N.eqb_refl.
  assert (forallb not_rb ([c_ast] ++ [c_colon] ++ ds) = true) as H1.
  { rewrite !forallb_app. simpl. unfold digits_ok in Hd. apply andb_true_iff in Hd. destruct Hd as [_ Hdig].
    apply forallb_forall. intros x Hx. rewrite forallb_forall in Hdig. specialize (Hdig x Hx). unfold is_digit in Hdig.
    apply andb_true_iff in Hdig. destruct Hdig as [A B]. apply N.leb_le in A, B. unfold not_rb. apply negb_true_iff, N.eqb_neq. unfold c_rb. lia. }
  replace ([c_ast] ++ [c_colon] ++ ds ++ [c_rb] ++ rest) with (([c_ast] ++ [c_colon] ++ ds) ++ c_rb :: rest) by (rewrite <- !app_assoc; reflexivity).
  rewrite (span_stop not_rb _ c_rb rest H1 eq_refl). rewrite (split_last_colon_atom [c_ast] ds Hi Hd).
  pose proof Hd as Hd2. unfold digits_ok in Hd2. apply andb_true_iff in Hd2. destruct Hd2 as [Hdn Hdd].
  rewrite Hdn, Hdd. cbn [nonempty andb str_eqb]. rewrite N.eqb_refl. cbn [andb]. f_equal.
  replace (List.length ([c_ast] ++ [c_colon] ++ ds) + 1)%nat with (List.length (([c_ast] ++ [c_colon] ++ ds) ++ [c_rb])) by (rewrite app_length; simpl; lia).
  replace (([c_ast] ++ [c_colon] ++ ds) ++ c_rb :: rest) with ((([c_ast] ++ [c_colon] ++ ds) ++ [c_rb]) ++ rest) by (rewrite <- app_assoc; reflexivity).
  apply s2d_skip.
Qed.

(** the token string after dfs.replace("[]", "[*]") *)
Definition render_tok_star (t : dtok) : str := match t with TW ds => c_lb :: c_ast :: c_rb :: ds | _ => render_tok t end.
Fixpoint render_star (l : list dtok) : str := match l with [] => [] | t :: r => render_tok_star t ++ render_star r end.

Lemma repl_no_lb new l : forall rest, forallb (fun c => negb (N.eqb c c_lb)) l = true ->
  repl_aux s_empty_br new O (l ++ rest) = l ++ repl_aux s_empty_br new O rest.
Proof.
  induction l as [|c t IH]; intros rest H; [reflexivity|]. simpl in H. apply andb_true_iff in H. destruct H as [Hc Ht].
  cbn [app repl_aux starts_with s_empty_br]. apply negb_true_iff in Hc. rewrite N.eqb_sym in Hc. unfold c_lb in Hc. rewrite Hc. simpl. f_equal. apply IH, Ht.
Qed.
Lemma inner_no_lb inner : inner_ok inner = true -> forallb (fun c => negb (N.eqb c c_lb)) inner = true.
Proof.
  unfold inner_ok. rewrite andb_true_iff, !forallb_forall. intros [_ H] x Hx. specialize (H x Hx). rewrite !andb_true_iff in H. tauto.
Qed.
Lemma digits_no_lb ds : forallb is_digit ds = true -> forallb (fun c => negb (N.eqb c c_lb)) ds = true.
Proof.
  rewrite !forallb_forall. intros H x Hx. specialize (H x Hx). unfold is_digit in H. apply andb_true_iff in H. destruct H as [A B].
  apply N.leb_le in A, B. apply negb_true_iff, N.eqb_neq. unfold c_lb. lia.
Qed.

Lemma repl_lb_nomatch new x rest : N.eqb x c_rb = false ->
  repl_aux s_empty_br new O (c_lb :: x :: rest) = c_lb :: repl_aux s_empty_br new O (x :: rest).
Proof. intros H. cbn [repl_aux starts_with s_empty_br]. rewrite N.eqb_refl. unfold c_rb in H. rewrite (N.eqb_sym 93 x), H. reflexivity. Qed.
Lemma repl_lb_match new rest :
  repl_aux s_empty_br new O (c_lb :: c_rb :: rest) = new ++ repl_aux s_empty_br new O rest.
Proof. reflexivity. Qed.
Lemma repl_c new c rest : N.eqb c c_lb = false ->
  repl_aux s_empty_br new O (c :: rest) = c :: repl_aux s_empty_br new O rest.
Proof. intros H. cbn [repl_aux starts_with s_empty_br]. unfold c_lb in H. rewrite (N.eqb_sym 91 c), H. reflexivity. Qed.

Theorem replace_toks l : toks_ok l = true -> str_replace s_empty_br s_star_br (render_toks l) = render_star l.
Proof.
  unfold str_replace. induction l as [|[inner ds|ds|c] r IH]; [reflexivity| | |];
    cbn [toks_ok render_toks render_tok render_star render_tok_star].
  - rewrite !andb_true_iff. intros [[[[Hi Hd] _] _] Hr]. unfold digits_ok in Hd. apply andb_true_iff in Hd. destruct Hd as [_ Hdig].
    pose proof (inner_not_rb inner Hi) as Hrb. pose proof (inner_no_lb inner Hi) as Hlb.
    destruct inner as [|i0 it]; [discriminate|].
    assert (N.eqb i0 c_rb = false) as Hi0.
    { simpl in Hrb. apply andb_true_iff in Hrb. destruct Hrb as [H _]. unfold not_rb in H. apply negb_true_iff in H. exact H. }
    replace ((c_lb :: (i0 :: it) ++ c_rb :: ds) ++ render_toks r) with (c_lb :: i0 :: (it ++ [c_rb] ++ ds ++ render_toks r))
      by (simpl; rewrite <- app_assoc; reflexivity).
    rewrite (repl_lb_nomatch s_star_br i0 _ Hi0).
    replace (i0 :: it ++ [c_rb] ++ ds ++ render_toks r) with ((i0 :: it) ++ [c_rb] ++ ds ++ render_toks r) by reflexivity.
    rewrite (repl_no_lb s_star_br (i0 :: it) _ Hlb). rewrite (repl_no_lb s_star_br [c_rb] _ eq_refl).
    rewrite (repl_no_lb s_star_br ds _ (digits_no_lb ds Hdig)). rewrite (IH Hr). simpl. rewrite <- app_assoc. reflexivity.
  - rewrite !andb_true_iff. intros [[Hd _] Hr]. unfold digits_ok in Hd. apply andb_true_iff in Hd. destruct Hd as [_ Hdig].
    replace ((c_lb :: c_rb :: ds) ++ render_toks r) with (c_lb :: c_rb :: (ds ++ render_toks r)) by reflexivity.
    rewrite repl_lb_match. rewrite (repl_no_lb s_star_br ds _ (digits_no_lb ds Hdig)). rewrite (IH Hr). reflexivity.
  - rewrite andb_true_iff. intros [Hc Hr]. apply negb_true_iff in Hc. cbn [app]. rewrite (repl_c s_star_br c _ Hc), (IH Hr). reflexivity.
Qed.

Theorem dfs_sub_toks l : toks_ok l = true -> dfs_sub true O (render_star l) = render_mapped l.
Proof.
  induction l as [|[inner ds|ds|c] r IH]; [reflexivity| | |]; cbn [toks_ok render_star render_tok_star render_tok render_mapped render_tok_mapped].
  - rewrite !andb_true_iff. intros [[[[Hi Hd] _] Hs] Hr]. rewrite <- app_comm_cons, <- app_assoc. cbn [app].
    assert (stops is_digit (render_star r) = true) as Hs'.
    { destruct r as [|[i2 d2|d2|c2] r2]; simpl in *; auto. }
    rewrite (dfs_sub_atom inner ds (render_star r) Hi Hd Hs'), (IH Hr). reflexivity.
  - rewrite !andb_true_iff. intros [[Hd Hs] Hr].
    assert (stops is_digit (render_star r) = true) as Hs'.
    { destruct r as [|[i2 d2|d2|c2] r2]; simpl in *; auto. }
    change (c_lb :: c_ast :: c_rb :: ds) with (c_lb :: [c_ast] ++ c_rb :: ds). rewrite <- app_comm_cons, <- app_assoc. cbn [app].
    change (c_lb :: c_ast :: c_rb :: ds ++ render_star r) with (c_lb :: [c_ast] ++ c_rb :: ds ++ render_star r).
    rewrite (dfs_sub_atom [c_ast] ds (render_star r) eq_refl Hd Hs'), (IH Hr). reflexivity.
  - rewrite andb_true_iff. intros [Hc Hr]. cbn [app dfs_sub]. apply negb_true_iff in Hc. rewrite Hc, (IH Hr). reflexivity.
Qed.
Theorem s2d_sub_toks l : toks_ok l = true -> s2d_sub O (render_mapped l) = render_toks l.
Proof.
  induction l as [|[inner ds|ds|c] r IH]; [reflexivity| | |]; cbn [toks_ok render_toks render_tok render_mapped render_tok_mapped].
  - rewrite !andb_true_iff. intros [[[[Hi Hd] Hst] _] Hr]. apply negb_true_iff in Hst.
    rewrite <- app_comm_cons, <- !app_assoc.
    rewrite (s2d_sub_atom inner ds (render_mapped r) Hi Hd Hst), (IH Hr). cbn [app]. f_equal.
  - rewrite !andb_true_iff. intros [[Hd _] Hr]. rewrite <- app_comm_cons, <- !app_assoc.
    rewrite (s2d_sub_star ds (render_mapped r) Hd), (IH Hr). reflexivity.
  - rewrite andb_true_iff. intros [Hc Hr]. cbn [app s2d_sub]. apply negb_true_iff in Hc. rewrite Hc, (IH Hr). reflexivity.
Qed.

(** str.replace leaves a string without the pattern alone *)
Lemma repl_absent pat new s : nonempty pat = true -> contains pat s = false -> str_replace pat new s = s.
Proof.
  intros Hp. unfold str_replace. induction s as [|c r IH]; [reflexivity|]. cbn [contains repl_aux]. intros H.
  apply orb_false_iff in H. destruct H as [H1 H2]. rewrite H1. f_equal. apply IH, H2.
Qed.

(** DFS -> SMILES -> DFS on a token string (wildcards written "[]" as DFS style does) that does not contain "[*]" *)
Theorem dfs_roundtrip l : toks_ok l = true -> contains s_star_br (render_toks l) = false ->
  dfs_to_smiles (render_toks l) true = render_mapped l /\ smiles_to_dfs (render_mapped l) = render_toks l /\
  smiles_to_dfs (dfs_to_smiles (render_toks l) true) = render_toks l.
Proof.
  intros Hok H2.
  assert (dfs_to_smiles (render_toks l) true = render_mapped l) as A.
  { unfold dfs_to_smiles. rewrite (replace_toks l Hok). apply dfs_sub_toks, Hok. }
  assert (smiles_to_dfs (render_mapped l) = render_toks l) as B.
  { unfold smiles_to_dfs. rewrite (s2d_sub_toks l Hok). apply (repl_absent s_star_br s_empty_br _ eq_refl H2). }
  split; [exact A|split; [exact B|]]. rewrite A. exact B.
Qed.

(** non-vacuity: the docstring example, "[H]1[]3.C[O]2>>C[O]2.[H]1[]3" *)
Definition ex_dfs : list dtok :=
  [TA (s2l "H") (s2l "1"); TW (s2l "3"); TC 46; TC 67; TA (s2l "O") (s2l "2"); TC 62; TC 62; TC 67; TA (s2l "O") (s2l "2"); TC 46;
   TA (s2l "H") (s2l "1"); TW (s2l "3")].
Example dfs_roundtrip_ex :
  toks_ok ex_dfs = true /\ contains s_star_br (render_toks ex_dfs) = false /\
  render_toks ex_dfs = s2l "[H]1[]3.C[O]2>>C[O]2.[H]1[]3" /\
  dfs_to_smiles (render_toks ex_dfs) true = s2l "[H:1][*:3].C[O:2]>>C[O:2].[H:1][*:3]".
Proof. vm_compute. repeat split. Qed.
(** outside the domain: a mapped atom followed by a ring-closure digit is read as a longer map number *)
Example dfs_roundtrip_needs_stop :
  smiles_to_dfs (dfs_to_smiles (s2l "[C:1]5") true) = s2l "[C]15".
Proof. vm_compute. reflexivity. Qed.
