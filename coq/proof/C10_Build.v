(** C10 — proofs, part 5: invariants of graphs built with add_node / add_edge, the iteration order
    G.edges() ([edges_iter]) and folds of add_node / add_edge seen through [label] / [adj]. *)
From Coq Require Import String List NArith ZArith Bool Lia.
From SK Require Import lib.Tok lib.LGraph lib.StrJoin model.C10_Model proof.C10_Views.
Import ListNotations.
Local Open Scope Z_scope.

Lemma str_eqb_eq a : forall b, str_eqb a b = true <-> a = b.
Proof.
  induction a as [|x a IH]; destruct b as [|y b]; simpl; split; try congruence; try discriminate.
  - intros H. apply andb_true_iff in H as [H1 H2]. apply N.eqb_eq in H1. apply IH in H2. congruence.
  - intros [= -> ->]. rewrite N.eqb_refl. apply IH. reflexivity.
Qed.

Lemma nodupb_NoDup l : nodupb l = true -> NoDup l.
Proof.
  induction l as [|x r IH]; simpl; [constructor|]. intros H. apply andb_true_iff in H as [H1 H2].
  constructor; [|apply IH; exact H2]. intros Hin. apply mem_spec in Hin. rewrite Hin in H1. discriminate.
Qed.

Lemma fold_left_ext_in {A B} (f f' : A -> B -> A) l : forall g,
  (forall acc x, In x l -> f acc x = f' acc x) -> fold_left f l g = fold_left f' l g.
Proof.
  induction l as [|x r IH]; intros g H; simpl; [reflexivity|].
  rewrite H by (left; reflexivity). apply IH. intros acc y Hy. apply H. right. exact Hy.
Qed.
Lemma fold_left_map' {A B C} (f : A -> C -> A) (h : B -> C) l : forall g,
  fold_left f (map h l) g = fold_left (fun acc x => f acc (h x)) l g.
Proof. induction l as [|x r IH]; intros g; simpl; [reflexivity|apply IH]. Qed.
Lemma fold_pair_fst {A B X} (f1 : A -> X -> A) (f2 : B -> X -> B) l : forall st,
  fold_left (fun acc x => (f1 (fst acc) x, f2 (snd acc) x)) l st = (fold_left f1 l (fst st), fold_left f2 l (snd st)).
Proof. induction l as [|x r IH]; intros [a b]; simpl; [reflexivity|]. rewrite IH. reflexivity. Qed.

(** ** one entry per unordered pair *)
Definition is_some {A} (o : option A) : bool := match o with Some _ => true | None => false end.
Definition has_pair (u v : N) (l : list (N * N * eatt)) : bool :=
  existsb (fun e : N * N * eatt => pair_eqb (fst (fst e)) (snd (fst e)) u v) l.

Lemma has_pair_find u v es : has_pair u v es = is_some (find_edge u v es).
Proof.
  induction es as [|[[a b] x] r IH]; [reflexivity|]. simpl has_pair. rewrite find_edge_cons. simpl.
  destruct (pair_eqb a b u v); [reflexivity|exact IH].
Qed.
Lemma in_find_some es a b (x : eatt) u v : In (a, b, x) es -> pair_eqb a b u v = true -> find_edge u v es <> None.
Proof.
  induction es as [|[[a0 b0] x0] r IH]; [intros []|]. rewrite find_edge_cons. intros [E|Hin] P.
  - inversion E; subst. rewrite P. discriminate.
  - destruct (pair_eqb a0 b0 u v); [discriminate|]. apply IH; assumption.
Qed.
Lemma find_some_in es u v (x : eatt) : find_edge u v es = Some x -> exists a b, In (a, b, x) es /\ pair_eqb a b u v = true.
Proof.
  induction es as [|[[a0 b0] x0] r IH]; [discriminate|]. rewrite find_edge_cons.
  destruct (pair_eqb a0 b0 u v) eqn:P.
  - intros [= ->]. exists a0, b0. split; [left; reflexivity|exact P].
  - intros H. destruct (IH H) as (a & b & Hin & Pab). exists a, b. split; [right; exact Hin|exact Pab].
Qed.
Lemma find_edge_pair es a b u v : pair_eqb a b u v = true -> @find_edge eatt a b es = find_edge u v es.
Proof. intros P. apply pair_eqb_spec in P. destruct P as [[-> ->]|[-> ->]]; [reflexivity|apply find_edge_sym]. Qed.

Lemma uniq_find es a b (x : eatt) u v :
  uniq_pairs es = true -> In (a, b, x) es -> pair_eqb a b u v = true -> find_edge u v es = Some x.
Proof.
  induction es as [|[[a0 b0] x0] r IH]; [intros _ []|]. simpl uniq_pairs. rewrite find_edge_cons.
  destruct (find_edge a0 b0 r) eqn:F; [discriminate|]. intros U [E|Hin] P.
  - inversion E; subst. rewrite P. reflexivity.
  - destruct (pair_eqb a0 b0 u v) eqn:P0; [|apply IH; assumption].
    exfalso. apply (in_find_some r a b x a0 b0 Hin); [|exact F].
    rewrite (pair_eqb_trans _ _ _ _ a0 b0 P). rewrite pair_eqb_sym. exact P0.
Qed.

Lemma uniq_upd u v f es : uniq_pairs (upd_edge u v f es) = uniq_pairs es.
Proof.
  induction es as [|[[a b] x] r IH]; [reflexivity|]. simpl upd_edge. fold (pair_eqb a b u v).
  destruct (pair_eqb a b u v); simpl; [reflexivity|].
  rewrite find_edge_upd, IH. destruct (pair_eqb u v a b); [|reflexivity]. destruct (find_edge a b r); reflexivity.
Qed.
Lemma uniq_snoc es u v (a : eatt) : uniq_pairs es = true -> find_edge u v es = None -> uniq_pairs (es ++ [(u, v, a)]) = true.
Proof.
  induction es as [|[[a0 b0] x0] r IH]; [reflexivity|]. simpl uniq_pairs. rewrite find_edge_cons.
  destruct (find_edge a0 b0 r) eqn:F; [discriminate|]. destruct (pair_eqb a0 b0 u v) eqn:P; [discriminate|].
  intros U Fuv. rewrite find_edge_app, F. simpl. fold (pair_eqb u v a0 b0). rewrite pair_eqb_sym, P. apply IH; assumption.
Qed.
Lemma in_upd_edge u v f es a b (x : eatt) : In (a, b, x) (upd_edge u v f es) -> exists x', In (a, b, x') es.
Proof.
  induction es as [|[[a0 b0] x0] r IH]; [intros []|]. simpl upd_edge. destruct (_ || _).
  - intros [E|H]; [inversion E; subst; exists x0; left; reflexivity|exists x; right; exact H].
  - intros [E|H]; [exists x; left; exact E|]. destruct (IH H) as [x' Hx']. exists x'. right. exact Hx'.
Qed.

(** ** graphs built with the primitives *)
Definition closed (g : gr) : Prop :=
  forall a b x, In (a, b, x) (gedges g) -> has_node g a = true /\ has_node g b = true.
Record gwf (g : gr) : Prop := { gwf_nd : NoDup (node_ids g); gwf_uq : uniq_pairs (gedges g) = true; gwf_cl : closed g }.

Lemma gwf_empty : gwf g_empty.
Proof. split; [constructor|reflexivity|intros a b x []]. Qed.

Lemma NoDup_snoc {A} (l : list A) n : NoDup l -> ~ In n l -> NoDup (l ++ [n]).
Proof.
  induction 1 as [|x r Hx Hr IH]; simpl; intros Hn; [constructor; [intros []|constructor]|].
  constructor; [|apply IH; tauto]. rewrite in_app_iff. simpl. intros [H|[H|[]]]; [tauto|]. apply Hn. left. congruence.
Qed.

Lemma gwf_add_node g n a : gwf g -> gwf (add_node g n a).
Proof.
  intros [Hnd Huq Hcl]. split.
  - rewrite node_ids_add_node. destruct (has_node g n) eqn:E; [exact Hnd|].
    apply NoDup_snoc; [exact Hnd|]. intros Hin. apply has_node_in in Hin. congruence.
  - rewrite gedges_add_node. exact Huq.
  - intros u v x. rewrite gedges_add_node. intros H. destruct (Hcl _ _ _ H) as [H1 H2].
    rewrite !has_node_add_node, H1, H2, !orb_true_r. auto.
Qed.

Lemma gwf_set_node g n f : gwf g -> gwf (set_node g n f).
Proof.
  intros [Hnd Huq Hcl]. split; [rewrite node_ids_set_node; exact Hnd|exact Huq|].
  intros a b x H. rewrite !has_node_set_node. apply (Hcl a b x H).
Qed.

Lemma gwf_add_edge g u v a : gwf g -> gwf (add_edge g u v a).
Proof.
  intros W. assert (gwf (ends_exist g u v)) as [Hnd Huq Hcl] by (unfold ends_exist; auto using gwf_add_node).
  assert (has_node (ends_exist g u v) u = true /\ has_node (ends_exist g u v) v = true) as [Hu Hv].
  { unfold ends_exist. rewrite !has_node_add_node, !N.eqb_refl, !orb_true_r. auto. }
  rewrite add_edge_unfold. cbv zeta. unfold has_edge, adj.
  destruct (find_edge u v (gedges (ends_exist g u v))) eqn:F; split; simpl; try exact Hnd.
  - rewrite uniq_upd. exact Huq.
  - intros x y e0 H. apply in_upd_edge in H. destruct H as [e' H]. apply (Hcl x y e' H).
  - apply uniq_snoc; assumption.
  - intros x y e0 H. apply in_app_iff in H. destruct H as [H|[E|[]]]; [apply (Hcl x y e0 H)|].
    inversion E; subst. unfold has_node, label in *. simpl. auto.
Qed.

(** ** G.edges() *)
Lemma in_inc_unseen seen n es a b (x : eatt) :
  In (a, b, x) (inc_unseen seen n es) -> a = n /\ (In (n, b, x) es \/ In (b, n, x) es).
Proof.
  unfold inc_unseen. rewrite in_flat_map. intros ([[a0 b0] x0] & Hin & H).
  destruct (N.eqb_spec a0 n) as [->|].
  - destruct (mem b0 seen); [destruct H|]. destruct H as [E|[]]. inversion E; subst. auto.
  - destruct (N.eqb_spec b0 n) as [->|]; [|destruct H]. destruct (mem a0 seen); [destruct H|].
    destruct H as [E|[]]. inversion E; subst. auto.
Qed.
Lemma in_edges_from rest : forall seen es a b (x : eatt),
  In (a, b, x) (edges_from seen rest es) -> In (a, b, x) es \/ In (b, a, x) es.
Proof.
  induction rest as [|n r IH]; intros seen es a b x; simpl; [intros []|]. rewrite in_app_iff. intros [H|H].
  - apply in_inc_unseen in H. destruct H as [-> H]. exact H.
  - apply (IH _ _ _ _ _ H).
Qed.
Lemma edges_from_complete rest : forall seen es a b (x : eatt),
  In (a, b, x) es -> In a rest -> In b rest -> ~ In a seen -> ~ In b seen ->
  In (a, b, x) (edges_from seen rest es) \/ In (b, a, x) (edges_from seen rest es).
Proof.
  induction rest as [|n r IH]; intros seen es a b x Hin Ha Hb Hsa Hsb; [destruct Ha|].
  simpl. rewrite !in_app_iff.
  destruct (N.eq_dec n a) as [->|Hna].
  - left. left. unfold inc_unseen. apply in_flat_map. exists (a, b, x). split; [exact Hin|].
    rewrite N.eqb_refl. destruct (mem b seen) eqn:M; [apply mem_spec in M; contradiction|left; reflexivity].
  - destruct (N.eq_dec n b) as [->|Hnb].
    + right. left. unfold inc_unseen. apply in_flat_map. exists (a, b, x). split; [exact Hin|].
      destruct (N.eqb_spec a b); [congruence|]. rewrite N.eqb_refl.
      destruct (mem a seen) eqn:M; [apply mem_spec in M; contradiction|left; reflexivity].
    + destruct Ha as [Ha|Ha]; [congruence|]. destruct Hb as [Hb|Hb]; [congruence|].
      assert (~ In a (n :: seen)) as Hsa' by (intros [E|E]; [congruence|contradiction]).
      assert (~ In b (n :: seen)) as Hsb' by (intros [E|E]; [congruence|contradiction]).
      destruct (IH (n :: seen) es a b x Hin Ha Hb Hsa' Hsb') as [H|H]; tauto.
Qed.

Lemma edges_iter_data (g : gr) a b x : gwf g -> In (a, b, x) (edges_iter g) -> adj g a b = Some x.
Proof.
  intros W H. apply in_edges_from in H. destruct H as [H|H].
  - apply (uniq_find _ a b x a b (gwf_uq g W) H). apply pair_eqb_refl.
  - apply (uniq_find _ b a x a b (gwf_uq g W) H). rewrite pair_eqb_swap. apply pair_eqb_refl.
Qed.
Lemma has_pair_edges_iter (g : gr) u v : gwf g -> has_pair u v (edges_iter g) = is_some (adj g u v).
Proof.
  intros W. apply eq_true_iff_eq. rewrite has_pair_find. split.
  - destruct (find_edge u v (edges_iter g)) as [x|] eqn:F; [intros _|discriminate].
    apply find_some_in in F. destruct F as (a & b & Hin & P). apply (edges_iter_data g a b x W) in Hin.
    unfold adj in *. rewrite <- (find_edge_pair _ a b u v P), Hin. reflexivity.
  - unfold adj. destruct (find_edge u v (gedges g)) as [x|] eqn:F; [intros _|discriminate].
    apply find_some_in in F. destruct F as (a & b & Hin & P).
    destruct (gwf_cl g W a b x Hin) as [Ha Hb]. apply has_node_in in Ha, Hb.
    destruct (edges_from_complete (node_ids g) [] (gedges g) a b x Hin Ha Hb) as [H|H]; try (intros []).
    + pose proof (in_find_some _ a b x u v H P). unfold edges_iter. destruct (find_edge u v _); [reflexivity|congruence].
    + assert (pair_eqb b a u v = true) as P' by (rewrite pair_eqb_sym, pair_eqb_swap, pair_eqb_sym; exact P).
      pose proof (in_find_some _ b a x u v H P'). unfold edges_iter. destruct (find_edge u v _); [reflexivity|congruence].
Qed.
Lemma edges_iter_nil (g : gr) : gedges g = [] -> edges_iter g = [].
Proof.
  unfold edges_iter. intros ->. generalize (@nil N). induction (node_ids g) as [|n r IH]; intros seen; [reflexivity|].
  simpl. apply IH.
Qed.

(** ** folding add_node over a list with distinct keys *)
Section FoldNodes.
Variable F : N * natt -> natt.
Definition nstep (acc : gr) (p : N * natt) : gr := add_node acc (fst p) (F p).
Lemma fold_nstep_label l : forall g n, NoDup (map fst l) ->
  label (fold_left nstep l g) n =
  match assoc n l with
  | Some a => Some (match label g n with Some old => na_update (F (n, a)) old | None => F (n, a) end)
  | None => label g n
  end.
Proof.
  induction l as [|[k a0] r IH]; intros g n Hnd; [reflexivity|]. inversion Hnd as [|? ? Hnot Hnd']; subst.
  simpl fold_left. rewrite IH by exact Hnd'.
  assert (label (nstep g (k, a0)) n =
          if N.eqb n k then Some (match label g k with Some old => na_update (F (k, a0)) old | None => F (k, a0) end)
          else label g n) as E by (unfold nstep; simpl; apply label_add_node).
  rewrite E. simpl assoc. destruct (N.eqb_spec n k) as [->|Hne].
  - apply assoc_none_iff in Hnot. rewrite Hnot. reflexivity.
  - reflexivity.
Qed.
Lemma fold_nstep_gedges l : forall g, gedges (fold_left nstep l g) = gedges g.
Proof. induction l as [|p r IH]; intros g; simpl; [reflexivity|]. rewrite IH. apply gedges_add_node. Qed.
Lemma fold_nstep_gwf l : forall g, gwf g -> gwf (fold_left nstep l g).
Proof. induction l as [|p r IH]; intros g W; simpl; [exact W|]. apply IH. apply gwf_add_node. exact W. Qed.
End FoldNodes.

(** ** folding add_edge where the data written for a pair is a (symmetric) function of the pair *)
Section FoldEdges.
Variable dopt : N -> N -> option eatt.
Hypothesis dsym : forall u v, dopt u v = dopt v u.
Definition estep (acc : gr) (e : N * N) : gr :=
  match dopt (fst e) (snd e) with Some y => add_edge acc (fst e) (snd e) y | None => acc end.
Definition pmatch (u v : N) (eo : list (N * N)) : bool := existsb (fun e : N * N => pair_eqb (fst e) (snd e) u v) eo.

Lemma dopt_pair a b u v : pair_eqb a b u v = true -> dopt a b = dopt u v.
Proof. intros P. apply pair_eqb_spec in P. destruct P as [[-> ->]|[-> ->]]; [reflexivity|apply dsym]. Qed.
Lemma adj_pair (g : gr) a b u v : pair_eqb a b u v = true -> adj g a b = adj g u v.
Proof. apply find_edge_pair. Qed.

Lemma fold_estep_adj eo : forall g u v, (adj g u v = None \/ adj g u v = dopt u v) ->
  adj (fold_left estep eo g) u v = if pmatch u v eo then dopt u v else adj g u v.
Proof.
  induction eo as [|[a b] r IH]; intros g u v Hinv; [reflexivity|]. simpl fold_left. simpl pmatch.
  unfold estep at 2. simpl fst. simpl snd.
  destruct (pair_eqb a b u v) eqn:P; simpl.
  - rewrite (dopt_pair _ _ _ _ P).
    assert (adj (match dopt u v with Some y => add_edge g a b y | None => g end) u v = dopt u v) as E.
    { destruct (dopt u v) as [y|] eqn:D.
      - rewrite adj_add_edge, P, (adj_pair g _ _ _ _ P).
        destruct Hinv as [H|H]; rewrite H; rewrite ?D; rewrite ?ea_update_idem; reflexivity.
      - destruct Hinv as [H|H]; congruence. }
    rewrite IH by (right; exact E). destruct (pmatch u v r); [reflexivity|exact E].
  - destruct (dopt a b) as [y|]; [|apply IH; exact Hinv].
    rewrite IH; rewrite adj_add_edge, P; [reflexivity|exact Hinv].
Qed.

Lemma fold_estep_label_some eo : forall g m b, label g m = Some b -> label (fold_left estep eo g) m = Some b.
Proof.
  induction eo as [|[u v] r IH]; intros g m b H; [exact H|]. simpl. apply IH. unfold estep. simpl.
  destruct (dopt u v); [|exact H]. rewrite label_add_edge, H. destruct (_ || _); reflexivity.
Qed.
Lemma fold_estep_has_node eo : forall g m, has_node (fold_left estep eo g) m = true ->
  has_node g m = true \/ exists e, In e eo /\ (m = fst e \/ m = snd e).
Proof.
  induction eo as [|[u v] r IH]; intros g m H; [left; exact H|]. simpl in H. apply IH in H.
  destruct H as [H|(e & He & Hm)]; [|right; exists e; split; [right; exact He|exact Hm]].
  unfold estep in H. simpl in H. destruct (dopt u v); [|left; exact H].
  rewrite has_node_add_edge in H. apply orb_true_iff in H. destruct H as [H|H]; [|left; exact H].
  right. exists (u, v). split; [left; reflexivity|]. simpl. apply orb_true_iff in H. rewrite !N.eqb_eq in H. exact H.
Qed.
Lemma fold_estep_gwf eo : forall g, gwf g -> gwf (fold_left estep eo g).
Proof.
  induction eo as [|e r IH]; intros g W; [exact W|]. simpl. apply IH. unfold estep.
  destruct (dopt _ _); [apply gwf_add_edge|]; exact W.
Qed.
Lemma fold_estep_node_ids eo : forall g, (forall e, In e eo -> has_node g (fst e) = true /\ has_node g (snd e) = true) ->
  gnodes (fold_left estep eo g) = gnodes g.
Proof.
  induction eo as [|e r IH]; intros g H; [reflexivity|]. simpl.
  assert (gnodes (estep g e) = gnodes g) as E.
  { unfold estep. destruct (dopt _ _); [|reflexivity]. apply gnodes_add_edge_exist; apply (H e); left; reflexivity. }
  rewrite IH; [exact E|]. intros e' He'. unfold has_node, label. rewrite E. apply (H e'). right. exact He'.
Qed.
End FoldEdges.
