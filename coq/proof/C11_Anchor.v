(** C11 — the anchor components: Automorphism.anchor_component is a component of maximal size (the first one);
    AutoEst.anchor_component is a component of maximal size and, among those, of smallest minimal node id. *)
From Coq Require Import List NArith ZArith Bool Arith Lia.
From SK Require Import lib.LGraph lib.Mono lib.Reach model.C11_Model.
Import ListNotations.

Lemma first_max_len_spec l : forall best,
  In (first_max_len best l) (best :: l) /\ forall c, In c (best :: l) -> (length c <= length (first_max_len best l))%nat.
Proof.
  induction l as [|x r IH]; intros best; simpl.
  - split; [left; reflexivity | intros c [<-|[]]; lia].
  - destruct (Nat.ltb_spec (length best) (length x)) as [H|H].
    + destruct (IH x) as [H1 H2]. split.
      * destruct H1 as [E|H1]; [right; left; exact E | right; right; exact H1].
      * intros c [<-|[<-|Hc]].
        -- specialize (H2 x (or_introl eq_refl)). lia.
        -- apply H2. left. reflexivity.
        -- apply H2. right. exact Hc.
    + destruct (IH best) as [H1 H2]. split.
      * destruct H1 as [E|H1]; [left; exact E | right; right; exact H1].
      * intros c [<-|[<-|Hc]].
        -- apply H2. left. reflexivity.
        -- specialize (H2 best (or_introl eq_refl)). lia.
        -- apply H2. right. exact Hc.
Qed.

Lemma choose_anchor_spec comps A : choose_anchor comps = Some A ->
  In A comps /\ forall c, In c comps -> (length c <= length A)%nat.
Proof.
  unfold choose_anchor. destruct comps as [|c [|d r]]; try discriminate.
  intros [= <-]. exact (first_max_len_spec (d :: r) c).
Qed.

Lemma better_spec a b : better a b = true <->
  ((length b < length a)%nat \/ (length a = length b /\ (minN a < minN b)%N)).
Proof.
  unfold better. destruct (Nat.ltb_spec (length b) (length a)) as [H|H]; [split; auto|].
  destruct (Nat.eqb_spec (length a) (length b)) as [E|E].
  - rewrite N.ltb_lt. split; [auto | intros [?|[_ ?]]; [lia | assumption]].
  - split; [discriminate | intros [?|[? _]]; lia].
Qed.

(** c is not strictly before A in sorted(key = (-len, min)) *)
Definition not_before (c A : list N) : Prop :=
  (length c < length A)%nat \/ (length c = length A /\ (minN A <= minN c)%N).

Lemma not_before_iff c A : not_before c A <-> better c A = false.
Proof. unfold not_before. rewrite <- not_true_iff_false, better_spec. lia. Qed.

Lemma fold_better_spec l : forall best,
  let R := fold_left (fun b x => if better x b then x else b) l best in
  In R (best :: l) /\ forall c, In c (best :: l) -> not_before c R.
Proof.
  induction l as [|x r IH]; intros best; simpl.
  - split; [left; reflexivity | intros c [<-|[]]; unfold not_before; lia].
  - destruct (better x best) eqn:B.
    + destruct (IH x) as [H1 H2]. split.
      * destruct H1 as [E|H1]; [right; left; exact E | right; right; exact H1].
      * intros c [<-|[<-|Hc]].
        -- pose proof (H2 x (or_introl eq_refl)) as Hx. apply better_spec in B. unfold not_before in *. lia.
        -- apply H2. left. reflexivity.
        -- apply H2. right. exact Hc.
    + destruct (IH best) as [H1 H2]. split.
      * destruct H1 as [E|H1]; [left; exact E | right; right; exact H1].
      * intros c [<-|[<-|Hc]].
        -- apply H2. left. reflexivity.
        -- pose proof (H2 best (or_introl eq_refl)) as Hb. apply not_before_iff in B. unfold not_before in *. lia.
        -- apply H2. right. exact Hc.
Qed.

Lemma anchors_all (fn : nlab -> N) (fe : elab -> N) (g : graph) :
  (forall A, a_anchor (analyze fn fe g) = Some A ->
     In A (components g) /\ forall c, In c (components g) -> (length c <= length A)%nat) /\
  (components g <> [] ->
     In (wl_anchor g) (components g) /\ forall c, In c (components g) -> not_before c (wl_anchor g)).
Proof.
  split.
  - intros A H. unfold analyze in H. destruct (node_ids g); [discriminate|].
    destruct (length (components g) <=? 1)%nat.
    + destruct (analyze_component fn fe g). discriminate.
    + simpl in H. apply choose_anchor_spec. exact H.
  - intros Hne. unfold wl_anchor. destruct (components g) as [|c r]; [congruence|]. apply fold_better_spec.
Qed.

Example ex_anchor :
  wl_anchor (LG [(5, (0, 0, 0)); (6, (0, 0, 0)); (1, (0, 0, 0)); (2, (0, 0, 0)); (9, (0, 0, 0))]%N
                [(5, 6, (0, 0)); (1, 2, (0, 0))]%N) = [2; 1]%N /\
  a_anchor (analyze n_exact e_order (LG [(5, (0, 0, 0)); (6, (0, 0, 0)); (1, (0, 0, 0)); (2, (0, 0, 0)); (9, (0, 0, 0))]%N
                [(5, 6, (0, 0)); (1, 2, (0, 0))]%N)) = Some [6; 5]%N.
Proof. split; vm_compute; reflexivity. Qed.
