(** C11 (round 5) — orbit.py (model/C11_Orbit.v): what OrbitAccuracy reports when the approximate partition is the WL-1
    estimate and the exact partition the exact analysis of the same connected graph.  Because the estimate never
    separates a true orbit (C11_wl_never_splits): the class accepts the two lists; every exact orbit lies wholly inside
    one estimated class (a confusion entry is 0 or the size of the exact orbit); two nodes with the same exact index
    have the same approximate index (the only pairwise errors are merges); if the estimate merges nothing that the
    truth separates, the pairwise accuracy is 1.  Stdlib lists. *)
From Coq Require Import List NArith ZArith Bool Arith Lia.
From SK Require Import lib.Tok lib.LGraph lib.Mono lib.Reach model.C11_Model model.C11_Orbit
     proof.C11_Aut proof.C11_WL proof.C11_Main proof.C11_WLPart.
Import ListNotations.

(** ---------- the shared-evaluation observable is the composed one ---------- *)
Lemma analyze_comps fn fe (g : graph) : a_comps (analyze fn fe g) = components g.
Proof.
  unfold analyze. destruct (node_ids g); [reflexivity|].
  destruct (length (components g) <=? 1)%nat; [|reflexivity].
  destruct (analyze_component fn fe g). reflexivity.
Qed.

Lemma run_aut_all_eq (g : graph) :
  run_aut_all g = L [ run_aut g; tbool (wfb g); tlist t_maps (aut_lists g); run_aut_oa g ].
Proof. unfold run_aut_all, run_aut, aut_lists, run_aut_oa. cbv zeta. rewrite analyze_comps. reflexivity. Qed.

(** ---------- _build_mappings: the index of the last member containing the node ---------- *)
Lemma host_index_none h os : forall i f, host_index h os i f = None -> f = None /\ forall o, In o os -> ~ In h o.
Proof.
  induction os as [|o r IH]; simpl; intros i f H; [split; [exact H | intros ? []]|].
  apply IH in H. destruct H as [Hf Hr]. destruct (LGraph.mem h o) eqn:E; [discriminate|].
  split; [exact Hf|]. intros o' [<-|Ho']; [|exact (Hr o' Ho')].
  intros Hin. apply LGraph.mem_spec in Hin. congruence.
Qed.

Lemma host_index_some h os : forall i f j, host_index h os i f = Some j ->
  f = Some j \/ ((i <= j)%N /\ (N.to_nat (j - i) < length os)%nat /\ In h (nth (N.to_nat (j - i)) os [])).
Proof.
  induction os as [|o r IH]; simpl; intros i f j H; [left; exact H|].
  apply IH in H. destruct H as [H|(H1 & H2 & H3)].
  - destruct (LGraph.mem h o) eqn:E; [|left; exact H]. inversion H; subst j. right.
    replace (N.to_nat (i - i)) with 0%nat by lia. split; [lia | split; [lia|]]. apply LGraph.mem_spec. exact E.
  - right. replace (N.to_nat (j - i)) with (S (N.to_nat (j - N.succ i))) by lia. split; [lia | split; [lia | exact H3]].
Qed.

Lemma host_index_ext h h' os : (forall o, In o os -> LGraph.mem h o = LGraph.mem h' o) ->
  forall i f, host_index h os i f = host_index h' os i f.
Proof.
  induction os as [|o r IH]; simpl; intros H i f; [reflexivity|].
  rewrite (H o (or_introl eq_refl)). apply IH. intros o' Ho'. apply H. right. exact Ho'.
Qed.

Lemma node_to_member P u j : node_to P u = Some j -> In (nth (N.to_nat j) P []) P /\ In u (nth (N.to_nat j) P []).
Proof.
  unfold node_to. intros H. apply host_index_some in H. destruct H as [H|(H1 & H2 & H3)]; [discriminate|].
  rewrite N.sub_0_r in H2, H3. split; [apply nth_In; exact H2 | exact H3].
Qed.

Lemma node_to_covered P u : (exists o, In o P /\ In u o) -> exists j, node_to P u = Some j.
Proof.
  intros (o & Ho & Hu). destruct (node_to P u) as [j|] eqn:E; [exists j; reflexivity|].
  unfold node_to in E. apply host_index_none in E. destruct E as [_ E]. exfalso. exact (E o Ho Hu).
Qed.

(** ---------- generic list facts ---------- *)
Lemma filter_ssorted (f : N -> bool) l : ssorted l -> ssorted (filter f l).
Proof.
  induction l as [|x r IH]; simpl; [tauto|]. intros [Hx Hr]. destruct (f x); simpl; [|exact (IH Hr)].
  split; [|exact (IH Hr)]. intros y Hy. apply filter_In in Hy. apply Hx. tauto.
Qed.

Lemma filter_all {X} (f : X -> bool) l : (forall x, In x l -> f x = true) -> filter f l = l.
Proof.
  induction l as [|x r IH]; simpl; intros H; [reflexivity|].
  rewrite (H x (or_introl eq_refl)). f_equal. apply IH. intros y Hy. apply H. right. exact Hy.
Qed.

Lemma pairs_count_all (f : N -> N -> bool) l :
  (forall x y, In x l -> In y l -> f x y = true) -> pairs_count f l = pairs_count (fun _ _ => true) l.
Proof.
  induction l as [|x r IH]; simpl; intros H; [reflexivity|].
  rewrite (filter_all (f x) r), (filter_all (fun _ => true) r), IH; [reflexivity | | |].
  - intros a b Ha Hb. apply H; right; assumption.
  - reflexivity.
  - intros y Hy. apply H; [left; reflexivity | right; exact Hy].
Qed.

(** ---------- the abstract situation: E exact for a relation R, A closed under R, same cover ---------- *)
Section Coarser.
Variable R : N -> N -> Prop.
Variable ns : list N.
Variables A E : partition.
Hypothesis R_sym : forall u v, R u v -> R v u.
Hypothesis E_exact : forall e u v, In e E -> In u e -> (In v e <-> R u v).
Hypothesis A_closed : forall a u v, In a A -> In u a -> R u v -> In v a.
Hypothesis A_cover : forall u, In u ns <-> exists a, In a A /\ In u a.
Hypothesis E_cover : forall u, In u ns <-> exists e, In e E /\ In u e.

Lemma all_nodes_in P u : In u (all_nodes P) <-> exists o, In o P /\ In u o.
Proof.
  unfold all_nodes. rewrite canonN_in, in_concat. split; intros (o & H1 & H2); exists o; tauto.
Qed.

Lemma coarser_valid : oa_valid A E = true.
Proof.
  unfold oa_valid. apply leqb_eq. apply ssorted_ext; try apply canonN_ssorted.
  intros y. change (In y (all_nodes A) <-> In y (all_nodes E)). rewrite !all_nodes_in, <- A_cover, <- E_cover. tauto.
Qed.

Lemma coarser_confusion a e : In a A -> In e E ->
  inter_size a e = 0%N \/ inter_size a e = N.of_nat (length (canonN e)).
Proof.
  intros Ha He. unfold inter_size.
  destruct (filter (fun x => LGraph.mem x e) (canonN a)) as [|x r] eqn:F; [left; reflexivity|]. right.
  assert (Hx : In x (filter (fun x => LGraph.mem x e) (canonN a))) by (rewrite F; left; reflexivity).
  apply filter_In in Hx. destruct Hx as [Hxa Hxe]. apply (proj1 (canonN_in a x)) in Hxa. apply (proj1 (LGraph.mem_spec x e)) in Hxe.
  rewrite <- F. f_equal. f_equal.
  apply ssorted_ext; [apply filter_ssorted, canonN_ssorted | apply canonN_ssorted|].
  intros y. rewrite filter_In, !canonN_in, LGraph.mem_spec. split; [tauto|].
  intros Hy. split; [|exact Hy]. apply (A_closed a x y Ha Hxa). apply (E_exact e x y He Hxe). exact Hy.
Qed.

Lemma coarser_same u v : In u ns -> same_in E u v = true -> same_in A u v = true.
Proof.
  intros Hu H. unfold same_in in *. apply oeqb_eq in H.
  destruct (node_to_covered E u (proj1 (E_cover u) Hu)) as (j & Ej). rewrite Ej in H. symmetry in H.
  destruct (node_to_member E u j Ej) as [He Hue]. destruct (node_to_member E v j H) as [_ Hve].
  assert (Ruv : R u v) by (apply (E_exact _ u v He Hue); exact Hve).
  apply oeqb_eq. unfold node_to. apply host_index_ext. intros a Ha.
  destruct (LGraph.mem u a) eqn:Mu; destruct (LGraph.mem v a) eqn:Mv; try reflexivity; exfalso.
  - apply LGraph.mem_spec in Mu. pose proof (A_closed a u v Ha Mu Ruv) as Hv. apply LGraph.mem_spec in Hv. congruence.
  - apply LGraph.mem_spec in Mv. pose proof (A_closed a v u Ha Mv (R_sym u v Ruv)) as Hu'. apply LGraph.mem_spec in Hu'. congruence.
Qed.

Lemma coarser_perfect :
  (forall u v, In u ns -> In v ns -> same_in A u v = true -> same_in E u v = true) ->
  fst (oa_pairwise A E) = snd (oa_pairwise A E).
Proof.
  intros H. unfold oa_pairwise. destruct (length (all_nodes A) <? 2)%nat; [reflexivity|]. simpl.
  apply pairs_count_all. intros x y Hx Hy.
  assert (Hxn : In x ns) by (apply A_cover, all_nodes_in; exact Hx).
  assert (Hyn : In y ns) by (apply A_cover, all_nodes_in; exact Hy).
  destruct (same_in A x y) eqn:SA.
  - rewrite (H x y Hxn Hyn SA). reflexivity.
  - destruct (same_in E x y) eqn:SE; [|reflexivity]. rewrite (coarser_same x y Hxn SE) in SA. discriminate.
Qed.
End Coarser.

(** ---------- the estimate against the exact analysis of one connected graph ---------- *)
Theorem orbit_accuracy_wl (fn : nlab -> N) (fe : elab -> N) (g : graph) (k : nat) :
  wf g -> (length (components g) <= 1)%nat ->
  let A := wl_orbits (wl fn fe g k) in
  let E := a_orbits (analyze fn fe g) in
  oa_valid A E = true /\
  (forall a e, In a A -> In e E -> inter_size a e = 0%N \/ inter_size a e = N.of_nat (length (canonN e))) /\
  (forall u v, In u (node_ids g) -> same_in E u v = true -> same_in A u v = true) /\
  ((forall u v, In u (node_ids g) -> In v (node_ids g) -> same_in A u v = true -> same_in E u v = true) ->
   fst (oa_pairwise A E) = snd (oa_pairwise A E)).
Proof.
  intros Hwf Hc A E.
  pose proof (wf_simple g Hwf) as Hs.
  destruct (orbits_exact_all fn fe g Hs) as (Hex & _). specialize (Hex Hc).
  destruct Hex as (E1 & E2 & _ & _ & E5).
  destruct (wl_orbits_partition fn fe g k (proj1 Hwf)) as (A1 & A2 & _ & _).
  assert (R_sym : forall u v, same_orbit fn fe g u v -> same_orbit fn fe g v u) by (apply same_orbit_sym; exact Hs).
  assert (A_closed : forall a u v, In a A -> In u a -> same_orbit fn fe g u v -> In v a).
  { intros a u v. apply wl_orbits_never_split. exact Hwf. }
  assert (A_cover : forall u, In u (node_ids g) <-> exists a, In a A /\ In u a).
  { intros u. split; [apply A1 | intros (a & Ha & Hu); exact (A2 a u Ha Hu)]. }
  assert (E_cover : forall u, In u (node_ids g) <-> exists e, In e E /\ In u e).
  { intros u. split; [apply E1 | intros (e & He & Hu); exact (E2 e u He Hu)]. }
  split; [|split; [|split]].
  - exact (coarser_valid (node_ids g) A E A_cover E_cover).
  - exact (coarser_confusion (same_orbit fn fe g) A E E5 A_closed).
  - exact (coarser_same (same_orbit fn fe g) (node_ids g) A E R_sym E5 A_closed E_cover).
  - exact (coarser_perfect (same_orbit fn fe g) (node_ids g) A E R_sym E5 A_closed A_cover E_cover).
Qed.

(** ---------- non-vacuity ---------- *)
(** the path C-C-C: estimate = truth = {2}, {1,3}: accepted, confusion diagonal, all metrics 1; then a strictly coarser
    approximation and two lists over different node sets *)
Definition ex_p3 : graph :=
  LG [(1%N, (0%N, 0%N, 0%N)); (2%N, (0%N, 0%N, 0%N)); (3%N, (0%N, 0%N, 0%N))]
     [(1%N, 2%N, (0%N, 0%N)); (2%N, 3%N, (0%N, 0%N))].
Example ex_orbit_accuracy :
  wfb ex_p3 = true /\ (length (components ex_p3) <= 1)%nat /\
  run_orbit_accuracy (wl_orbits (wl n_exact e_order ex_p3 10)) (a_orbits (analyze n_exact e_order ex_p3)) =
    L [ I 0%Z; L [I 3%Z; I 3%Z]; L [ L [ L [I 0%Z; I 1%Z] ]; L [ L [I 1%Z; I 2%Z] ] ]; L [I 3%Z; I 3%Z]; L [I 3%Z; I 3%Z] ] /\
  (* a strictly coarser approximation: one class for everything - purity 2/3, one of three pairs right *)
  run_orbit_accuracy [[1; 2; 3]%N] [[2]; [1; 3]]%N =
    L [ I 0%Z; L [I 0%Z; I 3%Z]; L [ L [ L [I 0%Z; I 1%Z]; L [I 1%Z; I 2%Z] ] ]; L [I 2%Z; I 3%Z]; L [I 1%Z; I 3%Z] ] /\
  (* different node sets: ValueError *)
  run_orbit_accuracy [[1; 2]%N] [[1]; [3]]%N = L [ I 1%Z ].
Proof. vm_compute. repeat split; lia. Qed.
