(** C03 — the hydrogen bookkeeping of _strip_explicit_h on one side graph (left or right): after any sequence of
    strip steps, a heavy atom's hcount has grown by exactly the number of bonds that joined it to the stripped
    hydrogens, nothing else about the kept atoms changed, and the bonds are those avoiding the stripped atoms.
    Stdlib lists only. *)
From Coq Require Import List NArith ZArith Bool Lia.
From SK Require Import lib.Tok lib.LGraph model.C03_Model proof.C03_Proof proof.C03_Glue proof.C03_Backward proof.C03_Skeleton.
Import ListNotations.
Local Open Scope Z_scope.

Definition occ (x : N) (l : list N) : Z := Z.of_nat (length (filter (N.eqb x) l)).

Record mskel (g0 g : molg) (R : list N) : Prop := {
  ms_nodes : Forall2 (mrel (sum_cnt (gedges g0) R)) (gnodes g) (filter (mkeepn R) (gnodes g0));
  ms_edges : gedges g = filter (mkeepe R) (gedges g0) }.

(** * list lemmas *)
Lemma Forall2_map_self {A} (R : A -> A -> Prop) (f : A -> A) l : (forall q, In q l -> R (f q) q) -> Forall2 R (map f l) l.
Proof. induction l as [|x r IH]; simpl; intros H; constructor; auto. Qed.
Lemma Forall2_self {A} (R : A -> A -> Prop) l : (forall q, R q q) -> Forall2 R l l.
Proof. intros H. induction l; constructor; auto. Qed.
Lemma Forall2_impl_in {A B} (R R' : A -> B -> Prop) l1 l2 :
  Forall2 R l1 l2 -> (forall p q, In q l2 -> R p q -> R' p q) -> Forall2 R' l1 l2.
Proof. induction 1 as [|p q l1 l2 Hpq _ IH]; intros H; constructor; [apply H; simpl; auto|apply IH; intros; apply H; simpl; auto]. Qed.
Lemma Forall2_comp {A} (R1 R0 R : A -> A -> Prop) l2 l1 l0 :
  (forall p q r, R1 p q -> R0 q r -> R p r) -> Forall2 R1 l2 l1 -> Forall2 R0 l1 l0 -> Forall2 R l2 l0.
Proof.
  intros Hc H. revert l0. induction H as [|p q l2 l1 Hpq _ IH]; intros l0 H0; inversion H0; subst; constructor; eauto.
Qed.
Lemma Forall2_ids {A B} (R : N * A -> N * B -> Prop) l1 l2 :
  (forall p q, R p q -> fst p = fst q) -> Forall2 R l1 l2 -> map fst l1 = map fst l2.
Proof. intros H. induction 1 as [|p q l1 l2 Hpq _ IH]; simpl; [reflexivity|]. rewrite (H p q Hpq), IH. reflexivity. Qed.
Lemma NoDup_map_filter {A} (c : N * A -> bool) l : NoDup (map fst l) -> NoDup (map fst (filter c l)).
Proof.
  induction l as [|x r IH]; simpl; intros H; [constructor|]. inversion H as [|? ? N1 N2]; subst.
  destruct (c x); simpl; [constructor|]; auto.
  intros I. apply N1. apply in_map_iff in I. destruct I as (y & E & I). apply filter_In in I. apply in_map_iff. exists y. tauto.
Qed.

Lemma occ_cons x y l : occ x (y :: l) = (if N.eqb x y then 1 else 0) + occ x l.
Proof. unfold occ. simpl. destruct (N.eqb x y); simpl length; lia. Qed.

Lemma mrel_comp d1 d0 p q r : mrel d1 p q -> mrel d0 q r -> mrel (fun k => d1 k + d0 k) p r.
Proof.
  unfold mrel, is_Hm. intros (A1 & A2 & A3 & A4 & A5) (B1 & B2 & B3 & B4 & B5).
  repeat split; try congruence. rewrite A5, B5, B1, B2. destruct (N.eqb (m_el (snd r)) EL_H); lia.
Qed.
Lemma mrel_ext d d' p q : d (fst q) = d' (fst q) -> mrel d p q -> mrel d' p q.
Proof. unfold mrel. intros E (A1 & A2 & A3 & A4 & A5). rewrite <- E. repeat split; assumption. Qed.
Lemma mrel_refl0 q : mrel (fun _ => 0) q q.
Proof. unfold mrel. repeat split. destruct (is_Hm (snd q)); symmetry; apply Z.add_0_r. Qed.

(** * neighbours and edge counts *)
Lemma occ_nbrs (g : molg) h x : x <> h -> occ x (nbrs g h) = cnt (gedges g) h x.
Proof.
  intros Hne. unfold occ, cnt, nbrs. f_equal. induction (gedges g) as [|[[a b] o] r IH]; [reflexivity|].
  cbn [flat_map filter fst snd]. rewrite filter_app, app_length, IH. clear IH.
  assert (E : length (filter (N.eqb x) (if N.eqb a h then [b] else if N.eqb b h then [a] else [])) = if peq a b h x then 1%nat else 0%nat).
  { unfold peq. destruct (N.eqb_spec a h) as [->|Na].
    - cbn [filter andb orb]. destruct (N.eqb_spec x b) as [->|Nb].
      + rewrite N.eqb_refl. reflexivity.
      + destruct (N.eqb_spec b x); [congruence|]. destruct (N.eqb_spec h x); [congruence|]. reflexivity.
    - destruct (N.eqb_spec b h) as [->|Nb].
      + cbn [filter andb orb]. destruct (N.eqb_spec x a) as [->|Nx].
        * rewrite N.eqb_refl. reflexivity.
        * destruct (N.eqb_spec a x); [congruence|]. reflexivity.
      + cbn [filter andb orb]. rewrite andb_false_r. reflexivity. }
  rewrite E. destruct (peq a b h x); reflexivity.
Qed.

Lemma cnt_filter_keep es R h x : ~ In h R -> ~ In x R -> cnt (filter (mkeepe R) es) h x = cnt es h x.
Proof.
  intros Hh Hx. unfold cnt. f_equal. f_equal. induction es as [|[[a b] o] r IH]; [reflexivity|].
  cbn [filter fst snd]. unfold mkeepe at 1. cbn [fst snd].
  destruct (peq a b h x) eqn:Ep.
  - assert (mem a R = false /\ mem b R = false) as [Ea Eb].
    { unfold peq in Ep. apply orb_prop in Ep. destruct Ep as [Ep|Ep]; apply andb_prop in Ep; destruct Ep as [E1 E2];
        apply N.eqb_eq in E1; apply N.eqb_eq in E2; subst; split;
        match goal with |- mem ?z R = false => destruct (mem z R) eqn:Em; [apply mem_spec in Em; contradiction|reflexivity] end. }
    rewrite Ea, Eb. cbn [negb andb filter fst snd]. rewrite Ep. cbn [length]. rewrite IH. reflexivity.
  - destruct (negb (mem a R) && negb (mem b R)); cbn [filter fst snd]; rewrite ?Ep; exact IH.
Qed.

(** * the inner fold: bump every non-hydrogen neighbour *)
Definition bstep (pid : option N) (g' : molg) (x : N) : molg := if is_H_m g' x then g' else upd_node g' x (bump_m pid).

Lemma bstep_rel pid (g : molg) x : NoDup (node_ids g) ->
  gedges (bstep pid g x) = gedges g /\ node_ids (bstep pid g x) = node_ids g /\
  Forall2 (mrel (fun k => if N.eqb k x then 1 else 0)) (gnodes (bstep pid g x)) (gnodes g).
Proof.
  intros Hnd. unfold bstep. destruct (is_H_m g x) eqn:EH.
  - split; [reflexivity|]. split; [reflexivity|].
    apply Forall2_impl_in with (R := fun p q => p = q); [apply Forall2_self; reflexivity|].
    intros p [k a] I ->. unfold mrel. cbn [fst snd]. repeat split.
    destruct (is_Hm a) eqn:Ea; [lia|]. destruct (N.eqb_spec k x) as [->|]; [|lia].
    unfold is_H_m, label in EH. rewrite (assoc_nodup_in x (gnodes g) a Hnd I) in EH. unfold is_Hm in Ea. congruence.
  - split; [reflexivity|]. split; [apply ids_upd|].
    unfold upd_node; cbn [gnodes]. apply Forall2_map_self. intros [k a] I. cbn [fst snd].
    destruct (N.eqb_spec k x) as [->|Nk]; unfold mrel; cbn [fst snd bump_m m_el m_aro m_ch m_hc].
    + rewrite N.eqb_refl. repeat split.
      unfold is_H_m, label in EH. rewrite (assoc_nodup_in x (gnodes g) a Hnd I) in EH. unfold is_Hm. rewrite EH. lia.
    + repeat split. destruct (N.eqb_spec k x); [congruence|]. destruct (is_Hm a); lia.
Qed.

Lemma bump_fold_rel pid ns : forall g : molg, NoDup (node_ids g) ->
  gedges (fold_left (bstep pid) ns g) = gedges g /\ node_ids (fold_left (bstep pid) ns g) = node_ids g /\
  Forall2 (mrel (fun k => occ k ns)) (gnodes (fold_left (bstep pid) ns g)) (gnodes g).
Proof.
  induction ns as [|x r IH]; intros g Hnd.
  - simpl. split; [reflexivity|]. split; [reflexivity|]. apply Forall2_self. intros q. apply mrel_refl0.
  - cbn [fold_left]. destruct (bstep_rel pid g x Hnd) as (E1 & E2 & E3).
    assert (Hnd1 : NoDup (node_ids (bstep pid g x))) by (rewrite E2; exact Hnd).
    destruct (IH _ Hnd1) as (F1 & F2 & F3). split; [congruence|]. split; [congruence|].
    apply (Forall2_comp _ _ _ _ _ _ (fun p q r0 A B => mrel_ext _ (fun k => occ k (x :: r)) p r0 (eq_sym (eq_trans (occ_cons _ _ _) (Z.add_comm _ _))) (mrel_comp _ _ p q r0 A B)) F3 E3).
Qed.

(** * one strip step *)
Lemma remove_node_nodup {A B} (g : lgraph A B) h : NoDup (node_ids g) -> NoDup (node_ids (remove_node g h)).
Proof. unfold node_ids, remove_node; cbn [gnodes]. apply NoDup_map_filter. Qed.

Lemma strip_m_nodup g h pid : NoDup (node_ids g) -> NoDup (node_ids (strip_m g h pid)).
Proof.
  intros Hnd. unfold strip_m. destruct (has_node g h); [|exact Hnd]. apply remove_node_nodup.
  change (fold_left _ (nbrs g h) g) with (fold_left (bstep pid) (nbrs g h) g).
  rewrite (proj1 (proj2 (bump_fold_rel pid (nbrs g h) g Hnd))). exact Hnd.
Qed.

Lemma mskel_ids g0 g R : mskel g0 g R -> node_ids g = map fst (filter (mkeepn R) (gnodes g0)).
Proof. intros [S1 _]. unfold node_ids. apply (Forall2_ids _ _ _ (fun p q (H : mrel _ p q) => proj1 H) S1). Qed.

Lemma mskel_strip g0 g R h pid : NoDup (node_ids g) -> mskel g0 g R ->
  exists R', mskel g0 (strip_m g h pid) R' /\ (R' = R \/ R' = h :: R).
Proof.
  intros Hnd S. unfold strip_m. destruct (has_node g h) eqn:Eh; [|exists R; auto].
  exists (h :: R). split; [|auto].
  change (fold_left _ (nbrs g h) g) with (fold_left (bstep pid) (nbrs g h) g).
  destruct (bump_fold_rel pid (nbrs g h) g Hnd) as (F1 & F2 & F3). pose proof S as [S1 S2].
  (* h is a current node, hence not yet removed *)
  assert (HhR : ~ In h R).
  { apply has_node_label in Eh. destruct Eh as [a Ha]. unfold label in Ha. apply assoc_in in Ha.
    assert (I : In h (node_ids g)) by (unfold node_ids; change h with (fst (h, a)); apply in_map; exact Ha).
    rewrite (mskel_ids g0 g R S) in I. apply in_map_iff in I. destruct I as ([k b] & E & I). cbn [fst] in E. subst k.
    apply filter_In in I. destruct I as [_ I]. unfold mkeepn in I. cbn [fst] in I. apply negb_true_iff in I.
    intros C. apply mem_spec in C. congruence. }
  constructor.
  - unfold remove_node; cbn [gnodes].
    replace (filter (mkeepn (h :: R)) (gnodes g0))
      with (filter (fun p : N * mnode => negb (N.eqb (fst p) h)) (filter (mkeepn R) (gnodes g0))).
    2:{ rewrite filter_filter. apply filter_ext_all. intros p. unfold mkeepn. simpl. destruct (N.eqb (fst p) h), (mem (fst p) R); reflexivity. }
    assert (C : Forall2 (mrel (fun k => occ k (nbrs g h) + sum_cnt (gedges g0) R k)) (gnodes (fold_left (bstep pid) (nbrs g h) g))
                        (filter (mkeepn R) (gnodes g0))).
    { exact (Forall2_comp _ _ _ _ _ _ (fun p q r A B => mrel_comp _ _ p q r A B) F3 S1). }
    apply Forall2_impl_in with (R := mrel (fun k => occ k (nbrs g h) + sum_cnt (gedges g0) R k)).
    + apply Forall2_filter; [intros p q Hpq; rewrite (proj1 Hpq); reflexivity|exact C].
    + intros p q Iq Hpq. apply filter_In in Iq. destruct Iq as [Iq Nh]. apply filter_In in Iq. destruct Iq as [_ NR].
      apply negb_true_iff in Nh. apply N.eqb_neq in Nh. unfold mkeepn in NR. apply negb_true_iff in NR.
      assert (NR' : ~ In (fst q) R) by (intros C'; apply mem_spec in C'; congruence).
      apply (mrel_ext (fun k => occ k (nbrs g h) + sum_cnt (gedges g0) R k)); [|exact Hpq].
      cbn [sum_cnt fold_right]. fold (sum_cnt (gedges g0) R (fst q)).
      rewrite (occ_nbrs g h (fst q) Nh), S2, (cnt_filter_keep (gedges g0) R h (fst q) HhR NR'). reflexivity.
  - unfold remove_node; cbn [gedges]. rewrite F1, S2, filter_filter. apply filter_ext_all. intros [[a b] o]. unfold mkeepe. simpl.
    destruct (N.eqb a h), (N.eqb b h), (mem a R), (mem b R); reflexivity.
Qed.

(** * invariants carried through the folds *)
Definition mgood (g0 g : molg) : Prop := NoDup (node_ids g) /\ exists R, mskel g0 g R.

Lemma mgood_strip g0 g h pid : mgood g0 g -> mgood g0 (strip_m g h pid).
Proof.
  unfold mgood. intros [Hnd [R S]]. split; [apply strip_m_nodup; exact Hnd|].
  destruct (mskel_strip g0 g R h pid Hnd S) as (R' & S' & _). exists R'. exact S'.
Qed.

Definition tl_ (t : triple) : molg := snd (fst t).
Definition tr_ (t : triple) : molg := snd t.

Lemma shared_fold_good gl gr hs : forall (t : triple) pid, mgood gl (tl_ t) -> mgood gr (tr_ t) ->
  mgood gl (tl_ (fst (fold_left (fun (st : triple * N) h =>
         let '(rc, l, r, pid) := st in
         (strip_i rc h (Some pid), strip_m l h (Some pid), strip_m r h (Some pid), N.succ pid)) hs (t, pid)))) /\
  mgood gr (tr_ (fst (fold_left (fun (st : triple * N) h =>
         let '(rc, l, r, pid) := st in
         (strip_i rc h (Some pid), strip_m l h (Some pid), strip_m r h (Some pid), N.succ pid)) hs (t, pid)))).
Proof.
  induction hs as [|h r IH]; intros t pid Gl Gr; [cbn [fold_left fst]; auto|].
  cbn [fold_left]. destruct t as [[rc l] rr]. unfold tl_, tr_ in Gl, Gr. cbn [fst snd] in Gl, Gr.
  apply (IH (strip_i rc h (Some pid), strip_m l h (Some pid), strip_m rr h (Some pid)) (N.succ pid)).
  - unfold tl_. cbn [fst snd]. apply mgood_strip; auto.
  - unfold tr_. cbn [fst snd]. apply mgood_strip; auto.
Qed.

Lemma step3_rc_sides hs : forall (t t' : triple),
  fold_left (fun (st : option triple) h =>
      match st with
      | None => None
      | Some (rc, l, r) => match fully_removable l r h with
                           | Some true => Some (strip_i rc h None, l, r) | Some false => st | None => None end
      end) hs (Some t) = Some t' -> tl_ t' = tl_ t /\ tr_ t' = tr_ t.
Proof.
  induction hs as [|h r IH]; intros t t' H; [simpl in H; inversion H; auto|].
  cbn [fold_left] in H. destruct t as [[rc l] rr]. destruct (fully_removable l rr h) as [[|]|].
  - destruct (IH _ _ H) as [A B]. rewrite A, B. auto.
  - destruct (IH _ _ H) as [A B]. rewrite A, B. auto.
  - exfalso. clear - H. induction r as [|x r IH]; simpl in H; [discriminate|auto].
Qed.

Lemma step3_l_good gl hs : forall (t t' : triple),
  mgood gl (tl_ t) ->
  fold_left (fun (st : option triple) h =>
      match st with
      | None => None
      | Some (rc, l, r) => match fully_removable l r h with
                           | Some true => Some (rc, strip_m l h None, r) | Some false => st | None => None end
      end) hs (Some t) = Some t' -> mgood gl (tl_ t') /\ tr_ t' = tr_ t.
Proof.
  induction hs as [|h r IH]; intros t t' G H; [simpl in H; inversion H; subst; auto|].
  cbn [fold_left] in H. destruct t as [[rc l] rr]. unfold tl_ in G. cbn [fst snd] in G.
  destruct (fully_removable l rr h) as [[|]|].
  - apply (IH (rc, strip_m l h None, rr) t'); [|exact H]. unfold tl_. cbn [fst snd]. apply mgood_strip; auto.
  - apply (IH (rc, l, rr) t'); [exact G|exact H].
  - exfalso. clear - H. induction r as [|x r IH]; simpl in H; [discriminate|auto].
Qed.

Lemma step3_r_good gr hs : forall (t t' : triple),
  mgood gr (tr_ t) ->
  fold_left (fun (st : option triple) h =>
      match st with
      | None => None
      | Some (rc, l, r) => match fully_removable l r h with
                           | Some true => Some (rc, l, strip_m r h None) | Some false => st | None => None end
      end) hs (Some t) = Some t' -> mgood gr (tr_ t') /\ tl_ t' = tl_ t.
Proof.
  induction hs as [|h r IH]; intros t t' G H; [simpl in H; inversion H; subst; auto|].
  cbn [fold_left] in H. destruct t as [[rc l] rr]. unfold tr_ in G. cbn [fst snd] in G.
  destruct (fully_removable l rr h) as [[|]|].
  - apply (IH (rc, l, strip_m rr h None) t'); [|exact H]. unfold tr_. cbn [fst snd]. apply mgood_strip; auto.
  - apply (IH (rc, l, rr) t'); [exact G|exact H].
  - exfalso. clear - H. induction r as [|x r IH]; simpl in H; [discriminate|auto].
Qed.

Lemma mgood_init (g : molg) : NoDup (node_ids g) -> mgood g g.
Proof.
  intros Hnd. split; [exact Hnd|]. exists []. constructor.
  - rewrite (filter_ext_all (mkeepn []) (fun _ => true)) by reflexivity.
    replace (filter (fun _ : N * mnode => true) (gnodes g)) with (gnodes g)
      by (induction (gnodes g) as [|x r IH]; simpl; [reflexivity|rewrite <- IH; reflexivity]).
    apply Forall2_self. intros q. apply mrel_refl0.
  - rewrite (filter_ext_all (mkeepe []) (fun _ => true)) by reflexivity.
    induction (gedges g) as [|x r IH]; simpl; [reflexivity|rewrite <- IH; reflexivity].
Qed.

(** * both sides of the prepared rule *)
Theorem strip_sides (rc0 : its) (l0 r0 : molg) rc l r :
  NoDup (node_ids l0) -> NoDup (node_ids r0) -> strip_explicit_h rc0 l0 r0 = Some (rc, l, r) ->
  mgood (init_m l0) l /\ mgood (init_m r0) r.
Proof.
  intros Hl Hr H. unfold strip_explicit_h in H. cbn [fst snd] in H.
  assert (Hl' : NoDup (node_ids (init_m l0))) by (unfold node_ids, init_m, map_nodes; cbn [gnodes]; rewrite map_map; exact Hl).
  assert (Hr' : NoDup (node_ids (init_m r0))) by (unfold node_ids, init_m, map_nodes; cbn [gnodes]; rewrite map_map; exact Hr).
  destruct (shared_h (init_m l0) (init_m r0)) as [hs|] eqn:Eh; [|discriminate].
  unfold strip_shared in H.
  destruct (shared_fold_good (init_m l0) (init_m r0) (sort_N hs) (init_i rc0, init_m l0, init_m r0) 1%N
              (mgood_init _ Hl') (mgood_init _ Hr')) as [G2l G2r].
  match type of H with context [step3_rc ?x] => set (t2 := x) in * end.
  destruct (step3_rc t2) as [t3|] eqn:E3; [|discriminate].
  destruct (step3_l t3) as [t4|] eqn:E4; [|discriminate].
  destruct (step3_rc_sides _ _ _ E3) as [A3 B3].
  unfold step3_l in E4. rewrite <- A3 in G2l. rewrite <- B3 in G2r.
  destruct (step3_l_good (init_m l0) _ t3 t4 G2l E4) as [G4l B4]. rewrite <- B4 in G2r.
  unfold step3_r in H.
  destruct (step3_r_good (init_m r0) _ t4 (rc, l, r) G2r H) as [G5r A5].
  unfold tl_, tr_ in *. cbn [fst snd] in *. rewrite A5. split; assumption.
Qed.

(** * refresh_types copies the sides' hydrogen counts into the rule *)
Lemma refresh_types_counts rc l r rc' : refresh_types rc l r = Some rc' ->
  forall k a, In (k, a) (gnodes rc') ->
  exists la ra, label l k = Some la /\ label r k = Some ra /\ a_hc (iG a) = m_hc la /\ a_hc (iH a) = m_hc ra.
Proof.
  unfold refresh_types.
  match goal with |- context [fold_right ?f _ _] => set (F := f) end.
  destruct (fold_right F (Some []) (gnodes rc)) as [ns|] eqn:E; [|discriminate]. intros H. inversion H; subst. cbn [gnodes].
  clear H. revert ns E. induction (gnodes rc) as [|[k0 a0] r0 IH]; intros ns E k a I.
  - simpl in E. inversion E; subst. destruct I.
  - cbn [fold_right] in E. destruct (fold_right F (Some []) r0) as [ns0|]; [|unfold F in E; discriminate].
    unfold F at 1 in E. cbn [fst snd] in E.
    destruct (label l k0) as [la|] eqn:El; [|discriminate]. destruct (label r k0) as [ra|] eqn:Er; [|discriminate].
    inversion E; subst. destruct I as [I|I].
    + inversion I; subst. exists la, ra. repeat split; assumption.
    + exact (IH ns0 eq_refl k a I).
Qed.

(** * the theorem: hydrogen counts of the rule prepared in the default mode *)
Theorem synrule_default_counts (tpl rc : its) (l r : molg) :
  nodupb (node_ids tpl) = true -> synrule tpl true = Some (rc, l, r) ->
  exists Rl Rr : list N,
    (Forall2 (mrel (sum_cnt (gedges (fst (its_decompose (standardize_hydrogen tpl)))) Rl)) (gnodes l)
             (filter (mkeepn Rl) (gnodes (init_m (fst (its_decompose (standardize_hydrogen tpl)))))) /\
     gedges l = filter (mkeepe Rl) (gedges (fst (its_decompose (standardize_hydrogen tpl))))) /\
    (Forall2 (mrel (sum_cnt (gedges (snd (its_decompose (standardize_hydrogen tpl)))) Rr)) (gnodes r)
             (filter (mkeepn Rr) (gnodes (init_m (snd (its_decompose (standardize_hydrogen tpl)))))) /\
     gedges r = filter (mkeepe Rr) (gedges (snd (its_decompose (standardize_hydrogen tpl))))) /\
    (forall k a, In (k, a) (gnodes rc) ->
       exists la ra, label l k = Some la /\ label r k = Some ra /\ a_hc (iG a) = m_hc la /\ a_hc (iH a) = m_hc ra).
Proof.
  intros Hnd H. apply nodupb_NoDup in Hnd. unfold synrule in H. cbn [negb] in H.
  set (rc0 := standardize_hydrogen tpl) in *. unfold its_decompose in *. cbn [fst snd].
  set (l0 := dec_side iG eG rc0) in *. set (r0 := dec_side iH eH rc0) in *.
  destruct (strip_explicit_h rc0 l0 r0) as [[[rc1 l1] r1]|] eqn:Es; [|discriminate].
  destruct (refresh_types rc1 l1 r1) as [rc'|] eqn:Er; [|discriminate]. inversion H; subst rc' l1 r1. clear H.
  assert (Hl : NoDup (node_ids l0)).
  { unfold node_ids, l0, dec_side, rc0, standardize_hydrogen, map_nodes; cbn [gnodes]. rewrite !map_map. exact Hnd. }
  assert (Hr : NoDup (node_ids r0)).
  { unfold node_ids, r0, dec_side, rc0, standardize_hydrogen, map_nodes; cbn [gnodes]. rewrite !map_map. exact Hnd. }
  destruct (strip_sides rc0 l0 r0 rc1 l r Hl Hr Es) as [[_ [Rl [L1 L2]]] [_ [Rr [R1 R2]]]].
  exists Rl, Rr. split; [split; [exact L1|exact L2]|]. split; [split; [exact R1|exact R2]|].
  exact (refresh_types_counts rc1 l r rc Er).
Qed.
