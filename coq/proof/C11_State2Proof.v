(** C11 (round 5) — AutoEst's cached orbit index (model/C11_State2.v).  Stdlib lists. *)
From Coq Require Import List NArith ZArith Bool.
From SK Require Import lib.LGraph model.C11_Model model.C11_Order model.C11_State2.
Import ListNotations.

Theorem est_index_state (fn : nlab -> N) (fe : elab -> N) (k : nat) :
  (* before the first fit: RuntimeError, whatever the graph *)
  (forall g, fst (s_orbit_index (s_new g)) = None) /\
  (* after a fit: the index of the colouring of the CURRENT graph, whatever was cached before *)
  (forall o, fst (s_orbit_index (s_fit fn fe k o)) = Some (build_index (wl fn fe (s_graph o) k))) /\
  (* reading twice gives the same answer and leaves the object unchanged the second time *)
  (forall o, let '(i, o') := s_orbit_index o in s_orbit_index o' = (i, o')) /\
  (* an in-place edit without a new fit does not change the answer (stale by design) *)
  (forall o g', fst (s_orbit_index (s_edit g' o)) = fst (s_orbit_index o)) /\
  (* the whole history: stale = the previous fresh answer (None at the start), fresh = the index for the current value *)
  (forall gs o prev, fst (s_orbit_index o) = prev ->
     index_history fn fe k o gs =
     (fix go (p : option index_t) (l : list graph) :=
        match l with
        | [] => []
        | g :: r => let f := Some (build_index (wl fn fe g k)) in (p, f, f) :: go f r
        end) prev gs).
Proof.
  split; [reflexivity|]. split; [reflexivity|]. split.
  - intros [g [cs|] [i|]]; reflexivity.
  - split; [intros [g [cs|] [i|]] g'; reflexivity|].
    induction gs as [|g r IH]; intros o prev Hprev; [reflexivity|].
    cbn [index_history].
    assert (E1 : fst (s_orbit_index (s_edit g o)) = prev) by (destruct o as [g0 [cs|] [i|]]; exact Hprev).
    destruct (s_orbit_index (s_edit g o)) as [stale o1] eqn:Eo1. simpl in E1. subst stale.
    assert (Hg1 : s_graph o1 = g).
    { destruct o as [g0 [cs|] [i|]]; unfold s_orbit_index, s_edit in Eo1; simpl in Eo1; inversion Eo1; reflexivity. }
    unfold s_fit. rewrite Hg1. cbn [s_orbit_index s_cols s_index s_graph].
    f_equal. apply IH. reflexivity.
Qed.

Example ex_index_history :
  let g1 := LG [(1, (0, 0, 0)); (2, (0, 0, 0)); (3, (0, 0, 0))]%N [(1, 2, (0, 0)); (2, 3, (0, 0))]%N in
  let g2 := LG [(1, (1, 1, 1)); (2, (0, 0, 0)); (3, (0, 0, 0))]%N [(1, 2, (0, 0)); (2, 3, (0, 0))]%N in
  index_history n_exact e_order 10 (s_new g1) [g1; g2] =
  [ (None, Some [(1, Some 1); (2, Some 0); (3, Some 1)], Some [(1, Some 1); (2, Some 0); (3, Some 1)]);
    (Some [(1, Some 1); (2, Some 0); (3, Some 1)], Some [(1, Some 0); (2, Some 1); (3, Some 2)],
     Some [(1, Some 0); (2, Some 1); (3, Some 2)]) ]%N.
Proof. vm_compute. reflexivity. Qed.
