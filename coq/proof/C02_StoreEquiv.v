(** C02 (round 5) — get_rc on ITS graphs of any label shape (pairs of store=True, absent labels): idempotent and equivariant.
    Both follow from the theorems about [get_rc_x] on the flattened graph (proof/C02_OptsEquiv.v) plus "labels are copied
    unchanged" (rcS_labels): [flat] forgets only the product side of a pair, and the selected labels of a centre atom are
    determined by the ITS atom's labels up to the typesGH fallback, which [flat] keeps. *)
From Coq Require Import List NArith ZArith Bool Lia.
From SK Require Import lib.LGraph lib.C01_GraphLemmas model.C01_Model model.C01_Opts model.C02_Model model.C02_Store
                       proof.C02_Proof proof.C02_Opts proof.C02_OptsEquiv proof.C02_Store proof.C02_StoreCtx.
(* [extract_k_S] is the definition of model/C02_Store.v (proof/C02_Proof.v has a lemma of that name) *)
From SK Require Import lib.Reach model.C02_Store.
Import ListNotations.
Local Open Scope Z_scope.

Lemma pick_idem {T} b (o : option T) : pick b (pick b o) = pick b o.
Proof. destruct b; reflexivity. Qed.

(** two nodes with the same non-typesGH fields and the same flattening are equal *)
Lemma snode_eq (b c : snode) :
  n_el b = n_el c -> n_ch b = n_ch c -> n_amap b = n_amap c -> n_arom b = n_arom c -> n_hc b = n_hc c -> n_nb b = n_nb c ->
  flat b = flat c -> b = c.
Proof.
  destruct b, c. simpl. intros -> -> -> -> -> -> F. unfold flat in F. simpl in F. inversion F. reflexivity.
Qed.

Lemma label_flat (g : sits) n : label (gmapn flat g) n = option_map flat (label g n).
Proof. apply label_gmapn. Qed.

(** * idempotence *)
Theorem rcS_idem K d m (g : sits) : k_el K = true -> k_gh K = true -> wf g ->
  geq (get_rc_S K d m (get_rc_S K d m g)) (get_rc_S K d m g).
Proof.
  intros Kel Kgh W. set (C := get_rc_S K d m g). set (C2 := get_rc_S K d m C).
  pose proof (rcS_wf K d m g W) as WC.
  assert (geq (gmapn flat C2) (gmapn flat C)) as [GL GA].
  { unfold C2. rewrite rcS_flat. unfold C. rewrite rcS_flat. apply rcx_idem; auto. apply wf_gmapn. exact W. }
  split.
  - intros n. specialize (GL n). rewrite !label_flat in GL.
    destruct (label C2 n) as [b2|] eqn:L2; destruct (label C n) as [b1|] eqn:L1; simpl in GL; try discriminate; [|reflexivity].
    f_equal. assert (flat b2 = flat b1) as GF by congruence. clear GL.
    destruct (rcS_labels K d m C (proj1 WC) n b2 L2) as (b1' & L1' & E1 & E2 & E3 & E4 & E5 & E6 & _).
    rewrite L1 in L1'. injection L1' as <-.
    destruct (rcS_labels K d m g (proj1 W) n b1 L1) as (a & La & F1 & F2 & F3 & F4 & F5 & F6 & _).
    apply snode_eq; [rewrite E1, F1|rewrite E2, F2|rewrite E3, F3|rewrite E4, F4|rewrite E5, F5|rewrite E6, F6|exact GF];
      apply pick_idem.
  - intros u v. exact (GA u v).
Qed.

(** * equivariance *)
Section EquivS.
Variable f : N -> N.
Hypothesis Hinj : forall a b, f a = f b -> a = b.

Lemma gmapn_relabel {A A' B} (h : A -> A') (g : lgraph A B) : gmapn h (relabel f g) = relabel f (gmapn h g).
Proof. unfold gmapn, relabel. simpl. rewrite !map_map. reflexivity. Qed.

Lemma map_flat_eq (l1 l2 : list (N * snode)) :
  map (fun p => (fst p, flat (snd p))) l1 = map (fun p => (fst p, flat (snd p))) l2 ->
  (forall n b c, In (n, b) l1 -> In (n, c) l2 -> flat b = flat c -> b = c) -> l1 = l2.
Proof.
  revert l2. induction l1 as [|[n b] r IH]; intros [|[n' c] r'] E H; simpl in E; try discriminate; [reflexivity|].
  assert (n = n' /\ flat b = flat c /\ map (fun p => (fst p, flat (snd p))) r = map (fun p => (fst p, flat (snd p))) r') as (En & Ef & Er)
    by (repeat split; congruence).
  subst n'. rewrite (H n b c (or_introl eq_refl) (or_introl eq_refl) Ef). f_equal.
  apply IH; [exact Er|]. intros k x y Ix Iy. apply (H k x y); right; assumption.
Qed.

Theorem rcS_equivariant K d m (g : sits) : wf g ->
  get_rc_S K d m (relabel f g) = relabel f (get_rc_S K d m g).
Proof.
  intros W. pose proof (wf_relabel Hinj W) as Wr.
  assert (gmapn flat (get_rc_S K d m (relabel f g)) = gmapn flat (relabel f (get_rc_S K d m g))) as E.
  { rewrite rcS_flat, !gmapn_relabel, rcS_flat. apply rcx_equivariant. exact Hinj. }
  destruct (get_rc_S K d m (relabel f g)) as [ns1 es1] eqn:E1. destruct (relabel f (get_rc_S K d m g)) as [ns2 es2] eqn:E2.
  unfold gmapn in E. cbn [gnodes gedges] in E.
  assert (map (fun p : N * snode => (fst p, flat (snd p))) ns1 = map (fun p : N * snode => (fst p, flat (snd p))) ns2 /\ es1 = es2) as [En Ee]
    by (split; congruence).
  subst es2. f_equal. apply map_flat_eq; [exact En|].
  intros n' b c Ib Ic Fl.
  (* c comes from the centre of g at the atom n with n' = f n *)
  assert (gnodes (relabel f (get_rc_S K d m g)) = ns2) as G2 by (rewrite E2; reflexivity).
  unfold relabel in G2. simpl in G2. rewrite <- G2 in Ic. apply in_map_iff in Ic. destruct Ic as ([n c'] & Ec & Ic). simpl in Ec.
  injection Ec as <- <-. rename c' into c.
  pose proof (rcS_wf K d m g W) as WC.
  assert (label (get_rc_S K d m g) n = Some c) as Lc by (apply assoc_nodup_in; [exact (proj1 WC)|exact Ic]).
  destruct (rcS_labels K d m g (proj1 W) n c Lc) as (a & La & F1 & F2 & F3 & F4 & F5 & F6 & _).
  pose proof (rcS_wf K d m (relabel f g) Wr) as WC'.
  assert (label (get_rc_S K d m (relabel f g)) (f n) = Some b) as Lb.
  { apply assoc_nodup_in; [exact (proj1 WC')|]. rewrite E1. exact Ib. }
  destruct (rcS_labels K d m (relabel f g) (proj1 Wr) (f n) b Lb) as (a' & La' & G1 & G3 & G4 & G5 & G6 & G7 & _).
  rewrite (label_relabel Hinj) in La'. rewrite La in La'. injection La' as <-.
  apply snode_eq; congruence.
Qed.
End EquivS.

(** non-vacuity: the store=True ITS of proof/C02_Store.v (changed bond, charge change), renumbered by +10 *)
Example C02_storeequiv_nonvacuous :
  wf (emb_S exS) /\ k_el K_default = true /\ k_gh K_default = true /\
  gnodes (get_rc_S K_default true true (emb_S exS)) <> [] /\
  get_rc_S K_default true true (relabel (N.add 10) (emb_S exS)) = relabel (N.add 10) (get_rc_S K_default true true (emb_S exS)) /\
  relabel (N.add 10) (emb_S exS) <> emb_S exS.
Proof.
  split; [exact (proj1 C02_store_nonvacuous)|]. repeat split; try (vm_compute; congruence).
Qed.

(** * the contexts commute with renumbering, for every label shape and any start atoms *)
Section CtxEquivG.
Variable f : N -> N.
Hypothesis Hinj : forall a b, f a = f b -> a = b.
Context {A B : Type}.

Lemma filter_map_swap' {X Y} (p : Y -> bool) (h : X -> Y) (l : list X) :
  filter p (map h l) = map h (filter (fun x => p (h x)) l).
Proof. induction l as [|x l IH]; simpl; [reflexivity|]. destruct (p (h x)); simpl; rewrite IH; reflexivity. Qed.

Lemma rmem_map' x l : Reach.mem (f x) (map f l) = Reach.mem x l.
Proof. change (LGraph.mem (f x) (map f l) = LGraph.mem x l). apply (mem_map_inj Hinj). Qed.

Lemma add_all_map' l : forall S, Reach.add_all (map f l) (map f S) = map f (Reach.add_all l S).
Proof.
  induction l as [|x l IH]; intros S; simpl; [reflexivity|]. rewrite rmem_map'.
  destruct (Reach.mem x S); [apply IH|]. apply (IH (x :: S)).
Qed.

Lemma knn_g_map (g : lgraph A B) seeds k : knn_g (relabel f g) (map f seeds) k = map f (knn_g g seeds k).
Proof.
  unfold knn_g. induction k as [|k IH]; simpl.
  - apply (add_all_map' seeds []).
  - rewrite IH. unfold Reach.step.
    assert (forall S, flat_map (nbrs (relabel f g)) (map f S) = map f (flat_map (nbrs g) S)) as FN.
    { induction S as [|u S IHS]; simpl; [reflexivity|]. rewrite (nbrs_relabel Hinj), map_app, IHS. reflexivity. }
    rewrite FN. apply add_all_map'.
Qed.

Lemma induced_map_g (g : lgraph A B) L : induced_sub (relabel f g) (map f L) = relabel f (induced_sub g L).
Proof.
  unfold induced_sub, relabel. simpl. rewrite !filter_map_swap'. f_equal.
  - f_equal. apply filter_ext. intros [n a]. simpl. apply (mem_map_inj Hinj).
  - f_equal. apply filter_ext. intros [[a b] x]. simpl. rewrite !(mem_map_inj Hinj). reflexivity.
Qed.

Theorem ball_sub_equivariant (g : lgraph A B) seeds k : ball_sub (relabel f g) (map f seeds) k = relabel f (ball_sub g seeds k).
Proof. unfold ball_sub. rewrite knn_g_map. apply induced_map_g. Qed.
End CtxEquivG.

Theorem ctxS_equivariant (f : N -> N) (Hinj : forall a b, f a = f b -> a = b) (g : sits) k : wf g ->
  extract_k_S (relabel f g) k = relabel f (extract_k_S g k).
Proof.
  intros W. destruct k as [|k]; [apply (rcS_equivariant f Hinj); exact W|].
  change (extract_k_S (relabel f g) (S k)) with (ball_sub (relabel f g) (node_ids (get_rc_S K_default false false (relabel f g))) (S k)).
  rewrite (rcS_equivariant f Hinj K_default false false g W), (node_ids_relabel f). apply (ball_sub_equivariant f Hinj).
Qed.

Example C02_ctxS_equivariant_nonvacuous :
  wf (emb_S ctxS_ex) /\
  extract_k_S (relabel (N.add 10) (emb_S ctxS_ex)) 1 = relabel (N.add 10) (extract_k_S (emb_S ctxS_ex) 1) /\
  node_ids (extract_k_S (relabel (N.add 10) (emb_S ctxS_ex)) 1) = [11%N; 12%N; 13%N; 14%N; 15%N].
Proof. split; [exact (proj1 C02_ctxS_nonvacuous)|]. split; vm_compute; reflexivity. Qed.

(** * find_unequal_order_edges reports centre atoms, for every label shape and every option setting *)
Lemma unequal_g_fold (L : list (N * N * xedge)) : forall S n,
  In n (fold_left (fun S (e : N * N * xedge) => let '(u, v, x) := e in if unequal (fst x) then Reach.add_all [u; v] S else S) L S) <->
  In n S \/ exists a b x, In (a, b, x) L /\ unequal (fst x) = true /\ (n = a \/ n = b).
Proof.
  induction L as [|[[u v] y] L IH]; intros S n; cbn [fold_left].
  - split; [auto|]. intros [I|(a & b & x & [] & _)]. exact I.
  - rewrite IH. destruct (unequal (fst y)) eqn:U.
    + rewrite Reach.add_all_in. cbn [In]. split.
      * intros [[[E|[E|[]]]|I]|(a & b & x & I & Ux & Hn)].
        -- right. exists u, v, y. split; [left; reflexivity|auto].
        -- right. exists u, v, y. split; [left; reflexivity|auto].
        -- left. exact I.
        -- right. exists a, b, x. split; [right; exact I|auto].
      * intros [I|(a & b & x & [E|I] & Ux & Hn)].
        -- left. right. exact I.
        -- inversion E; subst. left. left. destruct Hn as [->| ->]; auto.
        -- right. exists a, b, x. auto.
    + split.
      * intros [I|(a & b & x & I & Ux & Hn)]; [left; exact I|]. right. exists a, b, x. split; [right; exact I|auto].
      * intros [I|(a & b & x & [E|I] & Ux & Hn)]; [left; exact I| |].
        -- inversion E; subst. congruence.
        -- right. exists a, b, x. auto.
Qed.

Theorem unequalS_sub_centre K d m (g : sits) : wf g -> forall n, In n (unequal_nodes_g g) -> In n (node_ids (get_rc_S K d m g)).
Proof.
  intros W n I. unfold unequal_nodes_g in I. apply unequal_g_fold in I. destruct I as [[]|(a & b & x & I & U & Hn)].
  assert (include_x m x = true) as Inc.
  { unfold include_x. apply orb_true_iff. left. unfold unequal in U. apply andb_true_iff in U. exact (proj2 U). }
  pose proof (wf_gmapn flat g W) as Wf.
  assert (node_ids (get_rc_S K d m g) = node_ids (get_rc_x K d m (gmapn flat g))) as -> by (rewrite <- rcS_flat, node_ids_gmapn; reflexivity).
  assert (exists c, label (gmapn flat g) n = Some c) as (c & Lc).
  { apply assoc_is_some. fold (node_ids (gmapn flat g)). rewrite node_ids_gmapn.
    destruct (wf_edge_nodes W I) as (Pa & Pb & _). destruct Hn as [->| ->]; assumption. }
  assert (inc_end m (gmapn flat g) n) as IE.
  { destruct Hn as [->| ->].
    - exists b, x. split; [|exact Inc]. change (adj g a b = Some x). apply wf_in_adj; assumption.
    - exists a, x. split; [|exact Inc]. change (adj g b a = Some x). apply (wf_adj_iff W). right. exact I. }
  assert (label (get_rc_x K d m (gmapn flat g)) n = Some (sel_attr K c)) as L.
  { apply (rcx_nodes K d m (gmapn flat g) Wf). exists c. split; [exact Lc|]. left. split; [exact IE|reflexivity]. }
  eapply label_some_node; eauto.
Qed.
