(** C02 (round 5) — get_rc on ITS graphs of any label shape (pairs of store=True, absent labels): idempotent and equivariant.
    Both follow from the theorems about [get_rc_x] on the flattened graph (proof/C02_OptsEquiv.v) plus "labels are copied
    unchanged" (rcS_labels): [flat] forgets only the product side of a pair, and the selected labels of a centre atom are
    determined by the ITS atom's labels up to the typesGH fallback, which [flat] keeps. *)
From Coq Require Import List NArith ZArith Bool Lia.
From SK Require Import lib.LGraph lib.C01_GraphLemmas model.C01_Model model.C01_Opts model.C02_Model model.C02_Store
                       proof.C02_Proof proof.C02_Opts proof.C02_OptsEquiv proof.C02_Store proof.C02_StoreCtx.
Import ListNotations.
Local Open Scope Z_scope.

Lemma pick_idem {T} b (o : option T) : pick b (pick b o) = pick b o.
Proof. destruct b; reflexivity. Qed.

(** two nodes with the same non-typesGH fields and the same flattening are equal *)
Lemma snode_eq (b c : snode) :
  n_el b = n_el c -> n_ch b = n_ch c -> n_amap b = n_amap c -> n_arom b = n_arom c -> n_hc b = n_hc c -> n_nb b = n_nb c ->
  flat b = flat c -> b = c.
Proof.
  destruct b, c. simpl. intros -> -> -> -> -> -> F. unfold flat in F. simpl in F. inversion F. reflexivity.
Qed.

Lemma label_flat (g : sits) n : label (gmapn flat g) n = option_map flat (label g n).
Proof. apply label_gmapn. Qed.

(** * idempotence *)
Theorem rcS_idem K d m (g : sits) : k_el K = true -> k_gh K = true -> wf g ->
  geq (get_rc_S K d m (get_rc_S K d m g)) (get_rc_S K d m g).
Proof.
  intros Kel Kgh W. set (C := get_rc_S K d m g). set (C2 := get_rc_S K d m C).
  pose proof (rcS_wf K d m g W) as WC.
  assert (geq (gmapn flat C2) (gmapn flat C)) as [GL GA].
  { unfold C2. rewrite rcS_flat. unfold C. rewrite rcS_flat. apply rcx_idem; auto. apply wf_gmapn. exact W. }
  split.
  - intros n. specialize (GL n). rewrite !label_flat in GL.
    destruct (label C2 n) as [b2|] eqn:L2; destruct (label C n) as [b1|] eqn:L1; simpl in GL; try discriminate; [|reflexivity].
    f_equal. assert (flat b2 = flat b1) as GF by congruence. clear GL.
    destruct (rcS_labels K d m C (proj1 WC) n b2 L2) as (b1' & L1' & E1 & E2 & E3 & E4 & E5 & E6 & _).
    rewrite L1 in L1'. injection L1' as <-.
    destruct (rcS_labels K d m g (proj1 W) n b1 L1) as (a & La & F1 & F2 & F3 & F4 & F5 & F6 & _).
    apply snode_eq; [rewrite E1, F1|rewrite E2, F2|rewrite E3, F3|rewrite E4, F4|rewrite E5, F5|rewrite E6, F6|exact GF];
      apply pick_idem.
  - intros u v. exact (GA u v).
Qed.

(** * equivariance *)
Section EquivS.
Variable f : N -> N.
Hypothesis Hinj : forall a b, f a = f b -> a = b.

Lemma gmapn_relabel {A A' B} (h : A -> A') (g : lgraph A B) : gmapn h (relabel f g) = relabel f (gmapn h g).
Proof. unfold gmapn, relabel. simpl. rewrite !map_map. reflexivity. Qed.

Lemma map_flat_eq (l1 l2 : list (N * snode)) :
  map (fun p => (fst p, flat (snd p))) l1 = map (fun p => (fst p, flat (snd p))) l2 ->
  (forall n b c, In (n, b) l1 -> In (n, c) l2 -> flat b = flat c -> b = c) -> l1 = l2.
Proof.
  revert l2. induction l1 as [|[n b] r IH]; intros [|[n' c] r'] E H; simpl in E; try discriminate; [reflexivity|].
  assert (n = n' /\ flat b = flat c /\ map (fun p => (fst p, flat (snd p))) r = map (fun p => (fst p, flat (snd p))) r') as (En & Ef & Er)
    by (repeat split; congruence).
  subst n'. rewrite (H n b c (or_introl eq_refl) (or_introl eq_refl) Ef). f_equal.
  apply IH; [exact Er|]. intros k x y Ix Iy. apply (H k x y); right; assumption.
Qed.

Theorem rcS_equivariant K d m (g : sits) : wf g ->
  get_rc_S K d m (relabel f g) = relabel f (get_rc_S K d m g).
Proof.
  intros W. pose proof (wf_relabel Hinj W) as Wr.
  assert (gmapn flat (get_rc_S K d m (relabel f g)) = gmapn flat (relabel f (get_rc_S K d m g))) as E.
  { rewrite rcS_flat, !gmapn_relabel, rcS_flat. apply rcx_equivariant. exact Hinj. }
  destruct (get_rc_S K d m (relabel f g)) as [ns1 es1] eqn:E1. destruct (relabel f (get_rc_S K d m g)) as [ns2 es2] eqn:E2.
  unfold gmapn in E. cbn [gnodes gedges] in E.
  assert (map (fun p : N * snode => (fst p, flat (snd p))) ns1 = map (fun p : N * snode => (fst p, flat (snd p))) ns2 /\ es1 = es2) as [En Ee]
    by (split; congruence).
  subst es2. f_equal. apply map_flat_eq; [exact En|].
  intros n' b c Ib Ic Fl.
  (* c comes from the centre of g at the atom n with n' = f n *)
  assert (gnodes (relabel f (get_rc_S K d m g)) = ns2) as G2 by (rewrite E2; reflexivity).
  unfold relabel in G2. simpl in G2. rewrite <- G2 in Ic. apply in_map_iff in Ic. destruct Ic as ([n c'] & Ec & Ic). simpl in Ec.
  injection Ec as <- <-. rename c' into c.
  pose proof (rcS_wf K d m g W) as WC.
  assert (label (get_rc_S K d m g) n = Some c) as Lc by (apply assoc_nodup_in; [exact (proj1 WC)|exact Ic]).
  destruct (rcS_labels K d m g (proj1 W) n c Lc) as (a & La & F1 & F2 & F3 & F4 & F5 & F6 & _).
  pose proof (rcS_wf K d m (relabel f g) Wr) as WC'.
  assert (label (get_rc_S K d m (relabel f g)) (f n) = Some b) as Lb.
  { apply assoc_nodup_in; [exact (proj1 WC')|]. rewrite E1. exact Ib. }
  destruct (rcS_labels K d m (relabel f g) (proj1 Wr) (f n) b Lb) as (a' & La' & G1 & G3 & G4 & G5 & G6 & G7 & _).
  rewrite (label_relabel Hinj) in La'. rewrite La in La'. injection La' as <-.
  apply snode_eq; congruence.
Qed.
End EquivS.

(** non-vacuity: the store=True ITS of proof/C02_Store.v (changed bond, charge change), renumbered by +10 *)
Example C02_storeequiv_nonvacuous :
  wf (emb_S exS) /\ k_el K_default = true /\ k_gh K_default = true /\
  gnodes (get_rc_S K_default true true (emb_S exS)) <> [] /\
  get_rc_S K_default true true (relabel (N.add 10) (emb_S exS)) = relabel (N.add 10) (get_rc_S K_default true true (emb_S exS)) /\
  relabel (N.add 10) (emb_S exS) <> emb_S exS.
Proof.
  split; [exact (proj1 C02_store_nonvacuous)|]. repeat split; try (vm_compute; congruence).
Qed.
