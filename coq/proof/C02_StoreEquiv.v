(** C02 (round 5) — get_rc on ITS graphs of any label shape (pairs of store=True, absent labels): idempotent and equivariant.
    Both follow from the theorems about [get_rc_x] on the flattened graph (proof/C02_OptsEquiv.v) plus "labels are copied
    unchanged" (rcS_labels): [flat] forgets only the product side of a pair, and the selected labels of a centre atom are
    determined by the ITS atom's labels up to the typesGH fallback, which [flat] keeps. *)
From Coq Require Import List NArith ZArith Bool Lia.
From SK Require Import lib.LGraph lib.C01_GraphLemmas model.C01_Model model.C01_Opts model.C02_Model model.C02_Store
                       proof.C02_Proof proof.C02_Opts proof.C02_OptsEquiv proof.C02_Lre proof.C02_Sides2 proof.C02_Store proof.C02_StoreCtx.
(* [extract_k_S] is the definition of model/C02_Store.v (proof/C02_Proof.v has a lemma of that name) *)
From SK Require Import lib.Reach model.C02_Store.
Import ListNotations.
Local Open Scope Z_scope.

Lemma pick_idem {T} b (o : option T) : pick b (pick b o) = pick b o.
Proof. destruct b; reflexivity. Qed.

(** two nodes with the same non-typesGH fields and the same flattening are equal *)
Lemma snode_eq (b c : snode) :
  n_el b = n_el c -> n_ch b = n_ch c -> n_amap b = n_amap c -> n_arom b = n_arom c -> n_hc b = n_hc c -> n_nb b = n_nb c ->
  flat b = flat c -> b = c.
Proof.
  destruct b, c. simpl. intros -> -> -> -> -> -> F. unfold flat in F. simpl in F. inversion F. reflexivity.
Qed.

Lemma label_flat (g : sits) n : label (gmapn flat g) n = option_map flat (label g n).
Proof. apply label_gmapn. Qed.

(** * idempotence *)
Theorem rcS_idem K d m (g : sits) : k_el K = true -> k_gh K = true -> wf g ->
  geq (get_rc_S K d m (get_rc_S K d m g)) (get_rc_S K d m g).
Proof.
  intros Kel Kgh W. set (C := get_rc_S K d m g). set (C2 := get_rc_S K d m C).
  pose proof (rcS_wf K d m g W) as WC.
  assert (geq (gmapn flat C2) (gmapn flat C)) as [GL GA].
  { unfold C2. rewrite rcS_flat. unfold C. rewrite rcS_flat. apply rcx_idem; auto. apply wf_gmapn. exact W. }
  split.
  - intros n. specialize (GL n). rewrite !label_flat in GL.
    destruct (label C2 n) as [b2|] eqn:L2; destruct (label C n) as [b1|] eqn:L1; simpl in GL; try discriminate; [|reflexivity].
    f_equal. assert (flat b2 = flat b1) as GF by congruence. clear GL.
    destruct (rcS_labels K d m C (proj1 WC) n b2 L2) as (b1' & L1' & E1 & E2 & E3 & E4 & E5 & E6 & _).
    rewrite L1 in L1'. injection L1' as <-.
    destruct (rcS_labels K d m g (proj1 W) n b1 L1) as (a & La & F1 & F2 & F3 & F4 & F5 & F6 & _).
    apply snode_eq; [rewrite E1, F1|rewrite E2, F2|rewrite E3, F3|rewrite E4, F4|rewrite E5, F5|rewrite E6, F6|exact GF];
      apply pick_idem.
  - intros u v. exact (GA u v).
Qed.

(** * equivariance *)
Section EquivS.
Variable f : N -> N.
Hypothesis Hinj : forall a b, f a = f b -> a = b.

Lemma gmapn_relabel {A A' B} (h : A -> A') (g : lgraph A B) : gmapn h (relabel f g) = relabel f (gmapn h g).
Proof. unfold gmapn, relabel. simpl. rewrite !map_map. reflexivity. Qed.

Lemma map_flat_eq (l1 l2 : list (N * snode)) :
  map (fun p => (fst p, flat (snd p))) l1 = map (fun p => (fst p, flat (snd p))) l2 ->
  (forall n b c, In (n, b) l1 -> In (n, c) l2 -> flat b = flat c -> b = c) -> l1 = l2.
Proof.
  revert l2. induction l1 as [|[n b] r IH]; intros [|[n' c] r'] E H; simpl in E; try discriminate; [reflexivity|].
  assert (n = n' /\ flat b = flat c /\ map (fun p => (fst p, flat (snd p))) r = map (fun p => (fst p, flat (snd p))) r') as (En & Ef & Er)
    by (repeat split; congruence).
  subst n'. rewrite (H n b c (or_introl eq_refl) (or_introl eq_refl) Ef). f_equal.
  apply IH; [exact Er|]. intros k x y Ix Iy. apply (H k x y); right; assumption.
Qed.

Theorem rcS_equivariant K d m (g : sits) : wf g ->
  get_rc_S K d m (relabel f g) = relabel f (get_rc_S K d m g).
Proof.
  intros W. pose proof (wf_relabel Hinj W) as Wr.
  assert (gmapn flat (get_rc_S K d m (relabel f g)) = gmapn flat (relabel f (get_rc_S K d m g))) as E.
  { rewrite rcS_flat, !gmapn_relabel, rcS_flat. apply rcx_equivariant. exact Hinj. }
  destruct (get_rc_S K d m (relabel f g)) as [ns1 es1] eqn:E1. destruct (relabel f (get_rc_S K d m g)) as [ns2 es2] eqn:E2.
  unfold gmapn in E. cbn [gnodes gedges] in E.
  assert (map (fun p : N * snode => (fst p, flat (snd p))) ns1 = map (fun p : N * snode => (fst p, flat (snd p))) ns2 /\ es1 = es2) as [En Ee]
    by (split; congruence).
  subst es2. f_equal. apply map_flat_eq; [exact En|].
  intros n' b c Ib Ic Fl.
  (* c comes from the centre of g at the atom n with n' = f n *)
  assert (gnodes (relabel f (get_rc_S K d m g)) = ns2) as G2 by (rewrite E2; reflexivity).
  unfold relabel in G2. simpl in G2. rewrite <- G2 in Ic. apply in_map_iff in Ic. destruct Ic as ([n c'] & Ec & Ic). simpl in Ec.
  injection Ec as <- <-. rename c' into c.
  pose proof (rcS_wf K d m g W) as WC.
  assert (label (get_rc_S K d m g) n = Some c) as Lc by (apply assoc_nodup_in; [exact (proj1 WC)|exact Ic]).
  destruct (rcS_labels K d m g (proj1 W) n c Lc) as (a & La & F1 & F2 & F3 & F4 & F5 & F6 & _).
  pose proof (rcS_wf K d m (relabel f g) Wr) as WC'.
  assert (label (get_rc_S K d m (relabel f g)) (f n) = Some b) as Lb.
  { apply assoc_nodup_in; [exact (proj1 WC')|]. rewrite E1. exact Ib. }
  destruct (rcS_labels K d m (relabel f g) (proj1 Wr) (f n) b Lb) as (a' & La' & G1 & G3 & G4 & G5 & G6 & G7 & _).
  rewrite (label_relabel Hinj) in La'. rewrite La in La'. injection La' as <-.
  apply snode_eq; congruence.
Qed.
End EquivS.

(** non-vacuity: the store=True ITS of proof/C02_Store.v (changed bond, charge change), renumbered by +10 *)
Example C02_storeequiv_nonvacuous :
  wf (emb_S exS) /\ k_el K_default = true /\ k_gh K_default = true /\
  gnodes (get_rc_S K_default true true (emb_S exS)) <> [] /\
  get_rc_S K_default true true (relabel (N.add 10) (emb_S exS)) = relabel (N.add 10) (get_rc_S K_default true true (emb_S exS)) /\
  relabel (N.add 10) (emb_S exS) <> emb_S exS.
Proof.
  split; [exact (proj1 C02_store_nonvacuous)|]. repeat split; try (vm_compute; congruence).
Qed.

(** * the contexts commute with renumbering, for every label shape and any start atoms *)
Section CtxEquivG.
Variable f : N -> N.
Hypothesis Hinj : forall a b, f a = f b -> a = b.
Context {A B : Type}.

Lemma filter_map_swap' {X Y} (p : Y -> bool) (h : X -> Y) (l : list X) :
  filter p (map h l) = map h (filter (fun x => p (h x)) l).
Proof. induction l as [|x l IH]; simpl; [reflexivity|]. destruct (p (h x)); simpl; rewrite IH; reflexivity. Qed.

Lemma rmem_map' x l : Reach.mem (f x) (map f l) = Reach.mem x l.
Proof. change (LGraph.mem (f x) (map f l) = LGraph.mem x l). apply (mem_map_inj Hinj). Qed.

Lemma add_all_map' l : forall S, Reach.add_all (map f l) (map f S) = map f (Reach.add_all l S).
Proof.
  induction l as [|x l IH]; intros S; simpl; [reflexivity|]. rewrite rmem_map'.
  destruct (Reach.mem x S); [apply IH|]. apply (IH (x :: S)).
Qed.

Lemma knn_g_map (g : lgraph A B) seeds k : knn_g (relabel f g) (map f seeds) k = map f (knn_g g seeds k).
Proof.
  unfold knn_g. induction k as [|k IH]; simpl.
  - apply (add_all_map' seeds []).
  - rewrite IH. unfold Reach.step.
    assert (forall S, flat_map (nbrs (relabel f g)) (map f S) = map f (flat_map (nbrs g) S)) as FN.
    { induction S as [|u S IHS]; simpl; [reflexivity|]. rewrite (nbrs_relabel Hinj), map_app, IHS. reflexivity. }
    rewrite FN. apply add_all_map'.
Qed.

Lemma induced_map_g (g : lgraph A B) L : induced_sub (relabel f g) (map f L) = relabel f (induced_sub g L).
Proof.
  unfold induced_sub, relabel. simpl. rewrite !filter_map_swap'. f_equal.
  - f_equal. apply filter_ext. intros [n a]. simpl. apply (mem_map_inj Hinj).
  - f_equal. apply filter_ext. intros [[a b] x]. simpl. rewrite !(mem_map_inj Hinj). reflexivity.
Qed.

Theorem ball_sub_equivariant (g : lgraph A B) seeds k : ball_sub (relabel f g) (map f seeds) k = relabel f (ball_sub g seeds k).
Proof. unfold ball_sub. rewrite knn_g_map. apply induced_map_g. Qed.
End CtxEquivG.

Theorem ctxS_equivariant (f : N -> N) (Hinj : forall a b, f a = f b -> a = b) (g : sits) k : wf g ->
  extract_k_S (relabel f g) k = relabel f (extract_k_S g k).
Proof.
  intros W. destruct k as [|k]; [apply (rcS_equivariant f Hinj); exact W|].
  change (extract_k_S (relabel f g) (S k)) with (ball_sub (relabel f g) (node_ids (get_rc_S K_default false false (relabel f g))) (S k)).
  rewrite (rcS_equivariant f Hinj K_default false false g W), (node_ids_relabel f). apply (ball_sub_equivariant f Hinj).
Qed.

Example C02_ctxS_equivariant_nonvacuous :
  wf (emb_S ctxS_ex) /\
  extract_k_S (relabel (N.add 10) (emb_S ctxS_ex)) 1 = relabel (N.add 10) (extract_k_S (emb_S ctxS_ex) 1) /\
  node_ids (extract_k_S (relabel (N.add 10) (emb_S ctxS_ex)) 1) = [11%N; 12%N; 13%N; 14%N; 15%N].
Proof. split; [exact (proj1 C02_ctxS_nonvacuous)|]. split; vm_compute; reflexivity. Qed.

(** * find_unequal_order_edges reports centre atoms, for every label shape and every option setting *)
Lemma unequal_g_fold (L : list (N * N * xedge)) : forall S n,
  In n (fold_left (fun S (e : N * N * xedge) => let '(u, v, x) := e in if unequal (fst x) then Reach.add_all [u; v] S else S) L S) <->
  In n S \/ exists a b x, In (a, b, x) L /\ unequal (fst x) = true /\ (n = a \/ n = b).
Proof.
  induction L as [|[[u v] y] L IH]; intros S n; cbn [fold_left].
  - split; [auto|]. intros [I|(a & b & x & [] & _)]. exact I.
  - rewrite IH. destruct (unequal (fst y)) eqn:U.
    + rewrite Reach.add_all_in. cbn [In]. split.
      * intros [[[E|[E|[]]]|I]|(a & b & x & I & Ux & Hn)].
        -- right. exists u, v, y. split; [left; reflexivity|auto].
        -- right. exists u, v, y. split; [left; reflexivity|auto].
        -- left. exact I.
        -- right. exists a, b, x. split; [right; exact I|auto].
      * intros [I|(a & b & x & [E|I] & Ux & Hn)].
        -- left. right. exact I.
        -- inversion E; subst. left. left. destruct Hn as [->| ->]; auto.
        -- right. exists a, b, x. auto.
    + split.
      * intros [I|(a & b & x & I & Ux & Hn)]; [left; exact I|]. right. exists a, b, x. split; [right; exact I|auto].
      * intros [I|(a & b & x & [E|I] & Ux & Hn)]; [left; exact I| |].
        -- inversion E; subst. congruence.
        -- right. exists a, b, x. auto.
Qed.

Theorem unequalS_sub_centre K d m (g : sits) : wf g -> forall n, In n (unequal_nodes_g g) -> In n (node_ids (get_rc_S K d m g)).
Proof.
  intros W n I. unfold unequal_nodes_g in I. apply unequal_g_fold in I. destruct I as [[]|(a & b & x & I & U & Hn)].
  assert (include_x m x = true) as Inc.
  { unfold include_x. apply orb_true_iff. left. unfold unequal in U. apply andb_true_iff in U. exact (proj2 U). }
  pose proof (wf_gmapn flat g W) as Wf.
  assert (node_ids (get_rc_S K d m g) = node_ids (get_rc_x K d m (gmapn flat g))) as -> by (rewrite <- rcS_flat, node_ids_gmapn; reflexivity).
  assert (exists c, label (gmapn flat g) n = Some c) as (c & Lc).
  { apply assoc_is_some. fold (node_ids (gmapn flat g)). rewrite node_ids_gmapn.
    destruct (wf_edge_nodes W I) as (Pa & Pb & _). destruct Hn as [->| ->]; assumption. }
  assert (inc_end m (gmapn flat g) n) as IE.
  { destruct Hn as [->| ->].
    - exists b, x. split; [|exact Inc]. change (adj g a b = Some x). apply wf_in_adj; assumption.
    - exists a, x. split; [|exact Inc]. change (adj g b a = Some x). apply (wf_adj_iff W). right. exact I. }
  assert (label (get_rc_x K d m (gmapn flat g)) n = Some (sel_attr K c)) as L.
  { apply (rcx_nodes K d m (gmapn flat g) Wf). exists c. split; [exact Lc|]. left. split; [exact IE|reflexivity]. }
  eapply label_some_node; eauto.
Qed.

(** * the centre of a store=True ITS stated on the two sides (theorem 20' for ITSConstruction.construct(store=True)) *)
Lemma construct_ab_o ia bal G H : its_construct_ab ia bal G H = its_construct_o (CO ia bal dflt_nattr) G H.
Proof. reflexivity. Qed.

Lemma label_gmap {A A' B B'} (fn : A -> A') (fe : B -> B') (g : lgraph A B) n : label (gmap fn fe g) n = option_map fn (label g n).
Proof. unfold label, gmap. simpl. apply (assoc_map_val (fun _ a => fn a)). Qed.

Theorem centre_vs_sides_store_true ia bal (G H : mgraph) : wf G -> wf H ->
  let S := its_construct_S (CO ia bal dflt_nattr) G H in
  el_same S ->
  forall u v,
    (exists e, adj (get_rc_S K_default false false (emb_S S)) u v = Some e) <->
    (adj G u v <> None \/ adj H u v <> None) /\
    ((if ia then 2 <= Z.abs (order_in G u v - order_in H u v) else order_in G u v <> order_in H u v) \/
     (is_h_g ish_S (emb_S S) u = true /\ is_h_g ish_S (emb_S S) v = true)).
Proof.
  intros WG WH S Hs u v.
  assert (adj (get_rc_S K_default false false (emb_S S)) u v =
          option_map (fun e : iedge => (e, Some false)) (adj (get_rc (its_construct_ab ia bal G H)) u v)) as A.
  { change (adj (get_rc_S K_default false false (emb_S S)) u v) with (adj (gmapn flat (get_rc_S K_default false false (emb_S S))) u v).
    unfold S. rewrite (rcS_construct K_default false false _ G H Hs), <- construct_ab_o, rcx_default_emb.
    unfold adj, gmap. simpl. apply find_edge_map. }
  assert (forall n, is_h_g ish_S (emb_S S) n = is_h (its_construct_ab ia bal G H) n) as Ih.
  { intros n. rewrite is_h_emb_S, construct_ab_o, <- (twin_construct (CO ia bal dflt_nattr) G H). fold S. unfold is_h.
    rewrite label_gmap. destruct (label S n) as [a|] eqn:L; simpl; [|reflexivity].
    rewrite <- (Hs n a (assoc_in n (gnodes S) L)). destruct (N.eqb (fst (s_el a)) EL_H); reflexivity. }
  rewrite !Ih, <- (centre_vs_sides_all ia bal G H WG WH u v), A.
  destruct (adj (get_rc (its_construct_ab ia bal G H)) u v) as [e|]; simpl; split.
  - intros _. exists e. reflexivity.
  - intros _. eexists. reflexivity.
  - intros (e & C). discriminate.
  - intros (e & C). discriminate.
Qed.

(** non-vacuity: H-H + C=C -> H-H + C-C through construct(store=True): both bonds in the centre *)
Definition sv_G : mgraph := LG [(1%N, GN 2%N false 0 0 (Some []) 1); (2%N, GN 2%N false 0 0 (Some []) 2); (3%N, GN 70%N false 2 0 (Some []) 3); (4%N, GN 70%N false 2 0 (Some []) 4)]
                               [(1%N, 2%N, 2); (3%N, 4%N, 4)].
Definition sv_H : mgraph := LG [(1%N, GN 2%N false 0 0 (Some []) 1); (2%N, GN 2%N false 0 0 (Some []) 2); (3%N, GN 70%N false 3 0 (Some []) 3); (4%N, GN 70%N false 3 0 (Some []) 4)]
                               [(1%N, 2%N, 2); (3%N, 4%N, 2)].
Example C02_sides_store_true_nonvacuous :
  el_same (its_construct_S (CO false true dflt_nattr) sv_G sv_H) /\
  adj (get_rc_S K_default false false (emb_S (its_construct_S (CO false true dflt_nattr) sv_G sv_H))) 1%N 2%N = Some (IE 2 2 0, Some false) /\
  adj (get_rc_S K_default false false (emb_S (its_construct_S (CO false true dflt_nattr) sv_G sv_H))) 3%N 4%N = Some (IE 4 2 2, Some false).
Proof.
  split; [|vm_compute; split; reflexivity].
  intros n a I. vm_compute in I. repeat (destruct I as [I|I]; [inversion I; reflexivity|]). destruct I.
Qed.

(** * extract_k option handling on graphs of any label shape, n_knn = -1 through the skeleton *)
Lemma adj_skel {A} (g : lgraph A xedge) u v : adj (skel g) u v = option_map (@fst iedge (option bool)) (adj g u v).
Proof. unfold adj, skel, gmap. simpl. apply find_edge_map. Qed.

Lemma node_ids_skel {A} (g : lgraph A xedge) : node_ids (skel g) = node_ids g.
Proof. unfold node_ids, skel, gmap. simpl. rewrite map_map. reflexivity. Qed.

(** a bond of the skeleton with standard_order 0 is a bond of the graph with standard_order 0 *)
Lemma std0_skel {A} (g : lgraph A xedge) u v :
  std0 (skel g) u v = match adj g u v with Some x => e_std (fst x) =? 0 | None => false end.
Proof. unfold std0. rewrite adj_skel. destruct (adj g u v); reflexivity. Qed.

Theorem extract_k_S_z_nonneg (g : sits) k : 0 <= k -> extract_k_S_z g k = extract_k_S g (Z.to_nat k).
Proof.
  intros Hk. unfold extract_k_S_z. destruct (Z.eqb_spec k 0) as [->|Hne]; [reflexivity|].
  destruct (Z.eqb_spec k (-1)); [lia|]. destruct (Z.to_nat k) as [|j] eqn:E; [lia|]. reflexivity.
Qed.

Theorem extract_k_S_z_minus1 (g : sits) : wf g ->
  let rcn := node_ids (get_rc_S K_default false false g) in
  let r := length (lre (skel g) rcn) in
  extract_k_S_z g (-1) = ball_sub g rcn r /\
  (forall n, In n (node_ids (extract_k_S_z g (-1))) <-> dist_le_g g rcn r n) /\
  (lre (skel g) rcn = [] \/
   exists n ext, In n rcn /\ lre (skel g) rcn = n :: ext /\ zchain (skel g) n ext /\ NoDup (n :: ext)).
Proof.
  intros W rcn r. split; [reflexivity|]. split; [|apply lre_path].
  change (extract_k_S_z g (-1)) with (ball_sub g rcn r).
  destruct (ball_sub_spec g rcn r W) as (N1 & _); [|exact N1].
  intros s. apply rcS_nodes_in. exact (proj1 W).
Qed.

Example C02_S_lre_nonvacuous :
  lre (skel (emb_S ctxS_ex)) (node_ids (get_rc_S K_default false false (emb_S ctxS_ex))) = [4%N; 5%N; 6%N] /\
  node_ids (extract_k_S_z (emb_S ctxS_ex) (-1)) = [1%N; 2%N; 3%N; 4%N; 5%N; 6%N] /\
  extract_k_S_z (emb_S ctxS_ex) 1 = extract_k_S (emb_S ctxS_ex) 1.
Proof. vm_compute. repeat split; reflexivity. Qed.
