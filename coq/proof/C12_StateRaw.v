(** C12 -- the property over histories stated on the graphs THE CALLER PASSES (raw attribute dictionaries), with the object's
    options: selection of the configured attributes, defaults, wildcard pruning.  Corollary of [history_find_valid],
    [project_ci_iff], [prune_ci_iff]. *)
From Coq Require Import List NArith ZArith Bool Arith Lia Permutation.
From SK Require Import lib.Tok lib.LGraph lib.Mono model.C12_Model model.C12_State
     proof.C12_Search proof.C12_Proof proof.C12_Prune proof.C12_State.
Import ListNotations.
Local Open Scope nat_scope.

(** is atom [p] of the raw graph a wildcard for this object: data.get(element_key) == wildcard_element *)
Definition raw_wildcard (cfg : config) (g : rgraph) (p : N) : bool :=
  match label g p with
  | Some a => match LGraph.assoc (c_ekey cfg) a with Some e => N.eqb e (c_wc cfg) | None => false end
  | None => false
  end.

(** valid for the caller's graphs under this object's options: a common induced mapping on the configured attributes that maps
    no wildcard atom when pruning is on *)
Definition raw_valid (cfg : config) (ga gb : rgraph) (m : mapping) : Prop :=
  raw_common_induced cfg ga gb m /\
  (c_prune cfg = true -> forall p h, In (p, h) m -> raw_wildcard cfg ga p = false /\ raw_wildcard cfg gb h = false).

Lemma pruned_ci_raw cfg ga gb m : length (c_defs cfg) = length (c_names cfg) ->
  NoDup (node_ids ga) -> NoDup (node_ids gb) ->
  common_induced (node_match (c_defs cfg)) edge_match
    (prune_graph (c_prune cfg) (c_wc cfg) (project cfg ga)) (prune_graph (c_prune cfg) (c_wc cfg) (project cfg gb)) m <->
  raw_valid cfg ga gb m.
Proof.
  intros EL N1 N2. unfold raw_valid.
  assert (P1 : NoDup (node_ids (project cfg ga))) by now rewrite project_ids.
  assert (P2 : NoDup (node_ids (project cfg gb))) by now rewrite project_ids.
  destruct (c_prune cfg) eqn:Ep.
  - rewrite (prune_ci_iff _ _ (c_wc cfg) _ _ m P1 P2), (project_ci_iff cfg ga gb m EL). split.
    + intros (C & W). split; [exact C|]. intros _ p h I. destruct (W p h I) as (W1 & W2).
      rewrite project_wc_node in W1, W2. split; assumption.
    + intros (C & W). split; [exact C|]. intros p h I. destruct (W eq_refl p h I) as (W1 & W2).
      rewrite !project_wc_node. split; assumption.
  - unfold prune_graph. rewrite (project_ci_iff cfg ga gb m EL). split; [intros C; split; [exact C|discriminate]|intros (C & _); exact C].
Qed.

(** THE PROPERTY OVER HISTORIES ON THE CALLER'S GRAPHS: for an object built by the constructor ([mk_config a = Some cfg]),
    whatever calls it served before, after find_common_subgraph(G1, G2, mcs) and any reads: every G1->G2 mapping is valid for
    (G1, G2), every G2->G1 mapping for (G2, G1), the two lists are position-wise inverse; in maximum mode all have the size
    last_size and NO valid mapping of the caller's graphs is larger; in all-sizes mode every non-empty valid mapping is returned *)
Theorem history_valid_raw a cfg st ops g1 g2 mcs rds :
  mk_config a = Some cfg ->
  NoDup (node_ids g1) -> NoDup (node_ids g2) -> forallb is_read rds = true ->
  let stf := m_run cfg st (ops ++ MFind g1 g2 mcs :: rds) in
  exists l12 l21, m_get stf D12 = Some l12 /\ m_get stf D21 = Some l21 /\
    l21 = map invert_mapping l12 /\ l12 = map invert_mapping l21 /\
    (forall m, In m l12 -> raw_valid cfg g1 g2 m /\ 1 <= length m) /\
    (forall m, In m l21 -> raw_valid cfg g2 g1 m /\ 1 <= length m) /\
    (mcs = true -> (forall m, In m l12 -> length m = s_last stf) /\
                   (forall m, raw_valid cfg g1 g2 m -> length m <= s_last stf)) /\
    (mcs = false -> forall m, raw_valid cfg g1 g2 m -> 1 <= length m -> exists m', In m' l12 /\ Permutation m m').
Proof.
  intros Ea N1 N2 Hr stf.
  assert (EL : length (c_defs cfg) = length (c_names cfg)).
  { pose proof (mk_config_spec a) as S. rewrite Ea in S. exact (proj1 (proj2 S)). }
  destruct (history_find_valid cfg st ops g1 g2 mcs rds N1 N2 Hr)
    as (l12 & l21 & lp & E12 & E21 & _ & _ & I1 & I2 & _ & V12 & V21 & Hmax & Hall).
  exists l12, l21. fold stf in E12, E21, Hmax. split; [exact E12|split; [exact E21|split; [exact I1|split; [exact I2|]]]].
  split; [|split; [|split]].
  - intros m Hm. destruct (V12 m Hm) as (C & L). split; [now apply (pruned_ci_raw cfg g1 g2 m EL N1 N2)|exact L].
  - intros m Hm. destruct (V21 m Hm) as (C & L). split; [now apply (pruned_ci_raw cfg g2 g1 m EL N2 N1)|exact L].
  - intros Em. destruct (Hmax Em) as (M1 & M2 & _). split; [exact M1|].
    intros m Hv. apply M2. now apply (pruned_ci_raw cfg g1 g2 m EL N1 N2).
  - intros Em m Hv L. apply (Hall Em m); [now apply (pruned_ci_raw cfg g1 g2 m EL N1 N2)|exact L].
Qed.

Module Example_raw.
(** pruning on, wildcard "*" (code 0) under the element key: O=C-* against *-C=O-... the wildcard atoms are never mapped *)
Definition cfgp : config := {| c_names := [0%N]; c_defs := [0%N]; c_enames := [0%N]; c_prune := true; c_auto := false; c_wc := 0%N; c_ekey := 0%N |}.
Definition gW : rgraph := LG [(1, [(0, 1)]); (2, [(0, 0)])]%N [(1, 2, [(0%N, ENum 2)])]%N.
Definition gV : rgraph := LG [(5, [(0, 0)]); (6, [(0, 1)])]%N [(5, 6, [(0%N, ENum 2)])]%N.
Example pruned_history : m_get (m_run cfgp s_init [MFind gW gV true]) D12 = Some [[(1, 6)]%N].
Proof. vm_compute. reflexivity. Qed.
Example raw_valid_example : raw_valid cfgp gW gV [(1, 6)%N] /\ ~ raw_valid cfgp gW gV [(2, 5)%N].
Proof.
  split.
  - destruct (history_valid_raw {| a_node_attrs := None; a_node_defaults := None; a_edge_attrs := None; a_prune_wc := true;
                                   a_prune_auto := false; a_wildcard := 0%N; a_element_key := 0%N |} cfgp s_init [] gW gV true [])
      as (l12 & l21 & E12 & _ & _ & _ & V & _).
    + reflexivity.
    + vm_compute. repeat constructor; simpl; intuition discriminate.
    + vm_compute. repeat constructor; simpl; intuition discriminate.
    + reflexivity.
    + vm_compute in E12. injection E12 as <-. exact (proj1 (V _ (or_introl eq_refl))).
  - intros (_ & W). destruct (W eq_refl 2%N 5%N (or_introl eq_refl)) as (W1 & _). vm_compute in W1. discriminate.
Qed.
End Example_raw.
