(** C01 — closed form of MolToGraph.transform with its default flags (model/C01_M2GIdx.v) *)
From Coq Require Import List NArith ZArith Bool Lia Arith.
From SK Require Import lib.LGraph lib.C01_GraphLemmas model.C01_Model model.C02_Model model.C01_String model.C01_M2GIdx
  proof.C01_Proof proof.C01_StringProof.
Import ListNotations.

Definition idn (ia : nat * ratom) : N * gnode := ((N.of_nat (fst ia) + 1)%N, atom_node (snd ia)).
Definition idx (ia : nat * ratom) : nat * N := (fst ia, (N.of_nat (fst ia) + 1)%N).

Lemma m2g_atoms_index (l : list ratom) : forall s ns ix,
  (forall k, In k (map fst ns) -> (k <= N.of_nat s)%N) ->
  fold_left (m2g_atom false false) (combine (seq s (length l)) l) (ns, ix) =
  (ns ++ map idn (combine (seq s (length l)) l), ix ++ map idx (combine (seq s (length l)) l)).
Proof.
  induction l as [|a l IH]; intros s ns ix Hk.
  - cbn. rewrite !app_nil_r. reflexivity.
  - cbn [length seq combine fold_left map]. unfold m2g_atom at 2. cbn [andb fst snd]. unfold atom_id. cbn [andb].
    rewrite upsert_fresh by (intros F; specialize (Hk _ F); lia).
    rewrite (IH (S s)).
    + rewrite <- !app_assoc. reflexivity.
    + intros k Ik. rewrite map_app in Ik. apply in_app_iff in Ik. destruct Ik as [Ik|[<-|[]]]; [specialize (Hk k Ik); lia|cbn [fst]; lia].
Qed.

Lemma lookup_index_ix (l : list ratom) i : forall s,
  lookup_idx i (map idx (combine (seq s (length l)) l)) =
  if (Nat.leb s i && Nat.ltb i (s + length l))%bool then Some (N.of_nat i + 1)%N else None.
Proof.
  induction l as [|a l IH]; intros s.
  - cbn [length seq combine map lookup_idx]. destruct (Nat.leb_spec s i), (Nat.ltb_spec i (s + 0)); cbn [andb]; try reflexivity; exfalso; lia.
  - cbn [length seq combine map lookup_idx idx fst]. destruct (Nat.eqb_spec i s) as [->|Hne].
    + destruct (Nat.leb_spec s s), (Nat.ltb_spec s (s + S (length l))); cbn [andb]; try reflexivity; exfalso; lia.
    + rewrite (IH (S s)).
      destruct (Nat.leb_spec (S s) i), (Nat.ltb_spec i (S s + length l)), (Nat.leb_spec s i), (Nat.ltb_spec i (s + S (length l))); cbn [andb]; try reflexivity; exfalso; lia.
Qed.

(** C01_mol_to_graph_index *)
Theorem mol_to_graph_index (m : rmol) : simple (index_bonds m) -> mol_to_graph false false m = Some (index_graph m).
Proof.
  intros Hs. unfold mol_to_graph. cbn [andb negb]. unfold enumerate.
  rewrite (m2g_atoms_index (rm_atoms m) 0 [] []) by (intros k []). cbn [fst snd app].
  assert (flat_map (bond_edge (map idx (combine (seq 0 (length (rm_atoms m))) (rm_atoms m)))) (rm_bonds m) = index_bonds m) as EB.
  { unfold index_bonds. apply flat_map_ext. intros [[i j] o]. unfold bond_edge. cbn [fst snd].
    rewrite !lookup_index_ix. cbn [Nat.leb andb plus].
    destruct (Nat.ltb i (length (rm_atoms m))), (Nat.ltb j (length (rm_atoms m))); reflexivity. }
  rewrite (m2g_bonds_closed _ (rm_bonds m) []) by (cbn [app]; rewrite EB; exact Hs).
  cbn [app]. rewrite EB. reflexivity.
Qed.

(** every atom is a node, keyed by index + 1, with the atom's labels and ITS atom map (0 when unmapped) *)
Lemma index_graph_label (m : rmol) i a : nth_error (rm_atoms m) i = Some a ->
  label (index_graph m) (N.of_nat i + 1) = Some (atom_node a).
Proof.
  intros E. unfold label, index_graph, index_nodes, enumerate. cbn [gnodes].
  assert (forall l s, nth_error l (i - s) = Some a -> (s <= i)%nat ->
            assoc (N.of_nat i + 1)%N (map (fun ia : nat * ratom => ((N.of_nat (fst ia) + 1)%N, atom_node (snd ia))) (combine (seq s (length l)) l)) = Some (atom_node a)) as K.
  { induction l as [|b l IH]; intros s En Hle; [destruct (i - s)%nat; discriminate|].
    cbn [length seq combine map assoc fst snd]. destruct (N.eqb_spec (N.of_nat i + 1) (N.of_nat s + 1)) as [Eq|Ne].
    - assert (i = s) as -> by lia. rewrite Nat.sub_diag in En. cbn in En. inversion En. reflexivity.
    - apply IH; [|lia]. replace (i - s)%nat with (S (i - S s)) in En by lia. exact En. }
  apply (K (rm_atoms m) 0%nat); [rewrite Nat.sub_0_r; exact E|lia].
Qed.

Definition ex_im : rmol := RM [RA 70%N false 3%Z 0%Z 0%N [82%N]; RA 82%N false 1%Z 0%Z 7%N [70%N]] [(0%nat, 1%nat, 2%Z)].
Example C01_mol_to_graph_index_nonvacuous :
  simple (index_bonds ex_im) /\ mol_to_graph false false ex_im = Some (index_graph ex_im) /\
  gnodes (index_graph ex_im) = [(1%N, atom_node (RA 70%N false 3%Z 0%Z 0%N [82%N])); (2%N, atom_node (RA 82%N false 1%Z 0%Z 7%N [70%N]))] /\
  gedges (index_graph ex_im) = [(1%N, 2%N, 2%Z)].
Proof. split; [repeat constructor|]. split; [reflexivity|]. split; reflexivity. Qed.
