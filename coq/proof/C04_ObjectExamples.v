(** C04 — non-vacuity examples for the theorems about the reactor object (props/C04.v: C04_in_results_engine_partial,
    C04_reads_coherent, C04_stale_after_crash, C04_reverse_reaction, C04_canonical_codes_faithful). *)
From Coq Require Import List NArith ZArith Bool Arith Lia Permutation SetoidList.
From SK Require Import lib.Tok lib.LGraph lib.Mono model.C06_Model lib.C06_Spec proof.C06_Main proof.C06_All model.C11_Model.
From SK Require Import model.C03_Model model.C04_Model model.C04_Reactor proof.C03_Proof proof.C04_Object proof.C04_Chain proof.C04_Prune proof.C04_Examples.
Import ListNotations.
Local Open Scope Z_scope.

(** CH3I + NH3 (exG / exH of proof/C04_Examples.v), centre template, forwards; VF2 := C06's verified enumerator *)
Definition oe_host : hostg := substrate false exG exH.
Definition oe_tpl : its := template true false exG exH.
Definition oe_left : molg := dec_side iG C03_Model.eG oe_tpl.
Definition oe_rule : triple := (oe_tpl, oe_left, dec_side iH C03_Model.eH oe_tpl).
Definition oe_enum := monos_on (tr_host oe_host) (tr_pat (pattern_of oe_left)).
Definition oe_opts : ropts := own_opts false false (SMember 0%N) None false.
(** "C[I].N" / "C[N+].[I-]" stand for what RDKit writes *)
Definition oe_r : bytes := [67; 73; 46; 78]%N.
Definition oe_p : bytes := [67; 91; 78; 43; 93; 46; 91; 73; 45; 93]%N.
Definition oe_ser : nat -> its -> option bytes * option bytes := fun _ _ => (Some oe_r, Some oe_p).

(** every hypothesis of C04_in_results_engine_partial holds here ... *)
Example oe_hyps :
  pair_wfb exG exH = true /\ no_explicit_H exG = true /\ centre_carries (its_construct exG exH) = true /\
  forallb (fun p : N * mnode => 0 <=? m_hc (snd p)) (gnodes (pattern_of oe_left)) = true /\
  (lenN (oe_enum (node_ids (tr_host oe_host)) (node_ids (tr_pat (pattern_of oe_left)))) <= dflt DEFAULT_THRESHOLD None)%N.
Proof. vm_compute. repeat split; try reflexivity. intros E; discriminate E. Qed.
Example oe_contract :
  vf2_contract oe_enum (tr_host oe_host) (tr_pat (pattern_of oe_left)) (node_ids (tr_host oe_host)) (node_ids (tr_pat (pattern_of oe_left))).
Proof.
  apply monos_on_contract.
  - apply gwfb_spec. vm_compute. reflexivity.
  - apply nodupb_spec. vm_compute. reflexivity.
  - apply nodupb_spec. vm_compute. reflexivity.
Qed.
(** ... and the conclusion is what one computes: one mapping, one ITS that decomposes to the reaction, one reaction string *)
Example oe_run :
  fst (run_script (api_engine oe_enum) no_rematch oe_ser oe_opts oe_host oe_rule [ACount; ASmarts; ASmiles; ASmarts] fresh) =
  [VNum (Some 1%N); VStrs (Some [oe_r ++ arrow ++ oe_p]); VStrs (Some [oe_p]); VStrs (Some [oe_r ++ arrow ++ oe_p])] /\
  match fst (read_its (api_engine oe_enum) no_rematch oe_opts oe_host oe_rule fresh) with
  | Some [T] => regen_exact T exG exH
  | _ => false
  end = true.
Proof. vm_compute. split; reflexivity. Qed.
(** backwards the strings are turned round again *)
Definition oe_rule_b : triple :=
  (template true true exG exH, dec_side iG C03_Model.eG (template true true exG exH), dec_side iH C03_Model.eH (template true true exG exH)).
Example oe_run_backwards :
  fst (read_smarts (api_engine (monos_on (tr_host (substrate true exG exH)) (tr_pat (pattern_of (snd (fst oe_rule_b))))))
                   no_rematch (fun _ _ => (Some oe_p, Some oe_r)) (own_opts true false (SMember 0%N) None false)
                   (substrate true exG exH) oe_rule_b fresh) = Some [oe_r ++ arrow ++ oe_p].
Proof. vm_compute. reflexivity. Qed.

(** C04_reads_coherent: its hypothesis (no StopIteration) holds for this reactor *)
Example oe_no_crash : forall ms, compute_mappings (api_engine oe_enum) oe_opts oe_host oe_rule = Some ms ->
  crashed no_rematch oe_opts oe_host oe_rule ms = false.
Proof. intros ms E. vm_compute in E. inversion E; subst. vm_compute. reflexivity. Qed.

(** C04_stale_after_crash: a rule object prepared by hand (implicit_h = False) whose oxygen loses a hydrogen (pair id 1)
    with no partner to take it, applied in the default mode to CH3OH . CH3OH (harness: hand:crash-rule, the same values on
    the implementation): the first read of its_list raises, the second returns two ITS graphs, smarts_list works *)
Definition cr_tpl : its :=
  LG [(1%N, IN (NA 79%N false 1 0 []) (NA 79%N false 0 (-1) []) 1 (Some [1%N])); (2%N, IN (NA 67%N false 0 0 []) (NA 67%N false 0 0 []) 0 None)]
     [(1%N, 2%N, (2, 2, 0))].
Definition cr_host : hostg :=
  LG [(1%N, NA 67%N false 3 0 []); (2%N, NA 79%N false 1 0 []); (3%N, NA 67%N false 3 0 []); (4%N, NA 79%N false 1 0 [])]
     [(1%N, 2%N, 2); (3%N, 4%N, 2)].
Definition cr_rule : triple := match synrule cr_tpl false with Some r => r | None => (LG [] [], LG [] [], LG [] []) end.
Definition cr_opts : ropts := RO false true false (SMember 0%N) None false.
Definition cr_raw : list C03_Model.mapping := [[(1%N, 2%N); (2%N, 1%N)]; [(1%N, 4%N); (2%N, 3%N)]].
Example cr_hyps :
  post_init_ok cr_opts = true /\ synrule cr_tpl false = Some cr_rule /\
  compute_mappings (const_engine cr_raw) cr_opts cr_host cr_rule = Some cr_raw /\
  crashed no_rematch cr_opts cr_host cr_rule cr_raw = true /\
  length (its_stored no_rematch cr_opts cr_host cr_rule cr_raw) = 2%nat.
Proof. vm_compute. repeat split; reflexivity. Qed.
Example cr_reads :
  map (fun v => match v with VIts None => 0%nat | VIts (Some gs) => S (length gs) | _ => 99%nat end)
      (fst (run_script (const_engine cr_raw) no_rematch (fun _ _ => (None, None)) cr_opts cr_host cr_rule [AIts; AIts; AIts] fresh))
  = [0; 3; 3]%nat.
Proof. vm_compute. reflexivity. Qed.

(** C04_reverse_reaction *)
Example rr_example : reverse_reaction (oe_r ++ arrow ++ oe_p) = oe_p ++ arrow ++ oe_r /\ last_piece (oe_r ++ arrow ++ oe_p) = oe_p /\
  no_gt oe_r /\ no_gt oe_p /\ reverse_reaction oe_r = oe_r /\ split_gg (arrow ++ arrow) [] = [[]; []; []].
Proof.
  vm_compute. repeat split; try reflexivity;
    intros c I; repeat (destruct I as [<-|I]; [intros E; discriminate E|]); destruct I.
Qed.

(** C04_canonical_codes_faithful: on the symmetric rule of ethane dehydrogenation the canonical codes identify the two
    carbons, so the swap IS found as an automorphism and the pruning merges the two matches *)
Example canon_codes_example :
  map (fun p => cn_of (template true false sG sH) (snd p)) (gnodes (template true false sG sH)) = [0%N; 0%N] /\
  C11_Model.prune (fun m : C03_Model.mapping => m) (rule_graph (template true false sG sH)) s_raw = [[(1%N, 2%N); (2%N, 1%N)]].
Proof. vm_compute. split; reflexivity. Qed.

(** C04_identity_default_end / C04_explicit_h_keeps_reaction: bromoethane + water written with explicit centre hydrogens
    (dG / dH of proof/C04_Examples.v), centre and full ITS, forwards and backwards: the hypotheses hold (d_default_hyps),
    _explicit_h does not raise on the glued ITS, it adds one hydrogen atom, and the result decomposes to the reaction in
    implicit-hydrogen normal form *)
From SK Require Import proof.C04_DefaultEnd.
Definition d_glued (core invert : bool) : option its :=
  match rule_of core invert dG dH with
  | Some (rc, l, _) => glue (substrate invert dG dH) rc (id_map (node_ids (pattern_of l)))
  | None => None
  end.
Example d_end_hyps :
  forallb (fun ci : bool * bool => match d_glued (fst ci) (snd ci) with
                                   | Some T => match explicit_h T with
                                               | Some (T', ms) => Nat.eqb (length ms) 1 && Nat.eqb (length (gnodes T')) (S (length (gnodes T)))
                                               | None => false end
                                   | None => false end)
          [(true, false); (false, false); (true, true); (false, true)] = true.
Proof. vm_compute. reflexivity. Qed.
Example d_end_regenerates :
  forallb (fun ci : bool * bool => match regenerate (fst ci) (snd ci) dG dH with
                                   | Some T' => regen_folded T' (if snd ci then dH else dG) (if snd ci then dG else dH)
                                                && negb (regen_exact T' (if snd ci then dH else dG) (if snd ci then dG else dH))
                                   | None => false end)
          [(true, false); (false, false); (true, true); (false, true)] = true.
Proof. vm_compute. reflexivity. Qed.

(** * strategies comp / bt lose an INTRAMOLECULAR reaction when a spectator molecule offers an intermolecular reading
    (witness of C04_comp_bt_refuted; harness: hand:intra-spectator, known findings *:centre:fwd:{comp,bt}:not-separating).
    5-bromopentan-1-ol cyclises; methanol is a spectator.  The centre pattern has two components (O ; C-Br), the substrate
    has two molecules; comp keeps only matches that put different pattern components into different molecules (C06's
    specification), so it returns the O of METHANOL with the C-Br of the bromo alcohol and not the identity; bt returns comp's
    non-empty answer. *)
Definition iG_ : hostg :=
  LG [(1%N, NA 79%N false 1 0 [67%N]); (2%N, NA 67%N false 2 0 [67%N; 79%N]); (3%N, NA 67%N false 2 0 [67%N; 67%N]);
      (4%N, NA 67%N false 2 0 [67%N; 67%N]); (5%N, NA 67%N false 2 0 [17010%N; 67%N]); (6%N, NA 17010%N false 0 0 [67%N]);
      (7%N, NA 67%N false 3 0 [79%N]); (8%N, NA 79%N false 1 0 [67%N])]
     [(1%N, 2%N, 2); (2%N, 3%N, 2); (3%N, 4%N, 2); (4%N, 5%N, 2); (5%N, 6%N, 2); (7%N, 8%N, 2)].
Definition iH_ : hostg :=
  LG [(1%N, NA 79%N false 0 0 [67%N; 67%N]); (2%N, NA 67%N false 2 0 [67%N; 79%N]); (3%N, NA 67%N false 2 0 [67%N; 67%N]);
      (4%N, NA 67%N false 2 0 [67%N; 67%N]); (5%N, NA 67%N false 2 0 [67%N; 79%N]); (6%N, NA 17010%N false 1 0 []);
      (7%N, NA 67%N false 3 0 [79%N]); (8%N, NA 79%N false 1 0 [67%N])]
     [(1%N, 2%N, 2); (1%N, 5%N, 2); (2%N, 3%N, 2); (3%N, 4%N, 2); (4%N, 5%N, 2); (7%N, 8%N, 2)].
Definition i_rule : triple := match rule_of true false iG_ iH_ with Some r => r | None => (LG [] [], LG [] [], LG [] []) end.
Definition i_host : hostg := substrate false iG_ iH_.
Definition i_pat : molg := pattern_of (snd (fst i_rule)).
Definition i_enum := monos_on (tr_host i_host) (tr_pat i_pat).
Definition s_comp_ : sarg := SStr [99; 111; 109; 112]%N.
Definition s_bt_ : sarg := SStr [98; 116]%N.
Definition i_regenerates (s : sarg) : bool :=
  match read_its (api_engine i_enum) no_rematch (own_opts false false s None false) i_host i_rule fresh with
  | (Some gs, _) => existsb (fun T => regen_folded T iG_ iH_) gs
  | _ => false
  end.
Example intra_spectator_witness :
  pair_wfb iG_ iH_ = true /\ no_explicit_H iG_ = true /\ consistent_H (its_construct iG_ iH_) = true /\
  centre_carries (its_construct iG_ iH_) = true /\ rule_of true false iG_ iH_ = Some i_rule /\
  match_okb i_host i_pat (id_map (node_ids i_pat)) = true /\
  (* where the oxygen (pattern atom 1) goes in the kept mappings: the own oxygen 1 or methanol's 8 *)
  option_map (map (fun m => mget m 1%N)) (compute_mappings (api_engine i_enum) (own_opts false false (SMember 0%N) None false) i_host i_rule)
    = Some [Some 1%N; Some 8%N] /\
  option_map (map (fun m => mget m 1%N)) (compute_mappings (api_engine i_enum) (own_opts false false s_comp_ None false) i_host i_rule) = Some [Some 8%N] /\
  option_map (map (fun m => mget m 1%N)) (compute_mappings (api_engine i_enum) (own_opts false false s_bt_ None false) i_host i_rule) = Some [Some 8%N] /\
  i_regenerates (SMember 0%N) = true /\ i_regenerates s_comp_ = false /\ i_regenerates s_bt_ = false.
Proof. vm_compute. repeat split; reflexivity. Qed.
Lemma comp_bt_refuted : exists (G H : hostg) (rule : triple),
  pair_wfb G H = true /\ no_explicit_H G = true /\ consistent_H (its_construct G H) = true /\
  centre_carries (its_construct G H) = true /\ rule_of true false G H = Some rule /\
  let host := substrate false G H in
  let pat := pattern_of (snd (fst rule)) in
  let enum := monos_on (tr_host host) (tr_pat pat) in
  let regenerates (s : sarg) :=
    match read_its (api_engine enum) no_rematch (own_opts false false s None false) host rule fresh with
    | (Some gs, _) => existsb (fun T => regen_folded T G H) gs
    | _ => false
    end in
  match_okb host pat (id_map (node_ids pat)) = true /\
  regenerates (SMember 0%N) = true /\ regenerates (SStr [99; 111; 109; 112]%N) = false /\ regenerates (SStr [98; 116]%N) = false.
Proof.
  exists iG_, iH_, i_rule. destruct intra_spectator_witness as (H1 & H2 & H3 & H4 & H5 & H6 & _ & _ & _ & H7 & H8 & H9).
  repeat split; assumption.
Qed.

(** C04_identity_match_default / C04_in_results_engine_default_partial: bromoethane + water with explicit centre hydrogens
    (dG / dH), all four template / direction combinations, VF2 := the verified enumerator: the boolean hypotheses hold,
    _explicit_h raises on no glued ITS, and the reactor's its_list contains an ITS that folds to the reaction *)
From SK Require Import proof.C04_DefaultChain.
Definition dc_ok (core invert : bool) : bool :=
  match rule_of core invert dG dH with
  | None => false
  | Some (rc, l, r) =>
      let host := substrate invert dG dH in
      let enum := monos_on (tr_host host) (tr_pat l) in
      let o := own_opts invert true (SMember 0%N) None false in
      forallb (fun p : N * mnode => 0 <=? m_hc (snd p)) (gnodes l)
      && negb (has_XH l) && match_okb host (pattern_of l) (id_map (node_ids (pattern_of l)))
      && (lenN (enum (node_ids (tr_host host)) (node_ids (tr_pat l))) <=? 5000)%N
      && C06_Model.gwfb (tr_pat l) && C06_Model.nodupb (node_ids (tr_host host))
      && match compute_mappings (api_engine enum) o host (rc, l, r) with
         | Some ms => negb (crashed no_rematch o host (rc, l, r) ms)
         | None => false end
      && match read_its (api_engine enum) no_rematch o host (rc, l, r) fresh with
         | (Some gs, _) => existsb (fun T' => regen_folded T' (if invert then dH else dG) (if invert then dG else dH)) gs
         | _ => false end
  end.
Example default_chain_example : forallb (fun ci : bool * bool => dc_ok (fst ci) (snd ci)) [(true, false); (false, false); (true, true); (false, true)] = true.
Proof. vm_compute. reflexivity. Qed.

(** C04_comp_regenerates_partial / C04_bt_regenerates_partial: the cyclisation of 5-bromopentan-1-ol WITHOUT the spectator
    (one molecule, centre pattern with two components: fewer substrate components than pattern components, comp is then
    exhaustive): the hypotheses hold, and comp / bt regenerate the reaction *)
From SK Require Import proof.C06_Main proof.C04_Glue proof.C04_Template proof.C04_Proof proof.C04_CompBt.
Definition rG_ : hostg :=
  LG [(1%N, NA 79%N false 1 0 [67%N]); (2%N, NA 67%N false 2 0 [67%N; 79%N]); (3%N, NA 67%N false 2 0 [67%N; 67%N]);
      (4%N, NA 67%N false 2 0 [67%N; 67%N]); (5%N, NA 67%N false 2 0 [17010%N; 67%N]); (6%N, NA 17010%N false 0 0 [67%N])]
     [(1%N, 2%N, 2); (2%N, 3%N, 2); (3%N, 4%N, 2); (4%N, 5%N, 2); (5%N, 6%N, 2)].
Definition rH_ : hostg :=
  LG [(1%N, NA 79%N false 0 0 [67%N; 67%N]); (2%N, NA 67%N false 2 0 [67%N; 79%N]); (3%N, NA 67%N false 2 0 [67%N; 67%N]);
      (4%N, NA 67%N false 2 0 [67%N; 67%N]); (5%N, NA 67%N false 2 0 [67%N; 79%N]); (6%N, NA 17010%N false 1 0 [])]
     [(1%N, 2%N, 2); (1%N, 5%N, 2); (2%N, 3%N, 2); (3%N, 4%N, 2); (4%N, 5%N, 2)].
Definition r_tpl : its := template true false rG_ rH_.
Definition r_l : molg := dec_side iG C03_Model.eG r_tpl.
Example comp_bt_hyps :
  pair_wf rG_ rH_ /\ describes rG_ rH_ r_tpl /\ left_of r_tpl r_l /\ has_XH r_l = false /\
  forallb (fun p : N * mnode => 0 <=? m_hc (snd p)) (gnodes r_l) = true /\
  gwf (tr_host rG_) /\ gwf (tr_pat r_l) /\ oracle_ok (monos_on (tr_host rG_) (tr_pat r_l)) (tr_host rG_) (tr_pat r_l) /\
  (0 <? length (comps (tr_pat r_l)))%nat && (length (comps (tr_pat r_l)) <? length (comps (tr_host rG_)))%nat = false /\
  (length (comps (tr_host rG_)) <? length (comps (tr_pat r_l)))%nat = true.
Proof.
  assert (W : pair_wfb rG_ rH_ = true) by (vm_compute; reflexivity).
  assert (NH : no_explicit_H rG_ = true) by (vm_compute; reflexivity).
  assert (CC : true = true -> centre_carries (its_construct rG_ rH_) = true) by (intros _; vm_compute; reflexivity).
  pose proof (template_describes true false rG_ rH_ W NH CC) as D. cbn [negb] in D. fold r_tpl in D.
  assert (GH : gwf (tr_host rG_)) by (apply gwfb_spec; vm_compute; reflexivity).
  assert (GP : gwf (tr_pat r_l)) by (apply gwfb_spec; vm_compute; reflexivity).
  split; [exact (proj1 (pair_wfb_sound rG_ rH_ W))|]. split; [exact D|].
  split; [exact (own_left_of r_tpl (d_wf _ _ _ D))|]. split; [vm_compute; reflexivity|]. split; [vm_compute; reflexivity|].
  split; [exact GH|]. split; [exact GP|]. split; [exact (monos_on_oracle_ok _ _ GH GP)|]. split; vm_compute; reflexivity.
Qed.
Example comp_bt_values :
  forallb (fun s : sarg =>
             match read_its (api_engine (monos_on (tr_host rG_) (tr_pat r_l))) no_rematch (own_opts false false s (Some 100%N) false)
                            rG_ (r_tpl, r_l, dec_side iH C03_Model.eH r_tpl) fresh with
             | (Some gs, _) => existsb (fun T => regen_exact T rG_ rH_) gs
             | _ => false end) [SMember 0%N; SMember 1%N; SMember 2%N] = true.
Proof. vm_compute. reflexivity. Qed.

(** C04_separating_boolean: the boolean is true on CH3I + NH3 (two pattern components C-I ; N in two molecules) and false on
    the refutation witness (O and C-Br of one molecule) *)
Example separating_values :
  id_separatingb (tr_host oe_host) (tr_pat (pattern_of oe_left)) = true /\ id_separatingb (tr_host i_host) (tr_pat i_pat) = false /\
  length (comps (tr_pat (pattern_of oe_left))) = 2%nat /\ length (comps (tr_host oe_host)) = 2%nat /\
  length (comps (tr_pat i_pat)) = 2%nat /\ length (comps (tr_host i_host)) = 2%nat.
Proof. vm_compute. repeat split; reflexivity. Qed.

(** C04_own_comp_default / C04_own_bt_default (and the implicit twins: comp_bt_hyps above): on bromoethane + water written with
    explicit centre hydrogens the premises hold for the centre and the full ITS, forwards; the identity separates *)
Definition dcb_ok (core : bool) : bool :=
  match rule_of core false dG dH with
  | None => false
  | Some (rc, l, r) =>
      let Hh := tr_host (substrate false dG dH) in let Pp := tr_pat l in
      forallb (fun p : N * mnode => 0 <=? m_hc (snd p)) (gnodes l) && C06_Model.gwfb Hh && C06_Model.gwfb Pp
      && negb ((0 <? length (comps Pp))%nat && (length (comps Pp) <? length (comps Hh))%nat)
      && id_separatingb Hh Pp
  end.
Example own_default_comp_bt_hyps : dcb_ok true = true /\ dcb_ok false = true.
Proof. vm_compute. split; reflexivity. Qed.

(** * strategy comp in the strict_cc_count guard region (witness of C04_comp_guard_refuted; harness: hand:spectator-water, known
    findings *:comp:guard): CH3Br + OH- -> CH3OH + Br- next to a spectator water.  The centre pattern has two components (C-Br ; O),
    the substrate three molecules: comp returns no match at all, so its_list is empty; all and bt regenerate. *)
Definition gG_ : hostg :=
  LG [(1%N, NA 67%N false 3 0 [17010%N]); (2%N, NA 17010%N false 0 0 [67%N]); (3%N, NA 79%N false 1 (-1) []); (4%N, NA 79%N false 2 0 [])]
     [(1%N, 2%N, 2)].
Definition gH_ : hostg :=
  LG [(1%N, NA 67%N false 3 0 [79%N]); (3%N, NA 79%N false 1 0 [67%N]); (2%N, NA 17010%N false 0 (-1) []); (4%N, NA 79%N false 2 0 [])]
     [(1%N, 3%N, 2)].
Definition g_rule : triple := match rule_of true false gG_ gH_ with Some r => r | None => (LG [] [], LG [] [], LG [] []) end.
Definition g_host : hostg := substrate false gG_ gH_.
Definition g_pat : molg := pattern_of (snd (fst g_rule)).
Definition g_its (s : sarg) : option (list its) :=
  fst (read_its (api_engine (monos_on (tr_host g_host) (tr_pat g_pat))) no_rematch (own_opts false false s None false) g_host g_rule fresh).
Lemma comp_guard_refuted : exists (G H : hostg) (rule : triple),
  pair_wfb G H = true /\ no_explicit_H G = true /\ consistent_H (its_construct G H) = true /\
  centre_carries (its_construct G H) = true /\ rule_of true false G H = Some rule /\
  let host := substrate false G H in
  let pat := pattern_of (snd (fst rule)) in
  let enum := monos_on (tr_host host) (tr_pat pat) in
  let its_under (s : sarg) := fst (read_its (api_engine enum) no_rematch (own_opts false false s None false) host rule fresh) in
  match_okb host pat (id_map (node_ids pat)) = true /\
  (length (comps (tr_pat pat)) < length (comps (tr_host host)))%nat /\
  its_under (SStr [99; 111; 109; 112]%N) = Some [] /\
  (exists T, its_under (SMember 0%N) = Some [T] /\ regen_exact T G H = true) /\
  (exists T, its_under (SStr [98; 116]%N) = Some [T] /\ regen_exact T G H = true).
Proof.
  exists gG_, gH_, g_rule.
  assert (E0 : exists T, g_its (SMember 0%N) = Some [T] /\ regen_exact T gG_ gH_ = true).
  { destruct (g_its (SMember 0%N)) as [[|T [|]]|] eqn:E; try (vm_compute in E; discriminate E).
    exists T. split; [reflexivity|]. assert (E' : Some [T] = g_its (SMember 0%N)) by (symmetry; exact E).
    vm_compute in E'. inversion E'; subst T. vm_compute. reflexivity. }
  assert (E2 : exists T, g_its (SStr [98; 116]%N) = Some [T] /\ regen_exact T gG_ gH_ = true).
  { destruct (g_its (SStr [98; 116]%N)) as [[|T [|]]|] eqn:E; try (vm_compute in E; discriminate E).
    exists T. split; [reflexivity|]. assert (E' : Some [T] = g_its (SStr [98; 116]%N)) by (symmetry; exact E).
    vm_compute in E'. inversion E'; subst T. vm_compute. reflexivity. }
  split; [vm_compute; reflexivity|]. split; [vm_compute; reflexivity|]. split; [vm_compute; reflexivity|].
  split; [vm_compute; reflexivity|]. split; [vm_compute; reflexivity|]. cbv zeta.
  split; [vm_compute; reflexivity|]. split; [vm_compute; lia|]. split; [vm_compute; reflexivity|].
  split; [exact E0|exact E2].
Qed.
