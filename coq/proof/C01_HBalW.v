(** C01 — the RWMol content GraphToMol hands to RDKit stands for as many hydrogens as the graph it was built from; with
    theorem 44: as many as the decomposed side of the ITS *)
From Coq Require Import List NArith ZArith Bool Lia Arith.
From SK Require Import lib.LGraph lib.C01_GraphLemmas model.C01_Model model.C02_Model model.C01_String model.C01_HBal
  proof.C01_Proof proof.C01_StringProof proof.C01_StringPipe proof.C01_HBalProof proof.C01_HBalEH.
Import ListNotations.
Local Open Scope Z_scope.

Definition w_total (w : wmol) : Z := sumZ (fun a => if N.eqb (w_el a) EL_H then 1 else w_hs a) (fst w).

Lemma sumZ_map {X Y} (f : Y -> Z) (h : X -> Y) l : sumZ f (map h l) = sumZ (fun x => f (h x)) l.
Proof. induction l as [|a l IH]; [reflexivity|]. cbn [map]. rewrite !sumZ_cons, IH. reflexivity. Qed.

Theorem wmol_total (g : mgraph) w : wf g -> graph_to_wmol g = Some w -> w_total w = h_total g.
Proof.
  intros W E. destruct (graph_to_wmol_spec g) as [_ Spec]. destruct (Spec w E) as (A & _).
  unfold w_total, h_total. rewrite A, sumZ_map. unfold node_ids.
  rewrite <- (sum_over_assoc (fun a : gnode => if N.eqb (w_el (watom_of a)) EL_H then 1 else w_hs (watom_of a)) (gnodes g) (proj1 W)).
  apply sumZ_ext_in. intros n _. unfold h_weight, label. destruct (assoc n (gnodes g)) as [a|]; reflexivity.
Qed.

Corollary its_to_wmols_total (I : its) wr wp : wf I -> its_to_wmols I = Some (wr, wp) ->
  (one_parent (fst (its_decompose I)) -> w_total wr = h_total (fst (its_decompose I))) /\
  (one_parent (snd (its_decompose I)) -> w_total wp = h_total (snd (its_decompose I))).
Proof.
  intros W E. unfold its_to_wmols in E.
  destruct (graph_to_wmol (fst (its_to_graphs I))) as [a|] eqn:Ea; [|discriminate].
  destruct (graph_to_wmol (snd (its_to_graphs I))) as [b|] eqn:Eb; [|discriminate]. inversion E; subst a b.
  destruct (its_to_graphs_balance I W) as [Bg Bh].
  assert (forall (X : mgraph) hl, wf X -> wf (smi_graph X hl)) as SW
    by (intros X hl WX; destruct hl; [exact WX|apply C01_StringPipeH.ih_wf; exact WX]).
  split; intros OP.
  - rewrite <- (Bg OP). apply wmol_total; [|exact Ea]. unfold its_to_graphs. cbn [fst]. apply SW. apply dec_wf. exact W.
  - rewrite <- (Bh OP). apply wmol_total; [|exact Eb]. unfold its_to_graphs. cbn [snd]. apply SW. apply dec_wf. exact W.
Qed.
