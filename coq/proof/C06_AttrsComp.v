(** C06 — the component-aware and the fallback strategy on the caller's graphs (attribute
    dictionaries + selections): the second sentence of the property in that vocabulary. *)
From Coq Require Import List NArith Bool Arith Lia Permutation SetoidList Relations.
From SK Require Import lib.LGraph lib.Mono lib.Reach model.C06_Model model.C06_Attrs lib.C06_Spec lib.C06_SelSpec
  proof.C06_All proof.C06_Comp proof.C06_Comps proof.C06_Main proof.C06_Attrs proof.C06_AttrsSpec proof.C06_AttrsEx.
Import ListNotations.

(** connectivity of the caller's graph: reflexive-transitive closure of "joined by an edge" *)
Definition rconn (g : rgraph) : N -> N -> Prop := clos_refl_trans N (fun a b => LGraph.adj g a b <> None).

(** different pattern components go to different host components *)
Definition rseparating (H P : rgraph) (m : mapping) : Prop :=
  forall p h p' h', In (p, h) m -> In (p', h') m -> rconn H h h' -> rconn P p p'.

Lemma adjacent_project na ea (g : rgraph) a b :
  adjacent (project na ea g) a b <-> LGraph.adj g a b <> None.
Proof.
  unfold adjacent. rewrite adj_project. destruct (LGraph.adj g a b); simpl; split; intros Hx; try congruence.
Qed.

Lemma gconn_project na ea (g : rgraph) a b : gconn (project na ea g) a b <-> rconn g a b.
Proof.
  unfold gconn, rconn. split; intros Hc.
  - induction Hc as [x y Hxy|x|x y z _ IH1 _ IH2].
    + apply rt_step. apply (adjacent_project na ea). exact Hxy.
    + apply rt_refl.
    + exact (rt_trans _ _ _ _ _ IH1 IH2).
  - induction Hc as [x y Hxy|x|x y z _ IH1 _ IH2].
    + apply rt_step. apply (adjacent_project na ea). exact Hxy.
    + apply rt_refl.
    + exact (rt_trans _ _ _ _ _ IH1 IH2).
Qed.

Lemma separating_project na ea (H P : rgraph) m :
  separating (project na ea H) (project na ea P) m <-> rseparating H P m.
Proof.
  unfold separating, rseparating. split; intros Hs p h p' h' I1 I2 Hc.
  - apply (gconn_project na ea). apply (Hs p h p' h' I1 I2). apply (gconn_project na ea). exact Hc.
  - apply (gconn_project na ea). apply (Hs p h p' h' I1 I2). apply (gconn_project na ea). exact Hc.
Qed.

(** component-aware strategy, no limits, enumerator run with the closures.  [comps (project na ea g)]
    lists the connectivity classes of [g] (C06_components) and does not depend on the selections
    ([comps_project_sel]). *)
Theorem sel_comp_spec na ea strict (H P : rgraph) :
  rgwf H -> rgwf P ->
  exists T0 : N, forall T : N, (T0 <= T)%N ->
  let R := find_sel (monos_sel na ea H P) (Cfg 1 0 T strict false) na ea H P in
  let hcc := length (comps (project na ea H)) in
  let pcc := length (comps (project na ea P)) in
  NoDupA (@Permutation (N * N)) R /\
  if (0 <? pcc) && (pcc <? hcc) && strict then R = []
  else if hcc <? pcc then
    (forall m, In m R -> is_mono_sel na ea H P m) /\
    (forall m, is_mono_sel na ea H P m -> exists m', In m' R /\ Permutation m m')
  else
    (forall m, In m R -> is_mono_sel na ea H P m /\ rseparating H P m) /\
    (forall m, is_mono_sel na ea H P m -> rseparating H P m -> exists m', In m' R /\ Permutation m m').
Proof.
  intros HH HP.
  pose proof (gwf_project na ea H HH) as GH. pose proof (gwf_project na ea P HP) as GP.
  destruct (comp_spec (monos_on (project na ea H) (project na ea P)) strict _ _ GH GP
              (monos_on_oracle_ok _ _ GH GP)) as (T0 & HT0).
  exists T0. intros T HT. cbv zeta. rewrite find_sel_project.
  specialize (HT0 T HT). cbv zeta in HT0. destruct HT0 as [Hnd Hcase]. split; [exact Hnd|].
  destruct ((0 <? length (comps (project na ea P))) && (length (comps (project na ea P)) <? length (comps (project na ea H))) && strict);
    [exact Hcase|].
  destruct (length (comps (project na ea H)) <? length (comps (project na ea P))).
  - destruct Hcase as [S1 S2]. split.
    + intros m Hm. apply is_mono_project. exact (S1 m Hm).
    + intros m Hm. apply S2. apply is_mono_project. exact Hm.
  - destruct Hcase as [S1 S2]. split.
    + intros m Hm. destruct (S1 m Hm) as [A B]. split; [apply is_mono_project; exact A|apply (separating_project na ea); exact B].
    + intros m Hm Hs. apply S2; [apply is_mono_project; exact Hm|apply (separating_project na ea); exact Hs].
Qed.

(** fallback strategy, no limits: the component-aware result if non-empty, the exhaustive one otherwise *)
Theorem sel_bt_spec na ea strict (H P : rgraph) :
  exists T0 : N, forall T : N, (T0 <= T)%N ->
  find_sel (monos_sel na ea H P) (Cfg 2 0 T strict false) na ea H P =
  match find_sel (monos_sel na ea H P) (Cfg 1 0 T strict false) na ea H P with
  | [] => find_sel (monos_sel na ea H P) (Cfg 0 0 T strict false) na ea H P
  | primary => primary
  end.
Proof.
  destruct (bt_spec_unlimited (monos_sel na ea H P) strict (project na ea H) (project na ea P)) as (T0 & HT0).
  exists T0. intros T HT. unfold find_sel. exact (HT0 T HT).
Qed.

(** the number of components does not depend on the selections *)
Lemma comps_count_sel na ea na' ea' (g : rgraph) :
  length (comps (project na ea g)) = length (comps (project na' ea' g)).
Proof. rewrite (comps_project_sel na ea na' ea' g). reflexivity. Qed.

(** ---------- non-vacuity ---------- *)
(** host of AttrsEx: ethanol-like 1-2-3 plus an isolated O 4 (two components); pattern C-O (one component).
    Skeleton selection: the component-aware search without strict_cc_count finds the separating match,
    with strict_cc_count it returns [] and bt falls back to the exhaustive search *)
Example ex_sel_comp_values :
  find_sel (monos_sel [1%N; 2%N] [] Hr Pr) (Cfg 1 0 5000 false false) [1%N; 2%N] [] Hr Pr = [[(11, 3); (10, 2)]%N] /\
  find_sel (monos_sel [1%N; 2%N] [] Hr Pr) (Cfg 1 0 5000 true false) [1%N; 2%N] [] Hr Pr = [] /\
  find_sel (monos_sel [1%N; 2%N] [] Hr Pr) (Cfg 2 0 5000 true false) [1%N; 2%N] [] Hr Pr = [[(11, 3); (10, 2)]%N] /\
  length (comps (project [1%N; 2%N] [] Hr)) = 2 /\ length (comps (project [1%N; 2%N] [] Pr)) = 1.
Proof. vm_compute. repeat split; reflexivity. Qed.

Example ex_sel_comp_spec : exists T0 : N, forall T : N, (T0 <= T)%N ->
  NoDupA (@Permutation (N * N)) (find_sel (monos_sel [1%N; 2%N] [] Hr Pr) (Cfg 1 0 T false false) [1%N; 2%N] [] Hr Pr).
Proof.
  destruct (sel_comp_spec [1%N; 2%N] [] false Hr Pr Hr_wf Pr_wf) as (T0 & HT0).
  exists T0. intros T HT. exact (proj1 (HT0 T HT)).
Qed.

Example ex_rseparating : rseparating Hr Pr [(11, 3); (10, 2)]%N /\ ~ rconn Hr 3%N 4%N.
Proof.
  split.
  - intros p h p' h' I1 I2 _.
    assert (Hp : (p = 10 \/ p = 11)%N) by (destruct I1 as [E|[E|[]]]; inversion E; auto).
    assert (Hp' : (p' = 10 \/ p' = 11)%N) by (destruct I2 as [E|[E|[]]]; inversion E; auto).
    assert (A : LGraph.adj Pr 10%N 11%N <> None) by (vm_compute; discriminate).
    assert (B : LGraph.adj Pr 11%N 10%N <> None) by (vm_compute; discriminate).
    destruct Hp as [->| ->], Hp' as [->| ->]; try apply rt_refl; apply rt_step; assumption.
  - intros Hc. apply (gconn_project [] [] Hr) in Hc.
    pose proof (gwf_project [] [] Hr Hr_wf) as G.
    destruct (comps_cover _ G 3%N) as (c & Hc3 & Hin3); [vm_compute; auto|].
    assert (In 4%N c) by (apply (proj2 (proj2 (proj2 (comps_class _ G c Hc3))) 3%N 4%N Hin3); exact Hc).
    revert Hc3 Hin3 H. vm_compute. intros [<-|[<-|[]]]; simpl; intuition discriminate.
Qed.

(** the call with every option omitted, on the caller's graphs (threshold 5000 not binding) *)
Theorem sel_default_call na ea (H P : rgraph) :
  rgwf H -> rgwf P ->
  (forall T', (5000 <= T')%N ->
     find_sel (monos_sel na ea H P) (Cfg 1 0 T' true false) na ea H P =
     find_sel (monos_sel na ea H P) (Cfg 1 0 5000 true false) na ea H P) ->
  exists R, find_api (monos_sel na ea H P) SDefault None None None None (project na ea H) (project na ea P) = Result R /\
  let hcc := length (comps (project na ea H)) in
  let pcc := length (comps (project na ea P)) in
  NoDupA (@Permutation (N * N)) R /\
  if (0 <? pcc) && (pcc <? hcc) then R = []
  else if hcc <? pcc then
    (forall m, In m R -> is_mono_sel na ea H P m) /\
    (forall m, is_mono_sel na ea H P m -> exists m', In m' R /\ Permutation m m')
  else
    (forall m, In m R -> is_mono_sel na ea H P m /\ rseparating H P m) /\
    (forall m, is_mono_sel na ea H P m -> rseparating H P m -> exists m', In m' R /\ Permutation m m').
Proof.
  intros HH HP Hnb.
  exists (find_sel (monos_sel na ea H P) (Cfg 1 0 5000 true false) na ea H P). split; [reflexivity|].
  destruct (sel_comp_spec na ea true H P HH HP) as (T0 & HT0). cbv zeta.
  specialize (HT0 (N.max 5000 T0) ltac:(lia)). cbv zeta in HT0.
  rewrite (Hnb (N.max 5000 T0)) in HT0 by lia. rewrite andb_true_r in HT0. exact HT0.
Qed.

(** non-vacuity of [sel_default_call]: its premises hold for the pair of proof/C06_AttrsEx.v (the default call
    returns [] there: the host has two components, the pattern one, strict_cc_count is on by default) *)
Example ex_sel_default_call :
  exists R, find_api (monos_sel [1%N; 2%N] [] Hr Pr) SDefault None None None None (project [1%N; 2%N] [] Hr) (project [1%N; 2%N] [] Pr) = Result R /\ R = [].
Proof.
  destruct (sel_default_call [1%N; 2%N] [] Hr Pr Hr_wf Pr_wf) as (R & HR & _ & Hcase).
  - intros T' HT. unfold find_sel.
    rewrite !(find_comp_unlimited (monos_sel [1%N; 2%N] [] Hr Pr)); [reflexivity| |];
      (eapply N.le_trans; [|try exact HT; apply N.le_refl]); vm_compute; discriminate.
  - exists R. split; [exact HR|].
    assert (E : (0 <? length (comps (project [1%N; 2%N] [] Pr))) && (length (comps (project [1%N; 2%N] [] Pr)) <? length (comps (project [1%N; 2%N] [] Hr))) = true)
      by (vm_compute; reflexivity).
    rewrite E in Hcase. exact Hcase.
Qed.
