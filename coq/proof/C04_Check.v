(** C04 — soundness of the boolean [describesb] and the regeneration theorem for ANY rule that passes it
    (used as a per-case validation of the rule preparation in both hydrogen modes). *)
From Coq Require Import List NArith ZArith Bool Lia Permutation.
From SK Require Import lib.Tok lib.LGraph model.C03_Model model.C04_Model proof.C03_Proof proof.C03_Glue proof.C03_Backward
                       proof.C04_Glue proof.C04_Template proof.C04_Any.
Import ListNotations.
Local Open Scope Z_scope.

Lemma node_fitb_sound a x y : node_fitb a x y = true -> node_fit a x y.
Proof.
  unfold node_fitb, node_fit. intros H.
  apply andb_prop in H. destruct H as [H H6]. apply andb_prop in H. destruct H as [H H5]. apply andb_prop in H. destruct H as [H H4].
  apply andb_prop in H. destruct H as [H H3]. apply andb_prop in H. destruct H as [H1 H2].
  apply N.eqb_eq in H1. apply N.eqb_eq in H2. apply Z.eqb_eq in H3. apply Z.eqb_eq in H4. apply Z.leb_le in H5. apply Z.eqb_eq in H6.
  auto 10.
Qed.

Lemma describesb_sound A B t : pair_wf A B -> describesb A B t = true -> describes A B t.
Proof.
  intros PW H. unfold describesb in H.
  apply andb_prop in H. destruct H as [H H6]. apply andb_prop in H. destruct H as [H H5]. apply andb_prop in H. destruct H as [H H4].
  apply andb_prop in H. destruct H as [H H3]. apply andb_prop in H. destruct H as [H1 H2].
  rewrite forallb_forall in H2, H3, H4, H5, H6.
  pose proof (pw_A _ _ PW) as HA. pose proof (pw_B _ _ PW) as HB.
  constructor; [constructor|..].
  - exact H1.
  - intros n a I. specialize (H2 _ I). simpl in H2. destruct (label A n) as [x|]; [|discriminate].
    destruct (label B n) as [y|]; [|discriminate]. exists x, y. split; [reflexivity|]. split; [reflexivity|]. apply node_fitb_sound. exact H2.
  - intros u v x I. specialize (H3 _ I). simpl in H3.
    apply andb_prop in H3. destruct H3 as [H3 E4]. apply andb_prop in H3. destruct H3 as [H3 E3]. apply andb_prop in H3. destruct H3 as [E1 E2].
    repeat split; [apply mem_spec; exact E1|apply mem_spec; exact E2|apply Z.eqb_eq; exact E3|apply Z.eqb_eq; exact E4].
  - intros u v NE.
    assert (K : forall (X Y : hostg), wf_hostb X = true ->
              (forall e, In e (gedges X) -> (let '(p, q, o) := e in Z.eqb o (order_in Y p q) || has_adj t p q) = true) ->
              forall o, adj X u v = Some o -> order_in X u v <> order_in Y u v -> exists x, adj t u v = Some x).
    { intros X Y HX HF o Ea NE'. pose proof Ea as Ea'. unfold adj in Ea. apply find_edge_in in Ea. destruct Ea as (p & q & I & Hp).
      specialize (HF _ I). simpl in HF. apply orb_prop in HF. destruct HF as [HF|HF].
      - exfalso. apply Z.eqb_eq in HF. apply NE'. unfold order_in at 1. rewrite Ea'. rewrite HF. apply order_in_peq. exact Hp.
      - unfold has_adj in HF. destruct (adj t p q) as [x|] eqn:Et; [|discriminate]. exists x.
        unfold adj in *. rewrite <- (find_edge_peq (gedges t) p q u v Hp). exact Et. }
    destruct (adj A u v) as [o|] eqn:Ea.
    + exact (K A B HA H4 o Ea NE).
    + destruct (adj B u v) as [o|] eqn:Eb.
      * exact (K B A HB H5 o Eb (not_eq_sym NE)).
      * exfalso. apply NE. unfold order_in. rewrite Ea, Eb. reflexivity.
  - intros n x y Ex Ey NE. specialize (H6 (n, x) (assoc_in n (gnodes A) Ex)). simpl in H6. rewrite Ey in H6.
    apply orb_prop in H6. destruct H6 as [H6|H6]; [|apply mem_spec; exact H6]. exfalso. apply NE.
    unfold same3 in H6. apply andb_prop in H6. destruct H6 as [H6 E3]. apply andb_prop in H6. destruct H6 as [E1 E2].
    apply N.eqb_eq in E1. apply Z.eqb_eq in E2. apply Z.eqb_eq in E3. unfold sel. congruence.
Qed.

(** for ANY rule that describes the pair (A, B) -- whatever prepared it -- the identity is a valid match on A and gluing
    along it gives an ITS that decomposes to (A, B) *)
Theorem glue_any_rule (A B : hostg) (rc : its) :
  pair_wfb A B = true -> describesb A B rc = true ->
  match_rcb A rc (id_map (node_ids rc)) = true /\
  exists T : its, glue A rc (id_map (node_ids rc)) = Some T /\ regen_exact T A B = true.
Proof.
  intros W Hd. destruct (pair_wfb_sound A B W) as (PW & _ & _).
  pose proof (describesb_sound A B rc PW Hd) as D. split.
  - exact (identity_match_rc A B rc D).
  - destruct (identity_glue_some A B rc PW D) as [T ET]. exists T. split; [exact ET|].
    exact (regen_exact_true A B rc PW D T ET).
Qed.

(** ... and so does the identity composed with any symmetry of that rule (what the pruning may keep instead) *)
Theorem glue_any_rule_symmetric (A B : hostg) (rc : its) (s s' : N -> N) :
  pair_wfb A B = true -> describesb A B rc = true -> rule_aut rc s s' ->
  match_rcb A rc (aut_map rc s) = true /\
  exists T : its, glue A rc (aut_map rc s) = Some T /\ regen_exact T A B = true.
Proof.
  intros W Hd RA. destruct (pair_wfb_sound A B W) as (PW & _ & _).
  exact (aut_regen A B rc s s' PW (describesb_sound A B rc PW Hd) RA).
Qed.
