(** C07 — verdicts, embeddings and filter transparency of the cache-free engine functions (C07_History.v shows the
    cached ones give the same answers).  The WL-1 necessity lemma is a section hypothesis here; it is proved in
    C07_WL.v and discharged in C07_Final.v.  Stdlib lists. *)
From Coq Require Import List NArith Bool Arith Lia Permutation.
From SK Require Import lib.Tok lib.LGraph lib.Mono model.C07_Model proof.C07_Spec proof.C07_History proof.C07_Filters.
Import ListNotations.

Definition flip2 {X} (r : X -> X -> bool) (a b : X) : bool := r b a.

(** what the WL lemma needs from a node comparator: it implies equality of the selected attributes *)
Definition respects (na : list N) (nm : attrs -> attrs -> bool) : Prop :=
  forall h p, nm h p = true -> forall k, In k na -> get k h = get k p.

Definition wl_necessary : Prop :=
  forall na nm em H P f, gwf H -> gwf P -> n_nodes H = n_nodes P -> respects na nm ->
    emb true nm em H P f -> hist_contained (wl1_hash na P) (wl1_hash na H) = true.

Lemma bool_iff (a b : bool) : (a = true <-> b = true) -> a = b.
Proof. destruct a, b; intuition congruence. Qed.

(* ------------------------------------------------------------------ comparators *)
Lemma forallb_get_spec (ks : list N) h p :
  forallb (fun k => opt_eqb (get k h) (get k p)) ks = true <-> (forall k, In k ks -> get k h = get k p).
Proof. rewrite forallb_forall. split; intros A k I; [apply opt_eqb_eq | apply opt_eqb_eq]; auto. Qed.

Lemma nm_eng_spec e h p : nm_eng e h p = true <-> (forall k, In k (e_na e) -> get k h = get k p) /\ (hc p <= hc h)%N.
Proof. unfold nm_eng. rewrite andb_true_iff, forallb_get_spec, N.leb_le. tauto. Qed.

Lemma em_eng_spec e h p : em_eng e h p = true <-> (forall k, In k (e_ea e) -> get k h = get k p).
Proof. apply forallb_get_spec. Qed.

Lemma nm_eng_respects e : respects (e_na e) (nm_eng e).
Proof. intros h p E. apply nm_eng_spec in E. tauto. Qed.

Lemma flip_respects na nm : respects na nm -> respects na (flip2 nm).
Proof. intros R h p E k I. symmetry. apply (R p h E k I). Qed.

(* ------------------------------------------------------------------ inverse of an injection on a finite domain *)
Definition finv (f : N -> N) (dom : list N) (h : N) : N :=
  match find (fun u => N.eqb (f u) h) dom with Some u => u | None => 0%N end.

Lemma finv_r f dom h : (exists u, In u dom /\ f u = h) -> In (finv f dom h) dom /\ f (finv f dom h) = h.
Proof.
  intros (u & I & E). unfold finv. destruct (find (fun u => N.eqb (f u) h) dom) as [w|] eqn:F.
  - apply find_some in F. destruct F as (Iw & Ew). apply N.eqb_eq in Ew. auto.
  - exfalso. pose proof (find_none _ _ F u I) as Hn. simpl in Hn. rewrite E, N.eqb_refl in Hn. discriminate.
Qed.

Lemma finv_l f dom u : (forall a b, In a dom -> In b dom -> f a = f b -> a = b) -> In u dom -> finv f dom (f u) = u.
Proof.
  intros Inj I. destruct (finv_r f dom (f u)) as (Iw & Ew); [exists u; auto|]. apply Inj; auto.
Qed.

(* ------------------------------------------------------------------ sizes, onto, inverse isomorphism *)
Lemma emb_onto nm em G1 G2 f : gwf G1 -> gwf G2 -> n_nodes G1 = n_nodes G2 -> emb true nm em G1 G2 f -> iso_map nm em G1 G2 f.
Proof.
  intros W1 W2 En He. split; auto. intros h Ih.
  assert (Hincl : incl (node_ids G1) (map f (node_ids G2))).
  { apply NoDup_length_incl.
    - eapply emb_image_nodup; eauto. apply gwf_nodup; auto.
    - rewrite map_length, <- !n_nodes_ids. lia.
    - eapply emb_image_incl; eauto. }
  pose proof (Hincl h Ih) as I.
  apply in_map_iff in I. destruct I as (u & E & Iu). exists u. auto.
Qed.

Lemma iso_sizes nm em G1 G2 f : gwf G1 -> gwf G2 -> iso_map nm em G1 G2 f -> n_nodes G1 = n_nodes G2.
Proof.
  intros W1 W2 (He & On). apply Nat.le_antisymm; [|eapply emb_n_nodes; eauto; apply gwf_nodup; auto].
  rewrite !n_nodes_ids, <- (map_length f (node_ids G2)). apply NoDup_incl_length; [apply gwf_nodup; auto|].
  intros h Ih. destruct (On h Ih) as (u & Iu & <-). apply in_map. exact Iu.
Qed.

Lemma iso_inverse nm em G1 G2 f : iso_map nm em G1 G2 f ->
  iso_map (flip2 nm) (flip2 em) G2 G1 (finv f (node_ids G2)) /\
  (forall u, In u (node_ids G2) -> finv f (node_ids G2) (f u) = u) /\
  (forall h, In h (node_ids G1) -> f (finv f (node_ids G2) h) = h).
Proof.
  intros ((E1 & E2 & E3) & On). set (g := finv f (node_ids G2)).
  assert (G1r : forall h, In h (node_ids G1) -> In (g h) (node_ids G2) /\ f (g h) = h).
  { intros h Ih. apply finv_r. destruct (On h Ih) as (u & Iu & E). exists u. auto. }
  assert (Gl : forall u, In u (node_ids G2) -> g (f u) = u) by (intros u Iu; apply finv_l; auto).
  split; [|split; [exact Gl | intros h Ih; apply G1r; exact Ih]].
  split; [split; [|split]|].
  - intros h Ih. destruct (G1r h Ih) as (Ig & Eg). split; auto. unfold flip2.
    pose proof (proj2 (E1 (g h) Ig)) as Hn. rewrite Eg in Hn. exact Hn.
  - intros a b Ia Ib E. destruct (G1r a Ia) as (_ & Ea). destruct (G1r b Ib) as (_ & Eb). congruence.
  - intros a b Ia Ib Hne. destruct (G1r a Ia) as (Iga & Ea). destruct (G1r b Ib) as (Igb & Eb).
    assert (Hg : g a <> g b) by (intros E; apply Hne; congruence).
    specialize (E3 (g a) (g b) Iga Igb Hg). rewrite Ea, Eb in E3. unfold flip2.
    destruct (LGraph.adj G2 (g a) (g b)), (LGraph.adj G1 a b); auto; try discriminate; destruct E3.
  - intros u Iu. exists (f u). split; [apply E1; auto | apply Gl; auto].
Qed.

Lemma emb_weaken ind nm em nm' em' H P f :
  (forall u, In u (node_ids P) -> nm (nlabel H (f u)) (nlabel P u) = true -> nm' (nlabel H (f u)) (nlabel P u) = true) ->
  (forall b b', em b' b = true -> em' b' b = true) ->
  emb ind nm em H P f -> emb ind nm' em' H P f.
Proof.
  intros Hn Hm (E1 & E2 & E3). split; [|split; auto].
  - intros u Iu. destruct (E1 u Iu). split; auto.
  - intros u v Iu Iv Hne. specialize (E3 u v Iu Iv Hne). destruct (LGraph.adj P u v), (LGraph.adj H (f u) (f v)); auto.
Qed.

Lemma firstn_in {X} n : forall (l : list X) x, In x (firstn n l) -> In x l.
Proof. induction n as [|n IH]; intros [|y l] x; simpl; auto; try tauto. intros [E|I]; auto. Qed.

Section Engine.
Hypothesis WL : wl_necessary.
Variable vf2b : bool -> (attrs -> attrs -> bool) -> (attrs -> attrs -> bool) -> graph -> graph -> bool.
Variable enum : (attrs -> attrs -> bool) -> (attrs -> attrs -> bool) -> graph -> graph -> list mapping.
Hypothesis VB : vf2b_contract vf2b.
Hypothesis EN : enum_contract enum.

(** (5, engine) every check of _pre_check is a necessary condition for induced containment *)
Lemma pre_check_necessary e nm em H P : gwf H -> gwf P -> respects (e_na e) nm ->
  contained true nm em H P -> pre_check_p e H P = true.
Proof.
  intros WH WP R (f & He). unfold pre_check_p.
  assert (Ln : n_nodes P <= n_nodes H) by (eapply emb_n_nodes; eauto; apply gwf_nodup; auto).
  assert (Le : n_edges P <= n_edges H) by (eapply emb_n_edges; eauto).
  replace (n_nodes H <? n_nodes P) with false by (symmetry; apply Nat.ltb_ge; exact Ln).
  replace (n_edges H <? n_edges P) with false by (symmetry; apply Nat.ltb_ge; exact Le).
  simpl. destruct (negb (e_wl e) || negb (n_nodes H =? n_nodes P)) eqn:T; [reflexivity|].
  apply orb_false_iff in T. destruct T as (_ & T). apply negb_false_iff, Nat.eqb_eq in T.
  eapply WL; eauto.
Qed.

Lemma is_isomorphic_spec nm em G1 G2 : gwf G1 -> gwf G2 ->
  (is_isomorphic vf2b nm em G1 G2 = true <-> exists f, iso_map nm em G1 G2 f).
Proof.
  intros W1 W2. unfold is_isomorphic. rewrite andb_true_iff, Nat.eqb_eq, (VB true nm em G1 G2 W1 W2). split.
  - intros (En & f & He). exists f. apply emb_onto; auto.
  - intros (f & Hi). split; [eapply iso_sizes; eauto | exists f; apply Hi].
Qed.

(** (1) verdict of isomorphic *)
Theorem isomorphic_spec e g1 g2 : gwf g1 -> gwf g2 ->
  (isomorphic_p vf2b e g1 g2 = true <-> exists f, iso_map (nm_eng e) (em_eng e) g1 g2 f).
Proof.
  intros W1 W2. unfold isomorphic_p. destruct (n_nodes g2 <? n_nodes g1) eqn:Lt.
  - apply Nat.ltb_lt in Lt. split.
    + intros E. destruct (negb (pre_check_p e g1 g2)); [discriminate|].
      replace (n_nodes g2 =? n_nodes g1) with false in E by (symmetry; apply Nat.eqb_neq; lia).
      apply (VB true _ _ g2 g1 W2 W1) in E. destruct E as (f & He).
      pose proof (emb_n_nodes _ _ _ _ _ _ (gwf_nodup g1 W1) He). lia.
    + intros (f & Hi). pose proof (iso_sizes _ _ _ _ _ W1 W2 Hi). lia.
  - apply Nat.ltb_ge in Lt. destruct (n_nodes g1 =? n_nodes g2) eqn:En.
    + apply Nat.eqb_eq in En. split.
      * intros E. destruct (negb (pre_check_p e g2 g1)); [discriminate|]. apply is_isomorphic_spec; auto.
      * intros (f & Hi). destruct (iso_inverse _ _ _ _ _ Hi) as (Hinv & _).
        rewrite (pre_check_necessary e (flip2 (nm_eng e)) (flip2 (em_eng e)) g2 g1 W2 W1).
        -- simpl. apply is_isomorphic_spec; auto. exists f. exact Hi.
        -- apply flip_respects, nm_eng_respects.
        -- eexists. apply Hinv.
    + apply Nat.eqb_neq in En. split.
      * intros E. destruct (negb (pre_check_p e g2 g1)); [discriminate|].
        apply (VB true _ _ g1 g2 W1 W2) in E. destruct E as (f & He).
        pose proof (emb_n_nodes _ _ _ _ _ _ (gwf_nodup g2 W2) He). lia.
      * intros (f & Hi). pose proof (iso_sizes _ _ _ _ _ W1 W2 Hi). lia.
Qed.

(** graph_morphism.graph_isomorphism(use_defaults=True) *)
Theorem giso_spec dstar dzero done g1 g2 : gwf g1 -> gwf g2 ->
  (giso vf2b dstar dzero done g1 g2 = true <->
   exists f, iso_map (nm_sub [(1%N, dstar); (2%N, dzero)]) (fun h p => N.eqb (getd 4 done h) (getd 4 done p)) g1 g2 f).
Proof. intros W1 W2. apply is_isomorphic_spec; auto. Qed.

(** (3) boolean subgraph test = definition of induced / monomorphic containment, with or without the filter *)
Theorem sub_iso_spec uf ind nc ec names eattr child parent : gwf child -> gwf parent ->
  (sub_iso vf2b uf ind nc ec names eattr child parent = true <-> contained ind (nm_subc nc names) (em_subc ec eattr) parent child).
Proof.
  intros WC WP. unfold sub_iso. destruct (uf && negb (sub_filter nc ec names eattr child parent)) eqn:T.
  - split; [discriminate|]. intros C. apply andb_true_iff in T. destruct T as (_ & T).
    rewrite (sub_filter_necessary ind nc ec names eattr child parent WC WP C) in T. discriminate.
  - apply VB; auto.
Qed.

(** (5, subgraph test) *)
Theorem sub_iso_filter_transparent ind nc ec names eattr child parent : gwf child -> gwf parent ->
  sub_iso vf2b true ind nc ec names eattr child parent = sub_iso vf2b false ind nc ec names eattr child parent.
Proof. intros WC WP. apply bool_iff. rewrite !sub_iso_spec; auto. tauto. Qed.

(** (4) embeddings *)
Theorem get_mappings_valid e H P m : gwf H -> gwf P ->
  In m (get_mappings_p vf2b enum e H P) -> mapping_valid true (nm_eng e) (em_eng e) H P m.
Proof.
  intros WH WP. destruct (EN (nm_eng e) (em_eng e) H P WH WP) as (Ev & _). unfold get_mappings_p.
  destruct (negb (pre_check_p e H P)); [intros []|].
  destruct ((n_nodes P =? n_nodes H) && (n_edges P =? n_edges H)).
  - destruct (is_isomorphic vf2b (nm_eng e) (em_eng e) H P); [|intros []].
    destruct (enum (nm_eng e) (em_eng e) H P) as [|m0 r]; [intros []|]. intros [<-|[]]. apply Ev. left. reflexivity.
  - intros I. apply Ev. unfold take in I. destruct (e_mm e); auto. eapply firstn_in. exact I.
Qed.

Theorem get_mappings_nonempty e H P : gwf H -> gwf P -> e_mm e <> Some 0%N ->
  contained true (nm_eng e) (em_eng e) H P -> get_mappings_p vf2b enum e H P <> [].
Proof.
  intros WH WP Hmm C. destruct (EN (nm_eng e) (em_eng e) H P WH WP) as (_ & Ec). specialize (Ec C).
  unfold get_mappings_p. rewrite (pre_check_necessary e _ _ H P WH WP (nm_eng_respects e) C). simpl.
  destruct ((n_nodes P =? n_nodes H) && (n_edges P =? n_edges H)) eqn:T.
  - apply andb_true_iff in T. destruct T as (T & _). apply Nat.eqb_eq in T.
    assert (I : is_isomorphic vf2b (nm_eng e) (em_eng e) H P = true).
    { apply is_isomorphic_spec; auto. destruct C as (f & He). exists f. apply emb_onto; auto. }
    rewrite I. destruct (enum (nm_eng e) (em_eng e) H P); [congruence|discriminate].
  - unfold take. destruct (e_mm e) as [k|]; auto.
    destruct (enum (nm_eng e) (em_eng e) H P) as [|m0 r]; [congruence|].
    destruct (N.to_nat k) eqn:K; [|simpl; discriminate]. exfalso. apply Hmm. f_equal. lia.
Qed.

(** (5, engine) the WL filter flag changes neither the verdict nor the result list *)
Definition set_wl (e : engine) (b : bool) : engine := Eng (e_na e) (e_ea e) b (e_mm e).

Theorem isomorphic_filter_transparent e b g1 g2 : gwf g1 -> gwf g2 ->
  isomorphic_p vf2b (set_wl e b) g1 g2 = isomorphic_p vf2b e g1 g2.
Proof. intros W1 W2. apply bool_iff. rewrite !isomorphic_spec; auto. tauto. Qed.

Lemma enum_empty nm em H P : gwf H -> gwf P -> ~ contained true nm em H P -> enum nm em H P = [].
Proof.
  intros WH WP Hn. destruct (EN nm em H P WH WP) as (Ev & _). destruct (enum nm em H P) as [|m r]; auto.
  exfalso. apply Hn. exists (mfun m). apply (Ev m). left. reflexivity.
Qed.

Lemma pre_check_wl_off e H P : pre_check_p e H P = false -> pre_check_p (set_wl e false) H P = true ->
  gwf H -> gwf P -> ~ contained true (nm_eng e) (em_eng e) H P.
Proof.
  intros F T WH WP C. rewrite (pre_check_necessary e _ _ H P WH WP (nm_eng_respects e) C) in F. discriminate.
Qed.

Lemma pre_check_wl_mono e H P : pre_check_p e H P = true -> pre_check_p (set_wl e false) H P = true.
Proof.
  unfold pre_check_p. simpl. destruct ((n_nodes H <? n_nodes P) || (n_edges H <? n_edges P)); auto.
Qed.

Lemma get_mappings_wl_off e H P : gwf H -> gwf P ->
  get_mappings_p vf2b enum e H P = get_mappings_p vf2b enum (set_wl e false) H P.
Proof.
  intros WH WP. unfold get_mappings_p at 1 2. change (nm_eng (set_wl e false)) with (nm_eng e).
  change (em_eng (set_wl e false)) with (em_eng e). change (e_mm (set_wl e false)) with (e_mm e).
  destruct (pre_check_p e H P) eqn:A.
  - rewrite (pre_check_wl_mono e H P A). reflexivity.
  - destruct (pre_check_p (set_wl e false) H P) eqn:B; [|reflexivity]. simpl.
    pose proof (pre_check_wl_off e H P A B WH WP) as Hn.
    rewrite (enum_empty _ _ H P WH WP Hn).
    destruct ((n_nodes P =? n_nodes H) && (n_edges P =? n_edges H)).
    + destruct (is_isomorphic vf2b (nm_eng e) (em_eng e) H P); reflexivity.
    + unfold take. destruct (e_mm e); [rewrite firstn_nil|]; reflexivity.
Qed.

Theorem get_mappings_filter_transparent e b H P : gwf H -> gwf P ->
  get_mappings_p vf2b enum (set_wl e b) H P = get_mappings_p vf2b enum e H P.
Proof.
  intros WH WP. rewrite (get_mappings_wl_off e H P WH WP), (get_mappings_wl_off (set_wl e b) H P WH WP). reflexivity.
Qed.

(** (2b) symmetry for equal / absent hydrogen counts *)
Definition hc_all (c : N) (g : graph) : Prop := forall u, In u (node_ids g) -> hc (nlabel g u) = c.

Theorem isomorphic_symmetric e c g1 g2 : gwf g1 -> gwf g2 -> hc_all c g1 -> hc_all c g2 ->
  isomorphic_p vf2b e g1 g2 = isomorphic_p vf2b e g2 g1.
Proof.
  intros W1 W2 H1 H2. apply bool_iff. rewrite !isomorphic_spec; auto.
  assert (S : forall ga gb, hc_all c ga -> hc_all c gb ->
              (exists f, iso_map (nm_eng e) (em_eng e) ga gb f) -> exists f, iso_map (nm_eng e) (em_eng e) gb ga f).
  { intros ga gb Ha Hb (f & Hi). destruct (iso_inverse _ _ _ _ _ Hi) as ((He & On) & _ & _).
    exists (finv f (node_ids gb)). split; auto.
    pose proof (proj1 He) as Hdom. revert He. apply emb_weaken.
    - intros u Iu Hn. unfold flip2 in Hn. apply nm_eng_spec in Hn. apply nm_eng_spec. destruct Hn as (A & _).
      destruct (Hdom u Iu) as (Ig & _). rewrite (Ha u Iu), (Hb _ Ig).
      split; [intros k Ik; symmetry; auto | lia].
    - intros b b'. unfold flip2. rewrite !em_eng_spec. intros A k Ik. symmetry. auto. }
  split; apply S; auto.
Qed.
End Engine.
