(** C18 — order lemmas: lexicographic order on labels (code points), signatures (list Z), and the model's search
    as a fold over the unpruned leaf enumeration of lib/IRCore.v. *)
From Coq Require Import List NArith ZArith Bool Arith Lia Permutation.
From SK Require Import lib.IRSortKeys lib.IRCore lib.IRSearch lib.StrJoin model.C18_Model.
From SK Require lib.IRInst.
Import ListNotations.

Lemma lexlebN_total a : forall b, lexlebN a b = true \/ lexlebN b a = true.
Proof.
  induction a as [|x a IH]; intros [|y b]; simpl; auto.
  destruct (N.ltb_spec x y), (N.ltb_spec y x); auto; try lia.
Qed.
Lemma lexlebN_antisym a : forall b, lexlebN a b = true -> lexlebN b a = true -> a = b.
Proof.
  induction a as [|x a IH]; intros [|y b]; simpl; auto; try discriminate.
  destruct (N.ltb_spec x y), (N.ltb_spec y x); try discriminate; try lia.
  intros Ha Hb. assert (x = y) by lia. subst. f_equal. auto.
Qed.
Lemma lexlebN_trans a : forall b c, lexlebN a b = true -> lexlebN b c = true -> lexlebN a c = true.
Proof.
  induction a as [|x a IH]; intros [|y b] [|z c]; simpl; auto; try discriminate.
  destruct (N.ltb_spec x y), (N.ltb_spec y x), (N.ltb_spec y z), (N.ltb_spec z y), (N.ltb_spec x z), (N.ltb_spec z x);
    try discriminate; try lia; auto.
  intros Ha Hb. eapply IH; eauto.
Qed.
Lemma lexlebN_nil b : lexlebN [] b = true.
Proof. reflexivity. Qed.

(** the search of the model visits exactly the leaves of the unpruned enumeration, in order *)
Definition leaves_of (g : vgraph) : list (list N) :=
  let n := length (vnodes g) in leaves IRInst.lexleb (sig g) (S n) (S n) (init_part g) [].

Lemma canon_search_fold g :
  canon_search g = fold_left (visit lexlebN (label g)) (leaves_of g) (None, []).
Proof.
  unfold canon_search, leaves_of.
  apply (search_is_fold IRInst.lexleb (sig g) (S (length (vnodes g))) lexlebN lexlebN_total lexlebN_trans lexlebN_antisym
           (label g) no_bound).
  intros; reflexivity.
Qed.
